#!/usr/bin/env python3
"""Common runner for the /verif checks.

Every check is a module /verif/checks/<ID>.py with a function run(ctx).  It uses
ctx to (1) build the library and harnesses from /repo's current working tree,
(2) run TLC on the design specs (Leg D), (3) validate ND-JSON traces recorded from
the real code against the trace specs (Leg B), (4) report violations / known
findings and (5) write the evidence file.  TLC is the only judge in both legs.
"""
import os, sys, re, json, time, subprocess, shutil, hashlib, fcntl, random

ROOT = os.path.dirname(os.path.dirname(os.path.abspath(__file__)))
REPO = os.environ.get("VERIF_REPO", "/repo")
TLAJAR = "/opt/veriftools/tla/tla2tools.jar"
KNOWN = os.path.join(ROOT, "known_findings.jsonl")


def cm_classpath():
    # tlc wrapper puts CommunityModules on the classpath; find the jars it uses
    d = os.path.dirname(TLAJAR)
    jars = [TLAJAR] + [os.path.join(d, f) for f in sorted(os.listdir(d)) if f.endswith(".jar") and f != "tla2tools.jar"]
    return ":".join(jars)


class TlcResult:
    def __init__(self, rc, out, wall):
        self.rc, self.out, self.wall = rc, out, wall
        m = re.findall(r"(\d+) states generated, (\d+) distinct states found", out)
        self.generated = int(m[-1][0]) if m else 0
        self.distinct = int(m[-1][1]) if m else 0
        m = re.search(r"The depth of the complete state graph search is (\d+)", out)
        self.depth = int(m.group(1)) if m else 0
        self.complete = "Model checking completed" in out
        m = re.search(r"Invariant (\S+) is violated", out)
        self.violated = m.group(1) if m else None
        if not self.violated:
            m = re.search(r"Action property (\S+) is violated", out)
            self.violated = m.group(1) if m else None
        if not self.violated:
            m = re.search(r"Temporal property (\S+) was violated", out)
            self.violated = m.group(1) if m else None
        if not self.violated and "Temporal properties were violated" in out:
            self.violated = "<temporal>"
        if not self.violated and re.search(r"Deadlock reached", out):
            self.violated = "<deadlock>"
        self.postcondition_failed = bool(re.search(r"[Pp]ost-?condition.*(violated|false)|The postcondition", out)) and "violated" in out
        # a "model failure": parse error, evaluation error, java exception, timeout
        self.failed = (rc not in (0, 10, 11, 12, 13)) and not self.postcondition_failed
        if "Parsing or semantic analysis failed" in out or "TLC threw an unexpected exception" in out:
            self.failed = True
        self.ok = (rc == 0) and not self.violated and not self.failed and not self.postcondition_failed

    def coverage(self):
        """per-action (taken, generated) from -coverage output"""
        cov = {}
        for m in re.finditer(r"<(\w+) line \d+, col \d+ to line \d+, col \d+ of module (\w+)>: (\d+):(\d+)", self.out):
            cov[m.group(1)] = (int(m.group(3)), int(m.group(4)))
        return cov


class Ctx:
    def __init__(self, pid, tier, seed, replay=None):
        self.id, self.tier, self.seed, self.replay = pid, tier, seed, replay
        self.t0 = time.time()
        self.rng = random.Random(seed)
        self.work = os.path.join(ROOT, ".work", "%s-%d" % (pid, os.getpid()))
        shutil.rmtree(self.work, ignore_errors=True)
        os.makedirs(self.work)
        self.replays = os.path.join(ROOT, "out", "replays", pid)
        os.makedirs(self.replays, exist_ok=True)
        self.states = 0
        self.transitions = 0
        self.traces_ok = 0
        self.events = 0
        self.samples = []
        self.tlc_runs = []
        self.violations = []       # (signature, description, replay)
        self.known_hits = []
        self.drift = []
        self.assumptions = []
        self.extra = {}
        self.distinct = set()
        self.undecided = []        # model failures / harness failures: exit 2
        self.quick = (tier == "quick")
        self.known = load_known(pid)

    # ------------------------------------------------------------------ build
    def build(self, flavour="hooks"):
        p = subprocess.run([os.path.join(ROOT, "bin", "build.sh"), flavour], stdout=subprocess.PIPE, stderr=subprocess.PIPE, text=True)
        if p.returncode != 0:
            self.fatal("library build (%s) failed:\n%s" % (flavour, p.stderr[-4000:]))
        return p.stdout.strip().splitlines()[-1]

    def harness(self, name, sources, flavour="hooks", extra=(), std="c++11"):
        """compile /verif/harness sources against the freshly built library.  Rebuilt when any
        dependency (incl. /repo headers) or the library changed."""
        b = self.build(flavour)
        outdir = os.path.join(ROOT, ".build", "harness-" + os.path.basename(b))
        os.makedirs(outdir, exist_ok=True)
        exe = os.path.join(outdir, name)
        dep = exe + ".d"
        srcs = [s if os.path.isabs(s) else os.path.join(ROOT, "harness", s) for s in sources]
        san = []
        if flavour == "asan":
            san = ["-fsanitize=address,undefined", "-fno-omit-frame-pointer"]
        if flavour == "tsan":
            san = ["-fsanitize=thread"]
        cmd = ["g++", "-std=" + std, "-O1", "-g", "-DCPPCMS_VERIF", "-Wno-deprecated-declarations",
               "-I" + REPO, "-I" + REPO + "/private", "-I" + REPO + "/booster", "-I" + b, "-I" + b + "/booster",
               "-I" + os.path.join(ROOT, "harness"),
               "-MD", "-MF", dep] + san + srcs + list(extra) + [
               "-L" + b, "-L" + b + "/booster", "-lcppcms", "-lbooster", "-lpthread", "-ldl",
               "-Wl,-rpath," + b + ":" + b + "/booster", "-o", exe]
        lock = open(exe + ".lock", "w")
        fcntl.flock(lock, fcntl.LOCK_EX)
        try:
            stamp = hashlib.sha1(" ".join(cmd).encode()).hexdigest()
            if self._fresh(exe, dep, stamp):
                return exe
            p = subprocess.run(cmd, stdout=subprocess.PIPE, stderr=subprocess.STDOUT, text=True)
            if p.returncode != 0:
                self.fatal("harness build failed: %s\n%s" % (name, p.stdout[-6000:]))
            open(exe + ".stamp", "w").write(stamp)
            return exe
        finally:
            fcntl.flock(lock, fcntl.LOCK_UN)

    def _fresh(self, exe, dep, stamp):
        try:
            if open(exe + ".stamp").read() != stamp:
                return False
            t = os.path.getmtime(exe)
            txt = open(dep).read().replace("\\\n", " ")
            deps = txt.split(":", 1)[1].split()
            for d in deps:
                if os.path.getmtime(d) > t:
                    return False
            return True
        except Exception:
            return False

    def run_harness(self, exe, args=(), env=None, timeout=600, trace=None, stdin=None, ok_codes=(0,)):
        e = dict(os.environ)
        e["VERIF_SEED"] = str(self.seed)
        e["VERIF_TIER"] = self.tier
        e["VERIF_WORK"] = self.work
        if trace:
            e["VERIF_OUT"] = trace
        if env:
            e.update(env)
        try:
            p = subprocess.run([exe] + [str(a) for a in args], env=e, stdout=subprocess.PIPE, stderr=subprocess.PIPE,
                               timeout=timeout, input=stdin, text=True, cwd=self.work)
        except subprocess.TimeoutExpired as ex:
            return 124, (ex.stdout or b"").decode("utf8", "replace") if isinstance(ex.stdout, bytes) else (ex.stdout or ""), "TIMEOUT"
        return p.returncode, p.stdout, p.stderr

    # ------------------------------------------------------------------ TLC
    def tlc(self, module, cfg=None, workers=None, timeout=900, env=None, simulate=None, depth=None,
            deadlock_off=False, coverage=False, dfs=False, heap="8g", extra=(), count=True, note=None):
        """module: path relative to /verif/spec (e.g. 'Cache/Cache.tla')."""
        mpath = os.path.join(ROOT, "spec", module)
        mdir = os.path.dirname(mpath)
        cfgp = os.path.join(mdir, cfg) if cfg else mpath[:-4] + ".cfg"
        meta = os.path.join(self.work, "meta-%d" % len(self.tlc_runs) + "-%d" % random.randrange(1 << 30))
        if workers is None:
            workers = 8
        jopts = ["-XX:+UseParallelGC", "-Xss256m", "-Xmx" + heap, "-Dtlc2.tool.fp.FPSet.impl=tlc2.tool.fp.OffHeapDiskFPSet" if False else "-Dverif=1"]
        if dfs:
            jopts.append("-Dtlc2.tool.queue.IStateQueue=StateDeque")
        common = os.path.join(ROOT, "spec", "Common")
        cmd = ["java"] + jopts + ["-DTLA-Library=" + common, "-cp", cm_classpath(), "tlc2.TLC",
               "-workers", str(workers), "-metadir", meta, "-config", cfgp]
        if deadlock_off:
            cmd.append("-deadlock")
        if coverage:
            cmd += ["-coverage", "1"]
        if simulate:
            cmd += ["-simulate", "num=%d" % simulate]
            if depth:
                cmd += ["-depth", str(depth)]
            cmd += ["-seed", str(self.seed)]
        cmd += ["-noGenerateSpecTE"] + list(extra) + [mpath]
        e = dict(os.environ)
        if env:
            e.update({k: str(v) for k, v in env.items()})
        t = time.time()
        try:
            p = subprocess.run(cmd, stdout=subprocess.PIPE, stderr=subprocess.STDOUT, text=True, timeout=timeout, env=e, cwd=mdir)
            rc, out = p.returncode, p.stdout
        except subprocess.TimeoutExpired as ex:
            rc = 124
            out = (ex.stdout.decode("utf8", "replace") if isinstance(ex.stdout, bytes) else (ex.stdout or "")) + "\nTIMEOUT"
        r = TlcResult(rc, out, time.time() - t)
        shutil.rmtree(meta, ignore_errors=True)
        if count:
            self.states += r.distinct
            self.transitions += r.generated
        self.tlc_runs.append({"module": module, "cfg": os.path.basename(cfgp), "distinct": r.distinct, "generated": r.generated,
                              "depth": r.depth, "complete": r.complete, "wall_s": round(r.wall, 1), "rc": rc,
                              **({"note": note} if note else {}), **({"simulate": simulate} if simulate else {})})
        if coverage:
            cov = r.coverage()
            self.tlc_runs[-1]["actions_fired"] = {k: v[1] for k, v in sorted(cov.items())}
        return r

    def design(self, module, cfg=None, prop=None, expect_violation=None, allow_untaken=(), **kw):
        kw.setdefault("deadlock_off", False)
        """Leg D: run TLC on a design spec.  A violated invariant of the *design* on the unchanged
        specification is a defect in the design model; it is reported as VIOLATION (the spec is part
        of the claim) unless expect_violation names it (used by self-tests of mutated specs)."""
        r = self.tlc(module, cfg, **kw)
        if r.failed:
            self.undecided.append("TLC failed on %s/%s rc=%s:\n%s" % (module, cfg, r.rc, r.out[-3000:]))
            return r
        if expect_violation:
            if r.violated != expect_violation:
                self.undecided.append("self-test: %s/%s expected violation of %s, got %s" % (module, cfg, expect_violation, r.violated))
            return r
        if kw.get("coverage") and r.complete:
            # vacuity guard (TLC -coverage: distinct:generated per action): a named action that never fired means the properties were not exercised by it
            never = sorted(k for k, v in r.coverage().items() if v[1] == 0 and k not in allow_untaken and k not in ("Init",))
            if never:
                self.drift.append("vacuity: actions never taken in %s/%s: %s" % (module, cfg, ", ".join(never)))
        if r.violated:
            path = os.path.join(self.replays, "design-%s-%s.txt" % (os.path.basename(module), os.path.basename(cfg or "default")))
            open(path, "w").write(r.out)
            self.violation("design:%s:%s" % (module, r.violated), "TLC: %s violated in %s (%s)" % (r.violated, module, cfg), path)
        return r

    def apalache(self, module, args, expect_error=False, timeout=900, note=None):
        """Apalache (symbolic, unbounded over integers) on an annotated spec: used for inductive-invariant checks
        (--init=IndInit --inv=IndInv --length=1).  expect_error: the as-found variant must be refuted."""
        mpath = os.path.join(ROOT, "spec", module)
        out = os.path.join(self.work, "apalache-%d" % len(self.tlc_runs))
        cmd = ["apalache-mc", "check", "--out-dir=" + out] + list(args) + [os.path.basename(mpath)]
        t = time.time()
        try:
            p = subprocess.run(cmd, stdout=subprocess.PIPE, stderr=subprocess.STDOUT, text=True, timeout=timeout, cwd=os.path.dirname(mpath))
            rc, o = p.returncode, p.stdout
        except subprocess.TimeoutExpired:
            rc, o = 124, "TIMEOUT"
        shutil.rmtree(out, ignore_errors=True)
        ok = "EXITCODE: OK" in o
        err = "Checker has found an error" in o
        self.tlc_runs.append({"tool": "apalache", "module": module, "args": list(args), "result": "ok" if ok else ("error found" if err else "failed"),
                              "wall_s": round(time.time() - t, 1), **({"note": note} if note else {})})
        if expect_error:
            if not err:
                self.undecided.append("apalache self-test: %s %s was expected to be refuted: %s" % (module, args, o[-500:]))
        elif err:
            path = os.path.join(self.replays, "apalache-%s.txt" % os.path.basename(module))
            open(path, "w").write(o)
            self.violation("apalache:%s" % module, "Apalache refuted %s %s" % (module, " ".join(args)), path)
        elif not ok:
            self.undecided.append("apalache failed on %s: %s" % (module, o[-800:]))
        return ok

    def tlapm(self, module, timeout=900, note=None):
        """TLAPS: every proof obligation of the module must be discharged (no cached fingerprints are used)."""
        mpath = os.path.join(ROOT, "spec", module)
        cache = os.path.join(self.work, "tlapm-%d" % len(self.tlc_runs))
        cmd = ["tlapm", "--cleanfp", "--stretch", "3", "--cache-dir", cache, os.path.basename(mpath)]
        t = time.time()
        try:
            p = subprocess.run(cmd, stdout=subprocess.PIPE, stderr=subprocess.STDOUT, text=True, timeout=timeout, cwd=os.path.dirname(mpath))
            o = p.stdout
        except subprocess.TimeoutExpired:
            o = "TIMEOUT"
        shutil.rmtree(cache, ignore_errors=True)
        m = re.search(r"All (\d+) obligations? proved", o)
        self.tlc_runs.append({"tool": "tlapm", "module": module, "result": ("all %s obligations proved" % m.group(1)) if m else "failed",
                              "wall_s": round(time.time() - t, 1), **({"note": note} if note else {})})
        if not m:
            # a proof that does not go through is a failure of the model/proof, never a violation of the code
            self.undecided.append("tlapm did not prove %s: %s" % (module, o[-800:]))
        return bool(m)

    # ------------------------------------------------------------------ trace validation
    def validate(self, module, cfg, trace, dfs=False, timeout=900, resets=True, max_rejects=8, env=None, heap="8g", workers=1):
        """Leg B: validate an ND-JSON trace (executions separated by {"e":"Reset"} lines) against a
        trace spec.  Returns list of rejections: dicts(line, event, exec_lines, path).  After a rejection
        validation resumes at the next Reset so that the rest of the trace is still examined."""
        lines = open(trace).read().splitlines()
        lines = [x for x in lines if x.strip()]
        import uuid
        tag = uuid.uuid4().hex[:10]
        rejects = []
        start = 0
        part = 0
        total_exec = sum(1 for x in lines if '"e":"Reset"' in x) if resets else 1
        if resets and lines and '"e":"Reset"' not in lines[0]:
            total_exec += 1
        rejected_exec = 0
        while start < len(lines):
            sub = lines[start:]
            f = os.path.join(self.work, "part-%s-%d.ndjson" % (tag, part))
            part += 1
            open(f, "w").write("\n".join(sub) + "\n")
            e = {"TRACE": f}
            if env:
                e.update(env)
            r = self.tlc(module, cfg, workers=workers, timeout=timeout, env=e, deadlock_off=True, dfs=dfs, heap=heap, count=False)
            nomatch = lambda x: x.failed or x.rc == 124 or "TRACE-MATCHED" not in x.out
            if nomatch(r):
                # re-run once; a model failure is never a violation
                r = self.tlc(module, cfg, workers=workers, timeout=timeout, env=e, deadlock_off=True, dfs=dfs, heap=heap, count=False)
                if nomatch(r):
                    self.undecided.append("trace validation failed to run (%s %s): rc=%s\n%s" % (module, cfg, r.rc, r.out[-3000:]))
                    break
            self.extra["trace_states"] = self.extra.get("trace_states", 0) + r.distinct
            accepted = self._accepted(r, len(sub))
            if accepted:
                self.events += len(sub)
                break
            # longest matched prefix
            k = self._matched(r, len(sub))
            # confirm by re-running the identical file once
            r2 = self.tlc(module, cfg, workers=workers, timeout=timeout, env=e, deadlock_off=True, dfs=dfs, heap=heap, count=False)
            if self._accepted(r2, len(sub)):
                self.undecided.append("flaky trace validation (%s): accepted on re-run" % module)
                break
            bad = start + k   # index of first unmatched line
            # the execution containing it
            s = bad
            while s > start and '"e":"Reset"' not in lines[s]:
                s -= 1
            t = bad + 1
            while t < len(lines) and '"e":"Reset"' not in lines[t]:
                t += 1
            ex = lines[s:t]
            rp = os.path.join(self.replays, "reject-%s-%d-%s-%d.ndjson" % (os.path.basename(module)[:-4], int(self.t0), tag, len(rejects)))
            open(rp, "w").write("\n".join(ex) + "\n")
            rejects.append({"line": bad + 1, "event": lines[bad] if bad < len(lines) else "<end>", "exec": ex, "path": rp,
                            "offset_in_exec": bad - s})
            rejected_exec += 1
            self.events += max(0, bad - start)
            if len(rejects) >= max_rejects:
                break
            start = t
            if not resets:
                break
        self.traces_ok += max(0, total_exec - rejected_exec) if not self.undecided else 0
        return rejects

    def _accepted(self, r, n):
        if r.failed:
            return False
        m = re.findall(r"TRACE-MATCHED (\d+)", r.out)
        return bool(m) and int(m[-1]) >= n

    def _matched(self, r, n):
        m = re.findall(r"TRACE-MATCHED (\d+)", r.out)
        if m:
            return min(int(m[-1]), n - 1 if n else 0)
        return max(0, min(r.depth - 1, n - 1))

    def binding_selftest(self, module, cfg, trace, mutations, dfs=False, env=None):
        """Binding demonstration (DESIGN 2.5): each mutation (name, fn(lines)->lines|None) of an ACCEPTED trace
        must be rejected by the trace spec; otherwise the binding is vacuous -> undecided, never a violation."""
        lines = [x for x in open(trace).read().splitlines() if x.strip()]
        res = {}
        for name, fn in mutations:
            m = fn(list(lines))
            if not m or m == lines:
                res[name] = "not-applicable"
                continue
            f = os.path.join(self.work, "selftest-%s.ndjson" % name)
            open(f, "w").write("\n".join(m) + "\n")
            e = {"TRACE": f}
            if env:
                e.update(env)
            r = self.tlc(module, cfg, workers=1, timeout=600, env=e, deadlock_off=True, dfs=dfs, count=False, note="binding self-test: " + name)
            if r.failed and "TRACE-MATCHED" not in r.out:
                res[name] = "tlc-failed"
                self.undecided.append("binding self-test %s: TLC failed on the mutated trace" % name)
            elif self._accepted(r, len(m)):
                res[name] = "ACCEPTED"
                self.undecided.append("binding self-test %s: the mutated trace was ACCEPTED by %s (vacuous binding)" % (name, module))
            else:
                res[name] = "rejected at line %d" % (self._matched(r, len(m)) + 1)
            os.remove(f)
        self.extra.setdefault("binding_selftest", {}).update(res)
        return res

    # ------------------------------------------------------------------ reporting
    def sample(self, s):
        if len(self.samples) < 12:
            self.samples.append(s)

    def seen(self, key):
        self.distinct.add(key)

    def violation(self, signature, desc, replay):
        for k in self.known:
            if k.get("status") == "known" and k.get("signature") == signature:
                if signature not in [h[0] for h in self.known_hits]:
                    self.known_hits.append((signature, k.get("what", desc)))
                return False
        self.violations.append((signature, desc, replay))
        return True

    def fatal(self, msg):
        sys.stderr.write("UNDECIDED %s: %s\n" % (self.id, msg))
        self.undecided.append(msg)
        self.finish()

    def finish(self):
        wall = time.time() - self.t0
        ev = {
            "property_id": self.id, "tier": self.tier, "seed": self.seed, "level": "model_checking",
            "coverage": {
                "states": self.states, "transitions": self.transitions,
                "traces_validated_against_impl": self.traces_ok,
                "samples": self.samples or ["<none>"],
                "evaluations": self.events, "distinct_nontrivial": len(self.distinct),
                "rule": self.extra.pop("rule", "events = trace lines validated by TLC; distinct = distinct (action, argument-class) signatures seen by the driver"),
                "exhaustive": bool(self.extra.pop("exhaustive", False)),
                "tlc_runs": self.tlc_runs,
                **self.extra,
            },
            "assumptions": self.assumptions,
            "wall_s": round(wall, 1),
            "violations": len(self.violations),
            "known_findings_hit": [h[0] for h in self.known_hits],
            "model_drift": self.drift,
            "undecided": [u[:500] for u in self.undecided],
        }
        os.makedirs(os.path.join(ROOT, "evidence"), exist_ok=True)
        with open(os.path.join(ROOT, "evidence", self.id + ".json"), "w") as f:
            json.dump(ev, f, indent=1)
        for sig, what in self.known_hits:
            print("KNOWN-FINDING: property=%s %s [%s]" % (self.id, what, sig))
        for d in self.drift:
            print("MODEL-DRIFT: property=%s %s" % (self.id, d))
        for sig, desc, replay in self.violations:
            print("VIOLATION property=%s replay=%s  # %s [%s]" % (self.id, replay, desc, sig))
        shutil.rmtree(self.work, ignore_errors=True)
        if self.violations:
            sys.exit(1)
        if self.undecided:
            for u in self.undecided:
                sys.stderr.write("UNDECIDED: %s\n" % u[:3000])
            sys.exit(2)
        print("OK property=%s tier=%s states=%d transitions=%d traces=%d events=%d wall=%.1fs" % (
            self.id, self.tier, self.states, self.transitions, self.traces_ok, self.events, wall))
        sys.exit(0)


def load_known(pid):
    out = []
    if os.path.exists(KNOWN):
        for ln in open(KNOWN):
            ln = ln.strip()
            if not ln or ln.startswith("#"):
                continue
            try:
                k = json.loads(ln)
            except Exception:
                continue
            if k.get("property") == pid:
                out.append(k)
    return out


def main(argv):
    import argparse, importlib.util
    ap = argparse.ArgumentParser()
    ap.add_argument("id")
    ap.add_argument("--tier", default=os.environ.get("VERIF_TIER", "quick"))
    ap.add_argument("--replay", default=None)
    a = ap.parse_args(argv)
    if a.tier not in ("quick", "thorough"):
        a.tier = "quick"
    seed = int(os.environ.get("VERIF_SEED", "1") or 1)
    ctx = Ctx(a.id, a.tier, seed, a.replay)
    path = os.path.join(ROOT, "checks", a.id + ".py")
    spec = importlib.util.spec_from_file_location("check_" + a.id, path)
    mod = importlib.util.module_from_spec(spec)
    sys.path.insert(0, os.path.join(ROOT, "lib"))
    spec.loader.exec_module(mod)
    try:
        mod.run(ctx)
    except SystemExit:
        raise
    except Exception:
        import traceback
        ctx.undecided.append("check crashed:\n" + traceback.format_exc())
    ctx.finish()


if __name__ == "__main__":
    main(sys.argv[1:])
