"""Leg D of C03: Out.tla (property layer) and OutImpl.tla (mechanism) explored by TLC."""
import concurrent.futures

QUICK = ["OutImpl_q_sync.cfg", "OutImpl_q_async.cfg", "OutImpl_q_asyncx.cfg"]
THOROUGH = ["OutImpl_t_sync.cfg", "OutImpl_t_scgi.cfg", "OutImpl_t_fcgi.cfg", "OutImpl_t_http.cfg"]
# configurations in which TLC must find a counterexample: the two deviations of the code at the pinned commit
# (as-is switches) and six seeded faults of the mechanism - a self-test that the invariants bite
MUST_FAIL = ["OutImpl_asis_shrink.cfg", "OutImpl_asis_eof.cfg", "OutImpl_asis_eof_fcgi.cfg",
             "OutImpl_mut1.cfg", "OutImpl_mut2.cfg", "OutImpl_mut3.cfg", "OutImpl_mut4.cfg", "OutImpl_mut5.cfg", "OutImpl_mut6.cfg"]


def run(ctx):
    ctx.design("Output/Out.tla", "Out.cfg", workers=2, timeout=300, heap="2g", deadlock_off=True,
               note="property layer alone: PrefixInv OneHeader NoEarlyEnd Complete CacheCopy and [][StepOK]_vars")
    cfgs = QUICK if ctx.quick else THOROUGH
    w = 5 if ctx.quick else 8
    with concurrent.futures.ThreadPoolExecutor(max_workers=3 if ctx.quick else 2) as ex:
        list(ex.map(lambda c: ctx.design("Output/OutImpl.tla", c, workers=w, timeout=300 if ctx.quick else 1500, heap="6g" if ctx.quick else "12g",
                                         extra=["-noGenerateSpecTE"],
                                         note="mechanism, all programs x all accept-prefix/would-block schedules; Out invariants on the mapped variables"), cfgs))
    must = [MUST_FAIL[0], MUST_FAIL[3]] if ctx.quick else MUST_FAIL
    found = {}

    def selftest(c):
        r = ctx.tlc("Output/OutImpl.tla", c, workers=3, timeout=600, heap="4g", count=False, extra=["-noGenerateSpecTE"],
                    note="self-test: a counterexample is expected")
        found[c] = r.violated
        if r.failed or not r.violated:
            ctx.undecided.append("Leg D self-test %s: TLC found no counterexample (rc=%s)\n%s" % (c, r.rc, r.out[-1500:]))
    with concurrent.futures.ThreadPoolExecutor(max_workers=4) as ex:
        list(ex.map(selftest, must))
    ctx.extra["leg_d_selftests"] = found
