"""Helpers for function-style checks (C04, C13): run several harness shards and several
trace validations concurrently.  ctx.validate() is not re-entrant (it derives scratch and replay
file names from the pid and the start time), so every concurrent validation works on a shallow
copy of ctx with its own scratch directory / time stamp; counters are merged afterwards."""
import copy, os, re, itertools, threading
from concurrent.futures import ThreadPoolExecutor

_counter = itertools.count(1)
_lock = threading.Lock()


def run_harness_jobs(ctx, exe, jobs, threads=6, timeout=1500):
    """jobs: list of (trace_path, args).  Returns list of trace paths that were produced."""
    ok = []

    def one(job):
        path, args = job
        rc, out, err = ctx.run_harness(exe, args, trace=path, timeout=timeout)
        if rc != 0:
            with _lock:
                ctx.undecided.append("harness %s %s failed rc=%s %s" % (os.path.basename(exe), list(args), rc, (err or "")[-400:]))
            return None
        return path
    with ThreadPoolExecutor(max_workers=threads) as ex:
        for p in ex.map(one, jobs):
            if p:
                ok.append(p)
    return ok


def parallel_validate(ctx, module, cfg, traces, threads=6, heap="3g", timeout=1500, max_rejects=8, dfs=False):
    """returns {trace: [rejections]}"""
    res = {}

    def one(tr):
        with _lock:
            n = next(_counter)
        c = copy.copy(ctx)
        c.work = os.path.join(ctx.work, "val-%d" % n)
        os.makedirs(c.work, exist_ok=True)
        c.t0 = int(ctx.t0) * 1000 + n          # only used to name replay files
        c.events, c.traces_ok, c.extra, c.undecided = 0, 0, {}, []
        rej = c.validate(module, cfg, tr, timeout=timeout, heap=heap, max_rejects=max_rejects, dfs=dfs)
        with _lock:
            ctx.events += c.events
            ctx.traces_ok += c.traces_ok
            ctx.undecided += c.undecided
            ctx.extra["trace_states"] = ctx.extra.get("trace_states", 0) + c.extra.get("trace_states", 0)
        return tr, rej
    with ThreadPoolExecutor(max_workers=threads) as ex:
        for tr, rej in ex.map(one, traces):
            res[tr] = rej
    return res


def parallel_print_pass(ctx, module, cfg, traces, tag, threads=6, heap="3g", timeout=1500):
    """run a never-rejecting trace spec that PrintT()s tuples <<tag, line, ...>>; returns
    {trace: [tuple-of-fields-as-strings]}.  A failed run is reported as undecided."""
    res = {}
    pat = re.compile(r'<<"%s", ([^>]*)>>' % re.escape(tag))

    def one(tr):
        r = ctx.tlc(module, cfg, workers=1, timeout=timeout, env={"TRACE": tr}, deadlock_off=True, heap=heap, count=False)
        if r.failed or "TRACE-MATCHED" not in r.out:
            with _lock:
                ctx.undecided.append("%s %s failed on %s rc=%s\n%s" % (module, cfg, os.path.basename(tr), r.rc, r.out[-1500:]))
            return tr, []
        return tr, [[y.strip() for y in m.group(1).split(",")] for m in pat.finditer(r.out)]
    with ThreadPoolExecutor(max_workers=threads) as ex:
        for tr, rows in ex.map(one, traces):
            res[tr] = rows
    return res


def event_at(path, line):
    """1-based line of a trace file"""
    with open(path) as f:
        for i, ln in enumerate(f, 1):
            if i == line:
                return ln.strip()
    return ""
