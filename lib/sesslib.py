"""Helpers of checks/C06.py: Leg-D configurations of spec/Session/Sess.tla, the Leg-B job list for
harness/session/sess_drv.cpp, and trace validation against spec/Session/SessTrace.tla with
 - diagnosis of a rejection (which property clause, when switched off, explains it -> signature),
 - collection of the DEVIATION lines the trace spec prints for diagnosed deviation classes.
"""
import os, re, json, shutil, threading
from concurrent.futures import ThreadPoolExecutor

ROOT = os.path.dirname(os.path.dirname(os.path.abspath(__file__)))
SPECDIR = os.path.join(ROOT, "spec", "Session")
HOW = {"fixed": 0, "renew": 1, "browser": 2}
LOCS = ("both", "server", "client")
EXPS = ("renew", "fixed", "browser")
CLAUSES = ("Carry", "Load", "SidForm", "Dead", "Kept", "FreshSid", "Deadline", "Exposed", "Kind", "Cookie")
ALLOPS = '{"set","erase","clear","expose","hide","age","how","srv","reset"}'

DESCR = {
    "MetaAfterClear": "after clear() followed by another mutation in the same request the next request reads default "
                      "age/expiration/on_server although the clearing request's getters (and the deadline it wrote) showed the old settings",
    "ExposedNotRenewed": "polite jar: an exposed cookie is not re-sent when the session is renewed by a request that changes other data; "
                         "its Max-Age runs out while the session lives on, the key stays exposed but the browser has no cookie",
}


# ---------------------------------------------------------------------------------------- Leg D
def _cfg_text(c):
    keys = ",".join('"%s"' % k for k in c["keys"])
    return """SPECIFICATION Spec
CONSTANTS
  Browsers = {%s}
  Keys = {%s}
  CLoc = "%s"
  CHow0 = %d
  CAge0 = 100
  CPol = %s
  Vals = {%s}
  Ages = {%s}
  Hows = {%s}
  OpKinds = %s
  Advances = {%s}
  WfIds = {1,2,3,4,5,6,7,8,9,10,11,12,13,14}
  JunkIds = {901}
  MaxReq = %d
  MaxOps = %d
  MaxTamper = %d
VIEW View
INVARIANTS Carry NoForeign Dead SidForm Exposed JarLeft
PROPERTIES FreshSid Unusable DeadlineFixed DeadlineRenew
""" % (",".join(map(str, c["browsers"])), keys, c["loc"], HOW[c["exp"]], "TRUE" if c["pol"] else "FALSE",
       ",".join(map(str, c["vals"])), ",".join(map(str, c["ages"])), ",".join(map(str, c["hows"])),
       c["ops"], ",".join(map(str, c["adv"])), c["maxreq"], c["maxops"], c["tamper"])


def _solo(loc, exp, pol, maxreq, maxops, adv=(3, 40, 99, 101), keys=("a",), vals=(1,), tamper=1):
    others = [h for h in (0, 1, 2) if h != HOW[exp]]
    return dict(browsers=[0], keys=keys, loc=loc, exp=exp, pol=pol, vals=vals, ages=[50], hows=others, ops=ALLOPS,
                adv=adv, maxreq=maxreq, maxops=maxops, tamper=tamper)


def _duo(loc, exp, pol, maxreq=2, maxops=1, adv=(40, 101), ops='{"set","clear","reset","how"}'):
    others = [h for h in (0, 1, 2) if h != HOW[exp]][:1]
    return dict(browsers=[0, 1], keys=("a",), loc=loc, exp=exp, pol=pol, vals=(1,), ages=[50], hows=others, ops=ops,
                adv=adv, maxreq=maxreq, maxops=maxops, tamper=1)


def design_runs(quick):
    runs = []
    if quick:
        runs.append(("both-renew-adv-solo", _solo("both", "renew", False, 2, 2)))
        runs.append(("client-browser-pol-solo", _solo("client", "browser", True, 3, 1)))
        runs.append(("server-fixed-pol-duo", _duo("server", "fixed", True, adv=(40, 101), ops='{"set","clear","reset"}')))
    else:
        for loc in LOCS:
            for exp in EXPS:
                runs.append(("%s-%s-adv-solo" % (loc, exp), _solo(loc, exp, False, 3, 2, adv=(3, 40, 99, 101))))
                runs.append(("%s-%s-pol-solo" % (loc, exp), _solo(loc, exp, True, 3, 1, adv=(3, 10, 40, 99, 100, 101))))
                runs.append(("%s-%s-adv-duo" % (loc, exp), _duo(loc, exp, False)))
        runs.append(("both-renew-pol-duo", _duo("both", "renew", True)))
        runs.append(("server-fixed-pol-duo", _duo("server", "fixed", True)))
        runs.append(("both-renew-adv-solo-2keys", _solo("both", "renew", False, 2, 2, keys=("a", "b"), vals=(1, 2))))
    return runs


def write_cfg(ctx, name, consts):
    p = os.path.join(ctx.work, "Sess_%s.cfg" % name)
    with open(p, "w") as f:
        f.write(_cfg_text(consts))
    return p


# ---------------------------------------------------------------------------------------- Leg B
def binding_runs(quick):
    """list of (label, harness args, shard or None)"""
    jobs = []
    if quick:
        for loc in LOCS:
            for exp in EXPS:
                for jar in ("adv", "pol"):
                    jobs.append(("rand", ["rand", loc, exp, "memory", jar, 4, 150, 6], None))
        jobs.append(("rand-files", ["rand", "both", "renew", "files", "adv", 3, 100, 3], None))
        jobs.append(("rand-files", ["rand", "server", "fixed", "files", "pol", 3, 100, 3], None))
        for loc, exp, jar in (("both", "renew", "adv"), ("server", "fixed", "adv"), ("client", "browser", "adv"),
                              ("both", "browser", "pol"), ("server", "renew", "pol")):
            for sh in range(2):
                jobs.append(("exh3x1", ["exh", loc, exp, "memory", jar, 3, 1], "%d/2" % sh))
    else:
        for loc in LOCS:
            for exp in EXPS:
                for jar in ("adv", "pol"):
                    for sh in range(2):
                        jobs.append(("rand", ["rand", loc, exp, "memory", jar, 4, 500, 20], "%d/2" % sh))
                jobs.append(("rand-files", ["rand", loc, exp, "files", "adv", 4, 200, 6], None))
                # all request sequences of depth 3, <= 1 operation each, every advance class between requests
                n = 8 if loc == "both" else 4
                for sh in range(n):
                    a = ["exh", loc, exp, "memory", "adv", 3, 1, 1] + (["alladv"] if loc == "both" else [])
                    jobs.append(("exh3x1", a, "%d/%d" % (sh, n)))
                for sh in range(2):
                    jobs.append(("exh3x1-pol", ["exh", loc, exp, "memory", "pol", 3, 1], "%d/2" % sh))
                # all request sequences of depth 2, <= 2 operations each, 2 keys
                for sh in range(6):
                    jobs.append(("exh2x2", ["exh", loc, exp, "memory", "adv", 2, 2, 2], "%d/6" % sh))
        for exp in EXPS:
            jobs.append(("exh2x2-files", ["exh", "both", exp, "files", "adv", 2, 1, 2], None))
    return jobs


_lock = threading.Lock()


def _tlc(ctx, trace, cfg):
    return ctx.tlc("Session/SessTrace.tla", cfg, workers=1, timeout=900, env={"TRACE": trace}, deadlock_off=True,
                   count=False, heap="4g")


def _matched(r):
    m = re.findall(r"TRACE-MATCHED (\d+)", r.out)
    return int(m[-1]) if m else None


def relax_cfg(ctx, clauses):
    name = "SessTrace_relax_%s.cfg" % "_".join(clauses)
    p = os.path.join(ctx.work, name)
    if not os.path.exists(p):
        base = open(os.path.join(SPECDIR, "SessTrace.cfg")).read()
        txt = base.replace("Relax = {}", "Relax = {%s}" % ",".join('"%s"' % c for c in clauses))
        with _lock:
            open(p, "w").write(txt)
    return p


def diagnose(ctx, exec_lines, offset, tag):
    """which single property clause, when switched off, lets TLC get past the rejected line?"""
    f = os.path.join(ctx.work, "diag-%s.ndjson" % tag)
    open(f, "w").write("\n".join(exec_lines) + "\n")
    hit = []
    for c in CLAUSES:
        r = _tlc(ctx, f, relax_cfg(ctx, [c]))
        k = _matched(r)
        if k is not None and k > offset:
            hit.append(c)
    os.remove(f)
    return hit


def validate(ctx, trace, tag, max_rejects=4):
    """returns dict(rejects=[...], deviations={class: (count, first_exec_lines)}, events=n, execs_ok=n)"""
    lines = [x for x in open(trace).read().splitlines() if x.strip()]
    res = {"rejects": [], "deviations": {}, "events": 0, "execs": 0, "undecided": None}
    cfg = os.path.join(SPECDIR, "SessTrace.cfg")
    start = 0
    part = 0
    total_exec = sum(1 for x in lines if '"e":"Reset"' in x)
    bad_exec = 0
    while start < len(lines):
        sub = lines[start:]
        f = os.path.join(ctx.work, "part-%s-%d.ndjson" % (tag, part))
        part += 1
        open(f, "w").write("\n".join(sub) + "\n")
        r = _tlc(ctx, f, cfg)
        k = _matched(r)
        if r.failed or k is None:
            r = _tlc(ctx, f, cfg)
            k = _matched(r)
            if r.failed or k is None:
                res["undecided"] = "trace validation failed to run (%s): rc=%s\n%s" % (tag, r.rc, r.out[-2500:])
                break
        # deviations reported by the trace spec (line numbers relative to this part)
        for m in set(re.findall(r"DEVIATION (\w+) line (\d+)", r.out)):
            cls, ln = m[0], int(m[1])
            if ln > k + 1:
                continue
            cnt, first = res["deviations"].get(cls, (0, None))
            if True:
                s = ln - 1
                while s > 0 and '"e":"Reset"' not in sub[s]:
                    s -= 1
                t = ln
                while t < len(sub) and '"e":"Reset"' not in sub[t]:
                    t += 1
                if first is None or (ln - 1 - s) < first[1]:
                    first = (sub[s:t], ln - 1 - s)
            res["deviations"][cls] = (cnt + 1, first)
        if k >= len(sub):
            res["events"] += len(sub)
            os.remove(f)
            break
        # rejected at line k+1 of this part: confirm once on the identical file
        r2 = _tlc(ctx, f, cfg)
        k2 = _matched(r2)
        os.remove(f)
        if k2 is not None and k2 >= len(sub):
            res["undecided"] = "flaky trace validation (%s): accepted on re-run" % tag
            break
        bad = start + k
        s = bad
        while s > start and '"e":"Reset"' not in lines[s]:
            s -= 1
        t = bad + 1
        while t < len(lines) and '"e":"Reset"' not in lines[t]:
            t += 1
        ex = lines[s:t]
        clauses = diagnose(ctx, ex, bad - s, "%s-%d" % (tag, len(res["rejects"])))
        res["rejects"].append({"event": lines[bad], "exec": ex, "offset": bad - s, "clauses": clauses})
        bad_exec += 1
        res["events"] += max(0, bad - start)
        if len(res["rejects"]) >= max_rejects:
            # the rest of this trace stays unexamined: say so
            res["truncated"] = True
            break
        start = t
    res["execs"] = max(0, total_exec - bad_exec)
    return res


def _history(ex, upto):
    """compact, human-readable request history of a rejected / deviating execution"""
    out = []
    cur = None
    for ln in ex[:upto + 1]:
        try:
            e = json.loads(ln)
        except Exception:
            continue
        n = e.get("e")
        if n == "Reset":
            out.append("[loc=%s how0=%s %s %s]" % (e.get("loc"), e.get("how0"), "polite" if e.get("pol") else "adversarial", e.get("st")))
        elif n == "Tick":
            out.append("+%ds" % e["d"])
        elif n == "Tamper":
            out.append("b%d:jar<-%s%d(%s)" % (e["b"], e["ck"]["kind"], e["ck"]["id"], e.get("src")))
        elif n in ("Expire", "Restart"):
            out.append("b%d:%s" % (e["b"], n.lower()))
        elif n == "Req":
            cur = "b%d[%s%d]:" % (e["b"], e["ck"]["kind"], e["ck"]["id"])
            out.append(cur)
        elif n == "Op":
            a = e["op"] + "".join("(%s)" % e[k] for k in ("k", "t", "h", "s") if k in e)
            out.append(a)
        elif n == "Saved":
            out.append("->%s%d" % (e["ck"]["kind"], e["ck"]["id"]))
    return " ".join(out)


def run_binding(ctx, exe, jobs, bundle_lines=60000):
    """run every harness job, concatenate the traces into bundles of about bundle_lines lines (every execution
    starts with a Reset line that also carries its configuration, so executions of different jobs can share a
    file and one JVM), validate the bundles in parallel"""
    nthreads = 6 if ctx.quick else 8

    def drive(i, job):
        label, args, shard = job
        t = os.path.join(ctx.work, "c06-%d.ndjson" % i)
        env = {"VERIF_SHARD": shard} if shard else {}
        rc, out, err = ctx.run_harness(exe, args, trace=t, env=env, timeout=900)
        if rc != 0:
            return (job, None, "sess_drv %s failed rc=%s %s" % (args, rc, (err or "")[-400:]))
        return (job, t, None)

    with ThreadPoolExecutor(max_workers=nthreads) as pool:
        driven = list(pool.map(lambda x: drive(*x), enumerate(jobs)))

    bundles = []          # (path, nlines)
    cur, curn, sampled = None, 0, 0
    for job, t, err in driven:
        label, args, shard = job
        if err:
            ctx.undecided.append(err)
            continue
        with open(t) as f:
            lines = f.readlines()
        os.remove(t)
        for ln in lines[:3000]:
            try:
                e = json.loads(ln)
            except Exception:
                continue
            n = e.get("e")
            if n == "Op":
                ctx.seen(("Op", e.get("op"), args[1], args[2]))
            elif n == "Loaded":
                ctx.seen(("Loaded", e.get("ok"), len(e.get("m", [])), e.get("how"), e.get("srv"), args[1], args[4]))
            elif n == "Saved":
                ctx.seen(("Saved", e["ck"]["kind"], len(e.get("sc", [])), args[1], args[2], args[4]))
            elif n in ("Tamper", "Expire", "Restart"):
                ctx.seen((n, e.get("src"), args[1]))
        if sampled < 4 and lines:
            sampled += 1
            ctx.sample({"driver": [str(a) for a in args], "first_events": [x.strip() for x in lines[:8]]})
        if cur is None or curn + len(lines) > bundle_lines:
            cur = open(os.path.join(ctx.work, "bundle-%d.ndjson" % len(bundles)), "w")
            bundles.append([cur.name, 0])
            curn = 0
        cur.writelines(lines)
        cur.flush()
        curn += len(lines)
        bundles[-1][1] = curn

    def check(i, b):
        return validate(ctx, b[0], "b%d" % i)

    with ThreadPoolExecutor(max_workers=nthreads) as pool:
        results = list(pool.map(lambda x: check(*x), enumerate(bundles)))

    devs = {}
    for res in results:
        if res["undecided"]:
            ctx.undecided.append(res["undecided"])
        ctx.events += res["events"]
        ctx.traces_ok += res["execs"]
        for x in res["rejects"]:
            try:
                ev = json.loads(x["event"]).get("e")
            except Exception:
                ev = "end"
            sig = "reject:%s:%s" % (ev, "+".join(x["clauses"]) or "structure")
            rp = os.path.join(ctx.replays, "reject-%s-%d.ndjson" % (sig.replace(":", "_").replace("+", "_"), int(ctx.t0)))
            if not os.path.exists(rp):
                open(rp, "w").write("\n".join(x["exec"]) + "\n")
            desc = "history not a behaviour of Sess (clause %s) at %s | %s" % ("/".join(x["clauses"]) or "?", x["event"][:140],
                                                                              _history(x["exec"], x["offset"])[-900:])
            if sig not in [v[0] for v in ctx.violations] + [h[0] for h in ctx.known_hits]:
                ctx.violation(sig, desc, rp)
        if res.get("truncated"):
            ctx.extra["truncated_traces"] = ctx.extra.get("truncated_traces", 0) + 1
        for cls, (cnt, first) in res["deviations"].items():
            c0, f0 = devs.get(cls, (0, None))
            if f0 is None or first[1] < f0[1]:
                f0 = first
            devs[cls] = (c0 + cnt, f0)
    for cls, (cnt, first) in sorted(devs.items()):
        ex, off = first
        rp = os.path.join(ctx.replays, "deviation-%s-%d.ndjson" % (cls, int(ctx.t0)))
        open(rp, "w").write("\n".join(ex[:off + 4]) + "\n")
        ctx.extra.setdefault("deviations", {})[cls] = cnt
        ctx.violation("deviation:%s" % cls, "%s (%d occurrences; shortest: %s)" % (DESCR.get(cls, cls), cnt, _history(ex, off)[-600:]), rp)
    for b in bundles:
        try:
            os.remove(b[0])
        except OSError:
            pass
    # the per-bundle TLC runs are summarised (the runner lists every TLC invocation otherwise)
    tr = [r for r in ctx.tlc_runs if r["module"].endswith("SessTrace.tla")]
    ctx.tlc_runs[:] = [r for r in ctx.tlc_runs if not r["module"].endswith("SessTrace.tla")]
    if tr:
        ctx.tlc_runs.append({"module": "Session/SessTrace.tla", "cfg": "SessTrace.cfg", "runs": len(tr), "distinct": sum(r["distinct"] for r in tr),
                             "generated": sum(r["generated"] for r in tr), "depth": max(r["depth"] for r in tr), "complete": all(r["complete"] for r in tr),
                             "wall_s": round(sum(r["wall_s"] for r in tr), 1), "rc": max(r["rc"] for r in tr), "note": "trace validation, summed"})
