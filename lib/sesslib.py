"""Helpers of checks/C06.py: Leg-D configurations of spec/Session/Sess.tla, the Leg-B job list for
harness/session/sess_drv.cpp, and trace validation against spec/Session/SessTrace.tla with
 - diagnosis of a rejection (which property clause, when switched off, explains it -> signature),
 - collection of the DEVIATION lines the trace spec prints for diagnosed deviation classes.
"""
import os, re, json, shutil, threading
from concurrent.futures import ThreadPoolExecutor

ROOT = os.path.dirname(os.path.dirname(os.path.abspath(__file__)))
SPECDIR = os.path.join(ROOT, "spec", "Session")
HOW = {"fixed": 0, "renew": 1, "browser": 2}
LOCS = ("both", "server", "client")
EXPS = ("renew", "fixed", "browser")
CLAUSES = ("Carry", "Load", "SidForm", "Dead", "Kept", "FreshSid", "Deadline", "Exposed", "Kind", "Cookie", "Ops")
ALLOPS = '{"set","erase","clear","expose","hide","age","how","srv","reset"}'

DESCR = {
    "MetaAfterClear": "after clear() followed by another mutation in the same request the next request reads default "
                      "age/expiration/on_server although the clearing request's getters (and the deadline it wrote) showed the old settings",
    "ExposedNotRenewed": "polite jar: an exposed cookie is not re-sent when the session is renewed by a request that changes other data; "
                         "its Max-Age runs out while the session lives on, the key stays exposed but the browser has no cookie",
}


# ---------------------------------------------------------------------------------------- Leg D
def _cfg_text(c):
    keys = ",".join('"%s"' % k for k in c["keys"])
    return """SPECIFICATION Spec
CONSTANTS
  Browsers = {%s}
  Keys = {%s}
  CLoc = "%s"
  CHow0 = %d
  CAge0 = 100
  CPol = %s
  Vals = {%s}
  Ages = {%s}
  Hows = {%s}
  OpKinds = %s
  Advances = {%s}
  WfIds = {1,2,3,4,5,6,7,8,9,10,11,12,13,14}
  JunkIds = {901}
  MaxReq = %d
  MaxOps = %d
  MaxTamper = %d
VIEW View
INVARIANTS Carry NoForeign Dead SidForm Exposed JarLeft
PROPERTIES FreshSid Unusable DeadlineFixed DeadlineRenew
""" % (",".join(map(str, c["browsers"])), keys, c["loc"], HOW[c["exp"]], "TRUE" if c["pol"] else "FALSE",
       ",".join(map(str, c["vals"])), ",".join(map(str, c["ages"])), ",".join(map(str, c["hows"])),
       c["ops"], ",".join(map(str, c["adv"])), c["maxreq"], c["maxops"], c["tamper"])


def _solo(loc, exp, pol, maxreq, maxops, adv=(3, 40, 99, 101), keys=("a",), vals=(1,), tamper=1):
    others = [h for h in (0, 1, 2) if h != HOW[exp]]
    return dict(browsers=[0], keys=keys, loc=loc, exp=exp, pol=pol, vals=vals, ages=[50], hows=others, ops=ALLOPS,
                adv=adv, maxreq=maxreq, maxops=maxops, tamper=tamper)


def _duo(loc, exp, pol, maxreq=2, maxops=1, adv=(40, 101), ops='{"set","clear","reset","how"}'):
    others = [h for h in (0, 1, 2) if h != HOW[exp]][:1]
    return dict(browsers=[0, 1], keys=("a",), loc=loc, exp=exp, pol=pol, vals=(1,), ages=[50], hows=others, ops=ops,
                adv=adv, maxreq=maxreq, maxops=maxops, tamper=1)


def design_runs(quick):
    runs = []
    if quick:
        runs.append(("both-renew-adv-solo", _solo("both", "renew", False, 2, 2)))
        runs.append(("client-browser-pol-solo", _solo("client", "browser", True, 3, 1)))
        runs.append(("server-fixed-pol-duo", _duo("server", "fixed", True, adv=(40, 101), ops='{"set","clear","reset"}')))
    else:
        for loc in LOCS:
            for exp in EXPS:
                runs.append(("%s-%s-adv-solo3x1" % (loc, exp), _solo(loc, exp, False, 3, 1, adv=(3, 10, 40, 99, 100, 101))))
                runs.append(("%s-%s-adv-solo2x2" % (loc, exp), _solo(loc, exp, False, 2, 2, keys=("a", "b"), vals=(1, 2))))
                runs.append(("%s-%s-pol-solo3x1" % (loc, exp), _solo(loc, exp, True, 3, 1, adv=(3, 40, 99, 100, 101))))
                runs.append(("%s-%s-adv-duo" % (loc, exp), _duo(loc, exp, False)))
        runs.append(("both-renew-pol-duo", _duo("both", "renew", True)))
        runs.append(("server-fixed-pol-duo", _duo("server", "fixed", True)))
    return runs


NOCLEAR = '{"set","erase","expose","hide","age","how","srv","reset"}'
IMPL_INV = "MechSaveOK MechPlacement Carry NoForeign Dead SidForm Exposed JarLeft"


def _impl_text(loc, exp, pol, faithful, ops, inv, maxreq, maxops, adv=(3, 40, 99, 101)):
    c = _solo(loc, exp, pol, maxreq, maxops, adv=adv, vals=(1, 2), tamper=0)
    c["ops"] = ops
    t = _cfg_text(c)
    t = t.replace("SPECIFICATION Spec", "SPECIFICATION ISpec").replace("VIEW View", "VIEW IView")
    t = t.replace("  Vals = {1,2}\n", "  Vals = {1,2}\n  BigVals = {2}\n  Faithful = %s\n" % ("TRUE" if faithful else "FALSE"))
    t = t[:t.index("INVARIANTS")] + "INVARIANTS %s\n" % inv
    return t


def impl_runs(quick):
    """(name, cfg text, invariant expected to be violated or None).  Faithful=TRUE models the code as it is; the two
    expected counter-examples are the design-level reproduction of the deviations reported by Leg B."""
    runs = [
        ("impl-repaired-both-pol", _impl_text("both", "renew", True, False, ALLOPS, IMPL_INV, 2, 2), None),
        ("impl-code-meta", _impl_text("both", "renew", False, True, '{"set","clear","age","how","srv"}', "Carry", 3, 2, adv=(3, 101)), "Carry"),
        ("impl-code-exposed", _impl_text("server", "renew", True, True, NOCLEAR, "Exposed", 3, 2), "Exposed"),
    ]
    if not quick:
        for loc in LOCS:
            for exp in EXPS:
                runs.append(("impl-repaired-%s-%s-pol" % (loc, exp), _impl_text(loc, exp, True, False, ALLOPS, IMPL_INV, 3, 2 if loc != "both" else 1), None))
                runs.append(("impl-code-noclear-%s-%s-adv" % (loc, exp), _impl_text(loc, exp, False, True, NOCLEAR, IMPL_INV, 3, 2 if loc != "both" else 1), None))
    return runs


def run_impl(ctx):
    """mechanism layer (SessImpl): a disagreement here is MODEL-DRIFT, not a violation (DESIGN 1.2)"""
    for name, text, expect in impl_runs(ctx.quick):
        p = os.path.join(ctx.work, "SessImpl_%s.cfg" % name)
        open(p, "w").write(text)
        r = ctx.tlc("Session/SessImpl.tla", p, workers=8 if ctx.quick else 16, timeout=240 if ctx.quick else 1500, heap="12g",
                    deadlock_off=True, note=name + (" (expected counter-example: %s)" % expect if expect else ""))
        if r.failed:
            ctx.undecided.append("TLC failed on SessImpl/%s rc=%s:\n%s" % (name, r.rc, r.out[-2000:]))
        elif expect:
            if r.violated != expect:
                ctx.drift.append("SessImpl %s: the model of the code as it is no longer yields the %s counter-example (got %s)" % (name, expect, r.violated))
        elif r.violated:
            ctx.drift.append("SessImpl %s: mechanism model violates %s" % (name, r.violated))


def write_cfg(ctx, name, consts):
    p = os.path.join(ctx.work, "Sess_%s.cfg" % name)
    with open(p, "w") as f:
        f.write(_cfg_text(consts))
    return p


# ---------------------------------------------------------------------------------------- Leg B
def binding_runs(quick):
    """list of (label, harness args, shard or None)"""
    jobs = []
    # the step "request N replaces a value by another one of the same length and changes nothing else, request N+1
    # reads it back", for every member of the byte-string value family (NUL first/middle/last, equal as C strings,
    # last byte only, bytes >= 0x80, store_data() blobs), under every location x expire x storage (both tiers)
    for loc in LOCS:
        for exp in EXPS:
            for st in (("memory",) if loc == "client" else ("memory", "files")):
                jobs.append(("same", ["same", loc, exp, st, "pol" if (exp == "renew" and st == "memory") else "adv"], None))
    if quick:
        for loc in LOCS:
            for exp in EXPS:
                for jar in ("adv", "pol"):
                    jobs.append(("rand", ["rand", loc, exp, "memory", jar, 4, 150, 6], None))
        jobs.append(("rand-files", ["rand", "both", "renew", "files", "adv", 3, 100, 3], None))
        jobs.append(("rand-files", ["rand", "server", "fixed", "files", "pol", 3, 100, 3], None))
        for loc, exp, jar in (("both", "renew", "adv"), ("server", "fixed", "adv"), ("client", "browser", "adv"),
                              ("both", "browser", "pol"), ("server", "renew", "pol")):
            for sh in range(2):
                jobs.append(("exh3x1", ["exh", loc, exp, "memory", jar, 3, 1], "%d/2" % sh))
    else:
        for loc in LOCS:
            for exp in EXPS:
                for jar in ("adv", "pol"):
                    for sh in range(2):
                        jobs.append(("rand", ["rand", loc, exp, "memory", jar, 4, 500, 20], "%d/2" % sh))
                jobs.append(("rand-files", ["rand", loc, exp, "files", "adv", 4, 200, 6], None))
                # all request sequences of depth 3, <= 1 operation each, every advance class between requests
                n = 8 if loc == "both" else 4
                for sh in range(n):
                    a = ["exh", loc, exp, "memory", "adv", 3, 1, 1] + (["alladv"] if loc == "both" else [])
                    jobs.append(("exh3x1", a, "%d/%d" % (sh, n)))
                for sh in range(2):
                    jobs.append(("exh3x1-pol", ["exh", loc, exp, "memory", "pol", 3, 1], "%d/2" % sh))
                # all request sequences of depth 2, <= 2 operations each, 2 keys
                for sh in range(6):
                    jobs.append(("exh2x2", ["exh", loc, exp, "memory", "adv", 2, 2, 2 if loc == "both" else 1], "%d/6" % sh))
        for exp in EXPS:
            jobs.append(("exh2x2-files", ["exh", "both", exp, "files", "adv", 2, 1, 2], None))
    return jobs


_lock = threading.Lock()


def _tlc(ctx, trace, cfg):
    return ctx.tlc("Session/SessTrace.tla", cfg, workers=1, timeout=900, env={"TRACE": trace}, deadlock_off=True,
                   count=False, heap="4g")


def _matched(r):
    m = re.findall(r"TRACE-MATCHED (\d+)", r.out)
    return int(m[-1]) if m else None


def relax_cfg(ctx, clauses):
    name = "SessTrace_relax_%s.cfg" % "_".join(clauses)
    p = os.path.join(ctx.work, name)
    if not os.path.exists(p):
        base = open(os.path.join(SPECDIR, "SessTrace.cfg")).read()
        txt = base.replace("Relax = {}", "Relax = {%s}" % ",".join('"%s"' % c for c in clauses))
        with _lock:
            open(p, "w").write(txt)
    return p


def diagnose(ctx, exec_lines, offset, tag):
    """which single property clause, when switched off, lets TLC get past the rejected line?"""
    f = os.path.join(ctx.work, "diag-%s.ndjson" % tag)
    open(f, "w").write("\n".join(exec_lines) + "\n")
    hit = []
    for c in CLAUSES:
        r = _tlc(ctx, f, relax_cfg(ctx, [c]))
        k = _matched(r)
        if k is not None and k > offset:
            hit.append(c)
    if not hit:
        for combo in (["Carry", "Load"], ["Deadline", "Kept"], list(CLAUSES)):
            r = _tlc(ctx, f, relax_cfg(ctx, combo))
            k = _matched(r)
            if k is not None and k > offset:
                hit = combo if len(combo) < len(CLAUSES) else ["several"]
                break
    os.remove(f)
    return hit


def validate(ctx, trace, tag, max_rejects=4):
    """returns dict(rejects=[...], deviations={class: (count, first_exec_lines)}, events=n, execs_ok=n)"""
    lines = [x for x in open(trace).read().splitlines() if x.strip()]
    res = {"rejects": [], "deviations": {}, "events": 0, "execs": 0, "undecided": None}
    cfg = os.path.join(SPECDIR, "SessTrace.cfg")
    start = 0
    part = 0
    total_exec = sum(1 for x in lines if '"e":"Reset"' in x)
    bad_exec = 0
    while start < len(lines):
        sub = lines[start:]
        f = os.path.join(ctx.work, "part-%s-%d.ndjson" % (tag, part))
        part += 1
        open(f, "w").write("\n".join(sub) + "\n")
        r = _tlc(ctx, f, cfg)
        k = _matched(r)
        if r.failed or k is None:
            r = _tlc(ctx, f, cfg)
            k = _matched(r)
            if r.failed or k is None:
                res["undecided"] = "trace validation failed to run (%s): rc=%s\n%s" % (tag, r.rc, r.out[-2500:])
                break
        # deviations reported by the trace spec (line numbers relative to this part)
        for m in set(re.findall(r"DEVIATION (\w+) line (\d+)", r.out)):
            cls, ln = m[0], int(m[1])
            if ln > k + 1:
                continue
            cnt, first = res["deviations"].get(cls, (0, None))
            if True:
                s = ln - 1
                while s > 0 and '"e":"Reset"' not in sub[s]:
                    s -= 1
                t = ln
                while t < len(sub) and '"e":"Reset"' not in sub[t]:
                    t += 1
                if first is None or (ln - 1 - s) < first[1]:
                    first = (sub[s:t], ln - 1 - s)
            res["deviations"][cls] = (cnt + 1, first)
        if k >= len(sub):
            res["events"] += len(sub)
            os.remove(f)
            break
        # rejected at line k+1 of this part: confirm once on the identical file
        r2 = _tlc(ctx, f, cfg)
        k2 = _matched(r2)
        os.remove(f)
        if k2 is not None and k2 >= len(sub):
            res["undecided"] = "flaky trace validation (%s): accepted on re-run" % tag
            break
        bad = start + k
        s = bad
        while s > start and '"e":"Reset"' not in lines[s]:
            s -= 1
        t = bad + 1
        while t < len(lines) and '"e":"Reset"' not in lines[t]:
            t += 1
        ex = lines[s:t]
        clauses = diagnose(ctx, ex, bad - s, "%s-%d" % (tag, len(res["rejects"])))
        res["rejects"].append({"event": lines[bad], "exec": ex, "offset": bad - s, "clauses": clauses})
        bad_exec += 1
        res["events"] += max(0, bad - start)
        if len(res["rejects"]) >= max_rejects:
            # the rest of this trace stays unexamined: say so
            res["truncated"] = True
            break
        start = t
    res["execs"] = max(0, total_exec - bad_exec)
    return res


def _history(ex, upto):
    """compact, human-readable request history of a rejected / deviating execution"""
    out = []
    cur = None
    for ln in ex[:upto + 1]:
        try:
            e = json.loads(ln)
        except Exception:
            continue
        n = e.get("e")
        if n == "Reset":
            out.append("[loc=%s how0=%s %s %s]" % (e.get("loc"), e.get("how0"), "polite" if e.get("pol") else "adversarial", e.get("st")))
        elif n == "Tick":
            out.append("+%ds" % e["d"])
        elif n == "Tamper":
            out.append("b%d:jar<-%s%d(%s)" % (e["b"], e["ck"]["kind"], e["ck"]["id"], e.get("src")))
        elif n in ("Expire", "Restart"):
            out.append("b%d:%s" % (e["b"], n.lower()))
        elif n == "Req":
            cur = "b%d[%s%d]:" % (e["b"], e["ck"]["kind"], e["ck"]["id"])
            out.append(cur)
        elif n == "Op":
            a = e["op"] + "".join("(%s)" % e[k] for k in ("k", "t", "h", "s") if k in e)
            out.append(a)
        elif n == "Saved":
            out.append("->%s%d" % (e["ck"]["kind"], e["ck"]["id"]))
    return " ".join(out)


def run_binding(ctx, exe, jobs, bundle_lines=60000):
    """run every harness job, concatenate the traces into bundles of about bundle_lines lines (every execution
    starts with a Reset line that also carries its configuration, so executions of different jobs can share a
    file and one JVM), validate the bundles in parallel"""
    nthreads = 6 if ctx.quick else 8

    def drive(i, job):
        label, args, shard = job
        t = os.path.join(ctx.work, "c06-%d.ndjson" % i)
        env = {"VERIF_SHARD": shard} if shard else {}
        rc, out, err = ctx.run_harness(exe, args, trace=t, env=env, timeout=900)
        if rc != 0:
            return (job, None, "sess_drv %s failed rc=%s %s" % (args, rc, (err or "")[-400:]))
        return (job, t, None)

    with ThreadPoolExecutor(max_workers=nthreads) as pool:
        driven = list(pool.map(lambda x: drive(*x), enumerate(jobs)))

    bundles = []          # (path, nlines)
    cur, curn, sampled = None, 0, 0
    for job, t, err in driven:
        label, args, shard = job
        if err:
            ctx.undecided.append(err)
            continue
        with open(t) as f:
            lines = f.readlines()
        os.remove(t)
        for ln in lines[:3000]:
            try:
                e = json.loads(ln)
            except Exception:
                continue
            n = e.get("e")
            if n == "Op":
                ctx.seen(("Op", e.get("op"), args[1], args[2]))
            elif n == "Loaded":
                ctx.seen(("Loaded", e.get("ok"), len(e.get("m", [])), e.get("how"), e.get("srv"), args[1], args[4]))
            elif n == "Saved":
                ctx.seen(("Saved", e["ck"]["kind"], len(e.get("sc", [])), args[1], args[2], args[4]))
            elif n in ("Tamper", "Expire", "Restart"):
                ctx.seen((n, e.get("src"), args[1]))
        if sampled < 4 and lines:
            sampled += 1
            ctx.sample({"driver": [str(a) for a in args], "first_events": [x.strip() for x in lines[:8]]})
        if cur is None or curn + len(lines) > bundle_lines:
            cur = open(os.path.join(ctx.work, "bundle-%d.ndjson" % len(bundles)), "w")
            bundles.append([cur.name, 0])
            curn = 0
        cur.writelines(lines)
        cur.flush()
        curn += len(lines)
        bundles[-1][1] = curn

    def check(i, b):
        return validate(ctx, b[0], "b%d" % i)

    with ThreadPoolExecutor(max_workers=nthreads) as pool:
        results = list(pool.map(lambda x: check(*x), enumerate(bundles)))

    devs = {}
    for res in results:
        if res["undecided"]:
            ctx.undecided.append(res["undecided"])
        ctx.events += res["events"]
        ctx.traces_ok += res["execs"]
        for x in res["rejects"]:
            try:
                ev = json.loads(x["event"]).get("e")
            except Exception:
                ev = "end"
            sig = "reject:%s:%s" % (ev, "+".join(x["clauses"]) or "structure")
            rp = os.path.join(ctx.replays, "reject-%s-%d.ndjson" % (sig.replace(":", "_").replace("+", "_"), int(ctx.t0)))
            if not os.path.exists(rp):
                open(rp, "w").write("\n".join(x["exec"]) + "\n")
            desc = "history not a behaviour of Sess (clause %s) at %s | %s" % ("/".join(x["clauses"]) or "?", x["event"][:140],
                                                                              _history(x["exec"], x["offset"])[-900:])
            if sig not in [v[0] for v in ctx.violations] + [h[0] for h in ctx.known_hits]:
                ctx.violation(sig, desc, rp)
        if res.get("truncated"):
            ctx.extra["truncated_traces"] = ctx.extra.get("truncated_traces", 0) + 1
        for cls, (cnt, first) in res["deviations"].items():
            c0, f0 = devs.get(cls, (0, None))
            if f0 is None or first[1] < f0[1]:
                f0 = first
            devs[cls] = (c0 + cnt, f0)
    for cls, (cnt, first) in sorted(devs.items()):
        ex, off = first
        rp = os.path.join(ctx.replays, "deviation-%s-%d.ndjson" % (cls, int(ctx.t0)))
        open(rp, "w").write("\n".join(ex[:off + 4]) + "\n")
        ctx.extra.setdefault("deviations", {})[cls] = cnt
        ctx.violation("deviation:%s" % cls, "%s (%d occurrences; shortest: %s)" % (DESCR.get(cls, cls), cnt, _history(ex, off)[-600:]), rp)
    for b in bundles:
        try:
            os.remove(b[0])
        except OSError:
            pass
    # the per-bundle TLC runs are summarised (the runner lists every TLC invocation otherwise)
    tr = [r for r in ctx.tlc_runs if r["module"].endswith("SessTrace.tla")]
    ctx.tlc_runs[:] = [r for r in ctx.tlc_runs if not r["module"].endswith("SessTrace.tla")]
    if tr:
        ctx.tlc_runs.append({"module": "Session/SessTrace.tla", "cfg": "SessTrace.cfg", "runs": len(tr), "distinct": sum(r["distinct"] for r in tr),
                             "generated": sum(r["generated"] for r in tr), "depth": max(r["depth"] for r in tr), "complete": all(r["complete"] for r in tr),
                             "wall_s": round(sum(r["wall_s"] for r in tr), 1), "rc": max(r["rc"] for r in tr), "note": "trace validation, summed"})


SELFTEST_SCRIPT = """new 2
req 0 set:a:s; expose:a
tick 40
req 0 set:b:b
tick 3
steal 1 0
req 1 reset
tick 3
req 0
"""


def selftest(ctx, exe):
    """binding self-test: a recorded history is accepted, and the same history with one corrupted field (a loaded
    value; the sid kept across reset_session; a dropped Jar event) is rejected.  A failure is a defect of the
    check, not of the code: reported as undecided."""
    t = os.path.join(ctx.work, "selftest.ndjson")
    rc, out, err = ctx.run_harness(exe, ["script", "both", "renew", "memory", "adv"], trace=t, stdin=SELFTEST_SCRIPT, timeout=120)
    if rc != 0:
        ctx.undecided.append("self-test: harness failed rc=%s %s" % (rc, (err or "")[-300:]))
        return
    L = [json.loads(x) for x in open(t) if x.strip()]
    cfg = os.path.join(SPECDIR, "SessTrace.cfg")

    def matched(M, name):
        f = os.path.join(ctx.work, name)
        open(f, "w").write("\n".join(json.dumps(x, separators=(",", ":")) for x in M) + "\n")
        k = _matched(_tlc(ctx, f, cfg))
        os.remove(f)
        return k
    import copy
    if matched(L, "st0.ndjson") != len(L):
        ctx.undecided.append("self-test: the unmodified scripted history was not accepted")
        return
    loaded = [i for i, x in enumerate(L) if x["e"] == "Loaded"]
    saved = [i for i, x in enumerate(L) if x["e"] == "Saved"]
    jars = [i for i, x in enumerate(L) if x["e"] == "Jar"]
    M1 = copy.deepcopy(L); M1[loaded[1]]["m"][0]["v"] += 1
    M2 = copy.deepcopy(L); M2[saved[2]]["ck"]["id"] = M2[saved[1]]["ck"]["id"]
    M3 = copy.deepcopy(L); del M3[jars[0]]
    for name, M, at in (("value", M1, loaded[1]), ("fixation", M2, saved[2]), ("dropped-event", M3, jars[0])):
        k = matched(M, "st-%s.ndjson" % name)
        if k is None or k >= len(M) or not (at - 1 <= k <= at + 1):
            ctx.undecided.append("self-test: corrupted trace (%s) matched %s lines, expected rejection at line %d" % (name, k, at + 1))
    ctx.extra["selftest"] = "3 corrupted traces rejected at the corrupted line"
