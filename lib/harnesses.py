# name -> (sources relative to /verif/harness, extra compiler/linker flags)
ALL = {
    "cache_drv": (["cache/cache_drv.cpp"], []),
    "conc_drv": (["cache/conc_drv.cpp"], []),
}
