"""Single source of truth for MANIFEST.json (bin/mkmanifest.py renders it)."""
GUARD = "CPPCMS_VERIF"
HOOK_COMMITS = ["f8a197b"]

CHECKS = {
 "C07": dict(
   technique="TLA+ property-layer spec (history variables) model-checked by TLC + trace validation of real cache executions under a fake clock",
   text="TLC exhaustively explores Cache.tla (3 names, all trigger sets, limits 0..2, clock 0..3) for NeverStale/LiveIsFound/HeldNotDead; every operation sequence run against the real thread- and process-shared caches (exhaustive short ones, long random ones, via base_cache and via cache_interface) must be a behaviour of the spec, checked by TLC event by event.",
   note="Assumes the time() interposition reaches every clock read of the cache; values are self-describing so foreign/torn data is visible; alphabets beyond 16 names only sampled.",
   ref="3/C07"),
 "C08": dict(
   technique="TLA+ spec of limit/eviction rule + 4-index mechanism model refining it (TLC) + strict trace validation incl. stats() after every operation",
   text="TLC checks Bound, OrderInv and the EvictRule action property on Cache.tla, IndexInv and refinement on CacheImpl.tla, allocator invariants on Buddy.tla; real caches with limits 1..8 are driven with key alphabets larger than the limit and each fetch result and stats() pair must equal what the specification computes from the history (ties among expired victims free).",
   note="Out-of-memory deviations of the process-shared cache (dropped store, clear on bad_alloc) are not driven; memory release is checked through refill capacity, not by inspecting the allocator of the live cache.",
   ref="3/C08"),
}
CHECKS["C09"] = dict(
   technique="TLA+ model of the lock protocol (all interleavings, TLC, safety+liveness, seeded-bug non-vacuity) + trace validation of multi-threaded runs using in-lock hook events ordered by a global sequence number",
   text="TLC explores every interleaving of 2x2 / 3x1 / 2x3 cache operations at lock-step granularity (Conc.tla): reader/writer exclusion, LRU-list exclusion, linearization point inside the call, returned value = value at the linearization point, no torn value, termination under weak fairness. Real 2..8-thread runs are recorded through hooks inside the critical sections and accepted only if lock events respect the exclusion rules and the Lin events, in sequence order, form a behaviour of the sequential cache spec with every return value equal to its own Lin result - i.e. each observed history is linearizable with real-time-consistent linearization points.",
   note="Hook placement is trusted (events emitted while the lock is held); unhooked accesses are only covered through their effects and the optional TSan run (thorough tier, aid only). Clock constant during concurrent rounds.",
   ref="3/C09")

NOT_APPLICABLE = {
}
