"""Single source of truth for MANIFEST.json (bin/mkmanifest.py renders it)."""
GUARD = "CPPCMS_VERIF"
HOOK_COMMITS = ["f8a197b", "0d36e35"]

CHECKS = {
 "C07": dict(
   technique="TLA+ property-layer spec (history variables) model-checked by TLC + trace validation of real cache executions under a fake clock",
   text="TLC exhaustively explores Cache.tla (3 names, all trigger sets, limits 0..2, clock 0..3) for NeverStale/LiveIsFound/HeldNotDead; every operation sequence run against the real thread- and process-shared caches (exhaustive short ones, long random ones, via base_cache and via cache_interface) must be a behaviour of the spec, checked by TLC event by event.",
   note="Assumes the time() interposition reaches every clock read of the cache; values are self-describing so foreign/torn data is visible; alphabets beyond 16 names only sampled.",
   ref="3/C07"),
 "C08": dict(
   technique="TLA+ spec of limit/eviction rule + 4-index mechanism model refining it (TLC) + strict trace validation incl. stats() after every operation",
   text="TLC checks Bound, OrderInv and the EvictRule action property on Cache.tla, IndexInv and refinement on CacheImpl.tla, allocator invariants on Buddy.tla; real caches with limits 1..8 are driven with key alphabets larger than the limit and each fetch result and stats() pair must equal what the specification computes from the history (ties among expired victims free).",
   note="Out-of-memory deviations of the process-shared cache (dropped store, clear on bad_alloc) are not driven; memory release is checked through refill capacity, not by inspecting the allocator of the live cache.",
   ref="3/C08"),
}
CHECKS["C09"] = dict(
   technique="TLA+ model of the lock protocol (all interleavings, TLC, safety+liveness, seeded-bug non-vacuity) + trace validation of multi-threaded runs using in-lock hook events ordered by a global sequence number",
   text="TLC explores every interleaving of 2x2 / 3x1 / 2x3 cache operations at lock-step granularity (Conc.tla): reader/writer exclusion, LRU-list exclusion, linearization point inside the call, returned value = value at the linearization point, no torn value, termination under weak fairness. Real 2..8-thread runs are recorded through hooks inside the critical sections and accepted only if lock events respect the exclusion rules and the Lin events, in sequence order, form a behaviour of the sequential cache spec with every return value equal to its own Lin result - i.e. each observed history is linearizable with real-time-consistent linearization points.",
   note="Hook placement is trusted (events emitted while the lock is held); unhooked accesses are only covered through their effects and the optional TSan run (thorough tier, aid only). Clock constant during concurrent rounds.",
   ref="3/C09")

CHECKS["C17"] = dict(
   technique="TLA+ mechanism model of the event loop (one action per critical section, poll-reason snapshot) checked by TLC for safety + liveness incl. seeded design bugs; trace validation of multi-threaded runs against a property-layer spec using in-mutex hook events",
   text="TLC explores LoopImpl.tla (producers posting, arming/cancelling timers and I/O waits against the drain/poll cycle) for AtMostOnce, TimerNotEarly, CodeRule and, under weak fairness, EventuallyRuns - a lost wake-up or a cancel overtaken by a queued set is a liveness counter-example (TLC reproduces the pre-fix race ad910ae and two more seeded bugs); Pool.tla likewise for the worker pool. Real runs with 1..8 producer threads per reactor back-end (select, poll, epoll) and 1..8 posters on the pool are recorded through hooks under data_mutex_/the pool mutex and accepted only if every handler goes reg -> [armed] -> queued(code matching its cause) -> dequeued and run exactly once on the loop thread, timers never early, and at Quiesce nothing is pending.",
   note="Hook placement trusted; kernel readiness is an environment input; handler identity = callable address kept alive per round; schedules explored in Leg B are whatever the OS scheduler produces plus targeted race modes (pingpong, cancelrace, stop).",
   ref="3/C17")
CHECKS["C16"] = dict(
   technique="TLA+ models of digest/HMAC/CBC object mechanisms over an uninterpreted H (TLC) + trace validation of recorded API calls with HMAC re-derived in TLA+ per RFC 2104 and references libcrypto/libgcrypt + known-answer vectors",
   text="TLC explores the digest-object mechanism (block- and byte-wise buffering, padding, re-initialisation) for all chunkings and object reuse over a free compression function, the two-digest HMAC mechanism against HMAC as defined in TLA+ from RFC 2104 over a free H for all key-length classes, and the CBC algebra and object chains for every 2-bit block permutation. It then validates ~1.9e5 (quick) / 1.3e6 (thorough) recorded API calls of the real message_digest/hmac/cbc/key objects: every digest read out must equal the value for the bytes TLC itself concatenated from that object's appends, where the table is single-valued across cppcms (chunked and fresh), libcrypto and libgcrypt and agrees with the embedded RFC/FIPS vectors; every HMAC must equal the RFC 2104 expression re-derived by TLC from logged H values of byte-bound inner and outer messages; CBC data must satisfy the CBC relation, round trips must be the identity and cipher text must equal libcrypto's; hexadecimal keys parse exactly or are refused.",
   note="H and AES are uninterpreted: conformance to the standards is decided as agreement with OpenSSL EVP and libgcrypt on every driven input plus the known-answer vectors. Messages above 520 bytes and long HMAC texts are compared by descriptor (agreement with the references only). The harness is trusted to log the buffers it passes. Lengths between 4 MiB and 2^29 bytes and IV distinctness are not exercised.",
   ref="3/C16")

NOT_APPLICABLE = {
}
