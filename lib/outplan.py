"""Test families for the C03 harness (harness/output/out_drv.cpp): which protocol variants, applications,
io modes, programs and socket schedules are driven in each tier, and the two named input classes whose
trigger is a property of the application program alone."""

PROTOS = [("scgi", 0), ("fcgi", 0), ("fcgi", 1), ("http10", 0), ("http10", 1), ("http11", 0), ("http11", 1)]
# (app, mode, full_buffering)
APPMODES = [("sync", "normal", 1), ("sync", "nogzip", 1), ("sync", "raw", 1),
            ("async", "async", 1), ("async", "async", 0), ("async", "async_raw", 1), ("async", "async_raw", 0),
            ("async", "normal", 1), ("async", "nogzip", 1)]

CURATED = ["W5", "W5,F,W2", "W0,F,W5", "S0,W5,W2", "S2,W1,W1,W1,F", "S4,W5,P,P,F,W2", "W5,A,W2,A,W1", "S2,P,P,P,W3,F",
           "W5,Z", "", "F", "P", "W40,F,W25,P,W30", "S8,W30,A,W30,F,W9", "W70,F,W5", "W30,W30,W30,A,P", "S0,P,P,W64",
           "B0,W5,F,W2,F", "B0,S3,W2,W2,W2", "W3,B0,W4,F", "S16,W100,W100", "W1,A,A,W1"]


def ops_of(prog):
    out = []
    for t in prog.split(","):
        if t:
            out.append((t[0], int(t[1:]) if len(t) > 1 else 0))
    return out


def defect_class(prog, app, mode, fb, gz, cache):
    """None, or the name of a known input class:
    D1  asynchronous io mode with full buffering: setbuf(n) after more than n bytes were written since the last
        asynchronous flush (async_io_buf::setbuf shrinks the vector under the put area: for n = 0 the put area becomes
        [NULL, NULL+content) - null dereference or lost data; for n > 0 the next xsputn into the device - a later
        write, the rest of a raw header block, what copy_buf still holds - re-grows the vector, zeroing the bytes beyond n)
    D2  output operations after finalize(): basic_device::write toggles eof_send_, so every second device write
        after close() sends the end-of-response marker again (second chunk terminator / END_REQUEST)"""
    ops = ops_of(prog)
    asyncio = mode in ("async", "async_raw")
    full = bool(fb)
    content = 0          # bytes put into the stream since the device buffer was last emptied (upper bound)
    fin = False
    after = 0
    for c, n in ops:
        if fin:
            if c == "A" and asyncio and app == "async":
                after += 1
            elif c in ("F", "A"):
                if not (asyncio and full) and not cache and not (mode == "normal" and gz):
                    after += 1
            continue
        if c == "W" or c == "P":
            content += n if c == "W" else 1
        elif c == "S":
            if asyncio and full:
                if content > n:
                    return "D1:async-fullbuf-setbuf-below-content"
            elif content > n:
                content = 0
        elif c == "A":
            if asyncio and app == "async":
                content = 0
            elif not (asyncio and full):
                content = 0
        elif c == "F":
            if not (asyncio and full):
                content = 0
        elif c == "B":
            if asyncio:
                if full and n == 0:
                    content = 0       # pubsetbuf(buffer_size_) flushes what does not fit
                full = bool(n)
        elif c == "Z":
            fin = True
    if fin:
        if asyncio and app == "async":
            after += 1                # async_complete_response flushes once more
        if after >= 2:
            return "D2:output-op-after-finalize-repeats-end-marker"
    return None


def rand_prog(rng, asyncapp, big=False):
    n = rng.randint(1, 7)
    ops = []
    for _ in range(n):
        r = rng.random()
        if r < 0.45:
            ops.append("W%d" % rng.choice([0, 1, 2, 3, 5, 8, 13, 40, 100, 300] if not big else [1, 7, 100, 1000, 5000, 20000]))
        elif r < 0.55:
            ops.append("P")
        elif r < 0.70:
            ops.append("F")
        elif r < 0.82:
            ops.append("S%d" % rng.choice([0, 1, 2, 4, 8, 64, 1000]))
        elif r < 0.92:
            ops.append("A" if asyncapp else "F")
        elif r < 0.96:
            ops.append("B%d" % rng.randint(0, 1))
        else:
            ops.append("W%d" % rng.randint(0, 600))
    if rng.random() < 0.1:
        ops.append("Z")
    return ",".join(ops)


def line(proto, ka, app, mode, fb, prog, sched, gz=0, cache=0, nh=1, nc=1, cl=0, chain=2):
    if mode in ("raw", "async_raw"):
        cache = 0
        cl = 0
    if cl and (mode == "normal" and gz):
        cl = 0
    return ("proto=%s ka=%d chain=%d app=%s mode=%s fb=%d gz=%d cache=%d nh=%d nc=%d cl=%d prog=%s sched=%s" % (
        proto, ka, chain, app, mode, fb, gz, cache, nh, nc, cl, prog, sched))


def ok(prog, app, mode, fb, gz=0, cache=0):
    """both named classes were fixed in /repo (d4efce9, 490b6de): their programs are generated like any other;
    defect_class() is kept to give a regression the old, stable signature"""
    return True


def plans(rng, quick):
    fam = []
    # A: curated programs x every protocol variant x every application/io mode, every (sampled) short-write position
    sweep = 10 if quick else 200
    progs = CURATED if not quick else CURATED
    for pi, (proto, ka) in enumerate(PROTOS):
        for mi, (app, mode, fb) in enumerate(APPMODES):
            for gi, prog in enumerate(progs):
                if quick and (pi + mi + gi) % 3 != 0:
                    continue
                if not ok(prog, app, mode, fb):
                    continue
                gz = 1 if (mode == "normal" and (gi + pi) % 2 == 0) else 0
                cache = 1 if (gi + mi) % 4 == 1 else 0
                cl = 1 if (gi + pi + mi) % 5 == 2 and "Z" not in prog else 0
                fam.append(line(proto, ka, app, mode, fb, prog, "sweep:%d" % sweep, gz=gz, cache=cache, nh=(gi % 3), nc=(mi % 3), cl=cl))
    # B: random programs, random configuration, random schedules
    nrand = 700 if quick else 20000
    for i in range(nrand):
        proto, ka = rng.choice(PROTOS)
        app, mode, fb = rng.choice(APPMODES)
        prog = rand_prog(rng, app == "async")
        gz = rng.randint(0, 1)
        cache = 1 if rng.random() < 0.3 else 0
        if not ok(prog, app, mode, fb, gz, cache):
            continue
        sched = rng.choice(["rand:%d:0" % i, "rand:%d:1" % i, "rand:%d:3" % i, "chunk:%d:%d" % (rng.randint(1, 40), rng.choice([0, 2, 3, 5])), "all"])
        cl = 1 if rng.random() < 0.15 and "Z" not in prog else 0
        fam.append(line(proto, ka, app, mode, fb, prog, sched, gz=gz, cache=cache, nh=rng.randint(0, 3), nc=rng.randint(0, 2), cl=cl))
    # C: large bodies: FastCGI record splitting (> 65535), more than 16 gather entries, kernel-level short writes
    nbig = 40 if quick else 700
    for i in range(nbig):
        proto, ka = PROTOS[i % len(PROTOS)] if i % 3 else rng.choice([("fcgi", 0), ("fcgi", 1)])
        app, mode, fb = APPMODES[(i // 2) % len(APPMODES)]
        sizes = [rng.choice([65535, 65536, 70000, 131070, 131072, 150000, 204800 - 4096, 66000, 65527, 65528])]
        rest = 204800 - sizes[0]
        ops = []
        style = i % 4
        if style == 0:
            ops = ["W%d" % sizes[0]]
        elif style == 1:
            ops = ["S0", "W%d" % sizes[0], "W%d" % rng.randint(0, min(rest, 70000))]
        elif style == 2:
            k = rng.randint(2, 9)
            ops = ["W%d" % (sizes[0] // k) for _ in range(k)] + ["A" if app == "async" else "F", "W%d" % rng.randint(1, 3000)]
        else:
            ops = ["W%d" % rng.randint(1, 30000), "A" if app == "async" else "F", "W%d" % sizes[0], "P"]
        prog = ",".join(ops)
        gz = 1 if (mode == "normal" and i % 5 == 0) else 0
        cache = 1 if i % 7 == 3 else 0
        if not ok(prog, app, mode, fb, gz, cache):
            continue
        sched = ["rand:%d:2" % i, "chunk:%d:%d" % (rng.randint(3000, 40000), rng.choice([0, 3])), "all", "rand:%d:2" % (i + 7)][i % 4]
        fam.append(line(proto, ka, app, mode, fb, prog, sched, gz=gz, cache=cache, nh=1, nc=1, cl=(1 if i % 6 == 1 else 0)))
    # D: exhaustive short programs over a small alphabet for two variants, byte-at-a-time with would-block
    alpha = ["W1", "W3", "P", "F", "S0", "S2", "A"]
    depth = 2 if quick else 3
    seqs = [[]]
    allp = []
    for _ in range(depth):
        seqs = [s + [a] for s in seqs for a in alpha]
        allp += seqs
    for variant in ([("scgi", 0), ("http11", 1)] if quick else [("scgi", 0), ("http11", 1), ("fcgi", 1), ("http10", 0)]):
        for (app, mode, fb) in ([("sync", "nogzip", 1), ("async", "async", 0), ("async", "async", 1)]):
            for s in allp:
                prog = ",".join(s)
                if app == "sync" and "A" in s:
                    continue
                if not ok(prog, app, mode, fb):
                    continue
                fam.append(line(variant[0], variant[1], app, mode, fb, prog, "chunk:%d:2" % (29 if quick else 7), nh=0, nc=0))
    # F: keep-alive chains of 3 requests (FastCGI: request ids 1, 2, 1) whose responses contain single writes of
    #    70 000 .. 150 000 bytes: state that survives from one request to the next on a connection (record headers,
    #    framing decision) must not leak into the next response
    nchain = 1 if quick else 6
    for rep in range(nchain):
        for proto in ("fcgi", "http11"):
            for (app, mode, fb) in (("sync", "nogzip", 1), ("async", "async", 1), ("async", "async", 0), ("sync", "normal", 1)):
                big = rng.randint(70000, 150000)
                progs = ["W%d" % big, "W5,F,W%d" % big, "W%d,%s,W%d" % (rng.randint(70000, 99000), "A" if app == "async" else "F", rng.randint(66000, 90000))]
                for pi, prog in enumerate(progs):
                    sched = ["all", "rand:%d:2" % (rep * 17 + pi), "chunk:%d:3" % rng.randint(20000, 70000)][(pi + rep) % 3]
                    fam.append(line(proto, 1, app, mode, fb, prog, sched, gz=(1 if mode == "normal" else 0), nh=1, nc=1,
                                    cl=(1 if pi == 0 and proto == "http11" and mode != "normal" else 0), chain=3))
    # G: asynchronous partial buffering, every write goes straight to nonblocking_write: per-call limits chosen so
    #    that a later write_some takes the whole old pending queue plus a strict prefix of the new data
    for (proto, ka) in (("scgi", 0), ("http11", 1), ("fcgi", 1)):
        for prog in ("S0,W200,W200,W200", "S0,W300,W100,W300,F", "W600,F,W600,F,W50"):
            for k in (range(100, 420, 40) if quick else range(60, 700, 10)):
                fam.append(line(proto, ka, "async", "async", 0, prog, "chunk:%d:0" % k, nh=0, nc=0))
    # shards: interleave so that every shard has a similar mix
    nshard = 6 if quick else 48
    shards = [[] for _ in range(nshard)]
    for i, f in enumerate(fam):
        shards[i % nshard].append(f)
    # E: the two named input classes, in a shard of their own so that they cannot hide anything else
    shards.append([line("scgi", 0, "async", "async", 1, "W5,S2,W1", "all", nh=0, nc=0),
                   line("http11", 1, "async", "async", 1, "W1,S0", "chunk:29:2", nh=0, nc=0),
                   line("http11", 1, "async", "async", 1, "W1,A,Z,A", "all", nh=0, nc=0),
                   line("fcgi", 1, "sync", "nogzip", 1, "W1,F,Z,F,F", "all", nh=0, nc=0),
                   line("scgi", 0, "sync", "nogzip", 1, "W5,F,W2", "all", nh=1, nc=1)])
    return shards
