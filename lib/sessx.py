"""Helpers shared by the session checks C05 / C18: running harness + TLC validation jobs in parallel threads.

ctx.validate() is not re-entrant as it stands (the part files `part-<pid>-<n>.ndjson` in ctx.work and the replay
names `reject-<module>-<t0>-<k>` collide between threads), so every thread works on a shallow copy of the context
that has its own scratch directory and its own replay time stamp; the counters are merged back under a lock.
"""
import os, copy, threading


class Par:
    def __init__(self, ctx):
        self.ctx = ctx
        self.lock = threading.Lock()
        self.n = 0

    def sub(self):
        with self.lock:
            self.n += 1
            k = self.n
        s = copy.copy(self.ctx)              # lists / dicts stay shared, scalars are private
        s.work = os.path.join(self.ctx.work, "t%d" % k)
        os.makedirs(s.work, exist_ok=True)
        s.t0 = int(self.ctx.t0) * 100 + k    # only used by validate() to name replay files
        s.events = 0
        s.traces_ok = 0
        s.undecided = []
        return s

    def merge(self, s):
        with self.lock:
            self.ctx.events += s.events
            self.ctx.traces_ok += s.traces_ok
            self.ctx.undecided += s.undecided

    def run(self, jobs, fn, width=8):
        """jobs: list of argument tuples; fn(subctx, *job) runs in a thread with its private sub-context."""
        sem = threading.Semaphore(width)
        errs = []

        def wrap(job):
            with sem:
                s = self.sub()
                try:
                    fn(s, *job)
                except Exception:
                    import traceback
                    errs.append(traceback.format_exc())
                self.merge(s)

        ths = [threading.Thread(target=wrap, args=(j,)) for j in jobs]
        for t in ths:
            t.start()
        for t in ths:
            t.join()
        for e in errs:
            self.ctx.undecided.append("worker crashed:\n" + e)
