"""Helpers shared by C12 / C20: run harness jobs and trace validations in parallel threads.

ctx.validate() names its scratch files by pid only, so two validations running in different threads
of one check would overwrite each other's input; every worker therefore gets a shallow copy of the
context with its own scratch directory (lists - violations, undecided, tlc_runs - stay shared,
counters are added back afterwards)."""
import os, copy, threading
from concurrent.futures import ThreadPoolExecutor

_lock = threading.Lock()
# deep TLA+ recursion over byte strings needs a larger Java thread stack
JENV = {"JAVA_TOOL_OPTIONS": "-Xss64m"}


_n = [0]


def sub(ctx, tag):
    c = copy.copy(ctx)
    with _lock:
        _n[0] += 1
        c.t0 = ctx.t0 + 1000 * _n[0]      # replay files are named after int(t0): keep them distinct per worker
    c.work = os.path.join(ctx.work, "w-" + tag)
    os.makedirs(c.work, exist_ok=True)
    c.events = 0
    c.traces_ok = 0
    c.extra = {}
    return c


def merge(ctx, c):
    with _lock:
        ctx.events += c.events
        ctx.traces_ok += c.traces_ok
        ctx.extra["trace_states"] = ctx.extra.get("trace_states", 0) + c.extra.get("trace_states", 0)


def run_parallel(jobs, workers=6):
    """jobs: list of zero-argument callables; returns their results in order (exceptions propagate)."""
    with ThreadPoolExecutor(max_workers=workers) as ex:
        futs = [ex.submit(j) for j in jobs]
        return [f.result() for f in futs]
