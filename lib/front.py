def run(ctx):
    pass
