import os
from vlib import REPO


def run(ctx):
    """C07, second sentence: cache_interface / triggers_recorder dependency propagation."""
    ctx.design("Cache/Front.tla", "Front_quick.cfg" if ctx.quick else "Front.cfg", workers=12, timeout=1500,
               note="cache_interface: Dep, MechanismMatchesHistory; 2 names, 1 page, 2 nested recorders")
    exe = ctx.harness("front_drv", ["cache/front_drv.cpp"], extra=["-I" + REPO + "/tests"])
    runs = [(250, 25, 3), (150, 40, 5)] if ctx.quick else [(1500, 25, 3), (1500, 40, 4), (1000, 60, 6), (2000, 10, 2)]
    for i, spec in enumerate(runs):
        t = os.path.join(ctx.work, "front-%d.ndjson" % i)
        rc, out, err = ctx.run_harness(exe, spec, trace=t, timeout=900)
        if rc != 0:
            ctx.undecided.append("front_drv %s failed rc=%s %s" % (spec, rc, err[-400:]))
            continue
        with open(t) as f:
            lines = f.readlines()
        if i == 0:
            ctx.sample({"driver(requests,ops,names)": list(spec), "first_events": [x.strip() for x in lines[:8]]})
        for ln in lines[:6000]:
            ctx.seen("front:" + ln[:70])
        for x in ctx.validate("Cache/FrontTrace.tla", "FrontTrace.cfg", t):
            ctx.violation("front:%s" % x["event"].split('"')[3], "cache_interface trace violates Dep / fetch semantics at %s" % x["event"][:200], x["path"])
        os.remove(t)
