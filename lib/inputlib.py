"""Helpers shared by checks/C01.py and checks/C02.py (front-end input properties)."""
import os, re, json, copy, threading, subprocess, time

HARNESS = ("input_drv", ["input/input_drv.cpp"])
HOOKS_NOTE = ("completion events (Prepare/Complete) exist only when /repo carries hooks-proposed/C01C02.patch; "
              "without them the completion layer of ConnLife is not exercised")


def validate_execs(ctx, module, cfg, trace, timeout=900, heap="8g"):
    """Judge every Reset-delimited execution of `trace` independently in ONE TLC run.  The trace spec
    takes every Reset line as an initial state and prints <<"AT", start, line>> for each matched line.
    Returns rejections shaped like ctx.validate()'s (line, event, exec, path, offset_in_exec)."""
    lines = [x for x in open(trace).read().splitlines() if x.strip()]
    f = os.path.join(ctx.work, "execs-%d-%d.ndjson" % (os.getpid(), threading.get_ident() % 100000))
    open(f, "w").write("\n".join(lines) + "\n")
    starts = [i for i, x in enumerate(lines) if '"e":"Reset"' in x]
    rejects = []
    for attempt in (1, 2):
        r = ctx.tlc(module, cfg, workers=1, timeout=timeout, env={"TRACE": f}, deadlock_off=True, heap=heap, count=False)
        ok = (not r.failed) and r.rc == 0 and "Model checking completed" in r.out
        if ok:
            break
    if not ok:
        ctx.undecided.append("trace validation failed to run (%s %s): rc=%s\n%s" % (module, cfg, r.rc, r.out[-3000:]))
        return rejects
    ctx.extra["trace_states"] = ctx.extra.get("trace_states", 0) + r.distinct
    reach = {}
    for m in re.finditer(r'<<"AT", (\d+), (\d+)>>', r.out):
        s, l = int(m.group(1)) - 1, int(m.group(2)) - 1
        if l > reach.get(s, -1):
            reach[s] = l
    for k, s in enumerate(starts):
        e = starts[k + 1] if k + 1 < len(starts) else len(lines)
        if e - s <= 1:
            continue                       # empty execution (closing Reset)
        last = reach.get(s, s - 1)         # last matched line (0-based)
        if last >= e - 1:
            ctx.traces_ok += 1
            ctx.events += e - s
            continue
        bad = last + 1
        ex = lines[s:e]
        rp = os.path.join(ctx.replays, "reject-%s-%d-%d.ndjson" % (os.path.basename(module)[:-4], int(ctx.t0), len(os.listdir(ctx.replays))))
        open(rp, "w").write("\n".join(ex) + "\n")
        ctx.events += max(0, bad - s)
        rejects.append({"line": bad + 1, "event": lines[bad], "exec": ex, "path": rp, "offset_in_exec": bad - s})
    return rejects


def parallel(jobs, nthreads):
    """run callables in up to nthreads threads; returns results in order"""
    res = [None] * len(jobs)
    it = iter(range(len(jobs)))
    lock = threading.Lock()

    def work():
        while True:
            with lock:
                try:
                    i = next(it)
                except StopIteration:
                    return
            try:
                res[i] = jobs[i]()
            except Exception as ex:       # surfaces as undecided in the caller
                res[i] = ex
    ts = [threading.Thread(target=work) for _ in range(max(1, nthreads))]
    [t.start() for t in ts]
    [t.join() for t in ts]
    return res


class SubCtx:
    """a view of ctx with its own scratch directory and counters, so that ctx.validate()/ctx.tlc() can run
    in several threads (vlib names its part files by pid only).  merge() adds the counters back."""
    def __init__(self, ctx, name):
        self.c = copy.copy(ctx)
        self.c.work = os.path.join(ctx.work, name)
        os.makedirs(self.c.work, exist_ok=True)
        self.c.events = 0
        self.c.traces_ok = 0
        self.c.extra = {}
        self.parent = ctx

    def merge(self):
        p = self.parent
        p.events += self.c.events
        p.traces_ok += self.c.traces_ok
        p.extra["trace_states"] = p.extra.get("trace_states", 0) + self.c.extra.get("trace_states", 0)


def run_c02_driver(ctx, exe, proto, trace, timeout=1500):
    """run all malformed-input cases of one front-end; the driver exits 42 after logging Died, and is
    restarted behind the fatal case.  Returns (ncases, restarts, hooks)."""
    if os.path.exists(trace):
        os.remove(trace)
    rc, out, err = ctx.run_harness(exe, ["c02", proto, 0, -1], timeout=60)
    if rc != 0:
        ctx.undecided.append("input_drv c02 %s: cannot count cases rc=%s %s" % (proto, rc, err[-300:]))
        return 0, 0, False
    n = int(out.strip().splitlines()[-1])
    start, restarts, hooks = 0, 0, False
    t0 = time.time()
    while start < n:
        rc, out, err = ctx.run_harness(exe, ["c02", proto, start, n - start], trace=trace, timeout=timeout)
        if rc == 0:
            hooks = '"hooks":true' in out
            break
        if time.time() - t0 > timeout or restarts > 400:
            ctx.undecided.append("input_drv c02 %s: too many restarts / too slow" % proto)
            break
        last, probed = None, False
        with open(trace) as f:
            for ln in f:
                if '"e":"Conn"' in ln:
                    m = re.search(r'"idx":(\d+)', ln)
                    if m:
                        last, probed = int(m.group(1)), False
                elif '"e":"Probe"' in ln:
                    probed = True
        tail = open(trace).read()[-400:]
        if last is None or last < start or probed:
            ctx.undecided.append("input_drv c02 %s failed rc=%s outside of a case (last case %s): %s" % (proto, rc, last, (err or "")[-400:]))
            break
        if '"e":"Died"' not in tail:
            # the process went away without being able to say why (sanitizer report, _exit): a death of the service
            why = "process exited with status %d" % rc
            m = re.search(r"(runtime error: [^\n]*|ERROR: AddressSanitizer: [^\n]*)", err or "")
            if m:
                why += ": " + re.sub(r'[^ -~]|["\\]', " ", m.group(1))[:200]
            with open(trace, "a") as f:
                f.write(json.dumps({"e": "Died", "why": why}) + "\n")
        m = re.search(r"(SUMMARY: [^\n]*)", err or "")
        if m:
            ctx.extra.setdefault("sanitizer_reports", [])
            if len(ctx.extra["sanitizer_reports"]) < 12:
                ctx.extra["sanitizer_reports"].append("%s case %d: %s" % (proto, last, m.group(1)[:240]))
        restarts += 1
        start = last + 1
    return n, restarts, hooks
