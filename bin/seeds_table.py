#!/usr/bin/env python3
"""Regenerates the table of independently seeded changes in DESIGN.md (section 9.5) from seeded/*/meta.json."""
import json, os, glob, re
ROOT = os.path.dirname(os.path.dirname(os.path.abspath(__file__)))
rows = []
for d in sorted(glob.glob(os.path.join(ROOT, "seeded", "*"))):
    mp = os.path.join(d, "meta.json")
    if not os.path.exists(mp):
        continue
    m = json.load(open(mp))
    c = m.get("confirmed", {})
    sid = os.path.basename(d)
    summ = re.sub(r"\s+", " ", str(m.get("summary", "")))[:260].replace("|", "/")
    needs = re.sub(r"\s+", " ", str(m.get("needs", "")))[:200].replace("|", "/")
    ok = c.get("build_rc") == 0 and "100% tests passed" in c.get("stable_tests", "") and c.get("demo_on_changed_rc", 0) != 0 and c.get("demo_on_unchanged_rc", 1) == 0
    rc = c.get("our_check_rc")
    verdict = "caught" if rc == 1 else ("MISSED" if rc == 0 else "undecided (rc=%s)" % rc)
    first = (c.get("our_check_output") or [""])[0]
    sig = re.findall(r"\[([^\]]+)\]\s*$", first)
    prev = m.get("previous_runs", [])
    note = ""
    if prev and any(x.get("our_check_rc") == 0 for x in prev) and rc == 1:
        note = "(first run: MISSED; check strengthened, then re-confirmed)"
    rows.append("| %s | %s | %s | %s | %s%s |" % (sid, summ, needs, "yes" if ok else "NO: see confirm.log", verdict,
                (" `" + sig[0][:60] + "`") if sig else "") + (" " + note if note else ""))
table = ("\n\n| seed | change (author's summary) | needs | confirmed (build / 61 tests / demo) | our quick check |\n|---|---|---|---|---|\n" + "\n".join(rows) + "\n")
p = os.path.join(ROOT, "DESIGN.md")
s = open(p).read()
a = s.index("### 9.5 Independently seeded changes")
b = s.index("### 9.6 Growth beyond the listed properties")
head = s[a:b]
i = head.find("\n\n| seed |")
if i < 0:
    i = head.find("SEEDS-TABLE-PLACEHOLDER")
    head = head[:i].rstrip() + "\n"
else:
    head = head[:i].rstrip() + "\n"
s = s[:a] + head + table + "\n" + s[b:]
open(p, "w").write(s)
print("%d seeds" % len(rows))
