#!/usr/bin/env python3
"""Regenerates the table of independently seeded changes in DESIGN.md (section 9.5) from seeded/*/meta.json."""
import json, os, glob, re
ROOT = os.path.dirname(os.path.dirname(os.path.abspath(__file__)))
rows = []
stats = {"n": 0, "first_caught": 0, "first_missed": [], "first_undecided": [], "now_missed": []}
for d in sorted(glob.glob(os.path.join(ROOT, "seeded", "*"))):
    mp = os.path.join(d, "meta.json")
    if not os.path.exists(mp):
        continue
    m = json.load(open(mp))
    c = m.get("confirmed", {})
    sid = os.path.basename(d)
    summ = re.sub(r"\s+", " ", str(m.get("summary", "")))[:260].replace("|", "/")
    needs = re.sub(r"\s+", " ", str(m.get("needs", "")))[:200].replace("|", "/")
    ok = c.get("build_rc") == 0 and "100% tests passed" in c.get("stable_tests", "") and c.get("demo_on_changed_rc", 0) != 0 and c.get("demo_on_unchanged_rc", 1) == 0
    rc = c.get("our_check_rc")
    verdict = "caught" if rc == 1 else ("MISSED" if rc == 0 else "undecided (rc=%s)" % rc)
    if m.get("scope_note") and rc != 1:
        verdict = "not caught - " + re.sub(r"\s+", " ", m["scope_note"])[:400].replace("|", "/")
    if c.get("our_check", "").split()[1:2] and c.get("our_check", "").split()[1] != sid.split("-")[0]:
        verdict += " (by " + c["our_check"].split()[1] + ", the check that owns this behaviour)"
    first = (c.get("our_check_output") or [""])[0]
    sig = re.findall(r"\[([^\]]+)\]\s*$", first)
    prev = m.get("previous_runs", [])
    first_rc = prev[0].get("our_check_rc") if prev else rc
    stats["n"] += 1
    if first_rc == 1:
        stats["first_caught"] += 1
    elif first_rc == 0:
        stats["first_missed"].append(sid)
    else:
        stats["first_undecided"].append(sid)
    if rc != 1:
        stats["now_missed"].append(sid + (" (out of the property's scope, see its row)" if m.get("scope_note") else ""))
    note = ""
    if prev and any(x.get("our_check_rc") == 0 for x in prev) and rc == 1:
        note = "(first run: MISSED; check strengthened, then re-confirmed)"
    rows.append("| %s | %s | %s | %s | %s%s |" % (sid, summ, needs, "yes" if ok else "NO: see confirm.log", verdict,
                (" `" + sig[0][:60] + "`") if sig else "") + (" " + note if note else ""))
summary = ("\n\n**Summary (generated):** %d seeds; on their FIRST confirmation run our quick check caught %d, missed %d (%s)%s. "
           "Every miss was answered by strengthening the check in general terms (a class of inputs / schedules, never the seeded line), "
           "then re-confirmed; currently not caught: %s.\n" % (
               stats["n"], stats["first_caught"], len(stats["first_missed"]), ", ".join(stats["first_missed"]) or "none",
               (", undecided %d (%s)" % (len(stats["first_undecided"]), ", ".join(stats["first_undecided"]))) if stats["first_undecided"] else "",
               ", ".join(stats["now_missed"]) or "none"))
table = summary + ("\n\n| seed | change (author's summary) | needs | confirmed (build / 61 tests / demo) | our quick check |\n|---|---|---|---|---|\n" + "\n".join(rows) + "\n")
p = os.path.join(ROOT, "DESIGN.md")
s = open(p).read()
a = s.index("### 9.5 Independently seeded changes")
b = s.index("### 9.6 Growth beyond the listed properties")
head = s[a:b]
i = head.find("\n\n| seed |")
if i < 0:
    i = head.find("SEEDS-TABLE-PLACEHOLDER")
    head = head[:i].rstrip() + "\n"
else:
    head = head[:i].rstrip() + "\n"
s = s[:a] + head + table + "\n" + s[b:]
open(p, "w").write(s)
print("%d seeds" % len(rows))
