#!/usr/bin/env python3
import json, os, sys
ROOT = os.path.dirname(os.path.dirname(os.path.abspath(__file__)))
sys.path.insert(0, os.path.join(ROOT, "lib"))
import registry
props = [json.loads(l) for l in open(os.path.join(ROOT, "properties.jsonl"))]
checks = []
for p in props:
    i = p["id"]
    if i not in registry.CHECKS:
        continue
    c = registry.CHECKS[i]
    checks.append({
        "property_id": i,
        "quick_cmd": "bin/vcheck %s --tier quick" % i,
        "thorough_cmd": "bin/vcheck %s --tier thorough" % i,
        "evidence_file": "/verif/evidence/%s.json" % i,
        "replay_cmd_template": "bin/vcheck %s --replay {path}" % i,
        "engine": "tlc",
        "level_claimed": {"category": c.get("category", "model_checking"), "text": c["text"], "design_ref": "DESIGN.md §" + c["ref"]},
        "level_note": c["note"],
        "technique": c["technique"],
    })
na = []
for p in props:
    i = p["id"]
    if i in registry.CHECKS:
        continue
    na.append({"property_id": i, "reason": registry.NOT_APPLICABLE.get(i, "check not built yet (work in progress; design in DESIGN.md §3/%s)" % i)})
m = {
    "version": 1,
    "setup_cmd": "bin/setup.sh",
    "hooks": {
        "guard": registry.GUARD,
        "enable": "bin/build.sh hooks  (cmake -DCMAKE_CXX_FLAGS='-Wno-error -DCPPCMS_VERIF' into /verif/.build/hooks; hooks emit only when CPPCMS_VERIF_TRACE=<file> is set)",
        "baseline_off_cmd": "bin/baseline_off.sh",
        "source_commits": registry.HOOK_COMMITS,
        "add_only": True,
    },
    "engines": [
        {"name": "tlc", "path": "/opt/veriftools/tla/tla2tools.jar", "serves_properties": sorted(registry.CHECKS), "kind_free_text": "TLC 1.8 explicit-state model checker: explores the design specs (Leg D) and validates ND-JSON traces recorded from the real code against *Trace.tla specs (Leg B); driven by lib/vlib.py"},
    ],
    "checks": checks,
    "not_applicable": na,
    "notes": "All checks: bin/vcheck <ID> --tier quick|thorough. Exit 0 = held, 1 = VIOLATION line, 2 = undecided (model or harness failure, never reported as violation). Known findings: known_findings.jsonl.",
}
json.dump(m, open(os.path.join(ROOT, "MANIFEST.json"), "w"), indent=1)
print("MANIFEST.json: %d checks, %d not_applicable" % (len(checks), len(na)))
