#!/bin/bash
# Run once after a fresh restore (offline): builds the hook-enabled library from /repo and
# pre-compiles the harnesses so that quick checks only pay for incremental rebuilds.
set -e
cd "$(dirname "$0")/.."
bin/build.sh hooks >/dev/null
python3 - <<'PY'
import sys, os
sys.path.insert(0, 'lib')
import vlib, harnesses
c = vlib.Ctx("setup", "quick", 1)
for name, (srcs, extra) in harnesses.ALL.items():
    try:
        c.harness(name, srcs, extra=extra)
        print("built", name)
    except SystemExit:
        print("FAILED", name); raise
import shutil; shutil.rmtree(c.work, ignore_errors=True)
PY
echo setup done
