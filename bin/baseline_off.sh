#!/bin/bash
# Builds /repo with the CPPCMS_VERIF guard OFF (full tree incl. tests) and runs the stable baseline.
set -e
cd "$(dirname "$0")/.."
B=$(bin/build.sh off all | tail -1)
STABLE=$(python3 -c "import json;print('|'.join('^'+t.split('::')[0]+'\$' for t in json.load(open('/root/.vp/BASELINE.json'))['stable_pass']))")
cd "$B"
ctest -j8 --timeout 900 --repeat until-pass:3 -R "$STABLE" --output-junit "$B/baseline.junit.xml" | tail -15
