#!/bin/bash
# Builds /repo with the CPPCMS_VERIF guard OFF (full tree incl. tests) and runs the stable baseline.
set -e
cd "$(dirname "$0")/.."
B=$(bin/build.sh off all | tail -1)
STABLE=$(python3 -c "import json;print('|'.join('^'+t.split('::')[0]+'\$' for t in json.load(open('/root/.vp/BASELINE.json'))['stable_pass']))")
cd "$B"
# a private network namespace keeps the tests' fixed TCP ports free from other jobs on the box (falls back to a plain run)
if unshare -rn true 2>/dev/null; then
  STABLE="$STABLE" B="$B" unshare -rn sh -c 'ip link set lo up; ctest -j8 --timeout 900 --repeat until-pass:3 -R "$STABLE" --output-junit "$B/baseline.junit.xml"' | tail -15
else
  ctest -j8 --timeout 900 --repeat until-pass:3 -R "$STABLE" --output-junit "$B/baseline.junit.xml" | tail -15
fi
