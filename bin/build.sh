#!/bin/bash
# build.sh <flavour>   flavours: hooks | off | asan | tsan
# Builds libcppcms/libbooster from /repo's *current working tree* into /verif/.build/<flavour>.
# Incremental (ninja); serialised with flock so that parallel checks share one build.
set -e
FL=${1:-hooks}
REPO=${VERIF_REPO:-/repo}
ROOT=$(cd "$(dirname "$0")/.." && pwd)
SUF=""
if [ "$REPO" != /repo ]; then SUF="-$(echo -n "$REPO" | md5sum | cut -c1-8)"; fi
B=$ROOT/.build/$FL$SUF
mkdir -p "$ROOT/.build"
exec 9>"$ROOT/.build/.lock.$FL$SUF"
flock 9
case $FL in
  hooks) FLAGS="-Wno-error -DCPPCMS_VERIF";;
  off)   FLAGS="-Wno-error";;
  asan)  FLAGS="-Wno-error -DCPPCMS_VERIF -fsanitize=address,undefined -fno-omit-frame-pointer -fno-sanitize-recover=undefined";;
  tsan)  FLAGS="-Wno-error -DCPPCMS_VERIF -fsanitize=thread -fno-omit-frame-pointer";;
  *) echo "unknown flavour $FL" >&2; exit 2;;
esac
if [ ! -f "$B/build.ninja" ] || [ "$(cat "$B/.repo" 2>/dev/null)" != "$REPO" ]; then
  rm -rf "$B"
  cmake -G Ninja -S "$REPO" -B "$B" -DCMAKE_BUILD_TYPE=RelWithDebInfo "-DCMAKE_CXX_FLAGS=$FLAGS" "-DCMAKE_C_FLAGS=$FLAGS" \
     -DDISABLE_STATIC=ON >"$B.cmake.log" 2>&1 || { cat "$B.cmake.log" >&2; exit 2; }
  echo "$REPO" > "$B/.repo"
fi
if [ "$FL" = off ] && [ "$2" = all ]; then
  ninja -C "$B" >"$B.ninja.log" 2>&1 || { tail -50 "$B.ninja.log" >&2; exit 2; }
else
  ninja -C "$B" cppcms booster >"$B.ninja.log" 2>&1 || { tail -50 "$B.ninja.log" >&2; exit 2; }
fi
echo "$B"
