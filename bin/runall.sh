#!/bin/bash
# runall.sh [quick|thorough] [ids...] : runs the registered checks one after the other on /repo's working tree,
# prints one line per check (exit code, wall time, OK/VIOLATION line); used to refresh evidence/ before committing.
cd "$(dirname "$0")/.."
TIER=${1:-quick}; shift
IDS="$@"
[ -z "$IDS" ] && IDS=$(python3 -c "import json;print(' '.join(c['property_id'] for c in json.load(open('MANIFEST.json'))['checks']))")
for id in $IDS; do
  t0=$(date +%s)
  out=$(bin/vcheck $id --tier $TIER 2>&1); rc=$?
  t1=$(date +%s)
  echo "$id rc=$rc $((t1-t0))s $(echo "$out" | grep -E '^(OK|VIOLATION|KNOWN-FINDING|UNDECIDED)' | head -2 | cut -c1-160 | tr '\n' ' ')"
done
