#!/bin/bash
# confirm_seed.sh <seed-id> [property]  : confirm an independently seeded property-breaking change and run our check on it.
#   - scratch worktree /tmp/cs-<id> of /repo HEAD + patch
#   - full build incl. tests, the 61 must-pass tests
#   - demonstration: must fail on the changed tree and pass on the unchanged one (/verif/.build/off)
#   - bin/vcheck <property> --tier quick with VERIF_REPO pointing at the changed tree
# writes /verif/seeded/<id>/{patch.diff,demo...,meta.json,confirm.log}; removes the worktree and all its build output.
ID=$1; SRC=/tmp/seed-out/$ID; OUT=/verif/seeded/$ID
PROP=${2:-$(python3 -c "import json;print(json.load(open('$SRC/meta.json'))['property'])")}
WT=/tmp/cs-$ID
mkdir -p $OUT
[ -f $OUT/meta.json ] && cp $OUT/meta.json $OUT/.meta.prev
cp -r $SRC/* $OUT/ 2>/dev/null
if [ -f $OUT/.meta.prev ]; then python3 - <<PY
import json
old=json.load(open("$OUT/.meta.prev")); new=json.load(open("$OUT/meta.json"))
for k in ("confirmed","previous_runs"):
    if k in old: new[k]=old[k]
json.dump(new,open("$OUT/meta.json","w"),indent=1)
PY
rm -f $OUT/.meta.prev; fi
LOG=$OUT/confirm.log; : > $LOG
git -C /repo worktree remove --force $WT >/dev/null 2>&1; rm -rf $WT
git -C /repo worktree add --detach $WT HEAD >>$LOG 2>&1
if ! git -C $WT apply --3way $SRC/patch.diff >>$LOG 2>&1 && ! (cd $WT && patch -p1 < $SRC/patch.diff >>$LOG 2>&1); then echo "APPLY FAILED" | tee -a $LOG; exit 3; fi
git -C $WT diff HEAD > $OUT/patch.diff
( cd $WT && cmake -G Ninja -S . -B _b -DCMAKE_BUILD_TYPE=RelWithDebInfo -DCMAKE_CXX_FLAGS=-Wno-error >/dev/null 2>&1 && ninja -C _b >>$LOG 2>&1 ); BUILD=$?
echo "build rc=$BUILD" | tee -a $LOG
TESTS=skipped
if [ $BUILD = 0 ]; then
  # private network namespace: other jobs on this box run the same tests and would collide on their fixed TCP ports
  ( cd $WT/_b && unshare -rn sh -c 'ip link set lo up; ctest -j6 --timeout 900 --repeat until-pass:3 -R "$(cat /tmp/seed/stable_regex.txt)"' 2>&1 | tail -8 ) >>$LOG 2>&1
  TESTS=$(grep -E "tests passed" $LOG | tail -1)
fi
echo "tests: $TESTS" | tee -a $LOG
/verif/bin/build.sh off all >/dev/null 2>&1
( cd $OUT && timeout 900 bash ./run.sh $WT $WT/_b ) >>$LOG 2>&1; DEMO_CHANGED=$?
( cd $OUT && timeout 900 bash ./run.sh /repo /verif/.build/off ) >>$LOG 2>&1; DEMO_CLEAN=$?
echo "demo changed rc=$DEMO_CHANGED clean rc=$DEMO_CLEAN" | tee -a $LOG
rm -rf $WT/_b
( cd /verif && VERIF_REPO=$WT timeout 3000 bin/vcheck $PROP --tier quick ) > $OUT/check.out 2>&1; CHECK=$?
grep -E "^VIOLATION|^OK|^KNOWN|UNDECIDED" $OUT/check.out | head -5 | tee -a $LOG
echo "check rc=$CHECK" | tee -a $LOG
SUF=$(echo -n "$WT" | md5sum | cut -c1-8)
rm -rf /verif/.build/*-$SUF /verif/.build/*-$SUF.* /verif/.build/.lock.*-$SUF
git -C /repo worktree remove --force $WT >/dev/null 2>&1; rm -rf $WT
python3 - <<PY
import json
m=json.load(open("$OUT/meta.json"))
if "confirmed" in m:
    m.setdefault("previous_runs",[]).append({"our_check_rc":m["confirmed"].get("our_check_rc"),"our_check_output":m["confirmed"].get("our_check_output",[])[:1]})
m["confirmed"]={"build_rc":$BUILD,"stable_tests":"""$TESTS""".strip(),"demo_on_changed_rc":$DEMO_CHANGED,"demo_on_unchanged_rc":$DEMO_CLEAN,
  "our_check":"bin/vcheck $PROP --tier quick (VERIF_REPO=scratch worktree)","our_check_rc":$CHECK,
  "our_check_output":[l.strip()[:300] for l in open("$OUT/check.out") if l.startswith(("VIOLATION","OK","KNOWN"))][:4]}
json.dump(m,open("$OUT/meta.json","w"),indent=1)
PY
# the evidence/replay files written by this run belong to the mutated tree: restore the committed evidence
git -C /verif checkout -- evidence/$PROP.json 2>/dev/null
rm -f $OUT/*.o
