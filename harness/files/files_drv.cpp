// C13 driver: runs the real cppcms::impl::file_server (private/internal_file_server.h) on a
// network-free context (tests/dummy_api.h seam) over an on-disk sandbox that mirrors the abstract
// file system of spec/Files/FileSrvD.tla, with uniquely marked files planted outside the roots.
// One ND-JSON event per request (judged by spec/Files/FileSrvTrace.tla).
//
// usage: files_drv enum <alphabet> <maxlen> <shard> <nshards> <cfg>...
//        files_drv rnd  <count>    <maxseg> <shard> <nshards> <cfg>...
//        files_drv one  <cfg> <raw-path>            single request (probe / replay)
//        files_drv tla                              print the tree as a TLA+ definition
// cfg = bit0 check_symlink, bit1 listing, bit2 aliases
#include "common/vtrace.h"
#include <vector>
#include <map>
#include <cppcms/service.h>
#include <cppcms/application.h>
#include <cppcms/http_response.h>
#include <cppcms/http_context.h>
#include <cppcms/json.h>
#include <cppcms/util.h>
#include "internal_file_server.h"
#include "dummy_api.h"
#include <sys/stat.h>
#include <sys/socket.h>
#include <sys/un.h>
#include <unistd.h>
#include <fcntl.h>
#include <iostream>
#include <fstream>

static vt::out tr;

struct node { std::string path; char kind; int marker; std::string target; };  // kind: d r l o ; paths relative to the sandbox
static std::vector<node> tree()
{
	std::vector<node> t;
	int m=0;
	#define D(p) { node n; n.path=std::string(p); n.kind='d'; n.marker=0; t.push_back(n); }
	#define R(p) { node n; n.path=std::string(p); n.kind='r'; n.marker=++m; t.push_back(n); }
	#define L(p,to) { node n; n.path=p; n.kind='l'; n.marker=0; n.target=to; t.push_back(n); }
	#define O(p) { node n; n.path=p; n.kind='o'; n.marker=0; t.push_back(n); }
	D("www"); R("www/f.txt"); R("www/.hid");
	D("www/d"); R("www/d/f.txt"); R("www/d/index.html"); R("www/d/.hid");
	D("www/d/e"); R("www/d/e/f.txt");
	D("www/alx"); R("www/alx/f.txt");
	D("www/al"); R("www/al/f.txt");
	L("www/lin","www/d"); L("www/lout","out"); L("www/lfo","out/f.txt"); L("www/lw2","www2");
	O("www/sock");
	D("www/s<&\"'"); R("www/s<&\"'/f.txt"); R("www/s<&\"'/a<b&c\"'.txt");
	// a listable directory full of names that are hostile to HTML / URLs
	D("www/h");
	{
		char const *hn[]={"it's.txt","x'onmouseover='y.html","q\"uo.txt","l<t.txt","g>t.txt","a&b.txt","sp ace.txt","p%c.txt","%27.txt",
			"h#ash","q?m","s;c","e=q","pl+us","back\\slash","caf\xc3\xa9","\xff\xfe","tab\there","nl\nx","\x01ctl","&amp;","&#39;",
			"(paren)!*~","<script>alert(1)<","'","\"",0};
		for(int i=0;hn[i];i++) R(std::string("www/h/")+hn[i]);
	}
	D("www/h/d'ir"); R("www/h/d'ir/f.txt");
	D("www/h/.hd"); R("www/h/.h'id");
	D("www/df.txt");                       // what "/d/e/../f.txt" turns into when segments are merged
	D("alt"); R("alt/f.txt"); R("alt/index.html"); R("alt/.hid");
	D("alt/sub"); R("alt/sub/f.txt");
	D("alt/h"); R("alt/h/it's"); R("alt/h/a&b<c>\"d"); D("alt/h/d'");
	L("alt/lup","");
	D("alt2"); R("alt2/f.txt");
	D("www2"); R("www2/f.txt"); R("www2/index.html");
	D("out"); R("out/f.txt"); R("out/index.html"); R("out/secret.html");
	// directories whose index file is a symbolic link: to a file outside every root / to a file inside
	D("www/ixo"); L("www/ixo/index.html","out/secret.html");
	D("www/ixi"); L("www/ixi/index.html","www/d/f.txt");
	D("alt/ixo"); L("alt/ixo/index.html","out/secret.html");
	D("alt/ixi"); L("alt/ixi/index.html","alt/f.txt");
	R("f.txt");
	D("bl"); R("bl/f.txt"); R("bl/index.html");
	#undef D
	#undef R
	#undef L
	#undef O
	return t;
}

static std::string printable(std::string s) { for(size_t i=0;i<s.size();i++) if(!isalnum((unsigned char)s[i]) && !strchr("./-_",s[i])) s[i]='?'; return s; }
static std::string sb;   // sandbox directory

static std::string bytes_json(std::string const &s) { std::string b=vt::J().bytes("x",s).str(); return b.substr(5,b.size()-6); }
static std::string path_json(std::string const &p)
{
	std::ostringstream o; o<<'[';
	size_t i=0; bool first=true;
	if(!p.empty()) for(;;) {
		size_t j=p.find('/',i);
		std::string seg=p.substr(i,j==std::string::npos?std::string::npos:j-i);
		if(!first) o<<','; first=false;
		o<<bytes_json(seg);
		if(j==std::string::npos) break;
		i=j+1;
	}
	o<<']';
	return o.str();
}
static std::string tree_json()
{
	std::vector<node> t=tree();
	std::ostringstream o; o<<'[';
	for(size_t i=0;i<t.size();i++) {
		if(i) o<<',';
		char const *k= t[i].kind=='d'?"dir": t[i].kind=='r'?"reg": t[i].kind=='l'?"lnk":"oth";
		o<<vt::J().raw("p",path_json(t[i].path)).s("k",k).i("m",t[i].marker).raw("t",path_json(t[i].target)).str();
	}
	o<<']';
	return o.str();
}

static void mkparents(std::string const &p) { for(size_t i=1;i<p.size();i++) if(p[i]=='/') mkdir(p.substr(0,i).c_str(),0755); }
static void build_sandbox()
{
	char const *w=getenv("VERIF_WORK");
	if(!w) { std::cerr<<"VERIF_WORK not set"<<std::endl; exit(3); }
	char buf[64]; snprintf(buf,sizeof(buf),"/c13-%d",(int)getpid());
	std::string base=std::string(w)+buf;
	mkdir(base.c_str(),0755);
	sb=base+"/sb";
	mkdir(sb.c_str(),0755);
	char *rp=realpath(sb.c_str(),0);
	if(!rp) { perror("realpath"); exit(3); }
	sb=rp; free(rp);
	std::vector<node> t=tree();
	for(size_t i=0;i<t.size();i++) {
		std::string p=sb+"/"+t[i].path;
		mkparents(p);
		switch(t[i].kind) {
		case 'd': mkdir(p.c_str(),0755); break;
		case 'r': { std::ofstream f(p.c_str()); f<<"MARK:"<<t[i].marker<<"\n"; } break;
		case 'l': {
			// relative link as a site would have it
			std::string up; for(size_t k=0;k<t[i].path.size();k++) if(t[i].path[k]=='/') up+="../";
			std::string to=up+t[i].target; if(to.empty()) to=".";
			if(symlink(to.c_str(),p.c_str())!=0) { perror("symlink"); exit(3); }
			} break;
		case 'o': {
			// a unix socket node: not a regular file, not a directory, open() fails with ENXIO
			int s=socket(AF_UNIX,SOCK_STREAM,0);
			struct sockaddr_un a; memset(&a,0,sizeof(a)); a.sun_family=AF_UNIX;
			std::string cwd=p.substr(0,p.rfind('/'));
			int dfd=open(".",O_RDONLY);
			if(chdir(cwd.c_str())!=0) { perror("chdir"); exit(3); }
			strcpy(a.sun_path,"sock");
			if(bind(s,(struct sockaddr*)&a,sizeof(a))!=0) { perror("bind"); exit(3); }
			if(fchdir(dfd)!=0) { perror("fchdir"); exit(3); }
			close(dfd); close(s);
			} break;
		}
	}
}
static void remove_sandbox()
{
	if(sb.empty()) return;
	std::string cmd="rm -rf '"+sb.substr(0,sb.size()-3)+"'";
	if(system(cmd.c_str())!=0) {}
}

struct server {
	int cfg;
	cppcms::json::value settings;
	cppcms::service *srv;
	cppcms::impl::file_server *fs;
	std::string output;
	std::string reset_line;
	server(int c) : cfg(c), srv(0), fs(0)
	{
		bool check=c&1, listing=(c>>1)&1, aliases=(c>>2)&1;
		settings["file_server"]["enable"]=false;   // not mounted: we call the application object directly
		settings["file_server"]["document_root"]=sb+"/www";
		settings["file_server"]["listing"]=listing;
		settings["file_server"]["check_symlink"]=check;
		settings["file_server"]["index"]="index.html";
		if(aliases) {
			settings["file_server"]["alias"][0]["url"]="/al";
			settings["file_server"]["alias"][0]["path"]=sb+"/alt";
			settings["file_server"]["alias"][1]["url"]="/b/";
			settings["file_server"]["alias"][1]["path"]=sb+"/bl";
		}
		srv=new cppcms::service(settings);
		fs=new cppcms::impl::file_server(*srv);
		std::ostringstream al; al<<'[';
		if(aliases) al<<vt::J().raw("url",path_json("al")).raw("target",path_json("alt")).str()<<','
			      <<vt::J().raw("url",path_json("b")).raw("target",path_json("bl")).str();
		al<<']';
		std::string cj=vt::J().raw("root",path_json("www")).b("check",check).b("listing",listing).raw("index",bytes_json("index.html")).raw("aliases",al.str()).str();
		reset_line=vt::J().s("e","Reset").i("cfg",c).raw("c",cj).raw("fs",tree_json()).str();
	}
	~server() { delete fs; delete srv; }
	std::string request(std::string const &path)
	{
		std::map<std::string,std::string> env;
		env["HTTP_HOST"]="localhost";
		env["SCRIPT_NAME"]="";
		env["PATH_INFO"]=path;
		env["REQUEST_METHOD"]="GET";
		env["SERVER_PROTOCOL"]="HTTP/1.0";
		output.clear();
		booster::shared_ptr<dummy_api> api(new dummy_api(*srv,env,output));
		booster::shared_ptr<cppcms::http::context> ctx(new cppcms::http::context(api));
		fs->assign_context(ctx);
		try {
			fs->main(path);
			fs->response().finalize();
		}
		catch(std::exception const &e) {
			output=std::string("Status: 599 exception\r\n\r\n")+e.what();
		}
		fs->release_context();
		return output;
	}
};

static int nev=0;
static std::map<std::string,int> seen_tb;      // table part of a listing -> offset of the line that carries it
static std::string between(std::string const &s,size_t &pos,std::string const &a,std::string const &b)
{
	size_t p=s.find(a,pos);
	if(p==std::string::npos) { pos=std::string::npos; return ""; }
	p+=a.size();
	size_t q=s.find(b,p);
	if(q==std::string::npos) { pos=std::string::npos; return ""; }
	pos=q+b.size();
	return s.substr(p,q-p);
}

static void emit(server &S,std::string const &raw)
{
	if(nev%500==0) { tr.line(S.reset_line); seen_tb.clear(); }
	nev++;
	// what the HTTP front end does: percent-decode, then hand over as a C string
	std::string dec=cppcms::util::urldecode(raw);
	std::string path=dec.c_str();
	std::string out=S.request(path);
	size_t he=out.find("\r\n\r\n");
	std::string head= he==std::string::npos ? out : out.substr(0,he+2);
	std::string body= he==std::string::npos ? std::string() : out.substr(he+4);
	int status=200;
	std::string loc;
	{
		size_t p=0;
		while(p<head.size()) {
			size_t q=head.find("\r\n",p); if(q==std::string::npos) q=head.size();
			std::string ln=head.substr(p,q-p);
			if(ln.compare(0,7,"Status:")==0) status=atoi(ln.c_str()+7);
			if(ln.compare(0,9,"Location:")==0) { loc=ln.substr(9); while(!loc.empty() && loc[0]==' ') loc.erase(0,1); }
			p=q+2;
		}
	}
	vt::J j; j.s("e","Get").bytes("raw",raw).bytes("p",path).i("st",status);
	std::string kind="other";
	if(status==404) kind="404";
	else if(status==302 || status==301) { kind="redirect"; j.bytes("loc",loc); }
	else if(status==200) {
		if(body.compare(0,5,"MARK:")==0 && body.size()<20 && body[body.size()-1]=='\n') { kind="file"; j.i("m",atoi(body.c_str()+5)); }
		else if(body.find("<title>Directory Listing</title>")!=std::string::npos) {
			kind="list";
			// the page is judged by TLC (tokenised the way a browser does); only the split at the first "<tbody>" and the
			// de-duplication of identical table parts within a Reset block happen here
			size_t tp=body.find("<tbody>");
			std::string head= tp==std::string::npos ? body : body.substr(0,tp);
			std::string tb  = tp==std::string::npos ? std::string() : body.substr(tp);
			j.bytes("head",head);
			int off=(nev-1)%500+1;                       // offset of this line from the Reset line of its block
			std::map<std::string,int>::iterator it=seen_tb.find(tb);
			if(it==seen_tb.end()) { seen_tb[tb]=off; j.i("bo",off).bytes("tb",tb); }
			else j.i("bo",it->second);
		}
		else j.bytes("body",body.substr(0,80));
	}
	j.s("kind",kind);
	tr.line(j.str());
}

static std::vector<std::string> alphabet(std::string const &name)
{
	std::vector<std::string> a;
	#define F(x) a.push_back(x)
	if(name=="core") {          // the segment kinds of the design
		F("d"); F("f.txt"); F("."); F(".."); F(""); F(".hid"); F("lin"); F("lout"); F("al"); F("al.."); F("alx"); F("lw2");
	}
	else if(name=="full") {
		F("d"); F("f.txt"); F("."); F(".."); F(""); F(".hid"); F("lin"); F("lout"); F("al"); F("al.."); F("alx"); F("lw2");
		F("e"); F("index.html"); F("lfo"); F("sock"); F("b"); F("www2"); F("alt2"); F("s<&\"'"); F("sub"); F("lup"); F("..."); F("out"); F("ixo"); F("ixi"); F("h");
	}
	else if(name=="hl") {       // directories with hostile entry names
		F("h"); F(""); F(".."); F("."); F("d'ir"); F("al"); F("s<&\"'"); F("it's.txt");
	}
	else if(name=="ix") {       // directories whose index.html is a symlink (to outside / to inside)
		F("ixo"); F("ixi"); F("d"); F(".."); F(""); F("."); F("al"); F("index.html"); F("f.txt");
	}
	else if(name=="merge") {    // names that normalize_path can glue together
		F("a"); F("l"); F("x"); F(".."); F("f.txt"); F("");
	}
	else if(name=="mid") {
		F("d"); F("f.txt"); F("."); F(".."); F(""); F(".hid"); F("lin"); F("lout"); F("al"); F("al.."); F("alx"); F("lw2"); F("e"); F("lup");
	}
	else { std::cerr<<"unknown alphabet"<<std::endl; exit(2); }
	#undef F
	return a;
}

static std::string pct(std::string const &s,bool dots,bool slashes,bool upper)
{
	std::string r;
	for(size_t i=0;i<s.size();i++) {
		if(s[i]=='.' && dots) r+= upper ? "%2E" : "%2e";
		else if(s[i]=='/' && slashes && i>0) r+= upper ? "%2F" : "%2f";
		else r+=s[i];
	}
	return r;
}

int main(int argc,char **argv)
{
	if(argc<2) { std::cerr<<"usage: see source"<<std::endl; return 2; }
	std::string mode=argv[1];
	if(mode=="tla") {
		std::vector<node> t=tree();
		std::cout<<"FS == <<\n";
		for(size_t i=0;i<t.size();i++) {
			std::string pj=path_json(t[i].path), tj=path_json(t[i].target);
			for(size_t k=0;k<pj.size();k++) { if(pj[k]=='[') pj.replace(k,1,"<<"),k++; else if(pj[k]==']') pj.replace(k,1,">>"),k++; }
			for(size_t k=0;k<tj.size();k++) { if(tj[k]=='[') tj.replace(k,1,"<<"),k++; else if(tj[k]==']') tj.replace(k,1,">>"),k++; }
			char const *k= t[i].kind=='d'?"dir": t[i].kind=='r'?"reg": t[i].kind=='l'?"lnk":"oth";
			std::cout<<"  [p |-> "<<pj<<", k |-> \""<<k<<"\", m |-> "<<t[i].marker<<", t |-> "<<tj<<"]"<<(i+1<t.size()?",":"")<<"   \\* "<<printable(t[i].path)<<"\n";
		}
		std::cout<<">>\n";
		return 0;
	}
	tr.open();
	build_sandbox();
	atexit(remove_sandbox);
	if(mode=="one") {
		server S(atoi(argv[2]));
		emit(S,argc>3?argv[3]:"");
		tr.close(); return 0;
	}
	if(argc<7) { std::cerr<<"too few arguments"<<std::endl; return 2; }
	int shard=atoi(argv[4]),nshards=atoi(argv[5]);
	for(int ci=6;ci<argc;ci++) {
		server S(atoi(argv[ci]));
		nev=0;
		if(mode=="enum") {
			std::vector<std::string> al=alphabet(argv[2]);
			int maxlen=atoi(argv[3]);
			long count=0;
			std::vector<int> ix;
			for(int len=0;len<=maxlen;len++) {
				ix.assign(len,0);
				for(;;) {
					if(count++%nshards==shard) {
						std::string p;
						bool special=false;
						for(int i=0;i<len;i++) { p+="/"; p+=al[ix[i]]; if(al[ix[i]].find('.')!=std::string::npos) special=true; }
						emit(S,pct(p,false,false,false));
						if(special) emit(S,pct(p,true,(count%2)==0,(count%3)==0));       // %-encoded spelling of dots (and separators)
						else if(len>1 && count%4==0) emit(S,pct(p,false,true,false));
					}
					int q=len-1;
					while(q>=0 && ++ix[q]==(int)al.size()) { ix[q]=0; q--; }
					if(q<0) break;
				}
			}
		}
		else if(mode=="rnd") {
			long count=atol(argv[2]); int maxseg=atoi(argv[3]);
			std::vector<std::string> al=alphabet("full");
			vt::rng g(vt::envl("VERIF_SEED",1)*7919u+S.cfg*31u+shard*1009u+3);
			char const *junk[]={"%00","%c0%af","..%c0%af","%2e%2e%2f","..%2f..","%2e.","..%00","....","..\\","%5c..","+",".. "," ..","%zz","%2","%","a%00b","%252e%252e","\xc3\xa9","<script>","al%2f..","%2e%2e%2f%2e%2e%2fout","d%2f..%2f..%2fout"};
			for(long i=0;i<count;i++) {
				std::string p;
				int n=1+g(maxseg);
				if(i%97==96) n=200+g(1500);
				for(int k=0;k<n;k++) {
					p+= g.chance(1,40) ? "" : "/";
					if(g.chance(1,6)) p+=junk[g(sizeof(junk)/sizeof(junk[0]))];
					else if(n>100) p+= g.chance(2,3) ? ".." : al[g(al.size())];
					else p+=al[g(al.size())];
				}
				if(i%nshards!=shard) continue;
				int sp=g(4);
				emit(S, sp==0 ? p : pct(p,sp&1,sp&2,g.chance(1,2)));
			}
		}
		else { std::cerr<<"unknown mode"<<std::endl; return 2; }
	}
	tr.close();
	return 0;
}
