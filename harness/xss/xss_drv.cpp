// C04 driver: runs cppcms::xss::validate / filter / validate_and_filter_if_invalid on
// enumerated and grammar-guided random inputs under generated rule sets and logs one
// ND-JSON event per input (judged by spec/Xss/XssTokTrace.tla).
//
// usage: xss_drv frag <alphabet> <maxlen> <shard> <nshards> <rid>...   all fragment strings <= maxlen
//        xss_drv rnd  <count> <maxbytes> <shard> <nshards> <rid>...     grammar-guided random strings
//        xss_drv one  <rid> <hex-bytes>                                 single input (replay / probes)
//        xss_drv rules <rid>                                            print the Reset line only
//        xss_drv ent  <maxv> <ctx> <shard> <nshards> <rid>...           every "&" w ";" over the character classes a lenient
//                     number parser might swallow: w = "#" v with |v| <= maxv, and w without leading "#" with |w| <= maxv-1;
//                     ctx 0: in text position (x&w;y), ctx 1: inside an attribute value (<b t="&w;"/>)
//        xss_drv eng  <level> 0 <shard> <nshards> <rid>...             engine rule sets (rid >= 2000): values that are one
//                     forbidden character away from the language of an expression with nested quantifiers (lengths 48, 200,
//                     2000) or that carry invalid UTF-8 under a regex::utf8 expression; level 0 = quick subset
//        xss_drv u8   0 0 <shard> <nshards> <rid>...                    ill-formed UTF-8 family (overlong 2/3/4-byte forms at their
//                     boundaries, surrogates, > U+10FFFF, F5..FF leads, truncated sequences, lone continuations, all second
//                     bytes after E0 / ED / F0 / F4) and the well-formed boundary neighbours, in text position, inside <b>,
//                     inside an attribute value, at the end of the input and before '<'
//        xss_drv enc  <pairstep> <ctx> <shard> <nshards>                every charset name the code can be configured with
//                     x every byte 00..FF embedded in harmless text (ctx 1: also inside <b>..</b>); multi-byte charsets:
//                     every <pairstep>-th pair (lead >= 0x80, any second byte); expected bits from iconv(3)
// Rule sets: rid 0..63 generated family; rid 100.. = enumeration rule sets (tags a,b with chosen kinds).
#include "common/vtrace.h"
#include <cppcms/xss.h>
#include <cppcms/json.h>
#include <booster/regex.h>
#include <iostream>
#include <iconv.h>
#include <errno.h>
#include <map>
#include <set>

using namespace cppcms;
static vt::out tr;
static unsigned long seed0=1;

struct attr_d {
	std::string tag,name,type;              // type: bool int uri rel abs cset alts opq
	std::vector<std::string> sch;           // allowed schemes
	std::string set; int min;               // cset
	std::vector<std::string> alts;          // alts
	std::string regex;                      // source expression for cset / alts / opq / (uri: scheme expression, if not empty)
	int flags;                              // booster::regex flags of the expression (regex::utf8 ...)
	int id;
};
struct tag_d { std::string name; int kind; };
struct ruleset {
	int rid; bool xhtml,comments,numeric; std::string enc; char repl; bool via_json;
	std::vector<std::string> ents;
	std::vector<tag_d> tags;
	std::vector<attr_d> attrs;
	xss::rules r;
	std::map<int,xss::rules::validator_type> vals;   // opaque verdict sources (public API objects)
	std::map<int,booster::regex> rxs;
	std::string reset_line;
};

static std::string range(char a,char b) { std::string s; for(int c=a;c<=b;c++) s+=char(c); return s; }
static std::string alt_regex(std::vector<std::string> const &v) { std::string s="("; for(size_t i=0;i<v.size();i++){ if(i) s+="|"; s+=v[i]; } return s+")"; }

static attr_d mk(std::string tag,std::string name,std::string type,int id)
{
	attr_d a; a.tag=tag; a.name=name; a.type=type; a.min=0; a.flags=0; a.id=id; return a;
}
static std::vector<attr_d> catalogue()
{
	std::vector<attr_d> c;
	attr_d a;
	a=mk("a","href","uri",1); a.sch.push_back("http"); a.sch.push_back("https"); a.sch.push_back("ftp"); c.push_back(a);
	a=mk("a","title","cset",2); a.set=range('a','z')+range('A','Z')+range('0','9')+" "; a.regex="[a-zA-Z0-9 ]*"; c.push_back(a);
	a=mk("a","rel","rel",3); c.push_back(a);
	a=mk("a","name","alts",4); a.alts.push_back("top"); a.alts.push_back("bottom"); a.regex="(top|bottom)"; c.push_back(a);
	a=mk("a","c","int",5); c.push_back(a);
	a=mk("img","src","abs",6); a.sch.push_back("http"); a.sch.push_back("https"); c.push_back(a);
	a=mk("img","alt","cset",7); for(int i=0;i<256;i++) if(i!=10) a.set+=char(i); a.regex=".*"; c.push_back(a);
	a=mk("img","width","int",8); c.push_back(a);
	a=mk("input","checked","bool",9); c.push_back(a);
	a=mk("input","value","cset",10); a.set=range('a','z'); a.min=1; a.regex="[a-z]+"; c.push_back(a);
	a=mk("p","class","cset",11); a.set=range('a','z'); a.min=1; a.regex="[a-z]+"; c.push_back(a);
	a=mk("p","style","opq",12); a.regex="\\s*text-align:\\s*(center|left|right|justify);?\\s*"; c.push_back(a);
	a=mk("b","id","cset",13); a.set=range('a','z')+range('A','Z')+range('0','9')+"_"; a.min=1; a.regex="[A-Za-z0-9_]+"; c.push_back(a);
	a=mk("b","c","cset",14); a.set=range('a','z'); a.min=0; a.regex="[a-z]*"; c.push_back(a);
	a=mk("span","lang","alts",15); a.alts.push_back("en"); a.alts.push_back("he"); a.alts.push_back("ru"); a.regex="(en|he|ru)"; c.push_back(a);
	a=mk("zz","onclick","int",16); c.push_back(a);            // property of a tag that is never add_tag()ed
	a=mk("B","c","int",17); c.push_back(a);                   // XHTML only: "B" is not "b"
	a=mk("br","clear","alts",18); a.alts.push_back("all"); a.alts.push_back("left"); a.regex="(all|left)"; c.push_back(a);
	a=mk("i","checked","bool",19); c.push_back(a);
	a=mk("a","src","abs",20); a.sch.push_back("http"); c.push_back(a);
	a=mk("b","t","cset",21); for(int i=0;i<256;i++) if(i!=10) a.set+=char(i); a.regex=".*"; c.push_back(a);   // any text (entity sweep inside a value)
	return c;
}

static void describe(ruleset &rs)
{
	std::ostringstream tags;
	// tags incl. kind-0 tags created by add_property alone
	std::vector<tag_d> all=rs.tags;
	for(size_t i=0;i<rs.attrs.size();i++) {
		bool f=false;
		for(size_t j=0;j<all.size();j++) if(all[j].name==rs.attrs[i].tag) f=true;
		if(!f) { tag_d t; t.name=rs.attrs[i].tag; t.kind=0; all.push_back(t); }
	}
	tags<<'[';
	for(size_t i=0;i<all.size();i++) {
		if(i) tags<<',';
		std::ostringstream at; at<<'[';
		bool first=true;
		for(size_t j=0;j<rs.attrs.size();j++) {
			attr_d const &a=rs.attrs[j];
			if(a.tag!=all[i].name) continue;
			if(!first) at<<','; first=false;
			std::ostringstream sch,alts; sch<<'['; alts<<'[';
			for(size_t k=0;k<a.sch.size();k++) { if(k) sch<<','; std::string b=vt::J().bytes("x",a.sch[k]).str(); sch<<b.substr(5,b.size()-6); }
			for(size_t k=0;k<a.alts.size();k++) { if(k) alts<<','; std::string b=vt::J().bytes("x",a.alts[k]).str(); alts<<b.substr(5,b.size()-6); }
			sch<<']'; alts<<']';
			at<<vt::J().bytes("n",a.name).s("t",a.type).raw("sch",sch.str()).bytes("set",a.set).i("min",a.min).raw("alts",alts.str()).i("id",a.id).str();
		}
		at<<']';
		tags<<vt::J().bytes("n",all[i].name).i("k",all[i].kind).raw("attrs",at.str()).str();
	}
	tags<<']';
	std::ostringstream e2; e2<<'[';
	for(size_t i=0;i<rs.ents.size();i++) { if(i) e2<<','; std::string b=vt::J().bytes("x",rs.ents[i]).str(); e2<<b.substr(5,b.size()-6); }
	e2<<']';
	rs.reset_line=vt::J().s("e","Reset").i("rid",rs.rid).b("xhtml",rs.xhtml).b("comments",rs.comments).b("numeric",rs.numeric)
		.s("enc",rs.enc).i("repl",(unsigned char)rs.repl).b("json",rs.via_json).raw("ents",e2.str()).raw("tags",tags.str()).str();
}

static char const *encname(std::string const &e)
{
	if(e=="utf8") return "UTF-8";
	if(e=="latin1") return "ISO-8859-1";
	if(e=="cp1252") return "windows-1252";
	return "";
}

static void build(ruleset &rs)
{
	xss::rules::tag_type kinds[4]={xss::rules::invalid_tag,xss::rules::opening_and_closing,xss::rules::stand_alone,xss::rules::any_tag};
	if(rs.via_json) {
		json::value v;
		v["xhtml"]=rs.xhtml; v["comments"]=rs.comments; v["numeric_entities"]=rs.numeric;
		if(rs.enc!="none") v["encoding"]=encname(rs.enc);
		v["entities"]=json::array();
		for(size_t i=4;i<rs.ents.size();i++) v["entities"][i-4]=rs.ents[i];
		char const *kn[4]={"","opening_and_closing","stand_alone","any_tag"};
		int cnt[4]={0,0,0,0};
		for(size_t i=0;i<rs.tags.size();i++) { int k=rs.tags[i].kind; v["tags"][kn[k]][cnt[k]++]=rs.tags[i].name; }
		for(size_t i=0;i<rs.attrs.size();i++) {
			attr_d const &a=rs.attrs[i];
			json::value &o=v["attributes"][i];
			o["pairs"][0]["tag"]=a.tag; o["pairs"][0]["attr"]=a.name;
			if(a.type=="bool") o["type"]="boolean";
			else if(a.type=="int") o["type"]="integer";
			else if(a.type=="uri") { o["type"]="uri"; o["scheme"]=alt_regex(a.sch); }
			else if(a.type=="abs") { o["type"]="absolute_uri"; o["scheme"]=alt_regex(a.sch); }
			else if(a.type=="rel") o["type"]="relative_uri";
			else { o["type"]="regex"; o["expression"]=a.regex; }
		}
		rs.r=xss::rules(v);
	}
	else {
		xss::rules r;
		r.html(rs.xhtml ? xss::rules::xhtml_input : xss::rules::html_input);   // first, as documented
		r.comments_allowed(rs.comments);
		r.numeric_entities_allowed(rs.numeric);
		if(rs.enc!="none") r.encoding(encname(rs.enc));
		for(size_t i=4;i<rs.ents.size();i++) r.add_entity(rs.ents[i]);
		for(size_t i=0;i<rs.tags.size();i++) r.add_tag(rs.tags[i].name,kinds[rs.tags[i].kind]);
		for(size_t i=0;i<rs.attrs.size();i++) {
			attr_d const &a=rs.attrs[i];
			if(a.type=="bool") r.add_boolean_property(a.tag,a.name);
			else if(a.type=="int") r.add_integer_property(a.tag,a.name);
			else if(a.type=="uri") r.add_uri_property(a.tag,a.name,a.regex.empty()?alt_regex(a.sch):a.regex);
			else if(a.type=="abs") r.add_property(a.tag,a.name,xss::rules::uri_validator(alt_regex(a.sch),true));
			else if(a.type=="rel") r.add_property(a.tag,a.name,xss::rules::relative_uri_validator());
			else r.add_property(a.tag,a.name,booster::regex(a.regex,a.flags));
		}
		rs.r=r;
	}
	for(size_t i=0;i<rs.attrs.size();i++) {
		attr_d const &a=rs.attrs[i];
		if(a.type=="uri") rs.vals[a.id]=xss::rules::uri_validator(a.regex.empty()?alt_regex(a.sch):a.regex,false);
		else if(a.type=="abs") rs.vals[a.id]=xss::rules::uri_validator(alt_regex(a.sch),true);
		else if(a.type=="rel") rs.vals[a.id]=xss::rules::relative_uri_validator();
		else if(a.type=="opq") rs.rxs[a.id]=booster::regex(a.regex);
	}
	describe(rs);
}

static ruleset make_rules(int rid)
{
	ruleset rs; rs.rid=rid;
	char const *encs[4]={"none","utf8","latin1","cp1252"};
	rs.ents.push_back("lt"); rs.ents.push_back("gt"); rs.ents.push_back("amp"); rs.ents.push_back("quot");
	std::vector<attr_d> cat=catalogue();
	if(rid>=2000) {
		// "engine" rule sets (rid = 2000 + xhtml + 2*enc): expression attributes whose expressions drive PCRE into its
		// error results (match / recursion limit: nested quantifiers; bad UTF-8: expressions compiled with regex::utf8).
		// Each is declared to TLC as the character set / alternatives / scheme list that CONTAINS its language.
		int x=rid-2000;
		rs.xhtml=x%2; rs.comments=false; rs.numeric=false; rs.enc=encs[(x/2)%4]; rs.repl=0; rs.via_json=false;
		tag_d t; t.kind=3; t.name="a"; rs.tags.push_back(t); t.name="p"; rs.tags.push_back(t); t.name="b"; rs.tags.push_back(t);
		attr_d a;
		a=mk("p","class","cset",31); a.set=range('a','z')+range('A','Z')+range('0','9')+"_- "; a.regex="([a-zA-Z0-9_-]+ ?)*"; rs.attrs.push_back(a);
		a=mk("p","id","cset",32); a.set=range('a','z'); a.regex="([a-z]+)*"; rs.attrs.push_back(a);
		a=mk("b","k","cset",33); a.set="a"; a.min=1; a.regex="(a|aa)+"; rs.attrs.push_back(a);
		a=mk("b","c","cset",34); a.set="xy"; a.min=1; a.regex="(x+x+)+y"; rs.attrs.push_back(a);
		a=mk("a","title","cset",35); a.set=range('a','z')+"./:-"; a.min=1; a.regex="[a-z./:-]+"; a.flags=booster::regex::utf8; rs.attrs.push_back(a);
		a=mk("a","name","alts",36); a.alts.push_back("top"); a.alts.push_back("bottom"); a.regex="(top|bottom)"; a.flags=booster::regex::utf8; rs.attrs.push_back(a);
		a=mk("a","href","uri",37); a.sch.push_back("http"); a.sch.push_back("https"); a.regex="(h+)+ttps?"; rs.attrs.push_back(a);
		a=mk("p","lang","cset",38); a.set=range('a','z')+range('0','9')+"_"; a.min=1; a.regex="(\\w+\\d*)+"; a.flags=booster::regex::utf8; rs.attrs.push_back(a);
		build(rs);
		return rs;
	}
	if(rid>=100) {
		// enumeration rule sets: rid = 100 + ka + 4*kb + 16*xhtml + 32*comments + 64*numeric + 128*enc + 512*json
		int x=rid-100;
		int ka=x%4, kb=(x/4)%4;
		rs.xhtml=(x/16)%2; rs.comments=(x/32)%2; rs.numeric=(x/64)%2; rs.enc=encs[(x/128)%4];
		rs.repl=0; rs.via_json=(x/512)%2 && ka && kb;     // loaded through rules(json::value)
		tag_d t; t.name="a"; t.kind=ka; if(ka) rs.tags.push_back(t);
		t.name="b"; t.kind=kb; if(kb) rs.tags.push_back(t);
		rs.ents.push_back("a");
		for(size_t i=0;i<cat.size();i++) {
			attr_d const &a=cat[i];
			if((a.tag=="a" && (a.name=="href" || a.name=="c" || a.name=="title" || a.name=="name")) || (a.tag=="b" && (a.name=="c" || a.name=="t")))
				rs.attrs.push_back(a);
		}
		build(rs);
		return rs;
	}
	vt::rng g(seed0*1000003u+rid*7919u+17);
	rs.xhtml=rid%2; rs.comments=(rid/2)%2; rs.numeric=(rid/4)%2; rs.enc=encs[(rid/8)%4];
	rs.repl=(rid%3==0)?'?':0;
	rs.via_json=(rid%5==4);
	char const *pool[]={"a","b","i","p","br","img","input","hr","span"};
	for(unsigned i=0;i<sizeof(pool)/sizeof(pool[0]);i++) {
		int k=g(4);
		if(i<2 && k==0) k=1+g(3);
		if(k==0) continue;
		tag_d t; t.name=pool[i]; t.kind=k; rs.tags.push_back(t);
	}
	if(rs.xhtml && g.chance(1,2)) { tag_d t; t.name="B"; t.kind=3; rs.tags.push_back(t); }
	if(g.chance(1,2)) rs.ents.push_back("nbsp");
	if(g.chance(1,2)) rs.ents.push_back("copy");
	for(size_t i=0;i<cat.size();i++) {
		attr_d const &a=cat[i];
		bool have=false;
		for(size_t j=0;j<rs.tags.size();j++) if(rs.tags[j].name==a.tag) have=true;
		if(a.tag=="zz") have=!rs.via_json && g.chance(1,2);
		if(!have) continue;
		if(!rs.xhtml && a.tag=="B") continue;
		if(g.chance(3,4)) rs.attrs.push_back(a);
	}
	build(rs);
	return rs;
}

// ------------------------------------------------------------------ events
static int nev=0,last_rid=-1;
static int inlang_flag=-1;          // -1: not stated; 0: the driver knows an attribute value of this input is NOT in its expression's language
static void emit(ruleset &rs,std::string const &in)
{
	if(nev%400==0 || rs.rid!=last_rid) { tr.line(rs.reset_line); nev=0; last_rid=rs.rid; }
	nev++;
	char const *b=in.c_str(),*e=b+in.size();
	vt::J j; j.s("e","F").bytes("in",in);
	if(inlang_flag>=0) j.b("inlang",inlang_flag!=0);
	std::string orr,oe;
	try {
		bool vi=xss::validate(b,e,rs.r);
		std::string tmp;
		bool vfr=xss::validate_and_filter_if_invalid(b,e,rs.r,tmp,xss::remove_invalid,rs.repl);
		tmp.clear();
		bool vfe=xss::validate_and_filter_if_invalid(b,e,rs.r,tmp,xss::escape_invalid,rs.repl);
		orr=xss::filter(b,e,rs.r,xss::remove_invalid,rs.repl);
		oe=xss::filter(in,rs.r,xss::escape_invalid,rs.repl);
		bool vor=xss::validate(orr.c_str(),orr.c_str()+orr.size(),rs.r);
		bool voe=xss::validate(oe.c_str(),oe.c_str()+oe.size(),rs.r);
		bool sr=xss::filter(orr,rs.r,xss::remove_invalid,rs.repl)==orr;
		bool se=xss::filter(oe,rs.r,xss::escape_invalid,rs.repl)==oe;
		j.b("vi",vi).b("vfr",vfr).b("vfe",vfe).b("vor",vor).b("voe",voe).b("sr",sr).b("se",se);
		if(orr!=in) j.bytes("or",orr);
		if(oe!=in) j.bytes("oe",oe);
	}
	catch(std::exception const &ex) {
		j.b("vi",false).b("vfr",false).b("vfe",false).b("vor",false).b("voe",false).b("sr",false).b("se",false).s("exc",ex.what());
	}
	// verdicts of the opaque validators on every quoted string of in / outputs
	std::ostringstream rx; rx<<'['; bool first=true;
	if(!rs.vals.empty() || !rs.rxs.empty()) {
		std::set<std::string> cand;
		std::string const *txt[3]={&in,&orr,&oe};
		for(int k=0;k<3;k++) {
			std::string const &t=*txt[k];
			if(k>0 && t==in) continue;
			size_t lt=t.find('<');
			if(lt==std::string::npos) continue;
			for(size_t p=lt;p<t.size();p++) {
				if(t[p]!='"' && t[p]!='\'') continue;
				size_t q=t.find(t[p],p+1);
				if(q==std::string::npos || q-p>300) continue;
				cand.insert(t.substr(p+1,q-p-1));
			}
		}
		for(std::set<std::string>::const_iterator c=cand.begin();c!=cand.end();++c) {
			char const *vb=c->c_str(),*ve=vb+c->size();
			for(std::map<int,xss::rules::validator_type>::iterator v=rs.vals.begin();v!=rs.vals.end();++v) {
				if(!first) rx<<','; first=false;
				rx<<vt::J().i("id",v->first).bytes("v",*c).b("ok",v->second(vb,ve)).str();
			}
			for(std::map<int,booster::regex>::iterator v=rs.rxs.begin();v!=rs.rxs.end();++v) {
				if(!first) rx<<','; first=false;
				rx<<vt::J().i("id",v->first).bytes("v",*c).b("ok",booster::regex_match(vb,ve,v->second)).str();
			}
		}
	}
	rx<<']';
	j.raw("rx",rx.str());
	tr.line(j.str());
}

// ------------------------------------------------------------------ fragment alphabets
static std::vector<std::string> alphabet(std::string const &name)
{
	std::vector<std::string> a;
	#define F(x) a.push_back(std::string(x,sizeof(x)-1))
	if(name=="chars") {          // single characters, one representative per class
		F("<"); F(">"); F("&"); F(";"); F("/"); F("a"); F("b"); F(" "); F("="); F("\""); F("#"); F("1"); F("x"); F("-"); F("!"); F("'");
	}
	else if(name=="chars2") {    // second representatives + control / high bytes
		F("<"); F(">"); F("&"); F(";"); F("/"); F("B"); F("i"); F("\t"); F("="); F("'"); F("#"); F("9"); F("X"); F("\0"); F("\xc3"); F("\xa9");
	}
	else if(name=="frag") {      // as the Leg D alphabet (XssTokD.Frags)
		F("<"); F(">"); F("&"); F(";"); F("/"); F("a"); F("b"); F(" "); F(" c=\""); F("\""); F("1"); F("#");
		F("<!--"); F("-->"); F("-"); F("x");
	}
	else if(name=="attr") {      // attribute / URI oriented
		F("<a"); F(" href=\""); F(" href='"); F("\""); F("'"); F(">"); F("http:"); F("javascript:"); F("//h/"); F("&amp;");
		F("&"); F(" "); F("/"); F("</a>"); F("\t"); F(" c=\"1\"");
	}
	else if(name=="tok") {       // whole tokens (XssNest alphabet concretised)
		F("<a>"); F("</a>"); F("<a/>"); F("<b>"); F("</b>"); F("<b/>"); F("t"); F("&amp;"); F("&zz;"); F("<!--c-->"); F("<"); F(">");
	}
	else if(name=="tok2") {      // tokens with attributes
		F("<a>"); F("</a>"); F("<b>"); F("</b>"); F("<a c=\"1\">"); F("<a c=\"x\">"); F("<a href=\"http://h/\">"); F("<a href=\"javascript:x\">");
		F("<b c=\"q\"/>"); F("<A>"); F("</A>"); F("&#1;"); F("&#65;"); F("<a c='1' c='2'>");
		F("<b c=\"q\n\"/>"); F("<a name='top\n'>");
	}
	else if(name=="lf") {        // expression-typed attribute values: a word of the language plus LF / CR / LF LF / LF inside
		F("<b c=\""); F("<a name='"); F("<a title=\""); F("q"); F("top"); F("\n"); F("\r"); F("\""); F("'"); F("/>");
	}
	else if(name=="ctl") {       // pure 7-bit text with C0 / DEL bytes (charset validators reject them)
		F("a"); F("\x04"); F("\x7f"); F("\0"); F("\x0b"); F("\x1f"); F(" "); F("\t"); F("<b>"); F("</b>"); F("&amp;"); F("\x08"); F("\x0c"); F("\x0e");
	}
	#undef F
	else { std::cerr<<"unknown alphabet "<<name<<std::endl; exit(2); }
	return a;
}

static void enumerate(std::vector<std::string> const &al,int maxlen,int shard,int nshards,std::vector<ruleset> &rss)
{
	for(size_t r=0;r<rss.size();r++) {
		std::vector<int> ix;
		long count=0;
		for(int len=0;len<=maxlen;len++) {
			ix.assign(len,0);
			for(;;) {
				if(count++%nshards==shard) {
					std::string s;
					for(int i=0;i<len;i++) s+=al[ix[i]];
					emit(rss[r],s);
				}
				int p=len-1;
				while(p>=0 && ++ix[p]==(int)al.size()) { ix[p]=0; p--; }
				if(p<0) break;
			}
		}
	}
}

// ------------------------------------------------------------------ grammar-guided random strings
struct gen {
	vt::rng g; ruleset const &rs; std::vector<attr_d> cat;
	gen(unsigned long s,ruleset const &r) : g(s), rs(r), cat(catalogue()) {}
	std::string pick(char const **v,int n) { return v[g(n)]; }
	std::string ws() { char const *w[]={" "," ","\t","\n","\r","  ",""}; return w[g(7)]; }
	std::string text()
	{
		std::string s; int n=g(12);
		for(int i=0;i<n;i++) {
			switch(g(14)) {
			case 0: s+=char(0); break;
			case 1: s+=char(1+g(31)); break;
			case 2: s+=char(128+g(128)); break;
			case 3: s+="\xd7\xa9"; break;                    // valid 2-byte UTF-8
			case 4: s+="\xe2\x82\xac"; break;                // valid 3-byte
			case 5: s+="\xf0\x9f\x98\x80"; break;            // valid 4-byte
			case 6: { char const *bad[]={"\xc0\xaf","\xed\xa0\x80","\xf4\x90\x80\x80","\xe2\x82","\xc2\x85","\x81","\x7f"}; s+=bad[g(7)]; } break;
			case 7: s+=' '; break;
			default: s+=char('a'+g(26));
			}
		}
		return s;
	}
	std::string tagname()
	{
		switch(g(10)) {
		case 0: { char const *u[]={"script","style","zz","x","B","A","IMG","Br","_a","a1","1a","a_b"}; return u[g(12)]; }
		case 1: if(!rs.tags.empty()) { std::string n=rs.tags[g(rs.tags.size())].name; for(size_t i=0;i<n.size();i++) if(g.chance(1,2)) n[i]=toupper(n[i]); return n; }
		default:
			if(rs.tags.empty()) return "a";
			return rs.tags[g(rs.tags.size())].name;
		}
	}
	// a value, and for expression / integer attributes sometimes a word of the language with a line
	// break after it or inside it ("abc\n" must not pass a full-match expression)
	std::string value(attr_d const &a)
	{
		std::string v=value0(a);
		if((a.type=="cset" || a.type=="alts" || a.type=="opq" || a.type=="int") && g.chance(1,5)) {
			switch(g(5)) {
			case 0: v+="\n"; break;
			case 1: v+="\r\n"; break;
			case 2: v+="\n\n"; break;
			case 3: v.insert(v.size()/2,"\n"); break;
			default: v+="\r";
			}
		}
		return v;
	}
	std::string value0(attr_d const &a)
	{
		bool good=g.chance(2,3);
		if(a.type=="int") { char const *v[]={"1","-12","007","3415423452452454235234523"}; char const *b[]={"","-","1.3","x","1 ","+1","1\0"}; return good?v[g(4)]:b[g(6)]; }
		if(a.type=="bool") return good ? a.name : (g.chance(1,2) ? std::string("yes") : a.name+"x");
		if(a.type=="cset") { std::string s; int n=a.min+g(6); for(int i=0;i<n;i++) s+= good ? a.set[g(a.set.size())] : char(32+g(95)); if(good) { for(size_t i=0;i<s.size();i++) if(s[i]=='<'||s[i]=='>'||s[i]=='&'||s[i]=='"'||s[i]=='\'') s[i]='x'; } return s; }
		if(a.type=="alts") return good ? a.alts[g(a.alts.size())] : a.alts[0]+(g.chance(1,2)?"\nonclick":"x");
		if(a.type=="opq") { char const *v[]={"text-align:center","  text-align: left; ","text-align:justify;"}; char const *b[]={"text-align:center;x","width:expression(alert(1))","text-align:center\n\n","Text-align:left"}; return good?v[g(3)]:b[g(4)]; }
		// URIs
		char const *schemes[]={"http","https","ftp","javascript","JAVASCRIPT","data","vbscript","Http","mailto","http-x","h"};
		char const *rest[]={"//example.com/","//u:p@h:80/p/q?x=1&amp;y=2#f","//127.0.0.1/","/abs/path","rel/path.html","?q","#frag","//h/%41%zz","//h/a b","alert(1)","//h/I'm","//[::1]/","","//h/&apos;x","//h/&#39;"};
		std::string s;
		int k=g(12);
		if(k<6) { s=schemes[good?g(3):g(11)]; s+=":"; s+=rest[g(15)]; }
		else if(k<9) s=rest[3+g(4)];
		else if(k==9) s=std::string(" ")+schemes[g(11)]+":"+rest[g(15)];
		else if(k==10) { s=schemes[g(11)]; s.insert(g(s.size()+1),g.chance(1,2)?"\t":"&#x09;"); s+=":x"; }
		else s=schemes[g(11)];               // scheme name alone / with path: "http", "http/x"
		if(k==11 && g.chance(1,2)) s+="/x";
		return s;
	}
	std::string attrs(std::string const &tag)
	{
		std::string s; int n=g(4);
		for(int i=0;i<n;i++) {
			attr_d const *a=0;
			std::vector<attr_d const *> mine;
			for(size_t j=0;j<cat.size();j++) if(cat[j].tag==tag || g.chance(1,12)) mine.push_back(&cat[j]);
			if(!mine.empty() && g.chance(5,6)) a=mine[g(mine.size())];
			std::string name= a ? a->name : std::string(g.chance(1,2)?"onclick":"style");
			if(g.chance(1,10)) for(size_t k=0;k<name.size();k++) if(g.chance(1,2)) name[k]=toupper(name[k]);
			s+= g.chance(9,10) ? ws() : std::string("");
			if(s.empty() || g.chance(19,20)) { if(s.empty() || !isspace((unsigned char)s[s.size()-1])) s+= g.chance(9,10)?" ":""; }
			s+=name;
			if(a && a->type=="bool" && g.chance(1,2)) { s+=g.chance(3,4)?" ":""; continue; }
			s+= g.chance(1,15) ? " =" : (g.chance(1,15) ? "= " : "=");
			std::string v= a ? value(*a) : std::string("alert(1)");
			switch(g(12)) {
			case 0: s+=v; break;                                    // unquoted
			case 1: s+="\""+v; break;                               // unterminated
			case 2: s+="\""+v+"'"; break;                           // mixed quotes
			case 3: s+="'"+v+"\""+"'"; break;
			case 4: s+="\""+v+">\""; break;                         // '>' inside
			case 5: s+="\""+v+"<\""; break;
			case 6: s+="'"+v+"&"+"'"; break;                        // bare '&'
			case 7: s+="'"+v+"'"; break;
			default: s+="\""+v+"\"";
			}
		}
		return s;
	}
	std::string item(int depth)
	{
		switch(g(16)) {
		case 0: case 1: case 2: return text();
		case 3: { char const *e[]={"&amp;","&lt;","&gt;","&quot;","&nbsp;","&copy;","&apos;","&zz;","&Amp;","&amp","&;","& ","&a b;","&#65;","&#x41;","&#X3c;","&#0;","&#x0;","&#1;","&#x9;","&#13;","&#127;","&#x9f;","&#xD800;","&#xDC00;","&#xFFFE;","&#x10FFFF;","&#x110000;","&#99999999999;","&#-45;","&#x;","&#;","&#65","&#x41g;"}; return e[g(34)]; }
		case 4: { char const *c[]={"<!-- c -->","<!---->","<!-- a--b -->","<!-- > -->","<!-- < -->","<!-- & -->","<!-- x --","<!-- x -","<!--","<!-->","<!--->","<!-- x --!>","<!- x -->","< !-- x -->","<!--[if IE]><script>x</script><![endif]-->","<![CDATA[x]]>","<!DOCTYPE html>","<?xml?>"}; return c[g(18)]; }
		case 5: return g.chance(1,2) ? "<" : (g.chance(1,2) ? ">" : "&");
		case 6: { std::string t=tagname(); return "</"+t+(g.chance(1,6)?ws():"")+(g.chance(1,12)?" x":"")+">"; }
		case 7: { std::string t=tagname(); return "<"+t+attrs(t)+(g.chance(1,3)?" ":"")+"/>"; }
		case 8: { std::string t=tagname(); std::string s="<"+t+attrs(t); if(g.chance(1,8)) s+=ws(); if(g.chance(14,15)) s+=">"; return s; }
		case 9: { char const *w[]={"<>","</>","< a>","<a/ >","<a / >","<<a>>","<a<b>","<a\0>","<a\x0c>","</a/>","<a//>","<_>","<a b>"}; int k=g(13); if(k==7) return std::string("<a\0>",4); return w[k]; }
		default:
			if(depth<4) {
				std::string t=tagname();
				std::string s="<"+t+attrs(t)+">";
				int n=g(4);
				for(int i=0;i<n;i++) s+=item(depth+1);
				if(g.chance(5,6)) s+="</"+(g.chance(9,10)?t:tagname())+">";
				return s;
			}
			return text();
		}
	}
	std::string make(size_t maxbytes)
	{
		std::string s;
		size_t target=1+g(maxbytes);
		while(s.size()<target) s+=item(0);
		if(g.chance(1,4)) {   // byte-level mutations
			int n=1+g(4);
			for(int i=0;i<n && !s.empty();i++) {
				size_t p=g(s.size());
				switch(g(4)) {
				case 0: s.erase(p,1); break;
				case 1: s.insert(p,1,"<>&;\"'/= -!#"[g(13)]); break;
				case 2: s[p]="<>&;\"'/= -!#"[g(13)]; break;
				default: s[p]=char(g(256));
				}
			}
		}
		if(s.size()>maxbytes) s.resize(maxbytes);
		return s;
	}
};

static std::string unhex(std::string const &h)
{
	std::string s;
	for(size_t i=0;i+1<h.size();i+=2) s+=char(strtol(h.substr(i,2).c_str(),0,16));
	return s;
}

// ------------------------------------------------------------------ charsets: names x bytes, oracle = iconv(3)
struct charset { std::string name; std::string iconv_name; bool multibyte; bool in_table; };
static void add_cs(std::vector<charset> &v,char const *iconv_name,bool mb,bool table,char const *n1,char const *n2=0,char const *n3=0,char const *n4=0,char const *n5=0,char const *n6=0)
{
	char const *names[6]={n1,n2,n3,n4,n5,n6};
	for(int i=0;i<6;i++) if(names[i]) { charset c; c.name=names[i]; c.iconv_name=iconv_name; c.multibyte=mb; c.in_table=table; v.push_back(c); }
}
static std::vector<charset> charsets()
{
	std::vector<charset> v;
	// every key of the predefined validator table of src/encoding.cpp (names are compared after dropping
	// everything but letters and digits and folding case), in several spellings
	int iso[]={1,2,3,4,5,6,7,8,9,10,11,13,14,15,16};
	for(unsigned i=0;i<sizeof(iso)/sizeof(iso[0]);i++) {
		char a[32],b[32],c[32],d[32],e[32];
		snprintf(a,32,"ISO-8859-%d",iso[i]); snprintf(b,32,"iso-8859-%d",iso[i]); snprintf(c,32,"iso8859-%d",iso[i]);
		snprintf(d,32,"ISO8859%d",iso[i]); snprintf(e,32,"Iso_8859_%d",iso[i]);
		add_cs(v,a,false,true,a,b,c,d,e);
	}
	add_cs(v,"ISO-8859-1",false,true,"latin1","Latin1","LATIN-1","latin_1");
	int win[]={1250,1251,1252,1253,1255,1256,1257,1258};
	for(unsigned i=0;i<sizeof(win)/sizeof(win[0]);i++) {
		char ic[32],a[32],b[32],c[32],d[32],e[32],f[32];
		snprintf(ic,32,"CP%d",win[i]);
		snprintf(a,32,"windows-%d",win[i]); snprintf(b,32,"Windows-%d",win[i]); snprintf(c,32,"WINDOWS%d",win[i]);
		snprintf(d,32,"cp%d",win[i]); snprintf(e,32,"CP%d",win[i]); snprintf(f,32,"cp-%d",win[i]);
		add_cs(v,ic,false,true,a,b,c,d,e,f);
	}
	add_cs(v,"KOI8-R",false,true,"KOI8-R","koi8-r","koi8r","Koi8_R");
	add_cs(v,"KOI8-U",false,true,"KOI8-U","koi8-u","koi8u");
	add_cs(v,"UTF-8",true,true,"UTF-8","utf-8","utf8","Utf_8","UTF8");
	add_cs(v,"US-ASCII",false,true,"US-ASCII","us-ascii","ascii","ASCII","usascii");
	// charsets that are NOT in the table: validated / filtered through a conversion round trip
	add_cs(v,"CP1254",false,false,"windows-1254","Windows-1254","cp1254","CP1254","WINDOWS-1254");
	add_cs(v,"CP874",false,false,"windows-874","cp874","CP874");
	add_cs(v,"CP866",false,false,"cp866","CP866","IBM866");
	add_cs(v,"CP437",false,false,"cp437","IBM437");
	add_cs(v,"CP850",false,false,"cp850","IBM850");
	add_cs(v,"KOI8-T",false,false,"KOI8-T");
	add_cs(v,"MACINTOSH",false,false,"MACINTOSH","macintosh");
	add_cs(v,"TIS-620",false,false,"TIS-620","tis620");
	add_cs(v,"SHIFT_JIS",true,false,"Shift_JIS","SHIFT_JIS","SJIS","shift-jis");
	add_cs(v,"CP932",true,false,"windows-932","cp932");
	add_cs(v,"EUC-JP",true,false,"EUC-JP","euc-jp","eucjp");
	add_cs(v,"GBK",true,false,"GBK","gbk");
	add_cs(v,"GB2312",true,false,"GB2312");
	add_cs(v,"EUC-KR",true,false,"EUC-KR","euc-kr");
	add_cs(v,"BIG5",true,false,"BIG5","Big5","big5");
	return v;
}

// independent oracle: does the text convert strictly from the charset (iconv(3))?  code points on success
static bool iconv_ok(std::string const &cs,std::string const &in,std::vector<unsigned> *cps)
{
	iconv_t d=iconv_open("UTF-32LE",cs.c_str());
	if(d==(iconv_t)(-1)) { std::cerr<<"iconv does not know "<<cs<<std::endl; exit(4); }
	std::vector<char> out(in.size()*8+16);
	char *ip=const_cast<char *>(in.c_str()); size_t il=in.size();
	char *op=&out[0]; size_t ol=out.size();
	bool ok=true;
	if(iconv(d,&ip,&il,&op,&ol)==(size_t)(-1)) ok=false;
	else if(iconv(d,0,0,&op,&ol)==(size_t)(-1)) ok=false;
	iconv_close(d);
	if(ok && cps) {
		size_t n=(op-&out[0])/4;
		for(size_t i=0;i<n;i++) { unsigned char *q=(unsigned char *)&out[i*4]; cps->push_back(q[0]|(q[1]<<8)|(q[2]<<16)|((unsigned)q[3]<<24)); }
	}
	return ok;
}

static void emit_enc(charset const &cs,xss::rules const &r,char repl,std::string const &in)
{
	char const *b=in.c_str(),*e=b+in.size();
	vt::J j; j.s("e","E").bytes("in",in);
	std::vector<unsigned> cps;
	bool exp=iconv_ok(cs.iconv_name,in,&cps);
	j.b("exp",exp).a("cps",cps);
	try {
		bool vi=xss::validate(b,e,r);
		std::string tmp;
		bool vfr=xss::validate_and_filter_if_invalid(b,e,r,tmp,xss::remove_invalid,repl);
		tmp.clear();
		bool vfe=xss::validate_and_filter_if_invalid(b,e,r,tmp,xss::escape_invalid,repl);
		std::string orr=xss::filter(b,e,r,xss::remove_invalid,repl);
		std::string oe=xss::filter(in,r,xss::escape_invalid,repl);
		bool vor=xss::validate(orr.c_str(),orr.c_str()+orr.size(),r);
		bool voe=xss::validate(oe.c_str(),oe.c_str()+oe.size(),r);
		bool sr=xss::filter(orr,r,xss::remove_invalid,repl)==orr;
		bool se=xss::filter(oe,r,xss::escape_invalid,repl)==oe;
		j.b("vi",vi).b("vfr",vfr).b("vfe",vfe).b("vor",vor).b("voe",voe).b("sr",sr).b("se",se);
		j.b("xr",iconv_ok(cs.iconv_name,orr,0)).b("xe",iconv_ok(cs.iconv_name,oe,0));
		if(orr!=in) j.bytes("or",orr);
		if(oe!=in) j.bytes("oe",oe);
	}
	catch(std::exception const &ex) {
		j.b("vi",false).b("vfr",false).b("vfe",false).b("vor",false).b("voe",false).b("sr",false).b("se",false).b("xr",false).b("xe",false).s("exc",ex.what());
	}
	j.raw("rx","[]");
	tr.line(j.str());
}

static void run_enc(int pairstep,int ctx,int shard,int nshards)
{
	std::vector<charset> cs=charsets();
	for(size_t k=0;k<cs.size();k++) {
		if((int)(k%nshards)!=shard) continue;
		charset const &c=cs[k];
		xss::rules r;
		bool xhtml=k%2;
		r.html(xhtml ? xss::rules::xhtml_input : xss::rules::html_input);
		r.encoding(c.name);
		r.add_tag("b",xss::rules::opening_and_closing);
		char repl=(k%3==0)?'?':0;
		std::string tags="[{\"n\":[98],\"k\":1,\"attrs\":[]}]";
		std::string ents="[[108,116],[103,116],[97,109,112],[113,117,111,116]]";
		tr.line(vt::J().s("e","Reset").i("rid",1000+(int)k).b("xhtml",xhtml).b("comments",false).b("numeric",false).s("enc","ext")
			.i("repl",(unsigned char)repl).b("json",false).s("encname",c.name).s("iconv",c.iconv_name).b("table",c.in_table)
			.raw("ents",ents).raw("tags",tags).str());
		for(int x=0;x<256;x++) {
			emit_enc(c,r,repl,std::string("ab ")+char(x)+"cd");
			if(ctx) emit_enc(c,r,repl,std::string("<b>x")+char(x)+"y</b>");
			if(ctx) emit_enc(c,r,repl,std::string(1,char(x)));
		}
		if(c.multibyte) {
			long n=0;
			for(int x=0x80;x<256;x++) for(int y=0;y<256;y++) {
				if((n++ + (long)seed0)%pairstep!=0) continue;
				emit_enc(c,r,repl,std::string("a ")+char(x)+char(y)+" d");
			}
			// three-byte forms matter for UTF-8 / EUC-JP: lead, second, fixed third
			for(int x=0xE0;x<0xF5 && pairstep<=64;x++) for(int y=0x80;y<0xC0;y+=(pairstep>1?7:1))
				emit_enc(c,r,repl,std::string("a ")+char(x)+char(y)+"\x80 d");
		}
	}
}

int main(int argc,char **argv)
{
	seed0=vt::envl("VERIF_SEED",1);
	if(argc<3) { std::cerr<<"usage: see source"<<std::endl; return 2; }
	std::string mode=argv[1];
	tr.open();
	if(mode=="rules") { ruleset rs=make_rules(atoi(argv[2])); tr.line(rs.reset_line); tr.close(); return 0; }
	if(mode=="one") {
		ruleset rs=make_rules(atoi(argv[2]));
		emit(rs,argc>3?unhex(argv[3]):std::string());
		tr.close(); return 0;
	}
	if(mode=="ent") {
		if(argc<7) { std::cerr<<"ent <maxv> <ctx> <shard> <nshards> <rid>..."<<std::endl; return 2; }
		int maxv=atoi(argv[2]),ctx=atoi(argv[3]),shard=atoi(argv[4]),nshards=atoi(argv[5]);
		static const char al[]="&#xX019afAFg;+- \t._\xe9";
		int const na=sizeof(al)-1;
		for(int i=6;i<argc;i++) {
			ruleset rs=make_rules(atoi(argv[i]));
			long count=0;
			for(int pass=0;pass<2;pass++) {            // pass 0: w = "#" v ; pass 1: w does not start with "#"
				int maxlen= pass==0 ? maxv : maxv-1;
				std::vector<int> ix;
				for(int len=0;len<=maxlen;len++) {
					ix.assign(len,0);
					for(;;) {
						bool skip= pass==1 && len>0 && al[ix[0]]=='#';
						if(!skip && count++%nshards==shard) {
							std::string w= pass==0 ? "#" : "";
							for(int k=0;k<len;k++) w+=al[ix[k]];
							emit(rs, ctx==0 ? "x&"+w+";y" : "<b t=\"&"+w+";\"/>");
						}
						int p=len-1;
						while(p>=0 && ++ix[p]==na) { ix[p]=0; p--; }
						if(p<0) break;
					}
				}
			}
		}
		tr.close(); return 0;
	}
	if(mode=="eng") {
		if(argc<7) { std::cerr<<"eng <level> 0 <shard> <nshards> <rid>..."<<std::endl; return 2; }
		int level=atoi(argv[2]),shard=atoi(argv[4]),nshards=atoi(argv[5]);
		long count=0;
		for(int i=6;i<argc;i++) {
			ruleset rs=make_rules(atoi(argv[i]));
			std::vector<std::pair<std::string,int> > in;   // input, in-language?
			int lens[3]={48,200,2000};
			for(int li=0;li<3;li++) {
				int n=lens[li];
				if(level==0 && li==2) continue;          // quick: 48 and 200
				std::string as(n,'a'),hs(n,'h'),xs(n,'x');
				in.push_back(std::make_pair("<p class=\""+as+"!important;expression(alert(1))\">x</p>",0));
				in.push_back(std::make_pair("<p class=\""+as+"\">x</p>",1));
				in.push_back(std::make_pair("<a href=\""+hs+"q:alert(1)\">x</a>",0));
				if(level==0 && li==1) continue;
				in.push_back(std::make_pair("<p id=\""+as+"!\">x</p>",0));
				in.push_back(std::make_pair("<b k=\""+as+"c\"/>",0));
				in.push_back(std::make_pair("<b c=\""+xs+"z\"/>",0));
				in.push_back(std::make_pair("<p lang=\""+as+"!\">x</p>",0));
				in.push_back(std::make_pair("<b k=\""+as+"\"/>",1));
			}
			// invalid UTF-8 under expressions compiled with regex::utf8
			char const *bad[]={"\xe9","\xff","\xc3","\xe2\x82","\xc0\xaf","\xed\xa0\x80"};
			for(unsigned b=0;b<sizeof(bad)/sizeof(bad[0]);b++) {
				if(level==0 && b>=3) break;
				in.push_back(std::make_pair(std::string("<a title=\"javascript:alert(1)//")+bad[b]+"\">x</a>",0));
				in.push_back(std::make_pair(std::string("<a title=\"abc")+bad[b]+"\">x</a>",0));
				in.push_back(std::make_pair(std::string("<a name='top")+bad[b]+"'>x</a>",0));
				in.push_back(std::make_pair(std::string("<a name='")+bad[b]+"onclick'>x</a>",0));
				in.push_back(std::make_pair(std::string("<p lang=\"a")+bad[b]+"(\">x</p>",0));
			}
			in.push_back(std::make_pair("<a title=\"abc\" name='top'>x</a>",1));
			for(size_t k=0;k<in.size();k++) {
				if(count++%nshards!=shard) continue;
				inlang_flag=in[k].second;
				emit(rs,in[k].first);
			}
			inlang_flag=-1;
		}
		tr.close(); return 0;
	}
	if(mode=="u8") {
		if(argc<7) { std::cerr<<"u8 0 0 <shard> <nshards> <rid>..."<<std::endl; return 2; }
		int shard=atoi(argv[4]),nshards=atoi(argv[5]);
		std::vector<std::string> fam;
		#define U(x) fam.push_back(std::string(x,sizeof(x)-1))
		U("\xc0\x80"); U("\xc1\xbf"); U("\xe0\x80\x80"); U("\xe0\x9f\xbf"); U("\xf0\x80\x80\x80"); U("\xf0\x81\x80\x80"); U("\xf0\x8f\xbf\xbf");
		U("\xed\xa0\x80"); U("\xed\xbf\xbf"); U("\xf4\x90\x80\x80"); U("\xf5\x80\x80\x80"); U("\xf7\xbf\xbf\xbf"); U("\xf8\x88\x80\x80\x80");
		U("\xfc\x84\x80\x80\x80\x80"); U("\xfe"); U("\xff"); U("\x80"); U("\xbf"); U("\x80\x80");
		U("\xc2"); U("\xdf"); U("\xe0"); U("\xe0\xa0"); U("\xe2\x82"); U("\xef\xbf"); U("\xf0"); U("\xf0\x90"); U("\xf0\x90\x80"); U("\xf4\x8f"); U("\xf4\x8f\xbf");
		// well-formed neighbours (C2 80 / C2 9F are C1 controls: well-formed but not allowed in HTML)
		U("\xc2\x80"); U("\xc2\x9f"); U("\xc2\xa0"); U("\xdf\xbf"); U("\xe0\xa0\x80"); U("\xed\x9f\xbf"); U("\xee\x80\x80"); U("\xef\xbf\xbd"); U("\xef\xbf\xbf");
		U("\xf0\x90\x80\x80"); U("\xf4\x8f\xbf\xbf"); U("\xd7\xa9"); U("\xe2\x82\xac"); U("\xf0\x9f\x98\x80");
		#undef U
		for(int x=0x80;x<0xc0;x++) {          // every second byte after the leads whose second byte is restricted
			fam.push_back(std::string("\xe0")+char(x)+"\x80"); fam.push_back(std::string("\xed")+char(x)+"\x80");
			fam.push_back(std::string("\xf0")+char(x)+"\xbf\xbf"); fam.push_back(std::string("\xf4")+char(x)+"\x80\x80");
		}
		long count=0;
		for(int i=6;i<argc;i++) {
			ruleset rs=make_rules(atoi(argv[i]));
			for(size_t k=0;k<fam.size();k++) {
				std::string const &u=fam[k];
				std::string ctx[5]={ "x"+u+"y", "<b>x"+u+"y</b>", "<b t=\""+u+"\"/>", "x"+u, "x"+u+"<b>y</b>" };
				for(int c=0;c<5;c++) if(count++%nshards==shard) emit(rs,ctx[c]);
			}
		}
		tr.close(); return 0;
	}
	if(mode=="enc") {
		if(argc<6) { std::cerr<<"enc <pairstep> <ctx> <shard> <nshards>"<<std::endl; return 2; }
		run_enc(atoi(argv[2]),atoi(argv[3]),atoi(argv[4]),atoi(argv[5]));
		tr.close(); return 0;
	}
	if(argc<7) { std::cerr<<"too few arguments"<<std::endl; return 2; }
	int shard=atoi(argv[4]),nshards=atoi(argv[5]);
	std::vector<ruleset> rss;
	for(int i=6;i<argc;i++) rss.push_back(make_rules(atoi(argv[i])));
	if(mode=="frag") {
		enumerate(alphabet(argv[2]),atoi(argv[3]),shard,nshards,rss);
	}
	else if(mode=="rnd") {
		long count=atol(argv[2]); size_t maxbytes=atol(argv[3]);
		for(size_t r=0;r<rss.size();r++) {
			gen G(seed0*7919u+rss[r].rid*104729u+shard*31u+5,rss[r]);
			for(long i=0;i<count;i++) {
				size_t mb = (i%10==9) ? maxbytes : (i%3==0 ? 40 : maxbytes/2+1);
				std::string s=G.make(mb);
				if(i%nshards==shard) emit(rss[r],s);
			}
		}
	}
	else { std::cerr<<"unknown mode"<<std::endl; return 2; }
	tr.close();
	return 0;
}
