// C05 driver: client-side session cookies (session_cookies + hmac/aes encryptors + lenient base64url).
//
// usage: cookie_drv <shard> <nshards>
//
// For every configuration (algorithm x key material) and payload length one execution:
//   Reset, a handful of real saves (session_cookies::save through a session_interface whose cookie
//   adapter is ours), then every cookie an attacker can derive from them is presented to the real
//   session_cookies::load (event Load) and - for mutations of the raw cipher text - also to
//   encryptor::decrypt directly (event Dec).  The clock is the harness' (time() defined here).
// A cookie is logged as c0 (first character, -1 if empty) + tx (the other characters); h is the first
// position where tx differs from the text it was derived from (a hint for the validator, 0 = none).
#include "common/vtrace.h"
#include "common/fakeclock.h"
#include <cppcms/session_cookies.h>
#include <cppcms/session_interface.h>
#include <cppcms/session_pool.h>
#include <cppcms/http_cookie.h>
#include <cppcms/json.h>
#include <cppcms/base64.h>
#include <cppcms/crypto.h>
#include <cppcms/urandom.h>
#include <cppcms/cppcms_error.h>
#include <booster/log.h>
#include "hmac_encryptor.h"
#include "aes_encryptor.h"
#include <openssl/evp.h>
#include <openssl/hmac.h>
#include <signal.h>
#include <unistd.h>
#include <map>
#include <memory>
#include <iostream>
#include <algorithm>

using namespace cppcms;
using namespace cppcms::sessions;

// ---- read access to session_interface::temp_cookie_ (the cookie session_cookies::save hands over) without
//      touching the sources: explicit template instantiation may name private members.
namespace rob {
	template<typename Tag> struct result { typedef typename Tag::type type; static type ptr; };
	template<typename Tag> typename result<Tag>::type result<Tag>::ptr;
	template<typename Tag,typename Tag::type p> struct steal : result<Tag> {
		struct filler { filler() { result<Tag>::ptr=p; } };
		static filler f;
	};
	template<typename Tag,typename Tag::type p> typename steal<Tag,p>::filler steal<Tag,p>::f;
	struct SItemp { typedef std::string cppcms::session_interface::*type; };
	template struct steal<SItemp,&cppcms::session_interface::temp_cookie_>;
}
static std::string &temp_cookie(session_interface &si) { return si.*rob::result<rob::SItemp>::ptr; }

struct adapter : public session_interface_cookie_adapter {
	std::string value; bool cleared; int sets;
	adapter() : cleared(false), sets(0) {}
	virtual void set_cookie(http::cookie const &c) { sets++; if(c.value().empty()) cleared=true; }
	virtual std::string get_session_cookie(std::string const &) { return value; }
	virtual std::set<std::string> get_cookie_names() { return std::set<std::string>(); }
};

static vt::out tr;
static long now_rel=100;
static void set_now(long r) { now_rel=r; vt::fake_now=vt::clock_base+r; }
static void set_now_abs(long long t) { now_rel=(long)(t-vt::clock_base); vt::fake_now=(time_t)t; }
// a 64-bit time as three limbs [a,b,c], t = a*2^48 + b*2^24 + c with 0 <= b,c < 2^24 (TLC integers are 32 bit);
// numeric order = lexicographic order of the limbs
static std::vector<long> W(long long t)
{
	std::vector<long> r(3);
	r[0]=(long)(t>>48); r[1]=(long)((t>>24)&0xFFFFFF); r[2]=(long)(t&0xFFFFFF);
	return r;
}

// ---- configurations ----------------------------------------------------------------------------
struct config {
	std::string name; bool aes; size_t mac;   // digest size
	std::unique_ptr<encryptor_factory> fac;
	std::unique_ptr<session_cookies> sc,twin;  // twin: a second object made from the same key material
	std::unique_ptr<encryptor> enc;
	// what the DOCUMENTED key schedule yields, computed with libcrypto only (never through cppcms::crypto)
	std::string ref_md,ref_mac_key,ref_cbc_key,secret;
	bool derived;      // working keys derived from one secret (aes_factory(algo,key), key size != cbc+20)
	bool extra;        // additional derived-key configuration: fewer payload lengths in the quick tier
};
static std::vector<config *> cfgs;

static std::string keybytes(size_t n,unsigned salt)
{
	std::string k(n,'\0');
	for(size_t i=0;i<n;i++) k[i]=(char)((i*37+salt*101+11)&0xff);
	return k;
}
static crypto::key mk(std::string const &raw) { return crypto::key(raw.data(),raw.size()); }
static size_t dsize(std::string const &md)
{
	std::unique_ptr<crypto::message_digest> d(crypto::message_digest::create_by_name(md));
	return d.get()? d->digest_size() : 0;
}

// ---- independent reference (OpenSSL): HMAC, AES-CBC, the cookie format, the key derivation -------------------
static std::string ref_hmac(std::string const &md,std::string const &key,std::string const &msg)
{
	EVP_MD const *m=EVP_get_digestbyname(md.c_str());
	if(!m) { fprintf(stderr,"libcrypto: no digest %s\n",md.c_str()); exit(3); }
	unsigned char out[EVP_MAX_MD_SIZE]; unsigned len=0;
	static const unsigned char nokey[1]={0};
	HMAC(m,key.empty()?(void const *)nokey:(void const *)key.data(),(int)key.size(),(unsigned char const *)msg.data(),msg.size(),out,&len);
	return std::string((char *)out,len);
}
static std::string ref_cbc(bool enc,std::string const &key,std::string const &iv,std::string const &in)
{
	EVP_CIPHER const *c= key.size()==16 ? EVP_aes_128_cbc() : key.size()==24 ? EVP_aes_192_cbc() : EVP_aes_256_cbc();
	EVP_CIPHER_CTX *x=EVP_CIPHER_CTX_new();
	EVP_CipherInit_ex(x,c,0,(unsigned char const *)key.data(),(unsigned char const *)iv.data(),enc?1:0);
	EVP_CIPHER_CTX_set_padding(x,0);
	std::string out(in.size()+32,'\0'); int n1=0,n2=0;
	EVP_CipherUpdate(x,(unsigned char *)&out[0],&n1,(unsigned char const *)in.data(),(int)in.size());
	EVP_CipherFinal_ex(x,(unsigned char *)&out[n1],&n2);
	EVP_CIPHER_CTX_free(x);
	out.resize(n1+n2);
	return out;
}
// cipher text of plain (= time_t || payload) under the given working keys, as the documented format has it:
//   hmac-only:  plain || HMAC(plain)
//   aes:        B0 || CBC(iv=B0; le32(len) || plain || zero pad) || HMAC(all blocks)      (B0 random)
static std::string ref_seal(bool aes,std::string const &md,std::string const &mac_key,std::string const &cbc_key,std::string const &plain,vt::rng &R)
{
	std::string body;
	if(!aes) body=plain;
	else {
		uint32_t n=plain.size();
		std::string in((char *)&n,4); in+=plain; in.resize((in.size()+15)/16*16,'\0');
		std::string b0(16,'\0'); for(int i=0;i<16;i++) b0[i]=(char)R(256);
		body=b0+ref_cbc(true,cbc_key,b0,in);
	}
	return body+ref_hmac(md,mac_key,body);
}
static bool ref_open(config const &C,std::string const &cipher,std::string &payload,long &dl)
{
	if(cipher.size()<C.mac) return false;
	std::string body=cipher.substr(0,cipher.size()-C.mac);
	if(ref_hmac(C.ref_md,C.ref_mac_key,body)!=cipher.substr(cipher.size()-C.mac)) return false;
	std::string plain;
	if(!C.aes) plain=body;
	else {
		if(body.size()%16!=0 || body.size()<32) return false;
		std::string p=ref_cbc(false,C.ref_cbc_key,body.substr(0,16),body.substr(16));
		uint32_t n; memcpy(&n,p.data(),4);
		if(n>p.size()-4) return false;
		plain=p.substr(4,n);
	}
	if(plain.size()<sizeof(time_t)) return false;
	time_t t; memcpy(&t,plain.data(),sizeof(t));
	dl=(long)t; payload=plain.substr(sizeof(t));      // absolute
	return true;
}
// aes_factory(algo,key): key of exactly cbc+20 bytes is split; otherwise k1 = HMAC(key,"0"), k2 = HMAC(key,"\1")
// with SHA-256 (key <= 32 bytes) or SHA-512; cbc key = k1[0..cbc), mac key = k2[0..20), MAC = HMAC-SHA1
static void ref_single_key(config &c,size_t cbc,std::string const &k)
{
	c.secret=k; c.ref_md="sha1";
	if(k.size()==cbc+20) { c.ref_cbc_key=k.substr(0,cbc); c.ref_mac_key=k.substr(cbc); c.derived=false; }
	else {
		std::string md= k.size()*8<=256 ? "sha256" : "sha512";
		c.ref_cbc_key=ref_hmac(md,k,"0").substr(0,cbc);
		c.ref_mac_key=ref_hmac(md,k,std::string("\1",1)).substr(0,20);
		c.derived=true;
	}
}

static config *add(std::string const &name,bool aes,size_t mac,encryptor_factory *f)
{
	config *c=new config(); c->name=name; c->aes=aes; c->mac=mac; c->fac.reset(f); c->derived=false; c->extra=false;
	c->sc.reset(new session_cookies(c->fac->get()));
	c->twin.reset(new session_cookies(c->fac->get()));
	c->enc=c->fac->get();
	cfgs.push_back(c);
	return c;
}
static void add_hmac(std::string const &name,std::string const &md,std::string const &k)
{
	config *c=add(name,false,dsize(md),new cppcms::sessions::impl::hmac_factory(md,mk(k)));
	c->ref_md=md; c->ref_mac_key=k; c->secret=k;
}
static config *add_aes1(std::string const &name,std::string const &algo,size_t cbc,std::string const &k)
{
	config *c=add(name,true,20,new cppcms::sessions::impl::aes_factory(algo,mk(k)));
	ref_single_key(*c,cbc,k);
	return c;
}
static void add_aes2(std::string const &name,std::string const &algo,std::string const &ck,std::string const &md,std::string const &hk)
{
	config *c=add(name,true,dsize(md),new cppcms::sessions::impl::aes_factory(algo,mk(ck),md,mk(hk)));
	c->ref_md=md; c->ref_mac_key=hk; c->ref_cbc_key=ck; c->secret=hk;
}
static void build_configs()
{
	static const char *mds[]={"md5","sha1","sha224","sha256","sha384","sha512"};
	static const size_t klen[]={16,20,32,24,48,100};
	for(int i=0;i<6;i++) {
		if(!dsize(mds[i])) continue;
		add_hmac(std::string("hmac-")+mds[i],mds[i],keybytes(klen[i],i));
	}
	// same algorithm, key differing in one bit / same key, other algorithm
	{ std::string k=keybytes(20,1); k[7]^=0x10; add_hmac("hmac-sha1/key'","sha1",k); }
	add_hmac("hmac-sha256/key-of-sha1","sha256",keybytes(20,1));
	static const char *aes[]={"aes128","aes192","aes256"};
	static const size_t ks[]={16,24,32};
	for(int i=0;i<3;i++) {
		if(!crypto::cbc::create(aes[i]).get()) continue;
		// single key of exactly cbc+sha1 size (split in two), single key derived through HMAC, explicit split keys
		add_aes1(std::string(aes[i])+"/single-split",aes[i],ks[i],keybytes(ks[i]+20,10+i));
		add_aes1(std::string(aes[i])+"/single-derived",aes[i],ks[i],keybytes(ks[i]+(i==1?9:0),20+i));
		static const char *hm[]={"sha1","sha256","sha512"};
		add_aes2(std::string(aes[i])+"/"+hm[i],aes[i],keybytes(ks[i],30+i),hm[i],keybytes(16+8*i,40+i));
	}
	if(crypto::cbc::create("aes128").get()) {
		// same cbc key, other mac key; same mac key, other cbc key
		add_aes2("aes128/sha1/mac'","aes128",keybytes(16,30),"sha1",keybytes(16,99));
		add_aes2("aes128/sha1/cbc'","aes128",keybytes(16,98),"sha1",keybytes(16,40));
		add_aes2("aes128/md5","aes128",keybytes(16,50),"md5",keybytes(16,51));
		// the derived-keys path with the usual and with odd key lengths (SHA-256 up to 32 bytes, SHA-512 beyond);
		// "aes" is aes128
		struct { char const *algo; size_t cbc; size_t klen; } d[]={
			{"aes",16,16},{"aes128",16,24},{"aes128",16,32},{"aes128",16,17},{"aes",16,37},{"aes128",16,64},
			{"aes192",24,24},{"aes192",24,32},{"aes192",24,100},{"aes256",32,33},{"aes256",32,40},{"aes256",32,52+1}
		};
		for(size_t i=0;i<sizeof(d)/sizeof(d[0]);i++) {
			if(!crypto::cbc::create(d[i].algo).get()) continue;
			char nm[64]; snprintf(nm,sizeof(nm),"%s/derived-%zu",d[i].algo,d[i].klen);
			config *c=add_aes1(nm,d[i].algo,d[i].cbc,keybytes(d[i].klen,60+i));
			c->extra=true;
		}
	}
}

// ---- payloads ----------------------------------------------------------------------------------
static std::map<std::string,int> payload_ids;
static int pid(std::string const &p)
{
	std::map<std::string,int>::iterator it=payload_ids.find(p);
	return it==payload_ids.end()? -1 : it->second;
}
static std::string payload(vt::rng &R,size_t n,int variant)
{
	std::string s(n,'\0');
	for(size_t i=0;i<n;i++) s[i]= variant==0 ? (char)('a'+(i*7)%26) : (char)R(256);
	if(n>0 && variant==2) s[n-1]^=1;
	return s;
}

// ---- the two observation points ----------------------------------------------------------------
static cppcms::session_pool *pool;

struct saved { int cfg; int id; long dl; std::string cookie; std::string cipher; };

static std::vector<std::string> exec_saves;      // cookies of the Save events of this execution, in order
static void log_cookie(vt::J &j,std::string const &ck,std::string const &ref=std::string())
{
	j.i("c0", ck.empty()? -1 : (unsigned char)ck[0]);
	std::string tx= ck.size()>1? ck.substr(1) : std::string();
	// long texts derived from an issued cookie: splice of that cookie's text (prefix cp, mid, suffix cs)
	if(tx.size()>300 && ref.size()>1) {
		size_t of=0;
		for(size_t i=0;i<exec_saves.size();i++) if(exec_saves[i]==ref) { of=i+1; break; }
		std::string b=ref.substr(1);
		size_t cp=0; while(cp<tx.size() && cp<b.size() && tx[cp]==b[cp]) cp++;
		size_t cs=0; while(cs<tx.size()-cp && cs<b.size()-cp && tx[tx.size()-1-cs]==b[b.size()-1-cs]) cs++;
		if(of && cp+cs>=tx.size()/2) {
			j.i("of",of).i("cp",cp).bytes("mid",tx.substr(cp,tx.size()-cp-cs)).i("cs",cs);
			return;
		}
	}
	j.bytes("tx",tx);
}

static std::string ref_json(int c,std::string const &cipher)
{
	std::string pl; long d=0; bool ok=ref_open(*cfgs[c],cipher,pl,d);
	return vt::J().b("ok",ok).i("id",ok?pid(pl):0).a("dl",W(ok?d:0)).str();
}
static saved do_save_abs(int c,std::string const &data,long long t,bool with_ref=false)
{
	adapter ad;
	session_interface si(*pool,ad);
	cfgs[c]->sc->save(si,data,(time_t)t,false,false);
	long dl=(long)(t-vt::clock_base);
	saved s; s.cfg=c; s.id=pid(data); s.dl=dl; s.cookie=temp_cookie(si);
	b64url::decode(s.cookie.substr(1),s.cipher);
	bool leak = data.size()>=8 && s.cipher.find(data)!=std::string::npos;
	vt::J j; j.s("e","Save").i("cfg",c).i("id",s.id).a("dl",W(t)).i("n",data.size()).b("leak",leak).s("by","save");
	if(with_ref) j.raw("ref",ref_json(c,s.cipher));
	log_cookie(j,s.cookie);
	tr.line(j.str());
	exec_saves.push_back(s.cookie);
	return s;
}
static saved do_save(int c,std::string const &data,long dl,bool with_ref=false) { return do_save_abs(c,data,(long long)vt::clock_base+dl,with_ref); }
// a cookie made by the reference implementation from the same key material (another server of the same cluster)
static saved do_save_ref(vt::rng &R,int c,std::string const &data,long dl)
{
	config &C=*cfgs[c];
	time_t t=vt::clock_base+dl;
	std::string plain((char *)&t,sizeof(t)); plain+=data;
	saved s; s.cfg=c; s.id=pid(data); s.dl=dl;
	s.cipher=ref_seal(C.aes,C.ref_md,C.ref_mac_key,C.ref_cbc_key,plain,R);
	s.cookie="C"+b64url::encode(s.cipher);
	bool leak = data.size()>=8 && C.aes && s.cipher.find(data)!=std::string::npos;
	vt::J j; j.s("e","Save").i("cfg",c).i("id",s.id).a("dl",W(t)).i("n",data.size()).b("leak",leak).s("by","reference");
	j.raw("ref",ref_json(c,s.cipher));
	log_cookie(j,s.cookie);
	j.bytes("cipher",s.cipher);
	tr.line(j.str());
	exec_saves.push_back(s.cookie);
	return s;
}
// a save made with the encryptor directly: the raw cipher text is known, the cookie is formed as session_cookies does
static saved do_save_enc(int c,std::string const &data,long dl)
{
	time_t t=vt::clock_base+dl;
	std::string plain((char *)&t,sizeof(t)); plain+=data;
	saved s; s.cfg=c; s.id=pid(data); s.dl=dl;
	s.cipher=cfgs[c]->enc->encrypt(plain);
	s.cookie="C"+b64url::encode(s.cipher);
	bool leak = data.size()>=8 && s.cipher.find(data)!=std::string::npos;
	vt::J j; j.s("e","Save").i("cfg",c).i("id",s.id).a("dl",W(t)).i("n",data.size()).b("leak",leak);
	log_cookie(j,s.cookie);
	j.bytes("cipher",s.cipher);
	tr.line(j.str());
	exec_saves.push_back(s.cookie);
	return s;
}

static size_t first_diff(std::string const &a,std::string const &ref)
{
	// position in tx (1-based, cookie without its first character); 0 = none / not applicable
	size_t n=std::min(a.size(),ref.size());
	for(size_t i=1;i<n;i++) if(a[i]!=ref[i]) return i;
	return 0;
}

static long n_loads=0,n_ok=0,n_dec=0;

static void do_load(int c,std::string const &ck,std::string const &ref,char const *mut,bool twin=false)
{
	adapter ad; ad.value=ck;
	session_interface si(*pool,ad);
	std::string data="<untouched>"; time_t to=0;
	bool ok;
	try { ok=(twin?cfgs[c]->twin:cfgs[c]->sc)->load(si,data,to); }
	catch(std::exception const &e) { tr.line(vt::J().s("e","Died").s("what",e.what()).s("mut",mut).str()); tr.close(); exit(0); }
	vt::J j; j.s("e","Load").i("cfg",c).b("ok",ok).i("id",ok?pid(data):0).a("dl",W(ok?(long long)to:0)).b("cleared",ad.cleared);
	j.i("h",first_diff(ck,ref)).s("mut",mut);
	{	// verdict of the reference implementation under the reference working keys (crypto only, no expiry)
		std::string ci,pl; long d; bool rv=false;
		if(!ck.empty() && ck[0]=='C' && b64url::decode(ck.substr(1),ci)) rv=ref_open(*cfgs[c],ci,pl,d);
		j.b("rv",rv);
	}
	log_cookie(j,ck,ref);
	tr.line(j.str());
	n_loads++; if(ok) n_ok++;
}
static void do_dec(int c,std::string const &cipher,std::string const &ref,char const *mut)
{
	std::string plain; bool ok;
	try { ok=cfgs[c]->enc->decrypt(cipher,plain); }
	catch(std::exception const &e) { tr.line(vt::J().s("e","Died").s("what",e.what()).s("mut",mut).str()); tr.close(); exit(0); }
	long dl=0; int id=0;
	if(ok) {
		if(plain.size()<sizeof(time_t)) { id=-1; }
		else { time_t t; memcpy(&t,plain.data(),sizeof(t)); dl=(long)t; id=pid(plain.substr(sizeof(t))); }
	}
	std::string ck="C"+b64url::encode(cipher);
	vt::J j; j.s("e","Dec").i("cfg",c).b("ok",ok).i("id",id).a("dl",W(dl)).i("h",first_diff(ck,ref)).s("mut",mut);
	{ std::string pl; long d; j.b("rv",ref_open(*cfgs[c],cipher,pl,d)); }
	log_cookie(j,ck,ref);
	tr.line(j.str());
	n_dec++;
}

// positions to mutate: all of them for small inputs, a sample that always contains the ends and the
// region boundaries for big ones
static std::vector<size_t> positions(vt::rng &R,size_t n,size_t budget,std::vector<size_t> const &must)
{
	std::vector<size_t> r;
	if(n<=budget) { for(size_t i=0;i<n;i++) r.push_back(i); return r; }
	std::set<size_t> s;
	for(size_t i=0;i<std::min<size_t>(n,24);i++) { s.insert(i); s.insert(n-1-i); }
	for(size_t i=0;i<must.size();i++) for(int d=-2;d<=2;d++) { long p=(long)must[i]+d; if(p>=0 && (size_t)p<n) s.insert(p); }
	while(s.size()<budget) s.insert(R(n));
	r.assign(s.begin(),s.end());
	return r;
}

static void forgeries(vt::rng &R,int c,saved const &S1,std::string const &P1,bool big);

static void execution(vt::rng &R,int c,size_t L,bool thorough)
{
	config &C=*cfgs[c];
	payload_ids.clear(); exec_saves.clear();
	std::string P1=payload(R,L,1),P2=payload(R,L,1),P3=payload(R,L,0);
	if(L>0) { P2=P1; P2[L-1]^=0x40; if(L>1) P2[0]^=1; }
	payload_ids[P1]=1; if(!payload_ids.count(P2)) payload_ids[P2]=2; if(!payload_ids.count(P3)) payload_ids[P3]=3;
	set_now(100);
	{
		std::vector<int> aes; for(size_t i=0;i<cfgs.size();i++) if(cfgs[i]->aes) aes.push_back(i);
		tr.line(vt::J().s("e","Reset").a("now",W(vt::fake_now)).a("aes",aes).s("cfg",C.name).i("len",L).str());
	}
	saved S1=do_save(c,P1,200);
	saved S2=do_save(c,P2,150);
	saved S3=do_save(c,P1,200);           // same payload, same deadline again (IvFresh for the encrypting ones)
	saved S4=do_save_enc(c,P3,100);       // deadline exactly now
	saved S5=do_save(c,P3,99);            // already expired
	saved S6=do_save_enc(c,P1,200);
	// as issued
	do_load(c,S1.cookie,S1.cookie,"asis"); do_load(c,S2.cookie,S2.cookie,"asis"); do_load(c,S3.cookie,S3.cookie,"asis");
	do_load(c,S4.cookie,S4.cookie,"asis"); do_load(c,S5.cookie,S5.cookie,"asis-expired"); do_load(c,S6.cookie,S6.cookie,"asis");
	do_load(c,S1.cookie,S1.cookie,"twin",true);
	do_dec(c,S1.cipher,S1.cookie,"asis"); do_dec(c,S5.cipher,S5.cookie,"asis-expired");
	do_load(c,"","", "empty"); do_load(c,"C","C","C-only"); do_load(c,S1.cookie.substr(1),S1.cookie,"no-C");

	std::string const &ck=S1.cookie;
	size_t n=ck.size();
	size_t cl=S1.cipher.size();
	bool big = L>64;
	size_t budget = big ? (thorough? (L>5000? 400 : 100000) : 60) : 100000;
	std::vector<size_t> must;                     // region boundaries in characters / bytes
	std::vector<size_t> mustc;
	mustc.push_back(cl-C.mac); if(C.aes) { mustc.push_back(16); mustc.push_back(32); } else mustc.push_back(8);
	for(size_t i=0;i<mustc.size();i++) must.push_back(1+mustc[i]*4/3);

	// every single-bit flip of the cookie text (incl. the leading 'C')
	{
		std::vector<size_t> pos=positions(R,n,budget,must);
		for(size_t k=0;k<pos.size();k++) for(int b=0;b<8;b++) { std::string m=ck; m[pos[k]]^=(char)(1<<b); do_load(c,m,ck,"flip-text"); }
	}
	// every single-bit flip of the raw cipher text: through the cookie path and through decrypt()
	{
		std::vector<size_t> pos=positions(R,cl,budget,mustc);
		for(size_t k=0;k<pos.size();k++) for(int b=0;b<8;b++) {
			std::string m=S1.cipher; m[pos[k]]^=(char)(1<<b);
			do_dec(c,m,ck,"flip-cipher");
			if((thorough && !big) || b==(int)(k%8)) do_load(c,"C"+b64url::encode(m),ck,"flip-cipher");
		}
	}
	// every truncation
	{
		std::vector<size_t> pos=positions(R,n,big?(thorough?3000:120):100000,must);
		for(size_t k=0;k<pos.size();k++) do_load(c,ck.substr(0,pos[k]),ck,"truncate");
		std::vector<size_t> pc=positions(R,cl,big?(thorough?1000:60):100000,mustc);
		for(size_t k=0;k<pc.size();k++) do_dec(c,S1.cipher.substr(0,pc[k]),ck,"truncate");
	}
	// extensions by 1..32 characters / bytes
	for(int k=1;k<=32;k++) {
		static const char fill[]="A_=! z";
		for(int v=0;v<3;v++) {
			std::string m=ck;
			for(int i=0;i<k;i++) m+= v==0 ? 'A' : v==1 ? fill[R(6)] : (char)R(256);
			do_load(c,m,ck,"extend");
		}
		std::string m=S1.cipher; for(int i=0;i<k;i++) m+=(char)(k%2?0:R(256));
		do_dec(c,m,ck,"extend");
	}
	// swaps of two 16-byte blocks of the raw cipher text
	{
		size_t nb=cl/16;
		std::vector<std::pair<size_t,size_t> > sw;
		if(nb<=10) { for(size_t i=0;i<nb;i++) for(size_t j=i+1;j<nb;j++) sw.push_back(std::make_pair(i,j)); }
		else { for(int k=0;k<(thorough?400:40);k++) { size_t i=R(nb),j=R(nb); if(i!=j) sw.push_back(std::make_pair(i,j)); } sw.push_back(std::make_pair((size_t)0,(size_t)1)); sw.push_back(std::make_pair((size_t)1,(size_t)2)); sw.push_back(std::make_pair(nb-2,nb-1)); }
		for(size_t k=0;k<sw.size();k++) {
			std::string m=S1.cipher;
			for(int i=0;i<16;i++) std::swap(m[sw[k].first*16+i],m[sw[k].second*16+i]);
			do_load(c,"C"+b64url::encode(m),ck,"swap"); do_dec(c,m,ck,"swap");
		}
	}
	// MAC transplant and body splices between valid cookies of equal length
	{
		saved const *others[]={&S2,&S3,&S6,&S4};
		for(int k=0;k<4;k++) {
			std::string const &o=others[k]->cipher;
			if(o.size()!=cl) continue;
			std::string m=S1.cipher.substr(0,cl-C.mac)+o.substr(cl-C.mac);       // S1 body, other MAC
			do_load(c,"C"+b64url::encode(m),ck,"mac-transplant"); do_dec(c,m,ck,"mac-transplant");
			m=o.substr(0,cl-C.mac)+S1.cipher.substr(cl-C.mac);                   // other body, S1 MAC
			do_load(c,"C"+b64url::encode(m),others[k]->cookie,"mac-transplant"); do_dec(c,m,others[k]->cookie,"mac-transplant");
			if(C.aes) {                                                           // IV block of the other cookie
				m=o.substr(0,16)+S1.cipher.substr(16);
				do_load(c,"C"+b64url::encode(m),ck,"iv-transplant"); do_dec(c,m,ck,"iv-transplant");
				m=S1.cipher.substr(0,32)+o.substr(32);
				do_load(c,"C"+b64url::encode(m),ck,"splice"); do_dec(c,m,ck,"splice");
			}
			else if(cl>C.mac+8) {                                                 // deadline of the other cookie
				m=o.substr(0,8)+S1.cipher.substr(8);
				do_load(c,"C"+b64url::encode(m),ck,"deadline-transplant"); do_dec(c,m,ck,"deadline-transplant");
			}
		}
	}
	// spellings that decode to the same bytes: characters outside the alphabet where the text has 'A', padding, ...
	{
		static const char alt[]={'!','=',' ','.','+','/','\0',(char)0x80,(char)0xff,'\n'};
		std::vector<size_t> as; for(size_t i=1;i<n;i++) if(ck[i]=='A') as.push_back(i);
		for(size_t k=0;k<as.size() && k<(big?24u:1000u);k++) { std::string m=ck; m[as[k]]=alt[k%10]; do_load(c,m,ck,"respell"); }
		std::string m=ck+"="; do_load(c,m,ck,"pad"); m+="="; do_load(c,m,ck,"pad");
		m=ck; m[0]='c'; do_load(c,m,ck,"first-char"); m[0]='I'; do_load(c,m,ck,"first-char");
	}
	forgeries(R,c,S1,P1,big);
	// replay under every other configuration (and the cookies of the other one here)
	for(size_t o=0;o<cfgs.size();o++) {
		if((int)o==c) continue;
		do_load(o,ck,ck,"replay-other-cfg");
		do_load(o,S6.cookie,S6.cookie,"replay-other-cfg");
		if(!big) do_dec(o,S1.cipher,ck,"replay-other-cfg");
	}
	// random strings
	for(int k=0;k<(thorough?400:60);k++) {
		static const char abc[]="ABCDEFGHIJKLMNOPQRSTUVWXYZabcdefghijklmnopqrstuvwxyz0123456789-_";
		size_t len= k%3==0 ? n : R(std::min<size_t>(2*n,300)+1);
		std::string m(len,'\0');
		for(size_t i=0;i<len;i++) m[i]= k%2 ? abc[R(64)] : (char)R(256);
		if(k%4<2 && len>0) m[0]='C';
		do_load(c,m,"", "random");
		if(k%5==0) { std::string raw(R(std::min<size_t>(2*cl,200)+1),'\0'); for(size_t i=0;i<raw.size();i++) raw[i]=(char)R(256); do_dec(c,raw,"","random"); }
	}
	// expiry: S2 (150) and S4 (100) and S1 (200) as the clock moves
	set_now(101); tr.line(vt::J().s("e","Tick").i("d",1).a("now",W(vt::fake_now)).str());
	do_load(c,S4.cookie,S4.cookie,"expired"); do_load(c,S2.cookie,S2.cookie,"asis");
	set_now(150); tr.line(vt::J().s("e","Tick").i("d",49).a("now",W(vt::fake_now)).str());
	do_load(c,S2.cookie,S2.cookie,"asis-boundary");
	set_now(151); tr.line(vt::J().s("e","Tick").i("d",1).a("now",W(vt::fake_now)).str());
	do_load(c,S2.cookie,S2.cookie,"expired"); do_load(c,S1.cookie,S1.cookie,"asis");
	set_now(201); tr.line(vt::J().s("e","Tick").i("d",50).a("now",W(vt::fake_now)).str());
	do_load(c,S1.cookie,S1.cookie,"expired"); do_load(c,S6.cookie,S6.cookie,"expired");
}

// ---- forgeries: modified / new cipher texts RE-SIGNED under keys an attacker can compute without the secret ----------
struct fkey { std::string name,key; };
static std::vector<fkey> forger_keys(int c)
{
	config &C=*cfgs[c];
	std::vector<fkey> r;
	fkey k;
	k.name="empty"; k.key=""; r.push_back(k);
	k.name="zero"; k.key=std::string(C.ref_mac_key.size(),'\0'); r.push_back(k);
	k.name="hmac-sha256(empty,01)"; k.key=ref_hmac("sha256","",std::string("\1",1)).substr(0,20); r.push_back(k);
	k.name="hmac-sha512(empty,01)"; k.key=ref_hmac("sha512","",std::string("\1",1)).substr(0,20); r.push_back(k);
	k.name="hmac-sha256(empty,0)"; k.key=ref_hmac("sha256","","0").substr(0,20); r.push_back(k);
	k.name="hmac-sha256(zero,01)"; k.key=ref_hmac("sha256",std::string(C.secret.size(),'\0'),std::string("\1",1)).substr(0,20); r.push_back(k);
	if(C.aes) { k.name="cbc-key-as-mac-key"; k.key=C.ref_cbc_key; r.push_back(k); }
	if(C.derived) {
		k.name="raw-secret"; k.key=C.secret; r.push_back(k);
		k.name="hmac(secret,0)"; k.key=ref_hmac(C.secret.size()*8<=256?"sha256":"sha512",C.secret,"0").substr(0,20); r.push_back(k);
		std::string o=C.secret; o[o.size()/2]^=0x04;
		k.name="derived-from-other-secret"; k.key=ref_hmac(o.size()*8<=256?"sha256":"sha512",o,std::string("\1",1)).substr(0,20); r.push_back(k);
	}
	else { std::string o=C.ref_mac_key; o[o.size()/2]^=0x04; k.name="other-secret"; k.key=o; r.push_back(k); }
	for(size_t o=0;o<cfgs.size();o++) if((int)o!=c && cfgs[o]->ref_mac_key!=C.ref_mac_key) { k.name="key-of-"+cfgs[o]->name; k.key=cfgs[o]->ref_mac_key; r.push_back(k); if(r.size()>=14) break; }
	return r;
}
static void forgeries(vt::rng &R,int c,saved const &S1,std::string const &P1,bool big)
{
	config &C=*cfgs[c];
	std::vector<fkey> keys=forger_keys(c);
	size_t cl=S1.cipher.size();
	std::string body=S1.cipher.substr(0,cl-C.mac);
	time_t far=vt::clock_base+100000;
	std::string fplain((char *)&far,sizeof(far)); fplain+="FORGED:"+P1.substr(0,std::min<size_t>(P1.size(),40));
	for(size_t k=0;k<keys.size();k++) {
		if(big && k>=5) break;
		std::vector<std::pair<std::string,std::string> > f;      // (kind, cipher)
		std::string const &mk_=keys[k].key;
		f.push_back(std::make_pair("resign-unmodified",body+ref_hmac(C.ref_md,mk_,body)));
		{ std::string b=body; b[b.size()-1]^=0x01; f.push_back(std::make_pair("resign-bitflip-last",b+ref_hmac(C.ref_md,mk_,b))); }
		{ std::string b=body; b[C.aes?17:2]^=0x80; f.push_back(std::make_pair("resign-bitflip-first",b+ref_hmac(C.ref_md,mk_,b))); }
		if(C.aes) {
			if(body.size()>=48) { std::string b=body.substr(0,body.size()-16); f.push_back(std::make_pair("resign-truncated-block",b+ref_hmac(C.ref_md,mk_,b))); }
			if(body.size()>=64) { std::string b=body; for(int i=0;i<16;i++) std::swap(b[16+i],b[32+i]); f.push_back(std::make_pair("resign-swapped-blocks",b+ref_hmac(C.ref_md,mk_,b))); }
			// a whole new cookie: encrypted under a key the forger picks, or (insider of the CBC key only) the real CBC key
			f.push_back(std::make_pair("new-cookie-zero-cbc",ref_seal(true,C.ref_md,mk_,std::string(C.ref_cbc_key.size(),'\0'),fplain,R)));
			f.push_back(std::make_pair("new-cookie-real-cbc",ref_seal(true,C.ref_md,mk_,C.ref_cbc_key,fplain,R)));
		}
		else {
			std::string b=body; if(b.size()>=8) b[3]^=0x40;       // deadline pushed into the future
			f.push_back(std::make_pair("resign-later-deadline",b+ref_hmac(C.ref_md,mk_,b)));
			f.push_back(std::make_pair("new-cookie",ref_seal(false,C.ref_md,mk_,"",fplain,R)));
			// right key, other digest
			static const char *omd[]={"md5","sha1","sha256","sha512"};
			for(int q=0;q<4;q++) if(C.ref_md!=omd[q] && k==0) f.push_back(std::make_pair(std::string("real-key-")+omd[q],ref_seal(false,omd[q],C.ref_mac_key,"",fplain,R)));
		}
		for(size_t q=0;q<f.size();q++) {
			std::string mut="forge:"+keys[k].name+":"+f[q].first;
			do_load(c,"C"+b64url::encode(f[q].second),S1.cookie,mut.c_str());
			do_dec(c,f[q].second,S1.cookie,mut.c_str());
		}
	}
}

// ---- the whole time_t range: deadlines and fake-clock positions far apart, on both sides of 2^31 -----------------
// Rule unchanged: an authentic cookie loads iff deadline >= now (as 64-bit numbers; TLC compares the limbs).
struct tval { std::string label; long long v; };
static void timerange(vt::rng &R,int c,size_t L,bool thorough)
{
	config &C=*cfgs[c];
	static const long long P31=1ll<<31,P32=1ll<<32,Y100=3155760000ll;
	struct { char const *label; long long v; } clocks[]={
		{"1970+",(long long)vt::clock_base+100},{"2026",1790000000ll},{"2038-5",P31-5},{"2038-1",P31-1},{"2038",P31},{"2038+7",P31+7},
		{"2106+3",P32+3},{"2100",4102444800ll+1},{"2^40",(1ll<<40)+12345}
	};
	static const struct { char const *label; long long d; } offs[]={
		{"0",0},{"1",1},{"59",59},{"3600",3600},{"2^31-2",P31-2},{"2^31-1",P31-1},{"2^31",P31},{"2^31+1",P31+1},
		{"2^32-1",P32-1},{"2^32",P32},{"2^32+1",P32+1},{"2^40",1ll<<40},{"100y",Y100}
	};
	static const struct { char const *label; long long v; } absolute[]={
		{"0",0},{"-1",-1},{"-10^9",-1000000000ll},{"2^31-1",P31-1},{"2^31",P31},{"2^32",P32},{"2100-01-01",4102444800ll},
		{"2^62",1ll<<62},{"-2^62",-(1ll<<62)},{"int64max",0x7fffffffffffffffll}
	};
	size_t nclocks=sizeof(clocks)/sizeof(clocks[0]);
	for(size_t ci=0;ci<nclocks;ci++) {
		payload_ids.clear(); exec_saves.clear();
		std::string P=payload(R,L,1);
		payload_ids[P]=1;
		long long N=clocks[ci].v;
		set_now_abs(N);
		{
			std::vector<int> aes; for(size_t i=0;i<cfgs.size();i++) if(cfgs[i]->aes) aes.push_back(i);
			tr.line(vt::J().s("e","Reset").a("now",W(N)).a("aes",aes).s("cfg",C.name).s("len","timerange").s("clock",clocks[ci].label).i("n",L).str());
		}
		std::vector<tval> D;
		for(size_t k=0;k<sizeof(offs)/sizeof(offs[0]);k++) {
			tval a; a.label=std::string("now+")+offs[k].label; a.v=N+offs[k].d; D.push_back(a);
			if(offs[k].d) { tval b; b.label=std::string("now-")+offs[k].label; b.v=N-offs[k].d; D.push_back(b); }
		}
		for(size_t k=0;k<sizeof(absolute)/sizeof(absolute[0]);k++) { tval a; a.label=absolute[k].label; a.v=absolute[k].v; D.push_back(a); }
		std::vector<saved> S;
		for(size_t k=0;k<D.size();k++) {
			long rel=(long)(D[k].v-(long long)vt::clock_base);
			saved sv= k%3==0 ? do_save_enc(c,P,rel) : k%3==1 ? do_save(c,P,rel,true) : do_save_ref(R,c,P,rel);
			S.push_back(sv);
			std::string mut="wide:"+D[k].label+"@"+clocks[ci].label;
			do_load(c,sv.cookie,sv.cookie,mut.c_str());
			if(k%4==0) do_dec(c,sv.cipher,sv.cookie,mut.c_str());
		}
		// the same cookies seen from another clock position (the other side of 2^31 / far away)
		size_t cj=(ci+4)%nclocks;
		set_now_abs(clocks[cj].v);
		tr.line(vt::J().s("e","Tick").i("d",0).a("now",W(clocks[cj].v)).str());
		for(size_t k=0;k<D.size();k++) {
			std::string mut="wide:"+D[k].label+"@"+clocks[ci].label+">"+clocks[cj].label;
			do_load(c,S[k].cookie,S[k].cookie,mut.c_str(),k%2==1);
		}
		// one tampered cookie far in the future: still refused
		{ std::string m=S[0].cookie; m[m.size()/2]^=0x04; do_load(c,m,S[0].cookie,"wide:flip-text"); }
	}
	set_now(100);
}

// ---- key schedule: what save() emits verifies under the reference working keys, and what the reference
//      implementation seals with them loads in the real code (both directions => the real working keys are the documented ones)
static void keyschedule(vt::rng &R,int c)
{
	config &C=*cfgs[c];
	payload_ids.clear(); exec_saves.clear();
	std::string P1=payload(R,16,1),P2=payload(R,33,1);
	payload_ids[P1]=1; payload_ids[P2]=2;
	set_now(100);
	{
		std::vector<int> aes; for(size_t i=0;i<cfgs.size();i++) if(cfgs[i]->aes) aes.push_back(i);
		tr.line(vt::J().s("e","Reset").a("now",W(vt::fake_now)).a("aes",aes).s("cfg",C.name).s("len","keyschedule").str());
	}
	saved A=do_save(c,P1,200,true);
	saved B=do_save_ref(R,c,P2,180);
	saved D=do_save(c,P2,150,true);
	saved E=do_save_ref(R,c,P1,100);
	do_load(c,A.cookie,A.cookie,"asis"); do_load(c,B.cookie,B.cookie,"asis-reference-sealed");
	do_load(c,D.cookie,D.cookie,"asis"); do_load(c,E.cookie,E.cookie,"asis-reference-sealed");
	do_load(c,B.cookie,B.cookie,"asis-reference-sealed",true);
	do_dec(c,A.cipher,A.cookie,"asis"); do_dec(c,B.cipher,B.cookie,"asis-reference-sealed");
	forgeries(R,c,B,P2,false);
}

static void refusals()
{
	set_now(100);
	tr.line(vt::J().s("e","Reset").a("now",W(vt::fake_now)).a("aes",std::vector<int>()).s("cfg","refusals").i("len",0).str());
	// keys shorter than 16 bytes
	for(size_t n=0;n<16;n+=5) {
		bool refused=false;
		try { cppcms::sessions::impl::hmac_cipher h("sha1",mk(keybytes(n,1))); } catch(std::exception const &) { refused=true; }
		tr.line(vt::J().s("e","Refuse").s("what","hmac key shorter than 16 bytes").i("n",n).b("refused",refused).str());
	}
	// encryption without MAC / no method / unknown method, through session_pool::init
	static const char *bad[]={
		"{\"session\":{\"location\":\"client\",\"client\":{\"cbc\":\"aes\",\"cbc_key\":\"000102030405060708090a0b0c0d0e0f\"}}}",
		"{\"session\":{\"location\":\"client\"}}",
		"{\"session\":{\"location\":\"client\",\"client\":{\"encryptor\":\"rot13\",\"key\":\"000102030405060708090a0b0c0d0e0f\"}}}",
		"{\"session\":{\"location\":\"client\",\"client\":{\"encryptor\":\"hmac\",\"key\":\"0001020304050607\"}}}",
		"{\"session\":{\"location\":\"client\",\"client\":{\"encryptor\":\"aes\",\"key\":\"0001020304050607\"}}}",
		"{\"session\":{\"location\":\"client\",\"client\":{\"encryptor\":\"hmac\",\"hmac\":\"sha1\",\"key\":\"000102030405060708090a0b0c0d0e0f\"}}}",
	};
	for(size_t i=0;i<sizeof(bad)/sizeof(bad[0]);i++) {
		bool refused=false;
		try {
			std::istringstream ss(bad[i]); json::value v; v.load(ss,true);
			session_pool p(v); p.init();
			adapter ad; session_interface si(p,ad);
			std::string d; time_t t;
			// the hmac key length is checked when the first encryptor is made
			booster::shared_ptr<session_api> api=p.get();
			if(api) api->load(si,d,t);
		}
		catch(std::exception const &) { refused=true; }
		tr.line(vt::J().s("e","Refuse").s("what",bad[i]).b("refused",refused).str());
	}
}

static void on_signal(int sig)
{
	char b[64]; snprintf(b,sizeof(b),"signal %d",sig);
	tr.line(vt::J().s("e","Died").s("what",b).s("mut","signal").str()); tr.close(); _exit(0);
}

int main(int argc,char **argv)
{
	signal(SIGSEGV,on_signal); signal(SIGABRT,on_signal); signal(SIGBUS,on_signal); signal(SIGFPE,on_signal);
	if(argc<3) { fprintf(stderr,"usage: cookie_drv shard nshards\n"); return 2; }
	long shard=atol(argv[1]),nsh=atol(argv[2]);
	bool thorough = std::string(getenv("VERIF_TIER")?getenv("VERIF_TIER"):"quick")=="thorough";
	tr.open();
	booster::log::logger::instance().set_default_level(booster::log::emergency);   // load() warns on every bad cookie
	json::value v;
	{
		std::istringstream ss("{\"session\":{\"location\":\"client\",\"expire\":\"fixed\",\"timeout\":1000,"
			"\"client\":{\"encryptor\":\"hmac\",\"key\":\"261965ba80a79c034c9ae366a19a2627\"}}}");
		v.load(ss,true);
	}
	pool=new session_pool(v);
	pool->init();
	build_configs();
	std::vector<size_t> lens;
	static const size_t ql[]={0,1,15,16,17,4096};
	lens.assign(ql,ql+6);
	if(thorough) { lens.push_back(7); lens.push_back(8); lens.push_back(31); lens.push_back(32); lens.push_back(65536); }
	// cost-balanced assignment of (configuration, length) jobs to shards
	std::vector<std::pair<double,std::pair<size_t,size_t> > > jobs;
	static const size_t KEYSCHED=(size_t)-1,TIMERANGE=(size_t)-2;
	for(size_t c=0;c<cfgs.size();c++) {
		jobs.push_back(std::make_pair(-0.2,std::make_pair(c,KEYSCHED)));
		jobs.push_back(std::make_pair(-0.5,std::make_pair(c,TIMERANGE)));
		for(size_t k=0;k<lens.size();k++) {
			// the additional derived-key configurations: two payload lengths in the quick tier
			if(!thorough && cfgs[c]->extra && lens[k]!=1 && lens[k]!=16) continue;
			double cost= lens[k]>5000 ? 12 : lens[k]>64 ? (thorough? 40 : 1.5) : 1;
			jobs.push_back(std::make_pair(-cost,std::make_pair(c,k)));
		}
	}
	std::stable_sort(jobs.begin(),jobs.end());
	std::vector<double> load(nsh,0);
	for(size_t j=0;j<jobs.size();j++) {
		long best=0; for(long s=1;s<nsh;s++) if(load[s]<load[best]) best=s;
		load[best]+=-jobs[j].first;
		if(best!=shard) continue;
		size_t c=jobs[j].second.first,k=jobs[j].second.second;
		vt::rng R(vt::envl("VERIF_SEED",1)*2750159u+(c*64+(k==KEYSCHED?63:k==TIMERANGE?62:k))*13+1);
		if(k==KEYSCHED) keyschedule(R,c);
		else if(k==TIMERANGE) { timerange(R,c,16,thorough); if(thorough) { timerange(R,c,0,thorough); timerange(R,c,100,thorough); } }
		else execution(R,c,lens[k],thorough);
	}
	if(shard==0) refusals();
	printf("cfgs=%zu loads=%ld accepted=%ld decs=%ld\n",cfgs.size(),n_loads,n_ok,n_dec);
	tr.close();
	return 0;
}
