// C17 driver (worker pool): j threads post / cancel jobs on cppcms::thread_pool; some jobs throw.
// Hooks in thread_pool.cpp (guard CPPCMS_VERIF) emit PPost/PCancel/PPop/PDone/PStop under the pool
// mutex; the job bodies emit Job{id}.   usage: pool_drv <workers> <posters> <ops> <rounds>
#include "common/vtrace.h"
#include <booster/verif_trace.h>
#include <cppcms/thread_pool.h>
#include <booster/thread.h>
#include <booster/function.h>
#include <stdexcept>
#include <atomic>
#include <vector>
#include <map>
#include <unistd.h>

namespace bv = booster::verif;
static cppcms::thread_pool *pool;
static booster::mutex idmx;
static std::map<int,int> idof;          // job serial -> pool id
static std::atomic<int> serial(0);
static std::atomic<long> ran(0), posted(0), cancelled(0);

struct job {
	int j; int kind; // 0 plain, 1 throws std::exception, 2 throws int, 3 slow
	void operator()() const
	{
		int id;
		{ booster::unique_lock<booster::mutex> l(idmx); id=idof[j]; }
		bv::emit("\"e\":\"Job\",\"id\":%d,\"kind\":%d",id,kind);
		ran++;
		if(kind==3) usleep(300);
		if(kind==1) throw std::runtime_error("job failure");
		if(kind==2) throw 42;
	}
};

struct poster {
	unsigned seed; int nops;
	void operator()() const
	{
		vt::rng R(seed);
		std::vector<int> mine;
		for(int n=0;n<nops;n++) {
			unsigned c=R(100);
			if(c<70 || mine.empty()) {
				job jb; jb.j=serial++; jb.kind = R(10)<6 ? 0 : 1+R(3);
				int id;
				{ booster::unique_lock<booster::mutex> l(idmx); id=pool->post(jb); idof[jb.j]=id; }
				posted++;
				mine.push_back(id);
			}
			else {
				size_t i=R(mine.size());
				if(pool->cancel(mine[i])) cancelled++;
				mine.erase(mine.begin()+i);
			}
			if(R(8)==0) usleep(R(300));
		}
	}
};

int main(int argc,char **argv)
{
	if(argc<5) return 2;
	int workers=atoi(argv[1]),posters=atoi(argv[2]),nops=atoi(argv[3]),rounds=atoi(argv[4]);
	char const *out=getenv("VERIF_OUT"); if(!out) return 2;
	unlink(out); bv::open(out);
	long seed=vt::envl("VERIF_SEED",1);
	for(int r=0;r<rounds;r++) {
		ran=0; posted=0; cancelled=0; idof.clear(); serial=0;
		bv::emit("\"e\":\"Reset\",\"workers\":%d,\"posters\":%d",workers,posters);
		pool=new cppcms::thread_pool(workers);
		std::vector<booster::thread *> th;
		for(int i=0;i<posters;i++) { poster p; p.seed=seed*977+r*53+i*11+workers; p.nops=nops; th.push_back(new booster::thread(p)); }
		for(int i=0;i<posters;i++) { th[i]->join(); delete th[i]; }
		// the pool keeps running: every job not successfully cancelled must run
		for(int spin=0;spin<100000 && ran.load()+cancelled.load()<posted.load();spin++) usleep(100);
		bv::emit("\"e\":\"PQuiesce\",\"posted\":%ld,\"ran\":%ld,\"cancelled\":%ld",posted.load(),ran.load(),cancelled.load());
		pool->stop();
		delete pool; pool=0;
	}
	bv::close();
	return 0;
}
