// G04 driver: booster::aio::stream_socket full-transfer operations over partial I/O.
//
// The socket under test S is one end of an AF_UNIX pair (or an accepted connection); the peer end is
// driven with raw ::write / ::read in small pieces.  readv()/writev() are interposed: every call the
// library makes on S's descriptor is logged (SysR / SysW0+SysW1, with the iovec as offsets into the
// harness arena) and may be made short, answered with EAGAIN / EINTR / an error (all derived from
// VERIF_SEED) - so partial transfers and would-block points occur at every position.
// In the single-threaded modes the driver is itself a handler of the io_service under test: each step
// does one action (start an operation, peer write/read/shutdown, cancel, close ...) and re-posts
// itself, hence the trace is a deterministic function of the seed.
//
// usage: stream_drv <mode> <reactor 1..3> <executions> <steps> [variant]
//   mode: rand   random schedules, non-blocking socket, async + sync operations
//         blk    blocking socket, synchronous operations only (issued when they cannot block)
//         mt     like rand, the peer is a thread (commands through a queue, real blocking polls / blocking sync ops)
//         race   targeted: cancel()/close() issued after the readiness of the operation was dispatched
//         accept S comes from acceptor::async_accept (cancel / connect), then a short random schedule
//         buf    buffer arithmetic, function style (Adv / Cat / Cnt events)
#include "common/vtrace.h"
#include <booster/verif_trace.h>
#include <booster/aio/io_service.h>
#include <booster/aio/stream_socket.h>
#include <booster/aio/acceptor.h>
#include <booster/aio/endpoint.h>
#include <booster/aio/buffer.h>
#include <booster/aio/reactor.h>
#include <booster/aio/aio_category.h>
#include <booster/posix_time.h>
#include <booster/system_error.h>
#include <sys/socket.h>
#include <sys/un.h>
#include <sys/uio.h>
#include <unistd.h>
#include <fcntl.h>
#include <dlfcn.h>
#include <errno.h>
#include <signal.h>
#include <pthread.h>
#include <functional>
#include <vector>
#include <deque>
#include <map>
#include <string>

namespace bv = booster::verif;
namespace aio = booster::aio;
using booster::ptime;
using booster::system::error_code;

// ------------------------------------------------------------------ trace writer
static vt::out T;
static pthread_mutex_t tmx = PTHREAD_MUTEX_INITIALIZER;
static void emit(std::string const &s) { pthread_mutex_lock(&tmx); T.line(s); pthread_mutex_unlock(&tmx); }

static char arena[1<<16];
typedef std::vector<std::pair<long,long> > chunks_t;        // (offset in arena, size)

static std::string jchunks(chunks_t const &c)
{
	std::ostringstream o; o<<'[';
	for(size_t i=0;i<c.size();i++) { if(i) o<<','; o<<'['<<c[i].first<<','<<c[i].second<<']'; }
	o<<']'; return o.str();
}
static long off_of(void const *p)
{
	char const *c=(char const *)p;
	if(c>=arena && c<arena+sizeof(arena)) return c-arena;
	return -1;                                              // outside the arena
}
template<typename Buf> static chunks_t chunks_of(Buf const &b)
{
	chunks_t r; typename Buf::buffer_data_type d=b.get();
	for(size_t i=0;i<d.second;i++) r.push_back(std::make_pair(off_of(d.first[i].ptr),(long)d.first[i].size));
	return r;
}

// ------------------------------------------------------------------ interposed readv / writev
enum { INJ_NONE=0, INJ_WB, INJ_INTR, INJ_SHORT, INJ_ERR };
static int g_sfd=-1;            // descriptor of S (the library's calls on it are logged)
static bool g_closed=false;     // S was closed by its owner: the library now calls with -1
static bool g_on=false;
static vt::rng *g_irng=0;
static unsigned p_wb=0,p_intr=0,p_short=0,p_err=0;   // injection profile of this execution (percent)
static std::deque<int> g_forced;                      // forced outcomes (race mode)
static long g_consumed=0, g_sent=0;                   // bytes really moved on S (for the driver's bookkeeping only)
static long g_calls=0;                                // system calls on S in this execution

typedef ssize_t (*iov_fn)(int,const struct iovec *,int);
static iov_fn real_readv,real_writev;

static int pick_inj()
{
	if(!g_forced.empty()) { int f=g_forced.front(); g_forced.pop_front(); return f; }
	if(!g_irng) return INJ_NONE;
	unsigned c=(*g_irng)(100);
	if(c<p_wb) return INJ_WB;
	c-=p_wb;
	if(c<p_intr) return INJ_INTR;
	c-=p_intr;
	if(c<p_short) return INJ_SHORT;
	c-=p_short;
	if(c<p_err) return INJ_ERR;
	return INJ_NONE;
}
static bool is_s(int fd) { return g_on && ((fd>=0 && fd==g_sfd && !g_closed) || (fd==-1 && g_closed)); }

static ssize_t do_iov(bool rd,int fd,const struct iovec *v,int n)
{
	iov_fn real = rd ? real_readv : real_writev;
	if(!is_s(fd)) return real(fd,v,n);
	if(++g_calls>4000) {
		// an operation that keeps calling without ever completing (busy loop): end the trace here
		emit(vt::J().s("e","Spin").i("calls",g_calls).str());
		T.close(); _exit(0);
	}
	chunks_t c; long total=0;
	for(int i=0;i<n;i++) { c.push_back(std::make_pair(off_of(v[i].iov_base),(long)v[i].iov_len)); total+=v[i].iov_len; }
	if(!rd) emit(vt::J().s("e","SysW0").raw("iov",jchunks(c)).str());
	int inj = (fd<0 || total==0) ? INJ_NONE : pick_inj();      // a call that moves nothing returns 0 at once in the kernel: never made to fail
	ssize_t r; int err=0;
	if(inj==INJ_WB) { r=-1; err=EAGAIN; }
	else if(inj==INJ_INTR) { r=-1; err=EINTR; }
	else if(inj==INJ_ERR) { r=-1; err= rd ? ECONNRESET : EPIPE; }
	else if(inj==INJ_SHORT && total>=2) {
		long k=1+(g_irng ? (*g_irng)((unsigned)(total-1)) : 0);      // 1..total-1 bytes
		std::vector<struct iovec> tv; long left=k;
		for(int i=0;i<n && left>0;i++) { struct iovec x=v[i]; if((long)x.iov_len>left) x.iov_len=left; left-=x.iov_len; if(x.iov_len) tv.push_back(x); }
		r=real(fd,&tv[0],(int)tv.size()); err=errno;
	}
	else { inj=INJ_NONE; r=real(fd,v,n); err=errno; }
	char const *cls = r>0 ? "xfer" : r==0 ? "eof" : (err==EAGAIN || err==EWOULDBLOCK) ? "wb" : err==EINTR ? "intr" : "err";
	if(r>0) { if(rd) g_consumed+=r; else g_sent+=r; }
	vt::J j; j.s("e",rd?"SysR":"SysW1");
	if(rd) j.raw("iov",jchunks(c));
	j.i("ret",r<0?0:r).s("cls",cls).i("errno",r<0?err:0).b("inj",inj!=INJ_NONE);
	emit(j.str());
	errno=err;
	return r;
}
extern "C" ssize_t readv(int fd,const struct iovec *v,int n)
{
	if(!real_readv) real_readv=(iov_fn)dlsym(RTLD_NEXT,"readv");
	return do_iov(true,fd,v,n);
}
extern "C" ssize_t writev(int fd,const struct iovec *v,int n)
{
	if(!real_writev) real_writev=(iov_fn)dlsym(RTLD_NEXT,"writev");
	return do_iov(false,fd,v,n);
}

// ------------------------------------------------------------------ hook listener (scheduling aid only - hook lines are not part of the trace)
static unsigned long hk_p[2]={0,0};     // callable armed on S for in / out
static bool hk_rdy[2]={false,false};    // its readiness is dispatched, operator() has not run yet
static unsigned long num_after(char const *l,char const *key)
{
	char const *p=strstr(l,key); if(!p) return 0;
	return strtoul(p+strlen(key),0,10);
}
static void hook_line(char const *l)
{
	if(g_sfd<0) return;
	if(strstr(l,"\"e\":\"SetIo\"")) {
		if((int)num_after(l,"\"fd\":")!=g_sfd) return;
		int ev=(int)num_after(l,"\"ev\":"); int d= ev==aio::io_events::in ? 0 : 1;
		hk_p[d]=num_after(l,"\"p\":"); hk_rdy[d]=false;
	}
	else if(strstr(l,"\"e\":\"Enq\"")) {
		unsigned long p=num_after(l,"\"p\":");
		bool ready = strstr(l,"\"why\":\"io_ready\"")!=0 || strstr(l,"\"why\":\"io_error\"")!=0;
		bool cancel = strstr(l,"\"why\":\"io_cancel\"")!=0;
		for(int d=0;d<2;d++) if(hk_p[d] && hk_p[d]==p) { if(ready) hk_rdy[d]=true; if(cancel) { hk_p[d]=0; hk_rdy[d]=false; } }
	}
	else if(strstr(l,"\"e\":\"Deq\"")) {
		unsigned long p=num_after(l,"\"p\":");
		for(int d=0;d<2;d++) if(hk_p[d] && hk_p[d]==p && hk_rdy[d]) { hk_p[d]=0; hk_rdy[d]=false; }
	}
}

// ------------------------------------------------------------------ helpers
static char const *cls_of(error_code const &e)
{
	if(!e) return "ok";
	if(e.category()==aio::aio_error_cat) {
		if(e.value()==aio::aio_error::canceled) return "aborted";
		if(e.value()==aio::aio_error::eof) return "eof";
		if(e.value()==aio::aio_error::select_failed) return "sel";
		return "err";
	}
	if(aio::basic_io_device::would_block(e)) return "wb";
	return "err";
}

struct OpSt {
	bool active; int id; bool all; bool sync; chunks_t chunks; long total;
	OpSt() : active(false),id(0),all(true),sync(false),total(0) {}
};

struct Exec;
static Exec *X=0;

struct IoH { int id; int d; void operator()(error_code const &e,size_t n) const; };
struct Driver { void operator()() const; };
struct TDriver { void operator()(error_code const &) const; };
struct Watchdog { int gen; void operator()(error_code const &e) const; };

// peer thread (mode mt): executes commands
struct PeerCmd { int what; std::string bytes; int n; int delay_us; };   // what: 0 write, 1 read, 2 shut wr, 3 quit
struct PeerThread {
	pthread_t th; pthread_mutex_t mx; pthread_cond_t cv; std::deque<PeerCmd> q; int fd; bool busy; vt::rng R;
	PeerThread(int f,unsigned seed) : fd(f),busy(false),R(seed) { pthread_mutex_init(&mx,0); pthread_cond_init(&cv,0); }
	void push(PeerCmd const &c) { pthread_mutex_lock(&mx); q.push_back(c); pthread_cond_signal(&cv); pthread_mutex_unlock(&mx); }
	bool idle() { pthread_mutex_lock(&mx); bool r=q.empty() && !busy; pthread_mutex_unlock(&mx); return r; }
	static void *run(void *p) { ((PeerThread *)p)->loop(); return 0; }
	void loop()
	{
		for(;;) {
			pthread_mutex_lock(&mx);
			while(q.empty()) pthread_cond_wait(&cv,&mx);
			PeerCmd c=q.front(); q.pop_front(); busy=true;
			pthread_mutex_unlock(&mx);
			if(c.what==3) break;
			if(c.what==0) {
				// write the bytes in random small pieces with pauses (blocking descriptor)
				size_t pos=0; int tries=0;
				while(pos<c.bytes.size()) {
					size_t k=1+R(6); if(k>c.bytes.size()-pos) k=c.bytes.size()-pos;
					if(c.delay_us) usleep(R(c.delay_us));
					std::string piece=c.bytes.substr(pos,k);
					emit(vt::J().s("e","PW0").bytes("bytes",piece).str());
					ssize_t r=::send(fd,piece.data(),piece.size(),MSG_DONTWAIT|MSG_NOSIGNAL);
					int err=errno;
					emit(vt::J().s("e","PW1").i("n",r<0?0:r).str());
					if(r<0 && (err==EAGAIN || err==EWOULDBLOCK) && ++tries<15) { usleep(300); continue; }   // S is not reading right now
					if(r<=0) break;                                                                         // the rest is dropped
					pos+=r;
				}
			}
			else if(c.what==1) {
				if(c.delay_us) usleep(R(c.delay_us));
				char b[64]; int cap= c.n>64 ? 64 : c.n;
				ssize_t r=::recv(fd,b,cap,MSG_DONTWAIT);
				if(r>0) emit(vt::J().s("e","PR").bytes("bytes",std::string(b,r)).str());
			}
			else if(c.what==2) {
				emit(vt::J().s("e","PShut").s("how","wr").str());
				::shutdown(fd,SHUT_WR);
			}
			pthread_mutex_lock(&mx); busy=false; pthread_mutex_unlock(&mx);
		}
	}
};

struct Exec {
	std::string mode; int reactor; int xno; vt::rng R;
	aio::io_service *srv; aio::stream_socket *S; int peer;
	bool owner,tiny,blocking,mt;
	OpSt op[2];
	std::map<int,chunks_t> read_bufs;       // id -> buffer of a read operation (to dump its content at completion)
	int next_id; int steps_left; int sync_wait; int phase;   // phase 0 running, 1 final close issued, 2 finished
	int after_close;                         // steps still to do on the closed socket
	bool closed,in_shut,out_shut,peer_gone;
	long peer_written,peer_got;
	long arena_pos;
	PeerThread *pt;
	std::string last_ec[2];
	std::vector<std::function<bool()> > script; size_t script_pos;      // race / accept modes
	int wd_gen;
	Exec(unsigned seed) : R(seed),srv(0),S(0),peer(-1),owner(true),tiny(false),blocking(false),mt(false),next_id(0),steps_left(0),sync_wait(0),phase(0),
		after_close(0),closed(false),in_shut(false),out_shut(false),peer_gone(false),peer_written(0),peer_got(0),arena_pos(0),pt(0),script_pos(0),wd_gen(0) {}

	// --- buffers
	chunks_t make_chunks(int d)
	{
		// 0..20 chunks (mostly few), sizes 1..8 (sometimes up to 24), total <= 60, placed in a random memory order with random gaps
		int n; unsigned c=R(100);
		if(c<5) n=0; else if(c<35) n=1; else if(c<70) n=2+R(3); else if(c<88) n=5+R(8); else n=14+R(10);
		std::vector<long> sz; long total=0;
		for(int i=0;i<n;i++) { long s= n>=14 ? 1+R(3) : R(8)==0 ? 9+R(16) : 1+R(8); if(total+s>60) s=60-total; if(s<=0) break; sz.push_back(s); total+=s; }
		n=(int)sz.size();
		std::vector<int> order(n); for(int i=0;i<n;i++) order[i]=i;
		if(R(3)) for(int i=n-1;i>0;i--) std::swap(order[i],order[R(i+1)]);     // memory order of the chunks
		// regions: reads and writes use different halves; rotate inside the half so that stale cells are not reused at once
		long base = (d==0 ? 0 : 32768) + (arena_pos % 28000); arena_pos+=700;
		std::vector<long> offs(n); long pos=base;
		for(int i=0;i<n;i++) { pos+=R(3)==0 ? 0 : R(4); offs[order[i]]=pos; pos+=sz[order[i]]; }
		chunks_t r; for(int i=0;i<n;i++) r.push_back(std::make_pair(offs[i],sz[i]));
		return r;
	}
	template<typename Buf,typename Ptr> Buf build(chunks_t const &c)
	{
		// through add(), with zero-sized chunks thrown in, or as a concatenation of two buffers
		Buf b;
		if(R(4)==0 && c.size()>=2) {
			Buf a,z; size_t cut=1+R((unsigned)c.size()-1);
			for(size_t i=0;i<cut;i++) a.add((Ptr)(arena+c[i].first),c[i].second);
			for(size_t i=cut;i<c.size();i++) z.add((Ptr)(arena+c[i].first),c[i].second);
			if(R(2)) b=a+z; else { b=a; b+=z; }
			return b;
		}
		for(size_t i=0;i<c.size();i++) {
			if(R(6)==0) b.add((Ptr)(arena+c[i].first),0);
			b.add((Ptr)(arena+c[i].first),c[i].second);
		}
		if(R(6)==0) b.add((Ptr)arena,0);
		return b;
	}

	void start(int d,bool all,bool sync,chunks_t const *given=0)
	{
		OpSt &o=op[d];
		o.active=true; o.id=++next_id; o.all=all; o.sync=sync; o.chunks= given ? *given : make_chunks(d);
		o.total=0; for(size_t i=0;i<o.chunks.size();i++) o.total+=o.chunks[i].second;
		std::string data;
		if(d==0) { for(size_t i=0;i<o.chunks.size();i++) memset(arena+o.chunks[i].first,238,o.chunks[i].second); read_bufs[o.id]=o.chunks; }
		else for(size_t i=0;i<o.chunks.size();i++) for(long k=0;k<o.chunks[i].second;k++) { char ch=(char)R(256); arena[o.chunks[i].first+k]=ch; data+=ch; }
		emit(vt::J().s("e","Start").i("id",o.id).s("d",d==0?"r":"w").s("kind",all?"all":"some").b("sync",sync).raw("buf",jchunks(o.chunks)).bytes("data",data).str());
		IoH h={o.id,d};
		error_code e; size_t n=0;
		if(d==0) {
			aio::mutable_buffer b=build<aio::mutable_buffer,char *>(o.chunks);
			if(sync) { n = all ? S->read(b,e) : S->read_some(b,e); done(o.id,d,e,n,true); }
			else if(all) S->async_read(b,h); else S->async_read_some(b,h);
		}
		else {
			aio::const_buffer b;
			if(R(5)==0) b=aio::const_buffer(build<aio::mutable_buffer,char *>(o.chunks));    // conversion constructor
			else b=build<aio::const_buffer,char const *>(o.chunks);
			if(sync) { n = all ? S->write(b,e) : S->write_some(b,e); done(o.id,d,e,n,true); }
			else if(all) S->async_write(b,h); else S->async_write_some(b,h);
		}
	}
	void done(int id,int d,error_code const &e,size_t n,bool sync)
	{
		vt::J j; j.s("e","Done").i("id",id).s("d",d==0?"r":"w").s("ec",cls_of(e)).i("raw",e.value()).i("n",(long long)n).b("sync",sync);
		std::string data;
		if(d==0 && read_bufs.count(id)) { chunks_t &c=read_bufs[id]; for(size_t i=0;i<c.size();i++) data.append(arena+c[i].first,c[i].second); }
		j.bytes("data",data);
		emit(j.str());
		last_ec[d]=cls_of(e);
		if(op[d].active && op[d].id==id) op[d].active=false;
	}

	// --- peer actions (single-threaded modes: the peer descriptor is non-blocking)
	void peer_write(int n)
	{
		if(peer<0 || in_shut) return;
		std::string b; for(int i=0;i<n;i++) b+=(char)R(256);
		if(mt) { PeerCmd c; c.what=0; c.bytes=b; c.n=0; c.delay_us=R(3)?300:0; pt->push(c); peer_written+=n; return; }
		emit(vt::J().s("e","PW0").bytes("bytes",b).str());
		ssize_t r=::write(peer,b.data(),b.size());
		emit(vt::J().s("e","PW1").i("n",r<0?0:r).str());
		if(r>0) peer_written+=r;
	}
	void peer_read(int cap)
	{
		if(peer<0) return;
		if(mt) { PeerCmd c; c.what=1; c.n=cap; c.delay_us=R(3)?200:0; pt->push(c); return; }
		char b[64]; if(cap>64) cap=64;
		ssize_t r=::read(peer,b,cap);
		if(r>0) { emit(vt::J().s("e","PR").bytes("bytes",std::string(b,r)).str()); peer_got+=r; }
	}
	void peer_shut(int how)    // 0 wr, 1 rd, 2 close
	{
		if(peer<0) return;
		if(mt) { if(how==0 && !in_shut) { PeerCmd c; c.what=2; c.n=0; c.delay_us=0; pt->push(c); in_shut=true; } return; }
		if(how==0 && in_shut) return;
		if(how==1 && out_shut) return;
		emit(vt::J().s("e","PShut").s("how",how==0?"wr":how==1?"rd":"close").str());
		if(how==0) { ::shutdown(peer,SHUT_WR); in_shut=true; }
		else if(how==1) { ::shutdown(peer,SHUT_RD); out_shut=true; }
		else { ::close(peer); peer=-1; in_shut=out_shut=peer_gone=true; }
	}
	void do_cancel() { emit(vt::J().s("e","Cancel").str()); S->cancel(); sync_wait=2; }
	void do_close()
	{
		emit(vt::J().s("e","Close").b("owner",owner).str());
		error_code e; S->close(e);
		if(owner) { g_closed=true; closed=true; }
		sync_wait=2;
	}
	bool any_async() { return (op[0].active && !op[0].sync) || (op[1].active && !op[1].sync); }
	bool rdy_pending() { return (hk_rdy[0] && op[0].active) || (hk_rdy[1] && op[1].active); }

	void repost()
	{
		if(!blocking && R(10)==0) srv->set_timer_event(ptime::now()+ptime::milliseconds(R(2)),TDriver());     // let the loop block in poll
		else srv->post(Driver());
	}
	void finish()
	{
		emit(vt::J().s("e","Quiesce").str());
		phase=2; wd_gen++;
		srv->stop();
	}
	void step()
	{
		if(phase==2) return;
		if(sync_wait>0) {
			if(mt && pt && !pt->idle()) { usleep(200); srv->post(Driver()); return; }
			if(--sync_wait==0) emit(vt::J().s("e","Sync").str());
			srv->post(Driver()); return;
		}
		if(phase==1) { finish(); return; }
		if(script_pos<script.size()) { if(script[script_pos]()) script_pos++; srv->post(Driver()); return; }
		if(steps_left<=0 || (closed && after_close<=0)) {
			if(rdy_pending() && mode!="race") { srv->post(Driver()); return; }     // see G04.py: the dispatched-readiness window is driven only by mode race
			if(mt && pt) { if(!pt->idle()) { usleep(200); srv->post(Driver()); return; } }
			phase=1;
			if(!mt && peer>=0 && !out_shut) {
				// the peer takes everything that is still in flight: every byte S wrote must have shown up, in order
				char b[64]; ssize_t r;
				while((r=::read(peer,b,sizeof(b)))>0) { emit(vt::J().s("e","PR").bytes("bytes",std::string(b,r)).str()); peer_got+=r; }
				emit(vt::J().s("e","Drained").str());
			}
			if(!closed) do_close(); else sync_wait=1;
			srv->post(Driver()); return;
		}
		steps_left--; if(closed) after_close--;
		random_action();
		repost();
	}
	void random_action()
	{
		unsigned c=R(1000);
		long in_avail=peer_written-g_consumed;
		if(blocking) {
			// synchronous operations on a blocking descriptor, only when they cannot block
			if(c<300) { if(!op[0].active) { chunks_t ch=make_chunks(0); long t=0; for(size_t i=0;i<ch.size();i++) t+=ch[i].second;
					bool all=R(2); if(in_shut || (all ? in_avail>=t : in_avail>=1) || t==0) start(0,all,true,&ch); } }
			else if(c<550) { if(!op[1].active && !out_shut && g_sent-peer_got<2000) start(1,R(2),true); }
			else if(c<800) peer_write(1+R(24));
			else if(c<930) peer_read(1+R(40));
			else if(c<938) peer_shut(0);
			else if(c<960) { error_code e; S->set_non_blocking_if_needed(false,e); }
			else { error_code e; size_t n=S->bytes_readable(e); emit(vt::J().s("e","Avail").i("n",(long long)n).s("ec",cls_of(e)).str()); }
			return;
		}
		if(c<200) { if(!op[0].active) start(0,R(100)<65,R(100)<15); }
		else if(c<400) { if(!op[1].active) start(1,R(100)<65,R(100)<15); }
		else if(c<600) peer_write(1+R(R(4)==0?30:10));
		else if(c<740) peer_read(1+R(R(3)==0?48:12));
		else if(c<748) peer_shut(0);
		else if(c<752) peer_shut(1);
		else if(c<756) peer_shut(2);
		else if(c<840) { if(any_async() && !rdy_pending()) do_cancel(); }
		else if(c<848) { if(!closed && !rdy_pending()) { do_close(); after_close=R(5); } }
		else if(c<880) { error_code e; size_t n=S->bytes_readable(e); emit(vt::J().s("e","Avail").i("n",(long long)n).s("ec",cls_of(e)).str()); }
		else if(c<890) { error_code e; S->set_non_blocking_if_needed(true,e); }
		// else: yield
	}
};

void IoH::operator()(error_code const &e,size_t n) const { if(X) X->done(id,d,e,n,false); }
void Driver::operator()() const { if(X) X->step(); }
void TDriver::operator()(error_code const &) const { if(X) X->step(); }
void Watchdog::operator()(error_code const &e) const
{
	if(e || !X || X->wd_gen!=gen) return;
	emit(vt::J().s("e","Hang").str());
	T.close(); _exit(0);
}

// the thread is stuck in a system call (a blocking operation that never returns): end the trace with Hang
static void on_alarm(int)
{
	if(T.f) { fputs("{\"e\":\"Hang\",\"blocked\":true}\n",T.f); fflush(T.f); }
	_exit(0);
}

static char const *reactor_names[]={"default","select","poll","epoll"};

static void setup_pair(Exec &x,int sp[2])
{
	if(socketpair(AF_UNIX,SOCK_STREAM,0,sp)<0) { perror("socketpair"); exit(3); }
}

static void run_exec(std::string const &mode,int reactor,int xno,int steps,int variant,unsigned seed)
{
	Exec x(seed); X=&x;
	x.mode=mode; x.reactor=reactor; x.xno=xno; x.steps_left=steps;
	x.mt = mode=="mt";
	x.blocking = mode=="blk";
	x.owner = mode=="race" ? (variant!=6) : x.R(4)!=0;
	x.tiny = mode=="race" || (!x.blocking && x.R(3)!=0);
	x.srv=new aio::io_service(reactor);
	x.S=new aio::stream_socket(*x.srv);
	hk_p[0]=hk_p[1]=0; hk_rdy[0]=hk_rdy[1]=false; g_forced.clear();
	g_consumed=g_sent=0; g_closed=false; g_calls=0;
	vt::rng irng(seed*7919u+13); g_irng=&irng;
	// injection profile
	unsigned prof=x.R(10);
	if(mode=="race") { p_wb=p_intr=p_short=p_err=0; }
	else if(prof<2) { p_wb=p_intr=p_short=p_err=0; }
	else if(prof<7) { p_wb=8; p_intr=3; p_short=20; p_err=0; }
	else if(prof<9) { p_wb=20; p_intr=8; p_short=40; p_err=1; }
	else { p_wb=5; p_intr=2; p_short=10; p_err=4; }
	emit(vt::J().s("e","Reset").s("mode",mode).s("reactor",x.srv->reactor_name()).b("owner",x.owner).b("mt",x.mt).b("tiny",x.tiny).b("blocking",x.blocking)
		.i("x",xno).i("variant",variant).i("seed",(long long)(seed&0x7fffffff)).str());

	int sp[2]={-1,-1};
	aio::acceptor *acc=0; std::string path; int afd=-1;
	if(mode=="accept") {
		char const *w=getenv("VERIF_WORK"); if(!w) w=".";
		char nm[256]; snprintf(nm,sizeof(nm),"%s/g04-%d-%d.sock",w,(int)getpid(),xno); path=nm; unlink(nm);
		acc=new aio::acceptor(*x.srv);
		acc->open(aio::pf_unix);
		acc->bind(aio::endpoint(path));
		acc->listen(4);
	}
	else {
		setup_pair(x,sp);
		if(x.owner) x.S->assign(sp[0]); else x.S->attach(sp[0]);
		g_sfd=sp[0]; x.peer=sp[1];
		if(x.tiny) {
			x.S->set_option(aio::basic_socket::send_buffer_size,1);
			int one=1; setsockopt(x.peer,SOL_SOCKET,SO_SNDBUF,&one,sizeof(one));
		}
		if(!x.mt) fcntl(x.peer,F_SETFL,O_NONBLOCK);
		if(!x.blocking && x.R(2)) x.S->set_non_blocking(true);
		else if(!x.blocking) { error_code e; x.S->set_non_blocking_if_needed(true,e); }
	}
	g_on=true;
	if(x.mt) { x.pt=new PeerThread(x.peer,seed*31+7); pthread_create(&x.pt->th,0,PeerThread::run,x.pt); }

	// ---------------- scripts
	Exec *px=&x;
	if(mode=="race") {
		// an operation is armed; the peer makes the descriptor ready; the next driver step (which runs BEFORE the
		// dispatched callable, see io_service::run_one) cancels / closes.  variant:
		//  0 read-all, too few bytes arrive        1 write-all, socket buffer full again after the resumed short write
		//  2 read-some, spurious EAGAIN after the wake-up (re-armed, ready again at once: benign)
		//  3 read-some, data there (benign)        4 read-all, all bytes there (benign)           5 close() by the owner (EBADF, benign)
		//  6 close() of an attached descriptor, read-all, too few bytes
		int v=variant;
		bool wr = v==1;
		bool all = v==0 || v==1 || v==4 || v==6;
		if(wr) {
			// fill the socket buffer with small synchronous writes until EAGAIN, arm a full write, let the peer drain all but
			// the last piece (AF_UNIX: writeable again), cancel in the window, the resumed write is short and blocks the socket again
			x.script.push_back([px]() {
				if(px->last_ec[1]=="wb") return true;
				chunks_t ch; ch.push_back(std::make_pair(40100+(px->next_id%50)*4,2));
				px->start(1,false,true,&ch); return px->last_ec[1]=="wb"; });
			x.script.push_back([px]() {
				chunks_t ch; ch.push_back(std::make_pair(40020,3)); ch.push_back(std::make_pair(40000,5));
				px->start(1,true,false,&ch); return true; });
			x.script.push_back([px]() {
				long left=g_sent-px->peer_got-2;
				if(left<=0) return true;
				px->peer_read(left>16?16:(int)left);
				return g_sent-px->peer_got-2<=0; });
		}
		else {
			x.script.push_back([px,all]() {
				chunks_t ch; ch.push_back(std::make_pair(120,3)); ch.push_back(std::make_pair(100,5));
				px->start(0,all,false,&ch); return true; });
			x.script.push_back([px,v]() { px->peer_write(v==4 ? 8 : 3); return true; });
		}
		x.script.push_back([px,wr,v]() {
			if(!hk_rdy[wr?1:0]) return false;                     // wait until the readiness is in the dispatch queue
			if(v==1) g_forced.push_back(INJ_SHORT);
			if(v==2) g_forced.push_back(INJ_WB);
			if(v==5 || v==6) { px->do_close(); px->after_close=0; } else px->do_cancel();
			return true; });
		x.script.push_back([px]() { return true; });
	}
	else if(mode=="accept") {
		// async_accept cancelled, async_accept answered by a connect, then a short random schedule on the accepted socket
		struct AccH { int id; Exec *x; void operator()(error_code const &e) const
			{ emit(vt::J().s("e","ADone").i("id",id).s("ec",cls_of(e)).i("raw",e.value()).i("fd",x->S->native()).str()); } };
		int *pafd=new int(-1);
		bool cancel_first = x.R(2);
		if(cancel_first) {
			x.script.push_back([px,acc]() { emit(vt::J().s("e","AStart").i("id",1).str()); AccH h={1,px}; acc->async_accept(*px->S,h); return true; });
			x.script.push_back([px,acc]() { if(px->R(2)) return true; emit(vt::J().s("e","ACancel").str()); acc->cancel(); return true; });
			x.script.push_back([px,acc]() { emit(vt::J().s("e","ACancel").str()); acc->cancel(); return true; });
			x.script.push_back([]() { return true; });
			x.script.push_back([]() { emit(vt::J().s("e","ASync").str()); return true; });
		}
		bool connect_first = x.R(2);
		auto do_connect=[px,path,pafd]() {
			int fd=::socket(AF_UNIX,SOCK_STREAM,0); struct sockaddr_un a; memset(&a,0,sizeof(a)); a.sun_family=AF_UNIX; strncpy(a.sun_path,path.c_str(),sizeof(a.sun_path)-1);
			emit(vt::J().s("e","AConn").str());
			if(::connect(fd,(struct sockaddr *)&a,sizeof(a))<0) { perror("connect"); exit(3); }
			*pafd=fd; return true; };
		auto do_accept=[px,acc]() { emit(vt::J().s("e","AStart").i("id",2).str()); AccH h={2,px}; acc->async_accept(*px->S,h); return true; };
		if(connect_first) { x.script.push_back(do_connect); x.script.push_back(do_accept); }
		else { x.script.push_back(do_accept); if(x.R(2)) x.script.push_back([]() { return true; }); x.script.push_back(do_connect); }
		x.script.push_back([px]() { return px->S->native()>=0; });
		x.script.push_back([]() { return true; });
		x.script.push_back([px,pafd,steps]() {
			emit(vt::J().s("e","ASync").str());
			g_sfd=px->S->native(); px->peer=*pafd; px->owner=true;
			fcntl(px->peer,F_SETFL,O_NONBLOCK);
			px->S->set_non_blocking(true);
			emit(vt::J().s("e","Attach").str());
			return true; });
		// after the script the random schedule runs for `steps` steps
	}

	if(mode=="race") x.steps_left=0;
	x.wd_gen=xno*2+1;
	Watchdog wd={x.wd_gen};
	x.srv->set_timer_event(ptime::now()+ptime::seconds(90),wd);
	x.srv->post(Driver());
	alarm(150);
	x.srv->run();
	alarm(0);

	g_on=false; g_irng=0;
	if(x.pt) { PeerCmd q; q.what=3; q.n=0; q.delay_us=0; x.pt->push(q); pthread_join(x.pt->th,0); delete x.pt; }
	X=0;
	delete x.S;
	if(acc) { error_code e; acc->close(e); delete acc; unlink(path.c_str()); }
	delete x.srv;
	if(x.peer>=0) ::close(x.peer);
	if(!x.owner && sp[0]>=0) ::close(sp[0]);
	g_sfd=-1;
	(void)afd;
}

// ------------------------------------------------------------------ buffer arithmetic, function style
template<typename Buf,typename Ptr>
static void buf_case(vt::rng &R,chunks_t const &req,long n,char const *type)
{
	Buf b; for(size_t i=0;i<req.size();i++) b.add((Ptr)(arena+req[i].first),req[i].second);
	chunks_t in=chunks_of(b);
	emit(vt::J().s("e","Cnt").s("t",type).raw("req",jchunks(req)).raw("in",jchunks(in)).i("bytes",(long long)b.bytes_count()).i("chunks",(long long)b.size()).b("empty",b.empty()).str());
	Buf r1=b+(size_t)n;
	Buf r2=b; r2+=(size_t)n;
	emit(vt::J().s("e","Adv").s("t",type).raw("in",jchunks(in)).i("n",n).raw("out",jchunks(chunks_of(r1))).raw("out2",jchunks(chunks_of(r2)))
		.i("bytes",(long long)r1.bytes_count()).b("empty",r1.empty()).str());
	// twice in a row: (b + k) + (n - k)
	if(n>0) {
		long k=R((unsigned)n+1);
		Buf r3=(b+(size_t)k)+(size_t)(n-k);
		emit(vt::J().s("e","Adv").s("t",type).raw("in",jchunks(in)).i("n",n).raw("out",jchunks(chunks_of(r3))).raw("out2",jchunks(chunks_of(r3)))
			.i("bytes",(long long)r3.bytes_count()).b("empty",r3.empty()).str());
	}
}
static void buf_mode(int count,unsigned seed)
{
	vt::rng R(seed);
	int ev=0;
	emit(vt::J().s("e","Reset").s("mode","buf").s("reactor","-").b("owner",true).b("mt",false).b("tiny",false).b("blocking",false).i("x",0).i("variant",0).i("seed",seed).str());
	// exhaustive: up to 3 chunks of size 0..3, every n up to total+1
	for(int nc=0;nc<=3;nc++) {
		int combos=1; for(int i=0;i<nc;i++) combos*=4;
		for(int cmb=0;cmb<combos;cmb++) {
			chunks_t req; int c=cmb; long total=0; long pos=1000;
			for(int i=0;i<nc;i++) { long s=c%4; c/=4; long off= (i%2) ? 2000+10*i : pos; pos+=s+ (i==0 ? 0 : 1); req.push_back(std::make_pair(off,s)); total+=s; }
			for(long n=0;n<=total+1;n++) {
				buf_case<aio::mutable_buffer,char *>(R,req,n,"m");
				if((cmb+n)%3==0) buf_case<aio::const_buffer,char const *>(R,req,n,"c");
				if(++ev%150==0) emit(vt::J().s("e","Reset").s("mode","buf").s("reactor","-").b("owner",true).b("mt",false).b("tiny",false).b("blocking",false).i("x",ev).i("variant",0).i("seed",seed).str());
			}
		}
	}
	// random: up to 24 chunks, boundaries preferred
	for(int it=0;it<count;it++) {
		int nc=R(4)==0 ? R(25) : R(7);
		chunks_t req; long total=0; std::vector<long> sums;
		for(int i=0;i<nc;i++) { long s= R(5)==0 ? 0 : 1+R(9); long off=R(60000); req.push_back(std::make_pair(off,s)); total+=s; sums.push_back(total); }
		long n;
		unsigned c=R(10);
		if(c<5 && !sums.empty()) { n=sums[R((unsigned)sums.size())]+(long)R(3)-1; if(n<0) n=0; }
		else if(c<9) n=R((unsigned)total+2);
		else n=total+R(100);
		if(R(2)) buf_case<aio::mutable_buffer,char *>(R,req,n,"m"); else buf_case<aio::const_buffer,char const *>(R,req,n,"c");
		// concatenation and conversion
		if(R(3)==0) {
			aio::const_buffer a,b2; size_t cut=req.empty()?0:R((unsigned)req.size()+1);
			for(size_t i=0;i<cut;i++) a.add(arena+req[i].first,req[i].second);
			for(size_t i=cut;i<req.size();i++) b2.add(arena+req[i].first,req[i].second);
			aio::const_buffer s1=a+b2; aio::const_buffer s2=a; s2+=b2;
			aio::mutable_buffer m; for(size_t i=0;i<req.size();i++) m.add(arena+req[i].first,req[i].second);
			aio::const_buffer conv(m);
			emit(vt::J().s("e","Cat").raw("a",jchunks(chunks_of(a))).raw("b",jchunks(chunks_of(b2))).raw("out",jchunks(chunks_of(s1))).raw("out2",jchunks(chunks_of(s2)))
				.raw("conv",jchunks(chunks_of(conv))).raw("m",jchunks(chunks_of(m))).str());
		}
		if(++ev%150==0) emit(vt::J().s("e","Reset").s("mode","buf").s("reactor","-").b("owner",true).b("mt",false).b("tiny",false).b("blocking",false).i("x",ev).i("variant",0).i("seed",seed).str());
	}
	// the factory functions
	{
		std::vector<char> v0, v5(5,'x'); std::string s0, s7("1234567");
		aio::mutable_buffer a=aio::buffer(v0), b=aio::buffer(v5);
		std::vector<char> const &cv0=v0; std::vector<char> const &cv5=v5;
		aio::const_buffer c=aio::buffer(cv0), d=aio::buffer(cv5), e=aio::buffer(s0), f=aio::buffer(s7), g=aio::buffer((void const *)arena,0);
		long long cnt[7]={(long long)a.bytes_count(),(long long)b.bytes_count(),(long long)c.bytes_count(),(long long)d.bytes_count(),(long long)e.bytes_count(),(long long)f.bytes_count(),(long long)g.bytes_count()};
		long long want[7]={0,5,0,5,0,7,0};
		bool emp[7]={a.empty(),b.empty(),c.empty(),d.empty(),e.empty(),f.empty(),g.empty()};
		for(int i=0;i<7;i++) emit(vt::J().s("e","Fac").i("i",i).i("bytes",cnt[i]).i("want",want[i]).b("empty",emp[i]).str());
	}
}

int main(int argc,char **argv)
{
	if(argc<5) { fprintf(stderr,"usage: stream_drv <mode> <reactor> <executions> <steps> [variant]\n"); return 2; }
	std::string mode=argv[1]; int reactor=atoi(argv[2]),nexec=atoi(argv[3]),steps=atoi(argv[4]);
	int variant= argc>5 ? atoi(argv[5]) : -1;
	signal(SIGPIPE,SIG_IGN);
	signal(SIGALRM,on_alarm);
	T.open();
	long seed=vt::envl("VERIF_SEED",1);
	if(mode=="buf") { buf_mode(nexec,(unsigned)(seed*2654435761u+17)); T.close(); return 0; }
	bv::open("/dev/null");                 // switches the hooks on; only the listener is used
	bv::st().listener=hook_line;
	(void)reactor_names;
	for(int x=0;x<nexec;x++) {
		int v= variant>=0 ? variant : x%7;
		run_exec(mode,reactor,x,steps,v,(unsigned)(seed*1000003u+x*7919u+reactor*101u+(unsigned)mode.size()*977u));
		if(T.f) fflush(T.f);
	}
	T.close();
	return 0;
}
