// C17 driver (event loop): k producer threads post handlers, arm/cancel timers and I/O waits
// against one running booster::aio::io_service; hooks in io_service.cpp (guard CPPCMS_VERIF)
// emit queue / timer / io / poll events under data_mutex_, this harness emits Reg (before each
// registration) and Run (inside each handler) through the same emitter.
//
// usage: loop_drv <reactor 0..3> <producers> <ops-per-producer> <rounds> <mode: drain|stop>
#include "common/vtrace.h"
#include <booster/verif_trace.h>
#include <booster/aio/io_service.h>
#include <booster/aio/deadline_timer.h>
#include <booster/aio/stream_socket.h>
#include <booster/aio/reactor.h>
#include <booster/aio/aio_category.h>
#include <booster/aio/types.h>
#include <booster/posix_time.h>
#include <booster/thread.h>
#include <booster/system_error.h>
#include <sys/socket.h>
#include <unistd.h>
#include <malloc.h>
#include <fcntl.h>
#include <atomic>
#include <vector>
#include <deque>

namespace bv = booster::verif;
namespace aio = booster::aio;
using booster::ptime;

static aio::io_service *srv;
static std::atomic<int> next_h(0);
static std::atomic<long> ran_count(0), reg_count(0);
static std::atomic<long> progress(0);
static long long base_ms;

static int canceled_code() { return booster::system::error_code(aio::aio_error::canceled,aio::aio_error_cat).value(); }

struct hstate { std::atomic<int> runs; hstate() : runs(0) {} };
static std::deque<hstate> hstates;   // indexed by handler id; sized up-front

struct ev_handler {
	int h;
	void operator()(booster::system::error_code const &e) const
	{
		int cls = !e ? 0 : (e.category()==aio::aio_error_cat && e.value()==aio::aio_error::canceled ? 1 : 2);
		bv::emit("\"e\":\"Run\",\"h\":%d,\"ec\":%d,\"cls\":%d,\"t\":%ld",h,e.value(),cls,(long)(ptime::milliseconds(ptime::now())-base_ms));
		hstates[h].runs++;
		ran_count++; progress++;
	}
};
struct plain_handler {
	int h;
	void operator()() const
	{
		bv::emit("\"e\":\"Run\",\"h\":%d,\"ec\":0,\"cls\":0,\"t\":%ld",h,(long)(ptime::milliseconds(ptime::now())-base_ms));
		hstates[h].runs++;
		ran_count++; progress++;
	}
};

static void slow_seen_set(int h);
// a handler that keeps the loop thread busy (mode burst)
struct slow_handler {
	int h,ms;
	void operator()() const
	{
		bv::emit("\"e\":\"Run\",\"h\":%d,\"ec\":0,\"cls\":0,\"t\":%ld",h,(long)(ptime::milliseconds(ptime::now())-base_ms));
		slow_seen_set(h);
		usleep(ms*1000);
		hstates[h].runs++;
		ran_count++; progress++;
	}
};

static unsigned long pid_of(void const *p) { return (unsigned long)((size_t)p & 0x3FFFFFFF); }

struct producer {
	int id,nops; unsigned seed;
	std::vector<aio::event_handler> *keep; std::vector<aio::handler> *keep2;
	void operator()() const
	{
		vt::rng R(seed);
		int sp[2]; socketpair(AF_UNIX,SOCK_STREAM,0,sp);
		fcntl(sp[0],F_SETFL,O_NONBLOCK); fcntl(sp[1],F_SETFL,O_NONBLOCK);
		int in_h=-1, out_h=-1;          // currently armed handlers on sp[0]
		std::vector<std::pair<int,int> > timers; // (timer id, handler)
		bv::emit("\"e\":\"Fd\",\"fd\":%d,\"peer\":%d",sp[0],sp[1]);
		for(int n=0;n<nops;n++) {
			unsigned c=R(100);
			if(in_h>=0 && hstates[in_h].runs.load()>0) { char b[64]; while(read(sp[0],b,sizeof(b))>0); in_h=-1; }
			if(out_h>=0 && hstates[out_h].runs.load()>0) out_h=-1;
			if(c<30) {
				int h=next_h++; plain_handler f={h}; aio::handler hh(f); keep2->push_back(hh);
				bv::emit("\"e\":\"Reg\",\"h\":%d,\"p\":%lu,\"kind\":\"post\"",h,pid_of(hh.get_pointer().get()));
				reg_count++;
				srv->post(hh);
			}
			else if(c<38) {
				int h=next_h++; ev_handler f={h}; aio::event_handler eh(f); keep->push_back(eh);
				bv::emit("\"e\":\"Reg\",\"h\":%d,\"p\":%lu,\"kind\":\"post\"",h,pid_of(eh.get_pointer().get()));
				reg_count++;
				srv->post(eh,booster::system::error_code());
			}
			else if(c<62) {
				int h=next_h++; ev_handler f={h}; aio::event_handler eh(f); keep->push_back(eh);
				int off = (int)R(6) - 2;      // -2 .. +3 ms: past, now, equal and near-future deadlines
				if(R(10)==0) off = 200;
				bv::emit("\"e\":\"Reg\",\"h\":%d,\"p\":%lu,\"kind\":\"timer\"",h,pid_of(eh.get_pointer().get()));
				reg_count++;
				// EXACTLY equal deadlines (the same time point re-used): timers that share a deadline live under one key of
				// the loop's timer index - cancelling or firing one of them must not touch the others
				static thread_local ptime last_point = ptime::now();
				ptime point = ptime::now()+ptime::milliseconds(off);
				if(R(2)==0 && off>=0) point = last_point > ptime::now() ? last_point : point; else if(off>0) last_point = point;
				int id=srv->set_timer_event(point,eh);
				timers.push_back(std::make_pair(id,h));
			}
			else if(c<74) {
				if(!timers.empty()) {
					size_t i=R(timers.size());
					// cancel racing with expiry: sometimes wait until around the deadline
					if(R(2)) usleep(500+R(2500));
					if(hstates[timers[i].second].runs.load()==0)      // never cancel an id that may have been re-used
						srv->cancel_timer_event(timers[i].first);
					timers.erase(timers.begin()+i);
				}
			}
			else if(c<84) {
				if(in_h<0) {
					int h=next_h++; ev_handler f={h}; aio::event_handler eh(f); keep->push_back(eh);
					bv::emit("\"e\":\"Reg\",\"h\":%d,\"p\":%lu,\"kind\":\"io\",\"fd\":%d,\"ev\":%d",h,pid_of(eh.get_pointer().get()),sp[0],(int)aio::io_events::in);
					reg_count++;
					srv->set_io_event(sp[0],aio::io_events::in,eh);
					in_h=h;
					if(R(3)) { if(R(2)) usleep(R(1500)); char ch='x'; ssize_t w=write(sp[1],&ch,1); (void)w; }
				}
				else { char ch='y'; ssize_t w=write(sp[1],&ch,1); (void)w; }
			}
			else if(c<90) {
				if(out_h<0) {
					int h=next_h++; ev_handler f={h}; aio::event_handler eh(f); keep->push_back(eh);
					bv::emit("\"e\":\"Reg\",\"h\":%d,\"p\":%lu,\"kind\":\"io\",\"fd\":%d,\"ev\":%d",h,pid_of(eh.get_pointer().get()),sp[0],(int)aio::io_events::out);
					reg_count++;
					srv->set_io_event(sp[0],aio::io_events::out,eh);
					out_h=h;
				}
			}
			else if(c<96) {
				if(in_h>=0 || out_h>=0) {
					if(R(2)) usleep(R(1000));
					srv->cancel_io_events(sp[0]);
					// wait until the cancelled / fired handlers ran before the descriptor is armed again
					for(int spin=0;spin<100000;spin++) {
						bool a = in_h<0 || hstates[in_h].runs.load()>0;
						bool b = out_h<0 || hstates[out_h].runs.load()>0;
						if(a && b) break;
						usleep(100);
					}
					if((in_h<0 || hstates[in_h].runs.load()>0) && (out_h<0 || hstates[out_h].runs.load()>0)) {
						char b[64]; while(read(sp[0],b,sizeof(b))>0);
						in_h=out_h=-1;
					}
					else break; // stuck: leave it to the quiesce check
				}
			}
			else usleep(R(800));
			progress++;
		}
		// end of round for this producer: cancel what is still armed so that every handler must run
		for(size_t i=0;i<timers.size();i++)
			if(hstates[timers[i].second].runs.load()==0)
				srv->cancel_timer_event(timers[i].first);
		srv->cancel_io_events(sp[0]);
		for(int spin=0;spin<100000;spin++) {
			bool a = in_h<0 || hstates[in_h].runs.load()>0;
			bool b = out_h<0 || hstates[out_h].runs.load()>0;
			if(a && b) break;
			usleep(100);
		}
		close(sp[0]); close(sp[1]);
	}
};

// one registration at a time against an idle (polling) loop: each must run promptly - a lost wake-up
// would leave the handler pending until the 1 h poll time-out
static bool pingpong(int nops,unsigned seed,std::vector<aio::event_handler> &keep,std::vector<aio::handler> &keep2)
{
	vt::rng R(seed);
	int sp[2]; socketpair(AF_UNIX,SOCK_STREAM,0,sp);
	bv::emit("\"e\":\"Fd\",\"fd\":%d,\"peer\":%d",sp[0],sp[1]);
	bool ok=true;
	for(int n=0;n<nops && ok;n++) {
		usleep(300+R(1500));     // let the loop go back to sleep
		int h=next_h++; unsigned c=R(4);
		if(c==0) {
			plain_handler f={h}; aio::handler hh(f); keep2.push_back(hh);
			bv::emit("\"e\":\"Reg\",\"h\":%d,\"p\":%lu,\"kind\":\"post\"",h,pid_of(hh.get_pointer().get()));
			reg_count++; srv->post(hh);
		}
		else if(c==1) {
			ev_handler f={h}; aio::event_handler eh(f); keep.push_back(eh);
			bv::emit("\"e\":\"Reg\",\"h\":%d,\"p\":%lu,\"kind\":\"timer\"",h,pid_of(eh.get_pointer().get()));
			reg_count++; srv->set_timer_event(ptime::now()+ptime::milliseconds(R(3)),eh);
		}
		else if(c==2) {
			ev_handler f={h}; aio::event_handler eh(f); keep.push_back(eh);
			bv::emit("\"e\":\"Reg\",\"h\":%d,\"p\":%lu,\"kind\":\"io\",\"fd\":%d,\"ev\":%d",h,pid_of(eh.get_pointer().get()),sp[0],(int)aio::io_events::out);
			reg_count++; srv->set_io_event(sp[0],aio::io_events::out,eh);
		}
		else {
			ev_handler f={h}; aio::event_handler eh(f); keep.push_back(eh);
			bv::emit("\"e\":\"Reg\",\"h\":%d,\"p\":%lu,\"kind\":\"timer\"",h,pid_of(eh.get_pointer().get()));
			reg_count++; int id=srv->set_timer_event(ptime::now()+ptime::milliseconds(60000),eh);
			usleep(300+R(1000));
			srv->cancel_timer_event(id);
		}
		ok=false;
		for(int spin=0;spin<100000;spin++) { if(hstates[h].runs.load()>0) { ok=true; break; } usleep(100); }
		progress++;
	}
	close(sp[0]); close(sp[1]);
	return ok;
}

// set_io_event immediately followed by cancel_io_events from a producer thread while a second
// producer keeps the loop cycling between poll and dispatch: the handler must run (canceled or ready)
static std::atomic<bool> race_done(false), race_slow(false);
struct race_poster {
	std::vector<aio::handler> *keep2; unsigned seed;
	void operator()() const
	{
		vt::rng R(seed);
		while(!race_done.load()) {
			int h=next_h++; plain_handler f={h}; aio::handler hh(f); keep2->push_back(hh);
			bv::emit("\"e\":\"Reg\",\"h\":%d,\"p\":%lu,\"kind\":\"post\"",h,pid_of(hh.get_pointer().get()));
			reg_count++; srv->post(hh);
			usleep(race_slow.load() ? 50000 : R(120));
		}
	}
};
static void cancelrace(int nops,unsigned seed,std::vector<aio::event_handler> &keep)
{
	vt::rng R(seed);
	int sp[2]; socketpair(AF_UNIX,SOCK_STREAM,0,sp);
	bv::emit("\"e\":\"Fd\",\"fd\":%d,\"peer\":%d",sp[0],sp[1]);
	for(int n=0;n<nops;n++) {
		int h=next_h++; ev_handler f={h}; aio::event_handler eh(f); keep.push_back(eh);
		bv::emit("\"e\":\"Reg\",\"h\":%d,\"p\":%lu,\"kind\":\"io\",\"fd\":%d,\"ev\":%d",h,pid_of(eh.get_pointer().get()),sp[0],(int)aio::io_events::in);
		reg_count++;
		srv->set_io_event(sp[0],aio::io_events::in,eh);
		{ // busy-wait 0..120 us so that the cancel lands around the moment the loop picks the setter up
			long long until=ptime::microseconds(ptime::now())+R(120);
			while(ptime::microseconds(ptime::now())<until) ;
		}
		srv->cancel_io_events(sp[0]);
		bool ok=false;
		for(int spin=0;spin<100000;spin++) { if(hstates[h].runs.load()>0) { ok=true; break; } if(spin==200) race_slow=true; usleep(100); }
		race_slow=false;
		if(!ok) break;
		progress++;
	}
	close(sp[0]); close(sp[1]);
}

// close racing with cancellation (what basic_io_device::close() does: cancel_io_events then ::close at once),
// followed by a new socket that gets the same descriptor number: every handler must still run exactly once
static void closerace(int nops,unsigned seed,std::vector<aio::event_handler> &keep)
{
	vt::rng R(seed);
	for(int n=0;n<nops;n++) {
		int sp[2]; socketpair(AF_UNIX,SOCK_STREAM,0,sp);
		fcntl(sp[0],F_SETFL,O_NONBLOCK);
		bv::emit("\"e\":\"Fd\",\"fd\":%d,\"peer\":%d",sp[0],sp[1]);
		int hs[2]={-1,-1}; int cnt=0;
		unsigned what=R(3);   // 0: in, 1: out, 2: both
		for(int dir=0;dir<2;dir++) {
			if(what!=2 && int(what)!=dir) continue;
			int h=next_h++; ev_handler f={h}; aio::event_handler eh(f); keep.push_back(eh);
			int ev = dir==0 ? (int)aio::io_events::in : (int)aio::io_events::out;
			bv::emit("\"e\":\"Reg\",\"h\":%d,\"p\":%lu,\"kind\":\"io\",\"fd\":%d,\"ev\":%d",h,pid_of(eh.get_pointer().get()),sp[0],ev);
			reg_count++;
			srv->set_io_event(sp[0],ev,eh);
			hs[cnt++]=h;
		}
		bool made_ready = R(3)==0;
		if(made_ready) { char ch='x'; ssize_t w=write(sp[1],&ch,1); (void)w; }
		if((what==1 || (what==0 && made_ready)) && R(2)) {
			// the event really happens (a socket is always writeable / a byte is waiting): the handler has to be
			// invoked with success without any cancel - also on a descriptor number that was used and closed before
			bool fired=false;
			for(int spin=0;spin<100000;spin++) { if(hstates[hs[0]].runs.load()>0) { fired=true; break; } usleep(100); }
			if(!fired) break;
		}
		if(R(2)) { long long until=ptime::microseconds(ptime::now())+R(150); while(ptime::microseconds(ptime::now())<until) ; }
		srv->cancel_io_events(sp[0]);
		close(sp[0]); close(sp[1]);          // at once: the cancel may still be queued
		bool ok=false;
		for(int spin=0;spin<100000;spin++) {
			ok=true; for(int i=0;i<cnt;i++) if(hstates[hs[i]].runs.load()==0) ok=false;
			if(ok) break; usleep(100);
		}
		if(!ok) break;
		progress++;
	}
}

// registrations the back-end REFUSES (epoll: a regular file -> EPERM, a closed descriptor -> EBADF; select: a descriptor
// number >= FD_SETSIZE; any: a negative descriptor): the handler is invoked once with the error, and a cancel / close of
// that descriptor afterwards must not invoke it again.
static void badfd(int nops,unsigned seed,std::vector<aio::event_handler> &keep,std::vector<aio::handler> &keep2)
{
	vt::rng R(seed);
	{
		// the loop must be up (its wake-up pipe opened) before descriptor NUMBERS of closed descriptors are handed to it:
		// otherwise the loop opens its own pipe under such a number and the stale registration hits the pipe
		int h0=next_h++; plain_handler pf={h0}; aio::handler ph(pf); keep2.push_back(ph);
		bv::emit("\"e\":\"Reg\",\"h\":%d,\"p\":%lu,\"kind\":\"post\"",h0,pid_of(ph.get_pointer().get()));
		reg_count++; srv->post(ph);
		for(int spin=0;spin<300000 && hstates[h0].runs.load()==0;spin++) usleep(100);
	}
	for(int n=0;n<nops;n++) {
		int fd=-1; bool close_after=false;
		unsigned kind=R(4);
		// the select back-end cannot refuse a closed descriptor number at registration time (its select() call fails later
		// and run() throws): arming a wait on a descriptor that is already closed is a usage error there, not driven
		if(kind==1 && srv->reactor_name()=="select") kind=3;
		if(kind==0) { fd=open("/proc/self/exe",O_RDONLY); close_after=true; }                       // regular file
		else if(kind==1) { int sp[2]; socketpair(AF_UNIX,SOCK_STREAM,0,sp); fd=sp[0]; close(sp[0]); close(sp[1]); }  // closed number
		else if(kind==2) { int sp[2]; socketpair(AF_UNIX,SOCK_STREAM,0,sp); fd=dup2(sp[0],1100+R(50)); close(sp[0]); close(sp[1]); close_after=true; } // beyond FD_SETSIZE
		else fd=-1;
		bv::emit("\"e\":\"Fd\",\"fd\":%d,\"peer\":%d",fd,-1);
		int h=next_h++; ev_handler f={h}; aio::event_handler eh(f); keep.push_back(eh);
		int ev = R(2) ? (int)aio::io_events::in : (int)aio::io_events::out;
		bv::emit("\"e\":\"Reg\",\"h\":%d,\"p\":%lu,\"kind\":\"io\",\"fd\":%d,\"ev\":%d",h,pid_of(eh.get_pointer().get()),fd,ev);
		reg_count++;
		srv->set_io_event(fd,ev,eh);
		if(R(2)) { for(int spin=0;spin<300 && hstates[h].runs.load()==0;spin++) usleep(100); }
		srv->cancel_io_events(fd);
		for(int spin=0;spin<100000 && hstates[h].runs.load()==0;spin++) usleep(100);
		if(hstates[h].runs.load()==0) break;
		// give a second (wrong) invocation the chance to show up before the next round re-uses the number
		int hp=next_h++; plain_handler pf={hp}; aio::handler ph(pf); keep2.push_back(ph);   // kept: its address must not be re-used
		bv::emit("\"e\":\"Reg\",\"h\":%d,\"p\":%lu,\"kind\":\"post\"",hp,pid_of(ph.get_pointer().get()));
		reg_count++; srv->post(ph);
		for(int spin=0;spin<100000 && hstates[hp].runs.load()==0;spin++) usleep(100);
		if(close_after && fd>=0) close(fd);
		progress++;
	}
}

// booster::aio::basic_io_device (stream_socket) closed / re-attached while a wait is pending: "closed first" must invoke the
// handler exactly once with the cancellation code - for descriptors the device owns (assign) AND for descriptors it does
// not own (attach, assign + release), on close() and when another descriptor is attached / assigned over it.
static void devclose(int nops,unsigned seed,std::vector<aio::event_handler> &keep)
{
	vt::rng R(seed);
	for(int n=0;n<nops;n++) {
		int sp[2]; socketpair(AF_UNIX,SOCK_STREAM,0,sp);
		int sq[2]; socketpair(AF_UNIX,SOCK_STREAM,0,sq);
		bv::emit("\"e\":\"Fd\",\"fd\":%d,\"peer\":%d",sp[0],sp[1]);
		aio::stream_socket dev(*srv);
		unsigned own=R(3);    // 0: attach (not owned), 1: assign (owned), 2: assign + release() later
		if(own==0) dev.attach(sp[0]); else dev.assign(sp[0]);
		int hs[2]={-1,-1}; int cnt=0;
		unsigned what=R(3);   // 0: readable, 1: writeable (fires at once), 2: both
		for(int dir=0;dir<2;dir++) {
			if(what!=2 && int(what)!=dir) continue;
			int h=next_h++; ev_handler f={h}; aio::event_handler eh(f); keep.push_back(eh);
			int ev = dir==0 ? (int)aio::io_events::in : (int)aio::io_events::out;
			bv::emit("\"e\":\"Reg\",\"h\":%d,\"p\":%lu,\"kind\":\"io\",\"fd\":%d,\"ev\":%d",h,pid_of(eh.get_pointer().get()),sp[0],ev);
			reg_count++;
			if(dir==0) dev.on_readable(eh); else dev.on_writeable(eh);
			hs[cnt++]=h;
		}
		if(R(4)==0) { char ch='x'; ssize_t w=write(sp[1],&ch,1); (void)w; }   // sometimes the event really happens first
		if(R(2)) usleep(R(300));
		unsigned how=R(3);    // 0: close(), 1: attach another descriptor over it, 2: assign another descriptor over it
		bool owned_now = own==1;
		if(own==2) dev.release();       // the device keeps the descriptor but no longer owns it
		booster::system::error_code e;
		if(how==0) dev.close(e);
		else if(how==1) dev.attach(sq[0]);
		else dev.assign(sq[0]);
		bool ok=false;
		for(int spin=0;spin<100000;spin++) {
			ok=true; for(int i=0;i<cnt;i++) if(hstates[hs[i]].runs.load()==0) ok=false;
			if(ok) break; usleep(100);
		}
		// tidy up whatever is still open (the device closed what it owned)
		if(how==2) { dev.close(e); } else if(how==1) { dev.release(); close(sq[0]); } else close(sq[0]);
		if(!owned_now) close(sp[0]);
		close(sp[1]); close(sq[1]);
		if(!ok) break;
		progress++;
	}
}

// booster::aio::deadline_timer used the way applications do: a periodic timer whose handler re-arms the same
// timer object from inside itself, cancelled later.  Everything runs on the loop thread (posted functors).
struct dt_ctx {
	aio::deadline_timer *t; int left; int cur_h; long cur_dl; std::vector<aio::event_handler> *keep;
};
static dt_ctx dts[4];
static void dt_arm(int i,int ms);
struct dt_handler {
	int i,h; long dl;
	void operator()(booster::system::error_code const &e) const
	{
		int cls = !e ? 0 : (e.category()==aio::aio_error_cat && e.value()==aio::aio_error::canceled ? 1 : 2);
		bv::emit("\"e\":\"Run\",\"h\":%d,\"ec\":%d,\"cls\":%d,\"t\":%ld,\"dl\":%ld",h,e.value(),cls,(long)(ptime::milliseconds(ptime::now())-base_ms),dl);
		hstates[h].runs++; ran_count++; progress++;
		if(!e && dts[i].left>0) { dts[i].left--; dt_arm(i, dts[i].left==0 ? 60000 : 1+ (h%3)); }   // the last wait is far away: only cancel() ends it
	}
};
static void dt_arm(int i,int ms)
{
	int h=next_h++; long dl=(long)(ptime::milliseconds(ptime::now())-base_ms)+ms;
	dt_handler f={i,h,dl}; aio::event_handler eh(f); dts[i].keep->push_back(eh);
	bv::emit("\"e\":\"Reg\",\"h\":%d,\"p\":%lu,\"kind\":\"dtimer\",\"dl\":%ld",h,pid_of(eh.get_pointer().get()),dl);
	reg_count++;
	dts[i].cur_h=h; dts[i].cur_dl=dl;
	dts[i].t->expires_from_now(ptime::milliseconds(ms));
	dts[i].t->async_wait(eh);
}
struct dt_start { int i,chain; void operator()() const { dts[i].left=chain; dt_arm(i,1); } };
struct dt_cancel { int i; void operator()() const { bv::emit("\"e\":\"DCancel\",\"h\":%d",dts[i].cur_h); dts[i].t->cancel(); } };

struct loop_runner {
	void operator()() const
	{
		bv::emit("\"e\":\"LoopThread\"");
		try { srv->run(); }
		catch(std::exception const &e) { bv::emit("\"e\":\"Died\",\"why\":\"exception\""); }
		bv::emit("\"e\":\"LoopExit\"");
	}
};

static booster::thread *th_burst;
static std::atomic<int> slow_seen(-1);
static bool slow_started(int h) { return slow_seen.load()==h; }
static void slow_seen_set(int h) { slow_seen=h; }

int main(int argc,char **argv)
{
	if(argc<6) return 2;
	// callables are identified in the trace by the low 30 bits of their address (TLC integers are 32 bit): keep every
	// small allocation in ONE malloc arena, otherwise objects of different threads' arenas can share those bits
	mallopt(M_ARENA_MAX,1);
	int reactor=atoi(argv[1]),producers=atoi(argv[2]),nops=atoi(argv[3]),rounds=atoi(argv[4]);
	std::string mode=argv[5];
	char const *out=getenv("VERIF_OUT"); if(!out) return 2;
	unlink(out); bv::open(out);
	base_ms=ptime::milliseconds(ptime::now());
	long seed=vt::envl("VERIF_SEED",1);
	hstates.resize((size_t)rounds*(producers+1)*nops*(mode=="cancelrace"?40:(mode=="closerace"||mode=="devclose"||mode=="badfd"?3:(mode=="eqtimers"?6:(mode=="restart"?2:(mode=="burst"?300:1)))))+16);
	for(int r=0;r<rounds;r++) {
		srv=new aio::io_service(reactor);
		ran_count=0; reg_count=0;
		bv::emit("\"e\":\"Reset\",\"reactor\":\"%s\",\"canceled\":%d,\"mode\":\"%s\",\"producers\":%d",srv->reactor_name().c_str(),canceled_code(),mode.c_str(),producers);
		std::vector<std::vector<aio::event_handler> > keep(producers);
		std::vector<std::vector<aio::handler> > keep2(producers);
		if(mode=="prestart") {
			// operations queued before the loop runs for the first time, on a descriptor that is closed at once:
			// its number goes to the loop's own wake-up pipe; afterwards a post from another thread must still wake the loop
			for(int n=0;n<nops;n++) {
				int sp[2]; socketpair(AF_UNIX,SOCK_STREAM,0,sp);
				bv::emit("\"e\":\"Fd\",\"fd\":%d,\"peer\":%d",sp[0],sp[1]);
				int h=next_h++; ev_handler f={h}; aio::event_handler eh(f); keep[0].push_back(eh);
				int ev = (n+r)%2 ? (int)aio::io_events::out : (int)aio::io_events::in;
				bv::emit("\"e\":\"Reg\",\"h\":%d,\"p\":%lu,\"kind\":\"io\",\"fd\":%d,\"ev\":%d",h,pid_of(eh.get_pointer().get()),sp[0],ev);
				reg_count++;
				srv->set_io_event(sp[0],ev,eh);
				srv->cancel_io_events(sp[0]);
				close(sp[0]); close(sp[1]);
			}
			booster::thread loop2((loop_runner()));
			usleep(30000);
			for(int n=0;n<3;n++) {
				int h=next_h++; plain_handler f={h}; aio::handler hh(f); keep2[0].push_back(hh);
				bv::emit("\"e\":\"Reg\",\"h\":%d,\"p\":%lu,\"kind\":\"post\"",h,pid_of(hh.get_pointer().get()));
				reg_count++; srv->post(hh);
				for(int spin=0;spin<100000 && hstates[h].runs.load()==0;spin++) usleep(100);
				usleep(2000);
			}
			bv::emit("\"e\":\"Quiesce\",\"reg\":%ld,\"ran\":%ld",reg_count.load(),ran_count.load());
			if(ran_count.load()<reg_count.load()) { bv::close(); _exit(0); } // a loop that lost handlers may never stop: do not join it
			srv->stop();
			loop2.join();
			keep.clear(); keep2.clear();
			delete srv; srv=0;
			continue;
		}
		if(mode=="burst") {
			// exactly N wake-ups pile up in the loop's wake-up pipe while the loop thread sits in a slow handler:
			// a slow handler and one descriptor wait are queued BEFORE run() (so a deferred operation is pending while the
			// slow handler runs and every set_io_event from another thread is deferred + writes one wake-up byte);
			// N = 1, 63, 64, 65, 127, 128, 129, 192, 256 (multiples of the interrupter's read size included)
			static const int Ns[]={64,1,63,65,128,127,129,192,256};
			int N=Ns[r%9];
			std::vector<int> fds,peers;
			for(int n=0;n<=N;n++) { int sp[2]; if(socketpair(AF_UNIX,SOCK_STREAM,0,sp)<0) { N=n-1; break; } fds.push_back(sp[0]); peers.push_back(sp[1]); bv::emit("\"e\":\"Fd\",\"fd\":%d,\"peer\":%d",sp[0],sp[1]); }
			bv::emit("\"e\":\"Burst\",\"n\":%d",N);
			int hs=next_h++; slow_handler sf={hs,60}; aio::handler sh(sf); keep2[0].push_back(sh);
			bv::emit("\"e\":\"Reg\",\"h\":%d,\"p\":%lu,\"kind\":\"post\"",hs,pid_of(sh.get_pointer().get()));
			reg_count++; srv->post(sh);
			for(int n=0;n<=N;n++) {
				if(n==1) {
					// the first wait is queued before run(); the others while the loop is inside the slow handler
					booster::thread *lt=new booster::thread((loop_runner())); th_burst=lt;
					for(int spin=0;spin<100000 && !slow_started(hs);spin++) usleep(100);
					usleep(3000);
				}
				int h=next_h++; ev_handler f={h}; aio::event_handler eh(f); keep[0].push_back(eh);
				bv::emit("\"e\":\"Reg\",\"h\":%d,\"p\":%lu,\"kind\":\"io\",\"fd\":%d,\"ev\":%d",h,pid_of(eh.get_pointer().get()),fds[n],(int)aio::io_events::in);
				reg_count++;
				srv->set_io_event(fds[n],aio::io_events::in,eh);
			}
			if(N==0) { th_burst=new booster::thread((loop_runner())); }
			for(size_t n=0;n<peers.size();n++) { char c='x'; if(write(peers[n],&c,1)<0) {} }
			for(int n=0;n<3;n++) {
				int h=next_h++; plain_handler f={h}; aio::handler hh(f); keep2[0].push_back(hh);
				bv::emit("\"e\":\"Reg\",\"h\":%d,\"p\":%lu,\"kind\":\"post\"",h,pid_of(hh.get_pointer().get()));
				reg_count++; srv->post(hh);
			}
			for(int spin=0;spin<100000 && ran_count.load()<reg_count.load();spin++) usleep(100);
			bv::emit("\"e\":\"Quiesce\",\"reg\":%ld,\"ran\":%ld",reg_count.load(),ran_count.load());
			if(ran_count.load()<reg_count.load()) { bv::close(); _exit(0); } // a stuck loop holds its mutex: stop() would block too
			srv->stop();
			th_burst->join(); delete th_burst; th_burst=0;
			for(size_t n=0;n<fds.size();n++) { close(fds[n]); close(peers[n]); }
			keep.clear(); keep2.clear();
			delete srv; srv=0;
			continue;
		}
		booster::thread loop((loop_runner()));
		std::vector<booster::thread *> th;
		if(mode=="restart") {
			// run, stop from another thread while the loop is idle in poll, reset(), run again: handlers given to the
			// restarted loop from other threads must still be woken up and run
			usleep(2000);
			pingpong(nops,seed*37+r*11+reactor,keep[0],keep2[0]);
			usleep(3000);
			srv->stop();
			loop.join();
			bv::emit("\"e\":\"Restart\"");
			srv->reset();
			booster::thread loop2((loop_runner()));
			usleep(3000);
			pingpong(nops,seed*41+r*13+reactor,keep[0],keep2[0]);
			bv::emit("\"e\":\"Quiesce\",\"reg\":%ld,\"ran\":%ld",reg_count.load(),ran_count.load());
			if(ran_count.load()<reg_count.load()) { bv::close(); _exit(0); }
			srv->stop();
			loop2.join();
			keep.clear(); keep2.clear();
			delete srv; srv=0;
			continue;
		}
		if(mode=="dtimer") {
			int nt = producers>4 ? 4 : producers;
			for(int i=0;i<nt;i++) { dts[i].t=new aio::deadline_timer(*srv); dts[i].keep=&keep[0]; dt_start st={i,1+(int)((seed+r+i)%nops)}; srv->post(st); }
			usleep(30000 + 3000*nops);
			for(int i=0;i<nt;i++) { dt_cancel dc={i}; srv->post(dc); }
			for(int spin=0;spin<100000 && ran_count.load()<reg_count.load();spin++) usleep(100);
			bv::emit("\"e\":\"Quiesce\",\"reg\":%ld,\"ran\":%ld",reg_count.load(),ran_count.load());
			if(ran_count.load()<reg_count.load()) { bv::close(); _exit(0); }
			srv->stop();
			loop.join();
			for(int i=0;i<nt;i++) delete dts[i].t;
			keep.clear(); keep2.clear();
			delete srv; srv=0;
			continue;
		}
		if(mode=="eqtimers") {
			// groups of 2..5 timers armed for EXACTLY the same time point; one (or two) of them cancelled before expiry,
			// from this thread while the loop polls: the cancelled ones complete with the cancellation code, every other
			// timer of the group still fires (not before the deadline)
			vt::rng R(seed*43+r*5+reactor);
			usleep(1000);
			for(int n=0;n<nops;n++) {
				int g=2+R(4); ptime point=ptime::now()+ptime::milliseconds(8+R(25));
				std::vector<std::pair<int,int> > ids;
				for(int i=0;i<g;i++) {
					int h=next_h++; ev_handler f={h}; aio::event_handler eh(f); keep[0].push_back(eh);
					bv::emit("\"e\":\"Reg\",\"h\":%d,\"p\":%lu,\"kind\":\"timer\"",h,pid_of(eh.get_pointer().get()));
					reg_count++;
					ids.push_back(std::make_pair(srv->set_timer_event(point,eh),h));
				}
				int victim=R(g);
				if(R(3)) usleep(R(3000));
				if(hstates[ids[victim].second].runs.load()==0) srv->cancel_timer_event(ids[victim].first);
				if(g>3 && R(2)) { int v2=(victim+1+R(g-1))%g; if(hstates[ids[v2].second].runs.load()==0) srv->cancel_timer_event(ids[v2].first); }
				bool ok=false;
				for(int spin=0;spin<30000;spin++) { ok=true; for(int i=0;i<g;i++) if(hstates[ids[i].second].runs.load()==0) ok=false; if(ok) break; usleep(100); }
				if(!ok) break;
				progress++;
			}
			bv::emit("\"e\":\"Quiesce\",\"reg\":%ld,\"ran\":%ld",reg_count.load(),ran_count.load());
			if(ran_count.load()<reg_count.load()) { bv::close(); _exit(0); }
			srv->stop();
			loop.join();
			keep.clear(); keep2.clear();
			delete srv; srv=0;
			continue;
		}
		if(mode=="badfd") {
			usleep(1000);
			badfd(nops,seed*29+r*3+reactor,keep[0],keep2[0]);
			usleep(2000);
			bv::emit("\"e\":\"Quiesce\",\"reg\":%ld,\"ran\":%ld",reg_count.load(),ran_count.load());
			if(ran_count.load()<reg_count.load()) { bv::close(); _exit(0); }
			srv->stop();
			loop.join();
			keep.clear(); keep2.clear();
			delete srv; srv=0;
			continue;
		}
		if(mode=="devclose") {
			usleep(1000);
			devclose(nops,seed*23+r*7+reactor,keep[0]);
			for(int spin=0;spin<100000 && ran_count.load()<reg_count.load();spin++) usleep(100);
			bv::emit("\"e\":\"Quiesce\",\"reg\":%ld,\"ran\":%ld",reg_count.load(),ran_count.load());
			if(ran_count.load()<reg_count.load()) { bv::close(); _exit(0); }
			srv->stop();
			loop.join();
			keep.clear(); keep2.clear();
			delete srv; srv=0;
			continue;
		}
		if(mode=="closerace") {
			usleep(1000);
			closerace(nops,seed*19+r*5+reactor,keep[0]);
			for(int spin=0;spin<100000 && ran_count.load()<reg_count.load();spin++) usleep(100);
			bv::emit("\"e\":\"Quiesce\",\"reg\":%ld,\"ran\":%ld",reg_count.load(),ran_count.load());
			if(ran_count.load()<reg_count.load()) { bv::close(); _exit(0); } // a loop that lost handlers may never stop: do not join it
			srv->stop();
			loop.join();
			keep.clear(); keep2.clear();
			delete srv; srv=0;
			continue;
		}
		if(mode=="cancelrace") {
			race_done=false;
			race_poster rp; rp.keep2=&keep2[0]; rp.seed=seed*13+r;
			booster::thread pt(rp);
			cancelrace(nops,seed*17+r*3+reactor,keep[0]);
			race_done=true; pt.join();
			for(int spin=0;spin<100000 && ran_count.load()<reg_count.load();spin++) usleep(100);
			bv::emit("\"e\":\"Quiesce\",\"reg\":%ld,\"ran\":%ld",reg_count.load(),ran_count.load());
			if(ran_count.load()<reg_count.load()) { bv::close(); _exit(0); } // a loop that lost handlers may never stop: do not join it
			srv->stop();
			loop.join();
			keep.clear(); keep2.clear();
			delete srv; srv=0;
			continue;
		}
		if(mode=="pingpong") {
			usleep(2000);
			pingpong(nops,seed*31+r*7+reactor,keep[0],keep2[0]);
			bv::emit("\"e\":\"Quiesce\",\"reg\":%ld,\"ran\":%ld",reg_count.load(),ran_count.load());
			if(ran_count.load()<reg_count.load()) { bv::close(); _exit(0); } // a loop that lost handlers may never stop: do not join it
			srv->stop();
			loop.join();
			keep.clear(); keep2.clear();
			delete srv; srv=0;
			continue;
		}
		for(int i=0;i<producers;i++) {
			producer p; p.id=i; p.nops=nops; p.seed=seed*104729+r*1009+i*31+reactor; p.keep=&keep[i]; p.keep2=&keep2[i];
			th.push_back(new booster::thread(p));
		}
		if(mode=="stop") {
			// stop racing with post: stop the loop while producers are still active
			usleep(2000+ (seed*7+r*13)%3000);
			srv->stop();
			for(int i=0;i<producers;i++) { th[i]->join(); delete th[i]; }
			loop.join();
			bv::emit("\"e\":\"Stopped\",\"reg\":%ld,\"ran\":%ld",reg_count.load(),ran_count.load());
		}
		else {
			for(int i=0;i<producers;i++) { th[i]->join(); delete th[i]; }
			// quiesce: every registered handler must have run (the loop keeps running)
			for(int spin=0;spin<100000 && ran_count.load()<reg_count.load();spin++) usleep(100);
			bv::emit("\"e\":\"Quiesce\",\"reg\":%ld,\"ran\":%ld",reg_count.load(),ran_count.load());
			if(ran_count.load()<reg_count.load()) { bv::close(); _exit(0); } // a loop that lost handlers may never stop: do not join it
			srv->stop();
			loop.join();
		}
		keep.clear(); keep2.clear();
		delete srv; srv=0;
	}
	bv::close();
	return 0;
}
