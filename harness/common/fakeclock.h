// Defining time() in the executable overrides the clock libcppcms.so reads through the PLT.
#ifndef VERIF_FAKECLOCK_H
#define VERIF_FAKECLOCK_H
#include <time.h>
namespace vt { static const time_t clock_base = 1000000; static time_t fake_now = clock_base; }
extern "C" time_t time(time_t *t) { if(t) *t=vt::fake_now; return vt::fake_now; }
#endif
