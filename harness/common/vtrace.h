// Minimal ND-JSON trace writer + fake clock shared by the /verif harnesses.
#ifndef VERIF_VTRACE_H
#define VERIF_VTRACE_H
#include <stdio.h>
#include <stdlib.h>
#include <string.h>
#include <string>
#include <vector>
#include <set>
#include <sstream>
#include <stdint.h>

namespace vt {

struct out {
	FILE *f;
	out() : f(0) {}
	void open(char const *path=0)
	{
		if(!path) path=getenv("VERIF_OUT");
		if(!path) { f=stdout; return; }
		f=fopen(path,"w");
		if(!f) { perror(path); exit(3); }
		setvbuf(f,0,_IOFBF,1<<20);
	}
	void line(std::string const &s) { fwrite(s.data(),1,s.size(),f); fputc('\n',f); }
	void close() { if(f && f!=stdout) fclose(f); else if(f) fflush(f); f=0; }
};

// JSON object builder: J().s("e","Store").i("k",1).a("ts",vec).str()
struct J {
	std::ostringstream o; bool first;
	J() : first(true) { o<<'{'; }
	void key(char const *k) { if(!first) o<<','; first=false; o<<'"'<<k<<"\":"; }
	J &s(char const *k,std::string const &v) { key(k); o<<'"'; esc(v); o<<'"'; return *this; }
	J &i(char const *k,long long v) { key(k); o<<v; return *this; }
	J &b(char const *k,bool v) { key(k); o<<(v?"true":"false"); return *this; }
	template<typename C> J &a(char const *k,C const &v) { key(k); o<<'['; bool f=true; for(typename C::const_iterator p=v.begin();p!=v.end();++p){ if(!f)o<<','; f=false; o<<(long long)(*p);} o<<']'; return *this; }
	// byte string as array of 0..255
	J &bytes(char const *k,std::string const &v) { key(k); o<<'['; for(size_t n=0;n<v.size();n++){ if(n)o<<','; o<<(unsigned)(unsigned char)v[n]; } o<<']'; return *this; }
	J &raw(char const *k,std::string const &json) { key(k); o<<json; return *this; }
	void esc(std::string const &v) { for(size_t n=0;n<v.size();n++){ unsigned char c=v[n]; if(c=='"'||c=='\\'){o<<'\\'<<c;} else if(c<0x20||c>=0x7f){ char b[8]; snprintf(b,sizeof(b),"\\u%04x",c); o<<b; } else o<<c; } }
	std::string str() { return o.str()+"}"; }
};

// xorshift rng (deterministic across platforms)
struct rng {
	uint64_t s;
	rng(uint64_t seed) : s(seed*2654435761u+88172645463325252ull) { for(int i=0;i<8;i++) next(); }
	uint64_t next() { s^=s<<13; s^=s>>7; s^=s<<17; return s; }
	unsigned operator()(unsigned n) { return n? (unsigned)(next()%n) : 0; }
	bool chance(unsigned num,unsigned den) { return (*this)(den)<num; }
};

inline long envl(char const *n,long d) { char const *v=getenv(n); return v?atol(v):d; }

} // vt
#endif
