// C14 driver: the real UTF-8 decoders / text validators of cppcms and booster.
//
//   utf8_drv sweep <table.json> <samples-prefix> <nshards> <sweep.ndjson> <threads>
//       Enumerates byte sequences through cppcms::utf8::next (plain and html mode) and
//       booster::locale::utf::utf_traits<char>::decode and compares each verdict with the
//       verdict table exported by TLC from spec/Text/Utf8.tla (Utf8Export.tla).  The driver has
//       no notion of validity of its own: class of a byte, verdict of a class sequence, bounds
//       and byte weights of the scalar value all come from the table.
//       quick tier   : all sequences of length 1..3, all class-boundary 4-tuples
//       thorough tier: all sequences of length 1..4 (2^32 + ...)
//       Every mismatch (the smallest few per decoder) becomes a "Next" event, every sweep a
//       "Sweep" event in <sweep.ndjson>.<decoder#>; samples of ordinary calls go to <prefix>.<i>.ndjson.
//       TLC (Utf8Trace.tla) judges all of them with the TLA+ predicates themselves.
//   utf8_drv strings <n> <maxpieces>      random strings of valid / invalid pieces through the
//       whole-string validators, counters and validate_or_filter  (trace: VERIF_OUT)
//   utf8_drv codepages <first> <last>     all bytes and all byte pairs for the single-byte
//       code-page names number first..last-1 through encoding::valid (trace: VERIF_OUT)
#include "common/vtrace.h"
#include "utf_iterator.h"
#include "encoding_validators.h"
#include <cppcms/encoding.h>
#include <cppcms/localization.h>
#include <booster/locale/utf.h>
#include <booster/locale/encoding_utf.h>
#include <booster/locale/generator.h>
#include <algorithm>
#include <fstream>
#include <iostream>
#include <thread>
#include <mutex>
#include <locale>

typedef unsigned char uchar;

// ---------------------------------------------------------------- the TLC-exported table
struct entry { int n, nh; uint32_t lo, hi; };
static int nclass=0, N1=0;
static int cls[256];
static uint32_t clslo[64];          // smallest byte of each class (derived from cls[])
static uint32_t weight[5][5];
static std::vector<entry> table;

static bool read_ints(std::string const &txt,char const *key,std::vector<long long> &out,size_t maxn)
{
	std::string k=std::string("\"")+key+"\":";
	size_t p=txt.find(k);
	if(p==std::string::npos) return false;
	p+=k.size();
	int depth=0;
	bool any=false;
	while(p<txt.size()) {
		char c=txt[p];
		if(c=='[') { depth++; p++; any=true; }
		else if(c==']') { depth--; p++; if(depth==0) break; }
		else if(c=='-' || (c>='0' && c<='9')) {
			char *e=0;
			long long v=strtoll(txt.c_str()+p,&e,10);
			out.push_back(v);
			p=e-txt.c_str();
			if(!any) break; // scalar
			if(out.size()>maxn) return false;
		}
		else p++;
	}
	return true;
}

static void load_table(char const *path)
{
	std::ifstream f(path,std::ios::binary);
	if(!f) { fprintf(stderr,"cannot read %s\n",path); exit(3); }
	std::string txt((std::istreambuf_iterator<char>(f)),std::istreambuf_iterator<char>());
	std::vector<long long> v;
	if(!read_ints(txt,"nclass",v,1) || v.size()!=1) { fprintf(stderr,"table: nclass\n"); exit(3); }
	nclass=v[0]; N1=nclass+1;
	v.clear();
	if(!read_ints(txt,"classes",v,256) || v.size()!=256) { fprintf(stderr,"table: classes\n"); exit(3); }
	for(int i=0;i<64;i++) clslo[i]=0xFFFFFFFFu;
	for(int i=0;i<256;i++) { cls[i]=v[i]; if(clslo[cls[i]]==0xFFFFFFFFu) clslo[cls[i]]=i; }
	v.clear();
	if(!read_ints(txt,"weights",v,16) || v.size()!=16) { fprintf(stderr,"table: weights\n"); exit(3); }
	for(int n=1;n<=4;n++) for(int i=1;i<=4;i++) weight[n][i]=v[(n-1)*4+(i-1)];
	v.clear();
	size_t total=(size_t)N1*N1*N1*N1;
	if(!read_ints(txt,"table",v,total*4) || v.size()!=total*4) { fprintf(stderr,"table: table (%zu)\n",v.size()); exit(3); }
	table.resize(total);
	for(size_t i=0;i<total;i++) { table[i].n=v[4*i]; table[i].nh=v[4*i+1]; table[i].lo=v[4*i+2]; table[i].hi=v[4*i+3]; }
}

static inline size_t index_of(uchar const *s,int len)
{
	size_t idx=0;
	for(int i=0;i<4;i++) idx=idx*N1+(i<len ? cls[s[i]] : 0);
	return idx;
}

// ---------------------------------------------------------------- the decoders under test
struct verdict { bool ok; int n; uint32_t cp; bool inc; };

enum { D_CPPCMS=0, D_CPPCMS_HTML=1, D_BOOSTER=2, NDEC=3 };
static char const *dec_name[]={"cppcms","cppcms","booster"};
static bool dec_html[]={false,true,false};

static inline verdict run_decoder(int d,uchar const *s,int len)
{
	verdict v; v.inc=false;
	char const *p=reinterpret_cast<char const *>(s);
	char const *e=p+len;
	if(d==D_BOOSTER) {
		booster::locale::utf::code_point c=booster::locale::utf::utf_traits<char>::decode(p,e);
		v.ok = c!=booster::locale::utf::illegal && c!=booster::locale::utf::incomplete;
		v.inc = c==booster::locale::utf::incomplete;
		v.cp = v.ok ? c : 0;
	}
	else {
		uint32_t c=cppcms::utf8::next(p,e,d==D_CPPCMS_HTML);
		v.ok = c!=cppcms::utf::illegal;
		v.cp = v.ok ? c : 0;
	}
	v.n=p-reinterpret_cast<char const *>(s);
	return v;
}

// does the implementation's verdict equal the table's?  (no other judgement in this file)
static inline bool agrees(int d,uchar const *s,int len,verdict const &v)
{
	entry const &t=table[index_of(s,len)];
	int n = dec_html[d] ? t.nh : t.n;
	if(v.ok != (n>0)) return false;
	if(!v.ok) return true;
	if(v.n!=n) return false;
	if(v.cp<t.lo || v.cp>t.hi) return false;
	uint32_t expect=t.lo;
	for(int i=0;i<n;i++) expect+=(s[i]-clslo[cls[s[i]]])*weight[n][i+1];
	return v.cp==expect;
}

static std::string next_event(int d,uchar const *s,int len)
{
	verdict v=run_decoder(d,s,len);
	entry const &t=table[index_of(s,len)];
	vt::J j;
	j.s("e","Next").s("dec",dec_name[d]).b("html",dec_html[d]).bytes("in",std::string((char const*)s,len));
	j.b("ok",v.ok).i("n",v.n).i("cp",v.cp).b("inc",v.inc);
	j.i("tn",dec_html[d]?t.nh:t.n).i("tlo",t.lo).i("thi",t.hi);
	return j.str();
}

struct mism { uchar s[4]; int len; };
static bool mism_less(mism const &a,mism const &b)
{
	if(a.len!=b.len) return a.len<b.len;
	return memcmp(a.s,b.s,4)<0;
}

struct sweep_result {
	unsigned long long n[NDEC], bad[NDEC];
	std::vector<mism> first[NDEC];
	sweep_result() { for(int d=0;d<NDEC;d++) n[d]=bad[d]=0; }
	void note(int d,uchar const *s,int len)
	{
		bad[d]++;
		if(first[d].size()<6) { mism m; memset(m.s,0,4); memcpy(m.s,s,len); m.len=len; first[d].push_back(m); }
	}
	void merge(sweep_result const &o)
	{
		for(int d=0;d<NDEC;d++) {
			n[d]+=o.n[d]; bad[d]+=o.bad[d];
			first[d].insert(first[d].end(),o.first[d].begin(),o.first[d].end());
			std::sort(first[d].begin(),first[d].end(),mism_less);
			if(first[d].size()>6) first[d].resize(6);
		}
	}
};

static inline void try_one(sweep_result &r,uchar const *s,int len)
{
	for(int d=0;d<NDEC;d++) {
		verdict v=run_decoder(d,s,len);
		r.n[d]++;
		if(!agrees(d,s,len,v)) r.note(d,s,len);
	}
}

// all sequences of length len whose bytes come from alphabet a (first byte restricted to [f0,f1))
static void sweep_range(sweep_result &r,int len,std::vector<int> const &a,size_t f0,size_t f1)
{
	uchar s[4]={0,0,0,0};
	size_t na=a.size();
	for(size_t i0=f0;i0<f1;i0++) {
		s[0]=a[i0];
		if(len==1) { try_one(r,s,1); continue; }
		for(size_t i1=0;i1<na;i1++) {
			s[1]=a[i1];
			if(len==2) { try_one(r,s,2); continue; }
			for(size_t i2=0;i2<na;i2++) {
				s[2]=a[i2];
				if(len==3) { try_one(r,s,3); continue; }
				for(size_t i3=0;i3<na;i3++) {
					s[3]=a[i3];
					try_one(r,s,4);
				}
			}
		}
	}
}

static sweep_result sweep(int len,std::vector<int> const &a,int threads)
{
	sweep_result total;
	std::mutex m;
	std::vector<std::thread> th;
	size_t next=0;
	for(int t=0;t<threads;t++) {
		th.push_back(std::thread([&]() {
			sweep_result mine;
			for(;;) {
				size_t i;
				{ std::lock_guard<std::mutex> g(m); i=next++; }
				if(i>=a.size()) break;
				sweep_range(mine,len,a,i,i+1);
			}
			std::lock_guard<std::mutex> g(m);
			total.merge(mine);
		}));
	}
	for(size_t i=0;i<th.size();i++) th[i].join();
	return total;
}

static std::vector<int> all_bytes() { std::vector<int> a; for(int i=0;i<256;i++) a.push_back(i); return a; }
// class boundaries and their neighbours, as given by the table's classes[]
static std::vector<int> boundary_bytes(int around)
{
	std::set<int> s;
	for(int b=0;b<256;b++) {
		bool lo = b==0 || cls[b-1]!=cls[b];
		bool hi = b==255 || cls[b+1]!=cls[b];
		if(lo||hi) for(int d=-around;d<=around;d++) if(b+d>=0 && b+d<=255) s.insert(b+d);
	}
	return std::vector<int>(s.begin(),s.end());
}

static int do_sweep(int argc,char **argv)
{
	if(argc<7) return 2;
	load_table(argv[2]);
	std::string prefix=argv[3];
	int nshards=atoi(argv[4]);
	char const *sweepfile=argv[5];
	int threads=atoi(argv[6]);
	bool thorough = std::string(getenv("VERIF_TIER")?getenv("VERIF_TIER"):"quick")=="thorough";
	vt::rng rnd(vt::envl("VERIF_SEED",1));

	// ---- sweeps against the table
	// one file per decoder, so that a defect in one of them cannot hide behind another's rejections
	vt::out sw[NDEC];
	for(int d=0;d<NDEC;d++) { char suf[16]; snprintf(suf,sizeof(suf),".%d",d); sw[d].open((std::string(sweepfile)+suf).c_str()); }
	std::vector<int> all=all_bytes(), bnd=boundary_bytes(2);
	for(int len=1;len<=4;len++) {
		bool full = len<4 || thorough;
		sweep_result r=sweep(len,full?all:bnd,threads);
		for(int d=0;d<NDEC;d++) {
			for(size_t k=0;k<r.first[d].size() && k<2;k++) {
				sw[d].line(vt::J().s("e","Reset").s("kind","mismatch").str());
				sw[d].line(next_event(d,r.first[d][k].s,r.first[d][k].len));
			}
			sw[d].line(vt::J().s("e","Reset").s("kind","sweep").str());
			sw[d].line(vt::J().s("e","Sweep").s("dec",dec_name[d]).b("html",dec_html[d]).i("len",len)
				.s("kind",full?"all":"boundary").i("n_hi",(long long)(r.n[d]>>16)).i("n_lo",(long long)(r.n[d]&0xFFFF))
				.i("mism",(long long)(r.bad[d]>1000000000ull?1000000000ull:r.bad[d])).str());
		}
	}
	for(int d=0;d<NDEC;d++) sw[d].close();

	// ---- samples of ordinary calls, judged one by one by TLC
	std::vector<std::string> ev;
	uchar s[4];
	for(int b=0;b<256;b++) { s[0]=b; for(int d=0;d<NDEC;d++) ev.push_back(next_event(d,s,1)); }
	{
		std::vector<int> a2 = thorough ? all : boundary_bytes(1);
		for(size_t i=0;i<a2.size();i++) for(size_t k=0;k<a2.size();k++) {
			s[0]=a2[i]; s[1]=a2[k];
			for(int d=0;d<NDEC;d++) ev.push_back(next_event(d,s,2));
		}
	}
	{
		// boundary tuples of length 3 and 4 that the table accepts in some mode, plus their one-byte perturbations
		std::vector<int> b0=boundary_bytes(0);
		size_t cap3 = thorough ? 40000 : 2500, cap4 = thorough ? 40000 : 2500;
		std::vector<std::string> e3,e4;
		for(size_t i=0;i<b0.size();i++) for(size_t k=0;k<b0.size();k++) for(size_t m=0;m<b0.size();m++) {
			s[0]=b0[i]; s[1]=b0[k]; s[2]=b0[m];
			if(s[0]<0xC0) continue;
			bool acc = table[index_of(s,3)].n==3;
			if(acc || rnd.chance(1,8)) for(int d=0;d<NDEC;d++) e3.push_back(next_event(d,s,3));
			if(s[0]>=0xE0) for(size_t q=0;q<b0.size();q++) {
				s[3]=b0[q];
				bool acc4 = table[index_of(s,4)].n==4;
				if(acc4 || rnd.chance(1,64)) for(int d=0;d<NDEC;d++) e4.push_back(next_event(d,s,4));
			}
		}
		// keep a deterministic subset if there are too many
		for(size_t i=0;i<e3.size();i++) if(e3.size()<=cap3 || rnd(e3.size())<cap3) ev.push_back(e3[i]);
		for(size_t i=0;i<e4.size();i++) if(e4.size()<=cap4 || rnd(e4.size())<cap4) ev.push_back(e4[i]);
		// random sequences of every length
		size_t nr = thorough ? 60000 : 4000;
		for(size_t i=0;i<nr;i++) {
			int len=1+rnd(4);
			for(int k=0;k<len;k++) s[k]= rnd.chance(1,2) ? b0[rnd(b0.size())] : rnd(256);
			ev.push_back(next_event(rnd(NDEC),s,len));
		}
	}
	for(int sh=0;sh<nshards;sh++) {
		char name[32]; snprintf(name,sizeof(name),".%d.ndjson",sh);
		vt::out o; o.open((prefix+name).c_str());
		size_t cnt=0;
		for(size_t i=sh;i<ev.size();i+=nshards) {
			if(cnt++%500==0) o.line(vt::J().s("e","Reset").s("kind","samples").str());
			o.line(ev[i]);
		}
		o.close();
	}
	std::cout<<"samples "<<ev.size()<<std::endl;
	return 0;
}

// ---------------------------------------------------------------- random strings
static void put_cp(std::string &s,uint32_t c)
{
	cppcms::utf8::seq q=cppcms::utf8::encode(c);   // input generation only
	s.append(q.c,q.len);
}

static std::string random_string(vt::rng &r,int maxpieces,int badness)
{
	static const uint32_t edge[]={0x20,0x7E,0xA0,0xFF,0x7FF,0x800,0xFFF,0x1000,0xCFFF,0xD000,0xD7FF,0xE000,0xFFFD,0xFFFF,
		0x10000,0x3FFFF,0x40000,0xFFFFF,0x100000,0x10FFFF,0x9,0xA,0xD};
	static const int nedge=sizeof(edge)/sizeof(edge[0]);
	static char const *bad[]={"\x80","\xBF","\xC0\x80","\xC1\xBF","\xC2","\xDF","\xE0\x80\x80","\xE0\x9F\xBF","\xE0\xA0","\xED\xA0\x80","\xED\xBF\xBF",
		"\xEF\xBF","\xF0\x80\x80\x80","\xF0\x8F\xBF\xBF","\xF0\x90\x80","\xF4\x90\x80\x80","\xF4\x8F\xBF","\xF5\x80\x80\x80","\xF8\x88\x80\x80\x80","\xFE","\xFF",
		"\xE1\x80","\xF1\x80\x80","\xC2\x41","\xE1\x80\x41","\xF1\x80\x80\x41","\xED\x9F","\xF4"};
	std::string s;
	int np=r(maxpieces+1);
	for(int i=0;i<np;i++) {
		unsigned k=r(100);
		if((int)k<badness) {
			// invalid piece, unsafe control or raw byte
			unsigned w=r(4);
			if(w==0) s+=bad[r(sizeof(bad)/sizeof(bad[0]))];
			else if(w==1) s+=char(r(256));
			else if(w==2) { static const uint32_t ctl[]={0,1,8,0xB,0xC,0xE,0x1F,0x7F,0x80,0x85,0x9F}; put_cp(s,ctl[r(11)]); }
			else { std::string t; put_cp(t,0x800+r(0xF000)); if(t.size()>1) t.resize(t.size()-1); s+=t; }
		}
		else if(k<40) s+=char(0x20+r(0x5F));
		else if(k<50) { static char const ws[]="\t\n\r"; s+=ws[r(3)]; }
		else if(k<65) put_cp(s,edge[r(nedge)]);
		else if(k<75) put_cp(s,0xA0+r(0x7FF-0xA0));
		else if(k<85) { uint32_t c=0x800+r(0xF800); if(c>=0xD800 && c<=0xDFFF) c=0xE000; put_cp(s,c); }
		else put_cp(s,0x10000+r(0x100000));
	}
	return s;
}

static std::string sentinel("\xFF" "untouched",10);

static void str_event(vt::out &o,char const *fn,bool html,std::string const &in,bool ok,long long count,bool hascount)
{
	o.line(vt::J().s("e","Str").s("fn",fn).b("html",html).bytes("in",in).b("ok",ok).i("count",count).b("hascount",hascount).str());
}

struct cpname { char const *cp; char const *names[4]; };
static cpname const cpnames[]={
	{"latin1",{"latin1","Latin-1","LATIN_1",0}},
	{"iso88591",{"ISO-8859-1","iso8859-1","ISO_8859-1",0}}, {"iso88592",{"ISO-8859-2","iso8859-2",0,0}},
	{"iso88593",{"ISO-8859-3","iso8859-3",0,0}}, {"iso88594",{"ISO-8859-4","iso8859_4",0,0}},
	{"iso88595",{"ISO-8859-5","iso88595",0,0}}, {"iso88596",{"ISO-8859-6","Iso-8859-6",0,0}},
	{"iso88597",{"ISO-8859-7","iso8859-7",0,0}}, {"iso88598",{"ISO-8859-8","iso8859-8",0,0}},
	{"iso88599",{"ISO-8859-9","iso8859-9",0,0}}, {"iso885910",{"ISO-8859-10","iso8859-10",0,0}},
	{"iso885911",{"ISO-8859-11","iso8859-11",0,0}}, {"iso885913",{"ISO-8859-13","iso8859-13",0,0}},
	{"iso885914",{"ISO-8859-14","iso8859-14",0,0}}, {"iso885915",{"ISO-8859-15","iso8859-15",0,0}},
	{"iso885916",{"ISO-8859-16","iso8859-16",0,0}},
	{"windows1250",{"windows-1250","Windows1250",0,0}}, {"windows1251",{"windows-1251","WINDOWS-1251",0,0}},
	{"windows1252",{"windows-1252","Windows_1252",0,0}}, {"windows1253",{"windows-1253",0,0,0}},
	{"windows1254",{"windows-1254",0,0,0}},
	{"windows1255",{"windows-1255","WINDOWS-1255",0,0}}, {"windows1256",{"windows-1256",0,0,0}},
	{"windows1257",{"windows-1257",0,0,0}}, {"windows1258",{"windows-1258",0,0,0}},
	{"cp1250",{"cp1250","CP1250","CP-1250",0}}, {"cp1251",{"cp1251","CP1251",0,0}}, {"cp1252",{"cp1252","CP1252",0,0}},
	{"cp1253",{"cp1253",0,0,0}}, {"cp1254",{"CP1254",0,0,0}}, {"cp1255",{"cp1255","CP1255",0,0}}, {"cp1256",{"cp1256",0,0,0}},
	{"cp1257",{"cp1257",0,0,0}}, {"cp1258",{"cp1258",0,0,0}},
	{"koi8r",{"KOI8-R","koi8r","koi8-r",0}}, {"koi8u",{"KOI8-U","koi8u",0,0}},
	{"ascii",{"ascii","ASCII",0,0}}, {"usascii",{"US-ASCII","us-ascii","usascii",0}},
};
static const int ncp=sizeof(cpnames)/sizeof(cpnames[0]);

static int do_strings(int argc,char **argv)
{
	if(argc<4) return 2;
	int n=atoi(argv[2]), maxpieces=atoi(argv[3]);
	vt::rng r(vt::envl("VERIF_SEED",1)*7919+n);
	vt::out o; o.open();
	booster::locale::generator gen;
	std::locale loc_utf8=gen("en_US.UTF-8");
	std::locale loc_latin=gen("en_US.ISO8859-1");
	static char const *u8names[]={"UTF-8","utf8","Utf_8","utf-8"};
	for(int i=0;i<n;i++) {
		if(i%250==0) o.line(vt::J().s("e","Reset").s("kind","strings").str());
		int badness = (i%3==0) ? 0 : (i%3==1 ? 4 : 25);
		int mp = (i%50==49) ? maxpieces*8 : maxpieces;
		std::string s=random_string(r,mp,badness);
		char const *b=s.data(), *e=s.data()+s.size();
		size_t c;
		bool ok;
		switch(i%8) {
		case 0: c=0; ok=cppcms::encoding::valid_utf8(b,e,c); str_event(o,"valid_utf8",true,s,ok,c,true); break;
		case 1: c=0; ok=cppcms::encoding::valid(std::string(u8names[r(4)]),b,e,c); str_event(o,"valid(string)",true,s,ok,c,true); break;
		case 2: c=0; ok=cppcms::encoding::valid(u8names[r(4)],b,e,c); str_event(o,"valid(char*)",true,s,ok,c,true); break;
		case 3: c=0; ok=cppcms::encoding::valid(loc_utf8,b,e,c); str_event(o,"valid(locale)",true,s,ok,c,true); break;
		case 4: c=0; ok=cppcms::utf8::validate(b,e,c,false); str_event(o,"utf8::validate(count)",false,s,ok,c,true);
			c=0; ok=cppcms::utf8::validate(s.begin(),s.end(),c,true); str_event(o,"utf8::validate(count,html)",true,s,ok,c,true); break;
		case 5: ok=cppcms::utf8::validate(b,e,false); str_event(o,"utf8::validate",false,s,ok,0,false);
			ok=cppcms::utf8::validate(b,e,true); str_event(o,"utf8::validate(html)",true,s,ok,0,false); break;
		case 6: {
				std::wstring w; ok=true;
				try { w=booster::locale::conv::utf_to_utf<wchar_t>(b,e,booster::locale::conv::stop); }
				catch(booster::locale::conv::conversion_error const &) { ok=false; }
				str_event(o,"booster::utf_to_utf<wchar_t>",false,s,ok,w.size(),true);
				c=0; ok=cppcms::encoding::utf8_valid(b,e,c); str_event(o,"utf8_valid",true,s,ok,c,true);
			}
			break;
		case 7: {
				// a single-byte code page on a string of arbitrary bytes
				cpname const &cn=cpnames[r(ncp)];
				int nn=0; while(nn<4 && cn.names[nn]) nn++;
				char const *name=cn.names[r(nn)];
				std::string t;
				int len=r(40);
				int kind=r(3);
				for(int k=0;k<len;k++) t+= kind==0 ? char(0x20+r(0x5F)) : kind==1 ? (r.chance(1,10)?char(r(256)):char(0x20+r(0x5F))) : char(r(256));
				c=0; ok=cppcms::encoding::valid(std::string(name),t.data(),t.data()+t.size(),c);
				o.line(vt::J().s("e","StrCp").s("cp",cn.cp).s("name",name).bytes("in",t).b("ok",ok).i("count",c).str());
				static const char repl[]={0,'?',' ',0};
				char rp=repl[r(4)];
				std::string out=sentinel;
				bool ret=cppcms::encoding::validate_or_filter(name,t.data(),t.data()+t.size(),out,rp);
				o.line(vt::J().s("e","FilterCp").s("cp",cn.cp).s("name",name).bytes("in",t).i("repl",(uchar)rp).b("ret",ret)
					.b("touched",out!=sentinel).bytes("out",out!=sentinel?out:std::string()).str());
				if(r.chance(1,4)) {
					// the locale overload of valid() with a single-byte locale
					c=0; ok=cppcms::encoding::valid(loc_latin,t.data(),t.data()+t.size(),c);
					o.line(vt::J().s("e","StrCp").s("cp","iso88591").s("name","locale:en_US.ISO8859-1").bytes("in",t).b("ok",ok).i("count",c).str());
				}
			}
			break;
		}
		// validate_or_filter on every string
		{
			static const char repl[]={0,'?',' ',0,'?',1};
			char rp=repl[r(6)];
			std::string out=sentinel;
			bool ret=cppcms::encoding::validate_or_filter(u8names[r(4)],b,e,out,rp);
			o.line(vt::J().s("e","Filter").bytes("in",s).i("repl",(uchar)rp).b("ret",ret)
				.b("touched",out!=sentinel).bytes("out",out!=sentinel?out:std::string()).str());
		}
	}
	o.close();
	return 0;
}

// ---------------------------------------------------------------- single-byte code pages
static int do_codepages(int argc,char **argv)
{
	if(argc<4) return 2;
	int first=atoi(argv[2]), last=atoi(argv[3]);
	if(last>ncp) last=ncp;
	vt::out o; o.open();
	for(int k=first;k<last;k++) {
		cpname const &cn=cpnames[k];
		for(int v=0;v<4 && cn.names[v];v++) {
			std::string name=cn.names[v];
			std::vector<int> single(256), cnt(256);
			for(int b=0;b<256;b++) {
				char ch=char(b); size_t c=0;
				single[b]=cppcms::encoding::valid(name,&ch,&ch+1,c) ? 1 : 0;
				cnt[b]=c;
			}
			o.line(vt::J().s("e","Reset").s("kind","codepage").str());
			o.line(vt::J().s("e","CpTable").s("cp",cn.cp).s("name",name).a("single",single).a("cnt",cnt).str());
			if(v!=0) continue;
			for(int a=0;a<256;a++) {
				std::vector<int> pair(256);
				for(int b=0;b<256;b++) {
					char two[2]={char(a),char(b)}; size_t c=0;
					pair[b]=cppcms::encoding::valid(name,two,two+2,c) ? 1 : 0;
					cnt[b]=c;
				}
				o.line(vt::J().s("e","CpRow").s("cp",cn.cp).i("a",a).a("pair",pair).a("cnt",cnt).str());
			}
		}
	}
	o.close();
	std::cout<<"codepages "<<ncp<<std::endl;
	return 0;
}

int main(int argc,char **argv)
{
	if(argc<2) return 2;
	std::string m=argv[1];
	if(m=="sweep") return do_sweep(argc,argv);
	if(m=="strings") return do_strings(argc,argv);
	if(m=="codepages") return do_codepages(argc,argv);
	if(m=="ncodepages") { std::cout<<ncp<<std::endl; return 0; }
	return 2;
}
