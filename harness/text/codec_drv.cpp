// C15 driver: the real HTML-escape, URL and base64url code of cppcms on every output path.
//
//   codec_drv exh <maxlen> <shard> <nshards>   all byte strings of length 0..maxlen (<=2)
//   codec_drv rand <n> <maxlen>                random strings (markup, binary, URL-ish, base64-ish text)
//                                              incl. truncating and short-writing sinks
//   codec_drv sizes <from> <to>                encoded_size/decoded_size for from..to and pointer forms
//                                              on canary-guarded buffers of exactly the reported size
//   codec_drv rows <first> <last> all|b64      prefix #k (0: "", 1..256: one byte, then two bytes) extended by
//                                              every byte, through all functions (b64: the base64 ones only)
//   codec_drv ptr1mod4                         b64url::decode(begin,end,target) on input of length 1 mod 4
//   codec_drv ext <hexprefix>                  the prefix extended by every byte, as complete Call events
//   codec_drv pieces <shard> <nshards>         template filters fed by ONE streamable object whose operator<< issues
//                                              several writes (all 2-/3-piece length combinations, char-by-char, random
//                                              piece sequences, booster::locale::format); judged on the concatenation
//   codec_drv ranges <shard> <nshards>         every (begin,end) entry point on sub-ranges of larger buffers with adversarial
//                                              neighbours and next to inaccessible pages, against the std::string forms on a copy
//   codec_drv widgets <shard> <nshards>        every form widget rendered with a placeholder and with markup / injection strings in
//                                              each escaped slot, all html/xhtml x as_p/as_table/as_ul/as_dl/as_space modes
//   codec_drv urlsb                              util::urlencode(begin,end,streambuf&) into truncating sinks
//   codec_drv big <n> <maxlen>                 a few long random strings
// One "Call" event per input: the results of all functions, grouped by identical outcome.  The driver
// does not judge anything; TLC (spec/Text/CodecTrace.tla) does.
#include "common/vtrace.h"
#include <cppcms/util.h>
#include <cppcms/base64.h>
#include <cppcms/filters.h>
#include <cppcms/form.h>
#include <booster/locale/format.h>
#include <sstream>
#include <memory>
#include <iostream>
#include <map>
#include <functional>
#include <set>
#include <signal.h>
#include <unistd.h>
#include <sys/mman.h>

typedef unsigned char uchar;
static vt::out tr;
static bool with_widgets=true;

// ------------------------------------------------------------------ sinks
// accepts `cap` characters in total (cap<0: unlimited) and at most `chunk` per xsputn call (chunk<=0: any)
struct sinkbuf : public std::streambuf {
	std::string data; long cap; int chunk;
	sinkbuf(long c,int ch) : cap(c), chunk(ch) {}
protected:
	int_type overflow(int_type c)
	{
		if(c==traits_type::eof()) return 0;
		if(cap>=0 && (long)data.size()>=cap) return traits_type::eof();
		data+=char(c);
		return c;
	}
	std::streamsize xsputn(char const *s,std::streamsize n)
	{
		std::streamsize take=n;
		if(chunk>0 && take>chunk) take=chunk;
		if(cap>=0 && take>cap-(long)data.size()) take=cap-(long)data.size();
		if(take<0) take=0;
		data.append(s,take);
		return take;
	}
};

struct sinkspec { char const *kind; long cap; int chunk; };

// ------------------------------------------------------------------ results
struct result {
	std::string fn, out, sink; long cap; bool fail; long ret; long size; bool canary;
	std::string ctx;   // where the input range was placed (mode ranges); not part of the outcome
	result(char const *f) : fn(f), sink("none"), cap(-1), fail(false), ret(-2), size(-2), canary(true) {}
	std::string key() const
	{
		// results are only grouped within one family of functions
		int fam = fn.find("urlencode")!=std::string::npos ? 2 : fn.find("urldecode")!=std::string::npos ? 3 :
			  (fn.find("b64enc")!=std::string::npos || fn=="filter_b64") ? 4 : fn=="b64dec_str" ? 5 : fn=="b64dec_ptr" ? 6 : fn=="filter_jsescape" ? 7 : 1;
		std::ostringstream k; k<<fam<<'|'<<out.size()<<':'<<out<<'|'<<sink<<'|'<<cap<<'|'<<fail<<'|'<<ret<<'|'<<size<<'|'<<canary;
		return k.str();
	}
};

static std::string group(std::vector<result> const &rs)
{
	std::vector<std::string> order;
	std::map<std::string,std::vector<result const *> > g;
	for(size_t i=0;i<rs.size();i++) {
		std::string k=rs[i].key();
		if(!g.count(k)) order.push_back(k);
		g[k].push_back(&rs[i]);
	}
	std::string s="[";
	for(size_t i=0;i<order.size();i++) {
		std::vector<result const *> &v=g[order[i]];
		std::string fns="[", ctx="[";
		std::set<std::string> seen, seenctx;
		for(size_t k=0;k<v.size();k++) {
			if(seen.insert(v[k]->fn).second) { if(fns.size()>1) fns+=','; fns+='"'+v[k]->fn+'"'; }
			if(!v[k]->ctx.empty() && seenctx.size()<3 && seenctx.insert(v[k]->ctx).second) { if(ctx.size()>1) ctx+=','; ctx+='"'+v[k]->ctx+'"'; }
		}
		fns+="]"; ctx+="]";
		result const &r=*v[0];
		if(i) s+=',';
		vt::J j;
		j.raw("fns",fns).bytes("out",r.out).s("sink",r.sink).i("cap",r.cap).b("fail",r.fail).i("ret",r.ret).i("size",r.size).b("canary",r.canary);
		if(ctx.size()>2) j.raw("ctx",ctx);
		s+=j.str();
	}
	return s+"]";
}

static void call_event(std::string const &in,std::vector<result> const &rs)
{
	tr.line(vt::J().s("e","Call").bytes("in",in).raw("r",group(rs)).str());
}

// ------------------------------------------------------------------ guarded buffers
static const int GUARD=32;
struct guarded {
	std::vector<uchar> mem; size_t cap;
	guarded(size_t c) : mem(c+2*GUARD), cap(c)
	{
		for(size_t i=0;i<mem.size();i++) mem[i]= (i<(size_t)GUARD || i>=GUARD+cap) ? uchar(0xC3^(i*7)) : 0xEE;
	}
	uchar *p() { return &mem[0]+GUARD; }
	bool intact() const
	{
		for(size_t i=0;i<mem.size();i++) if((i<(size_t)GUARD || i>=GUARD+cap) && mem[i]!=uchar(0xC3^(i*7))) return false;
		return true;
	}
	std::string bytes(long n) const
	{
		if(n<0) n=0;
		if((size_t)n>cap) n=cap;
		return std::string(reinterpret_cast<char const *>(&mem[0]+GUARD),n);
	}
};

// ------------------------------------------------------------------ the functions under test
static void esc_family(std::string const &s,std::vector<result> &rs,sinkspec const *sk)
{
	using namespace cppcms;
	char const *b=s.data(), *e=s.data()+s.size();
	{ result r("escape_str"); r.out=util::escape(s); rs.push_back(r); }
	{ result r("escape_sb"); sinkbuf sb(-1,0); r.fail=util::escape(b,e,sb)!=0; r.out=sb.data; rs.push_back(r); }
	{ result r("escape_os"); std::ostringstream os; util::escape(b,e,os); r.fail=!os; r.out=os.str(); rs.push_back(r); }
	{ result r("filter_escape"); std::ostringstream os; os<<filters::escape(s); r.fail=!os; r.out=os.str(); rs.push_back(r); }
	if(with_widgets) {
		{
			result r("widget_text");
			widgets::text t; t.value(s);
			std::ostringstream os; form_context fc(os);
			t.render_input(fc);
			std::string o=os.str();
			size_t p=o.find(" value=\""), q=o.rfind('"');
			if(p==std::string::npos || q==std::string::npos || q<p+8) { r.fail=true; r.out=o; }
			else r.out=o.substr(p+8,q-(p+8));
			rs.push_back(r);
		}
		{
			result r("widget_textarea");
			widgets::textarea t; t.value(s);
			std::ostringstream os; form_context fc(os);
			fc.widget_part(form_context::second_part);
			t.render_input(fc);
			std::string o=os.str();
			static const std::string tail="</textarea>";
			if(o.size()<1+tail.size() || o[0]!='>' || o.compare(o.size()-tail.size(),tail.size(),tail)!=0) { r.fail=true; r.out=o; }
			else r.out=o.substr(1,o.size()-1-tail.size());
			rs.push_back(r);
		}
	}
	if(sk) {
		{ result r("escape_sb"); sinkbuf sb(sk->cap,sk->chunk); r.sink=sk->kind; r.cap=sk->cap; r.fail=util::escape(b,e,sb)!=0; r.out=sb.data; rs.push_back(r); }
		{ result r("escape_os"); sinkbuf sb(sk->cap,sk->chunk); std::ostream os(&sb); r.sink=sk->kind; r.cap=sk->cap; util::escape(b,e,os); r.fail=!os; r.out=sb.data; rs.push_back(r); }
	}
}

static void urlenc_family(std::string const &s,std::vector<result> &rs,sinkspec const *sk)
{
	using namespace cppcms;
	char const *b=s.data(), *e=s.data()+s.size();
	{ result r("urlencode_str"); r.out=util::urlencode(s); rs.push_back(r); }
	{ result r("urlencode_sb"); sinkbuf sb(-1,0); r.fail=util::urlencode(b,e,sb)!=0; r.out=sb.data; rs.push_back(r); }
	{ result r("urlencode_os"); std::ostringstream os; util::urlencode(b,e,os); r.fail=!os; r.out=os.str(); rs.push_back(r); }
	{ result r("filter_urlencode"); std::ostringstream os; os<<filters::urlencode(s); r.fail=!os; r.out=os.str(); rs.push_back(r); }
	if(sk) {
		// (urlencode(begin,end,streambuf&) on a failing sink: see mode urlsb)
		{ result r("urlencode_os"); sinkbuf sb(sk->cap,sk->chunk); std::ostream os(&sb); r.sink=sk->kind; r.cap=sk->cap; util::urlencode(b,e,os); r.fail=!os; r.out=sb.data; rs.push_back(r); }
	}
}

static void urlenc_sb_sink(std::string const &s,std::vector<result> &rs,sinkspec const *sk)
{
	using namespace cppcms;
	result r("urlencode_sb"); sinkbuf sb(sk->cap,sk->chunk); r.sink=sk->kind; r.cap=sk->cap;
	r.fail=util::urlencode(s.data(),s.data()+s.size(),sb)!=0; r.out=sb.data; rs.push_back(r);
}

static void urldec_family(std::string const &s,std::vector<result> &rs)
{
	using namespace cppcms;
	{ result r("urldecode_str"); r.out=util::urldecode(s); rs.push_back(r); }
	{ result r("urldecode_ptr"); r.out=util::urldecode(s.data(),s.data()+s.size()); rs.push_back(r); }
}

static void b64enc_family(std::string const &s,std::vector<result> &rs,sinkspec const *sk)
{
	using namespace cppcms;
	uchar const *b=reinterpret_cast<uchar const *>(s.data()), *e=b+s.size();
	int es=b64url::encoded_size(s.size());
	{ result r("b64enc_str"); r.out=b64url::encode(s); r.size=es; rs.push_back(r); }
	{
		result r("b64enc_ptr");
		guarded g(es<0?0:es);
		uchar *end=b64url::encode(b,e,g.p());
		r.ret=end-g.p(); r.size=es; r.canary=g.intact(); r.cap=g.cap; r.out=g.bytes(r.ret);
		rs.push_back(r);
	}
	{ result r("b64enc_os"); std::ostringstream os; b64url::encode(b,e,os); r.fail=!os; r.out=os.str(); rs.push_back(r); }
	{ result r("filter_b64"); std::ostringstream os; os<<filters::base64_urlencode(s); r.fail=!os; r.out=os.str(); rs.push_back(r); }
	if(sk) {
		result r("b64enc_os"); sinkbuf sb(sk->cap,sk->chunk); std::ostream os(&sb); r.sink=sk->kind; r.cap=sk->cap;
		b64url::encode(b,e,os); r.fail=!os; r.out=sb.data; rs.push_back(r);
	}
}

static void b64dec_ptr(std::string const &s,std::vector<result> &rs)
{
	using namespace cppcms;
	uchar const *b=reinterpret_cast<uchar const *>(s.data()), *e=b+s.size();
	int ds=b64url::decoded_size(s.size());
	result r("b64dec_ptr");
	// the buffer a caller can provide: decoded_size() bytes, or - when that is "invalid" - room for the complete blocks
	guarded g(ds>=0 ? ds : (s.size()/4)*3);
	uchar *end=b64url::decode(b,e,g.p());
	r.ret=end-g.p(); r.size=ds; r.canary=g.intact(); r.cap=g.cap; r.out=g.bytes(r.ret);
	rs.push_back(r);
}

static void b64dec_family(std::string const &s,std::vector<result> &rs)
{
	using namespace cppcms;
	{
		result r("b64dec_str");
		std::string out;
		bool ok=b64url::decode(s,out);
		r.ret=ok?1:0; r.out=out; r.size=b64url::decoded_size(s.size());
		rs.push_back(r);
	}
	if(s.size()%4!=1)      // length 1 mod 4 through the pointer form: see mode ptr1mod4
		b64dec_ptr(s,rs);
}

static void round_events(std::string const &s)
{
	using namespace cppcms;
	{ std::string mid=util::urlencode(s); std::string out=util::urldecode(mid);
	  tr.line(vt::J().s("e","Round").s("fam","url").bytes("in",s).bytes("mid",mid).bytes("out",out).b("ok",true).str()); }
	{ std::string mid=b64url::encode(s); std::string out; bool ok=b64url::decode(mid,out);
	  tr.line(vt::J().s("e","Round").s("fam","b64").bytes("in",s).bytes("mid",mid).bytes("out",out).b("ok",ok).str()); }
}

static void everything(std::string const &s,sinkspec const *sk1,sinkspec const *sk2,sinkspec const *sk3)
{
	std::vector<result> rs;
	esc_family(s,rs,sk1);
	urlenc_family(s,rs,sk2);
	urldec_family(s,rs);
	b64enc_family(s,rs,sk3);
	b64dec_family(s,rs);
	call_event(s,rs);
	round_events(s);
}

static unsigned long nev=0;
static void reset_every(unsigned n,char const *kind)
{
	if(nev++%n==0) tr.line(vt::J().s("e","Reset").s("kind",kind).str());
}

// ------------------------------------------------------------------ modes
static int do_exh(int maxlen,int shard,int nshards)
{
	unsigned long idx=0;
	for(int len=0;len<=maxlen;len++) {
		unsigned long total=1; for(int i=0;i<len;i++) total*=256;
		for(unsigned long v=0;v<total;v++,idx++) {
			if((int)(idx%nshards)!=shard) continue;
			std::string s;
			unsigned long x=v;
			for(int i=0;i<len;i++) { s.insert(s.begin(),char(x&0xFF)); x>>=8; }
			reset_every(200,"exh");
			everything(s,0,0,0);
		}
	}
	return 0;
}

static std::string rand_string(vt::rng &r,int maxlen)
{
	static char const markup[]="<>&\"';#&lt;&amp;&#39;&quot;&gt;&apos;";
	static char const urlish[]="%+%2f%2F%zz%4 =&?/-_.~aZ09";
	static char const b64ish[]="ABCDwxyz0189-_+/=.";
	int len=r(maxlen+1);
	int kind=r(5);
	std::string s;
	for(int i=0;i<len;i++) {
		switch(kind) {
		case 0: s+=char(r(256)); break;
		case 1: s+= r.chance(1,3) ? markup[r(sizeof(markup)-1)] : char(0x20+r(0x5F)); break;
		case 2: s+= r.chance(1,2) ? urlish[r(sizeof(urlish)-1)] : char(r.chance(1,8)?r(256):0x30+r(0x4A)); break;
		case 3: s+= r.chance(9,10) ? b64ish[r(12)] : b64ish[r(sizeof(b64ish)-1)]; break;
		default: s+= r.chance(1,6) ? char(r(256)) : char(0x20+r(0x5F));
		}
	}
	return s;
}

static sinkspec mk_sink(vt::rng &r,size_t inlen,int expand)
{
	sinkspec k;
	if(r.chance(1,4)) { k.kind="short"; k.cap=-1; k.chunk=1+r(4); }
	else { k.kind="cap"; k.cap=r(inlen*expand+3); k.chunk=0; if(r.chance(1,5)) k.cap=r(4); }
	return k;
}

static int do_rand(int n,int maxlen)
{
	vt::rng r(vt::envl("VERIF_SEED",1)*104729+n*31+maxlen);
	for(int i=0;i<n;i++) {
		std::string s=rand_string(r,maxlen);
		sinkspec a=mk_sink(r,s.size(),2), b=mk_sink(r,s.size(),3), c=mk_sink(r,s.size(),2);
		reset_every(100,"rand");
		everything(s,&a,&b,&c);
	}
	return 0;
}

static int do_big(int n,int maxlen)
{
	vt::rng r(vt::envl("VERIF_SEED",1)*15485863+n);
	for(int i=0;i<n;i++) {
		std::string s=rand_string(r,maxlen);
		if(i==0) while((int)s.size()<maxlen) s+=rand_string(r,maxlen-s.size());
		tr.line(vt::J().s("e","Reset").s("kind","big").str());
		// one family per event keeps the events small enough
		{ std::vector<result> rs; esc_family(s,rs,0); call_event(s,rs); }
		{ std::vector<result> rs; urlenc_family(s,rs,0); urldec_family(s,rs); call_event(s,rs); }
		{ std::vector<result> rs; b64enc_family(s,rs,0); b64dec_family(s,rs); call_event(s,rs); }
		round_events(s);
	}
	return 0;
}

static int do_sizes(int from,int maxn)
{
	using namespace cppcms;
	vt::rng r(vt::envl("VERIF_SEED",1)*6151+maxn);
	for(int n=from;n<=maxn;n++) {
		reset_every(100,"sizes");
		tr.line(vt::J().s("e","Sizes").i("n",n).i("enc",b64url::encoded_size(n)).i("dec",b64url::decoded_size(n)).str());
		// n arbitrary bytes into a buffer of exactly encoded_size(n); the text back into exactly decoded_size()
		std::string s; for(int i=0;i<n;i++) s+=char(r(256));
		std::vector<result> rs;
		b64enc_family(s,rs,0);
		call_event(s,rs);
		std::string t=b64url::encode(s);
		rs.clear(); b64dec_family(t,rs); call_event(t,rs);
		// n arbitrary characters (also outside the alphabet) to the decoders
		if(n>128 && n%8!=0 && n%8!=5) continue;
		std::string u; for(int i=0;i<n;i++) u+= r.chance(1,5) ? char(r(256)) : "ABCXYZabcxyz0189-_"[r(18)];
		rs.clear(); b64dec_family(u,rs); call_event(u,rs);
	}
	return 0;
}

static std::string jbytes(std::string const &v)
{
	std::string o="[";
	char t[8];
	for(size_t i=0;i<v.size();i++) { if(i) o+=','; snprintf(t,sizeof(t),"%u",(unsigned)(uchar)v[i]); o+=t; }
	return o+"]";
}

// prefix #k: 0 = "", 1..256 = one byte, 257.. = two bytes
static std::string prefix_no(int k)
{
	std::string pre;
	if(k>=1 && k<=256) pre+=char(k-1);
	else if(k>256) { pre+=char((k-257)>>8); pre+=char((k-257)&0xFF); }
	return pre;
}

// One "Row" event per prefix: the prefix extended by every byte c, through the std::string form of each
// function (arrays indexed by c).  Every other form (stream buffer, stream, pointer, filter, widget) is run
// as well; an input on which any of them produces something else than the std::string form, reports a
// failure or touches a guard byte is additionally logged as a complete "Call" event, so that TLC judges
// each form on its own there.  (Equality of two outputs is all the driver decides.)
static int do_rows(int first,int last,bool b64only)
{
	using namespace cppcms;
	for(int k=first;k<last && k<1+256+65536;k++) {
		std::string pre=prefix_no(k);
		std::string esc="[",uenc="[",udec="[",rtu="[",benc="[",bdec="[",bdok="[",rtb="[",rtbok="[";
		std::vector<std::string> odd;
		for(int c=0;c<256;c++) {
			std::string s=pre+char(c);
			std::vector<result> rs;
			if(!b64only) { esc_family(s,rs,0); urlenc_family(s,rs,0); urldec_family(s,rs); }
			b64enc_family(s,rs,0);
			b64dec_family(s,rs);
			std::map<std::string,result const *> prim;
			bool same=true;
			static char const *fam_of[][2]={{"escape_","escape_str"},{"filter_escape","escape_str"},{"widget_","escape_str"},
				{"urlencode_","urlencode_str"},{"filter_urlencode","urlencode_str"},{"urldecode_","urldecode_str"},
				{"b64enc_","b64enc_str"},{"filter_b64","b64enc_str"},{"b64dec_","b64dec_str"}};
			for(size_t i=0;i<rs.size();i++) prim[rs[i].fn]=&rs[i];
			for(size_t i=0;i<rs.size();i++) {
				result const &r=rs[i];
				char const *pf=0;
				for(size_t q=0;q<sizeof(fam_of)/sizeof(fam_of[0]);q++) if(r.fn.compare(0,strlen(fam_of[q][0]),fam_of[q][0])==0) { pf=fam_of[q][1]; break; }
				result const *pr = pf && prim.count(pf) ? prim[pf] : 0;
				if(!pr || r.out!=pr->out || r.fail || !r.canary) same=false;
				if(r.fn=="b64enc_ptr" && (r.ret!=(long)r.out.size() || r.size!=(long)r.out.size() || r.cap!=(long)r.out.size())) same=false;
				if(r.fn=="b64dec_ptr" && (r.ret!=(long)r.out.size() || r.size!=r.ret || prim["b64dec_str"]->ret!=1)) same=false;
			}
			if(!same) odd.push_back(vt::J().s("e","Call").bytes("in",s).raw("r",group(rs)).str());
			char const *sep = c ? "," : "";
			if(!b64only) {
				esc+=sep+jbytes(prim["escape_str"]->out);
				uenc+=sep+jbytes(prim["urlencode_str"]->out);
				udec+=sep+jbytes(prim["urldecode_str"]->out);
				rtu+=sep+jbytes(util::urldecode(prim["urlencode_str"]->out));
			}
			benc+=sep+jbytes(prim["b64enc_str"]->out);
			bdec+=sep+jbytes(prim["b64dec_str"]->out);
			bdok+=sep; bdok+= prim["b64dec_str"]->ret==1 ? "1" : "0";
			std::string back; bool ok=b64url::decode(prim["b64enc_str"]->out,back);
			rtb+=sep+jbytes(back);
			rtbok+=sep; rtbok+= ok ? "1" : "0";
		}
		reset_every(40,"rows");
		vt::J j;
		j.s("e","Row").bytes("pre",pre).b("all",!b64only);
		if(!b64only) j.raw("esc",esc+"]").raw("urlenc",uenc+"]").raw("urldec",udec+"]").raw("rt_url",rtu+"]");
		j.raw("b64enc",benc+"]").raw("rt_b64",rtb+"]").raw("rt_b64_ok",rtbok+"]");
		if(!b64only) j.raw("b64dec",bdec+"]").raw("b64dec_ok",bdok+"]");   // the input itself as (arbitrary) text for the decoder
		tr.line(j.str());
		for(size_t i=0;i<odd.size();i++) tr.line(odd[i]);
	}
	return 0;
}

// every one-byte extension of a given prefix as complete Call events (used to explain a rejected Row)
static int do_ext(char const *hex)
{
	std::string pre;
	for(size_t i=0;i+1<strlen(hex);i+=2) { unsigned v=0; sscanf(hex+i,"%2x",&v); pre+=char(v); }
	for(int c=0;c<256;c++) {
		tr.line(vt::J().s("e","Reset").s("kind","ext").str());
		everything(pre+char(c),0,0,0);
	}
	return 0;
}

static int do_ptr1mod4()
{
	// smallest inputs first, each in an execution of its own
	static char const *inputs[]={"A","AAAAA","QUJDRA","-_-_-_-_x"};
	for(size_t i=0;i<sizeof(inputs)/sizeof(inputs[0]);i++) {
		std::string s=inputs[i];
		if(s.size()%4!=1) s.resize(s.size()-(s.size()%4)+1,'A');
		if(s.size()%4!=1) continue;
		tr.line(vt::J().s("e","Reset").s("kind","ptr1mod4").str());
		std::vector<result> rs;
		b64dec_ptr(s,rs);
		call_event(s,rs);
	}
	return 0;
}

// ------------------------------------------------------------------ multi-piece writes through one filter instance
// A streamable object whose operator<< writes its text in several pieces: how = 0 one ostream::write per piece,
// 1 operator<<(std::string) per piece, 2 character by character (put)
struct multi { std::vector<std::string> pieces; int how; };
static std::ostream &operator<<(std::ostream &o,multi const &m)
{
	for(size_t i=0;i<m.pieces.size();i++) {
		std::string const &p=m.pieces[i];
		if(m.how==0) o.write(p.data(),p.size());
		else if(m.how==1) o<<p;
		else for(size_t k=0;k<p.size();k++) o.put(p[k]);
	}
	return o;
}

static std::string piece_text(vt::rng &r,size_t len)
{
	static char const special[]="<>&\"';#%+ \\\n\t-_.~/=";
	std::string s;
	for(size_t i=0;i<len;i++) {
		unsigned k=r(10);
		s+= k<3 ? special[r(sizeof(special)-1)] : k<4 ? char(r(256)) : char(0x21+r(0x5E));
	}
	return s;
}

template<typename Obj>
static void filters_on(Obj const &obj,std::string const &in,std::vector<size_t> const &lens,int how)
{
	using namespace cppcms;
	std::vector<result> rs;
	{ result r("filter_escape"); std::ostringstream os; os<<filters::escape(filters::streamable(obj)); r.fail=!os; r.out=os.str(); rs.push_back(r); }
	{ result r("filter_urlencode"); std::ostringstream os; os<<filters::urlencode(filters::streamable(obj)); r.fail=!os; r.out=os.str(); rs.push_back(r); }
	{ result r("filter_b64"); std::ostringstream os; os<<filters::base64_urlencode(filters::streamable(obj)); r.fail=!os; r.out=os.str(); rs.push_back(r); }
	{ result r("filter_jsescape"); std::ostringstream os; os<<filters::jsescape(filters::streamable(obj)); r.fail=!os; r.out=os.str(); rs.push_back(r); }
	tr.line(vt::J().s("e","Call").bytes("in",in).a("pieces",lens).i("how",how).raw("r",group(rs)).str());
}

static void pieces_case(vt::rng &r,std::vector<size_t> const &lens,int how)
{
	multi m; m.how=how;
	std::string in;
	for(size_t i=0;i<lens.size();i++) { m.pieces.push_back(piece_text(r,lens[i])); in+=m.pieces.back(); }
	filters_on(m,in,lens,how);
}

static int do_pieces(int shard,int nshards)
{
	bool thorough = std::string(getenv("VERIF_TIER")?getenv("VERIF_TIER"):"quick")=="thorough";
	vt::rng r(vt::envl("VERIF_SEED",1)*49157+shard);
	static const size_t L2[]={0,1,2,63,64,126,127,128,129,200,1000};
	static const size_t L3q[]={0,1,63,127,128,129,200};
	std::vector<size_t> l2(L2,L2+11), l3 = thorough ? l2 : std::vector<size_t>(L3q,L3q+7);
	unsigned long idx=0;
	#define MINE() ((int)(idx++%nshards)==shard)
	#define CASE(lens,how) do { reset_every(40,"pieces"); pieces_case(r,lens,how); } while(0)
	for(size_t a=0;a<l2.size();a++) for(size_t b=0;b<l2.size();b++) {
		if(!MINE()) continue;
		std::vector<size_t> v; v.push_back(l2[a]); v.push_back(l2[b]);
		CASE(v,0);
		if((a+b)%3==0) CASE(v,1);
	}
	for(size_t a=0;a<l3.size();a++) for(size_t b=0;b<l3.size();b++) for(size_t c=0;c<l3.size();c++) {
		if(!MINE()) continue;
		std::vector<size_t> v; v.push_back(l3[a]); v.push_back(l3[b]); v.push_back(l3[c]);
		CASE(v,0);
	}
	// character by character, and one piece only
	for(size_t a=0;a<l2.size();a++) {
		if(!MINE()) continue;
		std::vector<size_t> v; v.push_back(l2[a]);
		CASE(v,2); CASE(v,0); CASE(v,1);
	}
	// random piece sequences
	int nrand = thorough ? 3000 : 240;
	for(int i=0;i<nrand;i++) {
		if(!MINE()) continue;
		std::vector<size_t> v;
		int np=1+r(6);
		for(int k=0;k<np;k++) v.push_back(r.chance(1,2) ? l2[r(l2.size())] : r.chance(1,2) ? r(300) : 100+r(60));
		CASE(v,r.chance(1,6) ? 2 : r(2));
	}
	// booster::locale::format: a short literal / argument, then a long argument
	for(size_t a=0;a<l2.size();a++) for(int w=0;w<2;w++) {
		if(!MINE()) continue;
		std::string who=piece_text(r,w?1+r(20):0), text=piece_text(r,l2[a]);
		booster::locale::format f("<{1}> wrote: {2}");
		f % who % text;
		std::ostringstream plain; plain<<f;
		std::vector<size_t> v; v.push_back(who.size()); v.push_back(text.size());
		reset_every(40,"pieces");
		filters_on(f,plain.str(),v,3);
	}
	return 0;
}

// ------------------------------------------------------------------ (begin,end) ranges inside larger buffers
// Every entry point that takes a range is called on a sub-range of a larger buffer whose neighbouring bytes are
// adversarial (hex digits, '%', '+', '=', base64 characters, NUL, 0xFF) and on ranges that end on the last byte
// before / start on the first byte after an inaccessible page; the std::string overloads are called on a copy of
// exactly the range.  TLC judges every result by the range content alone and demands that the range forms
// equal the copy's result (RangeLocal).  An access outside the range next to the inaccessible page kills the
// process: the signal handler logs a "Died" event, which no action of the specification accepts.
static char const *cur_fn="";
static std::string cur_in, cur_ctx;
static void died(int sig)
{
	if(tr.f) {
		fflush(tr.f);
		std::string l=vt::J().s("e","Died").i("sig",sig).s("fn",cur_fn).s("ctx",cur_ctx).bytes("in",cur_in).str();
		tr.line("{\"e\":\"Reset\",\"kind\":\"died\"}");
		tr.line(l);
		fflush(tr.f);
	}
	_exit(0);
}

struct pagebox {
	char *base; long ps;
	pagebox()
	{
		ps=sysconf(_SC_PAGESIZE);
		base=(char*)mmap(0,3*ps,PROT_NONE,MAP_PRIVATE|MAP_ANONYMOUS,-1,0);
		if(base==MAP_FAILED || mprotect(base+ps,ps,PROT_READ|PROT_WRITE)!=0) { perror("mmap"); exit(3); }
	}
	char *lo() { return base+ps; }      // first accessible byte
	char *hi() { return base+2*ps; }    // first inaccessible byte after the page
	void fill(char c) { memset(lo(),c,ps); }
};

static pagebox *inbox=0, *outbox=0;

// the range forms on [b,e); target buffers of the pointer forms end at an inaccessible page when paged
static void range_forms(char const *b,char const *e,std::string const &ctx,bool paged,std::vector<result> &rs)
{
	using namespace cppcms;
	size_t first=rs.size();
	size_t n=e-b;
	uchar const *ub=reinterpret_cast<uchar const *>(b), *ue=reinterpret_cast<uchar const *>(e);
	cur_in.assign(b,n); cur_ctx=ctx;
	cur_fn="urldecode_ptr";
	{ result r("urldecode_ptr"); r.out=util::urldecode(b,e); rs.push_back(r); }
	cur_fn="escape_sb";
	{ result r("escape_sb"); sinkbuf sb(-1,0); r.fail=util::escape(b,e,sb)!=0; r.out=sb.data; rs.push_back(r); }
	cur_fn="escape_os";
	{ result r("escape_os"); std::ostringstream os; util::escape(b,e,os); r.fail=!os; r.out=os.str(); rs.push_back(r); }
	cur_fn="urlencode_sb";
	{ result r("urlencode_sb"); sinkbuf sb(-1,0); r.fail=util::urlencode(b,e,sb)!=0; r.out=sb.data; rs.push_back(r); }
	cur_fn="urlencode_os";
	{ result r("urlencode_os"); std::ostringstream os; util::urlencode(b,e,os); r.fail=!os; r.out=os.str(); rs.push_back(r); }
	cur_fn="b64enc_os";
	{ result r("b64enc_os"); std::ostringstream os; b64url::encode(ub,ue,os); r.fail=!os; r.out=os.str(); rs.push_back(r); }
	int es=b64url::encoded_size(n), ds=b64url::decoded_size(n);
	size_t dcap = ds>=0 ? ds : (n/4)*3;
	if(!paged) {
		cur_fn="b64enc_ptr";
		{ result r("b64enc_ptr"); guarded g(es<0?0:es); uchar *end=b64url::encode(ub,ue,g.p());
		  r.ret=end-g.p(); r.size=es; r.canary=g.intact(); r.cap=g.cap; r.out=g.bytes(r.ret); rs.push_back(r); }
		cur_fn="b64dec_ptr";
		{ result r("b64dec_ptr"); guarded g(dcap); uchar *end=b64url::decode(ub,ue,g.p());
		  r.ret=end-g.p(); r.size=ds; r.canary=g.intact(); r.cap=g.cap; r.out=g.bytes(r.ret); rs.push_back(r); }
	}
	else {
		// exactly sized targets whose last byte is the last accessible byte
		cur_fn="b64enc_ptr";
		{ result r("b64enc_ptr"); outbox->fill('\xEE'); size_t cap=es<0?0:es; uchar *t=reinterpret_cast<uchar*>(outbox->hi()-cap);
		  uchar *end=b64url::encode(ub,ue,t); r.ret=end-t; r.size=es; r.cap=cap;
		  r.canary = t[-1]==0xEE; r.out.assign(reinterpret_cast<char*>(t),(r.ret<0||(size_t)r.ret>cap)?cap:r.ret); rs.push_back(r); }
		cur_fn="b64dec_ptr";
		{ result r("b64dec_ptr"); outbox->fill('\xEE'); uchar *t=reinterpret_cast<uchar*>(outbox->hi()-dcap);
		  uchar *end=b64url::decode(ub,ue,t); r.ret=end-t; r.size=ds; r.cap=dcap;
		  r.canary = t[-1]==0xEE; r.out.assign(reinterpret_cast<char*>(t),(r.ret<0||(size_t)r.ret>dcap)?dcap:r.ret); rs.push_back(r); }
	}
	cur_fn="";
	for(size_t i=first;i<rs.size();i++) rs[i].ctx=ctx;
}

// the std::string overloads on a copy of exactly the range
static void copy_forms(std::string const &c,std::vector<result> &rs)
{
	using namespace cppcms;
	size_t first=rs.size();
	{ result r("escape_str"); r.out=util::escape(c); rs.push_back(r); }
	{ result r("urlencode_str"); r.out=util::urlencode(c); rs.push_back(r); }
	{ result r("urldecode_str"); r.out=util::urldecode(c); rs.push_back(r); }
	{ result r("b64enc_str"); r.out=b64url::encode(c); r.size=b64url::encoded_size(c.size()); rs.push_back(r); }
	{ result r("b64dec_str"); std::string o; bool ok=b64url::decode(c,o); r.ret=ok?1:0; r.out=o; r.size=b64url::decoded_size(c.size()); rs.push_back(r); }
	for(size_t i=first;i<rs.size();i++) rs[i].ctx="copy";
}

static std::string hexof(std::string const &s)
{
	static char const d[]="0123456789abcdef";
	std::string o;
	for(size_t i=0;i<s.size();i++) { o+=d[(uchar)s[i]>>4]; o+=d[(uchar)s[i]&15]; }
	return o;
}

static void range_event(std::string const &c,std::vector<result> const &rs)
{
	reset_every(60,"ranges");
	tr.line(vt::J().s("e","Range").bytes("in",c).raw("r",group(rs)).str());
}

// the content c as a range inside buffers with every adversarial continuation
static void range_in_buffers(std::string const &c)
{
	static char const *after[]={"0","4","41","a","F","f0","%","%41","+","=","==","A","QQ","-","_","<","&"};
	std::vector<result> rs;
	copy_forms(c,rs);
	for(size_t k=0;k<sizeof(after)/sizeof(after[0])+3;k++) {
		std::string aft = k<sizeof(after)/sizeof(after[0]) ? std::string(after[k]) : k==sizeof(after)/sizeof(after[0]) ? std::string("\0\0",2) :
				  k==sizeof(after)/sizeof(after[0])+1 ? std::string("\xFF\xFF") : std::string();
		static char const *before[]={"%","%4","=","A"};
		std::string pre=before[k%4];
		std::string buf=pre+c+aft;
		// an exactly sized heap block, so that nothing but the chosen bytes follows inside the allocation
		char *m=(char*)malloc(buf.size()?buf.size():1);
		memcpy(m,buf.data(),buf.size());
		range_forms(m+pre.size(),m+pre.size()+c.size(),"before="+hexof(pre)+",after="+hexof(aft),false,rs);
		free(m);
	}
	range_event(c,rs);
}

// the content c ending on the last accessible byte, and starting on the first one
static void range_at_pages(std::string const &c)
{
	std::vector<result> rs;
	copy_forms(c,rs);
	inbox->fill('4');
	char *p=inbox->hi()-c.size();
	memcpy(p,c.data(),c.size());
	if(c.size()<(size_t)inbox->ps) p[-1]='%';
	range_forms(p,p+c.size(),"pageend",true,rs);
	inbox->fill('A');
	p=inbox->lo();
	memcpy(p,c.data(),c.size());
	p[c.size()]='4'; p[c.size()+1]='1';
	range_forms(p,p+c.size(),"pagestart,after=3431",true,rs);
	range_event(c,rs);
}

static int do_ranges(int shard,int nshards)
{
	bool thorough = std::string(getenv("VERIF_TIER")?getenv("VERIF_TIER"):"quick")=="thorough";
	vt::rng r(vt::envl("VERIF_SEED",1)*86243+shard);
	inbox=new pagebox(); outbox=new pagebox();
	signal(SIGSEGV,died); signal(SIGBUS,died);
	std::vector<std::string> contents;
	// all strings up to length 3 (4 in the thorough tier) over the bytes the codecs treat specially
	static char const sigma[]={'%','+','4','a','G','=','Q','<','\xFF'};
	int maxlen = thorough ? 4 : 3;
	{
		std::vector<std::string> cur(1,std::string());
		contents.push_back("");
		for(int len=1;len<=maxlen;len++) {
			std::vector<std::string> next;
			for(size_t i=0;i<cur.size();i++) for(size_t k=0;k<sizeof(sigma);k++) next.push_back(cur[i]+sigma[k]);
			contents.insert(contents.end(),next.begin(),next.end());
			cur.swap(next);
		}
	}
	// every prefix / suffix / infix range of buffers with malformed tails
	static char const *curated[]={"q=%41","a=%4","%","%4","%G1","%4G","%%41","x%2","+%2b","k=v&x=%","QUJDRA","QUJD=","QQ==","-_-_A","QUJDRUY",
		"<a href='x'>&","a&amp;b","%C3%A9+%e2%82%ac"};
	std::set<std::string> seen(contents.begin(),contents.end());
	for(size_t q=0;q<sizeof(curated)/sizeof(curated[0]);q++) {
		std::string b=curated[q];
		for(size_t i=0;i<=b.size();i++) for(size_t j=i;j<=b.size();j++) {
			std::string c=b.substr(i,j-i);
			if(seen.insert(c).second) contents.push_back(c);
		}
	}
	unsigned long idx=0;
	// pass 1: inside heap buffers with adversarial neighbours
	for(size_t i=0;i<contents.size();i++) if((int)(idx++%nshards)==shard) range_in_buffers(contents[i]);
	// random buffers of the other drivers' families: all ranges of short ones, sampled ranges of long ones, in place
	int nbuf = thorough ? 2500 : 90;
	std::vector<std::string> sampled;
	for(int i=0;i<nbuf;i++) {
		std::string b=rand_string(r,(i%10==9)?400:24);
		if((int)(idx++%nshards)!=shard) continue;
		std::vector<std::pair<size_t,size_t> > rg;
		if(b.size()<=5) { for(size_t x=0;x<=b.size();x++) for(size_t y=x;y<=b.size();y++) rg.push_back(std::make_pair(x,y)); }
		else for(int k=0;k<6;k++) {
			size_t x= k==0 ? 0 : r(b.size()+1), y= k==1 ? b.size() : x+r(b.size()-x+1);
			if(k==0) { x=0; y=r(b.size()+1); }
			rg.push_back(std::make_pair(x,y));
		}
		char *m=(char*)malloc(b.size()?b.size():1);
		memcpy(m,b.data(),b.size());
		for(size_t k=0;k<rg.size();k++) {
			std::string c=b.substr(rg[k].first,rg[k].second-rg[k].first);
			std::vector<result> rs;
			copy_forms(c,rs);
			range_forms(m+rg[k].first,m+rg[k].second,"inplace,after="+hexof(b.substr(rg[k].second,2)),false,rs);
			range_event(c,rs);
			if(c.size()<=64 || k==0) sampled.push_back(c);
		}
		free(m);
	}
	// pass 2: next to inaccessible pages (an access outside the range ends the run with a Died event)
	idx=0;
	for(size_t i=0;i<contents.size();i++) if((int)(idx++%nshards)==shard) range_at_pages(contents[i]);
	for(size_t i=0;i<sampled.size();i++) range_at_pages(sampled[i]);
	return 0;
}

// ------------------------------------------------------------------ form widget rendering
// Every widget that writes caller-supplied strings into HTML is rendered (base_widget::render: label, error
// message, input, help; html / xhtml; as_p / as_table / as_ul / as_dl / as_space) once with a placeholder in one
// slot and once with each test string in that slot.  TLC demands   rendering = Template[placeholder := X]   with
// X an acceptable escaping of the string (mechanism layer: X = Escape(string)).
// Slots driven (the ones the framework escapes): message, help, error_message (std::string and locale::message),
// the value of text / password / hidden / textarea / email / regex_field, checkbox identification, submit value,
// option captions and option ids of select / select_multiple / radio through all four add() overloads.
// Raw by design and therefore not driven: id(), name(), attributes_string() (written verbatim; they are HTML
// identifiers / markup supplied by the programmer), numeric values (digits).
typedef std::function<void(cppcms::widgets::base_widget &,std::string const &)> slot_setter;
struct wcase {
	std::string widget, slot;
	std::function<cppcms::widgets::base_widget *()> make;
	slot_setter set;
};

static std::string render_widget(wcase const &c,std::string const &s,int html,int list,bool with_id)
{
	using namespace cppcms;
	std::unique_ptr<widgets::base_widget> w(c.make());
	w->name("n1");
	if(with_id) w->id("i1");
	c.set(*w,s);
	std::ostringstream os;
	form_context fc(os,form_flags::html_type(html),form_flags::html_list_type(list));
	w->render(fc);
	return os.str();
}

template<typename W> static cppcms::widgets::base_widget *mk() { return new W(); }
static cppcms::widgets::base_widget *mk_regex() { return new cppcms::widgets::regex_field(".*"); }
static cppcms::widgets::base_widget *mk_select_sel() { cppcms::widgets::select *w=new cppcms::widgets::select(); w->add("first","f"); w->selected_id("f"); return w; }
static cppcms::widgets::base_widget *mk_radio_v() { cppcms::widgets::radio *w=new cppcms::widgets::radio(); w->vertical(true); w->add("first","f"); return w; }
static cppcms::widgets::base_widget *mk_radio_h() { cppcms::widgets::radio *w=new cppcms::widgets::radio(); w->vertical(false); w->add("first","f"); w->selected_id("f"); return w; }
static cppcms::widgets::base_widget *mk_selm() { cppcms::widgets::select_multiple *w=new cppcms::widgets::select_multiple(); w->add("first","f",true); return w; }

template<typename W> static void add_value_slot(std::vector<wcase> &cs,char const *name,cppcms::widgets::base_widget *(*make)())
{
	wcase c; c.widget=name; c.slot="value"; c.make=make;
	c.set=[](cppcms::widgets::base_widget &w,std::string const &s){ dynamic_cast<W&>(w).value(s); w.message("Label"); };
	cs.push_back(c);
}

template<typename W> static void add_option_slots(std::vector<wcase> &cs,char const *name,cppcms::widgets::base_widget *(*make)())
{
	using cppcms::locale::message;
	struct { char const *slot; slot_setter set; } const v[]={
		{"add(string):caption",      [](cppcms::widgets::base_widget &w,std::string const &s){ dynamic_cast<W&>(w).add(s); }},
		{"add(string,id):caption",   [](cppcms::widgets::base_widget &w,std::string const &s){ dynamic_cast<W&>(w).add(s,std::string("k")); }},
		{"add(string,id):id",        [](cppcms::widgets::base_widget &w,std::string const &s){ dynamic_cast<W&>(w).add(std::string("Caption"),s); }},
		{"add(message):caption",     [](cppcms::widgets::base_widget &w,std::string const &s){ dynamic_cast<W&>(w).add(message(s)); }},
		{"add(message,id):caption",  [](cppcms::widgets::base_widget &w,std::string const &s){ dynamic_cast<W&>(w).add(message(s),std::string("k")); }},
		{"add(message,id):id",       [](cppcms::widgets::base_widget &w,std::string const &s){ dynamic_cast<W&>(w).add(message("Caption"),s); }},
	};
	for(size_t i=0;i<sizeof(v)/sizeof(v[0]);i++) { wcase c; c.widget=name; c.slot=v[i].slot; c.make=make; c.set=v[i].set; cs.push_back(c); }
}

static void add_common_slots(std::vector<wcase> &cs,char const *name,cppcms::widgets::base_widget *(*make)())
{
	using cppcms::locale::message;
	struct { char const *slot; slot_setter set; } const v[]={
		{"message(string)",       [](cppcms::widgets::base_widget &w,std::string const &s){ w.message(s); }},
		{"message(message)",      [](cppcms::widgets::base_widget &w,std::string const &s){ w.message(message(s)); w.help("Help"); }},
		{"help(string)",          [](cppcms::widgets::base_widget &w,std::string const &s){ w.help(s); w.message("Label"); }},
		{"help(message)",         [](cppcms::widgets::base_widget &w,std::string const &s){ w.help(message(s)); }},
		{"error_message(string)", [](cppcms::widgets::base_widget &w,std::string const &s){ w.error_message(s); w.valid(false); w.message("Label"); }},
		{"error_message(message)",[](cppcms::widgets::base_widget &w,std::string const &s){ w.error_message(message(s)); w.valid(false); }},
	};
	for(size_t i=0;i<sizeof(v)/sizeof(v[0]);i++) { wcase c; c.widget=name; c.slot=v[i].slot; c.make=make; c.set=v[i].set; cs.push_back(c); }
}

static int do_widgets(int shard,int nshards)
{
	using namespace cppcms;
	bool thorough = std::string(getenv("VERIF_TIER")?getenv("VERIF_TIER"):"quick")=="thorough";
	std::vector<wcase> cs;
	add_value_slot<widgets::text>(cs,"text",&mk<widgets::text>);
	add_value_slot<widgets::password>(cs,"password",&mk<widgets::password>);
	add_value_slot<widgets::hidden>(cs,"hidden",&mk<widgets::hidden>);
	add_value_slot<widgets::textarea>(cs,"textarea",&mk<widgets::textarea>);
	add_value_slot<widgets::email>(cs,"email",&mk<widgets::email>);
	add_value_slot<widgets::regex_field>(cs,"regex_field",&mk_regex);
	{ wcase c; c.widget="checkbox"; c.slot="identification"; c.make=&mk<widgets::checkbox>;
	  c.set=[](widgets::base_widget &w,std::string const &s){ dynamic_cast<widgets::checkbox&>(w).identification(s); dynamic_cast<widgets::checkbox&>(w).value(true); }; cs.push_back(c); }
	{ wcase c; c.widget="submit"; c.slot="value(string)"; c.make=&mk<widgets::submit>;
	  c.set=[](widgets::base_widget &w,std::string const &s){ dynamic_cast<widgets::submit&>(w).value(s); }; cs.push_back(c); }
	{ wcase c; c.widget="submit"; c.slot="value(message)"; c.make=&mk<widgets::submit>;
	  c.set=[](widgets::base_widget &w,std::string const &s){ dynamic_cast<widgets::submit&>(w).value(locale::message(s)); }; cs.push_back(c); }
	add_option_slots<widgets::select>(cs,"select",&mk<widgets::select>);
	add_option_slots<widgets::select>(cs,"select(selected)",&mk_select_sel);
	add_option_slots<widgets::select_multiple>(cs,"select_multiple",&mk<widgets::select_multiple>);
	add_option_slots<widgets::select_multiple>(cs,"select_multiple(selected)",&mk_selm);
	add_option_slots<widgets::radio>(cs,"radio(vertical)",&mk_radio_v);
	add_option_slots<widgets::radio>(cs,"radio(horizontal)",&mk_radio_h);
	add_common_slots(cs,"text",&mk<widgets::text>);
	add_common_slots(cs,"password",&mk<widgets::password>);
	add_common_slots(cs,"textarea",&mk<widgets::textarea>);
	// (widgets::hidden renders the bare input only: no label, help or error message)
	add_common_slots(cs,"numeric<int>",&mk<widgets::numeric<int> >);
	add_common_slots(cs,"checkbox",&mk<widgets::checkbox>);
	add_common_slots(cs,"email",&mk<widgets::email>);
	add_common_slots(cs,"regex_field",&mk_regex);
	add_common_slots(cs,"file",&mk<widgets::file>);
	add_common_slots(cs,"submit",&mk<widgets::submit>);
	add_common_slots(cs,"select",&mk_select_sel);
	add_common_slots(cs,"select_multiple",&mk_selm);
	add_common_slots(cs,"radio",&mk_radio_v);

	// every string of length 1..2 over the markup characters, injection strings, ordinary text
	std::vector<std::string> strs;
	static char const mk5[]="<>&\"'";
	for(int a=0;a<5;a++) strs.push_back(std::string(1,mk5[a]));
	for(int a=0;a<5;a++) for(int b=0;b<5;b++) { std::string t; t+=mk5[a]; t+=mk5[b]; strs.push_back(t); }
	static char const *extra[]={"</option></select><script>alert(1)</script>","\" onmouseover=\"alert(1)","' onfocus='x","</textarea><b>","a&amp;b","&#39;&lt;",
		"plain text","Tom & Jerry <3","x"};   // (ASCII only: locale::message keys are US-ASCII, other bytes are dropped by booster)
	for(size_t i=0;i<sizeof(extra)/sizeof(extra[0]);i++) strs.push_back(extra[i]);
	static const std::string ph="QZJXKVPLH";
	static char const *hname[]={"html","xhtml"};
	static char const *lname[]={"as_p","as_table","as_ul","as_dl","as_space"};

	unsigned long idx=0;
	for(size_t ci=0;ci<cs.size();ci++) {
		wcase const &c=cs[ci];
		bool common = c.slot.find("message")==0 || c.slot.find("help")==0 || c.slot.find("error_message")==0;
		for(int html=0;html<2;html++) for(int list=0;list<5;list++) {
			// quick tier: the slots of the shared base_widget::render in two of the ten modes per case (all ten over the cases)
			// (and the option slots of the pre-selected / horizontal variants likewise)
			bool variant = c.widget.find("(selected)")!=std::string::npos || c.widget.find("(horizontal)")!=std::string::npos;
			if(!thorough && (common || variant) && (int)((ci+html*5+list)%5)!=0) continue;
			if((int)(idx++%nshards)!=shard) continue;
			bool with_id = (ci+list)%2==0;
			std::string tmpl=render_widget(c,ph,html,list,with_id);
			std::string cases="[";
			for(size_t k=0;k<strs.size();k++) {
				if(k) cases+=',';
				cases+=vt::J().bytes("in",strs[k]).bytes("out",render_widget(c,strs[k],html,list,with_id)).str();
			}
			cases+="]";
			reset_every(20,"widgets");
			tr.line(vt::J().s("e","Widget").s("w",c.widget).s("slot",c.slot).s("html",hname[html]).s("list",lname[list]).b("id",with_id)
				.bytes("ph",ph).bytes("tmpl",tmpl).raw("cases",cases).str());
		}
	}
	return 0;
}

static int do_urlsb()
{
	// util::urlencode(begin,end,streambuf&) into a sink that accepts only `cap` characters;
	// smallest inputs first, each in an execution of its own
	static struct { char const *in; long cap; } const cases[]={ {"a",0}, {"ab",1}, {" ",2}, {"a b c",4}, {"abc",3}, {"",0} };
	for(size_t i=0;i<sizeof(cases)/sizeof(cases[0]);i++) {
		tr.line(vt::J().s("e","Reset").s("kind","urlsb").str());
		sinkspec k; k.kind="cap"; k.cap=cases[i].cap; k.chunk=0;
		std::vector<result> rs;
		urlenc_sb_sink(cases[i].in,rs,&k);
		call_event(cases[i].in,rs);
	}
	return 0;
}

int main(int argc,char **argv)
{
	if(argc<2) return 2;
	std::string m=argv[1];
	tr.open();
	int rc=2;
	if(getenv("CODEC_NO_WIDGETS")) with_widgets=false;
	if(m=="exh" && argc>=5) rc=do_exh(atoi(argv[2]),atoi(argv[3]),atoi(argv[4]));
	else if(m=="rand" && argc>=4) rc=do_rand(atoi(argv[2]),atoi(argv[3]));
	else if(m=="big" && argc>=4) rc=do_big(atoi(argv[2]),atoi(argv[3]));
	else if(m=="sizes" && argc>=4) rc=do_sizes(atoi(argv[2]),atoi(argv[3]));
	else if(m=="ext" && argc>=3) rc=do_ext(argv[2]);
	else if(m=="rows" && argc>=5) rc=do_rows(atoi(argv[2]),atoi(argv[3]),std::string(argv[4])=="b64");
	else if(m=="ptr1mod4") rc=do_ptr1mod4();
	else if(m=="urlsb") rc=do_urlsb();
	else if(m=="widgets" && argc>=4) rc=do_widgets(atoi(argv[2]),atoi(argv[3]));
	else if(m=="ranges" && argc>=4) rc=do_ranges(atoi(argv[2]),atoi(argv[3]));
	else if(m=="pieces" && argc>=4) rc=do_pieces(atoi(argv[2]),atoi(argv[3]));
	tr.close();
	return rc;
}
