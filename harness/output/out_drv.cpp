// C03 Leg B driver: the real front-ends (HTTP, SCGI, FastCGI) of a real cppcms::service are handed one
// end of a socket pair through acceptor::accept(fd); an application executes a driver-chosen program
// of writes / flushes / setbuf / async flushes in a chosen io_mode; writev() - defined HERE, in the
// executable - imposes the short-write / would-block schedule on exactly that descriptor.  The client
// end de-frames the response with an independent decoder (deframe.h) and logs what the peer received.
//
//   out_drv <planfile>          one test family per line:   key=value key=value ...
//     proto=scgi|fcgi|http10|http11  ka=0|1  app=sync|async  mode=normal|nogzip|raw|async|async_raw
//     gz=0|1 cache=0|1 nh=<headers> nc=<cookies> cl=0|1 fb=0|1 prog=W5,F,S2,P,A,Z,B0  sched=<s>  sndbuf=<n>
//     sched: all | sweep:<maxpos> | cuts:<p>[e<k>],... | chunk:<k>:<every> | rand:<seed>:<style>
//
// Trace (ND-JSON, env VERIF_OUT): Reset, App, Sock, Hdr, Wire, Eof, Frame, Cache, Hang  (see spec/Output/OutTrace.tla)
#include "common/vtrace.h"
#include "output/deframe.h"

#include <cppcms/service.h>
#include <cppcms/application.h>
#include <cppcms/applications_pool.h>
#include <cppcms/mount_point.h>
#include <cppcms/http_response.h>
#include <cppcms/http_request.h>
#include <cppcms/http_context.h>
#include <cppcms/http_cookie.h>
#include <cppcms/cache_interface.h>
#include <cppcms/cache_pool.h>
#include <cppcms/json.h>
#include <booster/aio/io_service.h>
#include <booster/thread.h>
#include <booster/log.h>
#include "cgi_api.h"
#include "scgi_api.h"
#include "http_api.h"
#include "fastcgi_api.h"
#include "base_cache.h"

#include <dlfcn.h>
#include <sys/uio.h>
#include <sys/socket.h>
#include <sys/un.h>
#include <netinet/in.h>
#include <netinet/tcp.h>
#include <arpa/inet.h>
#include <poll.h>
#include <fcntl.h>
#include <errno.h>
#include <unistd.h>
#include <signal.h>
#include <pthread.h>
#include <time.h>
#include <map>
#include <fstream>
#include <iostream>
#include <algorithm>
#include <functional>

// --------------------------------------------------------------------------------------------- log
static pthread_mutex_t g_log_mx = PTHREAD_MUTEX_INITIALIZER;
static std::vector<std::string> g_log;
static vt::out g_out;
static long g_sock_events = 0;   // number of Sock events of the current execution (activity marker)

static void logline(std::string const &s)
{
	pthread_mutex_lock(&g_log_mx);
	g_log.push_back(s);
	pthread_mutex_unlock(&g_log_mx);
}
static void flushlog()
{
	pthread_mutex_lock(&g_log_mx);
	for(size_t i=0;i<g_log.size();i++) g_out.line(g_log[i]);
	g_log.clear();
	pthread_mutex_unlock(&g_log_mx);
}

// a crash inside the library while producing the response is an observation, not a harness failure
static volatile long g_plan_line = 0;
static void on_crash(int sig)
{
	static volatile int once = 0;
	if(__sync_fetch_and_add(&once,1)) _exit(7);
	char b[96]; snprintf(b,sizeof(b),"{\"e\":\"Died\",\"sig\":%d}",sig);
	if(pthread_mutex_trylock(&g_log_mx)==0) { g_log.push_back(b); pthread_mutex_unlock(&g_log_mx); flushlog(); }
	else g_out.line(b);
	if(g_out.f) fflush(g_out.f);
	char m[64]; int n = snprintf(m,sizeof(m),"died=%ld sig=%d\n",(long)g_plan_line,sig);
	if(write(1,m,n)<0) {}
	_exit(7);
}

// ------------------------------------------------------------------------------------ the schedule
struct Cut { long pos; int eagain; };
struct Sched {
	int kind;                     // 0 accept all, 1 cut list, 2 random, 3 chunk:k:every
	std::vector<Cut> cuts;        // sorted by pos
	size_t ci;
	vt::rng r;
	int style;
	long k, every, calls;
	long cum;                     // bytes accepted on the target so far
	long ncalls, nshort, neagain;
	Sched() : kind(0), ci(0), r(1), style(0), k(0), every(0), calls(0), cum(0), ncalls(0), nshort(0), neagain(0) {}
	// returns -1 for would-block, else the number of bytes this call may accept (<= total)
	long decide(long total,bool nonblock)
	{
		calls++;
		switch(kind) {
		case 1:
			while(ci < cuts.size() && cuts[ci].pos < cum) ci++;
			if(ci < cuts.size() && cuts[ci].pos == cum) {
				if(cuts[ci].eagain > 0 && nonblock) { cuts[ci].eagain--; return -1; }
				ci++;
			}
			if(ci < cuts.size()) return std::min(total,cuts[ci].pos - cum);
			return total;
		case 2: {
			unsigned pe = style==0 ? 10 : style==1 ? 30 : style==2 ? 3 : 15;
			if(nonblock && r(100) < pe) return -1;
			unsigned c = r(100);
			long lim;
			if(style==2) {  // large bodies: mostly big pieces, a few tiny ones
				if(c < 50) lim = total;
				else if(c < 75) lim = 1 + r(65536);
				else if(c < 90) lim = 1 + r(4096);
				else lim = 1 + r(16);
			}
			else {
				if(c < 25) lim = total;
				else if(c < 50) lim = 1 + r(8);
				else if(c < 80) lim = 1 + r(64);
				else lim = 1 + r(1024);
			}
			return std::min(total,lim);
		}
		case 3:
			if(nonblock && every > 0 && calls % every == 0) return -1;
			return std::min(total,k);
		default:
			return total;
		}
	}
};

static pthread_mutex_t g_sched_mx = PTHREAD_MUTEX_INITIALIZER;
static volatile int g_target_fd = -1;
static Sched g_sched;
static volatile int g_in_writev = 0;

typedef ssize_t (*writev_fn)(int,const struct iovec *,int);

extern "C" ssize_t writev(int fd,const struct iovec *iov,int cnt)
{
	static writev_fn real = 0;
	if(!real) real = (writev_fn)dlsym(RTLD_NEXT,"writev");
	if(fd != g_target_fd || fd < 0)
		return real(fd,iov,cnt);
	long total = 0;
	for(int i=0;i<cnt;i++) total += iov[i].iov_len;
	int fl = fcntl(fd,F_GETFL,0);
	bool nonblock = fl >= 0 && (fl & O_NONBLOCK);
	pthread_mutex_lock(&g_sched_mx);
	long lim = total==0 ? 0 : g_sched.decide(total,nonblock);
	g_sched.ncalls++;
	pthread_mutex_unlock(&g_sched_mx);
	if(lim < 0) {
		pthread_mutex_lock(&g_sched_mx); g_sched.neagain++; g_sock_events++; pthread_mutex_unlock(&g_sched_mx);
		logline(vt::J().s("e","Sock").i("offered",total).i("iov",cnt).b("eagain",true).str());
		errno = EAGAIN;
		return -1;
	}
	if(lim == 0 && total > 0) lim = 1;
	struct iovec tmp[64];
	int n = 0; long rest = lim;
	for(int i=0;i<cnt && i<64 && rest>0;i++) {
		if(iov[i].iov_len == 0) continue;
		tmp[n].iov_base = iov[i].iov_base;
		tmp[n].iov_len = (long)iov[i].iov_len < rest ? iov[i].iov_len : (size_t)rest;
		rest -= tmp[n].iov_len;
		n++;
	}
	__sync_fetch_and_add(&g_in_writev,1);
	ssize_t r = real(fd,tmp,n);
	int err = errno;
	pthread_mutex_lock(&g_sched_mx);
	if(r > 0) { g_sched.cum += r; if(r < total) g_sched.nshort++; }
	g_sock_events++;
	pthread_mutex_unlock(&g_sched_mx);
	if(r >= 0)
		logline(vt::J().s("e","Sock").i("offered",total).i("iov",cnt).i("accepted",r).str());
	else if(err == EAGAIN || err == EWOULDBLOCK)
		logline(vt::J().s("e","Sock").i("offered",total).i("iov",cnt).b("eagain",true).b("kernel",true).str());
	else
		logline(vt::J().s("e","Sock").i("offered",total).i("iov",cnt).i("err",err).str());
	__sync_fetch_and_sub(&g_in_writev,1);
	errno = err;
	return r;
}

// ------------------------------------------------------------------------------- the test program
struct Op { char c; long n; };

struct Exec {
	std::string proto;      // scgi fcgi http10 http11
	bool ka;                // client asks for keep-alive / FCGI_KEEP_CONN
	bool app_async;
	std::string mode;       // normal nogzip raw async async_raw
	bool gz;                // client sends Accept-Encoding: gzip
	bool cache;
	int nh, nc;
	bool cl;                // application sets Content-Length itself
	bool fb;                // full asynchronous buffering (initial)
	int rid;                // FastCGI request id of this request
	std::vector<Op> prog;
	std::string progs;
	// derived
	bool raw;
	std::string raw_header;
	long total_body;
	std::string key;
	// runtime (application side)
	long stream_pos;
	bool finalized;
	volatile bool done;
	std::vector<std::pair<std::string,std::string> > set;   // headers/cookies the application set (lower-case names)
	Exec() : ka(false), app_async(false), gz(false), cache(false), nh(0), nc(0), cl(false), fb(true), rid(1), raw(false),
		 total_body(0), stream_pos(0), finalized(false), done(false) {}
};

static Exec * volatile g_exec = 0;
// the http::context serving the current request: once it is gone the server will never write another byte of
// this response (a load-independent way to know that an incomplete response stays incomplete)
static pthread_mutex_t g_ctx_mx = PTHREAD_MUTEX_INITIALIZER;
static booster::weak_ptr<cppcms::http::context> g_ctx_weak;
static bool g_ctx_set = false;
static void note_context(booster::shared_ptr<cppcms::http::context> const &c)
{
	pthread_mutex_lock(&g_ctx_mx); g_ctx_weak = c; g_ctx_set = true; pthread_mutex_unlock(&g_ctx_mx);
}
static bool context_gone()
{
	pthread_mutex_lock(&g_ctx_mx); bool r = g_ctx_set && g_ctx_weak.expired(); pthread_mutex_unlock(&g_ctx_mx);
	return r;
}
static std::string g_body;   // g_body[i] = vfy::F(i)

static cppcms::http::response::io_mode_type mode_of(std::string const &m)
{
	using cppcms::http::response;
	if(m=="normal") return response::normal;
	if(m=="nogzip") return response::nogzip;
	if(m=="raw") return response::raw;
	if(m=="async") return response::asynchronous;
	return response::asynchronous_raw;
}

static void app_log(char const *op,long n=-1,long off=-1,long hb=-1)
{
	vt::J j; j.s("e","App").s("op",op);
	if(n>=0) j.i("n",n);
	if(off>=0) j.i("off",off);
	if(hb>=0) j.i("hb",hb);
	logline(j.str());
}

// the application's byte stream = [raw header text] ++ body; returns pointer to stream[pos]
static void stream_bytes(Exec &x,long pos,long n,std::string &out)
{
	out.clear();
	long H = x.raw_header.size();
	for(long i=pos;i<pos+n;i++)
		out += i < H ? x.raw_header[i] : g_body[i-H];
}

static void app_write(Exec &x,cppcms::http::context &c,long n,bool put)
{
	long H = x.raw_header.size();
	long pos = x.stream_pos;
	long b0 = std::max(0L,pos - H), b1 = std::max(0L,pos + n - H);
	std::string tmp;
	stream_bytes(x,pos,n,tmp);
	x.stream_pos += n;
	// logged BEFORE the bytes enter the stream: every later observation of them follows this line
	vt::J j; j.s("e","App").s("op",put ? "Put" : "Write").i("n",b1-b0).i("off",b0).i("hb",n-(b1-b0));
	logline(j.str());
	if(put) c.response().out().put(tmp[0]);
	else c.response().out().write(tmp.data(),n);
}

static void app_prologue(Exec &x,cppcms::http::context &c)
{
	c.response().io_mode(mode_of(x.mode));
	if(x.mode=="async" || x.mode=="async_raw") {
		c.response().full_asynchronous_buffering(x.fb);
		app_log(x.fb ? "FullBufOn" : "FullBufOff");
	}
	if(!x.raw) {
		c.response().set_plain_text_header();
		for(int i=0;i<x.nh;i++) {
			char n[32],v[32];
			snprintf(n,sizeof(n),"X-Verif-%d",i); snprintf(v,sizeof(v),"hv%d",i);
			if(i%2==0) c.response().set_header(n,v); else c.response().add_header(n,v);
		}
		if(x.nh>=2) {
			// repeated names: a header that was set and then added to (in either spelling) is carried with all its values,
			// add_header twice gives two lines, set_header twice keeps the last value only
			c.response().set_header("X-Verif-Multi","m0");
			c.response().add_header("x-verif-multi","m1");
			c.response().add_header("X-Verif-Multi","m2");
			c.response().add_header("X-Verif-Dup","d0");
			c.response().add_header("X-Verif-Dup","d1");
			c.response().set_header("X-Verif-Rep","r0");
			c.response().set_header("x-verif-rep","r1");
		}
		for(int i=0;i<x.nc;i++) {
			char n[32],v[32];
			snprintf(n,sizeof(n),"ck%d",i); snprintf(v,sizeof(v),"cv%d",i);
			c.response().set_cookie(cppcms::http::cookie(n,v));
		}
		if(x.cl) c.response().content_length(x.total_body);
		if(x.cache) {
			bool hit = c.cache().fetch_page(x.key);
			app_log(hit ? "CacheHit" : "CacheMiss");
		}
	}
	for(size_t i=0;i<x.set.size();i++)
		logline(vt::J().s("e","App").s("op","Header").s("name",x.set[i].first).s("value",x.set[i].second).str());
}

static void app_epilogue(Exec &x,cppcms::http::context &c)
{
	long H = x.raw_header.size();
	if(x.stream_pos < H && !x.finalized)   // raw modes: the header block the application writes must be complete
		app_write(x,c,H - x.stream_pos,false);
	if(x.cache && !x.raw) {
		app_log("StorePage");
		c.cache().store_page(x.key);
		x.finalized = true;
	}
	app_log("Done");
	x.done = true;
}

// returns false when the op suspended the program (async flush)
static bool app_op(Exec &x,cppcms::http::context &c,Op const &op,std::function<void(bool)> const &resume)
{
	switch(op.c) {
	case 'W': if(!x.finalized) app_write(x,c,op.n,false); break;
	case 'P': if(!x.finalized) app_write(x,c,1,true); break;
	case 'F': app_log("Flush"); c.response().out() << std::flush; break;
	case 'S': app_log("SetBuf",op.n); c.response().setbuf(op.n); break;
	case 'Z':
		if(x.stream_pos < (long)x.raw_header.size() && !x.finalized)   // raw modes: never finalize inside the header block
			app_write(x,c,x.raw_header.size() - x.stream_pos,false);
		app_log("Finalize"); c.response().finalize(); x.finalized = true; break;
	case 'B':
		if(x.mode=="async" || x.mode=="async_raw") {
			app_log(op.n ? "FullBufOn" : "FullBufOff");
			c.response().full_asynchronous_buffering(op.n!=0);
		}
		break;
	case 'A':
		if(x.app_async && (x.mode=="async" || x.mode=="async_raw")) {
			app_log("AFlush");
			c.async_flush_output([resume](cppcms::http::context::completion_type t) {
				bool ok = t==cppcms::http::context::operation_completed;
				logline(vt::J().s("e","App").s("op","AFlushDone").b("ok",ok).str());
				resume(ok);
			});
			return false;
		}
		app_log("Flush"); c.response().out() << std::flush;
		break;
	}
	return true;
}

class sync_app : public cppcms::application {
public:
	sync_app(cppcms::service &s) : cppcms::application(s) {}
	virtual void main(std::string)
	{
		Exec &x = *g_exec;
		note_context(get_context());
		app_prologue(x,context());
		for(size_t pc=0;pc<x.prog.size();pc++)
			app_op(x,context(),x.prog[pc],std::function<void(bool)>());
		app_epilogue(x,context());
	}
};

class async_app : public cppcms::application {
public:
	async_app(cppcms::service &s) : cppcms::application(s), pc_(0) {}
	virtual void main(std::string)
	{
		ctx_ = release_context();
		note_context(ctx_);
		pc_ = 0;
		app_prologue(*g_exec,*ctx_);
		step(true);
	}
	void step(bool ok)
	{
		Exec &x = *g_exec;
		if(!ok) { app_log("Aborted"); x.done = true; ctx_.reset(); return; }
		booster::intrusive_ptr<async_app> self(this);
		while(pc_ < x.prog.size()) {
			Op op = x.prog[pc_++];
			if(!app_op(x,*ctx_,op,[self](bool k) { self->step(k); }))
				return;
		}
		app_epilogue(x,*ctx_);
		booster::shared_ptr<cppcms::http::context> c = ctx_;
		ctx_.reset();
		c->async_complete_response();
	}
private:
	booster::shared_ptr<cppcms::http::context> ctx_;
	size_t pc_;
};

// --------------------------------------------------------------------------------- service thread
static cppcms::service *g_srv = 0;
static std::unique_ptr<cppcms::impl::cgi::acceptor> g_acc_scgi, g_acc_fcgi, g_acc_http;

static void *service_thread(void *)
{
	try { g_srv->run(); }
	catch(std::exception const &e) { fprintf(stderr,"service died: %s\n",e.what()); _exit(4); }
	return 0;
}

struct Marker { pthread_mutex_t mx; pthread_cond_t cv; int n; Marker() : n(0) { pthread_mutex_init(&mx,0); pthread_cond_init(&cv,0); } };
static Marker g_marker;
static bool loop_idle(int ms)
{
	pthread_mutex_lock(&g_marker.mx);
	int want = g_marker.n + 1;
	pthread_mutex_unlock(&g_marker.mx);
	g_srv->get_io_service().post([]() {
		pthread_mutex_lock(&g_marker.mx); g_marker.n++; pthread_cond_broadcast(&g_marker.cv); pthread_mutex_unlock(&g_marker.mx);
	});
	struct timespec ts; clock_gettime(CLOCK_REALTIME,&ts);
	ts.tv_sec += ms/1000; ts.tv_nsec += (ms%1000)*1000000L; if(ts.tv_nsec>=1000000000L) { ts.tv_sec++; ts.tv_nsec-=1000000000L; }
	pthread_mutex_lock(&g_marker.mx);
	int rc = 0;
	while(g_marker.n < want && rc == 0) rc = pthread_cond_timedwait(&g_marker.cv,&g_marker.mx,&ts);
	bool ok = g_marker.n >= want;
	pthread_mutex_unlock(&g_marker.mx);
	return ok;
}

// a connected pair; the server end is handed to the acceptor
static bool make_pair(bool tcp,int fds[2])
{
	if(!tcp)
		return socketpair(AF_UNIX,SOCK_STREAM,0,fds)==0;
	// one listener for the whole run; the client end binds to a random 127.x.y.z so that the thousands of
	// connections a run makes never collide with 4-tuples still in TIME_WAIT
	static int l = -1;
	static struct sockaddr_in la;
	static vt::rng ar((uint64_t)getpid()*977u + 12345);
	if(l < 0) {
		l = socket(AF_INET,SOCK_STREAM,0);
		memset(&la,0,sizeof(la));
		la.sin_family = AF_INET; la.sin_addr.s_addr = htonl(INADDR_LOOPBACK); la.sin_port = 0;
		if(bind(l,(struct sockaddr*)&la,sizeof(la))<0 || listen(l,8)<0) { close(l); l = -1; return false; }
		socklen_t len = sizeof(la);
		getsockname(l,(struct sockaddr*)&la,&len);
	}
	int c = -1;
	for(int attempt=0;attempt<20;attempt++) {
		c = socket(AF_INET,SOCK_STREAM,0);
		struct sockaddr_in ca; memset(&ca,0,sizeof(ca));
		ca.sin_family = AF_INET; ca.sin_port = 0;
		ca.sin_addr.s_addr = htonl((127u<<24) | ((1+ar(250))<<16) | (ar(250)<<8) | (1+ar(250)));
		if(bind(c,(struct sockaddr*)&ca,sizeof(ca))==0 && connect(c,(struct sockaddr*)&la,sizeof(la))==0) break;
		close(c); c = -1;
	}
	if(c < 0) return false;
	int s = accept(l,0,0);
	if(s<0) { close(c); return false; }
	int one = 1; setsockopt(c,IPPROTO_TCP,TCP_NODELAY,&one,sizeof(one));
	fds[0] = s; fds[1] = c;
	return true;
}

// ------------------------------------------------------------------------------------ the requests
static void nv(std::string &s,std::string const &n,std::string const &v) { s += n; s += '\0'; s += v; s += '\0'; }
static std::string scgi_request(Exec const &x)
{
	std::string h;
	nv(h,"CONTENT_LENGTH","0"); nv(h,"SCGI","1"); nv(h,"REQUEST_METHOD","GET");
	nv(h,"SCRIPT_NAME",x.app_async ? "/async" : "/sync"); nv(h,"PATH_INFO",""); nv(h,"HTTP_HOST","verif");
	nv(h,"SERVER_PROTOCOL","HTTP/1.0"); nv(h,"REMOTE_ADDR","127.0.0.1");
	if(x.gz) nv(h,"HTTP_ACCEPT_ENCODING","gzip");
	char b[32]; snprintf(b,sizeof(b),"%d:",(int)h.size());
	return std::string(b) + h + ",";
}
static std::string fcgi_rec(int type,int id,std::string const &body)
{
	std::string r;
	r += (char)1; r += (char)type; r += (char)(id>>8); r += (char)(id&255);
	r += (char)(body.size()>>8); r += (char)(body.size()&255); r += (char)0; r += (char)0;
	return r + body;
}
static void fnv(std::string &s,std::string const &n,std::string const &v) { s += (char)n.size(); s += (char)v.size(); s += n; s += v; }
static std::string fcgi_request(Exec const &x,int id)
{
	std::string b; b += (char)0; b += (char)1; b += (char)(x.ka ? 1 : 0); b += std::string(5,'\0');
	std::string p;
	fnv(p,"REQUEST_METHOD","GET"); fnv(p,"SCRIPT_NAME",x.app_async ? "/async" : "/sync"); fnv(p,"PATH_INFO","");
	fnv(p,"HTTP_HOST","verif"); fnv(p,"SERVER_PROTOCOL","HTTP/1.0"); fnv(p,"REMOTE_ADDR","127.0.0.1");
	if(x.gz) fnv(p,"HTTP_ACCEPT_ENCODING","gzip");
	return fcgi_rec(1,id,b) + fcgi_rec(4,id,p) + fcgi_rec(4,id,"") + fcgi_rec(5,id,"");
}
static std::string http_request(Exec const &x)
{
	std::string r = std::string("GET ") + (x.app_async ? "/async" : "/sync") + (x.proto=="http11" ? " HTTP/1.1" : " HTTP/1.0") + "\r\nHost: verif\r\n";
	if(x.ka) r += "Connection: keep-alive\r\n";
	if(x.gz) r += "Accept-Encoding: gzip\r\n";
	return r + "\r\n";
}

static bool send_all(int fd,std::string const &s)
{
	size_t off = 0;
	while(off < s.size()) {
		ssize_t n = ::send(fd,s.data()+off,s.size()-off,MSG_NOSIGNAL);
		if(n < 0 && errno==EINTR) continue;
		if(n <= 0) return false;
		off += n;
	}
	return true;
}

// ------------------------------------------------------------------------------------------ driver
static long g_stall_ms = 400, g_hard_cap_ms = 20000;
static long g_exec_id = 0;
static uint64_t g_seed = 1;

struct Conn { int cfd; int sfd; bool open; Conn() : cfd(-1), sfd(-1), open(false) {} };

static std::string jstr(std::string const &v)
{
	std::string o = "\"";
	for(size_t n=0;n<v.size();n++) {
		unsigned char c = v[n];
		if(c=='"' || c=='\\') { o += '\\'; o += (char)c; }
		else if(c<0x20 || c>=0x7f) { char b[8]; snprintf(b,sizeof(b),"\\u%04x",c); o += b; }
		else o += (char)c;
	}
	return o + "\"";
}

static std::string runs_json(std::vector<vfy::Run> const &r)
{
	std::ostringstream o; o<<'[';
	for(size_t i=0;i<r.size();i++) { if(i) o<<','; o<<'['<<r[i].off<<','<<r[i].len<<']'; }
	o<<']';
	return o.str();
}

struct Result { long raw_total; bool hang; bool eof; bool keep; Result() : raw_total(0), hang(false), eof(false), keep(false) {} };

// one request / response on connection c (opened on demand)
static Result run_exec(Exec &x,Conn &c,Sched const &sched,std::string const &sched_text,bool reused)
{
	Result res;
	g_exec_id++;
	char kb[32]; snprintf(kb,sizeof(kb),"pg%ld",g_exec_id); x.key = kb;
	x.stream_pos = 0; x.finalized = false; x.done = false;
	bool http = x.proto=="http10" || x.proto=="http11";
	if(!c.open) {
		int fds[2];
		if(!make_pair(http,fds)) { perror("socket pair"); exit(3); }
		c.sfd = fds[0]; c.cfd = fds[1]; c.open = true;
		reused = false;
	}
	{
		vt::J j; j.s("e","Reset").i("id",g_exec_id).s("proto",x.proto).b("ka",x.ka).s("app",x.app_async?"async":"sync").s("mode",x.mode)
		 .b("gz",x.gz).b("cache",x.cache && !x.raw).b("cl",x.cl).b("fb",x.fb).i("nh",x.nh).i("nc",x.nc).s("prog",x.progs).s("sched",sched_text)
		 .i("total",x.total_body).b("reused",reused).i("rid",x.rid);
		logline(j.str());
	}
	pthread_mutex_lock(&g_sched_mx);
	g_sched = sched; g_sched.cum = 0; g_sched.calls = 0; g_sched.ci = 0; g_sock_events = 0;
	g_target_fd = c.sfd;
	pthread_mutex_unlock(&g_sched_mx);
	pthread_mutex_lock(&g_ctx_mx); g_ctx_weak.reset(); g_ctx_set = false; pthread_mutex_unlock(&g_ctx_mx);
	g_exec = &x;
	if(!reused) {
		cppcms::impl::cgi::acceptor *acc = x.proto=="scgi" ? g_acc_scgi.get() : x.proto=="fcgi" ? g_acc_fcgi.get() : g_acc_http.get();
		int sfd = c.sfd;
		g_srv->get_io_service().post([acc,sfd]() {
			try { acc->accept(sfd)->run(); }
			catch(std::exception const &e) { fprintf(stderr,"accept failed: %s\n",e.what()); _exit(5); }
		});
	}
	std::string req = x.proto=="scgi" ? scgi_request(x) : x.proto=="fcgi" ? fcgi_request(x,x.rid) : http_request(x);
	if(!send_all(c.cfd,req)) { logline(vt::J().s("e","Hang").s("why","send failed").b("done",false).b("idle",false).str()); res.hang = true; }

	vfy::Deframer d(x.proto=="scgi" ? vfy::P_SCGI : x.proto=="fcgi" ? vfy::P_FCGI : vfy::P_HTTP, x.rid);
	d.keep_conn = x.ka;
	vfy::Inflater z;
	vfy::RunDecoder rd(&g_body);
	bool hdr_logged = false, gzip = false;
	size_t body_fed = 0;
	long last_wire_len = -1, last_wire_raw = 0;
	bool overrun = false;
	long quiet = 0;
	std::vector<char> buf(1<<16);
	bool finished = res.hang;
	bool big = x.total_body > 4096;
	while(!finished) {
		struct pollfd p; p.fd = c.cfd; p.events = POLLIN; p.revents = 0;
		int pr = poll(&p,1,50);
		if(pr < 0 && errno==EINTR) continue;
		if(pr == 0) {
			quiet += 50;
			if(quiet < g_stall_ms) continue;
			// nothing arrived for stall_ms.  Only when the request's context is gone (the server is through with this
			// request for good) and no write is in flight do we know that the rest will never come.
			if(context_gone() && g_in_writev==0) {
				logline(vt::J().s("e","Hang").s("why","server finished the request, response incomplete").b("done",true).b("idle",true).str());
				res.hang = true;
				break;
			}
			if(quiet >= g_hard_cap_ms) {
				bool idle = loop_idle(500) && g_in_writev==0;
				logline(vt::J().s("e","Hang").s("why","no progress, request still alive in the server").b("done",false).b("idle",idle).str());
				res.hang = true;
				break;
			}
			continue;
		}
		ssize_t n = ::recv(c.cfd,&buf[0],buf.size(),0);
		if(n < 0 && (errno==EINTR || errno==EAGAIN)) continue;
		quiet = 0;
		bool eof = n <= 0;
		if(!eof && res.raw_total + n > 4*(x.total_body + 4096) + (1<<20)) {
			// far more than any framing of this response can need: the server repeats itself - stop reading
			logline(vt::J().s("e","Overrun").i("raw",res.raw_total + n).str());
			overrun = true; eof = true;
		}
		if(eof) { d.on_eof(); res.eof = !overrun; }
		else { d.feed(&buf[0],n); res.raw_total += n; }
		if(d.hdr_done && !hdr_logged) {
			hdr_logged = true;
			std::ostringstream f; f<<'[';
			for(size_t i=0;i<d.fields.size();i++) {
				if(i) f<<',';
				f<<'['<<jstr(d.fields[i].first)<<','<<jstr(d.fields[i].second)<<']';
			}
			f<<']';
			gzip = d.field("content-encoding")=="gzip";
			logline(vt::J().s("e","Hdr").i("count",1).i("status",d.status).i("lead",d.lead).raw("fields",f.str()).str());
		}
		if(d.body.size() > body_fed) {
			if(gzip) { std::string o; z.feed(d.body.data()+body_fed,d.body.size()-body_fed,o); rd.feed(o.data(),o.size()); }
			else rd.feed(d.body.data()+body_fed,d.body.size()-body_fed);
			body_fed = d.body.size();
		}
		bool complete = eof || (d.closed && d.expect_keep());
		if(complete) rd.finish();
		long wl = rd.total();
		if(hdr_logged && (wl != last_wire_len) && (complete || !big || wl - std::max(0L,last_wire_len) >= 16384 || last_wire_len < 0)) {
			logline(vt::J().s("e","Wire").raw("runs",runs_json(rd.runs)).i("len",wl).i("raw",(long)d.body.size()).str());
			last_wire_len = wl; last_wire_raw = d.body.size();
		}
		if(eof) logline(vt::J().s("e","Eof").str());
		if(complete) finished = true;
	}
	(void)last_wire_raw;
	// the application may still be between its last write and the end of its program (store_page stores after sending)
	for(int i=0;i<40000 && !res.hang && (!x.done || g_in_writev);i++) usleep(50);
	pthread_mutex_lock(&g_sched_mx);
	g_target_fd = -1;
	long ncalls = g_sched.ncalls, nshort = g_sched.nshort, neag = g_sched.neagain;
	pthread_mutex_unlock(&g_sched_mx);
	if(!res.hang) {
		if(!hdr_logged)
			logline(vt::J().s("e","Hdr").i("count",0).i("status",0).i("lead",d.lead).raw("fields","[]").str());
		vt::J j; j.s("e","Frame").s("kind",d.kind()).b("closed",d.closed).i("term",d.terminators).i("endreq",d.endreq).i("stdoutend",d.stdout_end)
		 .b("padok",d.padok).i("badid",d.badid).b("align",d.aligned).i("trail",d.trail).i("lead",d.lead).s("bad",d.bad).b("eof",res.eof).b("keep",d.expect_keep())
		 .b("gzip",gzip).b("gzend",gzip ? z.ended() && !z.failed() : true).i("recs",d.records).i("maxrec",d.maxrec)
		 .i("calls",ncalls).i("short",nshort).i("eagain",neag);
		logline(j.str());
		if(x.cache && !x.raw) {
			std::string val;
			booster::intrusive_ptr<cppcms::impl::base_cache> cache = g_srv->cache_pool().get();
			bool has = cache && cache->fetch(std::string(gzip ? "_Z:" : "_U:") + x.key,&val,0,0,0);
			vfy::RunDecoder cr(&g_body);
			bool gzend = true;
			if(has) {
				if(gzip) { vfy::Inflater cz; std::string o; cz.feed(val.data(),val.size(),o); cr.feed(o.data(),o.size()); gzend = cz.ended() && !cz.failed(); }
				else cr.feed(val.data(),val.size());
				cr.finish();
			}
			logline(vt::J().s("e","Cache").b("present",has).b("same",has && val==d.body).raw("runs",runs_json(cr.runs)).i("len",(long)val.size()).b("gzend",gzend).str());
		}
	}
	res.keep = !res.hang && !res.eof && !overrun && d.closed && d.expect_keep();
	if(!res.keep) { close(c.cfd); c.cfd = -1; c.open = false; }
	flushlog();
	return res;
}

// ------------------------------------------------------------------------------------- plan parsing
static std::vector<Op> parse_prog(std::string const &s)
{
	std::vector<Op> v;
	size_t i = 0;
	while(i < s.size()) {
		if(s[i]==',') { i++; continue; }
		Op o; o.c = s[i++]; o.n = 0;
		bool any = false;
		while(i < s.size() && isdigit((unsigned char)s[i])) { o.n = o.n*10 + (s[i]-'0'); i++; any = true; }
		if(o.c=='B' && !any) o.n = 0;
		v.push_back(o);
	}
	return v;
}

static Sched parse_sched(std::string const &s)
{
	Sched sc;
	if(s=="all") return sc;
	if(s.compare(0,5,"cuts:")==0) {
		sc.kind = 1;
		size_t i = 5;
		while(i < s.size()) {
			Cut c; c.pos = 0; c.eagain = 0;
			while(i<s.size() && isdigit((unsigned char)s[i])) c.pos = c.pos*10 + (s[i++]-'0');
			if(i<s.size() && s[i]=='e') { i++; while(i<s.size() && isdigit((unsigned char)s[i])) c.eagain = c.eagain*10 + (s[i++]-'0'); }
			sc.cuts.push_back(c);
			if(i<s.size() && s[i]==',') i++;
		}
		std::sort(sc.cuts.begin(),sc.cuts.end(),[](Cut const &a,Cut const &b){ return a.pos<b.pos; });
		return sc;
	}
	if(s.compare(0,6,"chunk:")==0) {
		sc.kind = 3;
		long a=0,b=0; sscanf(s.c_str()+6,"%ld:%ld",&a,&b);
		sc.k = a<1?1:a; sc.every = b;
		return sc;
	}
	if(s.compare(0,5,"rand:")==0) {
		sc.kind = 2;
		long a=0,b=0; sscanf(s.c_str()+5,"%ld:%ld",&a,&b);
		sc.r = vt::rng(a*7919 + g_seed); sc.style = b;
		return sc;
	}
	fprintf(stderr,"bad schedule %s\n",s.c_str()); exit(3);
}

static void derive(Exec &x)
{
	x.raw = x.mode=="raw" || x.mode=="async_raw";
	x.prog = parse_prog(x.progs);
	x.set.clear();
	x.raw_header.clear();
	if(x.raw) {
		x.raw_header = "Content-Type: text/plain\r\n";
		for(int i=0;i<x.nh;i++) { char b[64]; snprintf(b,sizeof(b),"X-Verif-%d: hv%d\r\n",i,i); x.raw_header += b; }
		for(int i=0;i<x.nc;i++) { char b[64]; snprintf(b,sizeof(b),"Set-Cookie: ck%d=cv%d\r\n",i,i); x.raw_header += b; }
	}
	for(int i=0;i<x.nh;i++) { char n[32],v[32]; snprintf(n,sizeof(n),"x-verif-%d",i); snprintf(v,sizeof(v),"hv%d",i); x.set.push_back(std::make_pair(std::string(n),std::string(v))); }
	if(x.nh>=2 && !x.raw) {
		static char const *rep[][2]={{"x-verif-multi","m0"},{"x-verif-multi","m1"},{"x-verif-multi","m2"},{"x-verif-dup","d0"},{"x-verif-dup","d1"},{"x-verif-rep","r1"}};
		for(int i=0;i<6;i++) x.set.push_back(std::make_pair(std::string(rep[i][0]),std::string(rep[i][1])));
	}
	for(int i=0;i<x.nc;i++) { char v[32]; snprintf(v,sizeof(v),"ck%d=cv%d",i,i); x.set.push_back(std::make_pair(std::string("set-cookie"),std::string(v))); }
	// total body = bytes the program writes beyond the raw header
	long tot = 0; bool fin = false;
	for(size_t i=0;i<x.prog.size();i++) {
		if(x.prog[i].c=='Z') fin = true;
		if(fin) continue;
		if(x.prog[i].c=='W') tot += x.prog[i].n;
		if(x.prog[i].c=='P') tot += 1;
	}
	if(x.raw) {
		x.raw_header += "\r\n";
		long H = x.raw_header.size();
		x.total_body = std::max(0L,tot - H);
		x.cl = false;
	}
	else
		x.total_body = tot;
	if(x.cl) { char v[32]; snprintf(v,sizeof(v),"%ld",x.total_body); x.set.push_back(std::make_pair(std::string("content-length"),std::string(v))); }
}

int main(int argc,char **argv)
{
	if(argc < 2) { fprintf(stderr,"usage: out_drv <planfile>\n"); return 2; }
	signal(SIGPIPE,SIG_IGN);
	signal(SIGSEGV,on_crash); signal(SIGBUS,on_crash); signal(SIGABRT,on_crash); signal(SIGFPE,on_crash);
	g_seed = vt::envl("VERIF_SEED",1);
	g_stall_ms = vt::envl("VERIF_STALL_MS",400);
	g_hard_cap_ms = vt::envl("VERIF_HARD_CAP_MS",20000);
	g_out.open();
	g_body.resize(300*1024);
	for(size_t i=0;i<g_body.size();i++) g_body[i] = (char)vfy::F(i);

	std::istringstream cfg(
		"{ \"service\" : { \"worker_threads\" : 2 },"
		"  \"http\" : { \"script_names\" : [ \"/sync\", \"/async\" ], \"timeout\" : 30 },"
		"  \"cache\" : { \"backend\" : \"thread_shared\", \"limit\" : 64 },"
		"  \"gzip\" : { \"enable\" : true },"
		"  \"logging\" : { \"level\" : \"error\" } }");
	cppcms::json::value v;
	if(!v.load(cfg,true)) { fprintf(stderr,"bad config\n"); return 3; }
	long obs = vt::envl("VERIF_OUTBUF",-1), aobs = vt::envl("VERIF_AOUTBUF",-1);
	if(obs >= 0) v["service"]["output_buffer_size"] = (int)obs;
	if(aobs >= 0) v["service"]["async_output_buffer_size"] = (int)aobs;
	cppcms::service srv(v);
	g_srv = &srv;
	srv.applications_pool().mount(cppcms::create_pool<sync_app>(),cppcms::mount_point("/sync"),cppcms::app::synchronous);
	srv.applications_pool().mount(cppcms::create_pool<async_app>(),cppcms::mount_point("/async"),cppcms::app::asynchronous);
	std::string work = getenv("VERIF_WORK") ? getenv("VERIF_WORK") : ".";
	char pb[64]; snprintf(pb,sizeof(pb),"/outdrv-%d",(int)getpid());
	g_acc_scgi = cppcms::impl::cgi::scgi_api_unix_socket_factory(srv,work + pb + "-s.sock",1);
	g_acc_fcgi = cppcms::impl::cgi::fastcgi_api_unix_socket_factory(srv,work + pb + "-f.sock",1);
	g_acc_http = cppcms::impl::cgi::http_api_factory(srv,"127.0.0.1",0,1);
	pthread_t th;
	pthread_create(&th,0,service_thread,0);
	if(!loop_idle(10000)) { fprintf(stderr,"event loop did not start\n"); return 3; }

	std::ifstream plan(argv[1]);
	std::string line;
	long nexec = 0, nhang = 0;
	long skip = vt::envl("VERIF_SKIP",0), max_hangs = vt::envl("VERIF_MAX_HANGS",12);
	while(std::getline(plan,line)) {
		g_plan_line++;
		if(g_plan_line <= skip) continue;
		if(nhang >= max_hangs) { fprintf(stdout,"aborted=%ld (too many responses that never completed)\n",g_plan_line); break; }
		if(line.empty() || line[0]=='#') continue;
		std::map<std::string,std::string> kv;
		std::istringstream ls(line);
		std::string tok;
		while(ls >> tok) { size_t p = tok.find('='); if(p!=std::string::npos) kv[tok.substr(0,p)] = tok.substr(p+1); }
		Exec x;
		x.proto = kv.count("proto") ? kv["proto"] : "scgi";
		x.ka = kv["ka"]=="1";
		x.app_async = kv["app"]=="async";
		x.mode = kv.count("mode") ? kv["mode"] : "normal";
		x.gz = kv["gz"]=="1";
		x.cache = kv["cache"]=="1";
		x.nh = atoi(kv["nh"].c_str()); x.nc = atoi(kv["nc"].c_str());
		x.cl = kv["cl"]=="1";
		x.fb = kv.count("fb") ? kv["fb"]=="1" : true;
		x.progs = kv["prog"];
		derive(x);
		std::string st = kv.count("sched") ? kv["sched"] : "all";
		std::vector<std::string> scheds;
		long sweep = -1;
		if(st.compare(0,6,"sweep:")==0) { sweep = atol(st.c_str()+6); scheds.push_back("all"); }
		else scheds.push_back(st);
		bool nonblocking = x.mode=="async" || x.mode=="async_raw";
		int chain = kv.count("chain") ? atoi(kv["chain"].c_str()) : 2;
		if(!x.ka || chain < 1) chain = 1;
		Conn c;
		for(size_t si=0;si<scheds.size();si++) {
			// with keep-alive the same connection serves a chain of requests (default 2), the last one asks to close;
			// on FastCGI every request of the chain has another request id (1, 2, 1, ...)
			static const int rids[3] = { 1, 2, 1 };
			Result r;
			for(int ci=0;ci<chain;ci++) {
				Exec xi = x;
				xi.ka = x.ka && ci+1 < chain;
				xi.rid = rids[ci % 3];
				Sched sci = parse_sched(scheds[si]);
				Result ri = run_exec(xi,c,sci,scheds[si],c.open);
				nexec++; if(ri.hang) nhang++;
				if(ci==0) r = ri;
				if(!ri.keep) break;
			}
			if(c.open) { close(c.cfd); c.open = false; }
			if(si==0 && sweep >= 0 && !r.hang) {
				long T = r.raw_total;
				// positions 1..T-1 (all if few, else an evenly spread sample that always contains the ends)
				std::vector<long> pos;
				if(T-1 <= sweep) for(long p=1;p<T;p++) pos.push_back(p);
				else {
					vt::rng pr(g_seed*31 + nexec);
					for(long i=0;i<sweep;i++) {
						long lo = 1 + (T-1)*i/sweep, hi = 1 + (T-1)*(i+1)/sweep;
						pos.push_back(lo + pr((unsigned)std::max(1L,hi-lo)));
					}
					pos.push_back(T-1); pos.push_back(1);
				}
				for(size_t i=0;i<pos.size();i++) {
					char b[64];
					if(nonblocking && i%2==1) snprintf(b,sizeof(b),"cuts:%lde1",pos[i]);
					else snprintf(b,sizeof(b),"cuts:%ld",pos[i]);
					scheds.push_back(b);
				}
				if(nonblocking) scheds.push_back("cuts:0e2");
			}
		}
	}
	g_out.close();
	fprintf(stdout,"executions=%ld hangs=%ld\n",nexec,nhang);
	fflush(stdout);
	_exit(0);   // the service thread is still inside run(); nothing of value is torn down
}
