// Independent client-side decoders for the C03 harness: HTTP (Content-Length / chunked / close-delimited),
// SCGI (CGI header block + body to EOF), FastCGI (records, STDOUT stream, END_REQUEST), gzip inflation and
// the run-length description of a received body in terms of the self-describing payload F(i).
// Nothing here shares code with cppcms.
#ifndef VERIF_OUTPUT_DEFRAME_H
#define VERIF_OUTPUT_DEFRAME_H
#include <string>
#include <vector>
#include <map>
#include <stdint.h>
#include <string.h>
#include <stdlib.h>
#include <ctype.h>
#include <zlib.h>

namespace vfy {

// byte i of the application's body stream.  Any 6 consecutive values identify i (checked on demand only for
// diagnostics; the verdict "runs == [[0,n]]" is exact whatever the resynchronisation heuristics do)
inline unsigned char F(size_t i)
{
	uint32_t x = (uint32_t)i * 2654435761u;
	x ^= x >> 15; x *= 2246822519u; x ^= x >> 13;
	return (unsigned char)(x >> 8);
}

struct Run { long off; long len; };   // off = -1: bytes that are not payload at all

class RunDecoder {
public:
	std::vector<Run> runs;
	explicit RunDecoder(std::string const *ref) : ref_(ref), pos_(0), final_(false) {}
	void feed(char const *p,size_t n) { buf_.append(p,n); process(); }
	void finish() { final_ = true; process(); }
	long total() const { long t=0; for(size_t i=0;i<runs.size();i++) t+=runs[i].len; return t; }
private:
	std::string const *ref_;
	std::string buf_;
	size_t pos_;
	bool final_;
	static std::map<std::string,long> &index(std::string const &ref)
	{
		static std::map<std::string,long> idx;
		if(idx.empty())
			for(size_t i=0;i+6<=ref.size();i++) idx.insert(std::make_pair(ref.substr(i,6),(long)i));
		return idx;
	}
	void add(long off)
	{
		if(!runs.empty()) {
			Run &r = runs.back();
			if(off < 0 && r.off < 0) { r.len++; return; }
			if(off >= 0 && r.off >= 0 && r.off + r.len == off) { r.len++; return; }
		}
		Run r; r.off = off; r.len = 1; runs.push_back(r);
	}
	void process()
	{
		while(pos_ < buf_.size()) {
			long expect = runs.empty() ? 0 : (runs.back().off < 0 ? -1 : runs.back().off + runs.back().len);
			if(expect >= 0 && (size_t)expect < ref_->size() && (*ref_)[expect] == buf_[pos_]) { add(expect); pos_++; continue; }
			// resynchronise on a 6 byte window
			if(buf_.size() - pos_ < 6) {
				if(!final_) return;
				add(-1); pos_++; continue;
			}
			std::map<std::string,long> &idx = index(*ref_);
			std::map<std::string,long>::const_iterator p = idx.find(buf_.substr(pos_,6));
			if(p == idx.end()) { add(-1); pos_++; }
			else { add(p->second); pos_++; }
		}
	}
};

class Inflater {
public:
	Inflater() : init_(false), end_(false), fail_(false), extra_(0) { memset(&z_,0,sizeof(z_)); }
	~Inflater() { if(init_) inflateEnd(&z_); }
	void feed(char const *p,size_t n,std::string &out)
	{
		if(!init_) { if(inflateInit2(&z_,15+16)!=Z_OK) { fail_ = true; return; } init_ = true; }
		if(end_) { extra_ += n; return; }
		if(fail_) return;
		z_.next_in = (Bytef*)p; z_.avail_in = n;
		char tmp[65536];
		for(;;) {
			z_.next_out = (Bytef*)tmp; z_.avail_out = sizeof(tmp);
			int r = inflate(&z_,Z_SYNC_FLUSH);
			out.append(tmp,sizeof(tmp) - z_.avail_out);
			if(r == Z_STREAM_END) { end_ = true; extra_ += z_.avail_in; return; }
			if(r == Z_BUF_ERROR) return;                 // needs more input
			if(r != Z_OK) { fail_ = true; return; }
			if(z_.avail_in == 0 && z_.avail_out != 0) return;
		}
	}
	bool ended() const { return end_ && extra_ == 0; }
	bool failed() const { return fail_; }
private:
	z_stream z_;
	bool init_, end_, fail_;
	size_t extra_;
};

enum Proto { P_HTTP, P_SCGI, P_FCGI };

class Deframer {
public:
	// results
	bool hdr_done;
	int status;
	std::vector<std::pair<std::string,std::string> > fields;   // lower-case name, value (Set-Cookie cut at ';')
	std::string body;         // de-framed entity body (still gzip-encoded when Content-Encoding says so)
	bool closed;              // the framing told us the response is over (CL reached / last chunk / END_REQUEST / EOF for close-delimited)
	int terminators;          // chunked: last-chunk markers seen;  otherwise 0/1 like closed
	int endreq;               // FastCGI END_REQUEST records
	int stdout_end;           // FastCGI empty STDOUT records
	bool padok;               // FastCGI: padding bytes present as announced and zero
	bool aligned;             // FastCGI: every record 8-aligned (not demanded by the protocol)
	long trail;               // bytes after the end of the response
	long lead;                // bytes in front of the status line (HTTP) that do not belong there
	long records, maxrec;
	long badid;               // FastCGI: records carrying the id of another request
	std::string bad;          // first structural error
	bool eof;

	Deframer(Proto p,int reqid) : hdr_done(false), status(0), closed(false), terminators(0), endreq(0), stdout_end(0), padok(true),
		aligned(true), trail(0), lead(0), records(0), maxrec(0), badid(0), eof(false), proto_(p), reqid_(reqid), st_(p==P_FCGI ? R_HDR : H_LINE),
		cl_(-1), chunked_(false), conn_close_(true), need_(0), rec_type_(0), rec_pad_(0), cgi_pos_(0), pos_(0), first_line_(true), keep_conn(false) {}

	void feed(char const *p,size_t n) { raw_.append(p,n); parse(); }
	void on_eof()
	{
		eof = true;
		if(proto_ == P_FCGI) { if(!closed && bad.empty()) bad = "eof before END_REQUEST"; return; }
		if(st_ == B_EOF) { closed = true; terminators = 1; return; }
		if(st_ != DONE && bad.empty()) bad = hdr_done ? "eof inside framed body" : "eof inside header block";
	}
	std::string field(std::string const &n) const
	{
		for(size_t i=0;i<fields.size();i++) if(fields[i].first==n) return fields[i].second;
		return std::string();
	}
	// will the server keep the connection open after this response (as announced by the response / request)?
	bool expect_keep() const
	{
		if(proto_ == P_SCGI) return false;
		if(proto_ == P_FCGI) return keep_conn;
		return hdr_done && !conn_close_ && (cl_ >= 0 || chunked_);
	}
	char const *kind() const
	{
		if(proto_ == P_FCGI) return "fcgi";
		if(proto_ == P_SCGI) return "eof";
		if(!hdr_done) return "none";
		return chunked_ ? "chunked" : cl_ >= 0 ? "cl" : "eof";
	}
	bool keep_conn;   // FastCGI: set by the driver (what the request asked for)
private:
	enum St { H_LINE, B_CL, B_EOF, C_SIZE, C_DATA, C_CRLF, C_LAST, DONE, R_HDR, R_BODY, R_PAD };
	Proto proto_; int reqid_; St st_;
	long cl_; bool chunked_; bool conn_close_;
	long need_;
	int rec_type_, rec_pad_;
	std::string raw_;      // transport bytes
	std::string cgi_;      // FastCGI: content of the STDOUT stream
	size_t cgi_pos_;
	size_t pos_;
	bool first_line_;
	std::string endbody_;

	static std::string lower(std::string s) { for(size_t i=0;i<s.size();i++) s[i] = tolower((unsigned char)s[i]); return s; }
	static std::string trim(std::string const &s)
	{
		size_t a = 0, b = s.size();
		while(a<b && (s[a]==' '||s[a]=='\t')) a++;
		while(b>a && (s[b-1]==' '||s[b-1]=='\t')) b--;
		return s.substr(a,b-a);
	}
	void fail(char const *m) { if(bad.empty()) bad = m; }

	// header block + entity body of an HTTP / CGI response found in `s' starting at `p'
	void parse_entity(std::string const &s,size_t &p)
	{
		for(;;) {
			if(!bad.empty()) { return; }
			switch(st_) {
			case H_LINE: {
				size_t e = s.find("\r\n",p);
				if(e == std::string::npos) return;
				std::string ln = s.substr(p,e-p);
				p = e + 2;
				if(first_line_ && proto_ == P_HTTP) {
					first_line_ = false;
					size_t h = ln.find("HTTP/1.");
					if(h == std::string::npos || ln.size() < h + 12) { fail("no status line"); lead += ln.size()+2; return; }
					lead += h;
					status = atoi(ln.c_str() + h + 9);
					break;
				}
				first_line_ = false;
				if(ln.empty()) {
					hdr_done = true;
					std::string te = lower(field("transfer-encoding")), cn = lower(field("connection")), c = field("content-length");
					chunked_ = te.find("chunked") != std::string::npos;
					if(!c.empty()) cl_ = atol(c.c_str());
					int ncl = 0; for(size_t i=0;i<fields.size();i++) if(fields[i].first=="content-length") ncl++;
					if(ncl > 1) fail("duplicate content-length");
					if(chunked_ && ncl) fail("content-length with chunked");
					conn_close_ = proto_ != P_HTTP || cn != "keep-alive";
					if(proto_ != P_HTTP) { st_ = B_EOF; if(status==0) { std::string sv = field("status"); status = sv.empty() ? 200 : atoi(sv.c_str()); } }
					else if(chunked_) st_ = C_SIZE;
					else if(cl_ >= 0) { need_ = cl_; st_ = B_CL; if(need_ == 0) { st_ = DONE; closed = true; terminators = 1; } }
					else st_ = B_EOF;
					break;
				}
				size_t c = ln.find(':');
				if(c == std::string::npos) { fail("header line without colon"); return; }
				std::string n = lower(trim(ln.substr(0,c))), v = trim(ln.substr(c+1));
				if(n == "set-cookie") { size_t sc = v.find(';'); if(sc != std::string::npos) v = trim(v.substr(0,sc)); }
				fields.push_back(std::make_pair(n,v));
				break;
			}
			case B_CL: {
				long have = s.size() - p;
				long take = have < need_ ? have : need_;
				body.append(s,p,take); p += take; need_ -= take;
				if(need_ > 0) return;
				st_ = DONE; closed = true; terminators = 1;
				break;
			}
			case B_EOF:
				body.append(s,p,std::string::npos); p = s.size();
				return;
			case C_SIZE: {
				size_t e = s.find("\r\n",p);
				if(e == std::string::npos) { if(s.size() - p > 20) fail("chunk size line too long"); return; }
				std::string ln = s.substr(p,e-p);
				if(ln.empty() || ln.size() > 8) { fail("bad chunk size"); return; }
				for(size_t i=0;i<ln.size();i++) if(!isxdigit((unsigned char)ln[i])) { fail("bad chunk size"); return; }
				p = e + 2;
				need_ = strtol(ln.c_str(),0,16);
				st_ = need_ == 0 ? C_LAST : C_DATA;
				break;
			}
			case C_DATA: {
				long have = s.size() - p;
				long take = have < need_ ? have : need_;
				body.append(s,p,take); p += take; need_ -= take;
				if(need_ > 0) return;
				st_ = C_CRLF;
				break;
			}
			case C_CRLF:
				if(s.size() - p < 2) return;
				if(s[p] != '\r' || s[p+1] != '\n') { fail("chunk not followed by CRLF"); return; }
				p += 2; st_ = C_SIZE;
				break;
			case C_LAST:   // no trailers are ever announced: the last chunk is followed by the empty line
				if(s.size() - p < 2) return;
				if(s[p] != '\r' || s[p+1] != '\n') { fail("last chunk not followed by CRLF"); return; }
				p += 2; st_ = DONE; closed = true; terminators++;
				break;
			case DONE:
				trail += s.size() - p; p = s.size();
				return;
			default:
				return;
			}
		}
	}

	void parse()
	{
		if(proto_ != P_FCGI) { parse_entity(raw_,pos_); return; }
		// FastCGI record layer
		for(;;) {
			if(!bad.empty()) return;
			if(st_ == DONE) { trail += raw_.size() - pos_; pos_ = raw_.size(); return; }
			if(st_ == R_HDR) {
				if(raw_.size() - pos_ < 8) return;
				unsigned char const *h = (unsigned char const *)raw_.data() + pos_;
				int ver = h[0]; rec_type_ = h[1]; int id = (h[2]<<8) | h[3]; need_ = (h[4]<<8) | h[5]; rec_pad_ = h[6];
				pos_ += 8;
				records++;
				if(need_ > maxrec) maxrec = need_;
				if(ver != 1) { fail("record version"); return; }
				// a record stamped with another request's id is not part of this response: its content is dropped
				foreign_ = id != reqid_;
				if(foreign_) { badid++; st_ = R_BODY; continue; }
				if(rec_type_ != 6 && rec_type_ != 3) { fail("unexpected record type"); return; }
				if((need_ + rec_pad_) % 8 != 0) aligned = false;
				if(rec_type_ == 6) {
					if(endreq) { fail("STDOUT after END_REQUEST"); return; }
					if(need_ == 0) stdout_end++;
					else if(stdout_end) { fail("STDOUT data after end of stream"); return; }
				}
				else {
					if(need_ != 8) { fail("END_REQUEST body size"); return; }
					endbody_.clear();
				}
				st_ = R_BODY;
			}
			if(st_ == R_BODY) {
				long have = raw_.size() - pos_;
				long take = have < need_ ? have : need_;
				if(foreign_) { /* skipped */ }
				else if(rec_type_ == 6) cgi_.append(raw_,pos_,take); else endbody_.append(raw_,pos_,take);
				pos_ += take; need_ -= take;
				if(rec_type_ == 6 && !foreign_) { St keep = st_; st_ = sub_; parse_entity(cgi_,cgi_pos_); sub_ = st_; st_ = keep; }
				if(need_ > 0) return;
				need_ = rec_pad_;
				st_ = R_PAD;
			}
			if(st_ == R_PAD) {
				long have = raw_.size() - pos_;
				long take = have < need_ ? have : need_;
				for(long i=0;i<take;i++) if(raw_[pos_+i] != 0) padok = false;
				pos_ += take; need_ -= take;
				if(need_ > 0) return;
				if(foreign_) st_ = R_HDR;
				else if(rec_type_ == 3) {
					endreq++;
					if(stdout_end != 1) fail("END_REQUEST without exactly one end of STDOUT");
					if(endbody_.size()==8 && endbody_[4] != 0) fail("END_REQUEST protocol status");
					if(!hdr_done) fail("no CGI header block in STDOUT");
					closed = true; terminators = stdout_end;
					st_ = DONE;
				}
				else st_ = R_HDR;
			}
		}
	}
	St sub_ = H_LINE;
	bool foreign_ = false;
};

} // vfy
#endif
