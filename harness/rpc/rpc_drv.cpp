// G05 driver: JSON-RPC server dispatch (src/rpc_json.cpp, cppcms/rpc_json.h) over a network-free connection.
//
// A real cppcms::service hosts four json_rpc_server applications (synchronous / asynchronous mount, with / without
// SMD).  Every request goes the real way: http::context::run() -> connection::async_prepare_request -> POST body read
// through async_read_some -> applications_pool -> (thread pool | event loop) -> json_rpc_server::main.  The connection is
// the tests/dummy_api.h seam: it captures headers and body instead of writing to a socket.
//
// One trace event per request ("function style"):
//   {"e":"Call","n":..,"app":"sync|async","smd":b,"http":"POST","ct":"...",
//    "bk":"obj|nonobj|malformed|empty","method":{"has":b,"v":Val},"params":{..},"id":{..},"extra":b,
//    "mname":"m_is_m","reg":{"has":b,"sig":["i","s"],"role":"a|m|n","raw":b},
//    "script":["R","rel","r"],                       handler program (see run_script / run_later); "A" = answer unless notification()
//    -- observed --
//    "inv":[{"name":..,"args":[Val..]}],             invocations of registered functions with the converted parameters
//    "ops":[{"op":"R","threw":"none|call_error|cppcms_error|bad_cast|std|other"}],   answer operations executed
//    "st":200,"ctype":"application/json; charset=utf-8","cmt":"application/json","blen":n,"docs":[{"ok":b,"nk":3,"id":Val,"error":Val,"result":Val}],"junk":b,
//    "text":"Invalid JSON-RPC","weof":n,"deof":n,"mainret":b,"died":false,"sig":0}
// Val (abstract JSON value): {"k":"null"} {"k":"bool","b":true} {"k":"int","i":7} {"k":"frac","i":1}=1.5 {"k":"frac","i":2}=-0.25
//   {"k":"big","i":1}=3000000000 {"k":"str","s":"ab"} {"k":"arr","a":[..]} {"k":"obj","m":[{"key":"a","v":Val}]} {"k":"undef"}
//
// Every request runs in a worker process forked by the driver; when the worker dies (signal, watchdog) the parent logs the
// pending event with "died":true and restarts the worker behind it, so a crash is an observation, not a harness failure.
//
// usage: rpc_drv front            every combination of HTTP method x content type x SMD x body class x mount
//        rpc_drv shape [s n]      registered methods x params shapes x id spellings (shard s of n)
//        rpc_drv script           handler programs (answers, double answers, throws, release + later answer / drop)
//        rpc_drv rand <count> [s] random combinations of everything (seeded)
#include "common/vtrace.h"
#include <cppcms/service.h>
#include <cppcms/application.h>
#include <cppcms/applications_pool.h>
#include <cppcms/rpc_json.h>
#include <cppcms/http_request.h>
#include <cppcms/http_response.h>
#include <cppcms/http_context.h>
#include <cppcms/mount_point.h>
#include <cppcms/json.h>
#include <cppcms/cppcms_error.h>
#include <booster/aio/io_service.h>
#include <booster/aio/stream_socket.h>
#include <booster/aio/aio_category.h>
#include <booster/system_error.h>
#include "cgi_api.h"
#include "response_headers.h"
#include <map>
#include <iostream>
#include <stdexcept>
#include <pthread.h>
#include <signal.h>
#include <unistd.h>
#include <math.h>
#include <sys/mman.h>
#include <sys/wait.h>
#include <sys/socket.h>

using cppcms::impl::cgi::io_handler;
using cppcms::impl::cgi::handler;
using cppcms::impl::cgi::callback;
namespace json = cppcms::json;

// ------------------------------------------------------------------ abstract JSON values
struct Val {
	std::string k; long i; bool b; std::string s; std::vector<Val> a; std::vector<std::pair<std::string,Val> > m;
	Val() : k("undef"), i(0), b(false) {}
};
static Val VNull() { Val v; v.k="null"; return v; }
static Val VBool(bool b) { Val v; v.k="bool"; v.b=b; return v; }
static Val VInt(long i) { Val v; v.k="int"; v.i=i; return v; }
static Val VFrac(int id) { Val v; v.k="frac"; v.i=id; return v; }
static Val VBig() { Val v; v.k="big"; v.i=1; return v; }
static Val VStr(std::string const &s) { Val v; v.k="str"; v.s=s; return v; }
static Val VArr() { Val v; v.k="arr"; return v; }
static Val VArr(Val const &x) { Val v; v.k="arr"; v.a.push_back(x); return v; }
static Val VArr(Val const &x,Val const &y) { Val v; v.k="arr"; v.a.push_back(x); v.a.push_back(y); return v; }
static Val VObj() { Val v; v.k="obj"; return v; }
static Val VObj(std::string const &key,Val const &x) { Val v; v.k="obj"; v.m.push_back(std::make_pair(key,x)); return v; }
static Val VUnknown(std::string const &text) { Val v; v.k="other"; v.s=text; return v; }

static std::string jstr(std::string const &v)
{
	std::string r="\"";
	for(size_t i=0;i<v.size();i++) { unsigned char c=v[i]; if(c=='"'||c=='\\'){r+='\\'; r+=char(c);} else if(c<0x20||c>=0x7f){ char b[8]; snprintf(b,sizeof(b),"\\u%04x",c); r+=b; } else r+=char(c); }
	return r+"\"";
}
static std::string itos(long v) { char b[32]; snprintf(b,sizeof(b),"%ld",v); return b; }
static const double FRAC[3]={0,1.5,-0.25};
static const double BIG=3000000000.0;

// concrete JSON text of a value
static std::string render(Val const &v)
{
	if(v.k=="null") return "null";
	if(v.k=="bool") return v.b?"true":"false";
	if(v.k=="int") return itos(v.i);
	if(v.k=="frac") return v.i==1?"1.5":"-0.25";
	if(v.k=="big") return "3000000000";
	if(v.k=="str") return jstr(v.s);
	if(v.k=="arr") { std::string r="["; for(size_t i=0;i<v.a.size();i++) { if(i) r+=","; r+=render(v.a[i]); } return r+"]"; }
	if(v.k=="obj") { std::string r="{"; for(size_t i=0;i<v.m.size();i++) { if(i) r+=","; r+=jstr(v.m[i].first)+":"+render(v.m[i].second); } return r+"}"; }
	return "undefined";
}
// the abstract form as logged
static std::string alog(Val const &v)
{
	if(v.k=="bool") return std::string("{\"k\":\"bool\",\"b\":")+(v.b?"true":"false")+"}";
	if(v.k=="int" || v.k=="frac" || v.k=="big") return "{\"k\":\""+v.k+"\",\"i\":"+itos(v.i)+"}";
	if(v.k=="str" || v.k=="other") return "{\"k\":\""+v.k+"\",\"s\":"+jstr(v.s)+"}";
	if(v.k=="arr") { std::string r="{\"k\":\"arr\",\"a\":["; for(size_t i=0;i<v.a.size();i++) { if(i) r+=","; r+=alog(v.a[i]); } return r+"]}"; }
	if(v.k=="obj") { std::string r="{\"k\":\"obj\",\"m\":["; for(size_t i=0;i<v.m.size();i++) { if(i) r+=","; r+="{\"key\":"+jstr(v.m[i].first)+",\"v\":"+alog(v.m[i].second)+"}"; } return r+"]}"; }
	return "{\"k\":\""+v.k+"\"}";
}
static Val absnum(double d)
{
	if(d==FRAC[1]) return VFrac(1);
	if(d==FRAC[2]) return VFrac(2);
	if(d==BIG) return VBig();
	if(d==floor(d) && fabs(d)<=1000000) return VInt((long)d);
	char b[64]; snprintf(b,sizeof(b),"%.17g",d); return VUnknown(b);
}
static Val absval(json::value const &v)
{
	switch(v.type()) {
	case json::is_null: return VNull();
	case json::is_boolean: return VBool(v.boolean());
	case json::is_number: return absnum(v.number());
	case json::is_string: return VStr(v.str());
	case json::is_array: { Val r=VArr(); for(size_t i=0;i<v.array().size();i++) r.a.push_back(absval(v.array()[i])); return r; }
	case json::is_object: { Val r=VObj(); for(json::object::const_iterator p=v.object().begin();p!=v.object().end();++p) r.m.push_back(std::make_pair(p->first.str(),absval(p->second))); return r; }
	default: return Val();
	}
}
static json::value realval(Val const &v)
{
	json::value r;
	std::istringstream ss(render(v));
	if(v.k=="null") { r.null(); return r; }
	if(v.k=="bool") { r.boolean(v.b); return r; }
	if(v.k=="int") { r.number(v.i); return r; }
	if(v.k=="frac") { r.number(FRAC[v.i]); return r; }
	if(v.k=="big") { r.number(BIG); return r; }
	if(v.k=="str") { r.str(v.s); return r; }
	if(v.k=="arr") { r=json::array(); for(size_t i=0;i<v.a.size();i++) r.array().push_back(realval(v.a[i])); return r; }
	if(v.k=="obj") { r=json::object(); for(size_t i=0;i<v.m.size();i++) r[v.m[i].first]=realval(v.m[i].second); return r; }
	return r;
}

// ------------------------------------------------------------------ scenario
struct Field { bool has; Val v; Field() : has(false) {} Field(Val const &x) : has(true), v(x) {} };
struct Scn {
	std::string app;        // sync | async
	bool smd;
	std::string http,ct;
	std::string bk;         // obj | nonobj | malformed | empty
	std::string rawbody;    // for nonobj / malformed
	Field method,params,id;
	bool extra;             // additional unrelated member in the request object
	std::vector<std::string> script;
	Scn() : app("sync"), smd(false), http("POST"), ct("application/json"), bk("obj"), extra(false) {}
	std::string body() const
	{
		if(bk=="empty") return "";
		if(bk!="obj") return rawbody;
		std::string r="{"; bool first=true;
		if(extra) { r+="\"jsonrpc\":\"2.0\""; first=false; }
		if(params.has) { if(!first) r+=","; first=false; r+="\"params\":"+render(params.v); }
		if(method.has) { if(!first) r+=","; first=false; r+="\"method\":"+render(method.v); }
		if(id.has) { if(!first) r+=","; first=false; r+="\"id\":"+render(id.v); }
		return r+"}";
	}
};
static std::string flog(Field const &f) { return std::string("{\"has\":")+(f.has?"true":"false")+",\"v\":"+alog(f.has?f.v:Val())+"}"; }

// registered methods: signature codes
//   i int  u unsigned  s string  b bool  d double  v json::value  a json::array  o json::object  I vector<int>   "*" raw functor
static const char *SIGS[]={"","i","u","s","b","d","v","a","o","I","is","sb","dv","ua","idb","sva","bIo","iiii","*",0};
static const char ROLES[3]={'a','m','n'};
static std::string mname(std::string const &sig,char role) { return sig=="*" ? std::string("raw_")+role : "m_"+sig+"_"+role; }
static bool lookup_reg(std::string const &name,std::string &sig,char &role)
{
	for(int i=0;SIGS[i];i++) for(int r=0;r<3;r++) if(mname(SIGS[i],ROLES[r])==name) { sig=SIGS[i]; role=ROLES[r]; return true; }
	return false;
}

// ------------------------------------------------------------------ observation
struct Obs {
	pthread_mutex_t mx;
	std::vector<std::string> inv;      // already in log form
	std::vector<std::pair<std::string,std::string> > ops;
	std::string headers,out;
	int status,weof,deof; bool mainret,released,conn_gone;
	Obs() : status(0), weof(0), deof(0), mainret(false), released(false), conn_gone(false) { pthread_mutex_init(&mx,0); }
};
static Obs *g_obs;
static Scn const *g_scn;
static size_t g_pc;                                             // next script operation
static booster::shared_ptr<cppcms::rpc::json_call> g_call;      // released call
struct L { L() { pthread_mutex_lock(&g_obs->mx); } ~L() { pthread_mutex_unlock(&g_obs->mx); } };

static std::string classify_exception()
{
	try { throw; }
	catch(cppcms::rpc::call_error const &) { return "call_error"; }
	catch(json::bad_value_cast const &) { return "bad_cast"; }
	catch(cppcms::cppcms_error const &) { return "cppcms_error"; }
	catch(std::exception const &) { return "std"; }
	catch(...) { return "other"; }
}
static Val result_value(std::string const &op,size_t pos)
{
	if(op.size()>1 && op[1]=='o') return VObj("a",VArr(VInt(1),VStr("x")));
	if(op.size()>1 && op[1]=='s') return VStr("res");
	if(op[0]=='R' || op[0]=='r' || op[0]=='A') return VInt(100+pos);
	return VStr("e"+itos(pos));
}

// ------------------------------------------------------------------ the application
static booster::aio::io_service *g_ios;

template<bool SMD>
class rpc_app : public cppcms::rpc::json_rpc_server {
public:
	struct wrap {           // records under which registered name the function was reached
		std::string name; method_type inner;
		void operator()(json::array const &a) const { cur()=name; inner(a); }
	};
	static std::string &cur() { static std::string c; return c; }
	struct rawf {
		rpc_app *self;
		void operator()(json::array const &a) const
		{
			std::vector<std::string> args;
			for(size_t i=0;i<a.size();i++) args.push_back(alog(absval(a[i])));
			self->enter(args);
		}
	};
	void reg(std::string const &sig,method_type const &m)
	{
		static const role_type rt[3]={any_role,method_role,notification_role};
		for(int r=0;r<3;r++) { wrap w; w.name=mname(sig,ROLES[r]); w.inner=m; bind(w.name,w,rt[r]); }
	}
	rpc_app(cppcms::service &s) : cppcms::rpc::json_rpc_server(s)
	{
		using cppcms::rpc::json_method;
		reg("",json_method(&rpc_app::h0,this));
		reg("i",json_method(&rpc_app::h_i,this));
		reg("u",json_method(&rpc_app::h_u,this));
		reg("s",json_method(&rpc_app::h_s,this));
		reg("b",json_method(&rpc_app::h_b,this));
		reg("d",json_method(&rpc_app::h_d,this));
		reg("v",json_method(&rpc_app::h_v,this));
		reg("a",json_method(&rpc_app::h_a,this));
		reg("o",json_method(&rpc_app::h_o,this));
		reg("I",json_method(&rpc_app::h_I,this));
		reg("is",json_method(&rpc_app::h_is,this));
		reg("sb",json_method(&rpc_app::h_sb,this));
		reg("dv",json_method(&rpc_app::h_dv,this));
		reg("ua",json_method(&rpc_app::h_ua,this));
		reg("idb",json_method(&rpc_app::h_idb,this));
		reg("sva",json_method(&rpc_app::h_sva,this));
		reg("bIo",json_method(&rpc_app::h_bIo,this));
		reg("iiii",json_method(&rpc_app::h_iiii,this));
		rawf rf; rf.self=this; reg("*",rf);
		if(SMD) smd_raw("{\"smd\":1}");
	}
	virtual void main(std::string url)
	{
		struct done { ~done() { L g; g_obs->mainret=true; } } d;
		cppcms::rpc::json_rpc_server::main(url);
	}
	// typed value -> abstract log form
	static std::string tv(int v) { return alog(VInt(v)); }
	static std::string tv(unsigned v) { return alog(absnum(v)); }
	static std::string tv(bool v) { return alog(VBool(v)); }
	static std::string tv(double v) { return alog(absnum(v)); }
	static std::string tv(std::string const &v) { return alog(VStr(v)); }
	static std::string tv(json::value const &v) { return alog(absval(v)); }
	static std::string tv(json::array const &v) { json::value x=v; return alog(absval(x)); }
	static std::string tv(json::object const &v) { json::value x=v; return alog(absval(x)); }
	static std::string tv(std::vector<int> const &v) { Val r=VArr(); for(size_t i=0;i<v.size();i++) r.a.push_back(VInt(v[i])); return alog(r); }
	typedef std::vector<std::string> A;
	void h0() { enter(A()); }
	void h_i(int a) { A x; x.push_back(tv(a)); enter(x); }
	void h_u(unsigned a) { A x; x.push_back(tv(a)); enter(x); }
	void h_s(std::string const &a) { A x; x.push_back(tv(a)); enter(x); }
	void h_b(bool a) { A x; x.push_back(tv(a)); enter(x); }
	void h_d(double a) { A x; x.push_back(tv(a)); enter(x); }
	void h_v(json::value const &a) { A x; x.push_back(tv(a)); enter(x); }
	void h_a(json::array a) { A x; x.push_back(tv(a)); enter(x); }
	void h_o(json::object const &a) { A x; x.push_back(tv(a)); enter(x); }
	void h_I(std::vector<int> const &a) { A x; x.push_back(tv(a)); enter(x); }
	void h_is(int a,std::string b) { A x; x.push_back(tv(a)); x.push_back(tv(b)); enter(x); }
	void h_sb(std::string const &a,bool const &b) { A x; x.push_back(tv(a)); x.push_back(tv(b)); enter(x); }
	void h_dv(double const a,json::value b) { A x; x.push_back(tv(a)); x.push_back(tv(b)); enter(x); }
	void h_ua(unsigned a,json::array const &b) { A x; x.push_back(tv(a)); x.push_back(tv(b)); enter(x); }
	void h_idb(int a,double b,bool c) { A x; x.push_back(tv(a)); x.push_back(tv(b)); x.push_back(tv(c)); enter(x); }
	void h_sva(std::string a,json::value const &b,json::array c) { A x; x.push_back(tv(a)); x.push_back(tv(b)); x.push_back(tv(c)); enter(x); }
	void h_bIo(bool a,std::vector<int> b,json::object c) { A x; x.push_back(tv(a)); x.push_back(tv(b)); x.push_back(tv(c)); enter(x); }
	void h_iiii(int a,int b,int c,int d) { A x; x.push_back(tv(a)); x.push_back(tv(b)); x.push_back(tv(c)); x.push_back(tv(d)); enter(x); }

	void enter(A const &args)
	{
		{
			std::string s="{\"name\":"+jstr(cur())+",\"args\":[";
			for(size_t i=0;i<args.size();i++) { if(i) s+=","; s+=args[i]; }
			L g; g_obs->inv.push_back(s+"]}");
		}
		run_script();
	}
	void note(std::string const &op,std::string const &threw) { L g; g_obs->ops.push_back(std::make_pair(op,threw)); }
	// in-handler part of the program: everything up to and including "rel"; "T?" leaves the handler by exception
	//   N nothing   R/Ro/Rs return_result   E/Eo return_error   Tc/Tb/Ts throw call_error / bad_value_cast / runtime_error
	//   A return_result unless notification()
	//   rel release_call()    after rel: the remaining lower-case operations are run by the driver once main() has returned
	//   (an upper-case R/E written after rel is still executed inside the handler, before returning)
	void run_script()
	{
		std::vector<std::string> const &sc=g_scn->script;
		while(g_pc<sc.size()) {
			std::string op=sc[g_pc];
			if(op=="r" || op=="ro" || op=="e" || op=="eo" || op=="drop") break;
			size_t pos=g_pc++;
			if(op=="N") continue;
			if(op=="A") {           // the well-behaved handler: answers iff the call is not a notification
				try { if(!notification()) return_result(realval(result_value(op,pos))); note(op,"none"); }
				catch(...) { note(op,classify_exception()); }
				continue;
			}
			if(op=="Tc") { note(op,"thrown"); throw cppcms::rpc::call_error("custom failure"); }
			if(op=="Tb") { note(op,"thrown"); throw json::bad_value_cast("handler cast"); }
			if(op=="Ts") { note(op,"thrown"); throw std::runtime_error("handler failure"); }
			if(op=="rel") {
				try { g_call=release_call(); { L g; g_obs->released=true; } note(op,"none"); }
				catch(...) { note(op,classify_exception()); }
				continue;
			}
			try {
				if(op[0]=='R') return_result(realval(result_value(op,pos)));
				else return_error(realval(result_value(op,pos)));
				note(op,"none");
			}
			catch(...) { note(op,classify_exception()); }
		}
	}
};
// operations on the released call, after main() returned (driver thread)
static void drain();
static void run_later()
{
	std::vector<std::string> const &sc=g_scn->script;
	while(g_pc<sc.size()) {
		std::string op=sc[g_pc]; size_t pos=g_pc++;
		std::string threw="none";
		if(op!="r" && op!="ro" && op!="e" && op!="eo" && op!="drop") threw="skipped";
		else if(op=="drop") { if(g_call) g_call.reset(); else threw="nocall"; }
		else if(!g_call) threw="nocall";
		else {
			try {
				if(op[0]=='r') g_call->return_result(realval(result_value(op,pos)));
				else g_call->return_error(realval(result_value(op,pos)));
			}
			catch(...) { threw=classify_exception(); }
		}
		{ L g; g_obs->ops.push_back(std::make_pair(op,threw)); }
		drain();
	}
}

// ------------------------------------------------------------------ network-free connection (tests/dummy_api.h seam)
class rpc_conn : public cppcms::impl::cgi::connection {
public:
	rpc_conn(cppcms::service &srv,std::map<std::string,std::string> const &env,std::string const &body,Obs *o) :
		cppcms::impl::cgi::connection(srv), sock_(*g_ios), body_(body), off_(0), pending_(false), pp_(0), pn_(0), obs_(o)
	{
		for(std::map<std::string,std::string>::const_iterator p=env.begin();p!=env.end();++p)
			env_.add(pool_.add(p->first),pool_.add(p->second));
		int fds[2];
		if(socketpair(AF_UNIX,SOCK_STREAM,0,fds)!=0) { perror("socketpair"); _exit(3); }
		sock_.assign(fds[0]); other_=fds[1];
	}
	~rpc_conn() { ::close(other_); pthread_mutex_lock(&obs_->mx); obs_->conn_gone=true; pthread_mutex_unlock(&obs_->mx); }
	virtual void set_response_headers(cppcms::impl::response_headers &h)
	{
		cppcms::impl::response_headers::string_buffer_wrapper wr;
		h.format_cgi_headers(wr,true);
		pthread_mutex_lock(&obs_->mx);
		obs_->headers=wr.data();
		size_t p=obs_->headers.find("Status:");
		obs_->status = p==std::string::npos ? 200 : atoi(obs_->headers.c_str()+p+7);
		pthread_mutex_unlock(&obs_->mx);
	}
	virtual booster::aio::const_buffer format_output(booster::aio::const_buffer const &in,bool,booster::system::error_code &) { return in; }
	virtual bool write(booster::aio::const_buffer const &in,bool eof,booster::system::error_code &)
	{
		std::pair<booster::aio::const_buffer::entry const *,size_t> all=in.get();
		pthread_mutex_lock(&obs_->mx);
		for(size_t i=0;i<all.second;i++) obs_->out.append(reinterpret_cast<char const *>(all.first[i].ptr),all.first[i].size);
		if(eof) obs_->weof++;
		pthread_mutex_unlock(&obs_->mx);
		return true;
	}
	virtual bool nonblocking_write(booster::aio::const_buffer const &in,bool eof,booster::system::error_code &e) { return write(in,eof,e); }
	virtual void async_write(booster::aio::const_buffer const &in,bool eof,handler const &h)
	{
		booster::system::error_code e; write(in,eof,e); h(e);
	}
	virtual void on_async_write_start() {}
	virtual void on_async_write_progress(bool) {}
	virtual void do_eof() { pthread_mutex_lock(&obs_->mx); obs_->deof++; pthread_mutex_unlock(&obs_->mx); }
	virtual booster::aio::io_service &get_io_service() { return *g_ios; }
	virtual booster::aio::stream_socket &socket() { return sock_; }
	virtual void async_read_headers(handler const &h) { h(booster::system::error_code()); }
	virtual bool keep_alive() { return false; }
	virtual void async_read_eof(callback const &) {}
	virtual void async_read_some(void *p,size_t n,io_handler const &h) { pp_=p; pn_=n; ph_=h; pending_=true; }
	bool pump()           // deliver one read of the POST body (two bytes short of what was asked for, to exercise re-reads)
	{
		if(!pending_) return false;
		pending_=false;
		io_handler h=ph_; ph_=io_handler();
		size_t rem=body_.size()-off_;
		if(rem==0) { h(booster::system::error_code(booster::aio::aio_error::eof,booster::aio::aio_error_cat),0); return true; }
		size_t k=pn_; if(k>rem) k=rem; if(k>7) k-=2;
		memcpy(pp_,body_.data()+off_,k); off_+=k;
		h(booster::system::error_code(),k);
		return true;
	}
private:
	booster::aio::stream_socket sock_;
	int other_;
	std::string body_;
	size_t off_;
	bool pending_; void *pp_; size_t pn_; io_handler ph_;
	Obs *obs_;
};

static cppcms::service *g_srv;
static void stop_ios() { g_ios->stop(); }
static void drain() { g_ios->post(stop_ios); g_ios->run(); g_ios->reset(); }

// ------------------------------------------------------------------ response analysis
// split the body into top-level JSON documents (brace matching, string aware); whatever is left over is junk
static void split_docs(std::string const &b,std::vector<std::string> &docs,bool &junk)
{
	junk=false; size_t i=0;
	while(i<b.size()) {
		if(b[i]==' '||b[i]=='\n'||b[i]=='\r'||b[i]=='\t') { i++; continue; }
		if(b[i]!='{') { junk=true; return; }
		int depth=0; bool in=false; size_t j=i;
		for(;j<b.size();j++) {
			char c=b[j];
			if(in) { if(c=='\\') j++; else if(c=='"') in=false; continue; }
			if(c=='"') in=true;
			else if(c=='{'||c=='[') depth++;
			else if(c=='}'||c==']') { depth--; if(depth==0) break; }
		}
		if(j>=b.size()) { junk=true; return; }
		docs.push_back(b.substr(i,j-i+1));
		i=j+1;
	}
}
static std::string doc_log(std::string const &d)
{
	json::value v; std::istringstream ss(d);
	if(!v.load(ss,true) || v.type()!=json::is_object) return "{\"ok\":false,\"nk\":0,\"id\":{\"k\":\"undef\"},\"error\":{\"k\":\"undef\"},\"result\":{\"k\":\"undef\"}}";
	return "{\"ok\":true,\"nk\":"+itos(v.object().size())+",\"id\":"+alog(absval(v.find("id")))+",\"error\":"+alog(absval(v.find("error")))+",\"result\":"+alog(absval(v.find("result")))+"}";
}
static std::string header_value(std::string const &h,std::string const &name)
{
	size_t p=0;
	while(p<h.size()) {
		size_t e=h.find("\r\n",p); if(e==std::string::npos) e=h.size();
		std::string line=h.substr(p,e-p);
		if(line.size()>name.size()+1 && strncasecmp(line.c_str(),name.c_str(),name.size())==0 && line[name.size()]==':') {
			size_t q=name.size()+1; while(q<line.size() && line[q]==' ') q++;
			return line.substr(q);
		}
		p=e+2;
	}
	return "";
}

// ------------------------------------------------------------------ one request
static std::string input_log(Scn const &s,long n)
{
	std::string mn = (s.bk=="obj" && s.method.has && s.method.v.k=="str") ? s.method.v.s : "";
	std::string sig; char role='a'; bool has = !mn.empty() && lookup_reg(mn,sig,role);
	std::string r="{\"e\":\"Call\",\"n\":"+itos(n)+",\"app\":\""+s.app+"\",\"smd\":"+(s.smd?"true":"false")+",\"http\":"+jstr(s.http)+",\"ct\":"+jstr(s.ct)
		+",\"bk\":\""+s.bk+"\",\"method\":"+flog(s.bk=="obj"?s.method:Field())+",\"params\":"+flog(s.bk=="obj"?s.params:Field())+",\"id\":"+flog(s.bk=="obj"?s.id:Field())
		+",\"extra\":"+(s.extra?"true":"false")+",\"raw\":"+jstr(s.body())+",\"mname\":"+jstr(mn)+",\"reg\":{\"has\":"+(has?"true":"false")+",\"sig\":[";
	if(has && sig!="*") for(size_t i=0;i<sig.size();i++) { if(i) r+=","; r+="\""+std::string(1,sig[i])+"\""; }
	r+="],\"role\":\""+std::string(1,role)+"\",\"raw\":"+((has && sig=="*")?"true":"false")+"},\"script\":[";
	for(size_t i=0;i<s.script.size();i++) { if(i) r+=","; r+=jstr(s.script[i]); }
	return r+"]";
}
static std::string run_one(Scn const &s,std::string const &prefix)
{
	Obs *o=new Obs();                // leaked on purpose: a context that outlives the request may still touch it
	g_obs=o; g_scn=&s; g_pc=0; g_call.reset();
	bool hang=false;
	{
		std::map<std::string,std::string> env;
		env["REQUEST_METHOD"]=s.http; env["SCRIPT_NAME"]=std::string("/")+s.app+(s.smd?"smd":""); env["PATH_INFO"]=""; env["HTTP_HOST"]="h";
		env["QUERY_STRING"]="";
		if(!s.ct.empty()) env["CONTENT_TYPE"]=s.ct;
		std::string body=s.body();
		env["CONTENT_LENGTH"]=itos(body.size());
		booster::shared_ptr<rpc_conn> conn(new rpc_conn(*g_srv,env,body,o));
		booster::shared_ptr<cppcms::http::context> ctx(new cppcms::http::context(conn));
		booster::weak_ptr<cppcms::http::context> wctx(ctx);
		ctx->run();
		while(conn->pump()) ;
		ctx.reset();
		drain();
		if(s.app=="sync") {
			// the request was handed to the thread pool: wait until main() has returned and the response is complete
			// (or the call was released / the request never reached an application)
			for(long i=0;;i++) {
				bool done;
				{ L g; done = o->mainret ? (o->released || o->weof>0 || o->deof>0) : (o->weof>0 || o->deof>0); }
				if(done) break;
				if(i>400000) { hang=true; break; }
				usleep(i<2000?20:200);
			}
			// let the worker leave dispatch(): without a released call the context must go away
			bool rel; { L g; rel=o->released; }
			for(long i=0;!rel && !hang && !wctx.expired();i++) { if(i>200000) { hang=true; break; } usleep(i<2000?20:200); }
			drain();
		}
		conn.reset();
		if(!hang) run_later();
		g_call.reset();
		drain();
	}
	std::string r=prefix;
	L g;
	r+=",\"inv\":[";
	for(size_t i=0;i<o->inv.size();i++) { if(i) r+=","; r+=o->inv[i]; }
	r+="],\"ops\":[";
	for(size_t i=0;i<o->ops.size();i++) { if(i) r+=","; r+="{\"op\":"+jstr(o->ops[i].first)+",\"threw\":"+jstr(o->ops[i].second)+"}"; }
	r+="],\"st\":"+itos(o->status);
	std::string ctype=header_value(o->headers,"Content-Type");
	// headers arrive through set_response_headers; out is the body only
	std::vector<std::string> docs; bool junk=false;
	bool isjson = ctype.compare(0,16,"application/json")==0;
	std::string text;
	if(isjson) split_docs(o->out,docs,junk);
	else { text=o->out; while(!text.empty() && (text[text.size()-1]=='\n' || text[text.size()-1]=='\r')) text.erase(text.size()-1); if(text.size()>80) text=text.substr(0,80); }
	std::string cmt=ctype.substr(0,ctype.find(';')); while(!cmt.empty() && cmt[cmt.size()-1]==' ') cmt.erase(cmt.size()-1);
	r+=",\"ctype\":"+jstr(ctype)+",\"cmt\":"+jstr(cmt)+",\"blen\":"+itos(o->out.size())+",\"docs\":[";
	for(size_t i=0;i<docs.size();i++) { if(i) r+=","; r+=doc_log(docs[i]); }
	r+="],\"junk\":"+std::string(junk?"true":"false")+",\"text\":"+jstr(text)+",\"body\":"+jstr(o->out.size()>200?o->out.substr(0,200):o->out)
	  +",\"weof\":"+itos(o->weof)+",\"deof\":"+itos(o->deof)+",\"mainret\":"+(o->mainret?"true":"false")+",\"gone\":"+(o->conn_gone?"true":"false")
	  +",\"hang\":"+(hang?"true":"false")+",\"died\":false,\"sig\":0}";
	return r;
}

// ------------------------------------------------------------------ scenario families
static std::vector<Val> right_values(char t)
{
	std::vector<Val> r;
	switch(t) {
	case 'i': r.push_back(VInt(7)); r.push_back(VInt(-3)); r.push_back(VInt(0)); break;
	case 'u': r.push_back(VInt(7)); r.push_back(VInt(0)); r.push_back(VBig()); break;
	case 's': r.push_back(VStr("ab")); r.push_back(VStr("")); break;
	case 'b': r.push_back(VBool(true)); r.push_back(VBool(false)); break;
	case 'd': r.push_back(VFrac(1)); r.push_back(VInt(7)); r.push_back(VBig()); r.push_back(VFrac(2)); break;
	case 'v': r.push_back(VNull()); r.push_back(VInt(7)); r.push_back(VStr("ab")); r.push_back(VArr(VInt(1),VStr("x"))); r.push_back(VObj("a",VInt(1))); r.push_back(VBool(false)); break;
	case 'a': r.push_back(VArr()); r.push_back(VArr(VInt(1),VStr("x"))); r.push_back(VArr(VArr(VInt(1)))); break;
	case 'o': r.push_back(VObj("a",VInt(1))); r.push_back(VObj()); break;
	case 'I': r.push_back(VArr()); r.push_back(VArr(VInt(1),VInt(2))); break;
	}
	return r;
}
static std::vector<Val> wrong_values(char t)
{
	std::vector<Val> r;
	switch(t) {
	case 'i': r.push_back(VFrac(1)); r.push_back(VStr("7")); r.push_back(VBool(true)); r.push_back(VNull()); r.push_back(VBig()); r.push_back(VArr(VInt(7))); break;
	case 'u': r.push_back(VInt(-3)); r.push_back(VFrac(1)); r.push_back(VStr("7")); break;
	case 's': r.push_back(VInt(7)); r.push_back(VNull()); r.push_back(VArr(VStr("ab"))); break;
	case 'b': r.push_back(VInt(0)); r.push_back(VStr("true")); r.push_back(VNull()); break;
	case 'd': r.push_back(VStr("1.5")); r.push_back(VNull()); r.push_back(VBool(true)); break;
	case 'a': r.push_back(VObj("a",VInt(1))); r.push_back(VStr("ab")); r.push_back(VNull()); break;
	case 'o': r.push_back(VArr(VInt(1))); r.push_back(VNull()); r.push_back(VInt(1)); break;
	case 'I': r.push_back(VArr(VInt(1),VStr("x"))); r.push_back(VArr(VFrac(1))); r.push_back(VInt(7)); r.push_back(VNull()); break;
	}
	return r;
}
static Val good_params(std::string const &sig,unsigned variant)
{
	Val p=VArr();
	if(sig=="*") { for(unsigned i=0;i<variant%3;i++) p.a.push_back(VInt(i)); return p; }
	for(size_t i=0;i<sig.size();i++) { std::vector<Val> r=right_values(sig[i]); p.a.push_back(r[(variant+i)%r.size()]); }
	return p;
}
static std::vector<Val> id_values()
{
	std::vector<Val> r;
	r.push_back(VInt(1)); r.push_back(VNull()); r.push_back(VStr("x")); r.push_back(VObj("a",VInt(1))); r.push_back(VInt(0));
	r.push_back(VBool(false)); r.push_back(VArr(VInt(1))); r.push_back(VFrac(1)); r.push_back(VStr(""));
	return r;
}
static const char *CTS[]={"application/json","application/json; charset=UTF-8","application/jsonrequest","application/json-rpc","Application/JSON",
	"text/plain","","application/xml","text/json","application/jsonx","json","application/x-json",0};
static std::vector<std::string> sc1(char const *a) { std::vector<std::string> v; v.push_back(a); return v; }
static std::vector<std::string> scs(char const *spec)      // "R,rel,r"
{
	std::vector<std::string> v; std::string cur;
	for(char const *p=spec;;p++) { if(*p==',' || !*p) { if(!cur.empty()) v.push_back(cur); cur.clear(); if(!*p) break; } else cur+=*p; }
	return v;
}
static Scn valid_call(std::string const &sig,char role,Val const &id,unsigned variant=0)
{
	Scn s; s.method=Field(VStr(mname(sig,role))); s.params=Field(good_params(sig,variant)); s.id=Field(id); s.script=sc1("A");
	return s;
}

static void fam_front(std::vector<Scn> &out)
{
	static const char *https[]={"POST","GET","PUT","HEAD",0};
	static const char *apps[]={"sync","async",0};
	for(int a=0;apps[a];a++) for(int smd=0;smd<2;smd++) for(int h=0;https[h];h++) for(int c=0;CTS[c];c++) {
		for(int b=0;b<8;b++) {
			Scn s=valid_call("is",'a',VInt(1)); s.app=apps[a]; s.smd=smd; s.http=https[h]; s.ct=CTS[c];
			switch(b) {
			case 0: break;
			case 1: s.bk="empty"; break;
			case 2: s.bk="malformed"; s.rawbody="{\"method\":\"m_is_a\",\"params\":[7,\"ab\"],\"id\":1"; break;
			case 3: s.bk="malformed"; s.rawbody="{\"method\":\"m_is_a\",\"params\":[7,\"ab\"],\"id\":1} x"; break;
			case 4: s.bk="nonobj"; s.rawbody="[\"m_is_a\",[7,\"ab\"],1]"; break;
			case 5: s.id=Field(VNull()); break;
			case 6: s.id=Field(); break;
			case 7: s.bk="malformed"; s.rawbody="method=m_is_a&id=1"; break;
			}
			if(std::string(https[h])!="POST" && b>=2 && c>1) continue;     // thin the non-POST part
			out.push_back(s);
		}
	}
}
static void fam_shape(std::vector<Scn> &out)
{
	std::vector<Val> ids=id_values();
	// method field absent / not a string / unregistered; params absent / not an array
	Field meths[6]={Field(),Field(VInt(5)),Field(VNull()),Field(VStr("nosuch")),Field(VStr("")),Field(VArr(VStr("m__a")))};
	Field pars[5]={Field(),Field(VObj("a",VInt(1))),Field(VStr("x")),Field(VNull()),Field(VArr())};
	for(int m=0;m<6;m++) for(int p=0;p<5;p++) for(size_t i=0;i<=ids.size();i++) {
		Scn s; s.method=meths[m]; s.params=pars[p]; s.id = i<ids.size() ? Field(ids[i]) : Field(); s.script=sc1("A"); s.extra=(m+p+i)%4==0;
		s.app=(m+p+i)%2?"async":"sync";
		out.push_back(s);
	}
	{ Scn s=valid_call("",'a',VInt(1)); s.params=Field(VObj("a",VInt(1))); out.push_back(s); s.params=Field(); out.push_back(s); s.params=Field(VNull()); out.push_back(s); }
	unsigned n=0;
	for(int g=0;SIGS[g];g++) for(int r=0;r<3;r++) {
		std::string sig=SIGS[g];
		size_t ar = sig=="*" ? 2 : sig.size();
		for(size_t i=0;i<=ids.size();i++) {
			Field id = i<ids.size() ? Field(ids[i]) : Field();
			bool few = i>=3;          // rarer id spellings: only the main shapes
			// exact arity, all right - every variant of right values
			for(unsigned v=0;v<(few?1u:4u);v++) { Scn s=valid_call(sig,ROLES[r],VInt(1),v); s.id=id; s.app=(n++%2)?"async":"sync"; out.push_back(s); }
			if(sig=="*") continue;
			// arity - 1, arity + 1, arity + 2
			if(ar>0) { Scn s=valid_call(sig,ROLES[r],VInt(1),1); s.id=id; s.params.v.a.pop_back(); s.app=(n++%2)?"async":"sync"; out.push_back(s); }
			{ Scn s=valid_call(sig,ROLES[r],VInt(1),2); s.id=id; s.params.v.a.push_back(VInt(9)); s.app=(n++%2)?"async":"sync"; out.push_back(s); }
			if(!few) { Scn s=valid_call(sig,ROLES[r],VInt(1),2); s.id=id; s.params.v.a.push_back(VNull()); s.params.v.a.push_back(VNull()); s.app=(n++%2)?"async":"sync"; out.push_back(s); }
			if(!few && ar>1) { Scn s=valid_call(sig,ROLES[r],VInt(1),0); s.id=id; s.params.v.a.clear(); s.app=(n++%2)?"async":"sync"; out.push_back(s); }
			// one element of the wrong type at each position
			for(size_t pos=0;pos<ar;pos++) {
				std::vector<Val> w=wrong_values(sig[pos]);
				for(size_t k=0;k<w.size();k++) {
					if(few && k>0) break;
					Scn s=valid_call(sig,ROLES[r],VInt(1),k); s.id=id; s.params.v.a[pos]=w[k]; s.app=(n++%2)?"async":"sync"; out.push_back(s);
				}
			}
		}
	}
}
static const char *SCRIPTS[]={"A","N","R","E","Ro","Eo","Rs","R,R","R,E","E,R","E,E","R,R,R","Tc","Tb","Ts","R,Ts","R,Tc","E,Tb","R,Tb","N,Ts",
	"rel,r","rel,e","rel,ro","rel,r,r","rel,r,e","rel,e,r","rel,e,e","rel,drop","rel","rel,r,drop","rel,R","rel,E,r","rel,Ts,r","rel,Tc","rel,Ts","R,rel,r","R,rel","R,rel,drop","E,rel,e",
	"rel,rel,r","rel,r,r,r",0};
static void fam_script(std::vector<Scn> &out)
{
	static const char *sigs[]={"","is","v","*",0};
	Val ids[4]={VInt(1),VNull(),VStr("x"),VObj("a",VInt(1))};
	for(int a=0;a<2;a++) for(int g=0;sigs[g];g++) for(int r=0;r<3;r++) for(int i=0;i<4;i++) for(int k=0;SCRIPTS[k];k++) {
		if(g>=2 && i>=2) continue;
		Scn s=valid_call(sigs[g],ROLES[r],ids[i],k); s.app=a?"async":"sync"; s.script=scs(SCRIPTS[k]);
		out.push_back(s);
	}
	// programs behind a call that is not dispatched (nothing of them may run)
	for(int a=0;a<2;a++) for(int k=0;SCRIPTS[k];k+=3) {
		Scn s=valid_call("is",'a',VInt(1)); s.app=a?"async":"sync"; s.script=scs(SCRIPTS[k]); s.params.v.a[0]=VStr("7"); out.push_back(s);
		s=valid_call("is",'a',VInt(1)); s.app=a?"async":"sync"; s.script=scs(SCRIPTS[k]); s.method=Field(VStr("nosuch")); out.push_back(s);
	}
}
static void fam_rand(std::vector<Scn> &out,long count,vt::rng &r)
{
	std::vector<Val> ids=id_values();
	int nsig=0; while(SIGS[nsig]) nsig++;
	int nscr=0; while(SCRIPTS[nscr]) nscr++;
	int ncts=0; while(CTS[ncts]) ncts++;
	for(long c=0;c<count;c++) {
		std::string sig=SIGS[r(nsig)]; char role=ROLES[r(3)];
		Scn s=valid_call(sig,role,ids[r(ids.size())],r(64));
		s.app=r(2)?"async":"sync"; s.smd=r.chance(1,4); s.extra=r.chance(1,5);
		s.script=scs(SCRIPTS[r.chance(1,2)?0:r(nscr)]);
		if(r.chance(1,8)) s.id=Field();
		if(r.chance(1,10)) s.ct=CTS[r(ncts)];
		if(r.chance(1,12)) { static const char *h[]={"GET","PUT","HEAD","post","DELETE"}; s.http=h[r(5)]; }
		if(r.chance(1,12)) {
			static const char *bad[]={"","{","[]","7","\"m__a\"","null","{\"method\":\"m__a\",\"params\":[],\"id\":1","{\"method\":\"m__a\" \"params\":[],\"id\":1}","{'method':'m__a','params':[],'id':1}","{\"method\":\"m__a\",\"params\":[],\"id\":1}}","true"};
			unsigned k=r(11); s.rawbody=bad[k]; s.bk = k==0 ? "empty" : (k==2||k==3||k==4||k==5||k==10) ? "nonobj" : "malformed";
		}
		if(r.chance(1,10)) { Field m[5]={Field(),Field(VInt(5)),Field(VStr("nosuch")),Field(VStr("m_is_x")),Field(VBool(true))}; s.method=m[r(5)]; }
		if(r.chance(1,10)) { Field p[4]={Field(),Field(VObj("a",VInt(1))),Field(VStr("x")),Field(VNull())}; s.params=p[r(4)]; }
		if(s.params.has && s.params.v.k=="arr" && sig!="*") {
			unsigned k=r(10);
			if(k==0 && !s.params.v.a.empty()) s.params.v.a.pop_back();
			else if(k==1) s.params.v.a.push_back(ids[r(ids.size())]);
			else if(k<=4 && !sig.empty()) {
				size_t pos=r(sig.size()); std::vector<Val> w=wrong_values(sig[pos]);
				if(!w.empty()) s.params.v.a[pos]=w[r(w.size())];
			}
		}
		out.push_back(s);
	}
}

// ------------------------------------------------------------------ worker / supervisor
struct Shared { volatile long index; volatile long len; char pending[16384]; };
static Shared *g_sh;

static void worker(std::vector<Scn> const &list,long start,char const *outpath)
{
	FILE *f=fopen(outpath,"a");
	if(!f) { perror(outpath); _exit(3); }
	cppcms::json::value cfg;
	cfg["service"]["api"]="http"; cfg["service"]["port"]=0; cfg["service"]["worker_threads"]=2;
	cfg["logging"]["level"]="emergency";
	cfg["session"]["disable_automatic_load"]=true;
	cppcms::service srv(cfg);
	g_srv=&srv;
	booster::aio::io_service ios; g_ios=&ios;
	srv.applications_pool().mount(cppcms::create_pool<rpc_app<false> >(),cppcms::mount_point("/sync"),cppcms::app::synchronous);
	srv.applications_pool().mount(cppcms::create_pool<rpc_app<true> >(),cppcms::mount_point("/syncsmd"),cppcms::app::synchronous);
	srv.applications_pool().mount(cppcms::create_pool<rpc_app<false> >(),cppcms::mount_point("/async"),cppcms::app::asynchronous);
	srv.applications_pool().mount(cppcms::create_pool<rpc_app<true> >(),cppcms::mount_point("/asyncsmd"),cppcms::app::asynchronous);
	for(long i=start;i<(long)list.size();i++) {
		if(i%200==0) { fprintf(f,"{\"e\":\"Reset\",\"at\":%ld}\n",i); }
		std::string prefix=input_log(list[i],i);
		g_sh->len=0; g_sh->index=i;
		size_t n=prefix.size()<sizeof(g_sh->pending)-1?prefix.size():sizeof(g_sh->pending)-1;
		memcpy(g_sh->pending,prefix.data(),n); g_sh->len=n;
		alarm(60);
		std::string line=run_one(list[i],prefix);
		alarm(0);
		fwrite(line.data(),1,line.size(),f); fputc('\n',f); fflush(f);
		g_sh->len=0;
	}
	g_sh->index=list.size();
	fclose(f);
	_exit(0);
}

int main(int argc,char **argv)
{
	if(argc<2) { fprintf(stderr,"usage: rpc_drv front|shape [s n]|script|rand <count> [s]\n"); return 2; }
	signal(SIGPIPE,SIG_IGN);
	std::string mode=argv[1];
	char const *outpath=getenv("VERIF_OUT");
	if(!outpath) { fprintf(stderr,"VERIF_OUT not set\n"); return 2; }
	{ FILE *f=fopen(outpath,"w"); if(!f) { perror(outpath); return 3; } fclose(f); }
	std::vector<Scn> all,list;
	if(mode=="front") fam_front(all);
	else if(mode=="shape") fam_shape(all);
	else if(mode=="script") fam_script(all);
	else if(mode=="rand") {
		long shard=argc>3?atol(argv[3]):0;
		vt::rng r(vt::envl("VERIF_SEED",1)*1000003ull+shard*7919+17);
		fam_rand(all,argc>2?atol(argv[2]):1000,r);
	}
	else { fprintf(stderr,"unknown mode\n"); return 2; }
	if(mode=="shape" && argc>3) { long s=atol(argv[2]),n=atol(argv[3]); for(size_t i=0;i<all.size();i++) if((long)(i%n)==s) list.push_back(all[i]); }
	else list=all;
	g_sh=(Shared *)mmap(0,sizeof(Shared),PROT_READ|PROT_WRITE,MAP_SHARED|MAP_ANONYMOUS,-1,0);
	if(g_sh==MAP_FAILED) { perror("mmap"); return 3; }
	g_sh->index=0; g_sh->len=0;
	long start=0,deaths=0;
	while(start<(long)list.size()) {
		pid_t pid=fork();
		if(pid<0) { perror("fork"); return 3; }
		if(pid==0) worker(list,start,outpath);
		int st=0;
		while(waitpid(pid,&st,0)<0 && errno==EINTR) ;
		if(WIFEXITED(st) && WEXITSTATUS(st)==0 && g_sh->index>=(long)list.size()) break;
		// the worker died inside request g_sh->index
		long at=g_sh->index; deaths++;
		int sig = WIFSIGNALED(st) ? WTERMSIG(st) : 0;
		FILE *f=fopen(outpath,"a");
		std::string prefix = g_sh->len>0 ? std::string(g_sh->pending,g_sh->len) : input_log(list[at<(long)list.size()?at:list.size()-1],at);
		fprintf(f,"%s,\"inv\":[],\"ops\":[],\"st\":0,\"ctype\":\"\",\"cmt\":\"\",\"blen\":0,\"docs\":[],\"junk\":false,\"text\":\"\",\"body\":\"\",\"weof\":0,\"deof\":0,\"mainret\":false,\"gone\":false,\"hang\":%s,\"died\":true,\"sig\":%d}\n",
			prefix.c_str(),sig==SIGALRM?"true":"false",sig?sig:(WIFEXITED(st)?1000+WEXITSTATUS(st):-1));
		fclose(f);
		start=at+1;
		if(deaths>400) { fprintf(stderr,"too many worker deaths\n"); return 4; }
	}
	fprintf(stdout,"requests=%zu deaths=%ld\n",list.size(),deaths);
	return 0;
}
