// G06 driver: threads (and forked processes) take the real booster / cppcms reader-writer locks;
// events are emitted INSIDE the critical sections (Acq after lock() returned, Rel before unlock() is
// called) through the hook emitter with its sequence counter in shared memory, so their order is the
// order in which the critical sections really overlapped.
// usage: lock_drv <kind> <procs> <threads> <ops> <modes r|w|rw> <rounds>       random runs
//        lock_drv forkscript                                                  the sibling-reader scenario
// kinds: shared recursive fork implshared implmutex mutex recmutex
#include <cppcms/config.h>
#include "common/vtrace.h"
#include <booster/verif_trace.h>
#include <booster/thread.h>
#include "posix_util.h"
#include <atomic>
#include <vector>
#include <string>
#include <pthread.h>
#include <unistd.h>
#include <signal.h>
#include <sys/mman.h>
#include <sys/wait.h>

namespace bv = booster::verif;

struct shm {
	std::atomic<unsigned long long> seq;
	std::atomic<long> progress, step;
	volatile long canary[2];
};
static shm *sh = new(mmap(0,sizeof(shm),PROT_READ|PROT_WRITE,MAP_SHARED|MAP_ANONYMOUS,-1,0)) shm();

struct lk {
	virtual ~lk() {}
	virtual void r() = 0;
	virtual void w() = 0;
	virtual int try_r() { return -1; } // -1: not supported
	virtual int try_w() { return -1; }
	virtual void u() = 0;
};
template<typename M> struct rw_lk : lk { M m; void r() { m.shared_lock(); } void w() { m.unique_lock(); } void u() { m.unlock(); } };
struct fork_lk : lk {
	booster::fork_shared_mutex m;
	void r() { m.shared_lock(); } void w() { m.unique_lock(); } void u() { m.unlock(); }
	int try_r() { return m.try_shared_lock(); } int try_w() { return m.try_unique_lock(); }
};
struct impl_shared_lk : lk { cppcms::impl::shared_mutex m; void r() { m.rdlock(); } void w() { m.wrlock(); } void u() { m.unlock(); } };
struct impl_mutex_lk : lk { cppcms::impl::mutex m; void r() { m.lock(); } void w() { m.lock(); } void u() { m.unlock(); } };
template<typename M> struct ex_lk : lk { M m; void r() { m.lock(); } void w() { m.lock(); } void u() { m.unlock(); } };

static lk *make(std::string const &k)
{
	if(k=="shared") return new rw_lk<booster::shared_mutex>();
	if(k=="recursive") return new rw_lk<booster::recursive_shared_mutex>();
	if(k=="fork") return new fork_lk();
	if(k=="implshared") return new impl_shared_lk();
	if(k=="implmutex") return new impl_mutex_lk();
	if(k=="mutex") return new ex_lk<booster::mutex>();
	if(k=="recmutex") return new ex_lk<booster::recursive_mutex>();
	return 0;
}
// exclusive-only kinds: every acquisition is a writer
static bool exclusive_only(std::string const &k) { return k=="implmutex" || k=="mutex" || k=="recmutex"; }

static lk *L;
static std::string kind, modes;
static int nops, maxdepth;

static void spin(vt::rng &g) { for(volatile int i=0,n=g(200);i<n;i++) ; if(g.chance(1,8)) sched_yield(); }

static void section(int a,bool w,vt::rng &g,int depth)
{
	bv::emit("\"e\":\"Acq\",\"a\":%d,\"m\":\"%s\"",a,w?"w":"r");
	bool ok=true;
	if(w) { long x=sh->canary[0]+1; sh->canary[0]=x; spin(g); sh->canary[1]=x; }
	else  { long x=sh->canary[0]; spin(g); ok = (x==sh->canary[1]); }
	bv::emit("\"e\":\"Chk\",\"a\":%d,\"ok\":%s",a,ok?"true":"false");
	if(!w && depth<maxdepth && g.chance(1,2)) {
		// recursive_shared_mutex: nested shared acquisition by the same thread
		L->r();
		section(a,false,g,depth+1);
		L->u();
	}
	bv::emit("\"e\":\"Rel\",\"a\":%d,\"m\":\"%s\"",a,w?"w":"r");
}

struct warg { int a; long seed; };
static void *worker(void *p)
{
	warg *wa=static_cast<warg*>(p);
	vt::rng g(wa->seed);
	int a=wa->a;
	for(int i=0;i<nops;i++) {
		bool w = modes=="w" || (modes=="rw" && g.chance(1,3));
		if(exclusive_only(kind)) w=true;
		bool tr = g.chance(1,4);
		if(tr) {
			int r = w ? L->try_w() : L->try_r();
			if(r==0) { bv::emit("\"e\":\"TryFail\",\"a\":%d,\"m\":\"%s\"",a,w?"w":"r"); sh->progress++; spin(g); continue; }
			if(r<0) { if(w) L->w(); else L->r(); }
		}
		else { if(w) L->w(); else L->r(); }
		section(a,w,g,1);
		L->u();
		sh->progress++;
		spin(g);
	}
	return 0;
}

static void *watchdog(void *)
{
	long last=-1; int idle=0;
	for(;;) {
		usleep(100000);
		long p=sh->progress.load();
		if(p==last) idle++; else idle=0;
		last=p;
		if(idle>1200) { bv::emit("\"e\":\"Hang\""); _exit(0); }
	}
	return 0;
}

static void run_threads(int proc,int threads,long seed)
{
	std::vector<pthread_t> th(threads); std::vector<warg> wa(threads);
	for(int t=0;t<threads;t++) { wa[t].a=proc*8+t+1; wa[t].seed=seed*31+proc*1009+t*17; pthread_create(&th[t],0,worker,&wa[t]); }
	for(int t=0;t<threads;t++) pthread_join(th[t],0);
}

static void wait_step(long v) { while(sh->step.load()<v) usleep(200); }

// The sibling-reader scenario of fork_shared_mutex (Locks.tla, Locks_fork_bug.cfg), made deterministic with a step counter:
//   P1.T1 shared_lock | P1.T2 shared_lock | P1.T1 unlock | P2 try_unique_lock  (P1.T2 is still inside)
static void *fs_t1(void *) { L->r(); bv::emit("\"e\":\"Acq\",\"a\":9,\"m\":\"r\""); sh->step=1; wait_step(2); bv::emit("\"e\":\"Rel\",\"a\":9,\"m\":\"r\""); L->u(); sh->step=3; return 0; }
static void *fs_t2(void *) { wait_step(1); L->r(); bv::emit("\"e\":\"Acq\",\"a\":10,\"m\":\"r\""); sh->step=2; wait_step(4); bv::emit("\"e\":\"Rel\",\"a\":10,\"m\":\"r\""); L->u(); sh->step=5; return 0; }
static int forkscript()
{
	L=make("fork"); maxdepth=1;
	bv::emit("\"e\":\"Reset\",\"kind\":\"fork\",\"procs\":2,\"threads\":2,\"maxdepth\":1,\"script\":true");
	pid_t p1=fork();
	if(p1==0) { bv::st().tid_base=10; pthread_t a,b; pthread_create(&a,0,fs_t1,0); pthread_create(&b,0,fs_t2,0); pthread_join(a,0); pthread_join(b,0); _exit(0); }
	pid_t p2=fork();
	if(p2==0) {
		bv::st().tid_base=20;
		wait_step(3);
		if(L->try_w()==1) { bv::emit("\"e\":\"Acq\",\"a\":17,\"m\":\"w\""); bv::emit("\"e\":\"Rel\",\"a\":17,\"m\":\"w\""); L->u(); }
		else bv::emit("\"e\":\"TryFail\",\"a\":17,\"m\":\"w\"");
		sh->step=4;
		_exit(0);
	}
	int st; waitpid(p1,&st,0); waitpid(p2,&st,0);
	bv::emit("\"e\":\"End\"");
	bv::close();
	return 0;
}

int main(int argc,char **argv)
{
	char const *out=getenv("VERIF_OUT");
	if(!out || argc<2) return 2;
	unlink(out);
	bv::open(out);
	bv::st().shared_seq=&sh->seq;
	pthread_t wd; pthread_create(&wd,0,watchdog,0);
	if(std::string(argv[1])=="forkscript") return forkscript();
	if(argc<7) return 2;
	kind=argv[1]; int procs=atoi(argv[2]),threads=atoi(argv[3]); nops=atoi(argv[4]); modes=argv[5]; int rounds=atoi(argv[6]);
	maxdepth = kind=="recursive" ? 3 : 1;
	long seed=vt::envl("VERIF_SEED",1);
	bool multi = procs>1;
	if(multi && !(kind=="fork" || kind=="implshared" || kind=="implmutex")) return 2;
	for(int r=0;r<rounds;r++) {
		L=make(kind);
		if(!L) return 2;
		sh->canary[0]=sh->canary[1]=0;
		bv::emit("\"e\":\"Reset\",\"kind\":\"%s\",\"procs\":%d,\"threads\":%d,\"maxdepth\":%d",kind.c_str(),procs,threads,maxdepth);
		if(!multi) run_threads(0,threads,seed+r*7919);
		else {
			std::vector<pid_t> kids;
			for(int p=0;p<procs;p++) {
				pid_t pid=fork();
				if(pid==0) {
					bv::st().tid_base=(p+1)*10;
					pthread_create(&wd,0,watchdog,0);
					run_threads(p,threads,seed+r*7919);
					_exit(0);
				}
				kids.push_back(pid);
			}
			bool bad=false;
			for(size_t i=0;i<kids.size();i++) { int st=0; waitpid(kids[i],&st,0); if(!WIFEXITED(st) || WEXITSTATUS(st)!=0) bad=true; }
			if(bad) { bv::emit("\"e\":\"Hang\""); bv::close(); return 0; }
		}
		bv::emit("\"e\":\"End\"");
		delete L;
	}
	bv::close();
	return 0;
}
