// C19 driver: cppcms::archive + archive_traits<T> / serialization_traits<T> for a fixed list of C++
// types realising the type universe of spec/Archive/Archive.tla.
//
//   archive_drv rt   <values-per-type>                 round trips:   Save{type,value,bytes}  Load{type,bytes,ok,value,orig}
//   archive_drv mut  <bases-per-type> <random-per-base> mutated archives of every type: Load{type,bytes,ok,value,mut}
//   archive_drv wrap <values-per-type>                 the same through cache_interface / session_interface store_data, fetch_data
//   archive_drv obj <execs> <ops> <shard>              random operation sequences on three archive OBJECTS (several blobs through one
//                                                      object, mode()/reset() re-reads, interleaved save/load, reuse after errors, copies):
//                                                      OSave OLoad OMode ORewind OStrSet OStrGet OEof OCopy, judged by ArchiveObjTrace.tla
//   archive_drv chunk <bases> <random-per-base>        chunk-level reads of mutated archives through the public API:
//                                                      Arch{bytes}  Read{op,len,ptr,ok,size,data}  Eof{ptr,eof}
//
// Values: u8/i32 numbers, i64 = 8 bytes little-endian two's complement computed arithmetically, f64 = the 8 bytes of
// the double (token), strings = byte arrays, containers = arrays (sets/maps in container order), map = [[k,v],...],
// pair = [a,b], pointer = {"null":true} | {"null":false,"v":x}, struct = [fields...].
#include "common/vtrace.h"
#include <cppcms/serialization.h>
#include <cppcms/json.h>
#include <cppcms/service.h>
#include <cppcms/cache_interface.h>
#include <cppcms/session_interface.h>
#include <cppcms/session_pool.h>
#include <cppcms/http_cookie.h>
#include <booster/shared_ptr.h>
#include <booster/copy_ptr.h>
#include <booster/hold_ptr.h>
#include <booster/clone_ptr.h>
#include <memory>
#include <limits.h>
#include <signal.h>
#include <unistd.h>
#include <exception>
#include <typeinfo>
#include <iostream>

static vt::out tr;
static vt::rng *R;
static long nevents=0;
static const long long BIGV=2147483647LL;

static void emit(std::string const &s) { tr.line(s); nevents++; }

// ------------------------------------------------------------------ crash reporting
static void died(char const *why)
{
	if(tr.f) {
		fprintf(tr.f,"{\"e\":\"Died\",\"why\":\"%s\"}\n",why);
		fflush(tr.f);
	}
	_exit(0);
}
static void on_signal(int s) { died(s==SIGSEGV?"SIGSEGV":s==SIGBUS?"SIGBUS":s==SIGABRT?"SIGABRT":s==SIGFPE?"SIGFPE":"signal"); }
static void on_terminate() { died("terminate"); }

// ------------------------------------------------------------------ JSON helpers
static std::string jnum(long long v) { char b[32]; snprintf(b,sizeof(b),"%lld",v); return b; }
static std::string jbytes(std::string const &s)
{
	std::string r="[";
	for(size_t i=0;i<s.size();i++) { if(i) r+=','; r+=jnum((unsigned char)s[i]); }
	return r+"]";
}

// ------------------------------------------------------------------ the universe
template<typename T> struct U;

template<> struct U<unsigned char> {
	static std::string type() { return "{\"k\":\"u8\"}"; }
	static bool pod() { return true; }
	static std::string val(unsigned char v) { return jnum(v); }
	static unsigned char gen(int) { static const unsigned char e[]={0,255,1,128,97}; return R->chance(1,2) ? e[(*R)(5)] : (unsigned char)(*R)(256); }
};
template<> struct U<int> {
	static std::string type() { return "{\"k\":\"i32\"}"; }
	static bool pod() { return true; }
	static std::string val(int v) { return jnum(v); }
	static int gen(int) { static const int e[]={0,-1,INT_MIN,INT_MAX,258,-256,65536}; return R->chance(1,2) ? e[(*R)(7)] : (int)(R->next()); }
};
template<> struct U<long long> {
	static std::string type() { return "{\"k\":\"i64\"}"; }
	static bool pod() { return true; }
	static std::string val(long long v)
	{
		unsigned long long u=(unsigned long long)v; std::string s;
		for(int i=0;i<8;i++) s+=char((u>>(8*i))&255);
		return jbytes(s);
	}
	static long long gen(int) { static const long long e[]={0,-1,LLONG_MIN,LLONG_MAX,0x0102030405060708LL,4294967296LL}; return R->chance(1,2) ? e[(*R)(6)] : (long long)(R->next()); }
};
template<> struct U<double> {
	static std::string type() { return "{\"k\":\"f64\"}"; }
	static bool pod() { return true; }
	static std::string val(double v) { std::string s((char const *)&v,8); return jbytes(s); }
	static double gen(int) { static const double e[]={0.0,-0.0,1.5,-1e308,4.9e-324,1e100,0.1}; return e[(*R)(7)]; }
};
template<> struct U<std::string> {
	static std::string type() { return "{\"k\":\"str\"}"; }
	static bool pod() { return false; }
	static std::string val(std::string const &v) { return jbytes(v); }
	static std::string gen(int)
	{
		static const char al[]={0,'a','b',(char)200,(char)255,4,0,'z'};
		unsigned n=(*R)(4)==0 ? 0 : (*R)(7);
		if((*R)(40)==0) n=20+(*R)(30);
		std::string s; for(unsigned i=0;i<n;i++) s+=al[(*R)(8)];
		return s;
	}
};
template<> struct U<cppcms::json::value> {
	static std::string type() { return "{\"k\":\"json\"}"; }
	static bool pod() { return false; }
	static std::string val(cppcms::json::value const &v) { return jbytes(v.save()); }
	static cppcms::json::value gen(int d)
	{
		cppcms::json::value v;
		switch((*R)(d>1?5:7)) {
		case 0: v=cppcms::json::null(); break;
		case 1: v=true; break;
		case 2: { static const double e[]={0,1,-2.5,1e10,0.1,123456789.125,1e-7}; v=e[(*R)(7)]; } break;
		case 3: v=std::string("a\"\\\n\x01\xc3\xa9"); break;
		case 4: v=std::string(); break;
		case 5: { cppcms::json::array a; unsigned n=(*R)(3); for(unsigned i=0;i<n;i++) a.push_back(gen(d+1)); v=a; } break;
		default: { cppcms::json::object o; unsigned n=(*R)(3); for(unsigned i=0;i<n;i++) o[std::string(1,char('k'+i))]=gen(d+1); v=o; }
		}
		return v;
	}
};

static unsigned width(int depth) { unsigned w=(*R)(depth>=2?3:4); return w; }

template<typename C> static std::string seqval(C const &c)
{
	std::string r="["; bool f=true;
	for(typename C::const_iterator p=c.begin();p!=c.end();++p) { if(!f) r+=','; f=false; r+=U<typename C::value_type>::val(*p); }
	return r+"]";
}
template<typename T> struct U<std::vector<T> > {
	static std::string type() { return U<T>::pod() ? "{\"k\":\"podvec\",\"t\":"+U<T>::type()+"}" : "{\"k\":\"seq\",\"t\":"+U<T>::type()+"}"; }
	static bool pod() { return false; }
	static std::string val(std::vector<T> const &v) { return seqval(v); }
	static std::vector<T> gen(int d) { std::vector<T> v; unsigned n=width(d); for(unsigned i=0;i<n;i++) v.push_back(U<T>::gen(d+1)); return v; }
};
template<typename T> struct U<std::list<T> > {
	static std::string type() { return "{\"k\":\"seq\",\"t\":"+U<T>::type()+"}"; }
	static bool pod() { return false; }
	static std::string val(std::list<T> const &v) { return seqval(v); }
	static std::list<T> gen(int d) { std::list<T> v; unsigned n=width(d); for(unsigned i=0;i<n;i++) v.push_back(U<T>::gen(d+1)); return v; }
};
template<typename T> struct U<std::set<T> > {
	static std::string type() { return "{\"k\":\"set\",\"t\":"+U<T>::type()+"}"; }
	static bool pod() { return false; }
	static std::string val(std::set<T> const &v) { return seqval(v); }
	static std::set<T> gen(int d) { std::set<T> v; unsigned n=width(d); for(unsigned i=0;i<n;i++) v.insert(U<T>::gen(d+1)); return v; }
};
template<typename A,typename B> struct U<std::pair<A,B> > {
	static std::string type() { return "{\"k\":\"pair\",\"a\":"+U<A>::type()+",\"b\":"+U<B>::type()+"}"; }
	static bool pod() { return false; }
	static std::string val(std::pair<A,B> const &v) { return "["+U<A>::val(v.first)+","+U<B>::val(v.second)+"]"; }
	static std::pair<A,B> gen(int d) { A a=U<A>::gen(d+1); B b=U<B>::gen(d+1); return std::pair<A,B>(a,b); }
};
template<typename K,typename V> struct U<std::map<K,V> > {
	static std::string type() { return "{\"k\":\"map\",\"a\":"+U<K>::type()+",\"b\":"+U<V>::type()+"}"; }
	static bool pod() { return false; }
	static std::string val(std::map<K,V> const &v)
	{
		std::string r="["; bool f=true;
		for(typename std::map<K,V>::const_iterator p=v.begin();p!=v.end();++p) { if(!f) r+=','; f=false; r+="["+U<K>::val(p->first)+","+U<V>::val(p->second)+"]"; }
		return r+"]";
	}
	static std::map<K,V> gen(int d) { std::map<K,V> v; unsigned n=width(d); for(unsigned i=0;i<n;i++) { K k=U<K>::gen(d+1); v[k]=U<V>::gen(d+1); } return v; }
};
// multi-containers: values are logged in container order (key order, insertion order among equivalent keys);
// keys are drawn from two candidates so that runs of equivalent keys with different payloads are the rule
template<typename T> struct MsetBy { static int by() { return 0; } static void same_key(T &x,T const &k) { x=k; } };
template<typename K,typename V> struct U<std::multimap<K,V> > {
	typedef std::multimap<K,V> M;
	static std::string type() { return "{\"k\":\"mmap\",\"a\":"+U<K>::type()+",\"b\":"+U<V>::type()+"}"; }
	static bool pod() { return false; }
	static std::string val(M const &v)
	{
		std::string r="["; bool f=true;
		for(typename M::const_iterator p=v.begin();p!=v.end();++p) { if(!f) r+=','; f=false; r+="["+U<K>::val(p->first)+","+U<V>::val(p->second)+"]"; }
		return r+"]";
	}
	static M gen(int d)
	{
		M v; K cand[2]={U<K>::gen(d+1),U<K>::gen(d+1)};
		unsigned n=(*R)(d>=2?4:6);
		for(unsigned i=0;i<n;i++) v.insert(std::pair<K const,V>(cand[(*R)(3)==0],U<V>::gen(d+1)));
		return v;
	}
};
template<typename T> struct U<std::multiset<T> > {
	typedef std::multiset<T> M;
	static std::string type() { char b[16]; snprintf(b,sizeof(b),"%d",MsetBy<T>::by()); return "{\"k\":\"mset\",\"t\":"+U<T>::type()+",\"by\":"+b+"}"; }
	static bool pod() { return false; }
	static std::string val(M const &v) { return seqval(v); }
	static M gen(int d)
	{
		M v; T cand[2]={U<T>::gen(d+1),U<T>::gen(d+1)};
		unsigned n=(*R)(d>=2?4:6);
		for(unsigned i=0;i<n;i++) { T x=U<T>::gen(d+1); if((*R)(4)) MsetBy<T>::same_key(x,cand[(*R)(3)==0]); v.insert(x); }
		return v;
	}
};
template<typename P,typename T> struct UPtr {
	static std::string type() { return "{\"k\":\"ptr\",\"t\":"+U<T>::type()+"}"; }
	static bool pod() { return false; }
	static std::string val(P const &v) { return v.get() ? "{\"null\":false,\"v\":"+U<T>::val(*v)+"}" : std::string("{\"null\":true}"); }
	static void fill(P &p,int d) { if((*R)(3)==0) p.reset(); else p.reset(new T(U<T>::gen(d+1))); }
};
template<typename T> struct U<booster::shared_ptr<T> > : UPtr<booster::shared_ptr<T>,T> {
	static booster::shared_ptr<T> gen(int d) { booster::shared_ptr<T> p; UPtr<booster::shared_ptr<T>,T>::fill(p,d); return p; }
};
template<typename T> struct U<booster::copy_ptr<T> > : UPtr<booster::copy_ptr<T>,T> {
	static booster::copy_ptr<T> gen(int d) { booster::copy_ptr<T> p; UPtr<booster::copy_ptr<T>,T>::fill(p,d); return p; }
};
template<typename T> struct U<std::unique_ptr<T> > : UPtr<std::unique_ptr<T>,T> {
	static std::unique_ptr<T> gen(int d) { std::unique_ptr<T> p; UPtr<std::unique_ptr<T>,T>::fill(p,d); return p; }
};

// user classes with a serialize method
struct S1 : public cppcms::serializable {
	int a; std::string s; std::vector<int> v;
	S1() : a(0) {}
	void serialize(cppcms::archive &ar) { ar & a & s & v; }
	bool operator<(S1 const &o) const { return a<o.a; }
};
struct S2 : public cppcms::serializable {
	unsigned char c; std::map<std::string,int> m; booster::shared_ptr<S1> p; S1 inner; std::list<std::string> l;
	S2() : c(0) {}
	void serialize(cppcms::archive &ar) { ar & c & m & p & inner & l; }
};
// a class with separate load/save
struct S3 : public cppcms::serializable_base {
	long long id; std::set<int> tags;
	S3() : id(0) {}
	void load(cppcms::archive &ar) { ar >> id >> tags; }
	void save(cppcms::archive &ar) const { ar << id << tags; }
};
// S1 is ordered by its first member only: equivalent elements of a multiset<S1> are distinguishable
template<> struct MsetBy<S1> { static int by() { return 1; } static void same_key(S1 &x,S1 const &k) { x.a=k.a; } };
struct S4 : public cppcms::serializable {
	std::multimap<std::string,std::string> mm; std::multiset<S1> ms; std::map<int,std::multimap<int,std::string> > nested; int tail;
	S4() : tail(0) {}
	void serialize(cppcms::archive &ar) { ar & mm & ms & nested & tail; }
};
template<> struct U<S1> {
	static std::string type() { return "{\"k\":\"struct\",\"fs\":["+U<int>::type()+","+U<std::string>::type()+","+U<std::vector<int> >::type()+"]}"; }
	static bool pod() { return false; }
	static std::string val(S1 const &v) { return "["+U<int>::val(v.a)+","+U<std::string>::val(v.s)+","+U<std::vector<int> >::val(v.v)+"]"; }
	static S1 gen(int d) { S1 s; s.a=U<int>::gen(d+1); s.s=U<std::string>::gen(d+1); s.v=U<std::vector<int> >::gen(d+1); return s; }
};
template<> struct U<S2> {
	typedef std::map<std::string,int> M; typedef booster::shared_ptr<S1> P; typedef std::list<std::string> L;
	static std::string type() { return "{\"k\":\"struct\",\"fs\":["+U<unsigned char>::type()+","+U<M>::type()+","+U<P>::type()+","+U<S1>::type()+","+U<L>::type()+"]}"; }
	static bool pod() { return false; }
	static std::string val(S2 const &v) { return "["+U<unsigned char>::val(v.c)+","+U<M>::val(v.m)+","+U<P>::val(v.p)+","+U<S1>::val(v.inner)+","+U<L>::val(v.l)+"]"; }
	static S2 gen(int d) { S2 s; s.c=U<unsigned char>::gen(d+1); s.m=U<M>::gen(d+1); s.p=U<P>::gen(d+1); s.inner=U<S1>::gen(d+1); s.l=U<L>::gen(d+1); return s; }
};
template<> struct U<S3> {
	static std::string type() { return "{\"k\":\"struct\",\"fs\":["+U<long long>::type()+","+U<std::set<int> >::type()+"]}"; }
	static bool pod() { return false; }
	static std::string val(S3 const &v) { return "["+U<long long>::val(v.id)+","+U<std::set<int> >::val(v.tags)+"]"; }
	static S3 gen(int d) { S3 s; s.id=U<long long>::gen(d+1); s.tags=U<std::set<int> >::gen(d+1); return s; }
};

template<> struct U<S4> {
	typedef std::multimap<std::string,std::string> MM; typedef std::multiset<S1> MS; typedef std::map<int,std::multimap<int,std::string> > N;
	static std::string type() { return "{\"k\":\"struct\",\"fs\":["+U<MM>::type()+","+U<MS>::type()+","+U<N>::type()+","+U<int>::type()+"]}"; }
	static bool pod() { return false; }
	static std::string val(S4 const &v) { return "["+U<MM>::val(v.mm)+","+U<MS>::val(v.ms)+","+U<N>::val(v.nested)+","+U<int>::val(v.tail)+"]"; }
	static S4 gen(int d) { S4 s; s.mm=U<MM>::gen(d+1); s.ms=U<MS>::gen(d+1); s.nested=U<N>::gen(d+1); s.tail=U<int>::gen(d+1); return s; }
};

// ------------------------------------------------------------------ save / load through the public API
template<typename T> static std::string save_via(T const &v,int api)
{
	if(api==1) { cppcms::archive a; a << v; return a.str(); }
	if(api==2) { cppcms::archive a; a.mode(cppcms::archive::save_to_archive); T &nc=const_cast<T &>(v); a & nc; return a.str(); }
	cppcms::archive a; cppcms::archive_traits<T>::save(v,a); return a.str();
}
template<typename T> static bool load_via(std::string const &bytes,T &out,int api,std::string &exc)
{
	try {
		cppcms::archive a; a.str(bytes);
		if(api==1) a >> out;
		else if(api==2) a & out;
		else cppcms::archive_traits<T>::load(out,a);
		return true;
	}
	catch(cppcms::archive_error const &e) { exc="archive_error"; }
	catch(std::exception const &e) { exc=typeid(e).name(); }
	catch(...) { exc="unknown"; }
	return false;
}
// classes: through serialization_traits (what session/cache store_data / fetch_data use)
template<typename T> static std::string save_ser(T const &v) { std::string s; cppcms::serialization_traits<T>::save(v,s); return s; }
template<typename T> static bool load_ser(std::string const &bytes,T &out,std::string &exc)
{
	try { cppcms::serialization_traits<T>::load(bytes,out); return true; }
	catch(cppcms::archive_error const &e) { exc="archive_error"; }
	catch(std::exception const &e) { exc=typeid(e).name(); }
	catch(...) { exc="unknown"; }
	return false;
}

template<typename T,bool ser> struct IO {
	static std::string save(T const &v,int api) { return save_via(v,api); }
	static bool load(std::string const &b,T &o,int api,std::string &e) { return load_via(b,o,api,e); }
};
template<typename T> struct IO<T,true> {
	static std::string save(T const &v,int api) { return api==3 ? save_ser(v) : save_via(v,api); }
	static bool load(std::string const &b,T &o,int api,std::string &e) { return api==3 ? load_ser(b,o,e) : load_via(b,o,api,e); }
};

// ------------------------------------------------------------------ mutations
struct field { size_t off; unsigned len; };
static std::vector<field> fields_of(std::string const &b)
{
	std::vector<field> r; size_t p=0;
	while(p+4<=b.size()) {
		unsigned n=0; for(int i=0;i<4;i++) n|=((unsigned)(unsigned char)b[p+i])<<(8*i);
		field f={p,n}; r.push_back(f);
		if(n>b.size()-p-4) break;
		p+=4+n;
	}
	return r;
}
static std::string le32(unsigned long long v) { std::string s; for(int i=0;i<4;i++) s+=char((v>>(8*i))&255); return s; }

struct mutant { std::string bytes; std::string how; };
static std::vector<mutant> mutants(std::string const &b,int nrandom)
{
	std::vector<mutant> out; char nm[64];
	for(size_t cut=0;cut<b.size();cut++) { mutant m; m.bytes=b.substr(0,cut); snprintf(nm,sizeof(nm),"trunc@%zu",cut); m.how=nm; out.push_back(m); }
	std::vector<field> fs=fields_of(b);
	for(size_t i=0;i<fs.size();i++) {
		long long e=fs[i].len, r=(long long)b.size()-(long long)fs[i].off-4;
		std::set<long long> vals;
		for(int d=-4;d<=4;d++) { vals.insert(e+d); vals.insert(r+d); }
		vals.insert(0); vals.insert(4294967295LL); vals.insert(4294967292LL); vals.insert(2147483648LL); vals.insert(4294967296LL-(long long)fs[i].off);
		vals.insert(4294967296LL-(long long)fs[i].off-4);
		for(std::set<long long>::iterator p=vals.begin();p!=vals.end();++p) {
			if(*p<0 || *p>4294967295LL || *p==e) continue;
			mutant m; m.bytes=b; m.bytes.replace(fs[i].off,4,le32(*p));
			snprintf(nm,sizeof(nm),"len[%zu]=%lld(e%+lld,r%+lld)",i,*p,*p-e,*p-r); m.how=nm; out.push_back(m);
		}
	}
	for(int k=0;k<nrandom;k++) {
		mutant m; m.bytes=b;
		if(m.bytes.empty() || (*R)(6)==0) { unsigned n=(*R)(12); m.bytes.clear(); for(unsigned i=0;i<n;i++) m.bytes+=char((*R)(4)==0 ? (*R)(256) : (*R)(6)); m.how="random"; }
		else {
			unsigned n=1+(*R)(3);
			for(unsigned i=0;i<n;i++) { static const unsigned char e[]={0,1,2,4,8,255,128,3}; m.bytes[(*R)(m.bytes.size())]=(*R)(2) ? e[(*R)(8)] : (*R)(256); }
			if((*R)(4)==0) m.bytes+=std::string(1+(*R)(5),char((*R)(256)));
			m.how="bytes";
		}
		out.push_back(m);
	}
	return out;
}

// ------------------------------------------------------------------ drivers per type
static int g_values=20, g_bases=2, g_random=10;
static std::string g_mode;

template<typename T,bool ser> static void run_type(char const *cpp)
{
	std::string ty=U<T>::type();
	emit(vt::J().s("e","Reset").s("cpp",cpp).s("mode",g_mode).str());
	if(g_mode=="rt") {
		for(int i=0;i<g_values;i++) {
			T v=U<T>::gen(0);
			int api=i%(ser?4:3);
			std::string bytes=IO<T,ser>::save(v,api);
			std::string sv=U<T>::val(v);
			emit(vt::J().s("e","Save").raw("type",ty).raw("value",sv).bytes("bytes",bytes).i("api",api).str());
			T out=U<T>::gen(0); // a non-default target: load must overwrite it completely
			std::string exc;
			bool ok=IO<T,ser>::load(bytes,out,(api+1)%(ser?4:3),exc);
			vt::J j; j.s("e","Load").raw("type",ty).bytes("bytes",bytes).b("ok",ok).raw("orig",sv);
			if(ok) { j.raw("value",U<T>::val(out)); j.bytes("resave",IO<T,ser>::save(out,0)); } else j.s("exc",exc);
			emit(j.str());
		}
		return;
	}
	for(int b=0;b<g_bases;b++) {
		T v=U<T>::gen(0);
		std::string bytes=IO<T,ser>::save(v,0);
		if(b>0) emit(vt::J().s("e","Reset").s("cpp",cpp).s("mode",g_mode).str());
		std::vector<mutant> ms=mutants(bytes,g_random);
		for(size_t k=0;k<ms.size();k++) {
			T out; std::string exc;
			bool ok=IO<T,ser>::load(ms[k].bytes,out,ser?3:(int)(k%3),exc);
			vt::J j; j.s("e","Load").raw("type",ty).bytes("bytes",ms[k].bytes).b("ok",ok).s("mut",ms[k].how);
			if(ok) j.raw("value",U<T>::val(out)); else j.s("exc",exc);
			emit(j.str());
		}
	}
}

// ------------------------------------------------------------------ chunk-level programs
static long long cap(unsigned long long n) { return n>=(unsigned long long)BIGV ? BIGV : (long long)n; }

static void chunk_programs(std::string const &bytes,std::string const &how)
{
	for(int prog=0;prog<3;prog++) {
		emit(vt::J().s("e","Arch").bytes("bytes",bytes).s("mut",how).i("prog",prog).str());
		cppcms::archive a; a.str(bytes);
		size_t ptr=0;
		for(int step=0;step<6;step++) {
			bool failed=false;
			if(prog==0) {
				try {
					std::string s=a.read_chunk_as_string();
					emit(vt::J().s("e","Read").s("op","str").i("ptr",ptr).b("ok",true).i("size",cap(s.size())).bytes("data",s).str());
					ptr+=4+s.size();
				}
				catch(cppcms::archive_error const &) { emit(vt::J().s("e","Read").s("op","str").i("ptr",ptr).b("ok",false).str()); failed=true; }
			}
			else {
				size_t n=0;
				try {
					n=a.next_chunk_size();
					emit(vt::J().s("e","Read").s("op","size").i("ptr",ptr).b("ok",true).i("size",cap(n)).str());
				}
				catch(cppcms::archive_error const &) { emit(vt::J().s("e","Read").s("op","size").i("ptr",ptr).b("ok",false).str()); failed=true; }
				if(!failed && n>bytes.size()+64) break; // reported above; executing the read would only crash the driver
				if(!failed && prog==2) {
					std::vector<char> tmp(n+16);
					try { a.read_chunk(&tmp[0],n+1); emit(vt::J().s("e","Read").s("op","chunk").i("len",cap(n+1)).i("ptr",ptr).b("ok",true).i("size",cap(n+1)).bytes("data",std::string(&tmp[0],n+1)).str()); ptr+=4+n+1; }
					catch(cppcms::archive_error const &) { emit(vt::J().s("e","Read").s("op","chunk").i("len",cap(n+1)).i("ptr",ptr).b("ok",false).str()); }
				}
				if(!failed) {
					std::vector<char> tmp(n+16);
					try { a.read_chunk(&tmp[0],n); emit(vt::J().s("e","Read").s("op","chunk").i("len",cap(n)).i("ptr",ptr).b("ok",true).i("size",cap(n)).bytes("data",std::string(&tmp[0],n)).str()); ptr+=4+n; }
					catch(cppcms::archive_error const &) { emit(vt::J().s("e","Read").s("op","chunk").i("len",cap(n)).i("ptr",ptr).b("ok",false).str()); failed=true; }
				}
			}
			emit(vt::J().s("e","Eof").i("ptr",ptr).b("eof",a.eof()).str());
			if(failed) {
				// the cursor must not have moved: the same read fails again, reset() + the same reads reproduce the same prefix
				try { size_t n=a.next_chunk_size(); emit(vt::J().s("e","Read").s("op","size").i("ptr",ptr).b("ok",true).i("size",cap(n)).str()); }
				catch(cppcms::archive_error const &) { emit(vt::J().s("e","Read").s("op","size").i("ptr",ptr).b("ok",false).str()); }
				break;
			}
			if(a.eof()) break;
		}
	}
}

static void run_chunks()
{
	// DESIGN.md section 6, F5: a chunk that claims 4 bytes in a 5-byte archive
	emit(vt::J().s("e","Reset").s("mode","chunk").i("base",-1).str());
	chunk_programs(std::string("\4\0\0\0x",5),"fixed:04000000'x'");
	chunk_programs(std::string("\4\0\0\0wxyz",8),"fixed:exact");
	chunk_programs(std::string("\0\0\0\0",4),"fixed:empty-chunk");
	chunk_programs(std::string("\1\0\0",3),"fixed:short-header");
	chunk_programs(std::string("\xff\xff\xff\xff" "abcd",8),"fixed:2^32-1");
	chunk_programs(std::string("\0\0\0\0" "\xfc\xff\xff\xff" "abcd",12),"fixed:wrap");
	for(int b=0;b<g_bases;b++) {
		// a valid archive of 1..3 chunks with payload lengths 0..6
		cppcms::archive a; unsigned n=1+(*R)(3);
		for(unsigned i=0;i<n;i++) { unsigned len=(*R)(3)==0 ? 0 : (*R)(7); std::string p; for(unsigned k=0;k<len;k++) p+=char(16*(i+1)+k); a.write_chunk(p.c_str(),p.size()); }
		std::string bytes=a.str();
		emit(vt::J().s("e","Reset").s("mode","chunk").i("base",b).str());
		chunk_programs(bytes,"valid");
		std::vector<mutant> ms=mutants(bytes,g_random);
		for(size_t k=0;k<ms.size();k++) chunk_programs(ms[k].bytes,ms[k].how);
	}
}

// ------------------------------------------------------------------ session / cache convenience calls
struct null_adapter : public cppcms::session_interface_cookie_adapter {
	std::map<std::string,std::string> jar;
	void set_cookie(cppcms::http::cookie const &c) { jar[c.name()]=c.value(); }
	std::string get_session_cookie(std::string const &name) { return jar.count(name) ? jar[name] : std::string(); }
	std::set<std::string> get_cookie_names() { std::set<std::string> r; for(std::map<std::string,std::string>::iterator p=jar.begin();p!=jar.end();++p) r.insert(p->first); return r; }
};
template<typename T> static void wrap_type(char const *cpp,cppcms::cache_interface &ci,cppcms::session_interface &si)
{
	std::string ty=U<T>::type();
	emit(vt::J().s("e","Reset").s("cpp",cpp).s("mode","wrap").str());
	for(int i=0;i<g_values;i++) {
		T v=U<T>::gen(0); std::string sv=U<T>::val(v),bytes,exc; T out=U<T>::gen(0); bool ok=false;
		bool cache=(i%2==0);
		try {
			if(cache) { ci.store_data("k",v); ci.fetch_frame("k",bytes,true); ok=ci.fetch_data("k",out,true); if(!ok) exc="miss"; }
			else { si.store_data("k",v); bytes=si.get("k"); si.fetch_data("k",out); ok=true; }
		}
		catch(std::exception const &e) { ok=false; exc=typeid(e).name(); }
		emit(vt::J().s("e","Save").raw("type",ty).raw("value",sv).bytes("bytes",bytes).s("via",cache?"cache.store_data":"session.store_data").str());
		vt::J j; j.s("e","Load").raw("type",ty).bytes("bytes",bytes).b("ok",ok).raw("orig",sv).s("via",cache?"cache.fetch_data":"session.fetch_data");
		if(ok) { j.raw("value",U<T>::val(out)); j.bytes("resave",save_ser(out)); } else j.s("exc",exc);
		emit(j.str());
		if(i<2) {
			std::vector<mutant> ms=mutants(bytes,4);
			for(size_t k=0;k<ms.size();k++) {
				T o2; bool ok2=false; std::string e2;
				try {
					if(cache) { ci.store_frame("m",ms[k].bytes,std::set<std::string>(),-1,true); ok2=ci.fetch_data("m",o2,true); if(!ok2) e2="miss"; }
					else { si.set("m",ms[k].bytes); si.fetch_data("m",o2); ok2=true; }
				}
				catch(cppcms::archive_error const &) { e2="archive_error"; }
				catch(std::exception const &e) { e2=typeid(e).name(); }
				if(e2=="miss") continue;
				vt::J m; m.s("e","Load").raw("type",ty).bytes("bytes",ms[k].bytes).b("ok",ok2).s("mut",ms[k].how).s("via",cache?"cache.fetch_data":"session.fetch_data");
				if(ok2) m.raw("value",U<T>::val(o2)); else m.s("exc",e2);
				emit(m.str());
			}
		}
	}
}
static void run_wrap()
{
	cppcms::json::value cfg;
	cfg["cache"]["backend"]="thread_shared"; cfg["cache"]["limit"]=64;
	cfg["session"]["location"]="server"; cfg["session"]["server"]["storage"]="memory";
	cfg["service"]["api"]="http"; cfg["service"]["port"]=0; cfg["service"]["worker_threads"]=1;
	cppcms::service srv(cfg);
	srv.session_pool().init();
	cppcms::cache_interface ci(srv);
	null_adapter ad;
	cppcms::session_interface si(srv.session_pool(),ad);
	wrap_type<S1>("S1",ci,si); wrap_type<S2>("S2",ci,si); wrap_type<S3>("S3",ci,si); wrap_type<S4>("S4",ci,si);
}

// ------------------------------------------------------------------ the archive object as a state machine
static cppcms::archive *objs[3];
static char const *mode_name(cppcms::archive &a) { return a.mode()==cppcms::archive::save_to_archive ? "save" : "load"; }

template<typename T> static void obj_value_op(int o)
{
	cppcms::archive &a=*objs[o];
	std::string ty=U<T>::type();
	int api=(*R)(2);
	if(a.mode()==cppcms::archive::save_to_archive) {
		T v=U<T>::gen(1);
		std::string sv=U<T>::val(v);
		if(api==0) a << v; else a & v;
		emit(vt::J().s("e","OSave").i("o",o).s("api",api==0?"<<":"&").s("mode","save").raw("type",ty).raw("value",sv).str());
	}
	else {
		T out=U<T>::gen(1); bool ok=false; std::string exc;
		try { if(api==0) a >> out; else a & out; ok=true; }
		catch(cppcms::archive_error const &) { exc="archive_error"; }
		catch(std::exception const &e) { exc=typeid(e).name(); }
		vt::J j; j.s("e","OLoad").i("o",o).s("api",api==0?">>":"&").s("mode","load").raw("type",ty).b("ok",ok);
		if(ok) j.raw("value",U<T>::val(out)); else j.s("exc",exc);
		emit(j.str());
	}
}
static void obj_value(int o,int k)
{
	switch(k) {
	case 0: obj_value_op<int>(o); break;
	case 1: obj_value_op<std::string>(o); break;
	case 2: obj_value_op<unsigned char>(o); break;
	case 3: obj_value_op<std::vector<int> >(o); break;
	case 4: obj_value_op<std::map<std::string,int> >(o); break;
	case 5: obj_value_op<booster::shared_ptr<std::string> >(o); break;
	case 6: obj_value_op<S1>(o); break;
	case 7: obj_value_op<std::multimap<int,std::string> >(o); break;
	default: obj_value_op<std::vector<std::string> >(o); break;
	}
}
static void obj_eof(int o) { emit(vt::J().s("e","OEof").i("o",o).b("eof",objs[o]->eof()).str()); }
struct oblob { std::string bytes; std::vector<int> kinds; };
static std::vector<oblob> oblobs;
static std::vector<int> okinds[3];      // driver-side guess of what the buffer holds (steers the choice of types only)
static size_t oidx[3];
static void run_objs(int execs,int nops)
{
	for(int i=0;i<3;i++) objs[i]=0;
	for(int e=0;e<execs;e++) {
		for(int i=0;i<3;i++) { delete objs[i]; objs[i]=new cppcms::archive(); okinds[i].clear(); oidx[i]=0; }
		emit(vt::J().s("e","Reset").s("mode","obj").i("exec",e).str());
		oblobs.clear();
		{ oblob b; oblobs.push_back(b); b.bytes=std::string("\4\0\0\0x",5); b.kinds.push_back(1); oblobs.push_back(b);
		  oblob c; c.bytes=std::string("\1\0\0\0\7\2\0\0\0ab",11); c.kinds.push_back(2); c.kinds.push_back(1); oblobs.push_back(c); }
		int bias=(*R)(3);   // 0: one type, 1: two types, 2: all
		int t0=(*R)(9),t1=(*R)(9);
		for(int n=0;n<nops;n++) {
			int o=(*R)(4)==0 ? (*R)(3) : 0;       // most traffic through object 0
			cppcms::archive &a=*objs[o];
			bool loading=a.mode()==cppcms::archive::load_from_archive;
			bool exhausted=loading && oidx[o]>=okinds[o].size();
			int k=(*R)(20);
			if(exhausted && k<9 && (*R)(10)<7) k=9+(*R)(8);    // at the end of what was saved: mostly rewind / new blob / new phase
			if(k<9) {
				int kind = bias==0?t0:bias==1?((*R)(2)?t0:t1):(int)(*R)(9);
				if(loading) { if(oidx[o]<okinds[o].size() && (*R)(10)<8) kind=okinds[o][oidx[o]]; oidx[o]++; }
				else okinds[o].push_back(kind);
				obj_value(o,kind);
				if((*R)(3)==0) obj_eof(o);
			}
			else if(k<11) {
				bool ld=(*R)(4)!=0;
				a.mode(ld?cppcms::archive::load_from_archive:cppcms::archive::save_to_archive);
				oidx[o]=0;
				emit(vt::J().s("e","OMode").i("o",o).s("m",ld?"load":"save").str());
			}
			else if(k<12) { a.reset(); oidx[o]=0; emit(vt::J().s("e","ORewind").i("o",o).str()); }
			else if(k<14) {
				std::string b=a.str();
				emit(vt::J().s("e","OStrGet").i("o",o).bytes("bytes",b).s("mode",mode_name(a)).str());
				if(oblobs.size()<40) {
					oblob x; x.bytes=b; x.kinds=okinds[o]; oblobs.push_back(x);
					if(!b.empty() && (*R)(3)==0) { oblob m=x; m.bytes=b.substr(0,b.size()-1-(*R)(b.size()<5?b.size():5)); oblobs.push_back(m); }
					if(!b.empty() && (*R)(5)==0) { oblob m=x; m.bytes[(*R)(m.bytes.size())]=char((*R)(6)); oblobs.push_back(m); }
				}
			}
			else if(k<17) {
				oblob const &b=oblobs[(*R)(oblobs.size())];
				a.str(b.bytes); okinds[o]=b.kinds; oidx[o]=0;
				emit(vt::J().s("e","OStrSet").i("o",o).bytes("bytes",b.bytes).str());
				if((*R)(4)==0) obj_eof(o);
			}
			else if(k<18) obj_eof(o);
			else {
				int s=(o+1+(*R)(2))%3; int how=(*R)(3);
				if(how==0) { cppcms::archive *c=new cppcms::archive(*objs[s]); delete objs[o]; objs[o]=c; }
				else if(how==1) { *objs[o]=*objs[s]; }
				else { *objs[o]=std::move(*objs[s]); *objs[s]=cppcms::archive(); }
				okinds[o]=okinds[s]; oidx[o]=oidx[s];
				if(how==2) { okinds[s].clear(); oidx[s]=0; }
				emit(vt::J().s("e","OCopy").i("d",o).i("s",s).s("how",how==0?"ctor":how==1?"assign":"move").str());
			}
		}
		for(int i=0;i<3;i++) { emit(vt::J().s("e","OStrGet").i("o",i).bytes("bytes",objs[i]->str()).s("mode",mode_name(*objs[i])).str()); obj_eof(i); }
	}
}

#define TY(T) run_type<T,false>(#T)
#define TYS(T) run_type<T,true>(#T)
typedef std::vector<int> vec_int;
typedef std::pair<int,std::string> pair_is;
typedef std::map<int,std::string> map_is;
typedef std::map<std::string,int> map_si;
typedef std::map<std::string,std::vector<std::string> > map_svs;
typedef std::pair<std::string,std::vector<long long> > pair_svl;
typedef std::multimap<int,std::string> mmap_is;
typedef std::multimap<std::string,int> mmap_si;
typedef std::map<std::string,std::multimap<int,std::string> > map_s_mmap;
typedef std::pair<std::multimap<int,std::string>,std::multiset<S1> > pair_mm_ms;

int main(int argc,char **argv)
{
	if(argc<2) { fprintf(stderr,"usage: archive_drv rt|mut|chunk ...\n"); return 2; }
	tr.open();
	std::set_terminate(on_terminate);
	signal(SIGSEGV,on_signal); signal(SIGBUS,on_signal); signal(SIGABRT,on_signal); signal(SIGFPE,on_signal);
	vt::rng rng(vt::envl("VERIF_SEED",1)*7919+(argc>4?atol(argv[4]):0));
	R=&rng;
	g_mode=argv[1];
	if(g_mode=="rt") g_values=argc>2?atoi(argv[2]):20;
	else { g_bases=argc>2?atoi(argv[2]):2; g_random=argc>3?atoi(argv[3]):10; }
	if(g_mode=="chunk") { run_chunks(); }
	else if(g_mode=="obj") { run_objs(argc>2?atoi(argv[2]):50,argc>3?atoi(argv[3]):60); }
	else if(g_mode=="wrap") { g_values=argc>2?atoi(argv[2]):20; run_wrap(); }
	else {
		TY(unsigned char); TY(int); TY(long long); TY(std::string);
		TY(std::vector<unsigned char>); TY(std::vector<int>); TY(std::vector<long long>);
		TY(std::vector<std::string>); TY(std::list<int>); TY(std::list<std::string>);
		TY(std::set<int>); TY(std::set<std::string>); TY(map_is); TY(map_si); TY(pair_is);
		TY(booster::shared_ptr<int>); TY(booster::shared_ptr<std::string>); TY(booster::copy_ptr<std::string>);
		TY(std::unique_ptr<vec_int>);
		TY(std::vector<vec_int>); TY(std::vector<pair_is>); TY(map_svs); TY(pair_svl);
		TY(booster::shared_ptr<std::vector<std::string> >); TY(std::vector<booster::shared_ptr<std::string> >);
		TY(std::list<std::set<std::string> >); TY(std::set<unsigned char>);
		TY(mmap_is); TY(mmap_si); TY(std::multiset<int>); TY(std::multiset<std::string>); TY(std::multiset<S1>);
		TY(std::vector<mmap_is>); TY(map_s_mmap); TY(booster::shared_ptr<mmap_si>); TY(pair_mm_ms);
		TYS(S1); TYS(S2); TYS(S3); TYS(S4); TY(std::vector<S1>); TY(booster::shared_ptr<S2>);
		if(g_mode=="rt") { TY(double); TY(std::vector<double>); TY(cppcms::json::value); TY(std::vector<cppcms::json::value>); }
	}
	emit(vt::J().s("e","Reset").s("mode","end").str());
	tr.close();
	fprintf(stdout,"events=%ld\n",nevents);
	return 0;
}
