// C01 / C02 driver: hosts the real HTTP, SCGI and FastCGI front-ends of cppcms in this process
// (cppcms::service + acceptor::accept(fd) seam), feeds them byte streams cut into chosen segments
// and records what the echo application observed.
//
//   input_drv smoke
//   input_drv c01 <shard> <nshards>            requests of the catalogue with index % nshards == shard
//   input_drv c02 <proto> <from> <count>       malformed-input cases [from,from+count) of one front-end
//
// Trace (ND-JSON, VERIF_OUT):
//   C01:  Reset / Req{proto,id,i,abstract fields,wire?}+ / Obs{n,cuts:[[..]..],o:[observation per request of the chain]}*
//         one Obs line per *distinct* observation: the cut patterns that produced byte-identical echo replies are
//         listed together (loss-free run-length compression of the trace).
//   C02:  Reset / Conn{...} / Handler* / OnError* / Reply / Complete* / Probe   (see c02.h)
#include "input/net.h"
#include "input/req.h"
#include "input/c02.h"

using namespace inp;

static server S;
static long g_conns=0, g_confirmed=0, g_segments=0;

struct one_result { std::vector<std::pair<int,std::string> > replies; char end; };

// run one connection: stream cut at `cuts`, expecting `nrep` replies
static one_result run_one(int proto,std::string const &stream,std::vector<int> const &cuts,int nrep,double timeout=10.0)
{
	one_result R; R.end='t';
	int cfd=-1,sdup=-1;
	if(!S.connect(proto,cfd,sdup)) { R.end='x'; return R; }
	bool broken=false;
	g_confirmed+=send_cut(cfd,sdup,stream,cuts,50,broken);
	g_segments+=cuts.size(); g_conns++;
	close(sdup);
	rawreply rr=read_reply(cfd,timeout,[&](std::string const &d)->bool {
		if(proto==HTTP) { size_t at=0; for(int i=0;i<nrep;i++) { reply r; if(!parse_http(d,at,false,r)) return false; } return true; }
		if(proto==FCGI) { size_t at=0; reply r; return parse_fcgi(d,at,r); }
		return false;
	});
	R.end=rr.end;
	if(proto==HTTP) {
		size_t at=0;
		for(int i=0;i<nrep;i++) { reply r; if(!parse_http(rr.data,at,rr.end=='e',r)) break; R.replies.push_back(std::make_pair(r.status,r.body)); }
	}
	else if(proto==SCGI) { reply r; if(parse_cgi(rr.data,rr.end=='e',r)) R.replies.push_back(std::make_pair(r.status,r.body)); }
	else { size_t at=0; reply r; if(parse_fcgi(rr.data,at,r) && r.complete) R.replies.push_back(std::make_pair(r.status,r.body)); }
	close(cfd);
	return R;
}

// ---------------------------------------------------------------- cut patterns
typedef std::vector<int> cutset;
static void cut_patterns(size_t n,bool quick,vt::rng &rng,std::vector<cutset> &out,bool is_long,size_t all2max=72)
{
	out.push_back(cutset());
	if(n<2) return;
	if(is_long) {
		int np=quick?6:24;
		for(int k=0;k<np;k++) {
			int nc=1+rng(k%3==0?40:6);
			std::set<int> s; while((int)s.size()<nc) s.insert(1+rng(n-1));
			out.push_back(cutset(s.begin(),s.end()));
		}
		// a burst of one-byte segments somewhere, and cuts hugging the 16 KiB read size
		{ std::set<int> s; int a=1+rng(n-1); for(int i=0;i<24 && a+i<(int)n;i++) s.insert(a+i); out.push_back(cutset(s.begin(),s.end())); }
		if(n>16400) { cutset c; c.push_back(16383); c.push_back(16384); c.push_back(16385); out.push_back(c); }
		// ONE early cut (inside the request line / the first headers / the length prefix) and the whole rest - with a body
		// larger than the front-end's read size - in a single segment: header parsing and a big read meet
		{ static const int early[]={1,2,5,9,17,33,60,90,130,180,250,400}; for(size_t i=0;i<sizeof(early)/sizeof(early[0]);i++) if(early[i]<(int)n) { cutset c; c.push_back(early[i]); out.push_back(c); } }
		{ cutset c; c.push_back(3); c.push_back(4); c.push_back(40); out.push_back(c); }
		return;
	}
	int stride=1;
	if(quick && n>160) stride=2;
	for(size_t i=1;i<n;i+=stride) { cutset c; c.push_back(i); out.push_back(c); }
	{ cutset c; for(size_t i=1;i<n;i++) c.push_back(i); out.push_back(c); }                    // every byte on its own
	// one-byte segment at every position
	for(size_t i=1;i+1<n;i+=(quick?3:1)) { cutset c; c.push_back(i); c.push_back(i+1); out.push_back(c); }
	if(!quick && n<=all2max) {
		for(size_t i=1;i<n;i++) for(size_t j=i+2;j<n;j++) { cutset c; c.push_back(i); c.push_back(j); out.push_back(c); }
	}
	else {
		int np=quick?40:1200;
		for(int k=0;k<np;k++) { int a=1+rng(n-1),b=1+rng(n-1); if(a==b) continue; cutset c; c.push_back(std::min(a,b)); c.push_back(std::max(a,b)); out.push_back(c); }
	}
	int nm=quick?12:200;
	for(int k=0;k<nm;k++) {
		int nc=3+rng(4); std::set<int> s; while((int)s.size()<nc && s.size()<n-1) s.insert(1+rng(n-1));
		out.push_back(cutset(s.begin(),s.end()));
	}
}

struct group { std::vector<cutset> cuts; std::string ojson; };

// run every cut pattern of one stream; group byte-identical outcomes
static void run_patterns(int proto,std::string const &stream,int nrep,std::vector<cutset> const &pats)
{
	std::map<std::string,group> groups; std::vector<std::string> order;
	int timeouts=0;
	for(size_t k=0;k<pats.size();k++) {
		if(timeouts>=4) break;       // the front-end hangs on this stream: that is already a rejected observation, do not wait for every pattern
		one_result r=run_one(proto,stream,pats[k],nrep,timeouts?1.0:10.0);
		if(r.end=='t') timeouts++;
		std::string key; key+=r.end;
		for(size_t i=0;i<r.replies.size();i++) { key+=dec(r.replies[i].first)+":"+dec(r.replies[i].second.size())+":"+r.replies[i].second; }
		std::map<std::string,group>::iterator p=groups.find(key);
		if(p==groups.end()) {
			group g; std::string oj="[";
			for(int i=0;i<nrep;i++) {
				obs o; int st=0;
				if(i<(int)r.replies.size()) { st=r.replies[i].first; parse_obs(r.replies[i].second,o); }
				if(i) oj+=",";
				oj+=jobs(st,o);
			}
			g.ojson=oj+"]";
			p=groups.insert(std::make_pair(key,g)).first; order.push_back(key);
		}
		p->second.cuts.push_back(pats[k]);
	}
	for(size_t gi=0;gi<order.size();gi++) {
		group &g=groups[order[gi]];
		std::string cj="[";
		size_t lim=g.cuts.size();
		for(size_t i=0;i<lim;i++) {
			if(i) cj+=",";
			cj+="[";
			for(size_t j=0;j<g.cuts[i].size();j++) { if(j) cj+=","; cj+=dec(g.cuts[i][j]); }
			cj+="]";
		}
		cj+="]";
		vt::J j; j.s("e","Obs").s("proto",proto_name[proto]).i("n",g.cuts.size()).raw("cuts",cj).raw("o",g.ojson);
		emit(j.str());
	}
	fflush(tr.f);
}

static void c01_request(absreq const &r,bool quick,vt::rng &rng,bool is_long)
{
	emit(vt::J().s("e","Reset").i("id",r.id).str());
	for(int proto=0;proto<3;proto++) {
		int nvar = is_long ? 1 : (quick ? 2 : 4);
		for(int v=0;v<nvar;v++) {
			std::string wire,var;
			if(proto==HTTP) {
				http_opt o; o.name_case=v%3; o.colon=v; o.fold=(v%2==1); o.pct=v%3; o.ct_first=(v>=2);
				wire=http_encode(r,o); var="case"+dec(o.name_case)+",colon"+dec(o.colon)+(o.fold?",fold":"")+",pct"+dec(o.pct);
			}
			else if(proto==SCGI) { wire=scgi_encode(r,v%3); var="order"+dec(v%3); if(v==3) continue; }
			else {
				fcgi_opt o; o.rid=(v==0?1:(v==1?258:65535)); o.four_mode=v%3;
				std::string ps=fcgi_pairs(cgi_vars(r),o.four_mode);
				if(v>=1) {   // free record boundaries and padding
					int np=1+rng(3); std::set<int> s; while((int)s.size()<np && ps.size()>1) s.insert(1+rng(ps.size()-1));
					o.pcuts.assign(s.begin(),s.end());
					if(r.body.size()>1) { int ns=1+rng(2); std::set<int> t; while((int)t.size()<ns) t.insert(1+rng(r.body.size()-1)); o.scuts.assign(t.begin(),t.end()); }
					for(int i=0;i<5;i++) o.pads.push_back(v==1?(i*3+1)%8:rng(v==2?8:256));
				}
				if(v==3 && ps.size()>3) { o.pcuts.clear(); for(size_t i=1;i<ps.size() && i<40;i++) o.pcuts.push_back(i); }   // PARAMS one byte per record
				wire=fcgi_encode(r,o);
				var="rid"+dec(o.rid)+",four"+dec(o.four_mode)+",precs"+dec(o.pcuts.size()+1)+",srecs"+dec(o.scuts.size()+1);
			}
			bool logwire = wire.size()<=600;
			emit(jreq(r,proto,1,logwire?&wire:0,var));
			std::vector<cutset> pats; cut_patterns(wire.size(),quick || v>=2,rng,pats,is_long,v==0?130:72);
			run_patterns(proto,wire,1,pats);
		}
	}
}

// keep-alive chains on HTTP: k requests on one connection, the stream cut anywhere (also across request boundaries)
static void c01_chain(std::vector<absreq> const &cat,int chain_id,int k,bool quick,vt::rng &rng,int longfirst=0)
{
	emit(vt::J().s("e","Reset").i("id",chain_id).str());
	std::string stream; std::vector<absreq> rs;
	for(int i=0;i<k;i++) {
		absreq r=cat[rng(cat.size())];
		if(r.body.size()>64) { i--; continue; }
		if(longfirst) {
			// a keep-alive connection whose FIRST request carries one string of more than half a pool page (1..2 KiB: long
			// request URI or long header value) and whose later requests carry several medium-sized ones: the per-connection
			// string pool (private/string_map.h) is cleared and reused between them
			r=R(0,"GET",i%2?"/async":"/sync","/lf",i?"a=1":0);
			if(i==0) {
				std::string big(1030+rng(800),'u');
				if(longfirst==1) r.path="/"+big; else H(r,"X-Big",big);
			}
			else for(int h=0;h<3+(int)rng(3);h++) { char nm[16]; snprintf(nm,sizeof(nm),"X-M%d",h); H(r,nm,std::string(300+rng(600),'a'+h)); }
		}
		r.id=chain_id*10+i;
		if(i%2==1) r.ver="HTTP/1.1";
		H(r,"Connection",i+1<k?"keep-alive":"close");
		http_opt o; o.name_case=rng(3); o.colon=rng(4); o.fold=rng(2); o.pct=rng(3);
		std::string w=http_encode(r,o);
		emit(jreq(r,HTTP,i+1,&w,"chain"));
		stream+=w; rs.push_back(r);
	}
	std::vector<cutset> pats; cut_patterns(stream.size(),true,rng,pats,false);
	if(!quick) for(int x=0;x<400;x++) { int nc=1+rng(5); std::set<int> s; while((int)s.size()<nc) s.insert(1+rng(stream.size()-1)); pats.push_back(cutset(s.begin(),s.end())); }
	run_patterns(HTTP,stream,k,pats);
}

static std::vector<absreq> long_requests(bool quick,vt::rng &rng)
{
	std::vector<absreq> v; int id=500;
	size_t hsz[]={3000,9000,14000}, bsz[]={20000,70000,262144};
	for(int i=0;i<(quick?2:3);i++) {
		absreq r=R(++id,"GET","/sync","/long","a=1");
		std::string val; for(size_t n=0;n<hsz[quick?i*2:i];n++) val+=(char)('a'+rng(26));
		H(r,"X-Big",val); H(r,"X-After","z");
		v.push_back(r);
	}
	for(int i=0;i<(quick?1:3);i++) {
		absreq r=R(++id,"POST",i%2?"/async":"/sync","/upload",0,"HTTP/1.1");
		std::string b; b.reserve(bsz[i]); for(size_t n=0;n<bsz[i];n++) b+=(char)rng(256);
		B(r,"application/octet-stream",b);
		v.push_back(r);
	}
	{   // long urlencoded form
		absreq r=R(++id,"POST","/sync","/form",0);
		std::string b; for(int i=0;i<(quick?60:400);i++) { if(i) b+="&"; b+="key"+dec(i)+"=%7e+"+dec(rng(100000)); }
		B(r,FORM,b); v.push_back(r);
	}
	return v;
}

static int c01_main(int shard,int nshards,bool quick,uint64_t seed)
{
	std::vector<absreq> cat=catalogue();
	S.start();
	for(size_t i=0;i<cat.size();i++) {
		if((int)(i%nshards)!=shard) continue;
		vt::rng rng(seed*1000003+cat[i].id);
		c01_request(cat[i],quick,rng,false);
	}
	vt::rng lr(seed*7+1);
	std::vector<absreq> lg=long_requests(quick,lr);
	for(size_t i=0;i<lg.size();i++) {
		if((int)(i%nshards)!=shard) continue;
		vt::rng rng(seed*1000003+lg[i].id);
		c01_request(lg[i],quick,rng,true);
	}
	int nchains=quick?8:40;
	for(int c=0;c<nchains;c++) {
		if(c%nshards!=shard) continue;
		vt::rng rng(seed*31+c);
		c01_chain(cat,100+c,1+c%4,quick,rng);
	}
	for(int c=0;c<(quick?4:16);c++) {
		if(c%nshards!=shard) continue;
		vt::rng rng(seed*37+c);
		c01_chain(cat,200+c,2+c%3,quick,rng,1+c%2);
	}
	S.barrier();
	emit(vt::J().s("e","Reset").i("id",0).str());
	fprintf(stderr,"c01 shard %d: connections=%ld cut_points=%ld confirmed_consumed=%ld hooks=%d\n",shard,g_conns,g_segments,g_confirmed,(int)hooks_seen);
	printf("{\"connections\":%ld,\"cut_points\":%ld,\"confirmed\":%ld,\"hooks\":%s}\n",g_conns,g_segments,g_confirmed,hooks_seen?"true":"false");
	tr.close();
	S.stop();
	return 0;
}

static int smoke()
{
	S.start();
	std::vector<absreq> cat=catalogue();
	for(int proto=0;proto<3;proto++) {
		absreq const &r=cat[18];
		std::string w = proto==HTTP ? http_encode(r,http_opt()) : proto==SCGI ? scgi_encode(r,0) : fcgi_encode(r,fcgi_opt());
		cutset c; c.push_back(5); c.push_back(17);
		one_result o=run_one(proto,w,c,1);
		printf("%s end=%c replies=%zu\n",proto_name[proto],o.end,o.replies.size());
		for(size_t i=0;i<o.replies.size();i++) printf("status=%d\n%s\n",o.replies[i].first,o.replies[i].second.c_str());
	}
	S.barrier();
	S.stop();
	return 0;
}

int main(int argc,char **argv)
{
	signal(SIGPIPE,SIG_IGN);
	std::string mode=argc>1?argv[1]:"smoke";
	bool quick=std::string(getenv("VERIF_TIER")?getenv("VERIF_TIER"):"quick")=="quick";
	uint64_t seed=vt::envl("VERIF_SEED",1);
	char const *out=getenv("VERIF_OUT");
	if(out && !*out) out=0;
	if(mode=="c02" && argc>=5 && atol(argv[4])<0) out=0;      // only prints the number of cases
	if(out) { died_fd=open(out,O_WRONLY|O_CREAT|O_APPEND,0644); }
	std::set_terminate(on_terminate);
	int sigs[]={SIGSEGV,SIGABRT,SIGBUS,SIGFPE,SIGILL};
	for(size_t i=0;i<sizeof(sigs)/sizeof(sigs[0]);i++) signal(sigs[i],on_signal);
	if(mode=="smoke") return smoke();
	if(out) { tr.f=fdopen(dup(died_fd),"a"); setvbuf(tr.f,0,_IOFBF,1<<20); } else tr.f=stdout;
	if(mode=="c01" && argc>=4) return c01_main(atoi(argv[2]),atoi(argv[3]),quick,seed);
	if(mode=="c02" && argc>=5) return c02_main(S,argv[2],atol(argv[3]),atol(argv[4]),quick,seed);
	fprintf(stderr,"usage: input_drv smoke | c01 <shard> <nshards> | c02 <proto> <from> <count>\n");
	return 2;
}
