// string_pool driver (C02 memory safety of the per-connection environment pool, private/string_map.h):
// random add / alloc / clear sequences against the real class; after every call the bookkeeping of the pool
// and the real capacity of the malloc'ed pages are logged.  usage: strpool_drv <ops> <rounds>
#include "common/vtrace.h"
#include <string>
#include <string.h>
#include <stdlib.h>
#include <stddef.h>
#include <malloc.h>
#include <signal.h>
#include <unistd.h>
#include <new>
#include <booster/noncopyable.h>
#define private public
#include "string_map.h"
#undef private

typedef cppcms::impl::string_pool pool_t;
static vt::out out;

static long cap_of(pool_t::page *p) { return (long)malloc_usable_size(p) - (long)offsetof(pool_t::page,data); }

static void log_state(vt::J &j,pool_t &p)
{
	j.i("used",p.data_ - p.pages_->data).i("free",p.free_space_).i("cap",cap_of(p.pages_));
	int n=0; for(pool_t::page *q=p.pages_;q;q=q->next) n++;
	j.i("npages",n);
}

static void died(int sig)
{
	// glibc noticed the smashed heap (or we crashed): that is part of the evidence
	char b[64]; int n=snprintf(b,sizeof(b),"{\"e\":\"Died\",\"sig\":%d}\n",sig);
	if(out.f) { fflush(out.f); (void)!write(fileno(out.f),b,n); }
	_exit(0);
}

int main(int argc,char **argv)
{
	int ops = argc>1 ? atoi(argv[1]) : 300, rounds = argc>2 ? atoi(argv[2]) : 10;
	vt::rng g(vt::envl("VERIF_SEED",1));
	out.open();
	signal(SIGABRT,died); signal(SIGSEGV,died);
	for(int r=0;r<rounds;r++) {
		pool_t p;
		out.line(vt::J().s("e","Reset").i("page",2048).str());
		for(int i=0;i<ops;i++) {
			unsigned c=g(20);
			if(c==0 || (r%3==2 && i%7==3)) {
				p.clear();
				vt::J j; j.s("e","Clear"); log_state(j,p); out.line(j.str()); fflush(out.f);
				continue;
			}
			// sizes around the interesting borders: tiny, around page_size/2 (big threshold), around a page, request-line sized
			size_t n;
			switch(g(8)) {
			case 0: n=1+g(16); break;
			case 1: n=1000+g(50); break;
			case 2: n=1+g(1024); break;
			case 3: n=1025+g(3000); break;
			case 4: n=2040+g(20); break;
			case 5: n=400+g(700); break;
			default: n=1+g(200);
			}
			// the first call after a clear / at the start is often a long one (a long request line on a fresh page)
			char *s = g.chance(1,2) ? p.alloc(n) : p.add(std::string(n-1,'a'+i%26));
			vt::J j; j.s("e","Alloc").i("n",n);
			// where does the block lie?
			bool found=false;
			for(pool_t::page *q=p.pages_;q;q=q->next) {
				long cap=cap_of(q);
				if(s>=q->data && s<q->data+cap) { j.i("off",s-q->data).i("pcap",cap); found=true; break; }
			}
			// not inside any page: the block starts beyond the end of the current page
			if(!found) j.i("off",s-p.pages_->data).i("pcap",cap_of(p.pages_));
			log_state(j,p);
			out.line(j.str()); fflush(out.f);
		}
	}
	out.close();
	return 0;
}
