// Shared plumbing of the C01/C02 harness: in-process cppcms::service with the three
// front-ends reached through the acceptor::accept(fd) seam, echo applications,
// client-side socket helpers and reply parsers.
#ifndef VERIF_INPUT_NET_H
#define VERIF_INPUT_NET_H
#include "common/vtrace.h"
#include <cppcms/service.h>
#include <cppcms/application.h>
#include <cppcms/applications_pool.h>
#include <cppcms/http_request.h>
#include <cppcms/http_response.h>
#include <cppcms/http_context.h>
#include <cppcms/http_cookie.h>
#include <cppcms/http_content_filter.h>
#include <cppcms/mount_point.h>
#include <cppcms/json.h>
#include <cppcms/thread_pool.h>
#include <booster/aio/io_service.h>
#include <booster/verif_trace.h>
#include "cgi_api.h"
#include "http_api.h"
#include "scgi_api.h"
#include "fastcgi_api.h"
#include <thread>
#include <mutex>
#include <condition_variable>
#include <functional>
#include <map>
#include <sys/socket.h>
#include <sys/stat.h>
#include <sys/ioctl.h>
#include <sys/un.h>
#include <netinet/in.h>
#include <netinet/tcp.h>
#include <arpa/inet.h>
#include <poll.h>
#include <unistd.h>
#include <fcntl.h>
#include <errno.h>
#include <signal.h>
#include <time.h>
#include <sched.h>

namespace inp {

enum { HTTP=0, SCGI=1, FCGI=2 };
static const char *proto_name[3]={"http","scgi","fcgi"};

static vt::out tr;
static void emit(std::string const &s) { tr.line(s); }
static void emit_flush(std::string const &s) { tr.line(s); fflush(tr.f); }

// ---------------------------------------------------------------- server-side event log
struct sev { char kind; int val; long tag; };   // tag: X-B marker of the request (H,S,E) / connection id of the hook event (P,C)          // 'H' handler, 'S' setup (filter installed), 'E' on_error, 'C' complete(ec), 'P' prepare, 'R' read(n)
static std::mutex ev_mx;
static std::vector<sev> ev_log;
static bool hooks_seen=false;
static void ev_add(char k,int v=0,long tag=0) { std::lock_guard<std::mutex> g(ev_mx); ev_log.push_back(sev{k,v,tag}); }
static long hook_conn(char const *line) { char const *q=strstr(line,"\"c\":"); return q?atol(q+4):0; }
static std::vector<sev> ev_take() { std::lock_guard<std::mutex> g(ev_mx); std::vector<sev> r; r.swap(ev_log); return r; }

// hook listener (events exist only if /repo carries the proposed C01C02 hooks)
static void hook_listener(char const *line)
{
	char const *p;
	if((p=strstr(line,"\"e\":\"Complete\""))) {
		char const *q=strstr(line,"\"ec\":");
		ev_add('C',q?atoi(q+5):0,hook_conn(line)); hooks_seen=true;
	}
	else if((p=strstr(line,"\"e\":\"Prepare\""))) { ev_add('P',0,hook_conn(line)); hooks_seen=true; }
	else if((p=strstr(line,"\"e\":\"Read\""))) {
		char const *q=strstr(line,"\"n\":");
		ev_add('R',q?atoi(q+4):0); hooks_seen=true;
	}
}

// ---------------------------------------------------------------- echo applications
static void put1(std::string &o,char tag,std::string const &a)
{
	char b[64]; snprintf(b,sizeof(b),"%c %zu\n",tag,a.size()); o+=b; o+=a; o+='\n';
}
static void put2(std::string &o,char tag,std::string const &a,std::string const &c)
{
	char b[64]; snprintf(b,sizeof(b),"%c %zu %zu\n",tag,a.size(),c.size()); o+=b; o+=a; o+=c; o+='\n';
}
static long xb_of(cppcms::http::request &rq) { return atol(rq.getenv("HTTP_X_B").c_str()); }
static std::string serialise(cppcms::http::request &rq)
{
	std::string o;
	put1(o,'M',rq.request_method());
	put1(o,'S',rq.script_name());
	put1(o,'P',rq.path_info());
	put1(o,'Q',rq.query_string());
	std::map<std::string,std::string> env=rq.getenv();
	for(std::map<std::string,std::string>::const_iterator p=env.begin();p!=env.end();++p) {
		// what the application sees when it asks for the variable BY NAME (getenv(name), the http_*() accessors) must be
		// what the enumeration shows; a difference is reported with the by-name value
		std::string byname=rq.getenv(p->first);
		put2(o,'E',p->first,byname==p->second ? p->second : byname);
	}
	typedef cppcms::http::request::form_type form_type;
	form_type const &g=rq.get();
	for(form_type::const_iterator p=g.begin();p!=g.end();++p) put2(o,'G',p->first,p->second);
	form_type const &po=rq.post();
	for(form_type::const_iterator p=po.begin();p!=po.end();++p) put2(o,'O',p->first,p->second);
	std::map<std::string,cppcms::http::cookie> const &ck=rq.cookies();
	for(std::map<std::string,cppcms::http::cookie>::const_iterator p=ck.begin();p!=ck.end();++p) put2(o,'C',p->second.name(),p->second.value());
	std::pair<void *,size_t> raw=rq.raw_post_data();
	put1(o,'B',std::string((char const *)raw.first,raw.second));
	o+="Z\n";
	return o;
}

class echo_app : public cppcms::application {
public:
	echo_app(cppcms::service &s) : cppcms::application(s) {}
	virtual void main(std::string)
	{
		ev_add('H',0,xb_of(request()));
		response().set_plain_text_header();
		response().out() << serialise(request());
	}
};

struct filt : public cppcms::http::basic_content_filter {
	long xb; filt(long x=0) : xb(x) {}
	virtual void on_end_of_content() {}
	virtual void on_error() { ev_add('E',0,xb); }
};

// asynchronous application with a content filter: main() is called once when the headers are ready
// (request not ready: installs the filter) and once more when the content is complete
class filt_app : public cppcms::application {
public:
	filt_app(cppcms::service &s) : cppcms::application(s) {}
	virtual void main(std::string)
	{
		if(!request().is_ready()) {
			ev_add('S',0,xb_of(request()));
			request().reset_content_filter(new filt(xb_of(request())));
			return;
		}
		ev_add('H',0,xb_of(request()));
		response().set_plain_text_header();
		response().out() << serialise(request());
	}
};

// bodies read in chunks: a raw_content_filter / a multipart_filter installed when the headers are ready
struct rawfilt : public cppcms::http::raw_content_filter {
	size_t n; long xb; rawfilt(long x=0) : n(0),xb(x) {}
	virtual void on_data_chunk(void const *,size_t sz) { n+=sz; }
	virtual void on_end_of_content() {}
	virtual void on_error() { ev_add('E',0,xb); }
};
struct mpfilt : public cppcms::http::multipart_filter {
	long xb; mpfilt(long x=0) : xb(x) {}
	virtual void on_end_of_content() {}
	virtual void on_error() { ev_add('E',0,xb); }
};
template<typename F>
class chunk_app : public cppcms::application {
public:
	chunk_app(cppcms::service &s) : cppcms::application(s) {}
	virtual void main(std::string)
	{
		if(!request().is_ready()) {
			ev_add('S',0,xb_of(request()));
			request().reset_content_filter(new F(xb_of(request())));
			return;
		}
		ev_add('H',0,xb_of(request()));
		response().set_plain_text_header();
		response().out() << serialise(request());
	}
};

// ---------------------------------------------------------------- death reporting
static int died_fd=-1;
static void died_raw(char const *why)
{
	char b[256];
	int n=snprintf(b,sizeof(b),"{\"e\":\"Died\",\"why\":\"%s\"}\n",why);
	if(tr.f) fflush(tr.f);
	if(died_fd>=0) { ssize_t w=write(died_fd,b,n); (void)w; }
	_exit(42);
}
static void on_signal(int s)
{
	char b[32]; snprintf(b,sizeof(b),"signal %d",s);
	// buffered trace data of the current case was flushed before the bytes were sent
	char l[128]; int n=snprintf(l,sizeof(l),"{\"e\":\"Died\",\"why\":\"%s\"}\n",b);
	if(died_fd>=0) { ssize_t w=write(died_fd,l,n); (void)w; }
	_exit(42);
}
static void on_terminate()
{
	std::string why="terminate";
	try { throw; }
	catch(std::exception const &e) { why=std::string("terminate: ")+e.what(); }
	catch(...) {}
	for(size_t i=0;i<why.size();i++) if(why[i]=='"'||why[i]=='\\'||(unsigned char)why[i]<32) why[i]=' ';
	died_raw(why.c_str());
}
extern "C" const char *__asan_default_options() { return "detect_leaks=0:abort_on_error=1:handle_abort=0:allocator_may_return_null=0"; }

// ---------------------------------------------------------------- the server
struct server {
	cppcms::service *srv;
	std::thread th;
	std::unique_ptr<cppcms::impl::cgi::acceptor> acc[3];
	int lfd; sockaddr_in laddr;
	std::string sockdir;
	int http_port;

	server() : srv(0), lfd(-1), http_port(0) {}

	void start()
	{
		char const *w=getenv("VERIF_WORK");
		char b[256]; snprintf(b,sizeof(b),"%s/inp-%d",w?w:"/tmp",(int)getpid());
		sockdir=b; mkdir(b,0700);
		cppcms::json::value cfg;
		cfg["service"]["worker_threads"]=1;
		cfg["service"]["disable_global_exit_handling"]=true;
		cfg["http"]["script_names"][0]="/sync";
		cfg["http"]["script_names"][1]="/async";
		cfg["http"]["script_names"][2]="/filt";
		cfg["http"]["script_names"][3]="/rawf";
		cfg["http"]["script_names"][4]="/mpf";
		cfg["http"]["timeout"]=30;
		cfg["security"]["content_length_limit"]=1024;   // KiB
		cfg["security"]["multipart_form_data_limit"]=1024;
		cfg["security"]["display_error_message"]=false;
		cfg["gzip"]["enable"]=false;
		cfg["logging"]["level"]="emergency";
		srv=new cppcms::service(cfg);
		srv->applications_pool().mount(cppcms::create_pool<echo_app>(),cppcms::mount_point("/async"),cppcms::app::asynchronous);
		srv->applications_pool().mount(cppcms::create_pool<filt_app>(),cppcms::mount_point("/filt"),cppcms::app::asynchronous | cppcms::app::content_filter);
		srv->applications_pool().mount(cppcms::create_pool<chunk_app<rawfilt> >(),cppcms::mount_point("/rawf"),cppcms::app::asynchronous | cppcms::app::content_filter);
		srv->applications_pool().mount(cppcms::create_pool<chunk_app<mpfilt> >(),cppcms::mount_point("/mpf"),cppcms::app::asynchronous | cppcms::app::content_filter);
		srv->applications_pool().mount(cppcms::create_pool<echo_app>(),cppcms::mount_point("/sync"),cppcms::app::synchronous);
		srv->applications_pool().mount(cppcms::create_pool<echo_app>(),cppcms::mount_point(""),cppcms::app::synchronous);
		using namespace cppcms::impl::cgi;
		acc[HTTP]=http_api_factory(*srv,"127.0.0.1",0,4);
		acc[SCGI]=scgi_api_unix_socket_factory(*srv,sockdir+"/scgi.sock",4);
		acc[FCGI]=fastcgi_api_unix_socket_factory(*srv,sockdir+"/fcgi.sock",4);
		// private listener used only to manufacture connected loopback TCP pairs for the HTTP front-end
		lfd=socket(AF_INET,SOCK_STREAM,0);
		memset(&laddr,0,sizeof(laddr)); laddr.sin_family=AF_INET; laddr.sin_addr.s_addr=htonl(INADDR_LOOPBACK); laddr.sin_port=0;
		if(bind(lfd,(sockaddr*)&laddr,sizeof(laddr))<0 || listen(lfd,16)<0) { perror("listen"); exit(3); }
		socklen_t sl=sizeof(laddr); getsockname(lfd,(sockaddr*)&laddr,&sl);
		booster::verif::st().listener=hook_listener;
		cppcms::service *s=srv;
		th=std::thread([s]{
			try { s->run(); }
			catch(std::exception const &e) {
				std::string why=std::string("exception escaped service::run(): ")+e.what();
				for(size_t i=0;i<why.size();i++) if(why[i]=='"'||why[i]=='\\'||(unsigned char)why[i]<32) why[i]=' ';
				died_raw(why.c_str());
			}
			catch(...) { died_raw("unknown exception escaped service::run()"); }
		});
	}
	void stop()
	{
		srv->shutdown();
		th.join();
		for(int i=0;i<3;i++) acc[i].reset();
		delete srv; srv=0;
		unlink((sockdir+"/scgi.sock").c_str()); unlink((sockdir+"/fcgi.sock").c_str()); rmdir(sockdir.c_str());
	}
	// Quiescence: one round = the loop thread ran a functor posted now (so it completed at least one full iteration:
	// queue drained, poll, ready descriptors queued) and after that the single worker thread ran a job posted now
	// (so every job the loop dispatched before is finished).  A chain of k asynchronous hops needs k rounds; readiness
	// caused by what the client already did (data, FIN, RST on loopback / unix sockets) is kernel state before round 1.
	void barrier(int rounds=2)
	{
		for(int r=0;r<rounds;r++) {
			std::mutex m; std::condition_variable cv; int done=0;
			srv->post([&]{ std::lock_guard<std::mutex> g(m); done|=1; cv.notify_all(); });
			{ std::unique_lock<std::mutex> lk(m); cv.wait_for(lk,std::chrono::seconds(20),[&]{ return (done&1)!=0; }); }
			srv->thread_pool().post([&]{ std::lock_guard<std::mutex> g(m); done|=2; cv.notify_all(); });
			{ std::unique_lock<std::mutex> lk(m); cv.wait_for(lk,std::chrono::seconds(20),[&]{ return done==3; }); }
		}
	}
	// a connected pair: .first = client end, .second = descriptor served by the front-end `proto`
	bool connect(int proto,int &cfd,int &sdup)
	{
		int sfd=-1;
		if(proto==HTTP) {
			cfd=socket(AF_INET,SOCK_STREAM,0);
			if(::connect(cfd,(sockaddr*)&laddr,sizeof(laddr))<0) { perror("connect"); return false; }
			sfd=accept(lfd,0,0);
			if(sfd<0) { perror("accept"); return false; }
			int one=1; setsockopt(cfd,IPPROTO_TCP,TCP_NODELAY,&one,sizeof(one));
		}
		else {
			int sv[2];
			if(socketpair(AF_UNIX,SOCK_STREAM,0,sv)<0) { perror("socketpair"); return false; }
			cfd=sv[0]; sfd=sv[1];
		}
		sdup=dup(sfd);
		cppcms::impl::cgi::acceptor *a=acc[proto].get();
		srv->post([a,sfd]{
			booster::shared_ptr<cppcms::http::context> c=a->accept(sfd);
			c->run();
		});
		return true;
	}
};

// ---------------------------------------------------------------- client side
static double now_s() { timespec t; clock_gettime(CLOCK_MONOTONIC,&t); return t.tv_sec+t.tv_nsec*1e-9; }

// bytes the front-end has not read yet (its descriptor is observed through a dup)
static int unread(int sdup) { int n=0; if(sdup<0||ioctl(sdup,FIONREAD,&n)<0) return -1; return n; }

// wait until the front-end consumed everything that was sent (or give up after `ms`)
static bool wait_consumed(int sdup,int ms)
{
	double t0=now_s();
	for(int spin=0;;spin++) {
		int n=unread(sdup);
		if(n<=0) return n==0;
		if((now_s()-t0)*1000>ms) return false;
		if(spin<200) sched_yield(); else usleep(50);
	}
}

// send `data` cut at the given positions; every segment is handed over only after the previous one
// was consumed by the front-end.  Returns number of segments whose consumption was confirmed.
static int send_cut(int cfd,int sdup,std::string const &data,std::vector<int> const &cuts,int wait_ms,bool &broken)
{
	size_t pos=0; int confirmed=0; broken=false;
	for(size_t i=0;i<=cuts.size();i++) {
		size_t end = i<cuts.size() ? (size_t)cuts[i] : data.size();
		if(end>data.size()) end=data.size();
		while(pos<end) {
			ssize_t w=send(cfd,data.data()+pos,end-pos,MSG_NOSIGNAL);
			if(w<0) { if(errno==EINTR) continue; broken=true; return confirmed; }
			pos+=w;
		}
		if(i<cuts.size()) { if(wait_consumed(sdup,wait_ms)) confirmed++; }
	}
	return confirmed;
}

struct rawreply { std::string data; char end; };   // end: 'e' eof, 'r' reset, 't' timeout, 'd' done (caller's predicate)

// read until EOF / reset / timeout, or until `done(data)` says the expected replies are complete
static rawreply read_reply(int cfd,double timeout_s,std::function<bool(std::string const &)> done=nullptr)
{
	rawreply r; r.end='t';
	double dl=now_s()+timeout_s;
	char buf[65536];
	for(;;) {
		if(done && done(r.data)) { r.end='d'; break; }
		double left=dl-now_s();
		if(left<=0) break;
		pollfd p; p.fd=cfd; p.events=POLLIN; p.revents=0;
		int pr=poll(&p,1,(int)(left*1000)+1);
		if(pr<0) { if(errno==EINTR) continue; r.end='r'; break; }
		if(pr==0) continue;
		ssize_t n=recv(cfd,buf,sizeof(buf),0);
		if(n==0) { r.end='e'; break; }
		if(n<0) { if(errno==EINTR||errno==EAGAIN) continue; r.end='r'; break; }
		r.data.append(buf,n);
	}
	return r;
}

// ---------------------------------------------------------------- reply parsing
struct reply {
	int status;            // 0 = none
	bool framed_ok;        // protocol framing of the reply was well-formed
	bool complete;
	std::string body;
	reply() : status(0), framed_ok(true), complete(false) {}
};

static size_t find_hdr_end(std::string const &s,size_t from,size_t &body_at)
{
	size_t a=s.find("\r\n\r\n",from), b=s.find("\n\n",from);
	if(a==std::string::npos && b==std::string::npos) return std::string::npos;
	if(b==std::string::npos || (a!=std::string::npos && a<b)) { body_at=a+4; return a; }
	body_at=b+2; return b;
}
static std::string lower(std::string s) { for(size_t i=0;i<s.size();i++) if(s[i]>='A'&&s[i]<='Z') s[i]+=32; return s; }
static bool hdr_value(std::string const &hdrs,char const *name,std::string &val)
{
	std::string l=lower(hdrs); std::string n=std::string("\n")+lower(name)+":";
	size_t p=l.find(n);
	if(p==std::string::npos) { if(l.compare(0,n.size()-1,n.c_str()+1)==0) p=0; else return false; } else p+=1;
	p+=n.size()-1;
	size_t e=hdrs.find_first_of("\r\n",p);
	val=hdrs.substr(p,e==std::string::npos?std::string::npos:e-p);
	while(!val.empty()&&(val[0]==' '||val[0]=='\t')) val.erase(0,1);
	return true;
}

// parse one HTTP response starting at `at`; advances `at`.  eof: the peer closed after data.
static bool parse_http(std::string const &s,size_t &at,bool eof,reply &r)
{
	size_t body_at=0, he=s.find("\r\n\r\n",at);
	if(he==std::string::npos) return false;
	body_at=he+4;
	std::string head=s.substr(at,he-at);
	if(head.compare(0,5,"HTTP/")!=0 || head.size()<12) { r.framed_ok=false; return false; }
	r.status=atoi(head.c_str()+9);
	std::string v;
	if(hdr_value(head,"Content-Length",v)) {
		size_t n=atol(v.c_str());
		if(s.size()<body_at+n) return false;
		r.body=s.substr(body_at,n); at=body_at+n; r.complete=true; return true;
	}
	if(hdr_value(head,"Transfer-Encoding",v) && lower(v).find("chunked")!=std::string::npos) {
		size_t p=body_at; std::string b;
		for(;;) {
			size_t e=s.find("\r\n",p);
			if(e==std::string::npos) return false;
			size_t n=strtoul(s.substr(p,e-p).c_str(),0,16);
			p=e+2;
			if(n==0) { if(s.size()<p+2) return false; at=p+2; r.body=b; r.complete=true; return true; }
			if(s.size()<p+n+2) return false;
			b.append(s,p,n); p+=n+2;
		}
	}
	if(!eof) return false;
	r.body=s.substr(body_at); at=s.size(); r.complete=true; return true;
}
// CGI style reply (SCGI, and the STDOUT stream of FastCGI)
static bool parse_cgi(std::string const &s,bool eof,reply &r)
{
	size_t body_at=0;
	size_t he=find_hdr_end(s,0,body_at);
	if(he==std::string::npos) return false;
	std::string head=s.substr(0,he),v;
	if(head.compare(0,5,"HTTP/")==0 && head.size()>=12) r.status=atoi(head.c_str()+9);
	else if(hdr_value(head,"Status",v)) r.status=atoi(v.c_str());
	else r.status=200;
	if(!eof) return false;
	r.body=s.substr(body_at); r.complete=true;
	return true;
}
// de-frame FastCGI records; returns true when END_REQUEST was seen
static bool parse_fcgi(std::string const &s,size_t &at,reply &r,int *got_values=0)
{
	std::string out; bool end=false;
	size_t p=at;
	while(s.size()>=p+8) {
		unsigned char const *h=(unsigned char const *)s.data()+p;
		size_t cl=(h[4]<<8)|h[5], pl=h[6];
		if(s.size()<p+8+cl+pl) break;
		int type=h[1];
		if(h[0]!=1) r.framed_ok=false;
		if(type==6) out.append(s,p+8,cl);
		else if(type==3) { if(cl!=8) r.framed_ok=false; end=true; p+=8+cl+pl; break; }
		else if(type==10) { if(got_values) (*got_values)++; }
		else if(type==7) {}
		else r.framed_ok=false;
		p+=8+cl+pl;
	}
	if(!end) { if(p<s.size() && s.size()-p<8 ) {} return false; }
	at=p;
	if(!out.empty()) { reply t; if(parse_cgi(out,true,t)) { r.status=t.status; r.body=t.body; r.complete=true; } else r.framed_ok=false; }
	return true;
}

// ---------------------------------------------------------------- observation (echo body) -> JSON
struct kv { std::string k,v; };
struct obs {
	bool ok; std::string m,s,p,q,body; std::vector<kv> env,get,post,ck;
	obs() : ok(false) {}
};
static bool parse_obs(std::string const &b,obs &o)
{
	size_t p=0;
	while(p<b.size()) {
		char tag=b[p];
		if(tag=='Z') { o.ok=true; return true; }
		size_t e=b.find('\n',p);
		if(e==std::string::npos||p+1>=b.size()||b[p+1]!=' ') return false;
		size_t l1=0,l2=0; char const *c=b.c_str()+p+2; char *ep;
		l1=strtoul(c,&ep,10);
		bool two=(*ep==' ');
		if(two) l2=strtoul(ep+1,&ep,10);
		if(ep!=b.c_str()+e) return false;
		p=e+1;
		if(b.size()<p+l1+l2+1) return false;
		std::string a=b.substr(p,l1), d=b.substr(p+l1,l2);
		p+=l1+l2+1;
		kv x; x.k=a; x.v=d;
		switch(tag) {
		case 'M': o.m=a; break; case 'S': o.s=a; break; case 'P': o.p=a; break; case 'Q': o.q=a; break;
		case 'B': o.body=a; break;
		case 'E': o.env.push_back(x); break; case 'G': o.get.push_back(x); break;
		case 'O': o.post.push_back(x); break; case 'C': o.ck.push_back(x); break;
		default: return false;
		}
	}
	return false;
}
static std::string jbytes(std::string const &v)
{
	std::string o="["; char b[8];
	for(size_t n=0;n<v.size();n++){ snprintf(b,sizeof(b),n?",%u":"%u",(unsigned)(unsigned char)v[n]); o+=b; }
	return o+"]";
}
static std::string jkvs(std::vector<kv> const &l)
{
	std::string o="[";
	for(size_t i=0;i<l.size();i++) { if(i) o+=","; o+="{\"k\":"+jbytes(l[i].k)+",\"v\":"+jbytes(l[i].v)+"}"; }
	return o+"]";
}
static std::string jobs(int status,obs const &o)
{
	vt::J j; j.i("status",status).b("ok",o.ok);
	j.raw("m",jbytes(o.m)).raw("s",jbytes(o.s)).raw("p",jbytes(o.p)).raw("q",jbytes(o.q));
	j.raw("env",jkvs(o.env)).raw("get",jkvs(o.get)).raw("post",jkvs(o.post)).raw("ck",jkvs(o.ck)).raw("body",jbytes(o.body));
	return j.str();
}

} // inp
#endif
