// C02: malformed input on every front-end.  Deterministic case list (grammar mutations of valid requests,
// truncation / reset at every offset, lying length fields, random bytes); one connection per case, then a
// well-formed probe on a fresh connection.
//
// Trace per case:  Reset / Conn{idx,proto,cls,label,nreq,end,cuts,hooks,bytes}
//                  / server-side events in the order they happened: Prepare, Complete{ec} (only with the proposed
//                    hooks), Setup, Handler, OnError
//                  / Reply{kind,status,pstatus,frame} / Probe{abstract request, o}
//                  and Died{why} (process exits 42; the check restarts the driver at idx+1); Early{sent,of}: the
//                  application was called / a reply was there although the last segment had not been sent yet.
// label: "bad"  the bytes are definitely not a well-formed request: the connection must end in an error reply or
//               be closed;  "ok" a well-formed conversation (must be served);  "any" no claim about the reply.
#ifndef VERIF_INPUT_C02_H
#define VERIF_INPUT_C02_H
#include "input/net.h"
#include "input/req.h"

namespace inp {

struct c02case {
	std::string cls,label,bytes; char end;   // end: 'h' half-close after the last byte, 'r' reset, 'w' keep open until replied
	int nreq;
	bool fixed_cuts,guard;       // fixed_cuts: use `cuts` instead of random ones; guard: the bytes before the last cut are an
	std::vector<int> cuts;       //   incomplete request, so nothing may be served before the last segment is sent
	bool seen;                   // log what the application saw (Seen): it must be explainable by the bytes of this request;
	                             //   a connection carrying a marker string precedes the case
	int batch,bsize;             // batch: 0 single connection; 1/2/3 busy-loop batch (endings before the poll / between poll and
	                             //   read handler / racing from a second thread) of bsize connections
	c02case() : label("bad"),end('h'),nreq(1),fixed_cuts(false),guard(false),seen(false),batch(0),bsize(0) {}
};

static void add(std::vector<c02case> &v,char const *cls,char const *label,std::string const &bytes,char end='h',int nreq=1)
{
	c02case c; c.cls=cls; c.label=label; c.bytes=bytes; c.end=end; c.nreq=nreq; v.push_back(c);
}

static void addc(std::vector<c02case> &v,char const *cls,char const *label,std::string const &bytes,std::vector<int> const &cuts,bool guard,char end='h',int nreq=1)
{
	c02case c; c.cls=cls; c.label=label; c.bytes=bytes; c.end=end; c.nreq=nreq; c.fixed_cuts=true; c.cuts=cuts; c.guard=guard; v.push_back(c);
}

static std::string rnd_bytes(vt::rng &r,size_t n,int proto)
{
	static const char hot_http[]="\r\n :\t\"()\\/?%=&;,-0123456789GETPOSHTTP/1.Content-Length:";
	std::string s;
	for(size_t i=0;i<n;i++) {
		unsigned k=r(10);
		if(proto==HTTP && k<6) s+=hot_http[r(sizeof(hot_http)-1)];
		else if(proto==SCGI && k<5) s+="0123456789:,\0\0CONTENT_LENGTH"[r(27)];
		else if(proto==FCGI && k<6) s+=(char)r(13);
		else if(k<8) s+=(char)('a'+r(26));
		else s+=(char)r(256);
	}
	return s;
}
static std::string mutate(std::string s,vt::rng &r)
{
	int n=1+r(3);
	for(int i=0;i<n && !s.empty();i++) {
		size_t p=r(s.size());
		switch(r(6)) {
		case 0: s[p]^=(char)(1<<r(8)); break;
		case 1: s.erase(p,1+r(4)); break;
		case 2: s.insert(p,1,(char)r(256)); break;
		case 3: { size_t l=1+r(16); s.insert(p,s.substr(p,l)); } break;
		case 4: s[p]=(char)r(256); break;
		case 5: { size_t q=r(s.size()); std::swap(s[p],s[q]); } break;
		}
	}
	return s;
}

static absreq base_get()  { absreq r=R(9001,"GET","/sync","/m","a=1"); H(r,"X-A","1"); return r; }
static absreq base_post() { absreq r=R(9002,"POST","/async","/f",0); B(r,FORM,"foo=bar&1=2"); return r; }
static absreq base_filt() { absreq r=R(9003,"POST","/filt","/u",0); B(r,"text/plain","0123456789abcdef"); return r; }
static absreq with_cl(absreq r,std::string const &cl) { r.hascl=false; r.extra.insert(r.extra.begin(),mk("CONTENT_LENGTH",cl)); return r; }

static void length_cross_cases(std::vector<c02case> &v,int proto,bool quick);
static void scgi_odd_cases(std::vector<c02case> &v,bool quick);
static void fcgi_odd_cases(std::vector<c02case> &v,bool quick);

static void http_cases(std::vector<c02case> &v,bool quick,uint64_t seed)
{
	std::string g=http_encode(base_get(),http_opt()), p=http_encode(base_post(),http_opt()), f=http_encode(base_filt(),http_opt());
	std::string const *bases[3]={&g,&p,&f};
	for(int b=0;b<3;b++) for(size_t k=0;k<bases[b]->size();k++) add(v,"http-truncated","bad",bases[b]->substr(0,k));
	for(int b=0;b<3;b++) for(size_t k=0;k<=bases[b]->size();k+=(quick?3:1)) add(v,"http-reset","any",bases[b]->substr(0,k),'r');
	char const *neg[]={"-1","-2","-2147483648","-9223372036854775808","-1 "};
	for(int i=0;i<5;i++) for(int withbody=0;withbody<2;withbody++) for(int app=0;app<2;app++)
		add(v,"http-negative-content-length","bad",std::string(app?"POST /filt/u":"POST /sync/u")+" HTTP/1.0\r\nContent-Type: text/plain\r\nContent-Length: "+neg[i]+"\r\n\r\n"+(withbody?"abc":""));
	char const *big[]={"1048577","2147483648","4294967296","9223372036854775807","99999999999999999999999"};
	for(int i=0;i<5;i++) for(int app=0;app<2;app++)
		add(v,"http-oversize-content-length","bad",std::string(app?"POST /filt/u":"POST /sync/u")+" HTTP/1.0\r\nContent-Type: text/plain\r\nContent-Length: "+big[i]+"\r\n\r\nabc");
	add(v,"http-content-length-at-limit-truncated","bad","POST /sync/u HTTP/1.0\r\nContent-Length: 1048576\r\n\r\nabc");
	char const *odd[]={"abc",""," 5","5 ","+5","0x10","1e1","5,5","05","5\t"};
	for(int i=0;i<10;i++) add(v,"http-odd-content-length","any",std::string("POST /sync/u HTTP/1.0\r\nContent-Length: ")+odd[i]+"\r\n\r\n0123456789abcdef");
	add(v,"http-duplicate-content-length","any","POST /sync/u HTTP/1.0\r\nContent-Length: 3\r\nContent-Length: 5\r\n\r\nabcde");
	// the 16 KiB cap is a server limit, not a grammar rule: no claim about the reply for complete requests
	add(v,"http-header-over-16k","any","GET /sync HTTP/1.0\r\nX-Big: "+std::string(17000,'x')+"\r\n\r\n");
	add(v,"http-header-over-16k","any","GET /sync HTTP/1.0\r\nX-Big: "+std::string(40000,'x')+"\r\n\r\n");
	{ std::string s="GET /sync HTTP/1.0\r\n"; for(int i=0;i<700;i++) s+="X-H"+dec(i)+": vvvvvvvvvvvvvvvvvvvv\r\n"; add(v,"http-header-over-16k","any",s+"\r\n"); }
	add(v,"http-header-over-16k","bad",std::string(20000,'A'));
	char const *rl[]={"GET\r\n\r\n","GET /\r\n\r\n","GET  \r\n\r\n"," / HTTP/1.0\r\n\r\n","G(T / HTTP/1.0\r\n\r\n","GET x HTTP/1.0\r\n\r\n","GET http://h/ HTTP/1.0\r\n\r\n",
			  "\r\n\r\n","\r\nGET / HTTP/1.0\r\n\r\n","G\x01T / HTTP/1.0\r\n\r\n"};
	for(int i=0;i<10;i++) add(v,"http-bad-request-line","bad",rl[i]);
	char const *hl[]={"NoColon\r\n",": v\r\n","Na me: v\r\n","N\x7f: v\r\n","(c): v\r\n"};
	for(int i=0;i<5;i++) add(v,"http-bad-header-line","bad",std::string("GET /sync HTTP/1.0\r\n")+hl[i]+"\r\n");
	add(v,"http-bad-line-end","bad","GET /sync HTTP/1.0\n\n");
	add(v,"http-bad-line-end","bad","GET /sync HTTP/1.0\r\rX: y\r\n\r\n");
	add(v,"http-bad-line-end","bad","GET /sync HTTP/1.0\r\nX: y\rz\r\n\r\n");
	add(v,"http-bad-line-end","bad","GET /sync HTTP/1.0\r\n\rX");
	add(v,"http-unbalanced-quote","any","GET /sync HTTP/1.0\r\nX: \"abc\r\n\r\n");
	add(v,"http-unbalanced-quote","any","GET /sync HTTP/1.0\r\nX: (abc\r\n\r\n");
	add(v,"http-bad-quoted-pair","any","GET /sync HTTP/1.0\r\nX: \"a\\\xff\"\r\n\r\n");
	add(v,"http-trailing-bytes","any",g+"garbage after the request\r\n\r\n");
	add(v,"http-pipelined-garbage","bad","GET /sync HTTP/1.1\r\nConnection: keep-alive\r\n\r\n\x01\x02\x03\r\n\r\n",'h',2);
	add(v,"http-pipelined-negative-length","bad","GET /sync HTTP/1.1\r\nConnection: keep-alive\r\n\r\nPOST /sync HTTP/1.1\r\nContent-Length: -1\r\n\r\n",'h',2);
	add(v,"http-keep-alive-pair","ok","GET /sync HTTP/1.1\r\nConnection: keep-alive\r\n\r\nGET /async HTTP/1.1\r\nConnection: close\r\n\r\n",'w',2);
	add(v,"http-valid","ok",g,'w'); add(v,"http-valid","ok",p,'w'); add(v,"http-valid","ok",f,'w');
	add(v,"http-valid-halfclose","any",g); add(v,"http-valid-halfclose","any",f);
	length_cross_cases(v,HTTP,quick);
	vt::rng r(seed*77+1);
	int nr=quick?150:3000;
	for(int i=0;i<nr;i++) add(v,"http-random-bytes","any",rnd_bytes(r,1+r(i%5==0?400:48),HTTP),r.chance(1,4)?'r':'h');
	for(int i=0;i<nr;i++) add(v,"http-mutated","any",mutate(*bases[i%3],r),r.chance(1,5)?'r':'h');
}

static void scgi_cases(std::vector<c02case> &v,bool quick,uint64_t seed)
{
	std::string g=scgi_encode(base_get(),0), p=scgi_encode(base_post(),0), f=scgi_encode(base_filt(),0);
	std::string const *bases[3]={&g,&p,&f};
	for(int b=0;b<3;b++) for(size_t k=0;k<bases[b]->size();k+=(quick?2:1)) add(v,"scgi-truncated","bad",bases[b]->substr(0,k));
	for(int b=0;b<3;b++) for(size_t k=0;k<=bases[b]->size();k+=(quick?5:1)) add(v,"scgi-reset","any",bases[b]->substr(0,k),'r');
	std::vector<kv> vars=cgi_vars(base_post());
	std::string c; for(size_t i=0;i<vars.size();i++) { c+=vars[i].k; c+='\0'; c+=vars[i].v; c+='\0'; }
	std::string body=base_post().body;
	int d[]={-40,-17,-2,-1};
	for(int i=0;i<4;i++) add(v,"scgi-length-too-small","bad",dec(c.size()+d[i])+":"+c+","+body);
	int e[]={1,2,5,11,12,300};
	for(int i=0;i<6;i++) add(v,"scgi-length-too-large","bad",dec(c.size()+e[i])+":"+c+","+body);
	char const *pre[]={"-5","abc","","99999","16385","00000000000000000070","7","0","1e3"," 70"};
	for(int i=0;i<10;i++) add(v,"scgi-bad-length-prefix","bad",std::string(pre[i])+":"+c+","+body);
	add(v,"scgi-bad-length-prefix","bad",c+","+body);
	add(v,"scgi-missing-comma","bad",dec(c.size())+":"+c+"X"+body);
	add(v,"scgi-missing-comma","bad",dec(c.size())+":"+c+std::string(1,'\0')+body);
	add(v,"scgi-missing-final-nul","bad",dec(c.size()-1)+":"+c.substr(0,c.size()-1)+","+body);
	add(v,"scgi-missing-final-nul","bad",dec(c.size()+3)+":"+c+"abc,"+body);
	add(v,"scgi-odd-field-count","any",dec(c.size()+4)+":"+c+std::string("abc\0",4)+","+body);
	add(v,"scgi-short-request","bad","3:a\0b,");
	add(v,"scgi-short-request","any",std::string("4:a\0b\0,",8));
	add(v,"scgi-header-over-16k","bad","20000:"+c+std::string(20000-c.size(),'x')+",");
	{ std::string big=c+"X_BIG"+std::string(1,'\0')+std::string(16384-c.size()-7,'x')+std::string(1,'\0'); add(v,"scgi-header-at-limit","any",dec(big.size())+":"+big+","+body); }
	char const *neg[]={"-1","-2","-2147483648","-9223372036854775808"};
	for(int i=0;i<4;i++) for(int app=0;app<2;app++) { absreq r=with_cl(app?base_filt():base_post(),neg[i]); add(v,"scgi-negative-content-length","bad",scgi_encode_vars(cgi_vars(r),"abc")); }
	char const *big[]={"1048577","4294967296","9223372036854775807","99999999999999999999999"};
	for(int i=0;i<4;i++) for(int app=0;app<2;app++) { absreq r=with_cl(app?base_filt():base_post(),big[i]); add(v,"scgi-oversize-content-length","bad",scgi_encode_vars(cgi_vars(r),"abc")); }
	char const *odd[]={"abc","","+5","0x10"," 5"};
	for(int i=0;i<5;i++) { absreq r=with_cl(base_post(),odd[i]); add(v,"scgi-odd-content-length","any",scgi_encode_vars(cgi_vars(r),"0123456789abcdef")); }
	add(v,"scgi-trailing-bytes","any",g+"trailing");
	add(v,"scgi-valid","ok",g,'w'); add(v,"scgi-valid","ok",p,'w'); add(v,"scgi-valid","ok",f,'w');
	add(v,"scgi-valid-halfclose","any",p);
	scgi_odd_cases(v,quick);
	length_cross_cases(v,SCGI,quick);
	vt::rng r(seed*77+2);
	int nr=quick?150:3000;
	for(int i=0;i<nr;i++) add(v,"scgi-random-bytes","any",rnd_bytes(r,1+r(i%5==0?400:48),SCGI),r.chance(1,4)?'r':'h');
	for(int i=0;i<nr;i++) add(v,"scgi-mutated","any",mutate(*bases[i%3],r),r.chance(1,5)?'r':'h');
}

static void fcgi_padded_cases(std::vector<c02case> &v,bool quick);

static void fcgi_cases(std::vector<c02case> &v,bool quick,uint64_t seed)
{
	fcgi_opt o; o.rid=7;
	absreq G=base_get(), P=base_post(), F=base_filt();
	std::string g=fcgi_encode(G,o), p=fcgi_encode(P,o), f=fcgi_encode(F,o);
	std::string const *bases[3]={&g,&p,&f};
	for(int b=0;b<3;b++) for(size_t k=0;k<bases[b]->size();k+=(quick?2:1)) add(v,"fcgi-truncated","bad",bases[b]->substr(0,k));
	for(int b=0;b<3;b++) for(size_t k=0;k<=bases[b]->size();k+=(quick?5:1)) add(v,"fcgi-reset","any",bases[b]->substr(0,k),'r');
	std::string gp=fcgi_pairs(cgi_vars(G),0), pp=fcgi_pairs(cgi_vars(P),0);
	std::string beg=fcgi_begin(7,1,0);
	#define REC(t,id,c) fcgi_rec(t,id,c,0)
	// STDIN where PARAMS are expected
	add(v,"fcgi-stdin-before-params","bad",beg+REC(5,7,"abc")+REC(4,7,gp)+REC(4,7,"")+REC(5,7,""));
	add(v,"fcgi-stdin-before-params","bad",beg+REC(5,7,"")+REC(4,7,gp)+REC(4,7,"")+REC(5,7,""));
	add(v,"fcgi-stdin-before-params","bad",beg+REC(5,7,"abc")+REC(4,7,"")+REC(5,7,""));
	// management record in front of a request: a well-formed conversation
	{ std::vector<kv> q; q.push_back(mk("FCGI_MAX_CONNS","")); q.push_back(mk("FCGI_MAX_REQS","")); q.push_back(mk("FCGI_MPXS_CONNS",""));
	  add(v,"fcgi-get-values","ok",REC(9,0,fcgi_pairs(q,0))+g,'w',1);
	  add(v,"fcgi-get-values","ok",REC(9,0,fcgi_pairs(q,0))+p,'w',1);
	  add(v,"fcgi-get-values-alone","any",REC(9,0,fcgi_pairs(q,0)));
	  add(v,"fcgi-get-values-bad-pairs","bad",REC(9,0,std::string("\x05\x05" "ab",4))+g); }
	int roles[]={0,2,3,4,65535};
	for(int i=0;i<5;i++) add(v,"fcgi-unknown-role","bad",fcgi_begin(7,roles[i],0)+REC(4,7,gp)+REC(4,7,"")+REC(5,7,""));
	add(v,"fcgi-unknown-role","bad",fcgi_begin(7,2,0));
	// wrong request id
	add(v,"fcgi-wrong-record-in-params","bad",beg+REC(4,8,gp)+REC(4,7,"")+REC(5,7,""));
	add(v,"fcgi-wrong-record-in-params","bad",beg+REC(4,7,gp)+REC(4,8,"")+REC(5,7,""));
	add(v,"fcgi-wrong-request-id","bad",beg+REC(4,7,pp)+REC(4,7,"")+REC(5,8,P.body)+REC(5,7,""));
	add(v,"fcgi-wrong-request-id","bad",beg+REC(4,7,pp)+REC(4,7,"")+REC(5,7,P.body)+REC(5,8,""));
	add(v,"fcgi-wrong-request-id-final-stdin","any",beg+REC(4,7,gp)+REC(4,7,"")+REC(5,8,""));
	// every record type in the place of PARAMS / STDIN / BEGIN
	for(int t=0;t<=12;t++) {
		if(t!=4 && t!=5) add(v,"fcgi-wrong-record-in-params","bad",beg+REC(t,7,gp)+REC(4,7,"")+REC(5,7,""));
		if(t!=4) add(v,"fcgi-wrong-record-in-params","bad",beg+REC(4,7,gp)+REC(t,7,"")+REC(5,7,""));
		if(t!=5) add(v,"fcgi-wrong-type-for-stdin","bad",beg+REC(4,7,pp)+REC(4,7,"")+REC(t,7,P.body)+REC(5,7,""));
		if(t!=5) add(v,"fcgi-wrong-type-for-stdin-end","bad",beg+REC(4,7,gp)+REC(4,7,"")+REC(t,7,""));
		if(t!=1 && t!=9) add(v,"fcgi-wrong-type-for-begin","bad",fcgi_rec(t,7,beg.substr(8),0)+REC(4,7,gp)+REC(4,7,"")+REC(5,7,""));
		if(t!=1) add(v,"fcgi-stray-record-then-request","any",fcgi_rec(t,0,"",0)+g);
	}
	int vers[]={0,2,255};
	for(int i=0;i<3;i++) add(v,"fcgi-bad-version","bad",fcgi_rec(1,7,beg.substr(8),0,vers[i])+REC(4,7,gp)+REC(4,7,"")+REC(5,7,""));
	for(int i=0;i<3;i++) add(v,"fcgi-bad-version-later","any",beg+fcgi_rec(4,7,gp,0,vers[i])+REC(4,7,"")+REC(5,7,""));
	size_t bs[]={0,1,7,9,16};
	for(int i=0;i<5;i++) add(v,"fcgi-begin-body-size","bad",REC(1,7,std::string(bs[i],'\1'))+REC(4,7,gp)+REC(4,7,"")+REC(5,7,""));
	// lying name/value lengths inside PARAMS
	{ std::string a=gp; a[0]=(char)0x7f; add(v,"fcgi-params-length-lies","bad",beg+REC(4,7,a)+REC(4,7,"")+REC(5,7,"")); }
	{ std::string a=gp; a[1]=(char)0x7f; add(v,"fcgi-params-length-lies","bad",beg+REC(4,7,a)+REC(4,7,"")+REC(5,7,"")); }
	{ std::string a=gp+std::string("\xff\xff\xff\xff\x01" "ab",7); add(v,"fcgi-params-length-lies","bad",beg+REC(4,7,a)+REC(4,7,"")+REC(5,7,"")); }
	{ std::string a=gp+std::string("\x80\x00",2); add(v,"fcgi-params-length-lies","bad",beg+REC(4,7,a)+REC(4,7,"")+REC(5,7,"")); }
	{ std::string a=gp+std::string("\x03",1); add(v,"fcgi-params-length-lies","bad",beg+REC(4,7,a)+REC(4,7,"")+REC(5,7,"")); }
	{ std::string a=gp.substr(0,gp.size()-3); add(v,"fcgi-params-length-lies","bad",beg+REC(4,7,a)+REC(4,7,"")+REC(5,7,"")); }
	{ std::string a; for(int i=0;i<3;i++) a+=REC(4,7,std::string("\x05\x80\x00\x17\x70X_BIG",10)+std::string(6000,'x')); add(v,"fcgi-params-over-16k","bad",beg+a+REC(4,7,"")+REC(5,7,"")); }
	// CONTENT_LENGTH against the STDIN stream
	add(v,"fcgi-stdin-shorter-than-declared","bad",beg+REC(4,7,pp)+REC(4,7,"")+REC(5,7,"foo")+REC(5,7,""));
	add(v,"fcgi-stdin-longer-than-declared","bad",beg+REC(4,7,pp)+REC(4,7,"")+REC(5,7,P.body+"extra")+REC(5,7,""));
	add(v,"fcgi-stdin-longer-than-declared","bad",beg+REC(4,7,pp)+REC(4,7,"")+REC(5,7,P.body)+REC(5,7,"extra")+REC(5,7,""));
	add(v,"fcgi-stdin-without-content-length","bad",beg+REC(4,7,gp)+REC(4,7,"")+REC(5,7,"abc")+REC(5,7,""));
	char const *neg[]={"-1","-2","-2147483648","-9223372036854775808"};
	for(int i=0;i<4;i++) for(int app=0;app<2;app++) { absreq r=with_cl(app?F:P,neg[i]); add(v,"fcgi-negative-content-length","bad",beg+REC(4,7,fcgi_pairs(cgi_vars(r),0))+REC(4,7,"")+REC(5,7,"")); }
	char const *big[]={"1048577","4294967296","9223372036854775807","99999999999999999999999"};
	for(int i=0;i<4;i++) for(int app=0;app<2;app++) { absreq r=with_cl(app?F:P,big[i]); add(v,"fcgi-oversize-content-length","bad",beg+REC(4,7,fcgi_pairs(cgi_vars(r),0))+REC(4,7,"")+REC(5,7,"abc")+REC(5,7,"")); }
	add(v,"fcgi-abort-request","any",beg+REC(2,7,""));
	add(v,"fcgi-abort-request","any",beg+REC(4,7,gp)+REC(2,7,""));
	add(v,"fcgi-record-length-lies","bad",beg+std::string("\x01\x04\x00\x07\xff\xff\x00\x00",8)+gp);
	add(v,"fcgi-record-length-lies","bad",beg+std::string("\x01\x04\x00\x07\x00\x05\xff\x00",8)+gp);
	{ fcgi_opt k=o; k.flags=1; add(v,"fcgi-keep-conn-pair","ok",fcgi_encode(G,k)+fcgi_encode(P,o),'w',2); }
	add(v,"fcgi-valid","ok",g,'w'); add(v,"fcgi-valid","ok",p,'w'); add(v,"fcgi-valid","ok",f,'w');
	add(v,"fcgi-valid-halfclose","any",p);
	fcgi_padded_cases(v,quick);
	#undef REC
	fcgi_odd_cases(v,quick);
	length_cross_cases(v,FCGI,quick);
	vt::rng r(seed*77+3);
	int nr=quick?150:3000;
	for(int i=0;i<nr;i++) add(v,"fcgi-random-bytes","any",rnd_bytes(r,1+r(i%5==0?400:48),FCGI),r.chance(1,4)?'r':'h');
	for(int i=0;i<nr;i++) add(v,"fcgi-mutated","any",mutate(*bases[i%3],r),r.chance(1,5)?'r':'h');
	// random but well-framed record sequences: types, ids, roles in any order
	for(int i=0;i<nr;i++) {
		std::string s; int n=1+r(6);
		for(int k=0;k<n;k++) {
			int t=r(13); int id=r(3)==0?r(3):7;
			std::string c = t==1 ? std::string(1,(char)0)+std::string(1,(char)r(5))+std::string(1,(char)r(2))+std::string(5,'\0') : (r(2)?std::string(""): (t==4?gp:(r(2)?std::string("abc"):P.body)));
			s+=fcgi_rec(t,id,c,r(8));
		}
		add(v,"fcgi-random-records","any",s);
	}
}

// a FastCGI stream that remembers where the content of every record ends (= where its padding starts)
struct recstream {
	struct rec { size_t hdr,content_end; int pad,type; std::string content; };
	std::string w; std::vector<rec> rs;
	void add(int type,int rid,std::string const &c,int pad,int version=1)
	{
		rec x; x.hdr=w.size(); x.content_end=x.hdr+8+c.size(); x.pad=pad; x.type=type; x.content=c; rs.push_back(x);
		w+=fcgi_rec(type,rid,c,pad,version);
	}
};
static std::vector<int> shifted(std::vector<int> c,int by,int first=-1)
{
	std::vector<int> r; if(first>=0) r.push_back(first);
	for(size_t i=0;i<c.size();i++) r.push_back(c[i]+by);
	return r;
}
// cuts that fall exactly between content and padding of a record, and inside the padding
static std::vector<std::vector<int> > boundary_cuts(recstream::rec const &x)
{
	std::vector<std::vector<int> > r; std::vector<int> c;
	if(x.pad<1) return r;
	c.push_back(x.content_end); r.push_back(c);
	if(x.pad>1) { c.clear(); c.push_back(x.content_end+1); r.push_back(c); }
	if(x.pad>2) { c.clear(); c.push_back(x.content_end); c.push_back(x.content_end+x.pad-1); r.push_back(c); }
	return r;
}
// Padded PARAMS / STDIN / empty records cut at the content|padding boundary: on a fresh connection, and behind an
// ignored record whose payload leaves, exactly where the read-ahead cache would be over-read, records that would
// complete the request (a front-end that looks at stale cache bytes serves a request the peer has not finished).
static void fcgi_padded_cases(std::vector<c02case> &v,bool quick)
{
	absreq G=base_get(), P=base_post();
	int padsq[]={1,3,7}, padsf[]={1,2,3,4,5,6,7};
	int const *pads=quick?padsq:padsf; int npads=quick?3:7;
	for(int b=0;b<2;b++) {
		absreq const &R0=b?P:G;
		std::string pp=fcgi_pairs(cgi_vars(R0),0);
		for(int pi=0;pi<npads;pi++) {
			int k=pads[pi];
			recstream q; q.add(1,7,fcgi_begin(7,1,0).substr(8),0); q.add(4,7,pp,k); q.add(4,7,"",k);
			if(!R0.body.empty()) q.add(5,7,R0.body,k);
			q.add(5,7,"",k);
			for(size_t ri=1;ri<q.rs.size();ri++) {
				std::vector<std::vector<int> > bc=boundary_cuts(q.rs[ri]);
				// what follows record ri, unpadded, with a body of the same length but other content
				std::string follow;
				for(size_t rj=ri+1;rj<q.rs.size();rj++) follow+=fcgi_rec(q.rs[rj].type,7,q.rs[rj].type==5&&!q.rs[rj].content.empty()?std::string("STALE=1&x=y").substr(0,q.rs[rj].content.size()):q.rs[rj].content,0);
				for(size_t ci=0;ci<bc.size();ci++) {
					addc(v,"fcgi-padded-record-cut-at-padding","ok",q.w,bc[ci],true,'w');
					// behind an ignored record: the cache holds its payload beyond the bytes of the request
					size_t so=q.rs[ri].content_end+k;                // where an over-read of the cache would continue
					if(so<8) continue;
					std::string C(so-8,'x'); C+=follow; C.append(64,'x');
					std::string X=fcgi_rec(7,0,C,0);
					addc(v,"fcgi-padded-record-cut-at-padding-stale-cache","ok",X+q.w,shifted(bc[ci],X.size(),X.size()),true,'w');
				}
			}
			// truncation inside / in front of the padding of the last record, and malformed conversations with padded records
			recstream::rec const &last=q.rs.back();
			addc(v,"fcgi-truncated-at-padding","bad",q.w.substr(0,last.content_end),std::vector<int>(),false);
			if(k>1) addc(v,"fcgi-truncated-at-padding","bad",q.w.substr(0,last.content_end+k-1),std::vector<int>(1,(int)last.content_end),false);
			if(b==0) {
				{ recstream m; m.add(1,7,fcgi_begin(7,1,0).substr(8),k); m.add(5,7,"abc",k); m.add(4,7,pp,k); m.add(4,7,"",k); m.add(5,7,"",k);
				  for(size_t ri=0;ri<m.rs.size();ri++) { std::vector<std::vector<int> > bc=boundary_cuts(m.rs[ri]); if(!bc.empty()) addc(v,"fcgi-stdin-before-params-padded","bad",m.w,bc[0],false); } }
				{ recstream m; m.add(1,7,fcgi_begin(7,1,0).substr(8),0); m.add(4,8,pp,k); m.add(4,7,"",k); m.add(5,7,"",k);
				  for(size_t ri=1;ri<m.rs.size();ri++) { std::vector<std::vector<int> > bc=boundary_cuts(m.rs[ri]); if(!bc.empty()) addc(v,"fcgi-wrong-record-in-params-padded","bad",m.w,bc[0],false); } }
				{ std::string a=pp; a[0]=(char)0x7f; recstream m; m.add(1,7,fcgi_begin(7,1,0).substr(8),0); m.add(4,7,a,k); m.add(4,7,"",k); m.add(5,7,"",k);
				  std::vector<std::vector<int> > bc=boundary_cuts(m.rs[1]); addc(v,"fcgi-params-length-lies-padded","bad",m.w,bc[0],false); }
				{ recstream m; m.add(1,7,fcgi_begin(7,2,0).substr(8),k); m.add(4,7,pp,k); m.add(4,7,"",k); m.add(5,7,"",k);
				  std::vector<std::vector<int> > bc=boundary_cuts(m.rs[0]); addc(v,"fcgi-unknown-role-padded","bad",m.w,bc[0],false); }
				{ recstream m; m.add(1,7,fcgi_begin(7,1,0).substr(8),0); m.add(4,7,pp,k); m.add(4,7,"",k); m.add(5,7,"abc",k); m.add(5,7,"",k);
				  for(size_t ri=1;ri<m.rs.size();ri++) { std::vector<std::vector<int> > bc=boundary_cuts(m.rs[ri]); if(!bc.empty()) addc(v,"fcgi-stdin-without-content-length-padded","bad",m.w,bc[0],false); } }
			}
		}
	}
}

// declared length classes x content types x applications (whole-body buffer, chunked reading through the multipart
// parser, a raw_content_filter, a multipart_filter) on one front-end
static void length_cross_cases(std::vector<c02case> &v,int proto,bool quick)
{
	struct { char const *name,*val,*label; } lens[]={
		{"neg1","-1","bad"},{"negint","-2147483648","bad"},{"huge","9223372036854775807","bad"},{"over-limit","1048577","bad"},
		{"nonnumeric","abc","any"},{"zero-with-body","0","any"},{"negmin","-9223372036854775808","bad"},{"neg2","-2","bad"}};
	struct { char const *name,*val; } cts[]={
		{"urlencoded",FORM},{"text","text/plain"},{"multipart","multipart/form-data; boundary=xYzZy"},{"multipart-noboundary","multipart/form-data"}};
	struct { char const *name,*script; } apps[]={{"sync","/sync"},{"async","/async"},{"rawfilter","/rawf"},{"mpfilter","/mpf"}};
	std::string body="--xYzZy\r\nContent-Disposition: form-data; name=\"a\"\r\n\r\n1\r\n--xYzZy--\r\n";
	int nl=quick?6:8;
	for(int l=0;l<nl;l++) for(int c=0;c<4;c++) for(int a=0;a<4;a++) {
		std::string cls=std::string(proto_name[proto])+"-cl-"+lens[l].name+"-"+cts[c].name+"-"+apps[a].name;
		absreq r=R(9100,"POST",apps[a].script,"/u",0); r.hasct=true; r.ct=cts[c].val;
		if(proto==HTTP)
			add(v,cls.c_str(),lens[l].label,std::string("POST ")+apps[a].script+"/u HTTP/1.0\r\nContent-Type: "+cts[c].val+"\r\nContent-Length: "+lens[l].val+"\r\n\r\n"+body);
		else if(proto==SCGI)
			add(v,cls.c_str(),lens[l].label,scgi_encode_vars(cgi_vars(with_cl(r,lens[l].val)),body));
		else {
			std::string pre=fcgi_begin(7,1,0)+fcgi_rec(4,7,fcgi_pairs(cgi_vars(with_cl(r,lens[l].val)),0),0)+fcgi_rec(4,7,"",0);
			add(v,cls.c_str(),lens[l].label,pre+fcgi_rec(5,7,"",0));                       // a non-positive length expects the empty STDIN at once
			add(v,(cls+"-with-stdin").c_str(),lens[l].label,pre+fcgi_rec(5,7,body,0)+fcgi_rec(5,7,"",0));
		}
	}
}

// Header blocks that are framed correctly (netstring length right, block ends with NUL and ',' / PARAMS lengths
// consistent) but structurally odd: an odd number of strings, empty names and values, value-less CONTENT_LENGTH,
// duplicates, blocks of NULs, trailing names that end exactly at the end of buffers of many sizes.
static void adds(std::vector<c02case> &v,std::string const &cls,std::string const &bytes)
{
	c02case c; c.cls=cls; c.label="any"; c.bytes=bytes; c.end='h'; c.nreq=1; c.seen=true; v.push_back(c);
}
static std::string scgi_block(std::vector<std::string> const &strs,std::string const &body="")
{
	std::string c; for(size_t i=0;i<strs.size();i++) { c+=strs[i]; c+='\0'; }
	return dec(c.size())+":"+c+","+body;
}
static void scgi_odd_cases(std::vector<c02case> &v,bool quick)
{
	char const *base[]={"REQUEST_METHOD","GET","SCRIPT_NAME","/sync","PATH_INFO","/odd","SERVER_PROTOCOL","HTTP/1.0","HTTP_X_A","1","QUERY_STRING","a=1"};
	std::vector<std::string> b(base,base+12);
	for(int n=1;n<=11;n+=2) {          // n strings: (n-1)/2 pairs and a trailing name without value
		std::vector<std::string> t(b.begin(),b.begin()+(n-1)); t.push_back(n==1?"X_TRAILER_WITHOUT_VALUE":"X_TRAILER");
		adds(v,"scgi-odd-block-trailing-name",scgi_block(t));
	}
	// the trailing name ends exactly at the end of header buffers of many sizes (allocator size classes)
	int sizes[]={24,25,31,32,33,40,48,56,63,64,65,72,88,104,120,127,128,129,136,248,256,264,504,512,520,1024,4096};
	for(size_t k=0;k<sizeof(sizes)/sizeof(sizes[0]);k+=(quick?2:1)) {
		std::vector<std::string> t(b.begin(),b.begin()+(sizes[k]>=72?4:0));
		size_t fixed=0; for(size_t i=0;i<t.size();i++) fixed+=t[i].size()+1;
		// buffer size = digits + ':' + content + ',' ; solve for the trailing name length
		for(int L=1;L<sizes[k];L++) {
			size_t content=fixed+L+1; size_t total=dec(content).size()+1+content+1;
			if((int)total==sizes[k]) { t.push_back(std::string(L,'T')); adds(v,"scgi-odd-block-trailing-name-at-buffer-end",scgi_block(t)); break; }
		}
	}
	{ std::vector<std::string> t(b.begin(),b.begin()+8); t.push_back("CONTENT_LENGTH"); adds(v,"scgi-odd-block-valueless-content-length",scgi_block(t,"abc")); }
	{ std::vector<std::string> t(b.begin()+2,b.begin()+8); t.push_back("REQUEST_METHOD"); adds(v,"scgi-odd-block-valueless-request-method",scgi_block(t)); }
	{ std::vector<std::string> t(b.begin(),b.begin()+8); t.push_back("CONTENT_LENGTH"); t.push_back(""); adds(v,"scgi-odd-block-empty-content-length",scgi_block(t,"abc")); }
	{ std::vector<std::string> t(b.begin()+2,b.begin()+8); t.push_back("REQUEST_METHOD"); t.push_back(""); adds(v,"scgi-odd-block-empty-request-method",scgi_block(t)); }
	{ std::vector<std::string> t(b.begin(),b.begin()+8); t.push_back(""); t.push_back("value-of-empty-name"); adds(v,"scgi-odd-block-empty-name",scgi_block(t)); }
	{ std::vector<std::string> t(b.begin(),b.begin()+8); t.push_back("X_EMPTY"); t.push_back(""); t.push_back("X_AFTER"); t.push_back("z"); adds(v,"scgi-odd-block-empty-value",scgi_block(t)); }
	{ std::vector<std::string> t(b.begin(),b.begin()+8); t.push_back(""); t.push_back(""); adds(v,"scgi-odd-block-empty-name-and-value",scgi_block(t)); }
	{ std::vector<std::string> t(b.begin(),b.begin()+8); t.push_back(""); adds(v,"scgi-odd-block-trailing-empty-name",scgi_block(t)); }
	{ std::vector<std::string> t(20,std::string()); adds(v,"scgi-odd-block-only-nuls",scgi_block(t)); }
	{ std::vector<std::string> t(21,std::string()); adds(v,"scgi-odd-block-only-nuls",scgi_block(t)); }
	{ std::vector<std::string> t(1,std::string()); adds(v,"scgi-odd-block-single-nul",scgi_block(t)); }
	{ std::vector<std::string> t(b.begin(),b.begin()+8); t.push_back("REQUEST_METHOD"); t.push_back("POST"); adds(v,"scgi-odd-block-duplicate-names",scgi_block(t)); }
	{ std::vector<std::string> t(b.begin(),b.begin()+8); t.push_back("X_D"); t.push_back("1"); t.push_back("X_D"); t.push_back("2"); t.push_back("X_D"); adds(v,"scgi-odd-block-duplicate-names",scgi_block(t)); }
	{ std::vector<std::string> t(b.begin(),b.begin()+8); t.push_back("CONTENT_LENGTH"); t.push_back("0"); t.push_back("CONTENT_LENGTH"); t.push_back("3"); adds(v,"scgi-odd-block-duplicate-names",scgi_block(t,"abc")); }
}
static void fcgi_odd_cases(std::vector<c02case> &v,bool quick)
{
	(void)quick;
	std::vector<kv> b; b.push_back(mk("REQUEST_METHOD","GET")); b.push_back(mk("SCRIPT_NAME","/sync")); b.push_back(mk("PATH_INFO","/odd")); b.push_back(mk("SERVER_PROTOCOL","HTTP/1.0"));
	std::string beg=fcgi_begin(7,1,0), bp=fcgi_pairs(b,0);
	struct fin { static std::string req(std::string const &beg,std::string const &params,std::string const &body="") {
		std::string w=beg+fcgi_rec(4,7,params,0)+fcgi_rec(4,7,"",0); if(!body.empty()) w+=fcgi_rec(5,7,body,0); return w+fcgi_rec(5,7,"",0); } };
	adds(v,"fcgi-odd-params-empty-value",fin::req(beg,bp+std::string("\x07\x00X_EMPTY",9)));
	adds(v,"fcgi-odd-params-empty-name",fin::req(beg,bp+std::string("\x00\x05value",7)));
	adds(v,"fcgi-odd-params-empty-name-and-value",fin::req(beg,bp+std::string("\x00\x00",2)));
	adds(v,"fcgi-odd-params-empty-name-and-value",fin::req(beg,std::string("\x00\x00",2)));
	adds(v,"fcgi-odd-params-empty-name-and-value",fin::req(beg,bp+std::string("\x80\x00\x00\x00\x80\x00\x00\x00",8)));
	adds(v,"fcgi-odd-params-single-zero",fin::req(beg,std::string("\x00",1)));
	adds(v,"fcgi-odd-params-single-zero",fin::req(beg,bp+std::string("\x00",1)));
	adds(v,"fcgi-odd-params-trailing-name-length-only",fin::req(beg,bp+std::string("\x09",1)));
	adds(v,"fcgi-odd-params-trailing-name-without-value-length",fin::req(beg,bp+std::string("\x09\x03X_TRAILER",11)));
	adds(v,"fcgi-odd-params-valueless-content-length",fin::req(beg,bp+std::string("\x0e\x00" "CONTENT_LENGTH",16),"abc"));
	adds(v,"fcgi-odd-params-valueless-request-method",fin::req(beg,fcgi_pairs(std::vector<kv>(b.begin()+1,b.end()),0)+std::string("\x0e\x00REQUEST_METHOD",16)));
	{ std::vector<kv> d=b; d.push_back(mk("REQUEST_METHOD","POST")); d.push_back(mk("X_D","1")); d.push_back(mk("X_D","2")); adds(v,"fcgi-odd-params-duplicate-names",fin::req(beg,fcgi_pairs(d,0))); }
	{ std::vector<kv> d=b; d.push_back(mk("CONTENT_LENGTH","0")); d.push_back(mk("CONTENT_LENGTH","3")); adds(v,"fcgi-odd-params-duplicate-names",fin::req(beg,fcgi_pairs(d,0),"abc")); }
	// a name / a value ends exactly at a record end
	{ std::string ps=bp+std::string("\x03\x03X_Rabc",8); size_t at=bp.size()+2+3;
	  adds(v,"fcgi-odd-params-name-ends-at-record-end",beg+fcgi_rec(4,7,ps.substr(0,at),0)+fcgi_rec(4,7,ps.substr(at),0)+fcgi_rec(4,7,"",0)+fcgi_rec(5,7,"",0));
	  adds(v,"fcgi-odd-params-lengths-end-at-record-end",beg+fcgi_rec(4,7,ps.substr(0,bp.size()+2),3)+fcgi_rec(4,7,ps.substr(bp.size()+2),5)+fcgi_rec(4,7,"",0)+fcgi_rec(5,7,"",0)); }
}

static std::string sev_json(sev const &e)
{
	switch(e.kind) {
	case 'H': return "{\"e\":\"Handler\"}";
	case 'S': return "{\"e\":\"Setup\"}";
	case 'E': return "{\"e\":\"OnError\"}";
	case 'P': return "{\"e\":\"Prepare\"}";
	case 'C': return vt::J().s("e","Complete").i("ec",e.val).str();
	}
	return "";
}


// what the peer saw at the end of one connection
struct outcome { std::string kind,head; reply rp; int nrep,pstatus,gotvalues; outcome() : nrep(0),pstatus(0),gotvalues(0) {} };
static outcome collect(int proto,int cfd,char end,int want,int &opens)
{
	outcome o; bool endreq=false;
	if(end=='r' || end=='c') {
		if(end=='r') { linger lg; lg.l_onoff=1; lg.l_linger=0; setsockopt(cfd,SOL_SOCKET,SO_LINGER,&lg,sizeof(lg)); }
		close(cfd); o.kind="reset-by-peer";
		return o;
	}
	if(end=='h') shutdown(cfd,SHUT_WR);
	rawreply rr=read_reply(cfd,opens>=8?1.0:(end=='w'?10.0:6.0),[&](std::string const &d)->bool {
		if(end!='w') return false;                 // wait for the close
		if(proto==HTTP) { size_t at=0; for(int i=0;i<want;i++) { reply t; if(!parse_http(d,at,false,t)) return false; } return true; }
		if(proto==FCGI) { size_t at=0; for(int i=0;i<want;i++) { reply t; if(!parse_fcgi(d,at,t)) return false; } return true; }
		return false;
	});
	o.head=rr.data.substr(0,96);
	reply &rp=o.rp; int &nrep=o.nrep;
	if(proto==HTTP) { size_t at=0; while(at<rr.data.size()) { reply t; if(!parse_http(rr.data,at,rr.end!='t',t)) { if(!t.framed_ok) rp.framed_ok=false; break; } rp=t; nrep++; } if(nrep==0 && !rr.data.empty()) rp.framed_ok=false; }
	else if(proto==SCGI) { if(!rr.data.empty()) { if(parse_cgi(rr.data,true,rp)) nrep=1; else rp.framed_ok=false; } }
	else {
		size_t at=0;
		// END_REQUEST bodies carry the protocol status
		std::string const &d=rr.data; size_t p=0;
		while(d.size()>=p+8) { unsigned char const *h=(unsigned char const *)d.data()+p; size_t cl=(h[4]<<8)|h[5],pl=h[6]; if(d.size()<p+8+cl+pl) break;
			if(h[1]==3) { endreq=true; if(cl==8) o.pstatus=(unsigned char)d[p+8+4]; } p+=8+cl+pl; }
		if(p!=d.size()) rp.framed_ok=false;
		while(at<rr.data.size()) { reply t; if(!parse_fcgi(rr.data,at,t,&o.gotvalues)) { if(!t.framed_ok) rp.framed_ok=false; break; } bool fo=rp.framed_ok && t.framed_ok; if(t.complete) { rp=t; nrep++; } rp.framed_ok=fo; }
	}
	if(rr.end=='t') opens++;
	if(rr.end=='t' && end!='w') o.kind="open";
	else if(rr.end=='t' && nrep<want) o.kind="open";
	else if(nrep>0) o.kind="status";
	else if(endreq) o.kind="end";
	else if(rr.end=='r') o.kind="reset";
	else o.kind="closed";
	close(cfd);
	return o;
}
static void emit_reply(outcome const &o)
{
	emit(vt::J().s("e","Reply").s("kind",o.kind).i("status",o.rp.status).i("nrep",o.nrep).i("pstatus",o.pstatus).b("frame",o.rp.framed_ok).i("values",o.gotvalues).bytes("head",o.head).str());
}
// the well-formed probe on a fresh connection that follows every case
static void probe(server &S,int proto,long idx)
{
	bool broken=false;
	absreq pr=R(20000+idx,"GET","/sync","/probe",("n="+dec(idx)).c_str()); H(pr,"X-Probe",dec(idx));
	std::string w = proto==HTTP ? http_encode(pr,http_opt()) : proto==SCGI ? scgi_encode(pr,0) : fcgi_encode(pr,fcgi_opt());
	int pc=-1,ps=-1; S.connect(proto,pc,ps);
	send_cut(pc,ps,w,std::vector<int>(),50,broken); close(ps);
	rawreply rr=read_reply(pc,10.0,[&](std::string const &d)->bool { size_t at=0; reply t; return proto==HTTP?parse_http(d,at,false,t):proto==FCGI?parse_fcgi(d,at,t):false; });
	reply t; size_t at=0; bool got = proto==HTTP?parse_http(rr.data,at,rr.end=='e',t):proto==SCGI?parse_cgi(rr.data,rr.end=='e',t):(parse_fcgi(rr.data,at,t)&&t.complete);
	close(pc);
	obs o; if(got) parse_obs(t.body,o);
	std::string pj=jreq(pr,proto,1,0,"probe");
	pj.replace(pj.find("\"Req\""),5,"\"Probe\"");
	pj.erase(pj.size()-1); pj+=",\"o\":"+jobs(got?t.status:0,o)+"}";
	emit(pj);
	S.barrier(3);
	std::vector<sev> late=ev_take();   // the probe accounts for one handler call (and one prepare/complete pair)
	{ int h=0,e=0,c=0; for(size_t i=0;i<late.size();i++) { if(late[i].kind=='H') h++; if(late[i].kind=='E'||late[i].kind=='S') e++; if(late[i].kind=='C') c++; }
	  if(h>1 || e>0 || c>1) emit(vt::J().s("e","Late").i("handler",h-1).i("onerror",e).i("complete",c-1).str()); }
}

// ---------------------------------------------------------------- busy-loop batches
// Several connections become ready while the loop thread is busy, and are reset / half-closed / closed by the peer
//   batch 1: while the loop is still busy (the poll that follows already sees the end of the connection)
//   batch 2: between the poll that reported them readable and the run of their read handlers
//   batch 3: from a second client thread racing with the loop (0-2 ms delays)
// The loop is held by functors posted to the service (no hook): A blocks until the client has sent everything and has
// posted B; run_one() then polls (A was the only queued handler when the iteration began), queues the read handlers
// BEHIND B, and B blocks until the client has ended the connections.
struct gate {
	std::mutex m; std::condition_variable cv; bool started,go;
	gate() : started(false),go(false) {}
	void hold(int ms) { std::unique_lock<std::mutex> l(m); started=true; cv.notify_all(); cv.wait_for(l,std::chrono::milliseconds(ms),[this]{ return go; }); }
	bool wait_started(int ms) { std::unique_lock<std::mutex> l(m); return cv.wait_for(l,std::chrono::milliseconds(ms),[this]{ return started; }); }
	void release() { std::lock_guard<std::mutex> l(m); go=true; cv.notify_all(); }
};
struct member { std::string bytes,what; char end; int cfd,sdup; bool complete; outcome oc; };

static void run_batch(server &S,int proto,long idx,c02case const &cs,bool hooks,uint64_t seed,int &opens)
{
	vt::rng r(seed*7919+idx*13+proto);
	// ---- what each connection sends and how it ends
	std::vector<member> ms(cs.bsize);
	for(int i=0;i<cs.bsize;i++) {
		member &m=ms[i];
		int kind = i==0 ? 0 : r(7);
		absreq q = kind==2||kind==5 ? R(9200+i,"POST",i%2?"/async":"/sync","/b",0) : kind==6 ? R(9200+i,"POST","/filt","/b",0) : R(9200+i,"GET",i%2?"/async":"/sync","/b","x=1");
		if(q.method=="POST") B(q,"text/plain","0123456789abcdef");
		H(q,"X-B",dec(i+1));
		std::string w = proto==HTTP ? http_encode(q,http_opt()) : proto==SCGI ? scgi_encode(q,0) : fcgi_encode(q,fcgi_opt());
		size_t hdr_end = q.body.empty()? w.size() : (proto==FCGI ? w.size()-8-8-q.body.size() : w.size()-q.body.size());
		m.complete=true; m.what = q.method=="POST" ? "complete POST" : "complete GET";
		if(kind==3) { size_t at = r(2) ? 1+r(w.size()-1) : (proto==HTTP ? w.find("\r\n")+2 : std::min<size_t>(w.size()-1,16)); w=w.substr(0,at); m.complete=false; m.what="request cut at "+dec(at); }
		if(kind==4) { w=w.substr(0,w.size()-1); m.complete=false; m.what="request without its last byte"; }
		if(kind==5 || kind==6) { size_t at=std::min(w.size()-1,hdr_end+(proto==FCGI?8:0)+4); w=w.substr(0,at); m.complete=false; m.what=std::string(kind==6?"filter app: ":"")+"request and part of the body"; }
		m.bytes=w;
		m.end = i==0 ? 'r' : "rrhc"[r(4)];
		m.cfd=m.sdup=-1;
	}
	// the batch as a whole is announced first: if the service dies the Died line lands here
	emit("{\"e\":\"Reset\"}");
	emit_flush(vt::J().s("e","Conn").i("idx",idx).s("proto",proto_name[proto]).s("cls",cs.cls).s("label","any").i("nreq",cs.bsize)
		.s("end","b").a("cuts",std::vector<int>()).b("hooks",hooks).i("len",0).b("hasbytes",false).i("batch",cs.batch).i("members",cs.bsize).str());
	// ---- connections accepted and armed, loop idle
	for(size_t i=0;i<ms.size();i++) if(!S.connect(proto,ms[i].cfd,ms[i].sdup)) return;
	S.barrier(2);
	gate A,B; gate *pa=&A,*pb=&B;
	S.srv->post([pa]{ pa->hold(3000); });
	A.wait_started(5000);
	for(size_t i=0;i<ms.size();i++) { bool br; send_cut(ms[i].cfd,-1,ms[i].bytes,std::vector<int>(),0,br); }
	for(size_t i=0;i<ms.size();i++) for(int k=0;k<200 && unread(ms[i].sdup)<(int)ms[i].bytes.size();k++) usleep(100);   // the bytes are in the served sockets
	struct ender { static void end(member &m) {
		if(m.end=='h') { shutdown(m.cfd,SHUT_WR); return; }
		if(m.end=='r') { linger lg; lg.l_onoff=1; lg.l_linger=0; setsockopt(m.cfd,SOL_SOCKET,SO_LINGER,&lg,sizeof(lg)); }
		close(m.cfd); m.cfd=-1;
	} };
	if(cs.batch==1) {
		for(size_t i=0;i<ms.size();i++) ender::end(ms[i]);
		usleep(1000);
		A.release();
	}
	else if(cs.batch==2) {
		S.srv->post([pb]{ pb->hold(3000); });
		A.release();                       // A returns, poll reports the connections readable, their handlers queue up behind B
		B.wait_started(5000);
		usleep(500);
		for(size_t i=0;i<ms.size();i++) ender::end(ms[i]);
		usleep(1000);                      // RST / FIN have reached the served sockets (loopback, unix: synchronous)
		B.release();
	}
	else {
		std::vector<int> delay(ms.size()); for(size_t i=0;i<ms.size();i++) delay[i]=r(2000);
		std::vector<member> *pm=&ms; std::vector<int> *pd=&delay;
		std::thread t([pm,pd]{ for(size_t i=0;i<pm->size();i++) { usleep((*pd)[i]); ender::end((*pm)[i]); } });
		usleep(r(1500));
		A.release();
		t.join();
	}
	for(size_t i=0;i<ms.size();i++) { close(ms[i].sdup); ms[i].sdup=-1; }
	// ---- what the peers see
	for(size_t i=0;i<ms.size();i++) {
		member &m=ms[i];
		if(m.cfd<0) { m.oc.kind="reset-by-peer"; continue; }
		m.oc=collect(proto,m.cfd,'x',1,opens);            // already half-closed: wait for the close
	}
	S.barrier(6);
	std::vector<sev> evs=ev_take();
	// ---- attribute the server-side events: application events by the X-B marker, completion events by connection
	std::vector<long> conns;
	std::vector<std::vector<sev> > per(ms.size());
	for(size_t i=0;i<evs.size();i++) {
		sev const &e=evs[i]; long mi=-1;
		if(e.kind=='P' || e.kind=='C') {
			size_t k=0; while(k<conns.size() && conns[k]!=e.tag) k++;
			if(k==conns.size()) conns.push_back(e.tag);
			mi=k;
		}
		else if(e.kind=='H' || e.kind=='S' || e.kind=='E') mi=e.tag-1;
		else continue;
		if(mi<0 || mi>=(long)ms.size()) mi=ms.size()-1;     // not attributable: judged (and most likely rejected) with the last one
		per[mi].push_back(e);
	}
	for(size_t i=0;i<ms.size();i++) {
		member &m=ms[i];
		std::string marker="MARK-s3cr3t-"+dec(idx)+"-"+std::string(40,'m');
		if(cs.seen) {   // a connection whose request carries a recognisable marker has just been served and freed
			absreq pq=R(9300,"GET","/sync","/mark","m=1"); H(pq,"X-Mark",marker);
			std::string w = proto==HTTP ? http_encode(pq,http_opt()) : proto==SCGI ? scgi_encode(pq,0) : fcgi_encode(pq,fcgi_opt());
			int c=-1,sd=-1; bool br;
			if(S.connect(proto,c,sd)) { send_cut(c,sd,w,std::vector<int>(),50,br); close(sd);
				read_reply(c,5,[&](std::string const &d)->bool { size_t at=0; reply t; return proto==HTTP?parse_http(d,at,false,t):proto==FCGI?parse_fcgi(d,at,t):false; });
				close(c); }
			S.barrier(3); ev_take();
		}
		emit("{\"e\":\"Reset\"}");
		vt::J j; j.s("e","Conn").i("idx",idx).s("proto",proto_name[proto]).s("cls",cs.cls).s("label","any").i("nreq",1)
			.s("end",std::string(1,m.end)).a("cuts",std::vector<int>()).b("hooks",hooks).i("len",m.bytes.size()).i("member",i).s("what",m.what);
		j.b("hasbytes",true).bytes("bytes",m.bytes);
		emit(j.str());
		for(size_t k=0;k<per[i].size();k++) { std::string s=sev_json(per[i][k]); if(!s.empty()) emit(s); }
		emit_reply(m.oc);
	}
	probe(S,proto,idx);
}

static int c02_main(server &S,char const *pname,long from,long count,bool quick,uint64_t seed)
{
	int proto = !strcmp(pname,"http") ? HTTP : !strcmp(pname,"scgi") ? SCGI : FCGI;
	std::vector<c02case> cases;
	if(proto==HTTP) http_cases(cases,quick,seed); else if(proto==SCGI) scgi_cases(cases,quick,seed); else fcgi_cases(cases,quick,seed);
	{   // busy-loop batches
		static char const *bn[]={"","busy-loop-ended-before-poll","busy-loop-ended-between-poll-and-handler","busy-loop-racing-reset"};
		int sizes[]={2,3,5,8,1,4,6,7}; int ns=quick?4:8, rep=quick?2:6;
		for(int b=1;b<=3;b++) for(int k=0;k<ns;k++) for(int x=0;x<rep;x++) {
			c02case c; c.cls=std::string(proto_name[proto])+"-"+bn[b]; c.label="any"; c.batch=b; c.bsize=sizes[k]; c.nreq=sizes[k]; cases.push_back(c);
		}
	}
	if(count<0) { printf("%zu\n",cases.size()); return 0; }
	booster::verif::open(getenv("VERIF_HOOK_OUT") ? getenv("VERIF_HOOK_OUT") : "/dev/null");     // hook events reach the listener only while tracing is on
	S.start();
	// does this build carry the completion hooks?  one valid request tells
	{
		absreq r=base_get(); std::string w = proto==HTTP ? http_encode(r,http_opt()) : proto==SCGI ? scgi_encode(r,0) : fcgi_encode(r,fcgi_opt());
		int c=-1,sd=-1; S.connect(proto,c,sd); bool br; send_cut(c,sd,w,std::vector<int>(),50,br); close(sd);
		read_reply(c,5,[&](std::string const &d)->bool { size_t at=0; reply rr; return proto==HTTP?parse_http(d,at,false,rr):proto==FCGI?parse_fcgi(d,at,rr):false; });
		close(c); S.barrier(); ev_take();
	}
	bool hooks=hooks_seen;
	long to=std::min<long>(cases.size(),from+count);
	int opens=0;      // connections the front-end left unanswered: after a few of them stop waiting long
	for(long idx=from;idx<to;idx++) {
		c02case const &cs=cases[idx];
		if(cs.batch) { run_batch(S,proto,idx,cs,hooks,seed,opens); fflush(tr.f); continue; }
		vt::rng r(seed*1000003+idx*3+proto);
		std::set<int> cutset; int nc=r(4);
		for(int i=0;i<nc && cs.bytes.size()>1;i++) cutset.insert(1+r(cs.bytes.size()-1));
		std::vector<int> cuts(cutset.begin(),cutset.end());
		if(cs.fixed_cuts) cuts=cs.cuts;
		int nreq=cs.nreq;
		if(cs.label=="any") {          // upper bound on the requests these bytes can legitimately contain
			if(proto==HTTP) { std::string lo=lower(cs.bytes); size_t p=0; while((p=lo.find("keep-alive",p))!=std::string::npos) { nreq++; p++; } }
			if(proto==FCGI) { for(size_t p=0;p+1<cs.bytes.size();p++) if(cs.bytes[p]==1 && cs.bytes[p+1]==1) nreq++; }
		}
		std::string marker="MARK-s3cr3t-"+dec(idx)+"-"+std::string(40,'m');
		if(cs.seen) {   // a connection whose request carries a recognisable marker has just been served and freed
			absreq pq=R(9300,"GET","/sync","/mark","m=1"); H(pq,"X-Mark",marker);
			std::string w = proto==HTTP ? http_encode(pq,http_opt()) : proto==SCGI ? scgi_encode(pq,0) : fcgi_encode(pq,fcgi_opt());
			int c=-1,sd=-1; bool br;
			if(S.connect(proto,c,sd)) { send_cut(c,sd,w,std::vector<int>(),50,br); close(sd);
				read_reply(c,5,[&](std::string const &d)->bool { size_t at=0; reply t; return proto==HTTP?parse_http(d,at,false,t):proto==FCGI?parse_fcgi(d,at,t):false; });
				close(c); }
			S.barrier(3); ev_take();
		}
		emit("{\"e\":\"Reset\"}");
		vt::J j; j.s("e","Conn").i("idx",idx).s("proto",proto_name[proto]).s("cls",cs.cls).s("label",cs.label).i("nreq",nreq)
			.s("end",std::string(1,cs.end)).a("cuts",cuts).b("hooks",hooks).i("len",cs.bytes.size());
		bool logbytes = cs.bytes.size()<=1500;
		j.b("hasbytes",logbytes);
		if(logbytes) j.bytes("bytes",cs.bytes);
		emit_flush(j.str());
		// ---- the offending connection
		int cfd=-1,sdup=-1;
		if(!S.connect(proto,cfd,sdup)) return 3;
		bool broken=false;
		if(cs.guard && !cuts.empty()) {
			// everything but the last segment first: the request is not complete, so nothing may be served yet
			size_t lastcut=cuts.back();
			send_cut(cfd,sdup,cs.bytes.substr(0,lastcut),std::vector<int>(cuts.begin(),cuts.end()-1),15,broken);
			if(!broken) wait_consumed(sdup,50);
			S.barrier(4);
			bool early=false;
			{ std::lock_guard<std::mutex> g(ev_mx); for(size_t i=0;i<ev_log.size();i++) if(ev_log[i].kind=='H') early=true; }
			char pk[8192]; ssize_t pn=recv(cfd,pk,sizeof(pk),MSG_PEEK|MSG_DONTWAIT);
			if(pn>0) { std::string d(pk,pn); size_t at=0; reply t;
				bool got = proto==HTTP?parse_http(d,at,false,t):proto==FCGI?(parse_fcgi(d,at,t)&&t.complete):false;
				if(got && t.status<400) early=true; }
			if(early) emit(vt::J().s("e","Early").i("sent",lastcut).i("of",cs.bytes.size()).str());
			if(!broken) send_cut(cfd,sdup,cs.bytes.substr(lastcut),std::vector<int>(),15,broken);
		}
		else send_cut(cfd,sdup,cs.bytes,cuts,15,broken);
		if(!broken) wait_consumed(sdup,20);
		close(sdup);
		outcome oc=collect(proto,cfd,cs.end,cs.nreq,opens);
		S.barrier(6);
		std::vector<sev> evs=ev_take();
		for(size_t i=0;i<evs.size();i++) { std::string s=sev_json(evs[i]); if(!s.empty()) emit(s); }
		if(cs.seen && oc.kind=="status" && oc.rp.status==200) {
			obs o; parse_obs(oc.rp.body,o);
			emit(vt::J().s("e","Seen").s("proto",proto_name[proto]).b("ok",o.ok).raw("env",jkvs(o.env)).raw("marker",jbytes(marker)).raw("sent",jbytes(cs.bytes)).str());
		}
		emit_reply(oc);
		probe(S,proto,idx);
		fflush(tr.f);
	}
	emit_flush("{\"e\":\"Reset\"}");
	printf("{\"cases\":%zu,\"hooks\":%s}\n",cases.size(),hooks?"true":"false");
	tr.close();
	S.stop();
	return 0;
}

} // inp
#endif
