// Abstract request, the three wire encoders and the catalogue of base requests (C01/C02).
#ifndef VERIF_INPUT_REQ_H
#define VERIF_INPUT_REQ_H
#include "string_map.h"
#include "input/net.h"
#include <algorithm>

namespace inp {

struct absreq {
	std::string method,script,path,query,ver,ct,body;
	bool hasq,hasct,hascl;
	std::vector<kv> hdrs;      // HTTP header names ("X-Foo") and values (no leading/trailing blanks)
	std::vector<kv> extra;     // server-side CGI variables (what a web server adds; what the embedded server derives)
	int id;
	absreq() : method("GET"),ver("HTTP/1.0"),hasq(false),hasct(false),hascl(false),id(0) {}
};

static std::string dec(long long n) { char b[32]; snprintf(b,sizeof(b),"%lld",n); return b; }

static std::string canon(std::string n)
{
	for(size_t i=0;i<n.size();i++) { if(n[i]=='-') n[i]='_'; else if(n[i]>='a'&&n[i]<='z') n[i]-=32; }
	return n;
}

// the CGI variables a gateway sends for this request (SCGI / FastCGI)
static std::vector<kv> cgi_vars(absreq const &r)
{
	std::vector<kv> v; kv x;
	if(r.hascl) { x.k="CONTENT_LENGTH"; x.v=dec(r.body.size()); v.push_back(x); }
	x.k="REQUEST_METHOD"; x.v=r.method; v.push_back(x);
	if(!r.script.empty()) { x.k="SCRIPT_NAME"; x.v=r.script; v.push_back(x); }
	x.k="PATH_INFO"; x.v=r.path; v.push_back(x);
	if(r.hasq) { x.k="QUERY_STRING"; x.v=r.query; v.push_back(x); }
	x.k="SERVER_PROTOCOL"; x.v=r.ver; v.push_back(x);
	if(r.hasct) { x.k="CONTENT_TYPE"; x.v=r.ct; v.push_back(x); }
	for(size_t i=0;i<r.hdrs.size();i++) { x.k="HTTP_"+canon(r.hdrs[i].k); x.v=r.hdrs[i].v; v.push_back(x); }
	for(size_t i=0;i<r.extra.size();i++) v.push_back(r.extra[i]);
	return v;
}

static std::string jreq(absreq const &r,int proto,int chain_i,std::string const *wire,std::string const &variant)
{
	vt::J j; j.s("e","Req").s("proto",proto_name[proto]).i("id",r.id).i("i",chain_i).s("var",variant);
	j.raw("m",jbytes(r.method)).raw("script",jbytes(r.script)).raw("path",jbytes(r.path)).b("hasq",r.hasq).raw("q",jbytes(r.query));
	j.raw("ver",jbytes(r.ver)).raw("hdrs",jkvs(r.hdrs)).b("hasct",r.hasct).raw("ct",jbytes(r.ct)).b("hascl",r.hascl);
	j.raw("body",jbytes(r.body)).raw("extra",jkvs(r.extra));
	j.b("haswire",wire!=0);
	if(wire) j.raw("wire",jbytes(*wire));
	return j.str();
}

// ---------------------------------------------------------------- HTTP
struct http_opt { int name_case; int colon; bool fold; int pct; bool ct_first; http_opt() : name_case(0),colon(0),fold(false),pct(0),ct_first(false) {} };

static bool unreserved(unsigned char c) { return (c>='a'&&c<='z')||(c>='A'&&c<='Z')||(c>='0'&&c<='9')||c=='-'||c=='.'||c=='_'||c=='~'||c=='/'; }
static std::string pct_path(std::string const &p,int mode)
{
	std::string o; char b[8];
	for(size_t i=0;i<p.size();i++) {
		unsigned char c=p[i];
		bool enc=!unreserved(c);
		if(mode==1 && c!='/' && (i%2)==1) enc=true;       // gratuitous escapes of safe characters
		if(mode==2 && c!='/') enc=true;
		if(enc) { snprintf(b,sizeof(b),(mode==1)?"%%%02x":"%%%02X",c); o+=b; } else o+=(char)c;
	}
	return o;
}
static std::string name_case(std::string n,int mode)
{
	for(size_t i=0;i<n.size();i++) {
		if(mode==1 && n[i]>='A'&&n[i]<='Z') n[i]+=32;
		if(mode==2 && n[i]>='a'&&n[i]<='z') n[i]-=32;
	}
	return n;
}
static std::string http_hdr(std::string const &n,std::string const &v,http_opt const &o)
{
	static const char *col[]={": ",":"," :\t ",":  "};
	std::string val=v;
	if(o.fold) {
		// fold at blanks that are outside quoted strings / comments (elsewhere CR LF would be data)
		std::string f; int q=0,par=0; bool esc=false;
		for(size_t i=0;i<val.size();i++) {
			char c=val[i];
			if(esc) { esc=false; f+=c; continue; }
			if(q) { if(c=='\\') esc=true; else if(c=='"') q=0; f+=c; continue; }
			if(par) { if(c=='\\') esc=true; else if(c==')') par=0; f+=c; continue; }
			if(c=='"') q=1; else if(c=='(') par=1;
			if((c==' '||c=='\t') && i>0 && i+1<val.size()) f+="\r\n";
			f+=c;
		}
		val=f;
	}
	return name_case(n,o.name_case)+col[o.colon&3]+val+"\r\n";
}
static std::string http_encode(absreq const &r,http_opt const &o)
{
	std::string w=r.method+" "+r.script+pct_path(r.path,o.pct);
	if(r.hasq) w+="?"+r.query;
	w+=" "+r.ver+"\r\n";
	std::string ctl;
	if(r.hasct) ctl+=http_hdr("Content-Type",r.ct,o);
	if(r.hascl) ctl+=http_hdr("Content-Length",dec(r.body.size()),o);
	if(o.ct_first) w+=ctl;
	for(size_t i=0;i<r.hdrs.size();i++) w+=http_hdr(r.hdrs[i].k,r.hdrs[i].v,o);
	if(!o.ct_first) w+=ctl;
	w+="\r\n";
	w+=r.body;
	return w;
}

// ---------------------------------------------------------------- SCGI
static std::string scgi_encode_vars(std::vector<kv> const &v,std::string const &body)
{
	std::string c;
	for(size_t i=0;i<v.size();i++) { c+=v[i].k; c+='\0'; c+=v[i].v; c+='\0'; }
	return dec(c.size())+":"+c+","+body;
}
static std::string scgi_encode(absreq const &r,int order)
{
	std::vector<kv> v=cgi_vars(r);
	if(order==1) std::reverse(v.begin(),v.end());
	if(order==2 && v.size()>2) std::rotate(v.begin(),v.begin()+v.size()/2,v.end());
	return scgi_encode_vars(v,r.body);
}

// ---------------------------------------------------------------- FastCGI
static std::string fcgi_rec(int type,int rid,std::string const &content,int pad,int version=1)
{
	std::string o; size_t cl=content.size();
	o+=(char)version; o+=(char)type; o+=(char)(rid>>8); o+=(char)(rid&255);
	o+=(char)(cl>>8); o+=(char)(cl&255); o+=(char)pad; o+=(char)0;
	o+=content; o.append(pad,(char)(0xA5));          // padding deliberately non-zero: it must be skipped, not interpreted
	return o;
}
static void fcgi_len(std::string &o,size_t n,bool four)
{
	if(n<128 && !four) o+=(char)n;
	else { o+=(char)(0x80|((n>>24)&0x7f)); o+=(char)((n>>16)&255); o+=(char)((n>>8)&255); o+=(char)(n&255); }
}
static std::string fcgi_pairs(std::vector<kv> const &v,int four_mode)
{
	std::string o;
	for(size_t i=0;i<v.size();i++) {
		fcgi_len(o,v[i].k.size(),four_mode==2 || (four_mode==1 && i%2==0));
		fcgi_len(o,v[i].v.size(),four_mode==2 || (four_mode==1 && i%3==0));
		o+=v[i].k; o+=v[i].v;
	}
	return o;
}
struct fcgi_opt {
	int rid; int four_mode; int flags;
	std::vector<int> pcuts,scuts;      // split points inside the PARAMS / STDIN streams
	std::vector<int> pads;             // padding of the successive records (cyclic)
	fcgi_opt() : rid(1),four_mode(0),flags(0) {}
};
static std::string fcgi_begin(int rid,int role,int flags,int pad=0)
{
	std::string b; b+=(char)(role>>8); b+=(char)(role&255); b+=(char)flags; b.append(5,(char)0);
	return fcgi_rec(1,rid,b,pad);
}
static void fcgi_stream(std::string &w,int type,int rid,std::string const &s,std::vector<int> const &cuts,fcgi_opt const &o,size_t &nrec)
{
	size_t pos=0;
	for(size_t i=0;i<=cuts.size();i++) {
		size_t end=i<cuts.size()?(size_t)cuts[i]:s.size();
		if(end>s.size()) end=s.size();
		while(end>pos) {                      // records carry at most 65535 bytes
			size_t n=std::min(end-pos,(size_t)65535);
			w+=fcgi_rec(type,rid,s.substr(pos,n),o.pads.empty()?0:o.pads[nrec%o.pads.size()]); nrec++;
			pos+=n;
		}
	}
	w+=fcgi_rec(type,rid,"",o.pads.empty()?0:o.pads[nrec%o.pads.size()]); nrec++;
}
static std::string fcgi_encode(absreq const &r,fcgi_opt const &o)
{
	size_t nrec=0;
	std::string w=fcgi_begin(o.rid,1,o.flags,o.pads.empty()?0:o.pads[0]); nrec++;
	fcgi_stream(w,4,o.rid,fcgi_pairs(cgi_vars(r),o.four_mode),o.pcuts,o,nrec);
	fcgi_stream(w,5,o.rid,r.body,o.scuts,o,nrec);
	return w;
}

// ---------------------------------------------------------------- catalogue
static kv mk(std::string const &k,std::string const &v) { kv x; x.k=k; x.v=v; return x; }

static std::vector<kv> server_vars()
{
	std::vector<kv> e;
	e.push_back(mk("GATEWAY_INTERFACE","CGI/1.0"));
	e.push_back(mk("REMOTE_ADDR","127.0.0.1"));
	e.push_back(mk("REMOTE_HOST","127.0.0.1"));
	e.push_back(mk("SERVER_NAME","127.0.0.1"));
	e.push_back(mk("SERVER_PORT","0"));
	e.push_back(mk("SERVER_SOFTWARE",CPPCMS_PACKAGE_NAME "/" CPPCMS_PACKAGE_VERSION));
	return e;
}

static absreq R(int id,char const *m,char const *script,std::string const &path,char const *q,char const *ver="HTTP/1.0")
{
	absreq r; r.id=id; r.method=m; r.script=script; r.path=path; r.ver=ver;
	if(q) { r.hasq=true; r.query=q; }
	r.extra=server_vars();
	return r;
}
static absreq &H(absreq &r,char const *n,std::string const &v) { r.hdrs.push_back(mk(n,v)); return r; }
static absreq &B(absreq &r,char const *ct,std::string const &body) { if(ct) { r.hasct=true; r.ct=ct; } r.hascl=true; r.body=body; return r; }

static const char FORM[]="application/x-www-form-urlencoded";

// ~40 short requests: every distinction the parsers make occurs in at least one of them
static std::vector<absreq> catalogue()
{
	std::vector<absreq> c; int id=0;
	#define NEW(...) c.push_back(R(++id,__VA_ARGS__))
	#define L c.back()
	NEW("GET","/sync","",0);
	NEW("GET","/async","",0);
	NEW("GET","","/",0);
	NEW("GET","/sync","/a",0); H(L,"X-A","1");
	NEW("GET","/sync","/a/b.c","a=1");
	NEW("GET","/async","/x","a=1&b=2","HTTP/1.1"); H(L,"Host","h.example:80");
	NEW("GET","/sync","/p q","n=%41+b&c="); H(L,"Accept","text/html, */*;q=0.8");
	NEW("GET","/sync","/a+b%c","");
	NEW("GET","/sync","/\xc3\xbc/?","k=v&k=w&j=%26%3D");
	NEW("GET","","/other/path","x=1"); H(L,"X-Empty","");
	NEW("GET","/sync","/c",0); H(L,"Cookie","a=1");
	NEW("GET","/async","/c",0); H(L,"Cookie","sid=abc123; theme=\"dark mode\"; t=x");
	NEW("GET","/sync","/ua",0); H(L,"User-Agent","Mozilla/5.0 (X11; Linux x86_64) Gecko (like \\) this)"); H(L,"X-B","2");
	NEW("GET","/sync","/qs",0); H(L,"X-Quoted","\"a, b\\\"c\" tail"); H(L,"If-None-Match","W/\"e-1\"");
	NEW("GET","/sync","/fold",0); H(L,"X-Long","one two\tthree  four"); H(L,"X-C","c: d:e");
	NEW("GET","/sync","/hi",0); H(L,"X-Bin","caf\xc3\xa9 \xff\x80");
	NEW("POST","/sync","","",  "HTTP/1.0"); B(L,FORM,"a=1");
	NEW("POST","/async","/f",0); B(L,FORM,"foo=bar&1=2");
	NEW("POST","/sync","/f","g=1"); B(L,"application/x-www-form-urlencoded; charset=utf-8","a=%20x+y&b=&a=2");
	NEW("POST","/sync","/raw",0); B(L,"text/plain","a=1&b=2");
	NEW("POST","/async","/bin",0); B(L,"application/octet-stream",std::string("\0\r\n\r\n\xff,:\0x",10));
	NEW("POST","/sync","/noct",0); B(L,0,"xyz");
	NEW("POST","/sync","/empty",0); B(L,FORM,"");
	NEW("PUT","/sync","/put",0); B(L,"application/json","{\"k\":[1,2]}"); H(L,"X-A","1");
	NEW("DELETE","/async","/d/1","force=1","HTTP/1.1");
	NEW("POST","/sync","/crlf",0); B(L,"text/plain","\r\n\r\nGET / HTTP/1.0\r\n\r\n");
	NEW("POST","/async","/lenlike",0); B(L,"text/plain","12:abc,");
	NEW("GET","/sync","/manyh",0); H(L,"A","1"); H(L,"B","2"); H(L,"C","3"); H(L,"D","4"); H(L,"E-F-G","5");
	NEW("GET","/async","/", "");
	NEW("GET","/sync","/%41","a=b");                                        // literal percent sign in the path
	NEW("POST","/sync","/f2",0); B(L,FORM,"k=%41%42&l=+&m=%e2%82%ac"); H(L,"Cookie","x=y");
	NEW("GET","/sync","/tab",0); H(L,"X-T","a\tb");
	NEW("OPTIONS","/sync","/o",0);
	NEW("GET","/sync","/sync","");                                           // path repeats the script name
	NEW("GET","/async","/long/" + std::string(60,'p'),0);
	NEW("POST","/sync","/b200",0); B(L,"text/plain",std::string(200,'z'));
	NEW("POST","/async","/f200",0); { std::string b; for(int i=0;i<20;i++) { if(i) b+="&"; b+="k"+dec(i)+"=v%3d"+dec(i*7); } B(L,FORM,b); }
	NEW("GET","/sync","/v128",0); H(L,"X-V",std::string(130,'v'));            // value longer than 127: 4-byte length in FastCGI
	NEW("GET","/sync","/q2","a=1&b=2&c=3&d=4&e=5&f=6");
	NEW("GET","/async","/ck2",0); H(L,"Cookie","a=\"q;uoted\"; b=2");
	{
		// header names whose CGI variables fall into the LAST slot of the 64- and the 128-entry table of string_map
		// (open addressing, linear probing): all but the first are stored by wrapping around to slot 0, 1, ...
		NEW("GET","/sync","/wrap","w=1");
		int found=0;
		for(char a='A';a<='Z' && found<4;a++) for(char b='A';b<='Z' && found<4;b++) {
			std::string env=std::string("HTTP_X_W_")+a+b;
			if(cppcms::impl::string_map::entry::calc_hash(env.c_str())%128==127) {
				std::string n=std::string("X-W-")+a+b;
				H(L,n.c_str(),std::string("w")+a+b); found++;
			}
		}
	}
	#undef NEW
	#undef L
	return c;
}

} // inp
#endif
