// G07 driver: random insert / find / erase / clear / rehash on the real cppcms::impl::hash_map (private/hash_map.h)
// with the identity hash (collisions come from the modulus), every call recorded with its result and the iteration
// order afterwards.  usage: hashmap_drv <keys> <ops> <rounds> <profile>   profile: mix | grow | churn | rehash
#include "common/vtrace.h"
#include "hash_map.h"
#include <vector>
struct ident_hash { size_t operator()(int k) const { return size_t(k); } };
typedef cppcms::impl::hash_map<int,int,ident_hash> map_type;
static std::vector<int> order(map_type &m)
{
	std::vector<int> r;
	for(map_type::iterator p=m.begin();p!=m.end();++p) { r.push_back(p->first); if(r.size()>100000) break; }
	return r;
}
int main(int argc,char **argv)
{
	if(argc<5) return 2;
	int keys=atoi(argv[1]),nops=atoi(argv[2]),rounds=atoi(argv[3]); std::string prof=argv[4];
	vt::out tr; tr.open(); setvbuf(tr.f,0,_IOLBF,1<<16); // line buffered: a crash must not take the trace with it
	vt::rng R(vt::envl("VERIF_SEED",1)*131+keys*7+prof.size());
	for(int r=0;r<rounds;r++) {
		map_type *m=new map_type();
		tr.line(vt::J().s("e","Reset").str());
		int pins=45,pfind=25,perase=22,pclear=3,preh=5;
		if(prof=="grow")   { pins=70; pfind=15; perase=10; pclear=1; preh=4; }
		if(prof=="churn")  { pins=40; pfind=10; perase=45; pclear=4; preh=1; }
		if(prof=="rehash") { pins=40; pfind=15; perase=20; pclear=5; preh=20; }
		for(int n=0;n<nops;n++) {
			int c=R(pins+pfind+perase+pclear+preh);
			if(c<pins) {
				int k=R(keys),v=R(1000);
				std::pair<map_type::iterator,bool> x=m->insert(std::make_pair(k,v));
				tr.line(vt::J().s("e","Ins").i("k",k).i("v",v).b("ok",x.second).i("cur",x.first->second).a("ord",order(*m)).str());
			}
			else if(c<pins+pfind) {
				int k=R(keys);
				map_type::iterator p=m->find(k);
				bool f = p!=m->end();
				tr.line(vt::J().s("e","Find").i("k",k).b("found",f).i("v",f?p->second:0).str());
			}
			else if(c<pins+pfind+perase) {
				// the iterator comes from a lookup or from walking the list (first / last / middle node)
				std::vector<int> o=order(*m);
				if(o.empty()) continue;
				int k; unsigned how=R(4);
				if(how==0) k=o.front(); else if(how==1) k=o.back(); else k=o[R(o.size())];
				map_type::iterator p=m->find(k);
				if(p==m->end()) { tr.line(vt::J().s("e","Find").i("k",k).b("found",false).i("v",0).str()); continue; }
				map_type::iterator nx=m->erase(p);
				tr.line(vt::J().s("e","Erase").i("k",k).i("next",nx==m->end()?-1:nx->first).a("ord",order(*m)).str());
			}
			else if(c<pins+pfind+perase+pclear) {
				m->clear();
				tr.line(vt::J().s("e","Clear").a("ord",order(*m)).str());
			}
			else {
				int nn=1+R(R(3)==0 ? 2*keys : 5);
				m->rehash(nn);
				tr.line(vt::J().s("e","Rehash").i("n",nn).a("ord",order(*m)).str());
			}
		}
		delete m;
	}
	tr.close();
	return 0;
}
