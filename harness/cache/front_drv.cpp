// C07 (second sentence) driver: cache_interface with nested triggers_recorder objects, frames and
// pages, over a network-free http::context (tests/dummy_api.h seam).  After every store the back-end
// entry is inspected directly (base_cache::fetch) and its trigger set logged.
// usage: front_drv <requests> <ops-per-request> <names>
#include "common/vtrace.h"
#include "common/fakeclock.h"
#include <cppcms/service.h>
#include <cppcms/json.h>
#include <cppcms/cache_interface.h>
#include <cppcms/cache_pool.h>
#include <cppcms/http_context.h>
#include <cppcms/http_response.h>
#include "base_cache.h"
#include "dummy_api.h"
#include <iostream>

static vt::out tr;
static int names=3;
static long vcounter=0;
static std::string nm(int i) { char b[32]; snprintf(b,sizeof(b),"n%d",i); return b; }
static std::string sjson(std::set<std::string> const &s)
{
	std::string r="["; for(std::set<std::string>::const_iterator p=s.begin();p!=s.end();++p) { if(r.size()>1) r+=","; r+="\""+*p+"\""; } return r+"]";
}
static std::string mkval(long id) { char b[40]; snprintf(b,sizeof(b),"<V%ld>",id); return b; }
static long unval(std::string const &s) { size_t p=s.find("<V"); if(p==std::string::npos) return -1; return atol(s.c_str()+p+2); }

int main(int argc,char **argv)
{
	if(argc<4) return 2;
	int requests=atoi(argv[1]),nops=atoi(argv[2]); names=atoi(argv[3]);
	tr.open();
	cppcms::json::value cfg;
	cfg["cache"]["backend"]="thread_shared";
	cfg["cache"]["limit"]=100000;
	cfg["gzip"]["enable"]=false;
	cppcms::service srv(cfg);
	booster::intrusive_ptr<cppcms::impl::base_cache> backend=srv.cache_pool().get();
	vt::rng R(vt::envl("VERIF_SEED",1)*7+names);
	tr.line(vt::J().s("e","Reset").i("names",names).str());
	for(int rq=0;rq<requests;rq++) {
		if(rq%40==39) { backend->clear(); tr.line(vt::J().s("e","Reset").i("names",names).str()); }
		std::map<std::string,std::string> env;
		env["HTTP_HOST"]="www.example.com"; env["SCRIPT_NAME"]="/foo"; env["PATH_INFO"]="/bar"; env["REQUEST_METHOD"]="GET";
		std::string output;
		booster::shared_ptr<dummy_api> api(new dummy_api(srv,env,output));
		booster::shared_ptr<cppcms::http::context> ctx(new cppcms::http::context(api));
		ctx->response().io_mode(cppcms::http::response::normal);
		cppcms::cache_interface &c=ctx->cache();
		tr.line(vt::J().s("e","NewReq").str());
		std::vector<std::pair<int,cppcms::triggers_recorder *> > recs;
		int nextrec=1;
		bool page_mode = R(3)==0;
		std::string pkey=nm(1+R(names));
		bool page_pending=false;
		if(page_mode) {
			// dependencies recorded BEFORE the page is looked up (e.g. in an init() hook) belong to the page too
			int pre=R(3);
			for(int n=0;n<pre;n++) {
				std::string k=nm(1+R(names));
				if(R(2)) { c.add_trigger(k); tr.line(vt::J().s("e","AddTrig").s("t",k).str()); }
				else {
					std::string v; bool hit=c.fetch_frame(k,v,false);
					vt::J j; j.s("e","FFetch").s("k",k).b("notrig",false).b("hit",hit); if(hit) j.i("v",unval(v));
					tr.line(j.str());
				}
			}
			bool hit=c.fetch_page(pkey);
			vt::J j; j.s("e","FetchPage").s("key",pkey).b("hit",hit);
			if(hit) { ctx->response().finalize(); j.i("v",unval(output)); }
			tr.line(j.str());
			if(hit) continue;
			page_pending=true;
		}
		for(int n=0;n<nops;n++) {
			unsigned op=R(100);
			std::string k=nm(1+R(names));
			if(op<12) { c.add_trigger(k); tr.line(vt::J().s("e","AddTrig").s("t",k).str()); }
			else if(op<40) {
				bool notrig=R(4)==0; std::string v;
				bool hit=c.fetch_frame(k,v,notrig);
				vt::J j; j.s("e","FFetch").s("k",k).b("notrig",notrig).b("hit",hit); if(hit) j.i("v",unval(v));
				tr.line(j.str());
			}
			else if(op<60) {
				bool notrig=R(4)==0; std::set<std::string> ts; int cnt=R(3); for(int i=0;i<cnt;i++) ts.insert(nm(1+R(names)));
				long id=++vcounter;
				c.store_frame(k,mkval(id),ts,-1,notrig);
				std::string dummy; std::set<std::string> sts; backend->fetch(k,&dummy,&sts);
				tr.line(vt::J().s("e","FStore").s("k",k).i("v",id).raw("ts",sjson(ts)).b("notrig",notrig).raw("sts",sjson(sts)).str());
			}
			else if(op<72) {
				if(recs.size()<2) {
					int r=nextrec++; recs.push_back(std::make_pair(r,new cppcms::triggers_recorder(c)));
					tr.line(vt::J().s("e","Open").i("r",r).str());
				}
			}
			else if(op<86) {
				if(!recs.empty()) {
					// any open recorder may be detached, not only the innermost
					size_t i=R(recs.size());
					std::set<std::string> got=recs[i].second->detach();
					delete recs[i].second; int r=recs[i].first; recs.erase(recs.begin()+i);
					long id=++vcounter;
					c.store_frame(k,mkval(id),got,-1,false);
					std::string dummy; std::set<std::string> sts; backend->fetch(k,&dummy,&sts);
					tr.line(vt::J().s("e","DetachStore").i("r",r).s("k",k).i("v",id).raw("set",sjson(got)).raw("sts",sjson(sts)).str());
				}
			}
			else if(op<96) { c.rise(k); tr.line(vt::J().s("e","Rise").s("t",k).str()); }
			else {
				if(!recs.empty() && R(2)) { // recorder destroyed without detach
					size_t i=R(recs.size()); int r=recs[i].first; delete recs[i].second; recs.erase(recs.begin()+i);
					tr.line(vt::J().s("e","Drop").i("r",r).str());
				}
			}
		}
		for(size_t i=0;i<recs.size();i++) { tr.line(vt::J().s("e","Drop").i("r",recs[i].first).str()); delete recs[i].second; }
		if(page_pending) {
			long id=++vcounter;
			ctx->response().out() << mkval(id);
			c.store_page(pkey,-1);
			std::string dummy; std::set<std::string> pts; bool has=backend->fetch("_U:"+pkey,&dummy,&pts);
			tr.line(vt::J().s("e","StorePage").s("key",pkey).i("v",id).b("has",has).i("bv",unval(dummy)).raw("pts",sjson(pts)).str());
		}
	}
	tr.close();
	return 0;
}
