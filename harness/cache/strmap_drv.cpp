// G07 driver, second table: the real cppcms::impl::string_map (private/string_map.h) - distinct names, some chosen with
// the code's own calc_hash to collide in the LAST slots of the 64/128/256-entry tables (the probe has to wrap around).
// usage: strmap_drv <names> <rounds> <profile>    profile: wrap | random | mixed
#include "common/vtrace.h"
#include "string_map.h"
#include <vector>
#include <map>
typedef cppcms::impl::string_map smap;
// the slot is decided by the last two characters of a name: number + two letters derived from it
static std::string name_of(int k) { char b[40]; snprintf(b,sizeof(b),"HTTP_X_%d%c%c",k,'A'+k%26,'A'+(k/26)%26); return b; }
static unsigned hash_of(std::string const &n) { return smap::entry::calc_hash(n.c_str()); }
int main(int argc,char **argv)
{
	if(argc<4) return 2;
	int names=atoi(argv[1]),rounds=atoi(argv[2]); std::string prof=argv[3];
	vt::out tr; tr.open(); setvbuf(tr.f,0,_IOLBF,1<<16);
	vt::rng R(vt::envl("VERIF_SEED",1)*977+names+prof.size());
	// candidate numbers whose names fall into the last 1..3 slots of a 256-entry table (hence of the 128- and 64-entry ones)
	std::vector<int> tail;
	for(int k=0;k<200000 && tail.size()<400;k++) { unsigned h=hash_of(name_of(k)); if(h%256>=253) tail.push_back(k); }
	for(int r=0;r<rounds;r++) {
		smap m; cppcms::impl::string_pool pool;
		tr.line(vt::J().s("e","Reset").str());
		std::map<int,bool> used; std::vector<int> added;
		for(int n=0;n<names;n++) {
			int k;
			bool wrap = prof=="wrap" || (prof=="mixed" && R(2)==0);
			do { k = wrap && !tail.empty() ? tail[R(tail.size())] : (int)R(1000000); } while(used.count(k));
			used[k]=true; added.push_back(k);
			std::string nm=name_of(k); char b[32]; snprintf(b,sizeof(b),"%d",k);
			m.add(pool.add(nm),pool.add(b));
			tr.line(vt::J().s("e","Add").i("k",k).i("h",hash_of(nm)%65536).str());
			// look up: everything added so far every now and then, the new name, a name never added
			int todo = (n%8==7 || n+1==names) ? (int)added.size() : 2;
			for(int i=0;i<todo;i++) {
				int q = todo==2 ? (i==0 ? k : added[R(added.size())]) : added[i];
				std::string qn=name_of(q); char const *v=m.get(qn.c_str());
				tr.line(vt::J().s("e","Get").i("k",q).i("h",hash_of(qn)%65536).b("found",v!=0).i("val",v?atoi(v):-1).str());
			}
			int miss; do { miss = R(3)==0 && !tail.empty() ? tail[R(tail.size())] : (int)R(1000000); } while(used.count(miss));
			{ std::string qn=name_of(miss); char const *v=m.get(qn.c_str());
			  tr.line(vt::J().s("e","Get").i("k",miss).i("h",hash_of(qn)%65536).b("found",v!=0).i("val",v?atoi(v):-1).str()); }
			if(n%16==15 || n+1==names) {
				std::vector<int> ord;
				for(smap::iterator p=m.begin(),e=m.end();p!=e && ord.size()<100000;++p) ord.push_back(atoi((*p).key+7));
				tr.line(vt::J().s("e","Iter").a("ord",ord).str());
			}
		}
		if(R(2)==0) { m.clear(); pool.clear(); tr.line(vt::J().s("e","Clear").str()); used.clear(); added.clear();
			int k=R(1000000); std::string nm=name_of(k); char b[32]; snprintf(b,sizeof(b),"%d",k); m.add(pool.add(nm),pool.add(b));
			tr.line(vt::J().s("e","Add").i("k",k).i("h",hash_of(nm)%65536).str());
			char const *v=m.get(nm.c_str()); tr.line(vt::J().s("e","Get").i("k",k).i("h",hash_of(nm)%65536).b("found",v!=0).i("val",v?atoi(v):-1).str()); }
	}
	tr.close();
	return 0;
}
