// C09 driver: N threads hammer one thread-shared cache; the hooks in cache_storage.cpp
// (guard CPPCMS_VERIF) emit Lock/Unlock/Lin events inside the critical sections, this
// harness emits Inv/Ret around every public call through the same emitter (one global
// sequence counter).  usage: conc_drv <threads> <ops-per-thread> <limit> <names> <rounds>
#include "common/vtrace.h"
#include "common/fakeclock.h"
#include <booster/verif_trace.h>
#include "base_cache.h"
#include "cache_storage.h"
#include <booster/thread.h>
#include <booster/function.h>
#include <vector>
#include <atomic>
#include <unistd.h>

using namespace cppcms::impl;
namespace bv = booster::verif;

static booster::intrusive_ptr<base_cache> cache;
static int names=4;
#include <sys/mman.h>
#include <sys/wait.h>
#include <signal.h>
#include <sys/prctl.h>
// counters live in shared memory so that forked processes (mode "proc") share them
struct shared_counters { std::atomic<long> vcounter, progress; std::atomic<unsigned long long> seq; };
static shared_counters *sh = new(mmap(0,sizeof(shared_counters),PROT_READ|PROT_WRITE,MAP_SHARED|MAP_ANONYMOUS,-1,0)) shared_counters();
#define vcounter (sh->vcounter)
#define progress (sh->progress)

// VERIF_COLLIDE=1: key / trigger names that all have the same hash value (ELF hash of hash_map.h), so they share a
// bucket chain whatever the table size is
static bool collide = getenv("VERIF_COLLIDE")!=0;
static std::string nm(int i)
{
	static char const *same_hash[]={"aq","ba","cQ","dA","e1"};
	if(collide && i>=1 && i<=5) return same_hash[i-1];
	char b[32]; snprintf(b,sizeof(b),"n%d",i); return b;
}
static std::string mkval(long id)
{
	// every 8-byte word of the value encodes the id: a torn copy is visible
	char w[16]; snprintf(w,sizeof(w),"%07ld;",id%10000000);
	std::string r; int words = 8 + (id%61)*8;
	for(int i=0;i<words;i++) r+=w;
	return r;
}
static long unval(std::string const &s)
{
	if(s.size()<8 || s.size()%8) return -1;
	long id=atol(s.substr(0,7).c_str());
	for(size_t i=0;i<s.size();i+=8) if(s.compare(i,8,s,0,8)!=0) return -1;
	if(mkval(id)!=s) return -1;
	return id;
}
static std::string tsjson(std::set<std::string> const &ts)
{
	std::string r="[";
	for(std::set<std::string>::const_iterator p=ts.begin();p!=ts.end();++p) { if(r.size()>1) r+=","; r+="\""+*p+"\""; }
	return r+"]";
}

struct worker {
	int id,nops; unsigned seed;
	void operator()() const
	{
		vt::rng R(seed);
		// VERIF_ONEWRITER=1: "every operation completes" with writers that stop early - thread 0 issues mutating operations
		// only during the first 5% of its run, afterwards (and in all other threads) only fetch / stats are issued: readers
		// that had to wait behind the last writer must all be let through although no later writer comes by
		static bool onewriter = getenv("VERIF_ONEWRITER")!=0;
		for(int n=0;n<nops;n++) {
			unsigned c=R(100);
			if(onewriter && !(id==0 && n<nops/20+2)) c = R(10)==0 ? 97 : 35+R(45);
			std::string k=nm(1+R(names));
			if(c<35) {
				std::set<std::string> ts; int cnt=R(3); for(int i=0;i<cnt;i++) ts.insert(nm(1+R(names)));
				int dl = R(5)==0 ? -1 : 5;
				long id=++vcounter;
				bv::emit("\"e\":\"Inv\",\"op\":\"store\",\"k\":\"%s\",\"v\":%ld,\"ts\":%s,\"dl\":%d",k.c_str(),id,tsjson(ts).c_str(),dl);
				cache->store(k,mkval(id),ts,vt::clock_base+dl);
				bv::emit("\"e\":\"Ret\"");
			}
			else if(c<80) {
				std::string v; std::set<std::string> ts; time_t dl=0;
				bv::emit("\"e\":\"Inv\",\"op\":\"fetch\",\"k\":\"%s\"",k.c_str());
				bool hit=cache->fetch(k,&v,&ts,&dl,0);
				if(hit) bv::emit("\"e\":\"Ret\",\"hit\":true,\"v\":%ld,\"ts\":%s,\"dl\":%ld",unval(v),tsjson(ts).c_str(),(long)(dl-vt::clock_base));
				else bv::emit("\"e\":\"Ret\",\"hit\":false");
			}
			else if(c<88) {
				bv::emit("\"e\":\"Inv\",\"op\":\"rise\",\"k\":\"%s\"",k.c_str());
				cache->rise(k);
				bv::emit("\"e\":\"Ret\"");
			}
			else if(c<94) {
				bv::emit("\"e\":\"Inv\",\"op\":\"remove\",\"k\":\"%s\"",k.c_str());
				cache->remove(k);
				bv::emit("\"e\":\"Ret\"");
			}
			else if(c<96) {
				bv::emit("\"e\":\"Inv\",\"op\":\"clear\"");
				cache->clear();
				bv::emit("\"e\":\"Ret\"");
			}
			else {
				unsigned ks=0,ts=0;
				bv::emit("\"e\":\"Inv\",\"op\":\"stats\"");
				cache->stats(ks,ts);
				bv::emit("\"e\":\"Ret\",\"keys\":%u,\"trigs\":%u",ks,ts);
			}
			progress++;
		}
	}
};

static void *watchdog(void *)
{
	long last=-1; int idle=0;
	for(;;) {
		sleep(1);
		long p=progress.load();
		if(p==last) idle++; else idle=0;
		last=p;
		if(idle>=30) { bv::emit("\"e\":\"Stuck\",\"progress\":%ld",p); _exit(0); }
	}
	return 0;
}

int main(int argc,char **argv)
{
	if(argc<6) return 2;
	int threads=atoi(argv[1]),nops=atoi(argv[2]),limit=atoi(argv[3]); names=atoi(argv[4]); int rounds=atoi(argv[5]);
	char const *out=getenv("VERIF_OUT");
	if(!out) return 2;
	unlink(out);
	bv::open(out);
	pthread_t wd; pthread_create(&wd,0,watchdog,0);
	long seed=vt::envl("VERIF_SEED",1);
	bool proc = argc>6 && std::string(argv[6])=="proc";
	if(proc) {
		bv::st().shared_seq=&sh->seq;
		cache=process_cache_factory(4*1024*1024,limit);
		for(int r=0;r<rounds;r++) {
			vt::fake_now=vt::clock_base;
			bv::emit("\"e\":\"Reset\",\"limit\":%d,\"threads\":%d,\"backend\":\"process\"",limit,threads);
			bv::emit("\"e\":\"Inv\",\"op\":\"clear\"");
			cache->clear();          // one segment per process: the cache object is reused, emptied between rounds
			bv::emit("\"e\":\"Ret\"");
			std::vector<pid_t> kids;
			for(int i=0;i<threads;i++) {
				pid_t pid=fork();
				if(pid==0) {
					prctl(PR_SET_PDEATHSIG,SIGKILL);   // never outlive the driver (a worker can block for ever on a dead peer's lock)
					bv::st().tid_base=i+1;
					worker w; w.id=i; w.nops=nops; w.seed=seed*7919+r*131+i*17+limit;
					w();
					_exit(0);
				}
				kids.push_back(pid);
			}
			bool bad=false;
			// a worker that dies inside a critical section leaves the process-shared lock held for ever:
			// as soon as one worker ends abnormally (or nothing moves for 60 s) the others are killed
			size_t left=kids.size(); long last=-1; int idle=0;
			while(left>0) {
				int st=0; pid_t p=waitpid(-1,&st,WNOHANG);
				if(p>0) { left--; if(!WIFEXITED(st) || WEXITSTATUS(st)!=0) bad=true; }
				else {
					usleep(20000);
					long pr=progress.load(); if(pr==last) idle++; else idle=0; last=pr;
					if(idle>3000) bad=true;
				}
				if(bad && left>0) { for(size_t i=0;i<kids.size();i++) kill(kids[i],SIGKILL); while(waitpid(-1,&st,0)>0) ; left=0; }
			}
			if(bad) { bv::emit("\"e\":\"Died\",\"why\":\"worker process\""); bv::close(); return 0; }
			bv::emit("\"e\":\"End\"");
		}
		bv::close();
		return 0;
	}
	for(int r=0;r<rounds;r++) {
		cache=thread_cache_factory(limit);
		vt::fake_now=vt::clock_base;
		bv::emit("\"e\":\"Reset\",\"limit\":%d,\"threads\":%d",limit,threads);
		std::vector<booster::thread *> th;
		for(int i=0;i<threads;i++) { worker w; w.id=i; w.nops=nops; w.seed=seed*7919+r*131+i*17+limit; th.push_back(new booster::thread(w)); }
		for(int i=0;i<threads;i++) { th[i]->join(); delete th[i]; }
		bv::emit("\"e\":\"End\"");
	}
	bv::close();
	return 0;
}
