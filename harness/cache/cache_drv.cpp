// C07/C08 driver: runs operation sequences against the real cache back-ends
// (thread_cache_factory / process_cache_factory via private/base_cache.h) under a
// fake clock and logs one ND-JSON event per operation, each carrying the result
// and stats() observed right after it.
//
// usage: cache_drv rand <backend> <limit> <names> <nops> <execs>
//        cache_drv exh  <backend> <limit> <names> <depth>
//        cache_drv script <backend> <limit> <names>   (ops from stdin, one per line)
#include "common/vtrace.h"
#include "common/fakeclock.h"
#include "base_cache.h"
#include "cache_storage.h"
#include <booster/intrusive_ptr.h>
#include <iostream>
#include <vector>
#include <string>

using namespace cppcms::impl;

static vt::out tr;
static booster::intrusive_ptr<base_cache> cache;
static bool process_backend=false;
static unsigned limit=0;
static int names=3;
static long vcounter=0;

// VERIF_COLLIDE=1: every key / trigger name has the SAME hash value (string_hash of private/hash_map.h), so all of them
// live in one bucket chain of the key index and of the trigger index whatever the table size is
static std::vector<std::string> const &colliding()
{
	static std::vector<std::string> v;
	if(v.empty()) {
		char const *al="abcdefghijklmnopqrstuvwxyzABCDEFGHIJKLMNOPQRSTUVWXYZ0123456789";
		unsigned target=('m'*16u+'m')*16u+'m';
		for(char const *a=al;*a;a++) for(char const *b=al;*b;b++) for(char const *c=al;*c;c++)
			if(((unsigned)(unsigned char)*a*16u+(unsigned char)*b)*16u+(unsigned char)*c==target) v.push_back(std::string(1,*a)+*b+*c);
	}
	return v;
}
static std::string nm(int i)
{
	static bool collide = getenv("VERIF_COLLIDE")!=0;
	if(collide && i>=0 && (size_t)i<colliding().size()) return colliding()[i];
	char b[32]; snprintf(b,sizeof(b),"n%d",i); return b;
}
static int unnm(std::string const &s)
{
	if(getenv("VERIF_COLLIDE")) { for(size_t i=0;i<colliding().size();i++) if(colliding()[i]==s) return (int)i; }
	if(s.size()<2||s[0]!='n') return -1; return atoi(s.c_str()+1);
}

static std::string mkval(long id)
{
	char b[32]; snprintf(b,sizeof(b),"V%ld;",id);
	std::string r=b;
	r.append((id%7)*13,char('a'+id%26));
	if(id%11==3) r+=std::string("\0\0x",3);
	return r;
}
static long unval(std::string const &s)
{
	if(!s.empty() && s[0]=='B') { long id=atol(s.c_str()+1); for(size_t i=s.find(';')+1;i<s.size();i++) if(s[i]!=char('a'+id%26)) return -1; return id; }
	if(s.empty()||s[0]!='V') return -1;
	long id=atol(s.c_str()+1);
	return mkval(id)==s ? id : -1;
}

static void stats(vt::J &j)
{
	unsigned k=0,t=0;
	cache->stats(k,t);
	j.i("sk",k).i("st",t);
}

static void reset()
{
	vt::fake_now=vt::clock_base;
	if(process_backend) {
		if(!cache) cache=process_cache_factory(1024*1024,limit);
		cache->clear();
	}
	else {
		cache=thread_cache_factory(limit);
	}
	tr.line(vt::J().s("e","Reset").i("limit",limit).i("names",names).s("backend",process_backend?"process":"thread").str());
}

static void op_store(int k,std::vector<int> const &ts,int dl)
{
	std::set<std::string> trig;
	for(size_t i=0;i<ts.size();i++) trig.insert(nm(ts[i]));
	long id=++vcounter;
	cache->store(nm(k),mkval(id),trig,vt::clock_base+dl);
	std::set<int> tset(ts.begin(),ts.end());
	vt::J j; j.s("e","Store").i("k",k).i("v",id).a("ts",tset).i("dl",dl);
	stats(j); tr.line(j.str());
}
// store with a value of a given size (process-shared: up to beyond the segment)
static void op_bigstore(int k,int dl,size_t size,std::vector<int> const &ts=std::vector<int>())
{
	std::set<std::string> trig;
	for(size_t i=0;i<ts.size();i++) trig.insert(nm(ts[i]));
	long id=++vcounter;
	char b[32]; snprintf(b,sizeof(b),"B%ld;",id);
	std::string v=b; if(v.size()<size) v.append(size-v.size(),char('a'+id%26));
	cache->store(nm(k),v,trig,vt::clock_base+dl);
	std::set<int> tset(ts.begin(),ts.end());
	vt::J j; j.s("e","Store").i("k",k).i("v",id).a("ts",tset).i("dl",dl).i("size",(long long)size);
	stats(j); tr.line(j.str());
}
static void op_fetch(int k)
{
	std::string v; std::set<std::string> trig; time_t dl=0; uint64_t gen=0;
	trig.insert("sentinel"); // fetch must only *add* to the set: documented behaviour (cache_interface relies on it)
	bool hit=cache->fetch(nm(k),&v,&trig,&dl,&gen);
	vt::J j; j.s("e","Fetch").i("k",k).b("hit",hit);
	if(hit) {
		std::set<int> ts; bool bad=false;
		for(std::set<std::string>::iterator p=trig.begin();p!=trig.end();++p) {
			if(*p=="sentinel") continue;
			int t=unnm(*p); if(t<0) bad=true; ts.insert(t);
		}
		j.i("v",unval(v)).a("ts",ts).i("dl",(long long)(dl-vt::clock_base)).b("bad",bad);
	}
	stats(j); tr.line(j.str());
}
static void op_rise(int t) { cache->rise(nm(t)); vt::J j; j.s("e","Rise").i("t",t); stats(j); tr.line(j.str()); }
static void op_remove(int k) { cache->remove(nm(k)); vt::J j; j.s("e","Remove").i("k",k); stats(j); tr.line(j.str()); }
static void op_clear() { cache->clear(); vt::J j; j.s("e","Clear"); stats(j); tr.line(j.str()); }
static void op_tick(int d) { vt::fake_now+=d; vt::J j; j.s("e","Tick").i("d",d); stats(j); tr.line(j.str()); }

// ---- exhaustive alphabet -------------------------------------------------------
struct op { int kind,a,b,c; }; // kind: 0 store(k=a,tsmask=b,dl=c) 1 fetch 2 rise 3 remove 4 clear 5 tick
static std::vector<op> alphabet;
static void build_alphabet(int trigs)
{
	for(int k=1;k<=names;k++) for(int m=0;m<(1<<trigs);m++) for(int dl=0;dl<=2;dl+=1) { op o={0,k,m,dl}; alphabet.push_back(o); }
	for(int k=1;k<=names;k++) { op o={1,k,0,0}; alphabet.push_back(o); }
	for(int k=1;k<=names;k++) { op o={2,k,0,0}; alphabet.push_back(o); }
	for(int k=1;k<=names;k++) { op o={3,k,0,0}; alphabet.push_back(o); }
	{ op o={4,0,0,0}; alphabet.push_back(o); }
	{ op o={5,1,0,0}; alphabet.push_back(o); }
}
static void apply(op const &o,int trigs)
{
	switch(o.kind) {
	case 0: { std::vector<int> ts; for(int i=0;i<trigs;i++) if(o.b&(1<<i)) ts.push_back(names-i); op_store(o.a,ts,o.c); } break;
	case 1: op_fetch(o.a); break;
	case 2: op_rise(o.a); break;
	case 3: op_remove(o.a); break;
	case 4: op_clear(); break;
	case 5: op_tick(o.a); break;
	}
}

int main(int argc,char **argv)
{
	if(argc<5) { fprintf(stderr,"usage\n"); return 2; }
	std::string mode=argv[1];
	process_backend = std::string(argv[2])=="process";
	limit=atoi(argv[3]);
	names=atoi(argv[4]);
	tr.open();
	vt::rng R(vt::envl("VERIF_SEED",1)*1000003u + limit*101 + names*7 + (process_backend?1:0));
	if(mode=="exh") {
		int depth=atoi(argv[5]);
		int trigs= argc>6 ? atoi(argv[6]) : 2;
		build_alphabet(trigs);
		std::vector<size_t> idx(depth,0);
		size_t A=alphabet.size();
		// optional sharding: VERIF_SHARD=i/n on the first symbol
		long sh_i=0,sh_n=1; if(getenv("VERIF_SHARD")) sscanf(getenv("VERIF_SHARD"),"%ld/%ld",&sh_i,&sh_n);
		for(;;) {
			if((long)(idx[0]%sh_n)==sh_i) {
				reset();
				for(int d=0;d<depth;d++) apply(alphabet[idx[d]],trigs);
				op_fetch(1+ (int)(idx[0]%names)); // final observation
			}
			int d=depth-1;
			while(d>=0 && ++idx[d]==A) { idx[d]=0; d--; }
			if(d<0) break;
		}
	}
	else if(mode=="rand") {
		int nops=atoi(argv[5]);
		int execs=atoi(argv[6]);
		for(int e=0;e<execs;e++) {
			reset();
			int ntr = 1 + R(names); // triggers drawn from the top `ntr` names
			if(e==0) { // fixed prelude (also the anchor of the binding self-test): hit, rise of the key itself, miss
				std::vector<int> none; op_store(1,none,1000); op_fetch(1); op_rise(1); op_fetch(1);
			}
			for(int n=0;n<nops;n++) {
				unsigned c=R(100);
				int now=(int)(vt::fake_now-vt::clock_base);
				if(c<38) {
					std::vector<int> ts; int cnt=R(4); for(int i=0;i<cnt;i++) ts.push_back(names-R(ntr));
					int dl = now + (int)R(6) - 1;   // -1 .. +4 relative to now
					if(R(20)==0) dl = now + 1000;
					op_store(1+R(names),ts,dl);
				}
				else if(c<70) op_fetch(1+R(names));
				else if(c<80) op_rise(1+R(names));
				else if(c<87) op_remove(1+R(names));
				else if(c<89) op_clear();
				else op_tick(1+R(2));
			}
		}
	}
	else if(mode=="bigrand") {
		// process-shared cache under MEMORY pressure: values up to <maxsize> bytes in a 1 MiB segment, so that a store
		// evicts several entries, is dropped, or clears the cache; usage: cache_drv bigrand process <limit> <names> <nops> <execs> <maxsize>
		int nops=atoi(argv[5]); int execs=atoi(argv[6]); long maxsize=atol(argv[7]);
		process_backend=true;
		for(int e=0;e<execs;e++) {
			reset();
			tr.line(vt::J().s("e","Pressure").i("mem",1024*1024).str());       // from here on the named shared-memory deviations are legal
			for(int n=0;n<nops;n++) {
				unsigned c=R(100);
				int now=(int)(vt::fake_now-vt::clock_base);
				if(c<45) {
					std::vector<int> ts; int cnt=R(3); for(int i=0;i<cnt;i++) ts.push_back(1+R(names));
					int dl = now + (int)R(6) - 1; if(R(10)==0) dl = now + 1000;
					long size = R(5)==0 ? R(200) : (R(8)==0 ? maxsize*3 : R(maxsize));
					op_bigstore(1+R(names),dl,size,ts);
				}
				else if(c<75) op_fetch(1+R(names));
				else if(c<82) op_rise(1+R(names));
				else if(c<88) op_remove(1+R(names));
				else if(c<89) op_clear();
				else op_tick(1+R(2));
			}
		}
	}
	else if(mode=="refill") {
		// process-shared cache: fill beyond capacity, clear, refill - the number of entries that fit must not shrink
		// usage: cache_drv refill process <limit> <names(ignored)> <cycles> <value-size>
		int cycles=atoi(argv[5]); int vsize=atoi(argv[6]);
		process_backend=true; reset();
		for(int c=0;c<cycles;c++) {
			int stored=0;
			for(int i=0;i<3000;i++) {
				char key[32]; snprintf(key,sizeof(key),"key%d_%d",c%3,i);
				std::string v(vsize + (i%7)*16, char('a'+i%26));
				std::set<std::string> trig; trig.insert(nm(i%5));
				cache->store(key,v,trig,vt::clock_base+100);
				stored++;
			}
			unsigned k=0,t=0; cache->stats(k,t);
			// how many of the most recent keys are really retrievable
			int found=0;
			for(int i=0;i<3000;i++) { char key[32]; snprintf(key,sizeof(key),"key%d_%d",c%3,i); std::string v; if(cache->fetch(key,&v,0,0,0)) { found++; if(v.size()!=size_t(vsize+(i%7)*16)) found=-100000; } }
			tr.line(vt::J().s("e","Fill").i("cycle",c).i("stored",stored).i("keys",k).i("trigs",t).i("found",found).str());
			if(c%2==0) cache->clear(); else { for(int i=0;i<5;i++) cache->rise(nm(i)); }
			cache->stats(k,t);
			tr.line(vt::J().s("e","Emptied").i("keys",k).i("trigs",t).str());
		}
	}
	else if(mode=="stream") {
		// a long stream of DISTINCT keys through a small cache without any clear(): memory of evicted entries (value, key,
		// index nodes, trigger slots) must be released, so the cache always holds exactly <limit> live entries
		// usage: cache_drv stream process|thread <limit> <names(ignored)> <count> <value-size>
		int count=atoi(argv[5]); int vsize=atoi(argv[6]);
		process_backend = std::string(argv[2])=="process"; reset();
		long minkeys=1<<30, badtrigs=0; std::vector<int> recent_trigs;   // stats() after EVERY store: a leak shows as short dips
		for(int i=1;i<=count;i++) {
			char key[64]; snprintf(key,sizeof(key),"a-rather-long-key-name-%08d",i);
			std::set<std::string> trig; if(i%3==0) { char tn[64]; snprintf(tn,sizeof(tn),"a-rather-long-trigger-%08d",i); trig.insert(tn); }
			cache->store(key,std::string(vsize+(i%5),char('a'+i%26)),trig,vt::clock_base+1000);
			{
				unsigned k=0,t=0; cache->stats(k,t);
				if(i>=limit) {
					if((long)k<minkeys) minkeys=k;
					int extra=0; for(int j=i;j>i-limit && j>0;j--) if(j%3==0) extra++;
					if((int)t!=limit+extra) badtrigs++;
				}
			}
			if(i%500==0 || i==count) {
				unsigned k=0,t=0; cache->stats(k,t);
				int hits=0, extra=0;
				for(int j=(i-limit+1>1?i-limit+1:1);j<=i;j++) {    // oldest first: the recency order stays the store order
					char kk[64]; snprintf(kk,sizeof(kk),"a-rather-long-key-name-%08d",j); std::string v;
					if(cache->fetch(kk,&v,0,0,0)) hits++;
					if(j%3==0) extra++;
				}
				tr.line(vt::J().s("e","Stream").i("i",i).i("limit",limit).i("keys",k).i("trigs",t).i("hits",hits).i("want_trigs",limit+extra).i("minkeys",minkeys==(1<<30)?limit:minkeys).i("badtrigs",badtrigs).str());
				minkeys=1<<30; badtrigs=0;
			}
		}
	}
	else if(mode=="script") {
		reset();
		std::string w;
		while(std::cin>>w) {
			if(w=="store") { int k,n,dl; std::cin>>k>>dl>>n; std::vector<int> ts(n); for(int i=0;i<n;i++) std::cin>>ts[i]; op_store(k,ts,dl); }
			else if(w=="pressure") { tr.line(vt::J().s("e","Pressure").i("mem",1024*1024).str()); }
			else if(w=="bigstore") { int k,dl; long size; std::cin>>k>>dl>>size; op_bigstore(k,dl,size); }
			else if(w=="fetch") { int k; std::cin>>k; op_fetch(k); }
			else if(w=="rise") { int k; std::cin>>k; op_rise(k); }
			else if(w=="remove") { int k; std::cin>>k; op_remove(k); }
			else if(w=="clear") op_clear();
			else if(w=="tick") { int d; std::cin>>d; op_tick(d); }
			else if(w=="reset") reset();
		}
	}
	tr.close();
	return 0;
}
