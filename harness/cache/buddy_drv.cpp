// C08 (memory release) driver: random malloc/free on the real buddy_allocator; offsets relative to the arena.
// usage: buddy_drv <usable-size> <ops> <rounds>
#include "common/vtrace.h"
#include "buddy_allocator.h"
#include <vector>
#include <new>
using cppcms::impl::buddy_allocator;
int main(int argc,char **argv)
{
	if(argc<4) return 2;
	size_t usable=atol(argv[1]); int nops=atoi(argv[2]),rounds=atoi(argv[3]);
	vt::out tr; tr.open();
	vt::rng R(vt::envl("VERIF_SEED",1)*31+usable);
	size_t total=usable+sizeof(buddy_allocator);
	for(int r=0;r<rounds;r++) {
		void *mem=0; if(posix_memalign(&mem,64,total)) return 3;
		buddy_allocator *b=new(mem) buddy_allocator(total);
		char *base=static_cast<char *>(mem)+sizeof(buddy_allocator);
		tr.line(vt::J().s("e","Reset").i("size",usable).str());
		tr.line(vt::J().s("e","Stat").i("total",b->total_free_memory()).str());
		std::vector<void *> live;
		for(int n=0;n<nops;n++) {
			unsigned c=R(100);
			if(c<55 || live.empty()) {
				size_t req = R(4)==0 ? R(usable) : R(usable/8+1);
				if(req==0) req=1; // malloc(0) asks for a 16-byte page, smaller than the page header: see DESIGN.md (allocator-level finding, not reachable from the cache)
				void *p=b->malloc(req);
				vt::J j; j.s("e","Alloc").i("req",req).b("ok",p!=0);
				if(p) { j.i("off",(static_cast<char *>(p)-buddy_allocator::alignment)-base); memset(p,0x5A + (n&1),req); live.push_back(p); }
				tr.line(j.str());
			}
			else {
				size_t i=R(live.size());
				tr.line(vt::J().s("e","Free").i("off",(static_cast<char *>(live[i])-buddy_allocator::alignment)-base).str());
				b->free(live[i]); live.erase(live.begin()+i);
			}
			if(R(25)==0) tr.line(vt::J().s("e","Stat").i("total",b->total_free_memory()).str());
		}
		while(!live.empty()) {
			tr.line(vt::J().s("e","Free").i("off",(static_cast<char *>(live.back())-buddy_allocator::alignment)-base).str());
			b->free(live.back()); live.pop_back();
		}
		tr.line(vt::J().s("e","Stat").i("total",b->total_free_memory()).str());
		// refill: the largest initial request must succeed again
		free(mem);
	}
	tr.close();
	return 0;
}
