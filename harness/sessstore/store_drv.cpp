// G03 driver: the three session_storage back-ends of cppcms driven through the public interface
// (save / load / remove / factory gc_job) under the fake clock, sequentially with a white-box view of
// what the back-end holds after every call (seq), and from 2..8 threads with Inv/Ret events stamped by
// one global atomic sequence (conc).
//
//   store_drv seq  <backend[,backend..]> <random-rounds> <ops-per-round> [scenario-filter]
//   store_drv conc <backend> <threads> <ops-per-thread-and-phase> <sids> <rounds>
//
// back-ends:  mem        session_memory_storage (the class is local to src/session_memory_storage.cpp: that file
//                        is compiled into this executable from the tree under test, members made reachable)
//             file       session_file_storage, pthread mutexes only        fileflock   + fcntl locks
//             tcpmem     tcp_storage -> in-process tcp_cache_service -> memory storage      tcpmem2  two servers
//             tcpfile    tcp_storage -> tcp_cache_service -> file storage (+ the server's gc thread)
//
// Trace (ND-JSON, VERIF_OUT): sids are 1..16 (32-hex-digit strings on the wire), data is identified by a value
// id v (0 = empty string), deadlines and the clock are relative to the round's base.
#include "common/vtrace.h"
#include "common/fakeclock.h"

#include <cppcms/defs.h>
#include <cppcms/config.h>
#include <cppcms/session_storage.h>
#include <cppcms/cppcms_error.h>
#include "session_memory_storage.h"
#include "hash_map.h"
#include <booster/thread.h>
#include <booster/shared_ptr.h>
#include <time.h>
#include <map>
#include <set>
#include <vector>
#include <string>
#include <memory>
#include <atomic>
#include <algorithm>
#include <functional>

// session_memory_storage is defined in the .cpp only and keeps map_/timeout_/mutex_ in the implicit private
// section of a `class': every header it needs is already included (guards), so the macro touches that file alone.
#define class struct
#include "src/session_memory_storage.cpp"
#undef class

#include "session_posix_file_storage.h"
#include "session_tcp_storage.h"
#include "tcp_cache_server.h"
#include "crc32.h"

#include <sys/types.h>
#include <sys/stat.h>
#include <sys/socket.h>
#include <netinet/in.h>
#include <dirent.h>
#include <fcntl.h>
#include <unistd.h>
#include <ctype.h>
#include <errno.h>
#include <sched.h>
#include <signal.h>
#include <exception>

using namespace cppcms::sessions;
using cppcms::impl::tcp_cache_service;

static const int MAXSID=16;
static std::string sidname[MAXSID+1];
static std::map<std::string,int> sidindex;

static void init_sids()
{
	for(int i=1;i<=MAXSID;i++) {
		char b[64];
		unsigned h=i*2654435761u;
		// first four hex digits = lock slot selector of the file storage (mod concurrency hint 3): collisions and non-collisions
		snprintf(b,sizeof(b),"%04x%08x%08x%08x%04x",(unsigned)(i*7)&0xffff,h,h*31+7,h*131+i,(unsigned)(i*257)&0xffff);
		sidname[i]=b;
		sidindex[b]=i;
	}
}

// ---- values ------------------------------------------------------------------------------
static std::string mkval(long id)
{
	if(id<=0) return std::string();
	char w[16]; snprintf(w,sizeof(w),"%07ld;",id%10000000);
	std::string r=w;
	size_t len = (id%17==0) ? 70000 : (size_t)((id*131)%300);
	r.reserve(8+len);
	for(size_t i=0;i<len;i++) r+=char((id*31+i*7)&0xff);
	return r;
}
static long unval(std::string const &s)
{
	if(s.empty()) return 0;
	if(s.size()<8) return -1;
	long id=atol(s.substr(0,7).c_str());
	if(id<=0 || mkval(id)!=s) return -1;
	return id;
}

// ---- world ---------------------------------------------------------------------------------
static int free_port()
{
	int fd=socket(AF_INET,SOCK_STREAM,0);
	sockaddr_in a; memset(&a,0,sizeof(a));
	a.sin_family=AF_INET; a.sin_addr.s_addr=htonl(INADDR_LOOPBACK); a.sin_port=0;
	if(bind(fd,(sockaddr*)&a,sizeof(a))<0) { perror("bind"); exit(3); }
	socklen_t l=sizeof(a);
	getsockname(fd,(sockaddr*)&a,&l);
	int p=ntohs(a.sin_port);
	close(fd);
	return p;
}

static int world_counter=0;

struct world {
	std::string be;
	bool is_mem,is_file,is_tcp,bggc;
	booster::shared_ptr<session_storage_factory> fac;      // what the application holds
	booster::shared_ptr<session_storage> st;
	std::vector<booster::shared_ptr<session_memory_storage_factory> > memfacs;   // direct or server side
	booster::shared_ptr<session_file_storage_factory> filefac;                    // direct or server side
	std::string dir;
	std::vector<tcp_cache_service *> svcs;
	int place[MAXSID+1];            // sid -> memory server that owns it (probe phase), 0 when there is one store
	std::string place_json() const { std::ostringstream o; o<<'['; for(int i=1;i<=MAXSID;i++) { if(i>1) o<<','; o<<place[i]; } o<<']'; return o.str(); }

	world(std::string const &b,int gc_timeout=3600) : be(b), is_mem(false), is_file(false), is_tcp(false), bggc(false)
	{
		is_tcp = be.compare(0,3,"tcp")==0;
		is_mem = be=="mem" || be=="tcpmem" || be=="tcpmem2";
		is_file = !is_mem;
		int ns = be=="tcpmem2" ? 2 : 1;
		if(is_mem) {
			for(int i=0;i<ns;i++) memfacs.push_back(booster::shared_ptr<session_memory_storage_factory>(new session_memory_storage_factory()));
		}
		else {
			char const *wk=getenv("VERIF_WORK");
			if(!wk) { fprintf(stderr,"VERIF_WORK not set\n"); exit(2); }
			char b2[64]; snprintf(b2,sizeof(b2),"/g03-%d-%d",(int)getpid(),++world_counter);
			dir=std::string(wk)+b2;
			filefac.reset(new session_file_storage_factory(dir,3,1,be=="fileflock"));
		}
		if(!is_tcp) {
			if(is_mem) fac=memfacs[0]; else fac=filefac;
		}
		else {
			std::vector<std::string> ips; std::vector<int> ports;
			for(int i=0;i<ns;i++) {
				booster::shared_ptr<session_storage_factory> sf;
				if(is_mem) sf=memfacs[i]; else sf=filefac;
				for(int attempt=0;;attempt++) {
					int p=free_port();
					try {
						svcs.push_back(new tcp_cache_service(booster::intrusive_ptr<cppcms::impl::base_cache>(),sf,2,"127.0.0.1",p,gc_timeout));
						ips.push_back("127.0.0.1"); ports.push_back(p);
						break;
					}
					catch(std::exception const &e) {
						if(attempt>20) { fprintf(stderr,"cannot start server: %s\n",e.what()); exit(3); }
					}
				}
			}
			bggc = is_file;       // the server's garbage_collector thread may run at any time
			fac.reset(new tcp_factory(ips,ports));
		}
		st=fac->get();
		for(int i=0;i<=MAXSID;i++) place[i]=0;
		if(memfacs.size()>1) {
			// probe: which server does the client's connector hash send each sid to?  (stored, located, removed again)
			for(int i=1;i<=MAXSID;i++) {
				st->save(sidname[i],time(0)+1000,"p");
				for(size_t f=0;f<memfacs.size();f++) {
					session_memory_storage *ms=static_cast<session_memory_storage *>(memfacs[f]->get().get());
					booster::unique_lock<booster::shared_mutex> g(ms->mutex_);
					if(ms->map_.find(sidname[i])!=ms->map_.end()) place[i]=f;
				}
				st->remove(sidname[i]);
			}
		}
	}
	~world()
	{
		st.reset(); fac.reset();
		for(size_t i=0;i<svcs.size();i++) delete svcs[i];
		svcs.clear();
		memfacs.clear();
		filefac.reset();
		if(!dir.empty()) {
			DIR *d=opendir(dir.c_str());
			if(d) { struct dirent *e; while((e=readdir(d))) { if(e->d_name[0]!='.') unlink((dir+"/"+e->d_name).c_str()); } closedir(d); }
			rmdir(dir.c_str());
		}
	}
	void gc()
	{
		fac->gc_job();                                     // what session_pool's gc_job calls (if requires_gc)
		if(is_tcp) {                                       // what the server's garbage_collector timer calls
			if(is_mem) { for(size_t i=0;i<memfacs.size();i++) if(memfacs[i]->requires_gc()) memfacs[i]->gc_job(); }
			else if(filefac->requires_gc()) filefac->gc_job();
		}
	}
	// white-box view: "m":[{s,v,dl,ip}..] (+ "ix":[{dl,mp,g}..] for the memory storage, g = server number), dl relative to base
	void view(vt::J &j,long base)
	{
		std::ostringstream m,ix;
		m<<'['; ix<<'[';
		if(is_mem) {
			int moff=0,ioff=0; bool fm=true,fi=true;
			for(size_t f=0;f<memfacs.size();f++) {
				session_memory_storage *ms=static_cast<session_memory_storage *>(memfacs[f]->get().get());
				booster::unique_lock<booster::shared_mutex> g(ms->mutex_);
				std::map<void const *,int> ixpos,mpos;
				int n=0;
				for(session_memory_storage::timeout_type::iterator p=ms->timeout_.begin();p!=ms->timeout_.end() && n<1000;++p,++n) ixpos[(void const *)&*p]=n;
				int k=0;
				for(session_memory_storage::map_type::iterator p=ms->map_.begin();p!=ms->map_.end() && k<1000;++p,++k) mpos[(void const *)&*p]=k;
				k=0;
				for(session_memory_storage::map_type::iterator p=ms->map_.begin();p!=ms->map_.end() && k<1000;++p,++k) {
					std::map<std::string,int>::iterator si=sidindex.find(p->first);
					void const *ia=(void const *)&*(p->second.timeout_ptr);
					int ip = ixpos.count(ia) ? ixpos[ia]+ioff : -1;
					if(!fm) m<<','; fm=false;
					m<<"{\"s\":"<<(si==sidindex.end()?0:si->second)<<",\"v\":"<<unval(p->second.info)<<",\"dl\":"<<(long)(p->second.timeout-base)<<",\"ip\":"<<ip<<'}';
				}
				for(session_memory_storage::timeout_type::iterator p=ms->timeout_.begin();p!=ms->timeout_.end();++p) {
					void const *ma=(void const *)&*(p->second);
					int mp = mpos.count(ma) ? mpos[ma]+moff : -1;
					if(!fi) ix<<','; fi=false;
					ix<<"{\"dl\":"<<(long)(p->first-base)<<",\"mp\":"<<mp<<",\"g\":"<<f<<'}';
				}
				moff+=k; ioff+=n;
			}
		}
		else {
			std::vector<std::string> names;
			DIR *d=opendir(dir.c_str());
			if(d) { struct dirent *e; while((e=readdir(d))) { if(e->d_name[0]!='.') names.push_back(e->d_name); } closedir(d); }
			std::sort(names.begin(),names.end());
			bool fm=true;
			for(size_t i=0;i<names.size();i++) {
				int fd=open((dir+"/"+names[i]).c_str(),O_RDONLY);
				if(fd<0) continue;
				std::string all; char buf[65536]; ssize_t r;
				while((r=read(fd,buf,sizeof(buf)))>0) all.append(buf,r);
				close(fd);
				std::map<std::string,int>::iterator si=sidindex.find(names[i]);
				long v=-1; long long dl=-999999;
				if(all.size()>=16) {
					int64_t t; uint32_t crc,size;
					memcpy(&t,all.data(),8); memcpy(&crc,all.data()+8,4); memcpy(&size,all.data()+12,4);
					dl=t-base;
					if(dl>2000000000LL) dl=2000000000LL;
					if(dl<-2000000000LL) dl=-2000000000LL;
					if(all.size()>=16+(size_t)size) {
						cppcms::impl::crc32_calc c; c.process_bytes(all.data()+16,size);
						if(c.checksum()==crc) v=unval(all.substr(16,size));
					}
				}
				if(!fm) m<<','; fm=false;
				m<<"{\"s\":"<<(si==sidindex.end()?0:si->second)<<",\"v\":"<<v<<",\"dl\":"<<dl<<",\"ip\":0}";
			}
		}
		m<<']'; ix<<']';
		j.raw("m",m.str());
		if(is_mem) j.raw("ix",ix.str());
	}
};

// =============================================================================== sequential mode
struct seqrun {
	world *w; vt::out &o; long base; long vcount;
	seqrun(vt::out &out) : w(0), o(out), base(vt::clock_base), vcount(0) {}
	void begin(std::string const &be,char const *scn,long b=vt::clock_base,int gc_timeout=3600)
	{
		base=b; vt::fake_now=base;
		w=new world(be,gc_timeout);
		o.line(vt::J().s("e","Reset").s("be",be).s("mode","seq").s("scn",scn).b("mem",w->is_mem).b("bggc",w->bggc).raw("place",w->place_json())
			.b("rgc",w->fac->requires_gc()).b("blk",w->st->is_blocking()).str());
	}
	void end() { delete w; w=0; vt::fake_now=vt::clock_base; }
	void exc(char const *op,std::exception const &e) { o.line(vt::J().s("e","Exc").s("op",op).s("what",e.what()).str()); }
	long save(int s,long dlrel,bool empty=false,bool big=false)
	{
		long v;
		if(empty) v=0;
		else { do { v=++vcount; } while((v%17==0)!=big); }
		try { w->st->save(sidname[s],(time_t)(base+dlrel),mkval(v)); }
		catch(std::exception const &e) { exc("save",e); return v; }
		vt::J j; j.s("e","Save").i("s",s).i("v",v).i("dl",dlrel); w->view(j,base); o.line(j.str());
		return v;
	}
	void load(int s)
	{
		time_t to=0; std::string out="<untouched>"; bool hit=false;
		try { hit=w->st->load(sidname[s],to,out); }
		catch(std::exception const &e) { exc("load",e); return; }
		vt::J j; j.s("e","Load").i("s",s).b("hit",hit);
		if(hit) {
			long long d=(long long)to-base;
			if(d>2000000000LL) d=2000000000LL;
			if(d<-2000000000LL) d=-2000000000LL;
			j.i("v",unval(out)).i("dl",d);
		}
		w->view(j,base); o.line(j.str());
	}
	void remove(int s)
	{
		try { w->st->remove(sidname[s]); }
		catch(std::exception const &e) { exc("remove",e); return; }
		vt::J j; j.s("e","Remove").i("s",s); w->view(j,base); o.line(j.str());
	}
	void gc()
	{
		try { w->gc(); }
		catch(std::exception const &e) { exc("gc",e); return; }
		vt::J j; j.s("e","Gc"); w->view(j,base); o.line(j.str());
	}
	void tick(int d)
	{
		vt::fake_now+=d;
		vt::J j; j.s("e","Tick").i("d",d); w->view(j,base); o.line(j.str());
	}
	// wait (real time) until the server's own gc thread has removed every expired file, at most `cap' seconds
	void srvgc_wait(int cap)
	{
		long now=vt::fake_now-base;
		for(int i=0;i<cap*20;i++) {
			vt::J j; w->view(j,base);
			std::string s=j.str();
			bool expired=false;
			size_t p=0;
			while((p=s.find("\"dl\":",p))!=std::string::npos) { p+=5; if(atol(s.c_str()+p)<now) expired=true; }
			if(!expired) break;
			usleep(50000);
		}
		vt::J j; j.s("e","SrvGc"); w->view(j,base); o.line(j.str());
	}
};

static bool want(char const *filter,char const *scn) { return !filter || !*filter || strstr(filter,scn)!=0; }

static void scenarios(seqrun &r,std::string const &be,char const *filter)
{
	bool tcpfile = be=="tcpfile";
	if(want(filter,"boundary")) {
		r.begin(be,"boundary");
		r.save(1,1); r.load(1); r.tick(1); r.load(1); r.gc(); r.load(1); r.save(2,3); r.remove(2); r.load(1);   // save/remove run short_gc at dl == now
		r.tick(1); r.load(1); r.gc(); r.load(1); r.save(3,5); r.load(3);
		r.end();
	}
	if(want(filter,"overwrite")) {
		r.begin(be,"overwrite");
		r.save(1,5); r.save(1,1); r.tick(2); r.load(1); r.save(2,9); r.load(1); r.gc(); r.load(1);
		r.save(1,6); r.load(1); r.save(1,7,true); r.load(1); r.save(1,8,false,true); r.load(1); r.save(1,9); r.load(1);
		r.end();
	}
	if(want(filter,"remove")) {
		r.begin(be,"remove");
		r.remove(4); r.save(4,5); r.load(4); r.remove(4); r.load(4); r.remove(4); r.save(4,6); r.load(4); r.gc(); r.load(4);
		r.save(5,-1); r.load(5); r.remove(5); r.load(5);
		r.end();
	}
	if(want(filter,"massgc")) {
		r.begin(be,"massgc");
		for(int s=1;s<=12;s++) r.save(s,1+s%3);
		r.save(13,50);
		r.tick(5);
		r.load(13); r.load(1);
		r.save(14,60); r.load(13); r.save(15,60); r.remove(15); r.load(13); r.load(14); r.gc(); r.remove(14); r.remove(14); r.load(13);
		r.end();
	}
	if(want(filter,"reindex")) {
		r.begin(be,"reindex");
		r.save(1,1); r.save(1,10); r.save(2,1); r.save(2,2); r.save(3,1);
		r.tick(3);
		r.save(4,9); r.load(1); r.remove(4); r.load(1); r.gc(); r.load(1); r.load(2); r.load(3);
		r.save(1,4); r.tick(2); r.save(5,20); r.load(1); r.load(5);
		r.end();
	}
	if(want(filter,"expiredsave")) {
		r.begin(be,"expiredsave");
		r.tick(3); r.save(1,1); r.load(1); r.save(1,3); r.load(1); r.save(1,2); r.load(1); r.gc(); r.load(1); r.save(2,4); r.load(2);
		r.end();
	}
	if(tcpfile && want(filter,"srvgc")) {
		// the server's own garbage_collector thread (1 s period, real time) against the fake clock
		r.begin(be,"srvgc",vt::clock_base,1);
		r.save(1,1); r.save(2,2); r.save(3,9); r.save(4,3); r.tick(3); r.load(3);
		r.srvgc_wait(30);
		r.load(3); r.load(4); r.load(1);
		r.end();
	}
	if(want(filter,"y2038")) {
		// deadlines beyond 2^31-1 seconds (the clock itself still below): time_t is 64 bit here
		long b=2147483647L-100;
		r.begin(be,"y2038",b);
		r.save(1,50); r.load(1); r.save(2,101); r.load(2); r.save(3,5000); r.load(3); r.tick(60); r.load(1); r.load(2); r.gc(); r.load(3);
		r.end();
	}
}

static void random_round(seqrun &r,std::string const &be,vt::rng &R,int nops)
{
	static const int dls[]={-2,-1,0,0,1,1,2,2,3,5,8,1000};
	int K = 2+R(R.chance(1,3)?14:5);
	r.begin(be,"rand");
	for(int n=0;n<nops;n++) {
		unsigned c=R(100);
		int s=1+R(K);
		long now=vt::fake_now-r.base;
		if(c<36) r.save(s,now+dls[R(12)],R.chance(1,12),R.chance(1,25));
		else if(c<70) r.load(s);
		else if(c<80) r.remove(s);
		else if(c<92) r.tick(1+R(R.chance(1,4)?4:1));
		else r.gc();
	}
	r.end();
}

// =============================================================================== concurrent mode
static std::atomic<unsigned long long> gseq(0);
static std::atomic<long> gval(0);
typedef std::vector<std::pair<unsigned long long,std::string> > evlist;

static std::atomic<int> gready(0);
struct cworker {
	world *w; int tid,nops,K,nthreads; unsigned seed; evlist *ev; long base;
	void emit(unsigned long long q,vt::J &j) const { ev->push_back(std::make_pair(q,j.str())); }
	void operator()() const
	{
		static const int dls[]={-1,0,0,1,1,2,50,50};
		vt::rng R(seed);
		long now=vt::fake_now-base;
		ev->reserve(nops*2+4);
		// start barrier: the calls are so short that the threads would otherwise run one after the other
		gready++;
		for(long spin=0;gready.load()<nthreads && spin<200000000L;spin++) { if((spin&1023)==1023) sched_yield(); }
		for(int n=0;n<nops;n++) {
			unsigned c=R(100);
			int s=1+R(K);
			try {
				if(c<38) {
					long v=++gval; if(v%17==0 && !R.chance(1,4)) v=++gval;
					long dl=now+dls[R(8)];
					std::string data=mkval(v);
					{ vt::J j; j.s("e","Inv").i("tid",tid).s("op","save").i("s",s).i("v",v).i("dl",dl); emit(gseq++,j); }
					w->st->save(sidname[s],(time_t)(base+dl),data);
					{ unsigned long long q=gseq++; vt::J j; j.s("e","Ret").i("tid",tid); emit(q,j); }
				}
				else if(c<84) {
					time_t to=0; std::string out;
					{ vt::J j; j.s("e","Inv").i("tid",tid).s("op","load").i("s",s); emit(gseq++,j); }
					bool hit=w->st->load(sidname[s],to,out);
					unsigned long long q=gseq++;
					vt::J j; j.s("e","Ret").i("tid",tid).b("hit",hit);
					if(hit) j.i("v",unval(out)).i("dl",(long)(to-base));
					emit(q,j);
				}
				else if(c<94) {
					{ vt::J j; j.s("e","Inv").i("tid",tid).s("op","remove").i("s",s); emit(gseq++,j); }
					w->st->remove(sidname[s]);
					{ unsigned long long q=gseq++; vt::J j; j.s("e","Ret").i("tid",tid); emit(q,j); }
				}
				else {
					{ vt::J j; j.s("e","Inv").i("tid",tid).s("op","gc").i("s",0); emit(gseq++,j); }
					w->gc();
					{ unsigned long long q=gseq++; vt::J j; j.s("e","Ret").i("tid",tid); emit(q,j); }
				}
			}
			catch(std::exception const &e) {
				unsigned long long q=gseq++; vt::J j; j.s("e","Exc").i("tid",tid).s("what",e.what()); emit(q,j);
				return;
			}
		}
	}
};

static bool byseq(std::pair<unsigned long long,std::string> const &a,std::pair<unsigned long long,std::string> const &b) { return a.first<b.first; }

static void conc_round(vt::out &o,std::string const &be,int threads,int nops,int K,unsigned seed,int round)
{
	long base=vt::clock_base;
	vt::fake_now=base;
	world w(be);
	o.line(vt::J().s("e","Reset").s("be",be).s("mode","conc").i("threads",threads).b("mem",w.is_mem).b("bggc",w.bggc).str());
	int phases=3;
	for(int ph=0;ph<phases;ph++) {
		std::vector<evlist> evs(threads);
		std::vector<booster::thread *> th;
		gready=0;
		for(int i=0;i<threads;i++) {
			cworker c; c.nthreads=threads; c.w=&w; c.tid=i; c.nops=nops; c.K=K; c.seed=seed*7919u+round*131u+ph*17u+i*3u+1u; c.ev=&evs[i]; c.base=base;
			th.push_back(new booster::thread(c));
		}
		for(int i=0;i<threads;i++) { th[i]->join(); delete th[i]; }
		evlist all;
		for(int i=0;i<threads;i++) all.insert(all.end(),evs[i].begin(),evs[i].end());
		std::sort(all.begin(),all.end(),byseq);
		for(size_t i=0;i<all.size();i++) o.line(all[i].second);
		// quiescent: every sid is read back by one thread, the bookkeeping is exported, then the clock moves
		for(int s=1;s<=K;s++) {
			time_t to=0; std::string out;
			o.line(vt::J().s("e","Inv").i("tid",0).s("op","load").i("s",s).str());
			bool hit=false;
			try { hit=w.st->load(sidname[s],to,out); } catch(std::exception const &e) { o.line(vt::J().s("e","Exc").i("tid",0).s("what",e.what()).str()); }
			vt::J j; j.s("e","Ret").i("tid",0).b("hit",hit);
			if(hit) j.i("v",unval(out)).i("dl",(long)(to-base));
			o.line(j.str());
		}
		{ vt::J j; j.s("e","View"); w.view(j,base); o.line(j.str()); }
		if(ph+1<phases) { int d=1+(seed+ph+round)%2; vt::fake_now+=d; o.line(vt::J().s("e","Tick").i("d",d).str()); }
	}
	o.line(vt::J().s("e","End").str());
	vt::fake_now=vt::clock_base;
}

// a crash inside the library is part of what is judged: the lines written so far stay, a Died line ends the trace
static vt::out *gout=0;
static void on_crash(int sig)
{
	if(gout && gout->f) { fprintf(gout->f,"{\"e\":\"Died\",\"sig\":%d}\n",sig); fflush(gout->f); }
	_exit(0);
}
static void on_terminate() { on_crash(-1); }

int main(int argc,char **argv)
{
	if(argc<5) { fprintf(stderr,"usage: store_drv seq <backends> <rounds> <ops> [filter] | conc <backend> <threads> <ops> <sids> <rounds>\n"); return 2; }
	init_sids();
	vt::out o; o.open();
	gout=&o;
	signal(SIGSEGV,on_crash); signal(SIGBUS,on_crash); signal(SIGABRT,on_crash); signal(SIGFPE,on_crash);
	std::set_terminate(on_terminate);
	long seed=vt::envl("VERIF_SEED",1);
	std::string mode=argv[1];
	if(mode=="seq") {
		std::string list=argv[2]; int rounds=atoi(argv[3]),nops=atoi(argv[4]);
		char const *filter = argc>5 ? argv[5] : 0;
		size_t p=0; int bi=0;
		while(p<=list.size()) {
			size_t q=list.find(',',p); if(q==std::string::npos) q=list.size();
			std::string be=list.substr(p,q-p); p=q+1; bi++;
			if(be.empty()) continue;
			seqrun r(o);
			vt::rng R(seed*1000003u+bi*7919u);
			for(int i=0;i<rounds;i++) random_round(r,be,R,nops);
			scenarios(r,be,filter);
		}
	}
	else if(mode=="conc") {
		if(argc<7) return 2;
		std::string be=argv[2]; int threads=atoi(argv[3]),nops=atoi(argv[4]),K=atoi(argv[5]),rounds=atoi(argv[6]);
		if(K>MAXSID) K=MAXSID;
		if(threads>16) threads=16;
		for(int r=0;r<rounds;r++) conc_round(o,be,threads,nops,K,(unsigned)seed,r);
	}
	else return 2;
	o.close();
	return 0;
}
