// C18 driver: crash-safety of session_file_storage (src/session_posix_file_storage.cpp).
//
// The executable defines time() (fake clock) and write() (records every write the real save()
// issues: descriptor offset, length, bytes, return value; optionally returns short counts).
//
//   fs_drv crash <i> <n>   shard i of n of the old/new payload pairs.  Per pair: real save(s) to build the
//                          previous durable file, snapshot (Base), real save of the new value with its write
//                          calls recorded, then EVERY crash image the model defines is materialised from the
//                          recorded calls (prefix of calls x byte prefix of the next call x subset of the
//                          touched 512-byte sectors on top of Base), the real load() is run on it and the
//                          outcome logged as CrashLoad.
//   fs_drv gc <execs>      random histories of save / planted garbage / tick / load / gc over several files.
//   fs_drv short           saves under short write() returns and EINTR (DESIGN.md F8), then load.
//
// Clock values and deadlines are logged relative to vt::clock_base.
#include "common/vtrace.h"
#include "common/fakeclock.h"
#include "session_posix_file_storage.h"
#include <booster/shared_ptr.h>
#include <dlfcn.h>
#include <signal.h>
#include <unistd.h>
#include <fcntl.h>
#include <errno.h>
#include <dirent.h>
#include <sys/stat.h>
#include <sys/types.h>
#include <algorithm>
#include <map>
#include <iostream>

using namespace cppcms::sessions;

static const size_t SS=512, HB=16;
static vt::out tr;

// ---------------------------------------------------------------- write() interposer
struct wcall { long off; size_t n; long ret; std::string data; };
static bool rec_on=false;
static std::vector<wcall> calls;
// short mode: per call: 0 = pass through, k>0 = accept at most k bytes, -1 = EINTR once;
// hplan applies to calls that start inside the header, plan to calls in the data area
static std::vector<long> plan,hplan;
static size_t plan_pos=0,hplan_pos=0;

extern "C" ssize_t write(int fd,const void *buf,size_t n)
{
	typedef ssize_t (*wfn)(int,const void *,size_t);
	static wfn real=0;
	if(!real) real=(wfn)dlsym(RTLD_NEXT,"write");
	if(!rec_on) return real(fd,buf,n);
	wcall c; c.off=(long)lseek(fd,0,SEEK_CUR); c.n=n;
	size_t m=n;
	bool inhdr = c.off < (long)HB;
	if(inhdr ? hplan_pos<hplan.size() : plan_pos<plan.size()) {
		long p= inhdr ? hplan[hplan_pos++] : plan[plan_pos++];
		if(p<0) { c.ret=-1; calls.push_back(c); errno=EINTR; return -1; }
		if(p>0 && (size_t)p<m) m=p;
	}
	ssize_t r=real(fd,buf,m);
	c.ret=r;
	if(r>0) c.data.assign((char const *)buf,r);
	calls.push_back(c);
	return r;
}

// ---------------------------------------------------------------- helpers
static std::string dir;
static std::unique_ptr<session_file_storage_factory> fac;
static booster::shared_ptr<session_storage> st;

static std::string sid(int f)
{
	char b[64];
	if(f==7) { snprintf(b,sizeof(b),"%031x",0x70+f); return b; }                 // 31 hex digits: not a session name
	if(f==8) { snprintf(b,sizeof(b),"%031xg",0x80+f); return b; }                // 32 chars, one not hex
	snprintf(b,sizeof(b),"%04x%028x",f*0x1111,f); return b;
}
static std::string path(int f) { return dir+"/"+sid(f); }

static uint32_t crc32(std::string const &s)
{
	uint32_t c=0xFFFFFFFFu;
	for(size_t i=0;i<s.size();i++) { c^=(unsigned char)s[i]; for(int k=0;k<8;k++) c=(c>>1)^(0xEDB88320u&(0u-(c&1))); }
	return ~c;
}
static std::string record(long long dl_abs,uint32_t crc,uint32_t size,std::string const &data)
{
	std::string r;
	int64_t t=dl_abs;
	r.append((char *)&t,8); r.append((char *)&crc,4); r.append((char *)&size,4); r+=data;
	return r;
}
static bool exists(int f) { struct stat s; return ::stat(path(f).c_str(),&s)==0; }
static bool slurp(int f,std::string &out)
{
	out.clear();
	FILE *fp=fopen(path(f).c_str(),"rb");
	if(!fp) return false;
	char b[4096]; size_t n;
	while((n=fread(b,1,sizeof(b),fp))>0) out.append(b,n);
	fclose(fp);
	return true;
}
static void put(int f,std::string const &bytes)
{
	::unlink(path(f).c_str());
	FILE *fp=fopen(path(f).c_str(),"wb");
	if(!fp) { perror("put"); exit(3); }
	if(!bytes.empty()) fwrite(bytes.data(),1,bytes.size(),fp);
	fclose(fp);
}
static long rel(long long t) { long long r=t-(long long)vt::clock_base; if(r>1000000000) r=1000000000; if(r<-1000000000) r=-1000000000; return (long)r; }

// payload table of the current execution: id -> bytes
static std::map<int,std::string> payloads;
static std::vector<int> ids_of(std::string const &data)
{
	std::vector<int> r;
	for(std::map<int,std::string>::iterator p=payloads.begin();p!=payloads.end();++p) if(p->second==data) r.push_back(p->first);
	return r;
}

static void log_writes()
{
	for(size_t i=0;i<calls.size();i++)
		tr.line(vt::J().s("e","Write").i("off",calls[i].off).i("n",calls[i].n).i("ret",calls[i].ret).bytes("data",calls[i].data).str());
}

// a real save with its writes recorded and logged; returns false if save threw
static bool do_save(int f,int id,long dl,std::string const &data,char const *ev="Save")
{
	payloads[id]=data;
	tr.line(vt::J().s("e",ev).i("f",f).i("id",id).i("dl",dl).i("n",data.size()).bytes("data",data).str());
	calls.clear(); rec_on=true;
	bool threw=false;
	try { st->save(sid(f),vt::clock_base+dl,data); } catch(std::exception const &) { threw=true; }
	rec_on=false;
	log_writes();
	tr.line(vt::J().s("e","SaveEnd").b("threw",threw).str());
	return !threw;
}

struct lres { bool ok; std::vector<int> ids; long dl; bool ex; };
static lres do_load(int f)
{
	lres r; r.ok=false; r.dl=0;
	time_t to=0; std::string out="<untouched>";
	try { r.ok=st->load(sid(f),to,out); }
	catch(std::exception const &e) { tr.line(vt::J().s("e","Died").s("what",e.what()).str()); tr.close(); _exit(0); }
	if(r.ok) { r.ids=ids_of(out); r.dl=rel(to); if(r.ids.empty()) r.ids.push_back(-1); }
	r.ex=exists(f);
	return r;
}

// ---------------------------------------------------------------- payload generators
static std::string gen(vt::rng &R,size_t n,int kind)
{
	// kind 0: random bytes (every 7th forced zero), 1: all zero, 2: one repeated byte, 3: text
	std::string s(n,'\0');
	for(size_t i=0;i<n;i++) {
		switch(kind) {
		case 0: s[i]= (i%7==3) ? 0 : (char)R(256); break;
		case 1: s[i]=0; break;
		case 2: s[i]='x'; break;
		default: s[i]=(char)('a'+R(26)); break;
		}
	}
	return s;
}
// new payload derived from old: rel 0 unrelated, 1 equal content (as far as lengths allow), 2 common prefix then different,
// 3 differs in one byte only, 4 all zero
static std::string derive(vt::rng &R,std::string const &old,size_t n,int relk)
{
	std::string s=gen(R,n,0);
	if(relk==4) return gen(R,n,1);
	if(relk==0 || old.empty()) return s;
	size_t m=std::min(n,old.size());
	if(relk==1) { for(size_t i=0;i<m;i++) s[i]=old[i]; return s; }
	if(relk==2) { size_t k=m/2+R(m/2+1); for(size_t i=0;i<k;i++) s[i]=old[i]; if(k<n) s[k]=old.size()>k? old[k]^0x55 : s[k]; return s; }
	for(size_t i=0;i<m;i++) s[i]=old[i];
	if(m>0) { size_t k=R(m); s[k]^=(char)(1u<<R(8)); }
	return s;
}

// ---------------------------------------------------------------- crash part
struct pairspec { int oldk; size_t oldn; size_t newn; int relk; long dlo,dln; long now; size_t older; };
// oldk: 0 absent, 1 valid previous save, 2 empty file, 3 garbage 8..15 bytes, 4 garbage full header bad crc,
//       5 valid previous save written over a longer, older one (tail stays)

static void overlay(std::string &img,long off,std::string const &d,size_t len)
{
	if(img.size()<off+len) img.resize(off+len,'\0');
	memcpy(&img[off],d.data(),len);
}

static long n_crashloads=0;

static void crash_pair(vt::rng &R,pairspec const &P,bool thorough)
{
	payloads.clear();
	int f=1;
	::unlink(path(f).c_str());
	vt::fake_now=vt::clock_base+P.now;
	tr.line(vt::J().s("e","Reset").s("mode","crash").i("ss",SS).i("hb",HB).i("now",P.now).i("cb",(long)vt::clock_base).str());
	std::string old;
	if(P.oldk==1 || P.oldk==5) {
		if(P.oldk==5) do_save(f,3,P.dlo-7,gen(R,P.older,0));
		old=gen(R,P.oldn,P.oldn%5==4?3:0);
		do_save(f,1,P.dlo,old);
	}
	else if(P.oldk==2) { put(f,""); tr.line(vt::J().s("e","Plant").i("f",f).s("k","none").i("dl",0).i("size",0).b("valid",false).i("id",0).str()); }
	else if(P.oldk==3) {
		std::string g=record(vt::clock_base+P.dlo,0x01020304u|R(1u<<31),0,"").substr(0,8+4+R(4));
		put(f,g); tr.line(vt::J().s("e","Plant").i("f",f).s("k","ts").i("dl",P.dlo).i("size",0).b("valid",false).i("id",0).str());
	}
	else if(P.oldk==4) {
		std::string d=gen(R,P.oldn,0);
		std::string g=record(vt::clock_base+P.dlo,crc32(d)^0x5a5a5a5au,d.size(),d);
		put(f,g); tr.line(vt::J().s("e","Plant").i("f",f).s("k","full").i("dl",P.dlo).i("size",d.size()).b("valid",false).i("id",0).str());
	}
	// durable base image
	std::string base; bool bex=slurp(f,base);
	{
		vt::J j; j.s("e","Base").i("f",f).b("ex",bex).i("len",base.size());
		j.s("hk", base.size()<8 ? "none" : base.size()<16 ? "ts" : "full");
		if(base.size()>=8) { int64_t t; memcpy(&t,base.data(),8); j.i("hdl",rel(t)); }
		if(base.size()>=16) { uint32_t sz; memcpy(&sz,base.data()+12,4); j.i("hsize",sz>2000000000u?2000000000u:sz); }
		j.bytes("data",base.size()>HB?base.substr(HB):std::string());
		tr.line(j.str());
	}
	std::string nw=derive(R,old,P.newn,P.relk);
	do_save(f,2,P.dln,nw);
	std::vector<wcall> W=calls;
	// the recorded calls replayed on the base must give the file the real save left
	{
		std::string fin; slurp(f,fin);
		std::string v=base;
		for(size_t i=0;i<W.size();i++) if(W[i].ret>0) overlay(v,W[i].off,W[i].data,W[i].ret);
		if(v!=fin) { tr.line(vt::J().s("e","HarnessError").s("what","replayed writes differ from the file").str()); tr.close(); exit(4); }
	}
	// enumerate crash states
	std::string v=base;
	std::set<int> touched;
	for(size_t w=0;w<=W.size();w++) {
		// volatile image after w complete calls, then byte prefixes of call w+1
		std::vector<long> prefixes; prefixes.push_back(0);
		if(w<W.size() && W[w].ret>0) {
			long off=W[w].off, len=W[w].ret;
			if(len<=8192) { for(long pb=1;pb<len;pb++) if((size_t)(off+pb)>=HB) prefixes.push_back(pb); }
			else {
				// long values: a coarse stride, both ends, sector boundaries and everything around the 64 KiB marks
				std::set<long> ps;
				long stride= thorough ? 2048+13 : 4096+37;
				for(long pb=stride;pb<len;pb+=stride) ps.insert(pb);
				static const long marks[]={65536,65536+(long)HB,131072,131072+(long)HB};
				for(int m=0;m<4;m++) for(long d=-2;d<=2;d++) { ps.insert(marks[m]-off+d); ps.insert(marks[m]-off+d+(long)SS); ps.insert(marks[m]-off+d-(long)SS); }
				for(long d=1;d<=3;d++) { ps.insert(d); ps.insert(len-d); ps.insert((long)SS-off+d-2); }
				for(int k=0;k<(thorough?40:8);k++) ps.insert(1+R(len-1));
				for(std::set<long>::iterator q=ps.begin();q!=ps.end();++q) if(*q>=1 && *q<len && (size_t)(off+*q)>=HB) prefixes.push_back(*q);
			}
		}
		for(size_t pi=0;pi<prefixes.size();pi++) {
			long pb=prefixes[pi];
			std::string vv=v; std::set<int> tt=touched;
			if(pb>0) {
				overlay(vv,W[w].off,W[w].data,pb);
				for(long sct=W[w].off/(long)SS;sct<=(W[w].off+pb-1)/(long)SS;sct++) tt.insert((int)sct);
			}
			std::vector<int> T(tt.begin(),tt.end());
			size_t nt=T.size();
			// sector subsets, as sorted lists of positions in T
			std::vector<std::vector<int> > subs;
			if(nt<=8) {
				for(unsigned m=0;m<(1u<<nt);m++) { std::vector<int> q; for(size_t k=0;k<nt;k++) if(m&(1u<<k)) q.push_back(k); subs.push_back(q); }
			}
			else {
				bool full = (pb==0);                 // all calls so far complete: the richest set of subsets
				std::set<std::vector<int> > ss;
				std::vector<int> all; for(size_t k=0;k<nt;k++) all.push_back(k);
				ss.insert(std::vector<int>()); ss.insert(all);
				// prefixes of the sector sequence: coarse stride + every length around the 64 KiB marks (sectors 128/129, 256/257)
				std::set<size_t> pl; pl.insert(1); pl.insert(2); pl.insert(nt-1); pl.insert(nt-2);
				size_t st= full ? (thorough? 8 : 24) : 96;
				for(size_t k=st;k<nt;k+=st) pl.insert(k);
				for(size_t m=128;m<nt+4;m+=128) for(size_t k=(m>3?m-3:0);k<=m+4;k++) if(k>=1 && k<nt) pl.insert(k);
				for(std::set<size_t>::iterator q=pl.begin();q!=pl.end();++q) if(*q>=1 && *q<nt) ss.insert(std::vector<int>(all.begin(),all.begin()+*q));
				// all sectors except one (late ones: the last, those around 64 KiB, a sample), except the header sector
				std::set<size_t> holes; holes.insert(0); holes.insert(nt-1); holes.insert(nt-2);
				for(size_t k=126;k<=131;k++) if(k<nt) holes.insert(k);
				for(size_t k=255;k<=258;k++) if(k<nt) holes.insert(k);
				for(int k=0;k<(full?(thorough?24:8):2);k++) holes.insert(nt>130 && k%2==0 ? 129+R(nt-129) : R(nt));
				for(std::set<size_t>::iterator q=holes.begin();q!=holes.end();++q) { std::vector<int> x=all; x.erase(x.begin()+*q); ss.insert(x); }
				// header + first 64 KiB, then a hole, then the rest / a later part only
				if(nt>136) {
					for(size_t from=129;from<=133;from+=2) { std::vector<int> x(all.begin(),all.begin()+128); for(size_t k=from+1;k<nt;k++) x.push_back(k); ss.insert(x); }
					{ std::vector<int> x(all.begin(),all.begin()+129); x.push_back(nt-1); ss.insert(x); }
					{ std::vector<int> x(all.begin()+1,all.end()); ss.insert(x); }
					{ std::vector<int> x(all.begin()+129,all.end()); ss.insert(x); }
				}
				// random ones: sparse, half, dense
				for(int k=0;k<(full?(thorough?60:12):3);k++) {
					unsigned dens= k%3==0 ? 50 : k%3==1 ? 95 : 10;
					std::vector<int> x; for(size_t q=0;q<nt;q++) if(R(100)<dens || (q==0 && k%2==0)) x.push_back(q);
					ss.insert(x);
				}
				subs.assign(ss.begin(),ss.end());
			}
			for(size_t mi=0;mi<subs.size();mi++) {
				std::vector<int> const &m=subs[mi];
				for(int c=0;c<2;c++) {
					bool created = bex || !m.empty() || c==1;
					if(c==1 && (bex || !m.empty())) continue;
					// durable image
					std::string img=base;
					std::vector<int> S;
					for(size_t k=0;k<m.size();k++) {
						int sct=T[m[k]]; S.push_back(sct);
						size_t lo=sct*SS, hi=std::min((size_t)(sct+1)*SS,vv.size());
						if(hi>lo) { if(img.size()<hi) img.resize(hi,'\0'); memcpy(&img[lo],&vv[lo],hi-lo); }
					}
					if(created) put(f,img); else ::unlink(path(f).c_str());
					lres r=do_load(f);
					vt::J j; j.s("e","CrashLoad").i("w",w).i("pb",pb).a("S",S).b("c",c==1).i("now",P.now).b("ok",r.ok);
					if(r.ok) j.a("ids",r.ids).i("dl",r.dl);
					j.b("ex",r.ex);
					tr.line(j.str());
					n_crashloads++;
				}
			}
		}
		if(w<W.size() && W[w].ret>0) {
			overlay(v,W[w].off,W[w].data,W[w].ret);
			for(long sct=W[w].off/(long)SS;sct<=(W[w].off+W[w].ret-1)/(long)SS;sct++) touched.insert((int)sct);
		}
	}
	::unlink(path(f).c_str());
}

static void crash_mode(long shard,long nshards,bool thorough)
{
	vt::rng R(vt::envl("VERIF_SEED",1)*7919u+17);
	std::vector<pairspec> L;
	static const size_t qlen[]={0,1,2,15,16,17,100,495,496,497,512,1000,1008,1009,2048};
	static const size_t tlen[]={0,1,2,3,15,16,17,100,495,496,497,511,512,513,1000,1007,1008,1009,1024,1519,1520,1521,2047,2048};
	std::vector<size_t> lens;
	if(thorough) lens.assign(tlen,tlen+sizeof(tlen)/sizeof(tlen[0])); else lens.assign(qlen,qlen+sizeof(qlen)/sizeof(qlen[0]));
	// deadlines: now = 100;  past 50, boundary 100, future 150/160
	long now=100;
	for(size_t a=0;a<lens.size();a++) {
		size_t nn=lens[a];
		// previous file absent / empty / garbage
		bool huge = !thorough && nn>=2048;      // quick tier: the 2 KiB value only against absent / equal / 1000-byte files
		pairspec p0={0,0,nn,0,0,150,now,0}; L.push_back(p0);
		if(thorough || (a%3==0 && !huge)) { pairspec p={2,0,nn,0,0,150,now,0}; L.push_back(p); }
		if(thorough || a%4==1) { pairspec p={3,0,nn,0,160,150,now,0}; L.push_back(p); }
		if(thorough || (a%4==2 && !huge)) { pairspec p={4,lens[(a+5)%lens.size()],nn,0,160,150,now,0}; L.push_back(p); }
		for(size_t b=0;b<lens.size();b++) {
			size_t on=lens[b];
			bool big = nn>600;
			if(!thorough) {
				// quick: every new length against shorter / equal / longer, fewer partners for the big ones
				bool pick = (on==nn) || (b==(a+3)%lens.size()) || (b==(a+lens.size()-4)%lens.size());
				if(big) pick = (on==nn) || (nn==2048 && on==1000) || (nn!=2048 && on==2048);
				if(!pick) continue;
			}
			int relk = thorough ? (int)((a*7+b*3)%5) : (int)((a+2*b)%5);
			if(huge && on==nn) relk=2;
			pairspec p={1,on,nn,relk,160,150,now,0}; L.push_back(p);
			if(on==nn && !huge) { pairspec q=p; q.relk=1; L.push_back(q); if(thorough||!big) { q.relk=3; L.push_back(q); q.relk=2; L.push_back(q);} }
			if(thorough && on>0 && nn>0) { pairspec q=p; q.relk=(relk+2)%5; L.push_back(q); }
		}
		// deadlines past / at the boundary, old record expired, tail of an older longer file
		if(thorough || (a%2==0 && !huge)) {
			pairspec p1={1,lens[(a+1)%lens.size()],nn,0,160,50,now,0}; L.push_back(p1);      // new already expired
			pairspec p2={1,lens[(a+2)%lens.size()],nn,2,50,150,now,0}; L.push_back(p2);      // old expired
			pairspec p3={1,lens[(a+2)%lens.size()],nn,1,100,100,now,0}; L.push_back(p3);     // both exactly now
			pairspec p4={5,lens[a]/2,nn,0,160,150,now,lens[a]+40}; L.push_back(p4);          // older longer tail
		}
	}
	{
		// long values (> 64 KiB): more than 8 sectors, structured + random sector subsets, sampled byte prefixes.
		// previous file absent / shorter / equal length / longer, content unrelated (random bytes: torn regions differ)
		pairspec l1={1,66000,66000,0,160,150,now,0}; L.push_back(l1);
		pairspec l2={0,0,70000,0,0,150,now,0}; L.push_back(l2);
		pairspec l3={1,70000,66000,0,160,150,now,0}; L.push_back(l3);
		if(thorough) {
			pairspec t1={1,1000,66000,0,160,150,now,0}; L.push_back(t1);
			pairspec t2={1,66000,70000,0,160,150,now,0}; L.push_back(t2);
			pairspec t3={1,70000,70000,0,160,150,now,0}; L.push_back(t3);
			pairspec t4={0,0,200000,0,0,150,now,0}; L.push_back(t4);
			pairspec t5={1,200000,200000,0,160,150,now,0}; L.push_back(t5);
			pairspec t6={1,70000,200000,0,160,150,now,0}; L.push_back(t6);
			pairspec t7={1,200000,66000,0,160,150,now,0}; L.push_back(t7);
			pairspec t8={4,66000,70000,0,160,150,now,0}; L.push_back(t8);
			pairspec t9={1,66000,66000,3,160,150,now,0}; L.push_back(t9);     // one byte differs
		}
	}
	if(thorough) {
		// beyond 8 sectors: random sector subsets
		pairspec p={1,3000,4500,2,160,150,now,0}; L.push_back(p);
		pairspec q={0,0,4200,0,0,150,now,0}; L.push_back(q);
	}
	// cost-balanced sharding: cost ~ events
	std::vector<std::pair<double,size_t> > cost;
	for(size_t i=0;i<L.size();i++) { double n=L[i].newn; double cst= n>8192 ? 25000.0*(n+L[i].oldn/2)/66000.0 : n*(1+n/512.0)+50; cost.push_back(std::make_pair(-cst,i)); }
	std::sort(cost.begin(),cost.end());
	std::vector<double> load(nshards,0);
	std::vector<std::vector<size_t> > mine(nshards);
	for(size_t k=0;k<cost.size();k++) {
		size_t best=0; for(long s=1;s<nshards;s++) if(load[s]<load[best]) best=s;
		load[best]+=-cost[k].first; mine[best].push_back(cost[k].second);
	}
	std::sort(mine[shard].begin(),mine[shard].end());
	for(size_t k=0;k<mine[shard].size();k++) {
		vt::rng Rp(vt::envl("VERIF_SEED",1)*104729u+mine[shard][k]*31u+5);
		crash_pair(Rp,L[mine[shard][k]],thorough);
	}
	printf("pairs=%zu of %zu crashloads=%ld\n",mine[shard].size(),L.size(),n_crashloads);
}

// ---------------------------------------------------------------- gc part
static std::vector<int> listing()
{
	std::vector<int> r;
	for(int f=1;f<=8;f++) if(exists(f)) r.push_back(f);
	return r;
}
static void gc_mode(int execs,bool thorough)
{
	vt::rng R(vt::envl("VERIF_SEED",1)*15485863u+3);
	int NF=6; int next_id=0;
	long ngc=0,nload=0;
	for(int e=0;e<execs;e++) {
		payloads.clear();
		for(int f=1;f<=8;f++) ::unlink(path(f).c_str());
		long now=100;
		vt::fake_now=vt::clock_base+now;
		next_id=0;
		tr.line(vt::J().s("e","Reset").s("mode","gc").i("ss",SS).i("hb",HB).i("now",now).i("cb",(long)vt::clock_base).str());
		int nops= thorough ? 60 : 40;
		for(int o=0;o<nops;o++) {
			unsigned k=R(100);
			int f=1+R(NF);
			long dl= now + (long)R(9) - 4;          // -4 .. +4 around now
			if(R(6)==0) dl = now + 5 + R(40);
			if(k<22) {
				int id=++next_id;
				do_save(f,id,dl,gen(R,R(5)==0?0:R(70),R(4)));
			}
			else if(k<42) {
				unsigned g=R(thorough?9:9);
				std::string bytes; std::string hk; bool valid=false; int id=0; long size=0;
				std::string d=gen(R,R(40),0);
				switch(g) {
				case 0: bytes=""; hk="none"; break;
				case 1: bytes=gen(R,1+R(7),0); hk="none"; break;
				case 2: bytes=record(vt::clock_base+dl,R(1u<<30)|1,0,"").substr(0,8+R(8)); hk="ts"; break;
				case 3: bytes=record(vt::clock_base+dl,crc32(d)^(1u<<R(32)),d.size(),d); hk="full"; size=d.size(); break;      // bad crc
				case 4: bytes=record(vt::clock_base+dl,crc32(d),1u<<24,d); hk="full"; size=1<<24; break;                        // huge size
				case 5: if(d.empty()) d="q"; bytes=record(vt::clock_base+dl,crc32(d),d.size(),d); bytes.resize(bytes.size()-1-R(d.size())); hk="full"; size=d.size(); break; // truncated
				case 6: { id=++next_id; payloads[id]=d; dl=now-1-R(5); bytes=record(vt::clock_base+dl,crc32(d),d.size(),d); hk="full"; valid=true; size=d.size(); } break; // valid, expired
				case 7: { id=++next_id; payloads[id]=d; bytes=record(vt::clock_base+dl,crc32(d),d.size(),d)+gen(R,R(9),0); hk="full"; valid=true; size=d.size(); } break; // valid (+tail)
				default: { int64_t t= R(2)? (int64_t)-5 : (int64_t)0x7fffffffffffff00ll; bytes=record(0,7,3,"abc"); memcpy(&bytes[0],&t,8); hk="full"; dl=rel(t); size=3; } break; // extreme time stamps
				}
				if(R(8)==0) f=7+R(2);   // not a session name: gc must leave it alone
				put(f,bytes);
				tr.line(vt::J().s("e","Plant").i("f",f).s("k",hk).i("dl",dl).i("size",size).b("valid",valid).i("id",id).str());
			}
			else if(k<60) {
				long d=R(4)==0? 1+R(30) : 1+R(3);
				now+=d; vt::fake_now=vt::clock_base+now;
				tr.line(vt::J().s("e","Tick").i("d",d).str());
			}
			else if(k<82) {
				lres r=do_load(f);
				vt::J j; j.s("e","Load").i("f",f).b("ok",r.ok);
				if(r.ok) j.a("ids",r.ids).i("dl",r.dl);
				j.b("ex",r.ex);
				tr.line(j.str()); nload++;
			}
			else {
				std::vector<int> before=listing();
				try { fac->gc_job(); }
				catch(std::exception const &e) { tr.line(vt::J().s("e","Died").s("what",e.what()).str()); tr.close(); _exit(0); }
				std::vector<int> after=listing();
				tr.line(vt::J().s("e","Gc").a("before",before).a("after",after).str()); ngc++;
			}
		}
	}
	printf("execs=%d gcs=%ld loads=%ld\n",execs,ngc,nload);
}

// ---------------------------------------------------------------- short writes (F8)
static void short_mode(bool thorough)
{
	vt::rng R(vt::envl("VERIF_SEED",1)*32452843u+11);
	static const size_t lens[]={0,1,2,3,8,16,17,64,500,600,2000};
	long lost=0,total=0,kept=0;
	int f=1;
	for(size_t a=0;a<sizeof(lens)/sizeof(lens[0]);a++) {
		size_t n=lens[a];
		int variants= thorough ? 40 : 12;
		for(int v=0;v<variants;v++) {
			payloads.clear();
			::unlink(path(f).c_str());
			long now=100; vt::fake_now=vt::clock_base+now;
			tr.line(vt::J().s("e","Reset").s("mode","short").i("ss",SS).i("hb",HB).i("now",now).i("cb",(long)vt::clock_base).str());
			// an intact previous value in half of the cases
			if(v%2==0) do_save(f,1,160,gen(R,lens[(a+v)%11],v%4));
			plan.clear(); plan_pos=0; hplan.clear(); hplan_pos=0;
			// header: normal / EINTR / short.  An empty payload with a short header write is driven exactly once
			// (v == variants-1, 4 bytes accepted): with today's write_all it yields a *valid* record with a foreign deadline.
			unsigned hk=R(4);
			if(v==variants-1) hplan.push_back(4);
			else if(hk==0 && n>0) { hplan.push_back(1+R(15)); if(R(2)) hplan.push_back(1+R(3)); }
			else if(hk==1) hplan.push_back(-1);
			int shorts=R(4);
			for(int k=0;k<shorts+2;k++) { unsigned q=R(5); plan.push_back(q==0?-1: q==1?0 : 1+R(n>1?n-1:1)); }
			std::string data=gen(R,n,v%3==0?2:0);     // periodic payloads survive F8 by accident
			bool ok=do_save(f,2,150,data,"ShortSave");
			plan.clear(); plan_pos=0; hplan.clear(); hplan_pos=0;
			std::string fin; slurp(f,fin);
			bool intact = fin.size()>=HB+n && fin.substr(HB,n)==data;
			lres r=do_load(f);
			vt::J j; j.s("e","Load").i("f",f).b("ok",r.ok);
			if(r.ok) j.a("ids",r.ids).i("dl",r.dl);
			j.b("ex",r.ex).b("intact",intact).b("saved",ok);
			tr.line(j.str());
			total++; if(!r.ok) lost++; else kept++;
		}
	}
	printf("short_saves=%ld load_none=%ld load_ok=%ld\n",total,lost,kept);
}

static void on_signal(int sig)
{
	// a crash of load()/gc() is part of the property: make it visible in the trace (no action of the spec matches Died)
	char b[64]; snprintf(b,sizeof(b),"signal %d",sig);
	tr.line(vt::J().s("e","Died").s("what",b).str()); tr.close(); _exit(0);
}

int main(int argc,char **argv)
{
	signal(SIGSEGV,on_signal); signal(SIGABRT,on_signal); signal(SIGBUS,on_signal); signal(SIGFPE,on_signal);
	if(argc<2) { fprintf(stderr,"usage: fs_drv crash i n | gc execs | short\n"); return 2; }
	std::string mode=argv[1];
	char const *work=getenv("VERIF_WORK");
	if(!work) { fprintf(stderr,"VERIF_WORK not set\n"); return 2; }
	char b[256]; snprintf(b,sizeof(b),"%s/fsd-%d-%s%s",work,(int)getpid(),mode.c_str(),argc>2?argv[2]:"");
	dir=b;
	bool thorough = std::string(getenv("VERIF_TIER")?getenv("VERIF_TIER"):"quick")=="thorough";
	tr.open();
	fac.reset(new session_file_storage_factory(dir,5,1,false));
	st=fac->get();
	if(mode=="crash") crash_mode(atol(argv[2]),atol(argv[3]),thorough);
	else if(mode=="gc") gc_mode(atoi(argv[2]),thorough);
	else if(mode=="short") short_mode(thorough);
	else return 2;
	tr.close();
	// scratch directory
	for(int f=1;f<=8;f++) ::unlink(path(f).c_str());
	::rmdir(dir.c_str());
	return 0;
}
