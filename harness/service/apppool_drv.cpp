// Growth check G01 (not one of the listed properties): application_specific_pool get/put under
// concurrent use by at most `workers` users (what the framework guarantees).
// usage: apppool_drv <workers(pool size)> <users> <ops> <flags: pool|tls|prepop>
#include "common/vtrace.h"
#include <booster/verif_trace.h>
#define private public
#include <cppcms/applications_pool.h>
#undef private
#include <cppcms/application.h>
#include <cppcms/service.h>
#include <cppcms/json.h>
#include <cppcms/mount_point.h>
#include <booster/thread.h>
#include <atomic>
#include <vector>
#include <unistd.h>

namespace bv = booster::verif;
static std::atomic<int> serial(0);
static std::atomic<int> outstanding(0);

class app : public cppcms::application {
public:
	int id; std::atomic<int> busy; int alive;
	app(cppcms::service &s) : cppcms::application(s), id(++serial), busy(0), alive(0x600D) { bv::emit("\"e\":\"New\",\"a\":%d",id); }
	~app() { alive=0xDEAD; bv::emit("\"e\":\"Del\",\"a\":%d",id); }
};

static cppcms::service *srv;
static booster::shared_ptr<cppcms::application_specific_pool> pool;
static int limit_out;

struct user {
	int u,nops; unsigned seed;
	void operator()() const
	{
		vt::rng R(seed);
		for(int n=0;n<nops;n++) {
			// the framework never has more than `workers` synchronous applications outstanding
			int cur=outstanding.load();
			if(cur>=limit_out || !outstanding.compare_exchange_strong(cur,cur+1)) { usleep(50); n--; continue; }
			{
				booster::intrusive_ptr<cppcms::application> p=pool->get(*srv);
				app *a=static_cast<app *>(p.get());
				int was=a->busy.exchange(1);
				bv::emit("\"e\":\"Get\",\"u\":%d,\"a\":%d,\"alive\":%s,\"clash\":%s",u,a->id,a->alive==0x600D?"true":"false",was?"true":"false");
				if(R(3)==0) usleep(R(200));
				a->busy.store(0);
				bv::emit("\"e\":\"Rel\",\"u\":%d,\"a\":%d",u,a->id);
			}
			outstanding--;
		}
	}
};

int main(int argc,char **argv)
{
	if(argc<5) return 2;
	int workers=atoi(argv[1]),users=atoi(argv[2]),nops=atoi(argv[3]); std::string mode=argv[4];
	char const *out=getenv("VERIF_OUT"); if(!out) return 2;
	unlink(out); bv::open(out);
	cppcms::json::value cfg;
	cfg["service"]["api"]="http"; cfg["service"]["port"]=0; cfg["service"]["worker_threads"]=workers;
	for(int round=0;round<3;round++) {
		serial=0; outstanding=0;
		srv=new cppcms::service(cfg);
		int flags=0;
		if(mode=="tls") flags=cppcms::app::thread_specific;
		if(mode=="prepop") flags=cppcms::app::prepopulated;
		limit_out = mode=="tls" ? users : workers;
		bv::emit("\"e\":\"Reset\",\"n\":%d,\"users\":%d,\"mode\":\"%s\"",workers,users,mode.c_str());
		pool=cppcms::create_pool<app>();
		srv->applications_pool().mount(pool,cppcms::mount_point("/x"),flags);
		std::vector<booster::thread *> th;
		for(int i=0;i<users;i++) { user w; w.u=i+1; w.nops=nops; w.seed=vt::envl("VERIF_SEED",1)*31+i*7+round; th.push_back(new booster::thread(w)); }
		for(int i=0;i<users;i++) { th[i]->join(); delete th[i]; }
		bv::emit("\"e\":\"Idle\",\"created\":%d",serial.load());
		pool.reset();
		delete srv; srv=0;
		bv::emit("\"e\":\"End\"");
	}
	bv::close();
	return 0;
}
