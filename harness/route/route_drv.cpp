// C20 driver: builds real cppcms::application trees (url_dispatcher + url_mapper, real booster::regex)
// over a cppcms::service without network, dispatches requests and maps keys, and logs
//   Cfg{root,prefix,nodes:[{parent,mname,mt,opts:[...],keys:[...]}]}   patterns in abstract syntax + regex text
//   Req{m,p,hits:[{app,id,args}],st}                                   one dispatch from the root
//   Map{app,abs,comps,key,params,ok,url, tapp,tid, hits,st}            map a key, then route the URL
//   Pool{mps:[...]} / PReq{h,s,p,idx,matched}                          applications_pool / mount_point
// usage: route_drv fam <maxseg> [shard nshards]   bounded family of Leg D, every level list x every request x methods
//        route_drv rand <configs> <reqs>          random trees depth<=4, <=6 handlers/node, near-miss requests, all key forms
//        route_drv pool <configs> <reqs>          mount points (host/script/path patterns, selection, group)
#include "common/vtrace.h"
#include <cppcms/service.h>
#include <cppcms/application.h>
#include <cppcms/applications_pool.h>
#include <cppcms/url_dispatcher.h>
#include <cppcms/url_mapper.h>
#include <cppcms/http_request.h>
#include <cppcms/http_response.h>
#include <cppcms/http_context.h>
#include <cppcms/mount_point.h>
#include <cppcms/json.h>
#include <cppcms/cppcms_error.h>
#include <booster/regex.h>
#include <booster/aio/io_service.h>
#include <booster/aio/stream_socket.h>
#include "cgi_api.h"
#include "response_headers.h"
#include <map>
#include <iostream>

using cppcms::impl::cgi::io_handler;
using cppcms::impl::cgi::handler;
using cppcms::impl::cgi::callback;

static vt::out tr;
static unsigned long n_cfg=0,n_req=0,n_map=0;

static std::string jbytes(std::string const &v)
{
	std::string r="["; char b[8];
	for(size_t i=0;i<v.size();i++) { snprintf(b,sizeof(b),i?",%u":"%u",(unsigned)(unsigned char)v[i]); r+=b; }
	return r+"]";
}
static std::string jstr(std::string const &v) { std::string r="\""; for(size_t i=0;i<v.size();i++){ unsigned char c=v[i]; if(c=='"'||c=='\\'){r+='\\'; r+=char(c);} else if(c<0x20||c>=0x7f){ char b[8]; snprintf(b,sizeof(b),"\\u%04x",c); r+=b; } else r+=char(c); } return r+"\""; }
static std::string itos(long v) { char b[32]; snprintf(b,sizeof(b),"%ld",v); return b; }

// ------------------------------------------------------------------ pattern family
struct El { std::string k; std::string s; std::vector<std::string> o; };
typedef std::vector<El> Pat;
static El L(std::string const &s) { El e; e.k="lit"; e.s=s; return e; }
static El G(char const *k) { El e; e.k=k; return e; }
static El ALT(std::string const &a,std::string const &b,std::string const &c="") { El e; e.k="alt"; e.o.push_back(a); e.o.push_back(b); if(!c.empty()) e.o.push_back(c); return e; }
static bool is_group(El const &e) { return e.k!="lit" && e.k!="os"; }
static int ngroups(Pat const &p) { int n=0; for(size_t i=0;i<p.size();i++) if(is_group(p[i])) n++; return n; }
static std::string rx_escape(std::string const &s)
{
	std::string r;
	for(size_t i=0;i<s.size();i++) { if(strchr(".^$*+?()[]{}|\\",s[i])) r+='\\'; r+=s[i]; }
	return r;
}
static std::string regex_text(Pat const &p,unsigned variant=0)
{
	std::string r;
	for(size_t i=0;i<p.size();i++) {
		El const &e=p[i];
		if(e.k=="lit") r+=rx_escape(e.s);
		else if(e.k=="d") r+=(variant&1)?"([0-9]+)":"(\\d+)";
		else if(e.k=="w") r+="(\\w+)";
		else if(e.k=="any") r+="(.*)";
		else if(e.k=="alt") { r+="("; for(size_t q=0;q<e.o.size();q++) { if(q) r+="|"; r+=rx_escape(e.o[q]); } r+=")"; }
		else if(e.k=="altn") { r+="(?:"; for(size_t q=0;q<e.o.size();q++) { if(q) r+="|"; r+=rx_escape(e.o[q]); } r+=")"; }
		else if(e.k=="up") r+="[A-Z]+";
		else if(e.k=="olit") r+=rx_escape(e.s)+"?";
		else if(e.k=="os") r+="/?";
		else if(e.k=="rest") r+=(variant&2)?"(/.*)?":"((?:/.*)?)";
	}
	return r;
}
static std::string jpat(Pat const &p)
{
	std::string r="[";
	for(size_t i=0;i<p.size();i++) {
		if(i) r+=",";
		r+="{\"k\":\""+(p[i].k=="altn"?std::string("alt"):p[i].k)+"\"";
		if(p[i].k=="lit" || p[i].k=="olit") r+=",\"s\":"+jbytes(p[i].s);
		if(p[i].k=="alt" || p[i].k=="altn") { r+=",\"o\":["; for(size_t q=0;q<p[i].o.size();q++) { if(q) r+=","; r+=jbytes(p[i].o[q]); } r+="]"; }
		r+="}";
	}
	return r+"]";
}
// mapper template of a pattern: literals kept, groups numbered in order
static std::string tmpl_text(Pat const &p)
{
	std::string r; int n=0;
	for(size_t i=0;i<p.size();i++) { if(p[i].k=="lit") r+=p[i].s; else if(p[i].k=="os") ; else r+="{"+itos(++n)+"}"; }
	return r;
}
// as tmpl_text, but group number kw (1-based) is written as the named helper {lang}
static std::string tmpl_text_kw(Pat const &p,int kw)
{
	std::string r; int n=0,g=0;
	for(size_t i=0;i<p.size();i++) {
		if(p[i].k=="lit") r+=p[i].s; else if(p[i].k=="os") ;
		else if(++g==kw) r+="{lang}"; else r+="{"+itos(++n)+"}";
	}
	return r;
}
static std::string jtmpl(std::string const &t)    // "{n}" -> {"p":n}, text -> {"l":bytes}
{
	std::string r="["; bool first=true; size_t i=0;
	while(i<t.size()) {
		if(!first) r+=","; first=false;
		if(t[i]=='{') { size_t e=t.find('}',i); std::string k=t.substr(i+1,e-i-1);
			if(k[0]>='0' && k[0]<='9') r+="{\"p\":"+k+"}"; else r+="{\"h\":"+jstr(k)+"}"; i=e+1; }
		else { size_t e=t.find('{',i); if(e==std::string::npos) e=t.size(); r+="{\"l\":"+jbytes(t.substr(i,e-i))+"}"; i=e; }
	}
	return r+"]";
}

// method filter: the regular expression alt1|alt2|... in abstract syntax (its language is computed by TLC) and the text
// handed to url_dispatcher, which decides from the text whether it is a plain verb or a regular expression
struct Meth { int kind; std::vector<Pat> alts; std::string text; std::vector<std::string> set; Meth() : kind(0) {} };   // 0 none, 1 given; set: some words of the language
static std::string jmeth(Meth const &m)
{
	if(!m.kind) return "{\"k\":\"none\"}";
	std::string r="{\"k\":\"re\",\"text\":"+jstr(m.text)+",\"alts\":[";
	for(size_t i=0;i<m.alts.size();i++) { if(i) r+=","; r+=jpat(m.alts[i]); }
	return r+"]}";
}
static El OL(std::string const &s) { El e; e.k="olit"; e.s=s; return e; }
static El ALTN(std::string const &a,std::string const &b) { El e; e.k="altn"; e.o.push_back(a); e.o.push_back(b); return e; }
static Pat P1(El const &a) { Pat p; p.push_back(a); return p; }
static Pat P2(El const &a,El const &b) { Pat p; p.push_back(a); p.push_back(b); return p; }
static Meth mkmeth(std::vector<Pat> const &alts,char const *w1,char const *w2=0)
{
	Meth m; m.kind=1; m.alts=alts;
	for(size_t i=0;i<alts.size();i++) { if(i) m.text+="|"; m.text+=regex_text(alts[i]); }
	m.set.push_back(w1); if(w2) m.set.push_back(w2);
	return m;
}
static Meth meth_family(unsigned k)
{
	std::vector<Pat> a;
	switch(k) {
	case 0: a.push_back(P1(L("GET"))); return mkmeth(a,"GET");                                              // GET
	case 1: a.push_back(P1(L("POST"))); return mkmeth(a,"POST");                                            // POST
	case 2: a.push_back(P1(ALT("GET","POST"))); return mkmeth(a,"GET","POST");                              // (GET|POST)
	case 3: a.push_back(P1(L("get"))); return mkmeth(a,"get");                                              // get
	case 4: a.push_back(P1(ALTN("PUT","DELETE"))); return mkmeth(a,"PUT","DELETE");                         // (?:PUT|DELETE)
	case 5: a.push_back(P1(L("GET"))); a.push_back(P1(L("HEAD"))); return mkmeth(a,"GET","HEAD");           // GET|HEAD
	case 6: a.push_back(P2(L("P"),ALT("UT","ATCH"))); a.push_back(P1(L("MOVE"))); return mkmeth(a,"PATCH","MOVE");   // P(UT|ATCH)|MOVE
	case 7: { El u; u.k="up"; a.push_back(P1(u)); return mkmeth(a,"DELETE","GET"); }                        // [A-Z]+
	case 8: a.push_back(P1(L("GET"))); a.push_back(P2(L("POS"),OL("T"))); return mkmeth(a,"POS","POST");    // GET|POST?
	case 9: a.push_back(Pat()); return mkmeth(a,"");                                                        // the empty filter
	case 10: a.push_back(P1(ALT("GET","POST"))); a.push_back(P1(L("PUT"))); return mkmeth(a,"POST","PUT");  // (GET|POST)|PUT
	case 11: a.push_back(P1(L("PUT"))); a.push_back(P1(ALT("GET","POST"))); return mkmeth(a,"PUT","GET");   // PUT|(GET|POST)
	default: a.push_back(P1(L("HEAD"))); a.push_back(P1(L("GET"))); a.push_back(P1(L("PUT"))); return mkmeth(a,"HEAD","PUT");   // HEAD|GET|PUT
	}
}
struct Opt {
	bool mount; int id; Pat pat; std::string re; Meth meth; std::vector<int> sel; int child; int api;   // api: 0 assign, 1 map_generic, 2 assign_generic
	Opt() : mount(false), id(0), child(0), api(0) {}
};
struct KeyE { std::string key; int ar; std::string t; int hid; int kw; KeyE() : ar(0), hid(0), kw(0) {} };
// wire: how the node is wired into its dispatcher parent
//   0 attach(app,name,url,regex,part)                      application + mapper + dispatcher hierarchy
//   1 attach(app,regex,part)                               no mapper link: the node tops its own mapper hierarchy
//   2 add(app,regex,part) + mapper().mount(name,url,app)   the same three links made by separate calls
//   3 mapper().mount(name,url,app) + dispatcher().mount(regex,app,part)   no add(): no application-hierarchy link
//   4 dispatcher().mount(regex,app,part) only              neither mapper nor application link
//   5 add(app,regex,part) only                             dispatcher-only add (an unnamed front above a named hierarchy)
struct Node {
	int parent,mparent,wire; std::string mname,mt,mroot; std::vector<Opt> opts; std::vector<KeyE> keys;
	Node() : parent(0), mparent(0), wire(1) {}
};
typedef std::vector<Node> Cfg;   // node ids are 1-based: cfg[i-1]

static std::string helper_val(int top) { return "en"+itos(top); }
static std::string jcfg(Cfg const &c,std::string const &prefix,bool with_helpers=false)
{
	std::string r="{\"e\":\"Cfg\",\"root\":1,\"prefix\":"+jbytes(prefix)+",\"helpers\":[{\"n\":\"lang\",\"v\":"+jbytes("en")+"}],\"nodes\":[";
	for(size_t n=0;n<c.size();n++) {
		if(n) r+=",";
		r+="{\"parent\":"+itos(c[n].parent)+",\"mparent\":"+itos(c[n].mparent)+",\"wire\":"+itos(c[n].wire)+",\"mroot\":"+jbytes(c[n].mparent?std::string():c[n].mroot)
		  +",\"helpers\":["+((with_helpers && !c[n].mparent)?"{\"n\":\"lang\",\"v\":"+jbytes(helper_val(n+1))+"}":std::string())+"]"
		  +",\"mname\":"+jstr(c[n].mname)+",\"mt\":"+jtmpl(c[n].mt)+",\"opts\":[";
		for(size_t i=0;i<c[n].opts.size();i++) {
			Opt const &o=c[n].opts[i];
			if(i) r+=",";
			if(o.mount) r+="{\"t\":\"m\",\"child\":"+itos(o.child)+",\"pat\":"+jpat(o.pat)+",\"re\":"+jstr(o.re)+",\"sel\":"+itos(o.sel[0])+"}";
			else {
				r+="{\"t\":\"h\",\"id\":"+itos(o.id)+",\"api\":"+itos(o.api)+",\"pat\":"+jpat(o.pat)+",\"re\":"+jstr(o.re)+",\"meth\":"+jmeth(o.meth)+",\"sel\":[";
				for(size_t k=0;k<o.sel.size();k++) { if(k) r+=","; r+=itos(o.sel[k]); }
				r+="]}";
			}
		}
		r+="],\"keys\":[";
		for(size_t i=0;i<c[n].keys.size();i++) {
			if(i) r+=",";
			r+="{\"key\":"+jstr(c[n].keys[i].key)+",\"ar\":"+itos(c[n].keys[i].ar)+",\"t\":"+jtmpl(c[n].keys[i].t)+"}";
		}
		r+="]}";
	}
	return r+"]}";
}

// ------------------------------------------------------------------ real applications
struct Hit { int app,id; std::vector<std::string> args; };
static std::vector<Hit> g_hits;

struct HF {           // functor handlers for url_dispatcher::assign
	int app,id;
	HF(int a,int i) : app(a), id(i) {}
	void rec(std::vector<std::string> const &v) const { Hit h; h.app=app; h.id=id; h.args=v; g_hits.push_back(h); }
	void operator()() const { rec(std::vector<std::string>()); }
	void operator()(std::string a) const { std::vector<std::string> v; v.push_back(a); rec(v); }
	void operator()(std::string a,std::string b) const { std::vector<std::string> v; v.push_back(a); v.push_back(b); rec(v); }
	void operator()(std::string a,std::string b,std::string c) const { std::vector<std::string> v; v.push_back(a); v.push_back(b); v.push_back(c); rec(v); }
	void operator()(std::string a,std::string b,std::string c,std::string d) const { std::vector<std::string> v; v.push_back(a); v.push_back(b); v.push_back(c); v.push_back(d); rec(v); }
	void operator()(std::string a,std::string b,std::string c,std::string d,std::string e) const { std::vector<std::string> v; v.push_back(a); v.push_back(b); v.push_back(c); v.push_back(d); v.push_back(e); rec(v); }
	void operator()(std::string a,std::string b,std::string c,std::string d,std::string e,std::string f) const { std::vector<std::string> v; v.push_back(a); v.push_back(b); v.push_back(c); v.push_back(d); v.push_back(e); v.push_back(f); rec(v); }
};
struct GF {           // generic handler (method filter API): applies the selection itself
	int app,id; std::vector<int> sel;
	bool operator()(cppcms::application &,booster::cmatch const &m) const
	{
		Hit h; h.app=app; h.id=id;
		for(size_t i=0;i<sel.size();i++) h.args.push_back(m[sel[i]]);
		g_hits.push_back(h);
		return true;
	}
};
struct RF {           // assign_generic handler
	int app,id; std::vector<int> sel;
	void operator()(booster::cmatch const &m) const
	{
		Hit h; h.app=app; h.id=id;
		for(size_t i=0;i<sel.size();i++) h.args.push_back(m[sel[i]]);
		g_hits.push_back(h);
	}
};

class node_app;
static std::vector<node_app *> g_unmanaged;     // children not owned by attach(): deleted by the driver
static std::vector<node_app *> g_approots;      // children without add(): roots of their own application hierarchy
class node_app : public cppcms::application {
public:
	node_app(cppcms::service &s,Cfg const &c,int nid) : cppcms::application(s)
	{
		Node const &n=c[nid-1];
		for(size_t i=0;i<n.opts.size();i++) {
			Opt const &o=n.opts[i];
			if(o.mount) {
				node_app *ch=new node_app(s,c,o.child);
				Node const &cn=c[o.child-1];
				switch(cn.wire) {
				case 0: attach(ch,cn.mname,cn.mt,o.re,o.sel[0]); break;
				case 1: attach(ch,o.re,o.sel[0]); break;
				case 2: add(*ch,o.re,o.sel[0]); mapper().mount(cn.mname,cn.mt,*ch); g_unmanaged.push_back(ch); break;
				case 3: mapper().mount(cn.mname,cn.mt,*ch); dispatcher().mount(o.re,*ch,o.sel[0]); g_unmanaged.push_back(ch); g_approots.push_back(ch); break;
				case 4: dispatcher().mount(o.re,*ch,o.sel[0]); g_unmanaged.push_back(ch); g_approots.push_back(ch); break;
				default: add(*ch,o.re,o.sel[0]); g_unmanaged.push_back(ch); break;
				}
				continue;
			}
			if(o.meth.kind || o.api==1) {
				GF f; f.app=nid; f.id=o.id; f.sel=o.sel;
				if(o.meth.kind) dispatcher().map_generic(o.meth.text,booster::regex(o.re),f);
				else dispatcher().map_generic(booster::regex(o.re),f);
				continue;
			}
			if(o.api==2) { RF f; f.app=nid; f.id=o.id; f.sel=o.sel; dispatcher().assign_generic(o.re,cppcms::url_dispatcher::rhandler(f)); continue; }
			HF f(nid,o.id);
			std::vector<int> const &s6=o.sel;
			switch(s6.size()) {
			case 0: dispatcher().assign(o.re,cppcms::url_dispatcher::handler(f)); break;
			case 1: dispatcher().assign(o.re,cppcms::url_dispatcher::handler1(f),s6[0]); break;
			case 2: dispatcher().assign(o.re,cppcms::url_dispatcher::handler2(f),s6[0],s6[1]); break;
			case 3: dispatcher().assign(o.re,cppcms::url_dispatcher::handler3(f),s6[0],s6[1],s6[2]); break;
			case 4: dispatcher().assign(o.re,cppcms::url_dispatcher::handler4(f),s6[0],s6[1],s6[2],s6[3]); break;
			case 5: dispatcher().assign(o.re,cppcms::url_dispatcher::handler5(f),s6[0],s6[1],s6[2],s6[3],s6[4]); break;
			default: dispatcher().assign(o.re,cppcms::url_dispatcher::handler6(f),s6[0],s6[1],s6[2],s6[3],s6[4],s6[5]); break;
			}
		}
		for(size_t i=0;i<n.keys.size();i++) {
			if(n.keys[i].key.empty()) mapper().assign(n.keys[i].t);
			else mapper().assign(n.keys[i].key,n.keys[i].t);
		}
		nid_=nid;
		by_id()[nid]=this;
	}
	static std::map<int,node_app *> &by_id() { static std::map<int,node_app *> m; return m; }
	int nid_;
};

// minimal network-free connection (the tests/dummy_api.h seam)
static booster::aio::io_service *g_ios;
class null_conn : public cppcms::impl::cgi::connection {
public:
	null_conn(cppcms::service &srv,std::map<std::string,std::string> const &env) : cppcms::impl::cgi::connection(srv), sock_(*g_ios), status_(0)
	{
		for(std::map<std::string,std::string>::const_iterator p=env.begin();p!=env.end();++p)
			env_.add(pool_.add(p->first),pool_.add(p->second));
	}
	virtual void set_response_headers(cppcms::impl::response_headers &h)
	{
		cppcms::impl::response_headers::string_buffer_wrapper wr; h.format_cgi_headers(wr,true);
		std::string s=wr.data(); size_t p=s.find("Status:");
		status_ = p==std::string::npos ? 200 : atoi(s.c_str()+p+7);
	}
	virtual booster::aio::const_buffer format_output(booster::aio::const_buffer const &in,bool,booster::system::error_code &) { return in; }
	virtual bool write(booster::aio::const_buffer const &,bool,booster::system::error_code &) { return true; }
	virtual bool nonblocking_write(booster::aio::const_buffer const &,bool,booster::system::error_code &) { return true; }
	virtual void async_write(booster::aio::const_buffer const &,bool,handler const &h) { h(booster::system::error_code()); }
	virtual void on_async_write_start() {}
	virtual void on_async_write_progress(bool) {}
	virtual void do_eof() {}
	virtual booster::aio::io_service &get_io_service() { return *g_ios; }
	virtual booster::aio::stream_socket &socket() { return sock_; }
	virtual void async_read_headers(handler const &) {}
	virtual bool keep_alive() { return false; }
	virtual void async_read_eof(callback const &) {}
	virtual void async_read_some(void *,size_t,io_handler const &) {}
	int status_;
private:
	booster::aio::stream_socket sock_;
};

static cppcms::service *g_srv;
struct DRes { std::vector<Hit> hits; int st; };
static DRes dispatch(node_app &root,std::string const &method,std::string const &path)
{
	DRes R; R.st=0;
	std::map<std::string,std::string> env;
	env["HTTP_HOST"]="h"; env["SCRIPT_NAME"]=""; env["PATH_INFO"]=path; env["REQUEST_METHOD"]=method;
	booster::shared_ptr<null_conn> conn(new null_conn(*g_srv,env));
	booster::shared_ptr<cppcms::http::context> ctx(new cppcms::http::context(conn));
	root.assign_context(ctx);
	// applications mounted without add() are the roots of their own application hierarchy: they get the context by hand
	for(size_t i=0;i<g_approots.size();i++) ((cppcms::application *)g_approots[i])->assign_context(ctx);
	root.response().io_mode(cppcms::http::response::normal);
	g_hits.clear();
	try { root.main(path); }
	catch(std::exception const &e) { Hit h; h.app=-1; h.id=-1; h.args.push_back(e.what()); g_hits.push_back(h); }
	try { ctx->response().finalize(); } catch(...) {}
	R.st=conn->status_;
	for(size_t i=0;i<g_approots.size();i++) ((cppcms::application *)g_approots[i])->release_context();
	root.release_context();
	R.hits=g_hits;
	return R;
}
static std::string jhits(DRes const &r)
{
	std::string s="\"hits\":[";
	for(size_t i=0;i<r.hits.size();i++) {
		if(i) s+=",";
		s+="{\"app\":"+itos(r.hits[i].app)+",\"id\":"+itos(r.hits[i].id)+",\"args\":[";
		for(size_t k=0;k<r.hits[i].args.size();k++) { if(k) s+=","; s+=jbytes(r.hits[i].args[k]); }
		s+="]}";
	}
	return s+"],\"st\":"+itos(r.st);
}
static void do_req(node_app &root,std::string const &m,std::string const &p)
{
	DRes r=dispatch(root,m,p); n_req++;
	tr.line("{\"e\":\"Req\",\"m\":"+jstr(m)+",\"mb\":"+jbytes(m)+",\"p\":"+jbytes(p)+","+jhits(r)+"}");
}
static std::string join(std::vector<std::string> const &c,bool abs)
{
	std::string r=abs?"/":"";
	for(size_t i=0;i<c.size();i++) { if(i) r+="/"; r+=c[i]; }
	return r;
}
static void do_map(node_app &root,std::string const &prefix,int app,bool abs,std::vector<std::string> const &comps,
                   std::vector<std::string> const &params,int tapp,int tid,std::string const &meth="GET",
                   std::vector<std::string> const &kwn=std::vector<std::string>(),std::vector<std::string> const &full=std::vector<std::string>())
{
	node_app *a=node_app::by_id()[app];
	std::string key=join(comps,abs);
	for(size_t i=0;i<kwn.size();i++) key+=(i?",":";")+kwn[i];
	std::ostringstream ss; bool ok=true;
	try {
		cppcms::url_mapper &mp=a->mapper();
		switch(params.size()) {
		case 0: mp.map(ss,key); break;
		case 1: mp.map(ss,key,params[0]); break;
		case 2: mp.map(ss,key,params[0],params[1]); break;
		case 3: mp.map(ss,key,params[0],params[1],params[2]); break;
		case 4: mp.map(ss,key,params[0],params[1],params[2],params[3]); break;
		case 5: mp.map(ss,key,params[0],params[1],params[2],params[3],params[4]); break;
		default: mp.map(ss,key,params[0],params[1],params[2],params[3],params[4],params[5]); break;
		}
	}
	catch(cppcms::cppcms_error const &) { ok=false; }
	std::string url=ss.str(); n_map++;
	std::string s="{\"e\":\"Map\",\"app\":"+itos(app)+",\"abs\":"+(abs?"true":"false")+",\"comps\":[";
	for(size_t i=0;i<comps.size();i++) { if(i) s+=","; s+=jstr(comps[i]); }
	s+="],\"key\":"+jstr(key)+",\"params\":[";
	for(size_t i=0;i<params.size();i++) { if(i) s+=","; s+=jbytes(params[i]); }
	s+="],\"kwn\":[";
	for(size_t i=0;i<kwn.size();i++) { if(i) s+=","; s+=jstr(kwn[i]); }
	s+="],\"full\":[";
	{ std::vector<std::string> const &f = full.empty() ? params : full; for(size_t i=0;i<f.size();i++) { if(i) s+=","; s+=jbytes(f[i]); } }
	s+="],\"ok\":"+std::string(ok?"true":"false")+",\"url\":"+jbytes(url)+",\"tapp\":"+itos(tapp)+",\"tid\":"+itos(tid)+",";
	DRes r; r.st=0;
	if(ok && url.compare(0,prefix.size(),prefix)==0) r=dispatch(root,meth,url.substr(prefix.size()));
	s+="\"m\":"+jstr(meth)+",\"mb\":"+jbytes(meth)+",";
	s+=jhits(r)+"}";
	tr.line(s);
}

// ------------------------------------------------------------------ the bounded family of Leg D
static const char *SEG[5]={"/a","/ab","/1","/-","/"};
static void requests(int maxseg,std::vector<std::string> &out)
{
	out.clear(); out.push_back("");
	size_t from=0;
	for(int l=1;l<=maxseg;l++) {
		size_t to=out.size();
		for(size_t i=from;i<to;i++) for(int s=0;s<5;s++) out.push_back(out[i]+SEG[s]);
		from=to;
	}
}
static Pat hpat(int i)
{
	Pat p;
	switch(i) {
	case 1: p.push_back(L("/a")); break;
	case 2: p.push_back(L("/")); p.push_back(G("d")); break;
	case 3: p.push_back(L("/")); p.push_back(G("w")); break;
	case 4: p.push_back(L("/a")); p.push_back(L("/")); p.push_back(G("d")); p.push_back(G("os")); break;
	case 5: p.push_back(L("/")); p.push_back(ALT("a","ab")); p.push_back(L("/")); p.push_back(G("any")); break;
	default: p.push_back(G("any")); break;
	}
	return p;
}
static Pat mpat(int i)
{
	Pat p;
	if(i==1) { p.push_back(L("/a")); p.push_back(G("rest")); }
	else { p.push_back(L("/")); p.push_back(G("w")); p.push_back(G("rest")); }
	return p;
}
static Opt mk_h(int i,int v,unsigned rxv)
{
	Opt o; o.id=i*10+v; o.pat=hpat(i); o.re=regex_text(o.pat,rxv);
	int n=ngroups(o.pat);
	for(int k=1;k<=n;k++) o.sel.push_back(v==2 ? n+1-k : k);
	if(v==2) o.meth=meth_family(0);        // GET
	if(v==3) o.meth=meth_family(2);        // (GET|POST)
	if(v==4) { std::vector<Pat> a; a.push_back(P1(L("GET"))); a.push_back(P1(L("POST"))); o.meth=mkmeth(a,"GET","POST"); }   // GET|POST
	return o;
}
static std::vector<Opt> handlers(int depth,unsigned rxv)
{
	std::vector<Opt> h;
	if(depth==1) { for(int i=1;i<=6;i++) h.push_back(mk_h(i,1,rxv)); h.push_back(mk_h(1,2,rxv)); h.push_back(mk_h(3,3,rxv)); h.push_back(mk_h(3,4,rxv)); }
	else for(int i=1;i<=3;i++) h.push_back(mk_h(i,1,rxv));
	return h;
}
static void level_lists(int depth,int maxdepth,unsigned rxv,std::vector<std::vector<Opt> > &out)
{
	out.clear();
	std::vector<Opt> H=handlers(depth,rxv);
	std::vector<std::vector<Opt> > HL;
	HL.push_back(std::vector<Opt>());
	for(size_t i=0;i<H.size();i++) { std::vector<Opt> l; l.push_back(H[i]); HL.push_back(l); }
	for(size_t i=0;i<H.size();i++) for(size_t j=0;j<H.size();j++) { std::vector<Opt> l; l.push_back(H[i]); l.push_back(H[j]); HL.push_back(l); }
	out=HL;
	if(depth>=maxdepth) return;
	int nm = depth==1 ? 2 : 1;
	for(size_t x=0;x<HL.size();x++) for(int m=1;m<=nm;m++) for(size_t k=0;k<=HL[x].size();k++) {
		Opt mo; mo.mount=true; mo.pat=mpat(m); mo.re=regex_text(mo.pat,rxv); mo.sel.push_back(ngroups(mo.pat)); mo.child=0;
		std::vector<Opt> l(HL[x].begin(),HL[x].begin()+k); l.push_back(mo); l.insert(l.end(),HL[x].begin()+k,HL[x].end());
		out.push_back(l);
	}
}
static void run_cfg_requests(Cfg const &c,std::vector<std::string> const &reqs,std::vector<std::string> const &meths)
{
	tr.line("{\"e\":\"Reset\"}");
	tr.line(jcfg(c,""));
	node_app::by_id().clear();
	node_app root(*g_srv,c,1); n_cfg++;
	for(size_t m=0;m<meths.size();m++) for(size_t r=0;r<reqs.size();r++) do_req(root,meths[m],reqs[r]);
	// a word of a language followed by a line end is only a PREFIX match: paths and methods
	static const char *nl[3]={"\n","\r\n","\n/a"};
	for(size_t r=0;r<reqs.size() && r<6;r++) {
		for(int k=0;k<3;k++) do_req(root,"GET",reqs[r]+nl[k]);
		do_req(root,"GET\n",reqs[r]); do_req(root,"POST\r\n",reqs[r]); do_req(root,"GET\nX",reqs[r]);
		do_req(root,"GET|POST",reqs[r]); do_req(root,"(GET|POST)",reqs[r]); do_req(root,"",reqs[r]);     // the filter text itself, the empty method
	}
}
static void mode_fam(int maxseg,int shard,int nshards)
{
	std::vector<std::string> reqs; requests(maxseg,reqs);
	std::vector<std::string> meths; meths.push_back("GET"); meths.push_back("POST"); meths.push_back("get");
	std::vector<std::vector<Opt> > L1,L2,L3;
	level_lists(1,3,0,L1);
	size_t c2=0,c3=0;
	for(size_t i=0;i<L1.size();i++) {
		if((int)(i%nshards)!=shard) continue;
		unsigned rxv=i%4;
		level_lists(2,3,rxv,L2); level_lists(3,3,rxv,L3);
		Cfg c; c.push_back(Node()); c[0].opts=L1[i];
		for(size_t k=0;k<c[0].opts.size();k++) { Opt &o=c[0].opts[k]; if(!o.mount) o.re=regex_text(o.pat,rxv); else o.re=regex_text(o.pat,rxv); }
		// children cycle through the level lists of the deeper levels
		for(size_t k=0;k<c[0].opts.size();k++) if(c[0].opts[k].mount) {
			Node n2; n2.parent=1; n2.opts=L2[(c2++*7+i)%L2.size()];
			c.push_back(n2); c[0].opts[k].child=2;
			for(size_t q=0;q<c[1].opts.size();q++) if(c[1].opts[q].mount) {
				Node n3; n3.parent=2; n3.opts=L3[(c3++*5+i)%L3.size()];
				c.push_back(n3); c[1].opts[q].child=3;
			}
		}
		run_cfg_requests(c,reqs,meths);
	}
}

// ------------------------------------------------------------------ random trees
static const char *VOC[]={"a","ab","b","page","p1","x_y","1","12"};
static std::string sample_el(El const &e,vt::rng &rnd,bool edge)
{
	if(e.k=="lit") return e.s;
	if(e.k=="d") { static const char *v[]={"1","12","007","9"}; return v[rnd(4)]; }
	if(e.k=="w") { static const char *v[]={"a","a1","page","x_y","ab","Z"}; return v[rnd(6)]; }
	if(e.k=="any") { static const char *v[]={"","a","a/1","-","a-b/c","//"}; return v[rnd(edge?6:3)]; }
	if(e.k=="alt") return e.o[rnd(e.o.size())];
	if(e.k=="os") return rnd(2)?"/":"";
	static const char *v[]={"","/","/a","/a/1","/page/12"}; return v[rnd(5)];
}
static std::string sample_pat(Pat const &p,vt::rng &rnd,std::vector<std::string> *groups=0)
{
	std::string r;
	for(size_t i=0;i<p.size();i++) { std::string s=sample_el(p[i],rnd,true); r+=s; if(groups && is_group(p[i])) groups->push_back(s); }
	return r;
}
static Pat rnd_pat(vt::rng &rnd,bool mount)
{
	Pat p; int segs=rnd(4)+(mount?1:0); bool any_used=false; int groups=0;
	if(!mount && rnd(12)==0) { p.push_back(G("any")); return p; }
	if(!mount && rnd(12)==0) return p;      // the empty pattern: matches only ""
	for(int i=0;i<segs;i++) {
		unsigned k=rnd(10);
		if(k<4 || groups>=6) p.push_back(L(std::string("/")+VOC[rnd(8)]));
		else {
			p.push_back(L("/"));
			if(k<6) p.push_back(G("d"));
			else if(k<8) p.push_back(G("w"));
			else if(k<9) p.push_back(rnd(2)?ALT("a","ab"):ALT("page","p1","b"));
			else if(!any_used && !mount) { p.push_back(G("any")); any_used=true; }
			else p.push_back(G("w"));
			groups++;
		}
	}
	if(mount) p.push_back(G("rest"));
	else if(!p.empty() && p.back().k!="any" && rnd(4)==0) p.push_back(G("os"));
	// merge adjacent literals sometimes left separate on purpose (same language)
	return p;
}
static Meth rnd_meth(vt::rng &rnd)
{
	Meth m;
	switch(0) {
	default: break;
	}
	if(rnd(5)<3) return meth_family(rnd(13));
	return m;
}
static int build_rnd(Cfg &c,int parent,int depth,vt::rng &rnd,int &hid,std::string const &dpath=std::string())
{
	c.push_back(Node()); int me=c.size();
	c[me-1].parent=parent;
	int nh=1+rnd(6); int nm = depth<4 ? rnd(depth==1?3:2) : 0;
	std::vector<int> kinds; for(int i=0;i<nh;i++) kinds.push_back(0); for(int i=0;i<nm;i++) kinds.insert(kinds.begin()+rnd(kinds.size()+1),1);
	int cn=0;
	for(size_t i=0;i<kinds.size();i++) {
		Opt o; unsigned rxv=rnd(4);
		if(kinds[i]) {
			o.mount=true; o.pat=rnd_pat(rnd,true); o.re=regex_text(o.pat,rxv); o.sel.push_back(ngroups(o.pat));
			// the literal path under which the child is reached: a sample of the mount pattern without the rest
			std::string t; for(size_t k=0;k+1<o.pat.size();k++) t+=sample_el(o.pat[k],rnd,false);
			int ch=build_rnd(c,me,depth+1,rnd,hid,dpath+t); o.child=ch;
			static const int wires[20]={0,0,0,0,0,0,0,1,1,2,2,2,3,3,3,3,4,5,5,5};
			int w=wires[rnd(20)];
			c[ch-1].wire=w;
			if(w==0||w==2||w==3) { c[ch-1].mname="c"+itos(++cn); c[ch-1].mt=t+"{1}"; c[ch-1].mparent=me; }
			else c[ch-1].mroot=dpath+t;      // top of its own mapper hierarchy: root string = the path it is reached by
		}
		else {
			o.id=++hid; o.pat=rnd_pat(rnd,false);
			if(rnd(5)==0 && !c[me-1].opts.empty() && !c[me-1].opts[rnd(c[me-1].opts.size())].mount) o.pat=c[me-1].opts[rnd(c[me-1].opts.size())].pat;   // duplicate language
			if(o.pat.empty() || !is_group(o.pat[0])) {}
			o.re=regex_text(o.pat,rxv);
			int n=ngroups(o.pat);
			unsigned sk=rnd(4);
			if(sk==0) for(int k=1;k<=n;k++) o.sel.push_back(k);
			else if(sk==1) for(int k=n;k>=1;k--) o.sel.push_back(k);
			else { int l=rnd(7); for(int k=0;k<l;k++) o.sel.push_back(rnd(n+1)); }
			o.meth=rnd_meth(rnd);
			o.api = o.meth.kind ? 1 : (int)rnd(3);
			if(o.api==0 && o.sel.size()>6) o.sel.resize(6);
			// mapper key for handlers whose selection is the identity (parameters come back as arguments)
			// (URLs of mounted children must be empty or start with "/": the mount regex hands on "" or "/...")
			bool slash_ok = parent==0 || o.pat.empty() || (o.pat[0].k=="lit" && o.pat[0].s[0]=='/');
			if(sk<=1 && rnd(3) && n<=6 && slash_ok) { KeyE k; k.key="k"+itos(o.id%5); k.ar=n; k.t=tmpl_text(o.pat); k.hid=o.id;
				if(rnd(3)==0) { int g=0; for(size_t q=0;q<o.pat.size();q++) if(is_group(o.pat[q])) { g++; if(o.pat[q].k=="w" && !k.kw) k.kw=g; }
					if(k.kw) { k.t=tmpl_text_kw(o.pat,k.kw); k.ar=n-1; } }
				bool dup=false; for(size_t q=0;q<c[me-1].keys.size();q++) if(c[me-1].keys[q].key==k.key && c[me-1].keys[q].ar==k.ar) dup=true;
				if(!dup) c[me-1].keys.push_back(k); }
		}
		c[me-1].opts.push_back(o);
	}
	if(rnd(3)==0) { KeyE k; k.key=""; k.ar=0; k.t="/"; k.hid=0; c[me-1].keys.push_back(k); }
	return me;
}
static std::string edit(std::string s,vt::rng &rnd)
{
	static const char al[]="/a1b-_ A.\n\r";
	switch(rnd(5)) {
	case 0: s.insert(rnd(s.size()+1),1,al[rnd(11)]); break;
	case 1: if(!s.empty()) s.erase(rnd(s.size()),1); break;
	case 2: if(!s.empty()) s[rnd(s.size())]=al[rnd(11)]; break;
	case 3: { static const char *nl[]={"\n","\r\n","\n/a","\nx"}; s+=nl[rnd(4)]; } break;   // word + line end (+ more text)
	default: s+=al[rnd(11)]; break;
	}
	return s;
}
// a URL in the language of some option reachable from node n (descending through mounts)
static std::string sample_url(Cfg const &c,int n,vt::rng &rnd,int depth=0)
{
	Node const &nd=c[n-1];
	if(nd.opts.empty()) return "/";
	Opt const &o=nd.opts[rnd(nd.opts.size())];
	if(!o.mount || depth>4) return sample_pat(o.pat,rnd);
	std::string r;
	for(size_t i=0;i+1<o.pat.size();i++) r+=sample_el(o.pat[i],rnd,false);
	return r+sample_url(c,o.child,rnd,depth+1);
}
static void mode_rand(long configs,long reqs,vt::rng &rnd)
{
	static const char *ms[]={"GET","POST","get","PUT","DELETE","GETX","GE","Get","GET\n","POST\n","DELETE\r\n","GET\nX","get\n","PUT\n"};
	for(long ci=0;ci<configs;ci++) {
		Cfg c; int hid=0; build_rnd(c,0,1,rnd,hid);
		std::string prefix = rnd(3)==0 ? "/script.cgi" : "";
		tr.line("{\"e\":\"Reset\"}");
		for(size_t i=0;i<c.size();i++) if(!c[i].mparent) c[i].mroot=prefix+c[i].mroot;
		tr.line(jcfg(c,prefix,true));
		node_app::by_id().clear(); g_unmanaged.clear(); g_approots.clear();
		node_app root(*g_srv,c,1); n_cfg++;
		struct cleanup { ~cleanup() { for(size_t i=0;i<g_unmanaged.size();i++) delete g_unmanaged[i]; g_unmanaged.clear(); g_approots.clear(); } } cleanup_guard;
		// every top of a mapper hierarchy: root string and the default of the {lang} helper
		for(size_t i=0;i<c.size();i++) if(!c[i].mparent) {
			cppcms::url_mapper &mp=node_app::by_id()[i+1]->mapper();
			if(!c[i].mroot.empty()) mp.root(c[i].mroot);
			mp.set_value("lang",helper_val(i+1));
		}
		std::vector<Meth> filters;
		for(size_t n=0;n<c.size();n++) for(size_t q=0;q<c[n].opts.size();q++) if(!c[n].opts[q].mount && c[n].opts[q].meth.kind) filters.push_back(c[n].opts[q].meth);
		for(long r=0;r<reqs;r++) {
			std::string p;
			unsigned k=rnd(10);
			if(k<5) p=sample_url(c,1,rnd);
			else if(k<9) { p=sample_url(c,1,rnd); p=edit(p,rnd); if(rnd(3)==0) p=edit(p,rnd); }
			else { size_t l=rnd(8); for(size_t i=0;i<l;i++) p+="/a1b-_"[rnd(6)]; }
			std::string mth=ms[rnd(rnd(2)?2:14)];
			if(!filters.empty() && rnd(2)) {
				Meth const &f=filters[rnd(filters.size())];
				std::string w=f.set[rnd(f.set.size())];
				switch(rnd(5)) {
				case 0: case 1: mth=w; break;                                        // inside the language
				case 2: mth=f.text; break;                                           // the filter text itself as method
				case 3: mth=w; for(size_t i=0;i<mth.size();i++) if(mth[i]>='A'&&mth[i]<='Z') mth[i]+=32; break;   // lower case
				default: mth=rnd(2)?std::string():w+"X"; break;                      // empty / one letter more
				}
			}
			do_req(root,mth,p);
		}
		// every key of every node, from every node, in every form
		for(size_t t=0;t<c.size();t++) for(size_t ki=0;ki<c[t].keys.size();ki++) {
			KeyE const &ke=c[t].keys[ki];
			// path in the MAPPER hierarchy: top -> t
			std::vector<int> chain;
			for(int x=t+1;x!=0;x=c[x-1].mparent) chain.insert(chain.begin(),x);
			// parameters from the languages of the groups of the handler's pattern
			Pat pat; std::string hm="GET";
			for(size_t q=0;q<c[t].opts.size();q++) if(!c[t].opts[q].mount && c[t].opts[q].id==ke.hid) { pat=c[t].opts[q].pat; if(c[t].opts[q].meth.kind) hm=c[t].opts[q].meth.set[0]; }
			for(int rep=0;rep<2;rep++) {
				std::vector<std::string> params,full,kwn; if(ke.hid) sample_pat(pat,rnd,&params);
				full=params;
				if(ke.kw) {      // the helper group: default value of the mapper top or a keyword parameter (first actual parameter)
					std::string v=params[ke.kw-1]; params.erase(params.begin()+ke.kw-1);
					if(rep==0) full[ke.kw-1]=helper_val(chain[0]); else { kwn.push_back("lang"); params.insert(params.begin(),v); }
				}
				for(size_t a=0;a<c.size();a++) {
					std::vector<int> ac;
					for(int x=a+1;x!=0;x=c[x-1].mparent) ac.insert(ac.begin(),x);
					if(ac[0]!=chain[0]) continue;      // keys are resolved inside the caller's mapper hierarchy
					// common prefix of the two chains
					size_t cp=0; while(cp<ac.size() && cp<chain.size() && ac[cp]==chain[cp]) cp++;
					std::vector<std::string> rel;
					for(size_t u=cp;u<ac.size();u++) rel.push_back("..");
					for(size_t d=cp;d<chain.size();d++) rel.push_back(c[chain[d]-1].mname);
					std::vector<std::string> absk; for(size_t d=1;d<chain.size();d++) absk.push_back(c[chain[d]-1].mname);
					if(!ke.key.empty()) { rel.push_back(ke.key); absk.push_back(ke.key); }
					else if(rel.empty()) rel.push_back(".");
					if(rnd(3)==0) rel.insert(rel.begin(),".");
					do_map(root,prefix,a+1,false,rel,params,t+1,ke.hid,hm,kwn,full);
					if(rep==0) do_map(root,prefix,a+1,true,absk,params,t+1,ke.hid,hm,kwn,full);
				}
			}
			// wrong arity / unknown key
			std::vector<std::string> bad; bad.push_back(ke.key.empty()?"nokey":ke.key);
			std::vector<std::string> ps(ke.ar+1,"1");
			if(ps.size()<=6) do_map(root,prefix,t+1,false,bad,ps,0,0);
		}
	}
}

// ------------------------------------------------------------------ mount points / applications pool
// every mounted application carries the id of its mount so that the pool a look-up returns can be identified
class leaf_app : public cppcms::application {
public:
	leaf_app(cppcms::service &s,int t=0) : cppcms::application(s), tag(t) {}
	int tag;
};
struct MP { std::string sel; bool hh,hs,hp; Pat host,script,path; int grp; unsigned rxv; };
static std::string jopt(bool has,Pat const &p,unsigned rxv) { return has ? "{\"els\":"+jpat(p)+",\"re\":"+jstr(regex_text(p,rxv))+"}" : "{\"nil\":true}"; }
static Pat host_pat(vt::rng &rnd)
{
	Pat p;
	switch(rnd(4)) {
	case 0: p.push_back(L("www.example.com")); break;
	case 1: p.push_back(G("any")); p.push_back(L(".example.com")); break;
	case 2: p.push_back(ALT("a.org","b.org")); break;
	default: p.push_back(G("w")); p.push_back(L(".org")); break;
	}
	return p;
}
static std::string jmp(MP const &m)
{
	return "{\"sel\":\""+m.sel+"\",\"host\":"+jopt(m.hh,m.host,m.rxv)+",\"script\":"+jopt(m.hs,m.script,m.rxv)+",\"path\":"+jopt(m.hp,m.path,m.rxv)+",\"grp\":"+itos(m.grp)+"}";
}
static cppcms::mount_point real_mp(MP const &m)
{
	return cppcms::mount_point(m.sel=="path"?cppcms::mount_point::match_path_info:cppcms::mount_point::match_script_name,
		m.hh?booster::regex(regex_text(m.host,m.rxv)):booster::regex(),
		m.hs?booster::regex(regex_text(m.script,m.rxv)):booster::regex(),
		m.hp?booster::regex(regex_text(m.path,m.rxv)):booster::regex(),m.grp);
}
static const char *SCRIPTS[]={"","/app","/app2","/ap","/app/x","/a","/ab"};
static MP rnd_mp(vt::rng &rnd)
{
	MP m; m.rxv=rnd(4); m.sel=rnd(3)?"path":"script"; m.hh=rnd(2); m.hs=rnd(2); m.hp=rnd(4)!=0;
	if(m.hh) m.host=host_pat(rnd);
	bool selpath=m.sel=="path";
	if(m.hs) { m.script = selpath ? Pat(1,L(SCRIPTS[1+rnd(6)])) : rnd_pat(rnd,rnd(2)); }
	if(m.hp) { m.path = selpath ? rnd_pat(rnd,rnd(2)) : rnd_pat(rnd,false); }
	Pat const &sp = selpath ? m.path : m.script;
	bool hsel = selpath ? m.hp : m.hs;
	m.grp = (hsel && rnd(2)) ? (int)rnd(ngroups(sp)+1) : 0;
	return m;
}
// overlapping mount points: prefixes of one path (/api/v1/users, /api/v1, /api, catch-all), different group
// selections, optionally a host pattern; the languages are nested, so the registration order decides
static MP nested_mp(std::vector<std::string> const &segs,vt::rng &rnd,bool on_script)
{
	MP m; m.rxv=rnd(4); m.sel=on_script?"script":"path"; m.hh=rnd(4)==0; m.hs=false; m.hp=false; m.grp=0;
	if(m.hh) m.host=host_pat(rnd);
	Pat p; size_t k=rnd(segs.size()+1);
	if(k==0) { if(rnd(2)) { p.push_back(G("any")); } }            // catch-all: (.*) or no pattern at all
	else { std::string lit; for(size_t i=0;i<k;i++) lit+=segs[i]; p.push_back(L(lit)); p.push_back(G("rest")); }
	bool has=!p.empty();
	if(on_script) { m.hs=has; m.script=p; } else { m.hp=has; m.path=p; }
	if(has && rnd(3)) m.grp=ngroups(p);
	return m;
}
static cppcms::json::value g_cfgjson;

struct PMount {
	int id; std::string kind,api; MP mp; bool gone,got;
	booster::shared_ptr<cppcms::application_specific_pool> pool;      // known for pool mounts (or once a look-up returned it)
	booster::intrusive_ptr<leaf_app> obj;                             // legacy asynchronous application object
};
static void mode_pool(long configs,long reqs,vt::rng &rnd)
{
	static const char *hosts[]={"www.example.com","x.example.com","example.com","www.example.com.evil","a.org","b.org","ab.org","a.orgx","wwwXexample.com",""};
	for(long ci=0;ci<configs;ci++) {
		// a fresh service per configuration: legacy mounts cannot be unmounted
		cppcms::service srv(g_cfgjson);
		cppcms::applications_pool &ap=srv.applications_pool();
		std::vector<PMount> ms;
		bool nested=rnd(2); bool on_script=nested && rnd(4)==0;
		std::vector<std::string> segs; { size_t ns=2+rnd(2); for(size_t i=0;i<ns;i++) segs.push_back(std::string("/")+VOC[rnd(8)]); }
		tr.line("{\"e\":\"Reset\"}"); n_cfg++;
		size_t planned=2+rnd(5);
		int legacy_bias=rnd(3);       // 0: mostly pool mounts, 1: mixed, 2: mostly legacy objects
		for(long r=0;r<reqs || ms.size()<planned;r++) {
			// ---- registration / unmount / destruction, interleaved with the look-ups
			bool do_mount = ms.size()<planned && (ms.size()<2 || rnd(6)==0 || r>=reqs);
			if(do_mount) {
				PMount m; m.id=ms.size()+1; m.gone=false; m.got=false;
				m.mp = nested ? nested_mp(segs,rnd,on_script) : rnd_mp(rnd);
				unsigned k=rnd(6);
				bool leg = legacy_bias==2 ? k<5 : (legacy_bias==1 ? k<3 : k<1);
				cppcms::mount_point mp=real_mp(m.mp);
				if(leg) {
					m.kind="legacy"; m.api="object";
					m.obj=new leaf_app(srv,m.id);
					ap.mount(booster::intrusive_ptr<cppcms::application>(m.obj.get()),mp);
				}
				else {
					m.kind="pool";
					switch(rnd(4)) {
					case 0: m.api="pool-async"; m.pool=cppcms::create_pool<leaf_app>(m.id); ap.mount(m.pool,mp,cppcms::app::asynchronous); break;
					case 1: m.api="pool-sync"; m.pool=cppcms::create_pool<leaf_app>(m.id); ap.mount(m.pool,mp,cppcms::app::synchronous); break;
					case 2: m.api="pool-sync-tls"; m.pool=cppcms::create_pool<leaf_app>(m.id); ap.mount(m.pool,mp,cppcms::app::synchronous|cppcms::app::thread_specific); break;
					default: m.api="factory"; ap.mount(cppcms::applications_factory<leaf_app>(m.id),mp); break;
					}
				}
				tr.line("{\"e\":\"PMount\",\"id\":"+itos(m.id)+",\"kind\":\""+m.kind+"\",\"api\":\""+m.api+"\",\"mp\":"+jmp(m.mp)+"}");
				ms.push_back(m);
				continue;
			}
			if(rnd(12)==0) {
				// destroy a legacy application that has served a request / unmount a pool we hold
				std::vector<size_t> cand;
				for(size_t i=0;i<ms.size();i++) if(!ms[i].gone && ((ms[i].kind=="legacy" && ms[i].got) || (ms[i].kind=="pool" && ms[i].pool))) cand.push_back(i);
				if(!cand.empty()) {
					PMount &m=ms[cand[rnd(cand.size())]];
					if(m.kind=="legacy") m.obj=booster::intrusive_ptr<leaf_app>(); else ap.unmount(m.pool);
					m.gone=true;
					tr.line("{\"e\":\"PGone\",\"id\":"+itos(m.id)+",\"how\":\""+(m.kind=="legacy"?"destroyed":"unmount")+"\"}");
				}
			}
			// ---- a look-up
			PMount const &t=ms[rnd(ms.size())];
			MP const &m=t.mp;
			std::string h = (m.hh && rnd(2)) ? sample_pat(m.host,rnd) : hosts[rnd(10)];
			std::string sc = (m.hs && rnd(3)) ? sample_pat(m.script,rnd) : SCRIPTS[rnd(7)];
			std::string p = (m.hp && rnd(3)) ? sample_pat(m.path,rnd) : std::string("/")+VOC[rnd(8)];
			if(nested) {
				// prefixes of the common path followed by a sub-path: several nested mount points match
				std::string pre; size_t k=rnd(segs.size()+1); for(size_t i=0;i<k;i++) pre+=segs[i];
				static const char *sub[]={"","/","/users","/x/1","x"};
				std::string *dst = on_script ? &sc : &p;
				*dst=pre+sub[rnd(5)];
				if(m.hh && rnd(3)) h=sample_pat(m.host,rnd);
			}
			unsigned nm=rnd(nested?8:4);
			if(nm==0) { switch(rnd(3)) { case 0: h=edit(h,rnd); break; case 1: sc=edit(sc,rnd); break; default: p=edit(p,rnd); } }
			else if(nm==1) {
				// everything in the languages of this mount point, then ONE part gets a line end appended:
				// host / non-selected part / selected part (group 0 or not) must all be matched entirely
				h = m.hh ? sample_pat(m.host,rnd) : hosts[rnd(10)];
				sc = m.hs ? sample_pat(m.script,rnd) : SCRIPTS[rnd(7)];
				p = m.hp ? sample_pat(m.path,rnd) : std::string("/")+VOC[rnd(8)];
				static const char *nl[]={"\n","\r\n","\nx","\n/a"};
				std::string *tt[3]={&h,&sc,&p}; bool has[3]={m.hh,m.hs,m.hp};
				int w=rnd(3); for(int k=0;k<3 && !has[w];k++) w=(w+1)%3;
				*tt[w]+=nl[rnd(4)];
			}
			std::string matched;
			booster::shared_ptr<cppcms::application_specific_pool> pl=ap.get_application_specific_pool(h.c_str(),sc.c_str(),p.c_str(),matched);
			int idx=0;
			if(pl) {
				// which mount is it?  ask the pool for its application and read the tag
				booster::intrusive_ptr<cppcms::application> a=pl->get(srv);
				leaf_app *la=dynamic_cast<leaf_app *>(a.get());
				idx = la ? la->tag : -1;
				if(idx>0 && idx<=(int)ms.size()) { ms[idx-1].got=true; if(!ms[idx-1].pool && ms[idx-1].kind=="pool") ms[idx-1].pool=pl; }
			}
			n_req++;
			tr.line("{\"e\":\"PReq\",\"h\":"+jbytes(h)+",\"s\":"+jbytes(sc)+",\"p\":"+jbytes(p)+",\"idx\":"+itos(idx)+",\"matched\":"+jbytes(idx?matched:"")+"}");
		}
		// release the legacy applications before the service goes
		for(size_t i=0;i<ms.size();i++) ms[i].obj=booster::intrusive_ptr<leaf_app>();
	}
}

int main(int argc,char **argv)
{
	if(argc<2) { fprintf(stderr,"usage\n"); return 2; }
	std::string mode=argv[1];
	tr.open();
	vt::rng rnd(vt::envl("VERIF_SEED",1)*7919ull+mode.size()+(argc>2?atol(argv[2]):0));
	int rc=0;
	try {
		cppcms::json::value cfg;
		cfg["service"]["api"]="http"; cfg["service"]["port"]=0; cfg["service"]["worker_threads"]=1;
		cfg["logging"]["level"]="emergency";
		cfg["session"]["disable_automatic_load"]=true;
		cfg["misc"]["invalid_url_throws"]=true;
		g_cfgjson=cfg;
		cppcms::service srv(cfg); g_srv=&srv;
		booster::aio::io_service ios; g_ios=&ios;
		if(mode=="fam") mode_fam(atoi(argv[2]),argc>3?atoi(argv[3]):0,argc>4?atoi(argv[4]):1);
		else if(mode=="rand") mode_rand(atol(argv[2]),atol(argv[3]),rnd);
		else if(mode=="pool") mode_pool(atol(argv[2]),atol(argv[3]),rnd);
		else { fprintf(stderr,"unknown mode\n"); rc=2; }
		g_srv=0;
	}
	catch(std::exception const &e) { fprintf(stderr,"route_drv: exception %s\n",e.what()); rc=3; }
	tr.close();
	printf("configs=%lu requests=%lu maps=%lu\n",n_cfg,n_req,n_map);
	return rc;
}
