// C16 driver: cppcms::crypto::message_digest / hmac / cbc / key against libcrypto (OpenSSL EVP, the
// stand-in for "the standard") and libgcrypt (second reference).  One ND-JSON event per API call;
// TLC (spec/Crypto/CryptoTrace.tla) re-derives what every call must have returned.
//
//   crypto_drv kat <kat_inputs.txt>         the known-answer inputs of CryptoKat.tla
//   crypto_drv short <algo>                 byte-carrying messages: lengths x 2-chunkings x reuse x clone
//   crypto_drv long <algo>                  described messages (no bytes in the trace): 3 implementations
//   crypto_drv hmac <algo>                  hmac objects + the digest events of the inner / outer messages
//   crypto_drv cbc                          cbc objects + single-block table + round trips
//   crypto_drv key                          hexadecimal keys (string / char* / set_hex / file)
//   crypto_drv huge                         sha1 over 2^29 bytes, md5 with one 2^31-byte append
// tier (VERIF_TIER) selects the size of every family; every random choice derives from VERIF_SEED.
#include "common/vtrace.h"
#include <cppcms/crypto.h>
#include <cppcms/config.h>
#include <booster/backtrace.h>
#include <openssl/evp.h>
#include <openssl/hmac.h>
#include <gcrypt.h>
#include <sys/mman.h>
#include <memory>
#include <map>
#include <set>
#include <string>
#include <vector>
#include <algorithm>
#include <stdexcept>

using namespace cppcms::crypto;
typedef std::string bytes;

static vt::out tr;
static bool thorough=false;
static uint64_t seed=1;
static long nevents=0;

static void emit(vt::J &j) { tr.line(j.str()); nevents++; }
static void reset() { vt::J j; j.s("e","Reset"); emit(j); }

// ------------------------------------------------------------------ references
static bytes evp_digest(std::string const &a,void const *p,size_t n)
{
	EVP_MD const *md=EVP_get_digestbyname(a.c_str());
	if(!md) throw std::runtime_error("EVP: no "+a);
	unsigned char out[EVP_MAX_MD_SIZE]; unsigned len=0;
	EVP_MD_CTX *c=EVP_MD_CTX_new();
	EVP_DigestInit_ex(c,md,0); EVP_DigestUpdate(c,p,n); EVP_DigestFinal_ex(c,out,&len);
	EVP_MD_CTX_free(c);
	return bytes((char*)out,len);
}
static bytes evp_digest(std::string const &a,bytes const &m) { return evp_digest(a,m.data(),m.size()); }
static int gcry_algo(std::string const &a)
{
	if(a=="md5") return GCRY_MD_MD5; if(a=="sha1") return GCRY_MD_SHA1; if(a=="sha224") return GCRY_MD_SHA224;
	if(a=="sha256") return GCRY_MD_SHA256; if(a=="sha384") return GCRY_MD_SHA384; if(a=="sha512") return GCRY_MD_SHA512;
	return 0;
}
static bytes gcry_digest(std::string const &a,bytes const &m)
{
	int al=gcry_algo(a);
	bytes out(gcry_md_get_algo_dlen(al),'\0');
	gcry_md_hash_buffer(al,&out[0],m.data(),m.size());
	return out;
}
static bytes evp_hmac(std::string const &a,bytes const &key,bytes const &m)
{
	unsigned char out[EVP_MAX_MD_SIZE]; unsigned len=0;
	static const unsigned char none=0;
	HMAC(EVP_get_digestbyname(a.c_str()),key.empty()?(void const*)&none:(void const*)key.data(),(int)key.size(),
		(unsigned char const*)m.data(),m.size(),out,&len);
	return bytes((char*)out,len);
}
static EVP_CIPHER const *evp_cipher(std::string const &a,bool ecb)
{
	if(a=="aes128") return ecb?EVP_aes_128_ecb():EVP_aes_128_cbc();
	if(a=="aes192") return ecb?EVP_aes_192_ecb():EVP_aes_192_cbc();
	return ecb?EVP_aes_256_ecb():EVP_aes_256_cbc();
}
static bytes evp_crypt(std::string const &a,bool ecb,bool enc,bytes const &key,bytes const &iv,bytes const &in)
{
	EVP_CIPHER_CTX *c=EVP_CIPHER_CTX_new();
	EVP_CipherInit_ex(c,evp_cipher(a,ecb),0,(unsigned char const*)key.data(),ecb?0:(unsigned char const*)iv.data(),enc?1:0);
	EVP_CIPHER_CTX_set_padding(c,0);
	bytes out(in.size()+32,'\0'); int l1=0,l2=0;
	EVP_CipherUpdate(c,(unsigned char*)&out[0],&l1,(unsigned char const*)in.data(),(int)in.size());
	EVP_CipherFinal_ex(c,(unsigned char*)&out[0]+l1,&l2);
	EVP_CIPHER_CTX_free(c);
	out.resize(l1+l2);
	return out;
}
static bytes gcry_ecb(std::string const &a,bytes const &key,bytes const &x)
{
	int al = a=="aes128"?GCRY_CIPHER_AES128 : a=="aes192"?GCRY_CIPHER_AES192 : GCRY_CIPHER_AES256;
	gcry_cipher_hd_t h=0; bytes out(x.size(),'\0');
	if(gcry_cipher_open(&h,al,GCRY_CIPHER_MODE_ECB,0) || gcry_cipher_setkey(h,key.data(),key.size())
	   || gcry_cipher_encrypt(h,&out[0],out.size(),x.data(),x.size())) throw std::runtime_error("gcrypt ecb");
	gcry_cipher_close(h);
	return out;
}

// ------------------------------------------------------------------ data
static bytes rnd_bytes(vt::rng &r,size_t n)
{
	bytes b(n,'\0');
	for(size_t i=0;i<n;i++) b[i]=(char)(r.next()>>24);
	return b;
}
// described messages: "prng:<seed>:<len>" and "rep:<byte>:<count>"; filled piecewise so that huge ones need no buffer
struct described {
	std::string d; uint64_t len; int rep; vt::rng r;
	described(uint64_t s,uint64_t n) : len(n), rep(-1), r(s) { char b[64]; snprintf(b,sizeof(b),"prng:%llu:%llu",(unsigned long long)s,(unsigned long long)n); d=b; }
	described(int byte,uint64_t n,bool) : len(n), rep(byte), r(1) { char b[64]; snprintf(b,sizeof(b),"rep:%d:%llu",byte,(unsigned long long)n); d=b; }
	bytes all() { if(rep>=0) return bytes(len,(char)rep); vt::rng c=r; return rnd_bytes(c,len); }
};

static std::vector<size_t> random_chunks(vt::rng &r,size_t n,unsigned maxparts)
{
	std::vector<size_t> c;
	unsigned parts=1+r(maxparts);
	size_t left=n;
	for(unsigned i=1;i<parts && left>0;i++) {
		size_t k = r.chance(1,6) ? 0 : (r.chance(1,3) ? r((unsigned)std::min<size_t>(left,130)+1) : r((unsigned)left+1));
		c.push_back(k); left-=k;
	}
	c.push_back(left);
	return c;
}

// ------------------------------------------------------------------ digest objects (logged)
struct dobj {
	int id; std::unique_ptr<message_digest> p; std::string a;
};
static bool make(dobj &o,int id,std::string const &a,int how,message_digest const *proto=0)
{
	o.id=id; o.a=a;
	char const *hn="name";
	if(how==2 && proto) { o.p.reset(proto->clone()); hn="clone"; }
	else if(how==1 && a=="md5") { o.p=message_digest::md5(); hn="static"; }
	else if(how==1 && a=="sha1") { o.p=message_digest::sha1(); hn="static"; }
	else if(how==3) { std::string up=a; for(size_t i=0;i<up.size();i++) up[i]=toupper(up[i]); o.p=message_digest::create_by_name(up); hn="NAME"; }
	else o.p=message_digest::create_by_name(a);
	if(!o.p.get()) return false;
	vt::J j; j.s("e","New").i("o",id).s("a",a).s("how",hn); emit(j);
	return true;
}
static void append(dobj &o,bytes const &b)
{
	o.p->append(b.data(),b.size());
	vt::J j; j.s("e","Append").i("o",o.id).bytes("b",b); emit(j);
}
static bytes readout(dobj &o)
{
	bytes out(o.p->digest_size()+8,'\xee');            // 8 canary bytes behind the digest
	o.p->readout(&out[0]);
	bool over=false; for(size_t i=o.p->digest_size();i<out.size();i++) if(out[i]!='\xee') over=true;
	out.resize(o.p->digest_size());
	if(over) out+="overrun";                           // wrong size => refused by the specification
	vt::J j; j.s("e","Readout").i("o",o.id).bytes("out",out); emit(j);
	return out;
}
static void ref(std::string const &a,bytes const &m,bool gcry=false)
{
	{ vt::J j; j.s("e","Ref").s("a",a).s("impl","evp").bytes("m",m).bytes("out",evp_digest(a,m)); emit(j); }
	if(gcry) { vt::J j; j.s("e","Ref").s("a",a).s("impl","gcry").bytes("m",m).bytes("out",gcry_digest(a,m)); emit(j); }
}
static bool algo_info(std::string const &a)
{
	std::unique_ptr<message_digest> d=message_digest::create_by_name(a);
	vt::J j; j.s("e","Algo").s("a",a).b("avail",d.get()!=0);
	if(d.get()) j.i("bs",d->block_size()).i("ds",d->digest_size()).s("name",d->name());
	emit(j);
	return d.get()!=0;
}

// one message, bytes in the trace: libcrypto, a fresh object in one piece, object `re` in the given chunkings
static void short_group(std::string const &a,bytes const &m,dobj &re,std::vector<std::vector<size_t> > const &chunkings,int fresh_how,bool gcry=false)
{
	ref(a,m,gcry);
	dobj f; make(f,0,a,fresh_how,re.p.get()); append(f,m); readout(f);
	for(size_t c=0;c<chunkings.size();c++) {
		size_t pos=0;
		for(size_t k=0;k<chunkings[c].size();k++) { append(re,m.substr(pos,chunkings[c][k])); pos+=chunkings[c][k]; }
		readout(re);
	}
}

// ------------------------------------------------------------------ modes
static std::vector<std::string> all_algos()
{
	char const *n[]={"md5","sha1","sha224","sha256","sha384","sha512"};
	return std::vector<std::string>(n,n+6);
}
static bytes unhex(std::string const &h)
{
	if(h=="-") return bytes();
	bytes b; for(size_t i=0;i+1<h.size();i+=2) b+=(char)strtol(h.substr(i,2).c_str(),0,16);
	return b;
}

static void hmac_group(std::string const &a,bytes const &key,std::vector<bytes> const &msgs,vt::rng &r,bool gcry);
static void described_group(std::string const &a,described &dm,vt::rng &r,bool gcry);

static int mode_kat(char const *file)
{
	FILE *f=fopen(file,"r"); if(!f) { perror(file); return 3; }
	vt::rng r(seed*77+1);
	std::vector<std::string> al=all_algos();
	bool allavail=true;
	reset();
	for(size_t i=0;i<al.size();i++) if(!algo_info(al[i])) allavail=false;
	char kind[8],a[32]; static char x[1<<16],y[1<<16];
	bool rep=false;
	while(fscanf(f,"%7s %31s %65535s",kind,a,x)==3) {
		std::unique_ptr<message_digest> probe=message_digest::create_by_name(a);
		if(kind[0]=='H') { if(fscanf(f,"%65535s",y)!=1) return 3; }
		if(!probe.get()) continue;
		reset();
		if(kind[0]=='D') {
			bytes m=unhex(x);
			dobj re; make(re,1,a,(int)r(4));
			std::vector<std::vector<size_t> > ch;
			ch.push_back(std::vector<size_t>(1,m.size()));
			for(int k=0;k<4;k++) ch.push_back(random_chunks(r,m.size(),4));
			short_group(a,m,re,ch,(int)r(2),true);
		}
		else if(kind[0]=='R') {
			int byte=0; unsigned long long n=0; sscanf(x,"rep:%d:%llu",&byte,&n);
			described dm(byte,n,true);
			described_group(a,dm,r,true);
			rep=true;
		}
		else {
			std::vector<bytes> ms; ms.push_back(unhex(y));
			hmac_group(a,unhex(x),ms,r,true);
		}
	}
	fclose(f);
	vt::J j; j.s("e","End").b("kat",allavail).b("rep",rep); emit(j);
	return 0;
}

static int mode_short(std::string const &a)
{
	vt::rng r(seed*1000003+a.size()*31+a[a.size()-1]);
	reset();
	if(!algo_info(a)) return 0;
	unsigned B = (a=="sha384"||a=="sha512") ? 128 : 64;
	unsigned lenf = B/8;                       // length field: 8 resp. 16 bytes
	// lengths whose every 2-chunking is driven
	std::set<unsigned> full;
	if(thorough) for(unsigned n=0;n<=(B==64?3*B+2:2*B+2);n++) full.insert(n);
	else {
		for(unsigned n=0;n<=20;n++) full.insert(n);
		unsigned w[]={B-lenf-2,B-lenf-1,B-lenf,B-1,B,B+1,2*B-lenf-1,2*B-lenf,2*B,2*B+1};
		for(unsigned i=0;i<sizeof(w)/sizeof(w[0]);i++) full.insert(w[i]);
	}
	unsigned maxlen = thorough ? 520 : 300;
	for(unsigned n=0;n<=maxlen;n++) {
		reset();
		bytes m=rnd_bytes(r,n);
		if(r.chance(1,8)) m.assign(n,(char)(r.chance(1,2)?0x00:0xff));   // degenerate contents too
		dobj re; make(re,1,a,(int)r(4));
		if(r.chance(1,3)) { bytes past=rnd_bytes(r,r(70)); ref(a,past); append(re,past); readout(re); }   // the reused object has a past
		std::vector<std::vector<size_t> > ch;
		if(full.count(n)) {
			for(unsigned c=0;c<=n;c++) { std::vector<size_t> v; v.push_back(c); v.push_back(n-c); ch.push_back(v); }
		}
		else {
			unsigned cuts[]={1,B-1,B,B+1,n>0?n-1:0,r(n+1),r(n+1)};
			for(unsigned i=0;i<sizeof(cuts)/sizeof(cuts[0]);i++) if(cuts[i]<=n) { std::vector<size_t> v; v.push_back(cuts[i]); v.push_back(n-cuts[i]); ch.push_back(v); }
		}
		for(int k=0;k<(thorough?6:3);k++) ch.push_back(random_chunks(r,n,6));
		{ std::vector<size_t> v(n,1); if(n<=2*B+2 && (thorough || n%7==0 || full.count(n))) ch.push_back(v); }   // byte by byte
		short_group(a,m,re,ch,(int)r(3),n%16==0);
		// clone of an object with pending data starts empty
		if(n%5==0) {
			bytes junk=rnd_bytes(r,1+r(B+3));
			ref(a,junk);
			append(re,junk);
			dobj c; make(c,2,a,2,re.p.get()); append(c,m); readout(c);
			readout(re);          // the original still holds exactly what it was fed
		}
	}
	// object reuse across 1..5 messages, interleaved on two objects
	for(int rounds=0;rounds<(thorough?400:60);rounds++) {
		reset();
		dobj x,y; make(x,1,a,(int)r(4)); make(y,2,a,2,x.p.get());
		int k=1+r(5);
		std::vector<bytes> mx,my;
		for(int i=0;i<k;i++) {
			unsigned base[]={0,B-lenf-1,B-lenf,B-1,B,B+1,2*B-lenf,2*B};
			bytes m1=rnd_bytes(r,r.chance(1,2)?base[r(8)]:r(2*B+40)),m2=rnd_bytes(r,r(2*B+40));
			ref(a,m1); ref(a,m2);
			std::vector<size_t> c1=random_chunks(r,m1.size(),4),c2=random_chunks(r,m2.size(),4);
			size_t p1=0,p2=0;
			for(size_t s=0;s<std::max(c1.size(),c2.size());s++) {       // interleave the appends of x and y
				if(s<c1.size()) { append(x,m1.substr(p1,c1[s])); p1+=c1[s]; }
				if(s<c2.size()) { append(y,m2.substr(p2,c2[s])); p2+=c2[s]; }
			}
			if(r.chance(1,2)) { readout(x); readout(y); } else { readout(y); readout(x); }
		}
	}
	return 0;
}

// a described message through: libcrypto, a fresh object in one piece, a reused object in random chunks
static dobj long_re;
static void described_group(std::string const &a,described &dm,vt::rng &r,bool gcry)
{
	bytes m=dm.all();
	{ vt::J j; j.s("e","Digest").s("impl","ref").s("a",a).s("d",dm.d).i("len",m.size()).a("chunks",std::vector<size_t>(1,m.size())).bytes("out",evp_digest(a,m)); emit(j); }
	if(gcry) { vt::J j; j.s("e","Digest").s("impl","gcry").s("a",a).s("d",dm.d).i("len",m.size()).a("chunks",std::vector<size_t>(1,m.size())).bytes("out",gcry_digest(a,m)); emit(j); }
	{
		std::unique_ptr<message_digest> f=message_digest::create_by_name(a);
		f->append(m.data(),m.size());
		bytes out(f->digest_size(),'\0'); f->readout(&out[0]);
		vt::J j; j.s("e","Digest").s("impl","fresh").s("a",a).s("d",dm.d).i("len",m.size()).a("chunks",std::vector<size_t>(1,m.size())).bytes("out",out); emit(j);
	}
	if(!long_re.p.get() || long_re.a!=a) { long_re.p=message_digest::create_by_name(a); long_re.a=a; }
	unsigned B=long_re.p->block_size();
	size_t n=m.size();
	size_t cuts[]={1,B-1,B,B+1,n-n%B,n>0?n-1:0,n>B?n-n%B-1:0,n/2,(size_t)r((unsigned)std::min<size_t>(n,1u<<30)+1),(size_t)r((unsigned)std::min<size_t>(n,1u<<30)+1)};
	int ncuts = n>(1u<<16) ? 2 : (thorough?10:4);
	for(int k=0;k<2+ncuts;k++) {
		std::vector<size_t> c;
		if(k<2) c=random_chunks(r,m.size(),k?16:3);
		else { size_t cut=cuts[thorough?k-2:(k-2)*2+(int)r(2)]; if(cut>n) cut=n; c.push_back(cut); c.push_back(n-cut); }
		size_t pos=0;
		for(size_t i=0;i<c.size();i++) { long_re.p->append(m.data()+pos,c[i]); pos+=c[i]; }
		bytes out(long_re.p->digest_size(),'\0'); long_re.p->readout(&out[0]);
		vt::J j; j.s("e","Digest").s("impl","chunked").s("a",a).s("d",dm.d).i("len",m.size()).a("chunks",c).bytes("out",out); emit(j);
	}
}

static int mode_long(std::string const &a)
{
	vt::rng r(seed*7919+a.size()*131+a[a.size()-1]);
	reset();
	if(!algo_info(a)) return 0;
	unsigned B = (a=="sha384"||a=="sha512") ? 128 : 64;
	std::vector<uint64_t> lens;
	if(thorough) { for(unsigned n=0;n<=4096+B;n++) lens.push_back(n); }
	else {
		for(unsigned n=300;n<=4096+B;n++) { unsigned m=n%B; if(m<=1 || m>=B-B/8-2 ) lens.push_back(n); }
	}
	for(int i=0;i<(thorough?300:40);i++) lens.push_back(4200+r(1<<(thorough?20:17)));
	uint64_t pw[]={1<<16,(1<<16)+1,(1<<20)-9,1<<20,(1<<22)+55};
	for(unsigned i=0;i<(thorough?5u:3u);i++) lens.push_back(pw[i]);
	long before=nevents;
	for(size_t i=0;i<lens.size();i++) {
		if(nevents-before>400) { reset(); before=nevents; }
		described dm(seed*100000+i,lens[i]);
		described_group(a,dm,r,thorough || i%8==0);
	}
	return 0;
}

// ---- hmac ------------------------------------------------------------------------------------------
static bytes own_digest(dobj &o,bytes const &m)    // the implementation's own H, logged, plus libcrypto on the same bytes
{
	append(o,m); bytes out=readout(o);
	return out;
}
static void hmac_group(std::string const &a,bytes const &key,std::vector<bytes> const &msgs,vt::rng &r,bool gcry)
{
	std::unique_ptr<message_digest> probe=message_digest::create_by_name(a);
	unsigned B=probe->block_size();
	dobj d; make(d,0,a,0);
	bytes kp=key;
	if(key.size()>B) { ref(a,key,gcry); kp=own_digest(d,key); }
	kp.resize(B,'\0');
	bytes ki=kp,ko=kp;
	for(unsigned i=0;i<B;i++) { ki[i]^=0x36; ko[i]^=0x5c; }
	// the hmac object under test; reused for all messages of the group
	int how=r(2);
	std::unique_ptr<hmac> h;
	cppcms::crypto::key K(key.data(),key.size());
	if(how) h.reset(new hmac(message_digest::create_by_name(a),K)); else h.reset(new hmac(a,K));
	{ vt::J j; j.s("e","HNew").i("o",1).s("a",a).bytes("key",key).i("ds",h->digest_size()); emit(j); }
	for(size_t n=0;n<msgs.size();n++) {
		bytes const &m=msgs[n];
		bytes inner=ki+m;
		ref(a,inner,gcry);
		bytes ih=own_digest(d,inner);
		bytes outer=ko+ih;
		ref(a,outer,gcry);
		own_digest(d,outer);
		std::vector<size_t> c=random_chunks(r,m.size(),4);
		size_t pos=0;
		for(size_t i=0;i<c.size();i++) {
			h->append(m.data()+pos,c[i]);
			vt::J j; j.s("e","HAppend").i("o",1).bytes("b",m.substr(pos,c[i])); emit(j);
			pos+=c[i];
		}
		bytes out(h->digest_size()+8,'\xee');
		h->readout(&out[0]);
		bool over=false; for(size_t i=h->digest_size();i<out.size();i++) if(out[i]!='\xee') over=true;
		out.resize(h->digest_size()); if(over) out+="overrun";
		{ vt::J j; j.s("e","HReadout").i("o",1).bytes("out",out); emit(j); }
		{ vt::J j; j.s("e","HRef").s("a",a).bytes("key",key).bytes("msg",m).bytes("out",evp_hmac(a,key,m)); emit(j); }
	}
}

static int mode_hmac(std::string const &a)
{
	vt::rng r(seed*104729+a.size()*17+a[a.size()-1]);
	reset();
	if(!algo_info(a)) return 0;
	unsigned B = (a=="sha384"||a=="sha512") ? 128 : 64;
	unsigned L = evp_digest(a,bytes()).size();
	unsigned lenf=B/8;
	std::vector<unsigned> klens;
	if(thorough) for(unsigned k=0;k<=3*B+1;k++) klens.push_back(k);
	else {
		unsigned ks[]={0,1,2,15,16,L-1,L,L+1,B-2,B-1,B,B+1,B+2,B+L,2*B-1,2*B,2*B+1,3*B-1,3*B,3*B+1};
		klens.assign(ks,ks+sizeof(ks)/sizeof(ks[0]));
		for(int i=0;i<6;i++) klens.push_back(r(3*B+2));
	}
	// text lengths: the inner message is B + len, so the padding boundaries of H are met at the same residues
	unsigned tl[]={0,1,3,B-lenf-2,B-lenf-1,B-lenf,B-lenf+1,B-1,B,B+1};
	for(size_t i=0;i<klens.size();i++) {
		reset();
		bytes key=rnd_bytes(r,klens[i]);
		if(r.chance(1,10)) key.assign(klens[i],(char)0x36);       // K xor ipad = 0
		if(r.chance(1,10)) key.assign(klens[i],(char)0x00);
		std::vector<bytes> ms;
		int k=1+r(5);                                             // the hmac object signs 1..5 texts
		for(int j=0;j<k;j++) {
			unsigned n = r.chance(2,3) ? tl[r(10)] : r(B+12);
			ms.push_back(rnd_bytes(r,n));
		}
		hmac_group(a,key,ms,r,i%16==0);
	}
	// texts at every length up to B+8 under one short and one long key
	for(int kk=0;kk<2;kk++) {
		bytes key=rnd_bytes(r,kk?B+7:20);
		for(unsigned n=0;n<=B+8;) {
			reset();
			std::vector<bytes> ms;
			for(int j=0;j<5 && n<=B+8;j++,n++) ms.push_back(rnd_bytes(r,n));
			hmac_group(a,key,ms,r,false);
		}
	}
	// long texts / keys: agreement with libcrypto only (no bytes in the trace)
	reset();
	for(int i=0;i<(thorough?1500:150);i++) {
		unsigned klen = r.chance(1,2) ? r(3*B+2) : (r.chance(1,2)?L:B);
		unsigned n = i<2*(int)B+40 && thorough ? 200+i : 150+r(thorough?20000:4200);
		bytes key=rnd_bytes(r,klen),m=rnd_bytes(r,n);
		cppcms::crypto::key K(key.data(),key.size());
		hmac h(a,K);
		int rounds=1+r(3);
		for(int q=0;q<rounds;q++) {                              // same object again: ready after readout
			if(q) m=rnd_bytes(r,r(4200));
			std::vector<size_t> c=random_chunks(r,m.size(),6);
			size_t pos=0; for(size_t s=0;s<c.size();s++) { h.append(m.data()+pos,c[s]); pos+=c[s]; }
			bytes out(h.digest_size(),'\0'); h.readout(&out[0]);
			vt::J j; j.s("e","HSum").s("a",a).i("klen",klen).i("len",m.size()).a("chunks",c).bytes("out",out).bytes("ref",evp_hmac(a,key,m)); emit(j);
		}
		if(i%200==199) reset();
	}
	return 0;
}

// ---- cbc -------------------------------------------------------------------------------------------
static std::set<bytes> blk_done;
static void need_blk(std::string const &a,bytes const &key,bytes const &x)
{
	if(!blk_done.insert(a+key+x).second) return;
	{ vt::J j; j.s("e","Blk").s("impl","evp").s("a",a).bytes("key",key).bytes("x",x).bytes("y",evp_crypt(a,true,true,key,bytes(),x)); emit(j); }
	{ vt::J j; j.s("e","Blk").s("impl","gcry").s("a",a).bytes("key",key).bytes("x",x).bytes("y",gcry_ecb(a,key,x)); emit(j); }
	// the implementation's own E: a new cbc object, zero iv, one block
	std::unique_ptr<cbc> c=cbc::create(a);
	c->set_key(cppcms::crypto::key(key.data(),key.size()));
	bytes z(16,'\0'); c->set_iv(z.data(),16);
	bytes y(16,'\0'); c->encrypt(x.data(),&y[0],16);
	{ vt::J j; j.s("e","Blk").s("impl","cbc1").s("a",a).bytes("key",key).bytes("x",x).bytes("y",y); emit(j); }
}
static bytes xor16(bytes const &p,bytes const &q) { bytes o(16,'\0'); for(int i=0;i<16;i++) o[i]=p[i]^q[i]; return o; }

struct cobj_t { int id; std::unique_ptr<cbc> p; std::string a; bytes key; bool eK,dK; bytes ivE,ivD; };
static bytes c_enc(cobj_t &o,bytes const &in)
{
	bytes out(in.size(),'\0');
	o.p->encrypt(in.data(),in.empty()?(void*)"":(void*)&out[0],in.size());
	bytes prev=o.ivE;
	for(size_t i=0;i*16<in.size();i++) {
		if(i>0 || o.eK) need_blk(o.a,o.key,xor16(in.substr(i*16,16),prev));
		prev=out.substr(i*16,16);
	}
	if(!in.empty()) { o.eK=true; o.ivE=prev; }
	vt::J j; j.s("e","CEnc").i("o",o.id).bytes("in",in).bytes("out",out); emit(j);
	return out;
}
static bytes c_dec(cobj_t &o,bytes const &in)
{
	bytes out(in.size(),'\0');
	o.p->decrypt(in.data(),in.empty()?(void*)"":(void*)&out[0],in.size());
	// what E must be known for: x_i = D(c_i), computed by libcrypto (not from the output under test)
	for(size_t i=0;i*16<in.size();i++)
		if(i>0 || o.dK) need_blk(o.a,o.key,evp_crypt(o.a,true,false,o.key,bytes(),in.substr(i*16,16)));
	if(!in.empty()) { o.dK=true; o.ivD=in.substr(in.size()-16); }
	vt::J j; j.s("e","CDec").i("o",o.id).bytes("in",in).bytes("out",out); emit(j);
	return out;
}
static void c_iv(cobj_t &o,bytes const &iv)
{
	o.p->set_iv(iv.data(),iv.size()); o.eK=o.dK=true; o.ivE=o.ivD=iv;
	vt::J j; j.s("e","CIv").i("o",o.id).bytes("iv",iv); emit(j);
}
static void c_nonce(cobj_t &o)
{
	o.p->set_nonce_iv(); o.eK=o.dK=false;
	vt::J j; j.s("e","CNonce").i("o",o.id); emit(j);
}
static bool c_new(cobj_t &o,int id,std::string const &a,bytes const &key,vt::rng &r)
{
	char const *alt128[]={"aes","AES","aes128","aes-128","AES128","AES-128"};
	char const *alt192[]={"aes192","aes-192","AES192","AES-192"};
	char const *alt256[]={"aes256","aes-256","AES256","AES-256"};
	std::string name = a=="aes128" ? alt128[r(6)] : a=="aes192" ? alt192[r(4)] : alt256[r(4)];
	if(r.chance(1,3)) o.p=cbc::create(a=="aes128"?cbc::aes128:a=="aes192"?cbc::aes192:cbc::aes256);
	else o.p=cbc::create(name);
	if(!o.p.get()) return false;
	o.id=id; o.a=a; o.key=key; o.eK=o.dK=false;
	{ vt::J j; j.s("e","CNew").i("o",id).s("a",a).s("name",name).i("ks",o.p->key_size()).i("bs",o.p->block_size()); emit(j); }
	o.p->set_key(cppcms::crypto::key(key.data(),key.size()));
	{ vt::J j; j.s("e","CKey").i("o",id).bytes("key",key); emit(j); }
	return true;
}

static int mode_cbc()
{
	vt::rng r(seed*31337+5);
	char const *as[]={"aes128","aes192","aes256"};
	unsigned ks[]={16,24,32};
	reset();
	for(int rounds=0;rounds<(thorough?600:90);rounds++) {
		int ai=rounds%3;
		std::string a=as[ai];
		reset(); blk_done.clear();
		bytes key=rnd_bytes(r,ks[ai]),iv=rnd_bytes(r,16),iv2=rnd_bytes(r,16);
		cobj_t o;
		if(!c_new(o,1,a,key,r)) continue;                         // built without a cipher library
		unsigned nb=r(5);                                         // 0..4 blocks
		bytes p=rnd_bytes(r,16*nb);
		if(r.chance(1,6)) p.assign(16*nb,'\0');
		// encrypt in 1..3 calls from iv, decrypt on the same object (its decrypt chain still starts at iv)
		c_iv(o,iv);
		std::vector<size_t> c=random_chunks(r,nb,3);
		bytes ct; size_t pos=0;
		for(size_t i=0;i<c.size();i++) { ct+=c_enc(o,p.substr(pos*16,c[i]*16)); pos+=c[i]; }
		std::vector<size_t> d=random_chunks(r,nb,3);
		pos=0;
		for(size_t i=0;i<d.size();i++) { c_dec(o,ct.substr(pos*16,d[i]*16)); pos+=d[i]; }
		// wrong iv: only the first block may differ, and exactly by iv xor iv2
		c_iv(o,iv2); c_dec(o,ct);
		// a second object decrypts what the first produced
		cobj_t o2; c_new(o2,2,a,key,r); c_iv(o2,iv); c_dec(o2,ct);
		// the session-cookie pattern: random iv, a throw-away zero block in front, no iv transmitted
		cobj_t o3; c_new(o3,3,a,key,r); c_nonce(o3);
		for(int q=0;q<2;q++) {                                   // the object is used for several cookies
			bytes in=bytes(16,'\0')+rnd_bytes(r,16*(1+r(3)));
			bytes out=c_enc(o3,in);
			c_dec(o3,out);
			cobj_t o4; c_new(o4,4,a,key,r); c_nonce(o4); c_dec(o4,out);   // another process / node
		}
	}
	// round trips on longer data
	reset();
	for(int i=0;i<(thorough?300:45);i++) {
		int ai=i%3; std::string a=as[ai];
		bytes key=rnd_bytes(r,ks[ai]),iv=rnd_bytes(r,16);
		unsigned nb = i<18 ? i/3 : (i%5==0 ? 256 : 1+r(64));
		bytes p=rnd_bytes(r,16*nb);
		std::unique_ptr<cbc> c1=cbc::create(a),c2=cbc::create(a);
		if(!c1.get()) continue;
		cppcms::crypto::key K(key.data(),key.size());
		c1->set_key(K); c1->set_iv(iv.data(),16);
		bytes ct(p.size(),'\0'),back(p.size(),'\0'),back2(p.size(),'\0');
		c1->encrypt(p.data(),&ct[0],p.size());
		c1->set_iv(iv.data(),16);
		c1->decrypt(ct.data(),&back[0],ct.size());
		c2->set_iv(iv.data(),16); c2->set_key(K);                 // other order of the setters
		c2->decrypt(ct.data(),&back2[0],ct.size());
		vt::J j; j.s("e","Cbc").s("a",a).bytes("key",key).bytes("iv",iv).bytes("plain",p).bytes("cipher",ct)
			.bytes("back",back).bytes("back2",back2).bytes("ref",evp_crypt(a,false,true,key,iv,p)); emit(j);
		if(i%10==9) reset();
	}
	return 0;
}

// ---- keys ------------------------------------------------------------------------------------------
static void key_event(char const *how,bytes const &text,bool ok,cppcms::crypto::key const &k)
{
	vt::J j; j.s("e","Key").s("how",how).bytes("text",text).b("ok",ok);
	if(ok) j.bytes("bytes",bytes(k.data(),k.size())); else j.bytes("bytes",bytes());
	emit(j);
}
static void try_key(bytes const &t,std::string const &dir,int n)
{
	{ cppcms::crypto::key k; bool ok=true; try { k=cppcms::crypto::key(std::string(t)); } catch(booster::invalid_argument const &) { ok=false; } key_event("str",t,ok,k); }
	{ cppcms::crypto::key k; bool ok=true; try { k=cppcms::crypto::key(t.c_str()); } catch(booster::invalid_argument const &) { ok=false; } key_event("cstr",t,ok,k); }
	{ cppcms::crypto::key k; bool ok=true; try { k.set_hex(t.data(),t.size()); } catch(booster::invalid_argument const &) { ok=false; } key_event("hex",t,ok,k); }
	{
		char fn[64]; snprintf(fn,sizeof(fn),"/key%d.txt",n);
		std::string path=dir+fn;
		FILE *f=fopen(path.c_str(),"wb"); if(!f) { perror(path.c_str()); exit(3); }
		fwrite(t.data(),1,t.size(),f); fclose(f);
		cppcms::crypto::key k; bool ok=true;
		try { k.read_from_file(path); } catch(booster::invalid_argument const &) { ok=false; } catch(booster::runtime_error const &) { ok=false; }
		key_event("file",t,ok,k);
		remove(path.c_str());
	}
}
static int mode_key()
{
	vt::rng r(seed*2718281+3);
	char const *w=getenv("VERIF_WORK");
	std::string dir=w?w:".";
	reset();
	char const *fixed[]={"","0","00","0f","F0","aB","abcdef0123456789ABCDEF","0g","g0","0G","/0",":0","@a","`a","a ","a\n","ab\n","ab \r\n\t"," ab","ab cd",
		"0x10","-1","+1","1e","ff\n\n","\n"," ","  \t","zz","0123456789abcdeF0123456789abcde","0123456789abcdeF0123456789abcdef\n"};
	int n=0;
	for(size_t i=0;i<sizeof(fixed)/sizeof(fixed[0]);i++) try_key(fixed[i],dir,n++);
	try_key(bytes("ab\0cd",5),dir,n++);
	try_key(bytes("\0",1),dir,n++);
	try_key(bytes("ab\0",3),dir,n++);
	static char const alpha[]="0123456789abcdefABCDEF0123456789abcdefgGzZ/:@` \n\t\r-x";
	for(int i=0;i<(thorough?4000:400);i++) {
		unsigned len=r(r.chance(1,4)?140:12);
		bytes t;
		bool clean=r.chance(1,2);
		for(unsigned k=0;k<len;k++) t+= clean ? alpha[r(38)] : (r.chance(1,30)?(char)r(256):alpha[r(sizeof(alpha)-1)]);
		if(r.chance(1,4)) t+= r.chance(1,2)?"\n":" \r\n";
		try_key(t,dir,n++);
		if(i%100==99) reset();
	}
	// every byte value in each nibble position
	reset();
	for(int c=0;c<256;c++) { bytes t="00"; t[0]=(char)c; try_key(t,dir,n++); t="00"; t[1]=(char)c; try_key(t,dir,n++); }
	return 0;
}

// ---- huge ------------------------------------------------------------------------------------------
static int mode_huge()
{
	reset();
	size_t N=(size_t)1<<31;
	void *z=mmap(0,N,PROT_READ,MAP_PRIVATE|MAP_ANONYMOUS|MAP_NORESERVE,-1,0);   // 2 GiB of the shared zero page
	if(z==MAP_FAILED) { perror("mmap"); return 3; }
	struct item { char const *a; uint64_t len; uint64_t piece; } items[]={
		{"sha1",(uint64_t)1<<29,1<<20},          // bit length 2^32: needs the upper half of the length field
		{"md5",(uint64_t)1<<31,(uint64_t)1<<31}, // one append of 2^31 bytes
		{"md5",(uint64_t)1<<29,1<<20},
		{"sha256",(uint64_t)1<<29,1<<20},
		{"sha512",(uint64_t)1<<29,(uint64_t)1<<29},
	};
	for(unsigned i=0;i<(thorough?5u:2u);i++) {
		reset();
		std::string a=items[i].a;
		std::unique_ptr<message_digest> d=message_digest::create_by_name(a);
		if(!d.get()) continue;
		described dm(0,items[i].len,true);
		std::vector<uint64_t> chunks;
		uint64_t left=items[i].len;
		while(left>0) { uint64_t k=std::min(left,items[i].piece); d->append(z,k); chunks.push_back(k); left-=k; }
		bytes out(d->digest_size(),'\0'); d->readout(&out[0]);
		// TLC integers are 32 bit: lengths are logged in KiB units (all of them are multiples of 1024, +5 is logged apart)
		std::vector<uint64_t> ck; for(size_t k=0;k<chunks.size();k++) ck.push_back(chunks[k]>>10);
		uint64_t sum=0; for(size_t k=0;k<ck.size();k++) sum+=ck[k];
		{ vt::J j; j.s("e","Digest").s("impl","ref").s("a",a).s("d",dm.d).i("len",items[i].len>>10).a("chunks",std::vector<uint64_t>(1,items[i].len>>10)).s("unit","KiB").bytes("out",evp_digest(a,z,items[i].len)); emit(j); }
		{ vt::J j; j.s("e","Digest").s("impl","chunked").s("a",a).s("d",dm.d).i("len",sum).a("chunks",ck).s("unit","KiB").bytes("out",out); emit(j); }
	}
	return 0;
}

int main(int argc,char **argv)
{
	if(argc<2) { fprintf(stderr,"usage: crypto_drv kat <file>|short <algo>|long <algo>|hmac <algo>|cbc|key|huge\n"); return 2; }
	seed=vt::envl("VERIF_SEED",1);
	char const *t=getenv("VERIF_TIER"); thorough = t && std::string(t)=="thorough";
	gcry_check_version(NULL);
	tr.open();
	std::string m=argv[1];
	int rc=2;
	try {
		if(m=="kat" && argc>2) rc=mode_kat(argv[2]);
		else if(m=="short" && argc>2) rc=mode_short(argv[2]);
		else if(m=="long" && argc>2) rc=mode_long(argv[2]);
		else if(m=="hmac" && argc>2) rc=mode_hmac(argv[2]);
		else if(m=="cbc") rc=mode_cbc();
		else if(m=="key") rc=mode_key();
		else if(m=="huge") rc=mode_huge();
	}
	catch(std::exception const &e) {
		fprintf(stderr,"crypto_drv: exception: %s\n",e.what());
		rc=4;
	}
	tr.close();
	return rc;
}
