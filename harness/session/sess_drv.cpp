// C06 driver: runs request histories against the real session machinery
// (cppcms::session_interface over a session_pool, public "external session" API:
// session_interface(session_pool&, session_interface_cookie_adapter&)) under a fake
// clock.  No HTTP.  The cookie adapter *is* the browser's cookie jar.
//
//   jar = adv : adversarial jar - keeps every cookie until the server deletes it
//               explicitly (empty value / Max-Age=0); Max-Age is otherwise ignored.
//   jar = pol : polite jar - additionally drops cookies whose Max-Age ran out on the
//               fake clock, and drops age-less cookies on a browser restart.
//
// The server-side storage (memory | files) is wrapped in a logging decorator that is
// installed through the public session_pool::storage() seam, so every storage access
// (sid bytes, deadline) is observed, and the real storage can be probed after each
// request (Store snapshot).  Client-side cookies are signed by the pool's own hmac
// encryptor; the harness only *peeks* at the deadline of a cookie it received.
//
// One ND-JSON event per step:
//   Reset{loc,how0,age0,pol,st,drv}  Tick{d}  Tamper{b,ck,src}  Expire{b}  Restart{b}
//   Req{b,now,ck,hon}  St{op,sid,sb,found,dl}*  Loaded{ok,m,age,how,srv}
//   Op{op,...,ga,gh,gs}*  St{...}*  Saved{threw,ck,sc}  Jar{xc}  Store{s}      (ga/gh/gs: age(), expiration(), on_server() after the op)
// Cookie strings are interned (same string <=> same id); sid s shares the id of cookie "I"+s.
//
// usage: sess_drv exh  <loc> <expire> <storage> <jar> <depth> <maxops> [keys]
//        sess_drv rand <loc> <expire> <storage> <jar> <browsers> <requests> <execs>
//        sess_drv same <loc> <expire> <storage> <jar>          (same-length replacement of every value family member)
//        sess_drv script <loc> <expire> <storage> <jar>        (script on stdin)
#include "common/vtrace.h"
#include "common/fakeclock.h"
#include <cppcms/session_pool.h>
#include <cppcms/session_interface.h>
#include <cppcms/session_storage.h>
#include <cppcms/session_cookies.h>
#include <cppcms/http_cookie.h>
#include <cppcms/json.h>
#include <cppcms/base64.h>
#include <cppcms/crypto.h>
#include <cppcms/cppcms_error.h>
#include <cppcms/serialization.h>
#include <cppcms/util.h>
#include "session_memory_storage.h"
#include "session_posix_file_storage.h"
#include "hmac_encryptor.h"
#include <booster/shared_ptr.h>
#include <map>
#include <set>
#include <vector>
#include <iostream>
#include <sstream>
#include <memory>
#include <sys/stat.h>
#include <unistd.h>

using namespace cppcms;

static vt::out tr;
static const int AGE0 = 100;          // session.timeout
static const int LIMIT = 96;          // session.client_size_limit
static const char *HKEY = "0123456789abcdef0123456789abcdef";
static const char *PREFIX = "sc";

static std::string g_loc, g_exp, g_storage, g_jar;
static bool polite=false;
static int how0=0;

static long rel(time_t t) { long long d=(long long)t-(long long)vt::clock_base; if(d>2000000000LL) d=2000000000LL; if(d<-2000000000LL) d=-2000000000LL; return (long)d; }
static long nowrel() { return rel(vt::fake_now); }

// ---------------------------------------------------------------- interning
static std::map<std::string,int> intern_map;
static int intern(std::string const &s)
{
	if(s.empty()) return 0;
	std::map<std::string,int>::iterator p=intern_map.find(s);
	if(p!=intern_map.end()) return p->second;
	int id=(int)intern_map.size()+1;
	intern_map[s]=id;
	return id;
}
static char const *kind_of(std::string const &c)
{
	if(c.empty()) return "N";
	if(c[0]=='C') return "C";
	if(c[0]=='I') return "I";
	return "J";
}

// ---------------------------------------------------------------- values
// Session values are *byte strings*, drawn from an adversarial family (NUL first / in the middle / last, values that
// are equal as C strings but differ behind a NUL, differ only in the last byte, only in bytes >= 0x80, and the blobs
// store_data() writes for a serializable object whose members changed without changing the serialized size).  Two
// values of one family member always have the same length (the serial number is a fixed-width tag), so "replace v
// by v' of the same length" is one more operation.  In the trace a value is its interned id (same bytes <=> same id;
// 0 = empty string): a value read back that was never written gets an id of its own and cannot match.
struct blob_a : public cppcms::serializable {       // [len=4][int][len=8][double]
	int hits; double d;
	void serialize(cppcms::archive &a) { a & hits & d; }
};
struct blob_b : public cppcms::serializable {       // [len=4][int][len=9][9 characters]
	int a0; std::string name;
	void serialize(cppcms::archive &a) { a & a0 & name; }
};
static const int NFAM=10;
static std::map<std::string,int> val_ids;
static std::map<std::string,int> val_fam;
static int vid(std::string const &s)
{
	if(s.empty()) return 0;
	std::map<std::string,int>::iterator p=val_ids.find(s);
	if(p!=val_ids.end()) return p->second;
	int id=(int)val_ids.size()+1;
	val_ids[s]=id;
	return id;
}
static std::string famval(long n,int fam,bool big)
{
	char tag[16]; snprintf(tag,sizeof(tag),"%06ld",n%1000000);
	std::string t(tag,6), hi;
	for(int i=0;i<6;i++) hi+=char(0x80+(tag[i]-'0')*7);
	std::string r;
	switch(fam) {
	case 0: r="T"+t; break;                                        // plain text
	case 1: r=std::string("\0",1)+t; break;                        // NUL is the first byte
	case 2: r=std::string("ab\0",3)+t; break;                      // equal as C strings, differ behind the NUL
	case 3: r=t+std::string("\0",1); break;                        // NUL is the last byte
	case 4: r=std::string("k\0same\0",7)+t.substr(0,5)+std::string(1,char(1+n%250)); break; // (mostly) only the last byte differs
	case 5: r=std::string("\0\x80",2)+hi; break;                   // differ only in bytes >= 0x80, behind a NUL
	case 6: r=std::string("\xff\xfe",2)+hi; break;                 // bytes >= 0x80, no NUL
	case 7: { blob_a o; o.hits=(int)n; o.d=n*0.5; cppcms::serialization_traits<blob_a>::save(o,r); } break;
	case 8: { blob_b o; o.a0=7; o.name="n:"+t+"!"; cppcms::serialization_traits<blob_b>::save(o,r); } break;
	default: r=t.substr(0,3)+std::string("\0\0",2)+t.substr(3); break;   // two NULs in the middle
	}
	if(big) r+=std::string(120,'x');
	val_fam[r]=fam;
	return r;
}

// ---------------------------------------------------------------- storage decorator
static std::set<std::string> known_sids;      // candidates probed for the Store snapshot
static bool wf_sid(std::string const &s)
{
	if(s.size()!=32) return false;
	for(size_t i=0;i<32;i++) { char c=s[i]; if(!(('0'<=c&&c<='9')||('a'<=c&&c<='f'))) return false; }
	return true;
}
struct tracked_storage : public sessions::session_storage {
	booster::shared_ptr<sessions::session_storage> inner;
	tracked_storage(booster::shared_ptr<sessions::session_storage> i) : inner(i) {}
	void note(vt::J &j,char const *op,std::string const &sid)
	{
		// path-like / malformed sids are remembered only when well-formed or actually saved
		j.s("e","St").s("op",op).i("sid",intern("I"+sid)).bytes("sb",sid.substr(0,48)).i("len",(long)sid.size());
	}
	virtual void save(std::string const &sid,time_t timeout,std::string const &in)
	{
		inner->save(sid,timeout,in);
		known_sids.insert(sid);
		vt::J j; note(j,"save",sid); j.i("dl",rel(timeout)); tr.line(j.str());
	}
	virtual bool load(std::string const &sid,time_t &timeout,std::string &out)
	{
		bool r=inner->load(sid,timeout,out);
		if(wf_sid(sid)) known_sids.insert(sid);
		vt::J j; note(j,"load",sid); j.b("found",r).i("dl",r?rel(timeout):0); tr.line(j.str());
		return r;
	}
	virtual void remove(std::string const &sid)
	{
		inner->remove(sid);
		vt::J j; note(j,"remove",sid); tr.line(j.str());
	}
	virtual bool is_blocking() { return inner->is_blocking(); }
};
struct tracked_factory : public sessions::session_storage_factory {
	std::unique_ptr<sessions::session_storage_factory> real;
	booster::shared_ptr<tracked_storage> st;
	tracked_factory(std::unique_ptr<sessions::session_storage_factory> r) : real(std::move(r)), st(new tracked_storage(real->get())) {}
	virtual booster::shared_ptr<sessions::session_storage> get() { return st; }
	virtual bool requires_gc() { return false; }
};

// ---------------------------------------------------------------- the world
struct cookie_t { std::string val; long exp; cookie_t() : exp(-1) {} };   // exp: absolute rel. time, -1 = no Max-Age
struct jar_t {
	cookie_t sess;
	std::map<std::string,cookie_t> xc;
	bool honest;
	jar_t() : honest(true) {}
};
struct setc { std::string key; std::string val; long ma; bool del; };

static std::unique_ptr<session_pool> pool;
static tracked_factory *tfactory=0;          // owned by the pool
static std::unique_ptr<sessions::encryptor> peek;
static std::vector<jar_t> jars;
static std::vector<cookie_t> history;        // every session cookie ever in any jar (for replay)
static int exec_no=0;
static long vcounter=0;
static std::string files_dir;

static long peek_deadline(std::string const &cookie,bool &ok)
{
	ok=false;
	if(cookie.size()<2 || cookie[0]!='C') return 0;
	std::string cipher,plain;
	if(!b64url::decode(cookie.substr(1),cipher)) return 0;
	if(!peek->decrypt(cipher,plain) || plain.size()<sizeof(time_t)) return 0;
	time_t t; memcpy(&t,plain.data(),sizeof(t));
	ok=true;
	return rel(t);
}

struct jar_adapter : public session_interface_cookie_adapter {
	jar_t &jar;
	std::string presented;
	std::set<std::string> names;
	std::vector<setc> sets;
	jar_adapter(jar_t &j) : jar(j)
	{
		presented=jar.sess.val;
		if(!presented.empty()) names.insert(PREFIX);
		for(std::map<std::string,cookie_t>::iterator p=jar.xc.begin();p!=jar.xc.end();++p)
			names.insert(std::string(PREFIX)+"_"+p->first);
	}
	virtual void set_cookie(http::cookie const &c)
	{
		std::string name=c.name(), key;
		std::string pf=PREFIX;
		bool sess = (name==pf);
		if(!sess) {
			if(name.compare(0,pf.size()+1,pf+"_")!=0) { key="?"+name; }
			else key=name.substr(pf.size()+1);
		}
		setc s; s.key=sess?std::string():key; s.val=c.value();
		s.ma = c.max_age_defined() ? (long)c.max_age() : -1;
		s.del = c.value().empty() || (c.max_age_defined() && c.max_age()==0);
		sets.push_back(s);
		cookie_t nc; nc.val=c.value(); nc.exp = c.max_age_defined() ? nowrel()+(long)c.max_age() : -1;
		if(sess) {
			if(s.del) jar.sess=cookie_t(); else { jar.sess=nc; history.push_back(nc); }
		}
		else {
			if(s.del) jar.xc.erase(key); else jar.xc[key]=nc;
		}
	}
	virtual std::string get_session_cookie(std::string const &name)
	{
		if(name!=PREFIX) { fprintf(stderr,"unexpected cookie name %s\n",name.c_str()); exit(4); }
		return presented;   // like HTTP: the request's cookie, whatever the response already did
	}
	virtual std::set<std::string> get_cookie_names() { return names; }
};

static std::string ckjson(cookie_t const &c,bool with_dl)
{
	vt::J j; j.s("kind",kind_of(c.val)).i("id",intern(c.val)).i("exp",c.exp);
	if(with_dl) {
		long dl=0; bool f=false;
		if(!c.val.empty() && c.val[0]=='C') dl=peek_deadline(c.val,f);
		else if(!c.val.empty() && c.val[0]=='I' && tfactory) {
			std::string sid=c.val.substr(1),out; time_t to=0;
			if(wf_sid(sid) && tfactory->st->inner->load(sid,to,out)) { f=true; dl=rel(to); }
		}
		j.i("dl",dl).b("f",f);
	}
	return j.str();
}

static void new_world(std::string const &drv,int browsers)
{
	exec_no++;
	vt::fake_now=vt::clock_base;
	json::value cfg;
	cfg.set("session.location",g_loc);
	cfg.set("session.expire",g_exp);
	cfg.set("session.timeout",AGE0);
	cfg.set("session.client_size_limit",LIMIT);
	cfg.set("session.cookies.prefix",std::string(PREFIX));
	cfg.set("session.client.encryptor",std::string("hmac"));
	cfg.set("session.client.key",std::string(HKEY));
	cfg.set("session.server.storage",g_storage);
	pool.reset(new session_pool(cfg));
	tfactory=0;
	if(g_loc!="client") {
		std::unique_ptr<sessions::session_storage_factory> real;
		if(g_storage=="memory")
			real.reset(new sessions::session_memory_storage_factory());
		else if(g_storage=="files") {
			char const *w=getenv("VERIF_WORK");
			if(!w) { fprintf(stderr,"VERIF_WORK not set\n"); exit(3); }
			std::ostringstream d; d<<w<<"/sessfiles-"<<getpid()<<"-"<<exec_no;
			files_dir=d.str();
			mkdir(files_dir.c_str(),0700);
			real.reset(new sessions::session_file_storage_factory(files_dir,2,1,false));
		}
		else { fprintf(stderr,"unknown storage\n"); exit(2); }
		tfactory=new tracked_factory(std::move(real));
		pool->storage(std::unique_ptr<sessions::session_storage_factory>(tfactory));
	}
	pool->init();
	if(!peek.get()) { sessions::impl::hmac_factory f("sha1",crypto::key(std::string(HKEY))); peek=f.get(); }
	jars.assign(browsers,jar_t());
	history.clear();
	known_sids.clear();
	tr.line(vt::J().s("e","Reset").s("loc",g_loc).i("how0",how0).i("age0",AGE0).b("pol",polite).s("st",g_storage).s("drv",drv).i("x",exec_no).i("nb",browsers).str());
}
static void end_world()
{
	pool.reset(); tfactory=0;
	if(!files_dir.empty()) {
		std::string cmd="rm -rf '"+files_dir+"'";
		if(system(cmd.c_str())) {}
		files_dir.clear();
	}
}

// ---------------------------------------------------------------- ops
struct op { int kind; std::string k; bool big; int t; };   // kind: 0 set (t = family member, -1 = rotate) 1 erase 2 clear 3 expose 4 hide 5 age 6 how 7 srv 8 reset
                                                            //       9 replace the value of k by another one of the same length (same family member)
static op mkop(int kind,std::string const &k="",bool big=false,int t=0) { op o; o.kind=kind; o.k=k; o.big=big; o.t=t; return o; }

static void apply(session_interface &s,op const &o)
{
	vt::J j; j.s("e","Op");
	switch(o.kind) {
	case 0: case 9: {
		long n=++vcounter;
		int fam = o.t>=0 ? o.t%NFAM : (int)(n%NFAM);
		bool big=o.big, same=false;
		if(o.kind==9 && s.is_set(o.k)) {
			std::string cur=s.get(o.k);
			std::map<std::string,int>::iterator p=val_fam.find(cur);
			if(p!=val_fam.end()) { fam=p->second; big=cur.size()>100; same=true; }
		}
		std::string v=famval(n,fam,big);
		if(same && v==s.get(o.k)) v=famval(n=++vcounter,fam,big);
		if(fam==7 && !big) { blob_a ob; ob.hits=(int)n; ob.d=n*0.5; s.store_data(o.k,ob); }      // through the public store_data()
		else s.set(o.k,v);
		j.s("op","set").s("k",o.k).i("v",vid(v)).b("big",big).i("fam",fam).b("same",same).i("len",(long)v.size());
	} break;
	case 1: s.erase(o.k); j.s("op","erase").s("k",o.k); break;
	case 2: s.clear(); j.s("op","clear"); break;
	case 3: s.expose(o.k); j.s("op","expose").s("k",o.k); break;
	case 4: s.hide(o.k); j.s("op","hide").s("k",o.k); break;
	case 5: s.age(o.t); j.s("op","age").i("t",o.t); break;
	case 6: s.expiration(o.t); j.s("op","how").i("h",o.t); break;
	case 7: s.on_server(o.t!=0); j.s("op","srv").b("s",o.t!=0); break;
	case 8: s.reset_session(); j.s("op","reset"); break;
	}
	// what the getters show right after the operation
	j.i("ga",s.age()).i("gh",s.expiration()).b("gs",s.on_server());
	tr.line(j.str());
}

static void tick(int d)
{
	if(d<=0) return;
	vt::fake_now+=d;
	tr.line(vt::J().s("e","Tick").i("d",d).str());
}

// the polite jar forgets cookies whose Max-Age ran out.  At the very instant now == expiry the
// browser may or may not still send the session cookie (eq_drop); exposed cookies are kept then.
static void polite_expiry(int b,bool eq_drop)
{
	jar_t &j=jars[b];
	long n=nowrel();
	if(!j.sess.val.empty() && j.sess.exp>=0 && (n>j.sess.exp || (eq_drop && n==j.sess.exp))) {
		j.sess=cookie_t();
		tr.line(vt::J().s("e","Expire").i("b",b).str());
	}
	for(std::map<std::string,cookie_t>::iterator p=j.xc.begin();p!=j.xc.end();) {
		if(p->second.exp>=0 && n>p->second.exp) j.xc.erase(p++); else ++p;
	}
}
static void restart(int b)
{
	jar_t &j=jars[b];
	if(j.sess.exp<0) j.sess=cookie_t();
	for(std::map<std::string,cookie_t>::iterator p=j.xc.begin();p!=j.xc.end();) {
		if(p->second.exp<0) j.xc.erase(p++); else ++p;
	}
	tr.line(vt::J().s("e","Restart").i("b",b).str());
}
static void tamper(int b,cookie_t const &c,char const *src)
{
	jars[b].sess=c;
	jars[b].honest=false;
	if(!c.val.empty() && c.val[0]=='I' && wf_sid(c.val.substr(1))) known_sids.insert(c.val.substr(1));
	tr.line(vt::J().s("e","Tamper").i("b",b).raw("ck",ckjson(c,false)).s("src",src).str());
}

static void request(int b,std::vector<op> const &ops,bool eq_drop=false)
{
	if(polite) polite_expiry(b,eq_drop);
	jar_t &jar=jars[b];
	jar_adapter ad(jar);
	tr.line(vt::J().s("e","Req").i("b",b).i("now",nowrel()).raw("ck",ckjson(jar.sess,false)).b("hon",jar.honest).str());
	bool threw=false; std::string what;
	{
		session_interface s(*pool,ad);
		bool ok=s.load();
		{
			std::set<std::string> ks=s.key_set();
			std::ostringstream m; m<<'['; bool first=true;
			for(std::set<std::string>::iterator p=ks.begin();p!=ks.end();++p) {
				if(!first) m<<','; first=false;
				m<<vt::J().s("k",*p).i("v",vid(s.get(*p))).b("x",s.is_exposed(*p)).str();
			}
			m<<']';
			tr.line(vt::J().s("e","Loaded").b("ok",ok).raw("m",m.str()).i("age",s.age()).i("how",s.expiration()).b("srv",s.on_server()).str());
		}
		for(size_t i=0;i<ops.size();i++) apply(s,ops[i]);
		try { s.save(); }
		catch(std::exception const &e) { threw=true; what=e.what(); }
	}
	jar.honest=true;
	{
		std::ostringstream sc; sc<<'[';
		for(size_t i=0;i<ad.sets.size();i++) {
			if(i) sc<<',';
			setc const &c=ad.sets[i];
			vt::J j; j.s("n",c.key);
			if(c.key.empty()) j.i("v",intern(c.val)); else j.i("v",vid(cppcms::util::urldecode(c.val)));
			j.i("ma",c.ma).b("del",c.del);
			sc<<j.str();
		}
		sc<<']';
		vt::J j; j.s("e","Saved").b("threw",threw).raw("ck",ckjson(jar.sess,true)).raw("sc",sc.str());
		if(threw) j.s("what",what);
		tr.line(j.str());
	}
	{
		std::ostringstream xc; xc<<'['; bool first=true;
		for(std::map<std::string,cookie_t>::iterator p=jar.xc.begin();p!=jar.xc.end();++p) {
			if(!first) xc<<','; first=false;
			xc<<vt::J().s("k",p->first).i("v",vid(cppcms::util::urldecode(p->second.val))).str();
		}
		xc<<']';
		tr.line(vt::J().s("e","Jar").raw("xc",xc.str()).str());
	}
	{
		std::ostringstream st; st<<'['; bool first=true;
		if(tfactory) {
			for(std::set<std::string>::iterator p=known_sids.begin();p!=known_sids.end();++p) {
				time_t to=0; std::string out;
				if(tfactory->st->inner->load(*p,to,out)) {
					if(!first) st<<','; first=false;
					st<<vt::J().i("sid",intern("I"+*p)).i("dl",rel(to)).str();
				}
			}
		}
		st<<']';
		tr.line(vt::J().s("e","Store").raw("s",st.str()).str());
	}
}

// ---------------------------------------------------------------- drivers
static std::vector<op> alphabet;
static void build_alphabet(int keys,bool client)
{
	alphabet.clear();
	alphabet.push_back(mkop(0,"a",false,-1));
	alphabet.push_back(mkop(0,"a",true,-1));
	alphabet.push_back(mkop(9,"a",false,-1));      // same-length replacement of a
	alphabet.push_back(mkop(1,"a"));
	alphabet.push_back(mkop(2));
	alphabet.push_back(mkop(3,"a"));
	alphabet.push_back(mkop(4,"a"));
	alphabet.push_back(mkop(5,"",false,50));
	alphabet.push_back(mkop(6,"",false,0));
	alphabet.push_back(mkop(6,"",false,1));
	alphabet.push_back(mkop(6,"",false,2));
	if(!client) {   // on_server(true) with location=client makes save() throw by contract
		alphabet.push_back(mkop(7,"",false,1));
		alphabet.push_back(mkop(7,"",false,0));
	}
	alphabet.push_back(mkop(8));
	if(keys>1) {
		alphabet.push_back(mkop(0,"b",false,-1));
		alphabet.push_back(mkop(3,"b"));
	}
}
static const int ADV[]={0,3,10,40,100,101,250};
static const int NADV=7;

// request programs: all op sequences of length <= maxops
static void gen_programs(int maxops,std::vector<std::vector<op> > &out)
{
	out.clear();
	out.push_back(std::vector<op>());
	size_t from=0;
	for(int l=1;l<=maxops;l++) {
		size_t to=out.size();
		for(size_t i=from;i<to;i++)
			for(size_t a=0;a<alphabet.size();a++) { std::vector<op> p=out[i]; p.push_back(alphabet[a]); out.push_back(p); }
		from=to;
	}
}

static std::vector<std::string> junk_cookies(vt::rng &R)
{
	std::vector<std::string> v;
	v.push_back("Ixyz");
	v.push_back("I../../../../etc/passwd");
	v.push_back("I../../../../../../../../../../xx");          // 'I' + 32 characters, path-like
	v.push_back("I0123456789abcdef0123456789abcde");            // 31 hex
	v.push_back("I0123456789abcdef0123456789abcdef0");          // 33 hex
	v.push_back("I0123456789ABCDEF0123456789ABCDEF");           // upper case
	v.push_back("Cabc");
	v.push_back("C");
	v.push_back("X0123456789abcdef0123456789abcdef");
	v.push_back("i0123456789abcdef0123456789abcdef");
	// a well-formed id that was never issued (guess / fixation attempt)
	{ std::string g="I"; for(int i=0;i<32;i++) g+="0123456789abcdef"[R(16)]; v.push_back(g); }
	// upper-cased / truncated / extended variants of ids that exist
	for(std::set<std::string>::iterator p=known_sids.begin();p!=known_sids.end() && v.size()<24;++p) {
		std::string u=*p; bool ch=false;
		for(size_t i=0;i<u.size();i++) if(u[i]>='a'&&u[i]<='f') { u[i]=u[i]-'a'+'A'; ch=true; }
		if(ch) v.push_back("I"+u);
		v.push_back("I"+p->substr(0,31));
		v.push_back("I"+*p+"0");
		v.push_back("I./"+p->substr(2));
	}
	return v;
}

static op random_op(vt::rng &R,int keys,bool client)
{
	static const char *K[]={"a","b","c","d"};
	static const int AG[]={20,50,100,200};
	for(;;) {
		unsigned c=R(100);
		std::string k=K[R(keys)];
		if(c<22) return mkop(0,k,R.chance(1,4),-1);
		if(c<30) return mkop(9,k,false,-1);
		if(c<38) return mkop(1,k);
		if(c<44) return mkop(2);
		if(c<56) return mkop(3,k);
		if(c<64) return mkop(4,k);
		if(c<74) return mkop(5,"",false,AG[R(4)]);
		if(c<84) return mkop(6,"",false,R(3));
		if(c<94) { if(client) continue; return mkop(7,"",false,R(2)); }
		return mkop(8);
	}
}

int main(int argc,char **argv)
{
	if(argc<6) { fprintf(stderr,"usage: sess_drv exh|rand|script loc expire storage jar ...\n"); return 2; }
	std::string mode=argv[1];
	g_loc=argv[2]; g_exp=argv[3]; g_storage=argv[4]; g_jar=argv[5];
	polite = (g_jar=="pol");
	how0 = g_exp=="fixed" ? 0 : g_exp=="renew" ? 1 : 2;
	bool client = (g_loc=="client");
	tr.open();
	unsigned long seed=vt::envl("VERIF_SEED",1);
	long sh_i=0,sh_n=1; if(getenv("VERIF_SHARD")) sscanf(getenv("VERIF_SHARD"),"%ld/%ld",&sh_i,&sh_n);
	vt::rng R(seed*1000003u + g_loc.size()*131 + how0*17 + (polite?5:0) + (g_storage=="files"?3:0) + (mode=="rand" ? sh_i*7919 : 0));
	long execs=0;
	if(mode=="exh") {
		if(argc<8) return 2;
		int depth=atoi(argv[6]), maxops=atoi(argv[7]);
		int keys= argc>8 ? atoi(argv[8]) : 1;
		// advance handling: "all" enumerates the advance classes too, otherwise they are drawn per execution
		bool alladv = argc>9 && std::string(argv[9])=="alladv";
		build_alphabet(keys,client);
		std::vector<std::vector<op> > progs;
		gen_programs(maxops,progs);
		static const int XADV[]={3,40,101};
		size_t P=progs.size(), A = alladv ? 3 : 1;
		std::vector<size_t> idx(depth,0);   // idx[d] in [0,P*A)
		long n=0;
		for(;;) {
			if((n++ % sh_n)==sh_i) {
				new_world("exh",1);
				for(int d=0;d<depth;d++) {
					size_t pi=idx[d]%P, ai=idx[d]/P;
					if(d>0) tick(alladv ? XADV[ai] : ADV[R(NADV)]);
					request(0,progs[pi]);
				}
				// final observation: what is left, a little later
				tick(alladv ? 1 : ADV[R(NADV)]);
				request(0,std::vector<op>());
				end_world();
				execs++;
			}
			int d=depth-1;
			while(d>=0) { if(++idx[d]<(d==0 ? P : P*A)) break; idx[d]=0; d--; }   // no advance before the first request
			if(d<0) break;
		}
	}
	else if(mode=="same") {
		// the step the property is about, in isolation: request 1 stores v (family member f, small or big, exposed or
		// not, with a bystander key), request 2 replaces v by v' of the same length *and changes nothing else*,
		// request 3 reads.  Gaps cover "within 10 % of the period", "10 %..100 %" and no time at all.
		static const int G[]={0,3,40};
		for(int fam=0;fam<NFAM;fam++) for(int g=0;g<3;g++) for(int var=0;var<4;var++) {
			bool big = (var&1)!=0, exposed = (var&2)!=0;
			if(exposed && big) continue;
			new_world("same",1);
			std::vector<op> p1;
			p1.push_back(mkop(0,"a",big,fam));
			p1.push_back(mkop(0,"b",false,(fam+3)%NFAM));
			if(exposed) p1.push_back(mkop(3,"a"));
			request(0,p1);
			tick(G[g]);
			request(0,std::vector<op>(1,mkop(9,"a",false,-1)));
			tick(G[(g+1)%3]);
			request(0,std::vector<op>());
			tick(2);
			request(0,std::vector<op>(1,mkop(9,"b",false,-1)));    // and once more on the bystander, after an unchanged request
			request(0,std::vector<op>());
			end_world();
			execs++;
		}
	}
	else if(mode=="rand") {
		if(argc<9) return 2;
		int browsers=atoi(argv[6]), requests=atoi(argv[7]); long nexec=atol(argv[8]);
		int keys = argc>9 ? atoi(argv[9]) : 3;
		for(long x=0;x<nexec;x++) {
			int nb=1+R(browsers);
			new_world("rand",nb);
			int nreq = requests/2 + R(requests/2+1);
			for(int r=0;r<nreq;r++) {
				int b=R(nb);
				if(R.chance(2,3)) {
					unsigned c=R(100);
					tick(c<25?1+R(9) : c<40?10 : c<60?11+R(60) : c<70?100 : c<75?AGE0-10+R(21) : c<95?20+R(30) : 150+R(200));
				}
				if(polite && R.chance(1,40)) restart(b);
				if(R.chance(1,8)) {
					unsigned c=R(100);
					if(c<35 && nb>1) {           // theft: copy another browser's current cookie
						int o=R(nb); if(o==b) o=(o+1)%nb;
						tamper(b,jars[o].sess,"steal");
					}
					else if(c<65 && !history.empty()) {   // replay of any cookie that ever existed
						tamper(b,history[R(history.size())],"old");
					}
					else if(c<70) { tamper(b,cookie_t(),"drop"); }
					else {
						std::vector<std::string> jk=junk_cookies(R);
						cookie_t c2; c2.val=jk[R(jk.size())];
						tamper(b,c2,"junk");
					}
				}
				std::vector<op> ops;
				unsigned no= R.chance(1,6) ? 0 : 1+R(3);
				for(unsigned i=0;i<no;i++) ops.push_back(random_op(R,keys,client));
				request(b,ops,R.chance(1,2));
			}
			end_world();
			execs++;
		}
	}
	else if(mode=="script") {
		// lines: new <browsers> | tick d | req b op;op;... | steal b o | old b i | junk b <string> | drop b | restart b
		// op: set:k:s|b[:family]  same:k  erase:k  clear  expose:k  hide:k  age:t  how:h  srv:0|1  reset
		std::string line;
		bool open=false;
		while(std::getline(std::cin,line)) {
			std::istringstream ss(line); std::string cmd; ss>>cmd;
			if(cmd.empty()||cmd[0]=='#') continue;
			if(cmd=="new") { int nb=1; ss>>nb; if(open) end_world(); new_world("script",nb); open=true; execs++; }
			else if(cmd=="tick") { int d; ss>>d; tick(d); }
			else if(cmd=="steal") { int b,o; ss>>b>>o; tamper(b,jars[o].sess,"steal"); }
			else if(cmd=="old") { int b; size_t i; ss>>b>>i; if(i<history.size()) tamper(b,history[i],"old"); }
			else if(cmd=="junk") { int b; std::string v; ss>>b>>v; cookie_t c; c.val=v; tamper(b,c,"junk"); }
			else if(cmd=="drop") { int b; ss>>b; tamper(b,cookie_t(),"drop"); }
			else if(cmd=="restart") { int b; ss>>b; restart(b); }
			else if(cmd=="req") {
				int b; ss>>b; std::string rest; std::getline(ss,rest);
				std::vector<op> ops; std::istringstream os(rest); std::string tok;
				while(std::getline(os,tok,';')) {
					size_t s0=tok.find_first_not_of(" \t"); if(s0==std::string::npos) continue;
					tok=tok.substr(s0); size_t e0=tok.find_last_not_of(" \t"); tok=tok.substr(0,e0+1);
					std::vector<std::string> f; std::istringstream fs(tok); std::string x;
					while(std::getline(fs,x,':')) f.push_back(x);
					if(f[0]=="set") ops.push_back(mkop(0,f[1],f.size()>2&&f[2]=="b",f.size()>3?atoi(f[3].c_str()):-1));
					else if(f[0]=="same") ops.push_back(mkop(9,f[1],false,-1));
					else if(f[0]=="erase") ops.push_back(mkop(1,f[1]));
					else if(f[0]=="clear") ops.push_back(mkop(2));
					else if(f[0]=="expose") ops.push_back(mkop(3,f[1]));
					else if(f[0]=="hide") ops.push_back(mkop(4,f[1]));
					else if(f[0]=="age") ops.push_back(mkop(5,"",false,atoi(f[1].c_str())));
					else if(f[0]=="how") ops.push_back(mkop(6,"",false,atoi(f[1].c_str())));
					else if(f[0]=="srv") ops.push_back(mkop(7,"",false,atoi(f[1].c_str())));
					else if(f[0]=="reset") ops.push_back(mkop(8));
					else { fprintf(stderr,"bad op %s\n",tok.c_str()); return 2; }
				}
				request(b,ops);
			}
			else { fprintf(stderr,"bad command %s\n",cmd.c_str()); return 2; }
		}
		if(open) end_world();
	}
	else return 2;
	tr.close();
	printf("execs=%ld\n",execs);
	return 0;
}
