// C11 driver: cppcms::json::value::load (stream / range, full on/off), operator>>, save (string / stream),
// operator<<, get_value<T>.  One ND-JSON event per call, judged by spec/Json/JsonTrace.tla.
//
//   json_drv toks <maxlen> <shard> <nshards>     every token sequence of <= maxlen tokens, concretised
//   json_drv strings <items> <nrandom>            every string body of <= items items (classes of JsonTokCheck) + random longer ones
//   json_drv numbers <len>                        every number spelling of <= len characters over "-01.eE+" + table over the double range
//   json_drv muts <ndocs> <shard>                 grammar-generated RFC 8259 documents and every single-byte mutation of them
//   json_drv nest <step>                          nesting depth 0..600 (arrays, objects, mixed)
//   json_drv trees <n> <shard>                    API-built trees printed (3 APIs x compact/readable x 2 locales) and re-parsed twice
//   json_drv get                                  typed extraction at the type limits
//   json_drv keys <n> <shard>                     objects with 2..6 adversarial member names (embedded NUL at every position, names equal up to a NUL /
//                                                 a multi-byte character / a byte >= 0x80 and different after it, prefixes of each other, empty, differing in
//                                                 the last byte, > 16 and > 256 bytes): parsed from text (top level and nested, + retrieval of every member),
//                                                 built through operator[] (Build{ops,t,got}) and printed / re-parsed
//   json_drv long <ndocs> <shard>                 documents of 1..30 KiB and a few mutations of each (Sound / Untouched / RoundTrip only)
//
// Trees: {"k":"null"|"true"|"false"|"undef"} {"k":"num","n":%.17g,"p":%.16g,"s":%.15g (byte arrays)} {"k":"str","s":bytes}
//        {"k":"arr","a":[...]} {"k":"obj","m":[{"key":bytes,"v":tree},...]}
#include "common/vtrace.h"
#include <cppcms/json.h>
#include <sstream>
#include <locale>
#include <limits>
#include <float.h>
#include <limits.h>
#include <math.h>
#include <signal.h>
#include <unistd.h>
#include <typeinfo>

using namespace cppcms;
static vt::out tr;
static vt::rng *R;
static long nevents=0;
static void emit(std::string const &s) { tr.line(s); nevents++; if(nevents%400==0) tr.line("{\"e\":\"Reset\"}"); }

static void died(char const *why)
{
	if(tr.f) { fprintf(tr.f,"{\"e\":\"Died\",\"why\":\"%s\"}\n",why); fflush(tr.f); }
	_exit(0);
}
static void on_signal(int s) { died(s==SIGSEGV?"SIGSEGV":s==SIGBUS?"SIGBUS":s==SIGABRT?"SIGABRT":s==SIGFPE?"SIGFPE":"signal"); }
static void on_terminate() { died("terminate"); }

// ------------------------------------------------------------------ locales
struct comma_punct : public std::numpunct<char> {
	char do_decimal_point() const { return ','; }
	char do_thousands_sep() const { return '.'; }
	std::string do_grouping() const { return "\3"; }
};
static std::locale comma_locale() { static std::locale l(std::locale::classic(),new comma_punct()); return l; }

// ------------------------------------------------------------------ JSON text of trees
static std::string jbytes(std::string const &s)
{
	std::string r="["; char b[8];
	for(size_t i=0;i<s.size();i++) { if(i) r+=','; snprintf(b,sizeof(b),"%u",(unsigned)(unsigned char)s[i]); r+=b; }
	return r+"]";
}
static std::string numtext(double d,int prec) { char b[64]; snprintf(b,sizeof(b),"%.*g",prec,d); return b; }
static std::string tree(json::value const &v)
{
	switch(v.type()) {
	case json::is_undefined: return "{\"k\":\"undef\"}";
	case json::is_null: return "{\"k\":\"null\"}";
	case json::is_boolean: return v.boolean() ? "{\"k\":\"true\"}" : "{\"k\":\"false\"}";
	case json::is_number: { double d=v.number(); return "{\"k\":\"num\",\"n\":"+jbytes(numtext(d,17))+",\"p\":"+jbytes(numtext(d,16))+",\"s\":"+jbytes(numtext(d,15))+"}"; }
	case json::is_string: return "{\"k\":\"str\",\"s\":"+jbytes(v.str())+"}";
	case json::is_array: {
		std::string r="{\"k\":\"arr\",\"a\":["; json::array const &a=v.array();
		for(size_t i=0;i<a.size();i++) { if(i) r+=','; r+=tree(a[i]); }
		return r+"]}";
	}
	case json::is_object: {
		std::string r="{\"k\":\"obj\",\"m\":["; json::object const &o=v.object(); bool f=true;
		for(json::object::const_iterator p=o.begin();p!=o.end();++p) { if(!f) r+=','; f=false; r+="{\"key\":"+jbytes(p->first.str())+",\"v\":"+tree(p->second)+"}"; }
		return r+"]}";
	}
	}
	return "{\"k\":\"illegal\"}";
}
// depth without recursion on the result is not possible through the public API; results of nest documents are
// walked with an explicit loop along the first child (the documents are chains)
static int chain_depth(json::value const &v)
{
	int d=0; json::value const *p=&v;
	for(;;) {
		if(p->type()==json::is_array) { d++; if(p->array().empty()) break; p=&p->array()[0]; }
		else if(p->type()==json::is_object) { d++; if(p->object().empty()) break; p=&p->object().begin()->second; }
		else break;
	}
	return d;
}

// ------------------------------------------------------------------ parse through the three APIs
static int sent_no=0;
static json::value sentinel()
{
	json::value v;
	switch(sent_no++%3) {
	case 0: break;                       // undefined
	case 1: v="old"; break;
	default: v["x"][1]=7; break;
	}
	return v;
}

struct presult { bool ok; long used; json::value after; };
static presult do_parse(std::string const &doc,int api,bool full,json::value const &before,bool comma)
{
	presult r; r.after=before; r.used=-1;
	if(api==0) {
		std::istringstream ss(doc);
		if(comma) ss.imbue(comma_locale());
		int line=-1;
		r.ok=r.after.load(ss,full,&line);
	}
	else if(api==1) {
		char const *b=doc.c_str(),*p=b;
		r.ok=r.after.load(p,b+doc.size(),full);
		r.used=p-b;
	}
	else {
		std::istringstream ss(doc);
		if(comma) ss.imbue(comma_locale());
		ss >> r.after;
		r.ok=!ss.fail();
	}
	return r;
}
static char const *api_name(int a) { return a==0?"stream":a==1?"range":"op>>"; }

static void parse_event(std::string const &doc,int api,bool full,char const *cls,bool comma=false,char const *how=0)
{
	json::value before=sentinel();
	presult r=do_parse(doc,api,api==2?false:full,before,comma);
	vt::J j; j.s("e","Parse").s("api",api_name(api)).b("full",api==2?false:full).s("cls",cls).bytes("b",doc).b("ok",r.ok)
	 .raw("t0",tree(before)).raw("t1",tree(r.after));
	if(r.used>=0) j.i("used",r.used);
	if(comma) j.s("loc","comma");
	if(how) j.s("how",how);
	emit(j.str());
}
static int napi=0;
static void parse_rot(std::string const &doc,char const *cls,char const *how=0)
{
	int k=napi++%5; // stream/full, range/full, op>>, stream/!full, range/!full
	parse_event(doc,k==0?0:k==1?1:k==2?2:k==3?0:1,k<2,cls,false,how);
}

// ------------------------------------------------------------------ toks: every token sequence
static char const *spell(int tok,int variant)
{
	switch(tok) {
	case 0: return "["; case 1: return "]"; case 2: return "{"; case 3: return "}"; case 4: return ":"; case 5: return ",";
	case 6: { static char const *s[]={"\"a\"","\"\\u0061\"","\"a\""}; return s[variant%3]; }
	case 7: { static char const *s[]={"\"b\"","\"\\u00e9\"","\"\""}; return s[variant%3]; }
	case 8: { static char const *s[]={"1","-2.5e3","0","1E+2","0.125"}; return s[variant%5]; }
	default: { static char const *s[]={"true","false","null"}; return s[variant%3]; }
	}
}
static void run_toks(int maxlen,int shard,int nshards)
{
	long idx=0;
	for(int len=0;len<=maxlen;len++) {
		long total=1; for(int i=0;i<len;i++) total*=10;
		for(long code=0;code<total;code++,idx++) {
			if(idx%nshards!=shard) continue;
			std::string doc; long c=code; bool fancy=(idx/nshards)%2==1;
			for(int i=0;i<len;i++) {
				int t=c%10; c/=10;
				if(fancy) { static char const *ws[]={""," ","\n\t","\r"}; doc+=ws[(*R)(4)]; doc+=spell(t,(*R)(5)); }
				else { if(i && (t>=8) ) doc+=' '; doc+=spell(t,0); }
			}
			if(fancy && (*R)(2)) doc+=' ';
			parse_rot(doc,"short");
		}
	}
}

// ------------------------------------------------------------------ strings
static char const *item_names[]={"a","del","ctl","nul","c2","c3","c4","max","lead","trail","over","over3","rawsur","big","ff",
	"e-n","e-q","e-b","e-s","e-x","u41","u0","uE9","uFFFF","hi","hi2","lo","lo2","ushort","ubad","bs","q","e-t","e-f","e-r","e-bb","nl","sur-ok","sur-ok2"};
static std::string item(int n)
{
	switch(n) {
	case 0: return "a"; case 1: return "\x7f"; case 2: return "\x1f"; case 3: return std::string(1,'\0');
	case 4: return "\xc3\xa9"; case 5: return "\xe2\x82\xac"; case 6: return "\xf0\x9f\x98\x80"; case 7: return "\xf4\x8f\xbf\xbf";
	case 8: return "\xc3"; case 9: return "\xa9"; case 10: return "\xc0\xaf"; case 11: return "\xe0\x9f\xbf"; case 12: return "\xed\xa0\x80";
	case 13: return "\xf4\x90\x80\x80"; case 14: return "\xff";
	case 15: return "\\n"; case 16: return "\\\""; case 17: return "\\\\"; case 18: return "\\/"; case 19: return "\\x";
	case 20: return "\\u0041"; case 21: return "\\u0000"; case 22: return "\\u00E9"; case 23: return "\\ufFfF";
	case 24: return "\\uD83d"; case 25: return "\\udbff"; case 26: return "\\uDE00"; case 27: return "\\udc00";
	case 28: return "\\u12"; case 29: return "\\u00g0"; case 30: return "\\"; case 31: return "\"";
	case 32: return "\\t"; case 33: return "\\f"; case 34: return "\\r"; case 35: return "\\b"; case 36: return "\n";
	case 37: return "\\uD83D\\uDE00"; default: return "\\udbff\\udfff";
	}
}
static const int NITEMS=39;
static void string_doc(std::string const &body,char const *how)
{
	int k=napi%4;
	std::string doc = k==0 ? "\""+body+"\"" : k==1 ? "[\""+body+"\"]" : k==2 ? "{\""+body+"\":1}" : " \""+body+"\" ";
	parse_rot(doc,"short",how);
}
static void run_strings(int items,int nrandom)
{
	std::vector<int> idx;
	for(int len=0;len<=items;len++) {
		long total=1; for(int i=0;i<len;i++) total*=NITEMS;
		for(long code=0;code<total;code++) {
			std::string b,how; long c=code;
			for(int i=0;i<len;i++) { int t=c%NITEMS; c/=NITEMS; b+=item(t); how+=item_names[t]; how+=' '; }
			string_doc(b,how.c_str());
		}
	}
	for(int k=0;k<nrandom;k++) {
		int len=items+1+(*R)(4); std::string b,how;
		for(int i=0;i<len;i++) { int t=(*R)(NITEMS); if(i+1<len && t==31) t=0; b+=item(t); how+=item_names[t]; how+=' '; }
		string_doc(b,how.c_str());
	}
	// surrogate escapes with something in between / around them: every sequence of up to 3 (quick) or 4 items over a
	// sub-alphabet of half pairs, simple escapes, ordinary escapes and plain characters - a pending first half must
	// survive nothing but its own second half ("\ud834\n\udd1e" is not a pair)
	{
		static const int sub[]={24,26,25,27,15,17,16,32,35,18,0,5,20,37};   // hi lo hi2 lo2 \n \\ \" \t \b \/ a c3 u41 sur-ok
		const int NS=sizeof(sub)/sizeof(sub[0]);
		int maxlen = items>=3 ? 4 : 3;
		for(int len=3;len<=maxlen;len++) {
			long total=1; for(int i=0;i<len;i++) total*=NS;
			for(long code=0;code<total;code++) {
				std::string b,how("sur: "); long c=code; bool any=false;
				for(int i=0;i<len;i++) { int t=sub[c%NS]; c/=NS; any = any || (t>=24 && t<=27); b+=item(t); how+=item_names[t]; how+=' '; }
				if(any) string_doc(b,how.c_str());
			}
		}
	}
	// every single byte inside a string, and after a backslash
	for(int c=0;c<256;c++) {
		string_doc(std::string(1,char(c)),"byte");
		string_doc(std::string("\\")+char(c),"esc-byte");
		string_doc(std::string("x")+char(c)+"y","byte-mid");
	}
	// \uXXXX over the interesting code points
	static const unsigned cps[]={0,1,0x1f,0x20,0x22,0x5c,0x7f,0x80,0x7ff,0x800,0xd7ff,0xd800,0xdbff,0xdc00,0xdfff,0xe000,0xfffe,0xffff};
	char buf[64];
	for(size_t i=0;i<sizeof(cps)/sizeof(cps[0]);i++) {
		snprintf(buf,sizeof(buf),"\\u%04x",cps[i]); string_doc(buf,"u-escape");
		snprintf(buf,sizeof(buf),"\\u%04X",cps[i]); string_doc(buf,"u-escape");
		for(size_t k=0;k<sizeof(cps)/sizeof(cps[0]);k++) { snprintf(buf,sizeof(buf),"\\u%04x\\u%04X",cps[i],cps[k]); string_doc(buf,"u-pair"); }
	}
}

// ------------------------------------------------------------------ numbers
static void number_doc(std::string const &lit,char const *how,bool comma=false)
{
	int k=napi%3;
	std::string doc = k==0 ? lit : k==1 ? "["+lit+"]" : "{\"n\":"+lit+"}";
	int a=napi++%5;
	parse_event(doc,a==0?0:a==1?1:a==2?2:a==3?0:1,a<2,"short",comma,how);
}
static char const *num_table[]={
	"0","-0","1","-1","10","0.5","-0.5","1e0","1E0","1e+0","1e-0","1.5e3","1.5E+3","1.5e-3","123456789","1234567890123","123456789012345",
	"1234567890123456789","12345678901234567890123456789012345678901234567890","0.1","0.2","0.30000000000000004","3.141592653589793",
	"1e22","1e23","1e-7","1e21","1e-5","1.7976931348623157e308","1.7976931348623158e308","1e308","-1e308","2e308","1e309","1e999","-1e999",
	"2.2250738585072014e-308","2.2250738585072011e-308","4.9e-324","5e-324","2e-324","1e-400","-1e-400","0e999","0.0e-999","0.000","-0.0e+0",
	"9007199254740992","9007199254740993","4294967296","2147483648","-2147483649","18446744073709551616","1.0000000000000002","0.99999999999999989",
	"1e15","1e16","123e-20","100","1000000","1.10","00","01","-01","1.","1.e1",".5","-.5","+1","1e","1e+","1e-","-","--1","1-1","1e1.5","0x10","1_0","1,5","1 .5",
	"Infinity","NaN","-Infinity","inf","nan","1e5e5","1..5","1.5.5","0.","-0.","2.","1E","1.0E","1.0e+","1a","1f","1d","0b1","1.5f"};
static void run_numbers(int len)
{
	static const char al[]={'-','0','1','.','e','E','+'};
	for(int l=1;l<=len;l++) {
		long total=1; for(int i=0;i<l;i++) total*=7;
		for(long code=0;code<total;code++) {
			std::string s; long c=code; for(int i=0;i<l;i++) { s+=al[c%7]; c/=7; }
			number_doc(s,"spelling");
		}
	}
	for(size_t i=0;i<sizeof(num_table)/sizeof(num_table[0]);i++) for(int rep=0;rep<5;rep++) { number_doc(num_table[i],"table"); }
	// stream / global locale with ',' as decimal point and '.' grouping
	std::locale old=std::locale::global(comma_locale());
	for(size_t i=0;i<sizeof(num_table)/sizeof(num_table[0]);i++) for(int rep=0;rep<5;rep++) number_doc(num_table[i],"table-comma",true);
	static char const *more[]={"1.234.567","1,5","1.000","[1,5]","[1.5,2.5]","{\"a\":1.5,\"b\":2}","1.234,5","12.345"};
	for(size_t i=0;i<sizeof(more)/sizeof(more[0]);i++) for(int a=0;a<5;a++) parse_event(more[i],a==0?0:a==1?1:a==2?2:a==3?0:1,a<2,"short",true,"comma-doc");
	std::locale::global(old);
}

// ------------------------------------------------------------------ grammar-generated documents
static std::string gen_ws() { static char const *w[]={"","",""," ","\n","\t","\r\n","  "}; return w[(*R)(8)]; }
static std::string gen_string_lit(bool key,int n)
{
	// distinct keys: the decoded key starts with a distinct letter
	std::string s="\"";
	if(key) { if((*R)(4)==0) { char b[16]; snprintf(b,sizeof(b),"\\u%04x",'a'+n); s+=b; } else s+=char('a'+n); }
	unsigned len=(*R)(4);
	for(unsigned i=0;i<len;i++) {
		switch((*R)(12)) {
		case 0: s+="\\n"; break; case 1: s+="\\\""; break; case 2: s+="\\\\"; break; case 3: s+="\\/"; break;
		case 4: s+="\\u00e9"; break; case 5: s+="\xc3\xa9"; break; case 6: s+="\\ud83d\\ude00"; break; case 7: s+="\xf0\x9f\x98\x80"; break;
		case 8: s+="\\u0000"; break; case 9: s+="\x7f"; break; default: s+=char('a'+(*R)(26));
		}
	}
	return s+"\"";
}
static std::string gen_number_lit()
{
	static char const *n[]={"0","-0","7","-12","3.25","0.5","1e3","1E-2","-4.5e+1","123456","0.001","9.75E2"};
	return n[(*R)(12)];
}
static std::string gen_value(int depth,int budget)
{
	int k=(*R)(depth>=3||budget<=0 ? 5 : 8);
	switch(k) {
	case 0: return "null"; case 1: return (*R)(2)?"true":"false"; case 2: return gen_number_lit(); case 3: case 4: return gen_string_lit(false,0);
	case 5: case 6: {
		std::string s="["+gen_ws(); unsigned n=(*R)(budget>3?4:2);
		for(unsigned i=0;i<n;i++) { if(i) s+=gen_ws()+","+gen_ws(); s+=gen_value(depth+1,budget/(n+1)); }
		return s+gen_ws()+"]";
	}
	default: {
		std::string s="{"+gen_ws(); unsigned n=(*R)(budget>3?4:2);
		for(unsigned i=0;i<n;i++) { if(i) s+=gen_ws()+","+gen_ws(); s+=gen_string_lit(true,i)+gen_ws()+":"+gen_ws()+gen_value(depth+1,budget/(n+1)); }
		return s+gen_ws()+"}";
	}
	}
}
static void run_muts(int ndocs)
{
	static const unsigned char repl[]={'"','\\',',',':','[',']','{','}','0','-','e','.',0,0x1f,0x7f,0x80,0xc3,0xff,'/',' ','u','t'};
	for(int d=0;d<ndocs;d++) {
		std::string doc;
		do { doc=gen_ws()+gen_value(0,6)+gen_ws(); } while(doc.size()>48 || doc.size()<2);
		for(int a=0;a<5;a++) parse_event(doc,a==0?0:a==1?1:a==2?2:a==3?0:1,a<2,"short",false,"generated");
		for(size_t pos=0;pos<doc.size();pos++) {
			std::string m=doc; m.erase(pos,1); parse_rot(m,"short","delete");
			for(size_t r=0;r<sizeof(repl);r++) {
				if((unsigned char)doc[pos]==repl[r]) continue;
				m=doc; m[pos]=char(repl[r]); parse_rot(m,"short","replace");
			}
			m=doc; m.insert(pos,1,char(repl[(*R)(sizeof(repl))])); parse_rot(m,"short","insert");
			m=doc.substr(0,pos); parse_rot(m,"short","truncate");
		}
		// duplicate a key, add a trailing comma / comment (named leniencies: free either way)
		parse_rot(doc+"//c","short","comment"); parse_rot("//c\n"+doc,"short","comment"); parse_rot(doc+" "+doc,"short","twice");
	}
}

// ------------------------------------------------------------------ nesting
static void nest_event(char const *kind,int d)
{
	std::string doc;
	if(!strcmp(kind,"arr")) { if(d==0) doc="0"; else { doc.append(d,'['); doc.append(d,']'); } }
	else if(!strcmp(kind,"obj")) { if(d==0) doc="0"; else { for(int i=1;i<d;i++) doc+="{\"a\":"; doc+="{}"; doc.append(d-1,'}'); } }
	else { if(d==0) doc="0"; else { for(int i=1;i<d;i++) doc+=(i%2)?"[":"{\"a\":"; doc+=(d%2)?"[]":"{}"; for(int i=d-1;i>=1;i--) doc+=(i%2)?"]":"}"; } }
	for(int api=0;api<2;api++) {
		json::value before=sentinel();
		presult r=do_parse(doc,api,true,before,false);
		vt::J j; j.s("e","Nest").s("kind",kind).i("d",d).s("api",api_name(api)).bytes("b",doc).b("ok",r.ok).raw("t0",tree(before));
		if(r.ok) {
			j.i("depth1",chain_depth(r.after));
			// print -> parse round trip of the deep value
			std::string p=r.after.save(); json::value again; char const *b=p.c_str(),*q=b;
			bool ok2=again.load(q,b+p.size(),true);
			j.b("ok2",ok2).b("same",ok2 && again==r.after).i("depth2",ok2?chain_depth(again):-1);
		}
		else j.raw("t1",tree(r.after));
		emit(j.str());
	}
}
static void run_nest(int step)
{
	for(int d=0;d<=600;d++) {
		bool pick = step<=1 || d<=6 || (d>=508 && d<=516) || d%step==0 || d==600;
		if(!pick) continue;
		nest_event("arr",d); nest_event("obj",d); nest_event("mix",d);
	}
}

// ------------------------------------------------------------------ API-built trees, printing
static std::string pool_string()
{
	static char const *p[]={"","a","key","with space","q\"uote","back\\slash","sl/ash","\n\r\t\b\f","\x01\x1f","\x7f","\xc3\xa9","\xe2\x82\xac","\xf0\x9f\x98\x80",
		"\xf4\x8f\xbf\xbf","mixed \xc3\xa9\n\"x\"","true","[1,2]","{\"a\":1}","//c","\xef\xbf\xbf"};
	int k=(*R)(21);
	if(k==20) return std::string("nu\0l",4);
	return p[k];
}
static double pool_number()
{
	static const double n[]={0,-0.0,1,-1,0.5,0.1,0.2,0.30000000000000004,1.0/3,2.0/3,1e15,1e16,1e17,123456789012345678.0,1e21,1e22,1e23,1e-5,1e-7,1.5e-10,
		1.797693134862315e308,-1.797693134862315e308,DBL_MIN,4.9e-324,2.2250738585072011e-308,9007199254740992.0,9007199254740993.0,4294967296.0,3.141592653589793,2.718281828459045,
		1e100,1e-100,1.5e308,123456.789,99999999999999.99,0.000001,1e300*1.2345678901234567,5e-324*3};
	int k=(*R)(40);
	if(k>=38) { union { uint64_t u; double d; } x; do { x.u=R->next(); } while(!(x.d==x.d) || x.d-x.d!=0 || fabs(x.d)>1.797693134862315e308); return x.d; }
	return n[k];
}
static json::value build(int depth)
{
	json::value v;
	int k=(*R)(depth>=4?5:9);
	switch(k) {
	case 0: v=json::null(); break;
	case 1: v=(*R)(2)==1; break;
	case 2: case 3: v=pool_number(); break;
	case 4: v=pool_string(); break;
	case 5: case 6: {
		unsigned n=(*R)(4);
		if((*R)(2)) { v=json::array(); for(unsigned i=0;i<n;i++) v.array().push_back(build(depth+1)); }
		else { v=json::array(); for(unsigned i=0;i<n;i++) v[i]=build(depth+1); }
	} break;
	default: {
		unsigned n=(*R)(4); v=json::object();
		for(unsigned i=0;i<n;i++) {
			std::string key=pool_string();
			if((*R)(2)) v[key]=build(depth+1); else v.object()[key]=build(depth+1);
		}
	}
	}
	return v;
}
static std::string do_print(json::value const &v,int api,bool readable,bool comma)
{
	int how=readable?json::readable:json::compact;
	if(api==0) return v.save(how);
	std::ostringstream ss;
	if(comma) ss.imbue(comma_locale());
	ss<<1234.5<<'|';   // the stream's own formatting must survive and must not leak into the JSON text
	if(api==1) v.save(ss,how); else ss<<v;
	ss<<'|'<<1234.5;
	std::string s=ss.str();
	size_t a=s.find('|'),b=s.rfind('|');
	return s.substr(a+1,b-a-1);
}
static void print_event(json::value const &v,int api,bool readable,bool comma,char const *cls)
{
	if(api==2 && readable) readable=false; // operator<< is always compact
	std::string b=do_print(v,api,readable,comma);
	json::value t2,t3; std::string b2;
	presult r2=do_parse(b,(*R)(2),true,json::value(),comma); t2=r2.after;
	bool ok3=false;
	if(r2.ok) { b2=do_print(t2,api,readable,comma); presult r3=do_parse(b2,(*R)(2),true,json::value(),comma); ok3=r3.ok; t3=r3.after; }
	vt::J j; j.s("e","Print").s("api",api==0?"save":api==1?"save_stream":"op<<").s("mode",readable?"readable":"compact").s("loc",comma?"comma":"C").s("cls",cls)
	 .raw("t",tree(v)).bytes("b",b).b("ok2",r2.ok).raw("t2",tree(t2)).b("ok3",ok3).raw("t3",tree(t3)).b("eq2",r2.ok && t2==v).b("eq3",ok3 && t3==t2);
	emit(j.str());
}
static void run_trees(int n)
{
	// single numbers over the double range, the largest finite doubles included
	static const double edge[]={DBL_MAX,-DBL_MAX,1.7976931348623155e308,1.797693134862315e308,DBL_MIN,4.9e-324,0.1,1e23,9007199254740993.0,5e-324*7,1.0/3};
	for(size_t i=0;i<sizeof(edge)/sizeof(edge[0]);i++) { json::value v=edge[i]; print_event(v,i%3,false,false,"short"); }
	for(int i=0;i<n;i++) {
		json::value v=build(i%7==0?3:1+(*R)(3));
		std::string probe=v.save();
		char const *cls=probe.size()<=90?"short":"long";
		bool comma=(i%3==2);
		std::locale old=std::locale::global(comma?comma_locale():std::locale::classic());
		for(int api=0;api<3;api++) for(int rd=0;rd<2;rd++) { if(api==2 && rd) continue; print_event(v,api,rd==1,comma,cls); }
		std::locale::global(old);
	}
}

// ------------------------------------------------------------------ typed extraction
template<typename T> static std::string itext(T v) { char b[64]; if(std::numeric_limits<T>::is_signed) snprintf(b,sizeof(b),"%lld",(long long)v); else snprintf(b,sizeof(b),"%llu",(unsigned long long)v); return b; }
static std::string itext(float v) { return numtext(v,25); }
static std::string itext(double v) { return numtext(v,25); }
static char const *cls_of(double d) { return d!=d ? "nan" : (d-d!=0 ? "inf" : "fin"); }
template<typename T> static void get_event(char const *ty,double d)
{
	json::value v=d; bool ok=false; std::string text,exc;
	try { T r=v.get_value<T>(); ok=true; text=itext(r); }
	catch(json::bad_value_cast const &) { exc="bad_value_cast"; }
	catch(std::exception const &e) { exc=typeid(e).name(); }
	vt::J j; j.s("e","Get").s("ty",ty).bytes("n",numtext(d,25)).s("cls",cls_of(d)).b("ok",ok);
	if(ok) j.bytes("v",text); else j.s("exc",exc);
	bool isf=!strcmp(ty,"f32");
	if(isf) { float f=(float)d; j.b("exact",cls_of(d)[0]=='f' && fabs(d)<=FLT_MAX && (double)f==d); if(ok) { float r=v.get_value<float>(); j.s("vcls",cls_of(r)); } }
	emit(j.str());
	// a non-number must throw for every type
	json::value s="12"; bool threw=false;
	try { (void)s.get_value<T>(); } catch(std::bad_cast const &) { threw=true; }
	if(!threw) emit(vt::J().s("e","Get").s("ty",ty).bytes("n",std::string("0")).s("cls","notnumber").b("ok",true).bytes("v",std::string("0")).str());
}
static void run_get()
{
	std::vector<double> t;
	static const double base[]={0,-0.0,1,-1,0.5,-0.5,1e-300,0.1,3.14159,1.5,-1.5,127,128,-128,-129,255,256,32767,32768,-32768,-32769,65535,65536,
		2147483647.0,2147483648.0,-2147483648.0,-2147483649.0,4294967295.0,4294967296.0,9007199254740992.0,9007199254740994.0,
		9223372036854775808.0,9223372036854774784.0,-9223372036854775808.0,-9223372036854777856.0,18446744073709551616.0,18446744073709549568.0,
		1e19,1e30,-1e30,1e300,FLT_MAX,-FLT_MAX,1e39,-1e39,DBL_MAX,-DBL_MAX,16777216.0,16777217.0,1.17549435e-38,1e-46,2147483647.5,-0.999,0.999,255.5,65535.999};
	for(size_t i=0;i<sizeof(base)/sizeof(base[0]);i++) t.push_back(base[i]);
	t.push_back(nextafter((double)FLT_MAX,1e300)); t.push_back(-nextafter((double)FLT_MAX,1e300));
	t.push_back(std::numeric_limits<double>::infinity()); t.push_back(-std::numeric_limits<double>::infinity()); t.push_back(std::numeric_limits<double>::quiet_NaN());
	for(size_t i=0;i<t.size();i++) {
		double d=t[i];
		get_event<char>("char",d); get_event<signed char>("i8",d); get_event<unsigned char>("u8",d); get_event<short>("i16",d); get_event<unsigned short>("u16",d);
		get_event<int>("i32",d); get_event<unsigned int>("u32",d); get_event<long>("i64l",d); get_event<unsigned long>("u64l",d);
		get_event<long long>("i64",d); get_event<unsigned long long>("u64",d); get_event<float>("f32",d); get_event<double>("f64",d);
	}
}

// ------------------------------------------------------------------ adversarial member names
static std::string key_literal(std::string const &k)
{
	std::string s="\""; char b[16];
	for(size_t i=0;i<k.size();i++) {
		unsigned char c=k[i];
		if(c=='"' || c=='\\') { s+='\\'; s+=char(c); }
		else if(c<0x20) { snprintf(b,sizeof(b),"\\u%04x",c); s+=b; }
		else if(c<0x7f && (*R)(12)==0) { snprintf(b,sizeof(b),"\\u%04X",c); s+=b; }
		else s+=char(c);
	}
	return s+"\"";
}
// a family of names that share everything up to (and including) a separator
static std::vector<std::string> key_family(bool text)
{
	static char const *pre[]={"","k","id","ab","\xc3\xa9","z","\x7f","key-longer-than-16-bytes-"};
	std::vector<std::string> seps;
	seps.push_back(std::string(1,'\0')); seps.push_back("\xc3\xa9"); seps.push_back("\xc2\x80"); seps.push_back("\xef\xbf\xbf");
	seps.push_back("\xf0\x9f\x98\x80"); seps.push_back("a"); seps.push_back("\x7f"); seps.push_back(std::string("\0\0",2)); seps.push_back("\x01");
	if(!text) { seps.push_back("\x80"); seps.push_back("\xff"); seps.push_back("\xc3"); }   // not UTF-8: API-built objects only
	std::string p=pre[(*R)(8)];
	if((*R)(8)==0) p=std::string(250+(*R)(60),'L')+p;                                  // > 256 bytes in front of the interesting part
	std::string sp=seps[(*R)(seps.size())];
	std::vector<std::string> f;
	f.push_back(p+sp+"x"); f.push_back(p+sp+"y"); f.push_back(p+sp); f.push_back(p); f.push_back(p+sp+"x"+sp); f.push_back(sp+p);
	f.push_back(p+sp+"x"+sp+"1"); f.push_back(p+sp+"x"+sp+"2"); f.push_back(sp); f.push_back(p+"x"); f.push_back(std::string()); f.push_back(p+sp+sp);
	f.push_back(p+"\xc3\xa9"); f.push_back(p+"z"); f.push_back(p+"\x7f"); f.push_back(p+std::string(1,'\0'));
	// distinct, in random order, 2..6 of them
	std::vector<std::string> out; unsigned want=2+(*R)(5);
	for(int tries=0;tries<60 && out.size()<want;tries++) {
		std::string const &c=f[(*R)(f.size())]; bool dup=false;
		for(size_t i=0;i<out.size();i++) if(out[i]==c) dup=true;
		if(!dup) out.push_back(c);
	}
	return out;
}
static void keys_parse(std::vector<std::string> const &ks)
{
	std::string obj="{";
	for(size_t i=0;i<ks.size();i++) { char b[16]; snprintf(b,sizeof(b),"%zu",i+1); if(i) obj+=","; obj+=key_literal(ks[i])+":"+((*R)(3)?std::string(b):"\"v"+std::string(b)+"\""); }
	obj+="}";
	int shape=(*R)(4);
	std::string doc = shape==0 ? obj : shape==1 ? "["+obj+"]" : shape==2 ? "{\"o\":"+obj+"}" : "{\"a\":[1,"+obj+"]}";
	for(int a=0;a<2;a++) {
		int k=napi++%5; int api=k==0?0:k==1?1:k==2?2:k==3?0:1; bool full=k<2;
		json::value before=sentinel();
		presult r=do_parse(doc,api,api==2?false:full,before,false);
		vt::J j; j.s("e","Parse").s("api",api_name(api)).b("full",api==2?false:full).s("cls","keys").bytes("b",doc).b("ok",r.ok)
		 .raw("t0",tree(before)).raw("t1",tree(r.after));
		if(r.used>=0) j.i("used",r.used);
		if(r.ok) {
			json::value const *o=&r.after;
			try {
				if(shape==1) o=&(*o)[size_t(0)]; else if(shape==2) o=&(*o)["o"]; else if(shape==3) o=&(*o)["a"][size_t(1)];
				if(o->type()==json::is_object) {
					std::string look="[";
					for(size_t i=0;i<ks.size();i++) {
						bool found=false; json::value got;
						if(i%2==0) { json::object::const_iterator p=o->object().find(ks[i]); if(p!=o->object().end()) { found=true; got=p->second; } }
						else { try { got=(*o)[ks[i]]; found=true; } catch(json::bad_value_cast const &) {} }
						if(i) look+=",";
						look+="{\"key\":"+jbytes(ks[i])+",\"found\":"+(found?"true":"false")+",\"v\":"+tree(got)+"}";
					}
					j.raw("look",look+"]").raw("lookobj",tree(*o));
				}
			} catch(std::exception const &) {}
		}
		emit(j.str());
	}
}
static bool utf8_ok(std::string const &s) { json::value v=s; std::string t=v.save(); json::value w; char const *b=t.c_str(),*p=b; return w.load(p,b+t.size(),true); }
static void keys_build(std::vector<std::string> ks,int depth)
{
	// some names assigned twice (the last assignment wins)
	size_t n=ks.size(); for(size_t i=0;i<n;i++) if((*R)(4)==0) ks.push_back(ks[i]);
	json::value v; int how=(*R)(3);
	if(how==2) v=json::object();
	std::string ops="[";
	for(size_t i=0;i<ks.size();i++) {
		if(how==0) v[ks[i]]=int(i+1);
		else if(how==1) { json::value &slot=v[ks[i]]; slot=int(i+1); }
		else v.object()[string_key(ks[i])]=int(i+1);
		char b[32]; snprintf(b,sizeof(b),"%zu",i+1);
		if(i) ops+=","; ops+="{\"key\":"+jbytes(ks[i])+",\"v\":"+b+"}";
	}
	ops+="]";
	json::value const &cv=v; std::vector<int> got;
	for(size_t i=0;i<ks.size();i++) { int g=-1; try { g=cv[ks[i]].get_value<int>(); } catch(std::exception const &) {} got.push_back(g); }
	emit(vt::J().s("e","Build").s("api",how==0?"[]=":how==1?"[]&":"object()[]").raw("ops",ops).raw("t",tree(v)).a("got",got).str());
	bool printable=true; for(size_t i=0;i<ks.size();i++) if(!utf8_ok(ks[i])) printable=false;
	if(printable) {
		json::value w=v;
		if(depth==1) { json::value outer; outer["in"]=v; outer["list"][1]=v; w=outer; }
		for(int api=0;api<3;api++) for(int rd=0;rd<2;rd++) { if(api==2 && rd) continue; if((*R)(2)) print_event(w,api,rd==1,false,"keys"); }
	}
}
static void run_keys(int n)
{
	for(int i=0;i<n;i++) {
		keys_parse(key_family(true));
		keys_build(key_family(i%3!=0),i%2);
	}
}

// ------------------------------------------------------------------ long documents
static void run_long(int ndocs)
{
	for(int d=0;d<ndocs;d++) {
		std::string doc="[";
		size_t target=1000+(*R)(d%4==0?29000:4000);
		bool first=true;
		while(doc.size()<target) { if(!first) doc+=","; first=false; doc+=gen_value(1,8); if((*R)(3)==0) doc+="\n"; }
		doc+="]";
		parse_rot(doc,"long","generated");
		for(int k=0;k<8;k++) {
			std::string m=doc; size_t pos=(*R)(m.size());
			static const unsigned char repl[]={'"','\\',',',':','[',']','{','}',0,0x1f,0x80,0xff,'x','e'};
			if(k==7) m=m.substr(0,pos); else m[pos]=char(repl[(*R)(sizeof(repl))]);
			parse_rot(m,"long","mutated");
		}
		json::value v; char const *b=doc.c_str(),*p=b;
		if(v.load(p,b+doc.size(),true)) { print_event(v,0,false,false,"long"); print_event(v,1,true,d%2==1,"long"); }
	}
}

int main(int argc,char **argv)
{
	if(argc<2) { fprintf(stderr,"usage: json_drv toks|strings|numbers|muts|nest|trees|get|long ...\n"); return 2; }
	tr.open();
	std::set_terminate(on_terminate);
	signal(SIGSEGV,on_signal); signal(SIGBUS,on_signal); signal(SIGABRT,on_signal); signal(SIGFPE,on_signal);
	std::string mode=argv[1];
	long a1=argc>2?atol(argv[2]):0,a2=argc>3?atol(argv[3]):0,a3=argc>4?atol(argv[4]):1;
	vt::rng rng(vt::envl("VERIF_SEED",1)*104729+a2*31+(mode.size()*7));
	R=&rng;
	tr.line("{\"e\":\"Reset\"}");
	if(mode=="toks") run_toks(a1,a2,a3<1?1:a3);
	else if(mode=="strings") run_strings(a1,a2);
	else if(mode=="numbers") run_numbers(a1);
	else if(mode=="muts") run_muts(a1);
	else if(mode=="nest") run_nest(a1);
	else if(mode=="trees") run_trees(a1);
	else if(mode=="get") run_get();
	else if(mode=="long") run_long(a1);
	else if(mode=="keys") run_keys(a1);
	else { fprintf(stderr,"unknown mode\n"); return 2; }
	tr.line("{\"e\":\"Reset\"}");
	tr.close();
	fprintf(stdout,"events=%ld\n",nevents);
	return 0;
}
