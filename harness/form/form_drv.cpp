// C12 driver: feeds multipart/form-data, urlencoded and raw bodies, cut into read chunks in
// every / random ways, (1) to cppcms::impl::multipart_parser directly and (2) to
// cppcms::http::request through a network-free connection (subclass of impl::cgi::connection, the
// seam tests/dummy_api.h shows), with limits, content filters and temporary-file spill.
// One ND-JSON line per (input, observed outcome); see spec/Form/FormTrace.tla for the format.
//
// usage: form_drv parser  <maxtail> <cuts:1|2>        class-exhaustive bodies, parser alone
//        form_drv reqexh  <maxtail>                    class-exhaustive bodies through http::request, every 1-cut
//        form_drv urlexh  <maxlen>                     urlencoded bodies over {a = & + % 4}
//        form_drv rand    <count> <maxpart> <smallpct> random part lists / limits / filters / cuts
//        form_drv filt                                  one body x filters that read / seek / abort in every call-back
//        form_drv seeds                                hand-written regression inputs
// Two input classes are routed to side files so that a defect in their handling (both were defects of
// the pinned snapshot, since fixed) cannot block the validation of everything else:  $VERIF_OUT.hl  (a delimiter followed by an
// empty header block), $VERIF_OUT.mal (urlencoded bodies the code itself classifies as malformed).
#include "common/vtrace.h"
#include <cppcms/service.h>
#include <cppcms/application.h>
#include <cppcms/applications_pool.h>
#include <cppcms/http_request.h>
#include <cppcms/http_response.h>
#include <cppcms/http_context.h>
#include <cppcms/http_file.h>
#include <cppcms/http_content_filter.h>
#include <cppcms/http_content_type.h>
#include <cppcms/mount_point.h>
#include <cppcms/json.h>
#include <booster/aio/io_service.h>
#include <booster/aio/stream_socket.h>
#include <booster/aio/aio_category.h>
#include <booster/system_error.h>
#include "cgi_api.h"
#include "response_headers.h"
#include "multipart_parser.h"
#include <sys/socket.h>
#include <sys/stat.h>
#include <dirent.h>
#include <unistd.h>
#include <map>
#include <iostream>

using cppcms::impl::cgi::io_handler;
using cppcms::impl::cgi::handler;
using cppcms::impl::cgi::callback;

static vt::out tr_main, tr_hl, tr_mal;
static std::string updir;

// ------------------------------------------------------------------ helpers
static void digest(std::string const &s,unsigned out[4])
{
	static const unsigned P[4]={65521,65519,65497,65479}, M[4]={31,257,4099,131};
	for(int w=0;w<4;w++) {
		unsigned long long h=w+1;
		for(size_t i=0;i<s.size();i++) h=(h*M[w]+(unsigned char)s[i]+1)%P[w];
		out[w]=(unsigned)((h+s.size())%P[w]);
	}
}
static std::string jbytes(std::string const &v)
{
	std::string r="["; char b[8];
	for(size_t i=0;i<v.size();i++) { snprintf(b,sizeof(b),i?",%u":"%u",(unsigned)(unsigned char)v[i]); r+=b; }
	return r+"]";
}
static std::string jdig(std::string const &v)
{
	unsigned d[4]; digest(v,d); char b[64]; snprintf(b,sizeof(b),"[%u,%u,%u,%u]",d[0],d[1],d[2],d[3]); return b;
}
static std::string jints(std::vector<size_t> const &v,size_t cap=64)
{
	std::string r="["; char b[24];
	for(size_t i=0;i<v.size() && i<cap;i++) { snprintf(b,sizeof(b),i?",%zu":"%zu",v[i]); r+=b; }
	return r+"]";
}
struct part {
	std::string name,filename,mime,data;
};
// data: bytes when small, else len+digest
static std::string jdata(std::string const &d,bool small)
{
	char b[32]; snprintf(b,sizeof(b),"\"len\":%zu",d.size());
	if(small) return "\"d\":"+jbytes(d)+","+b;
	return std::string(b)+",\"dig\":"+jdig(d);
}
static std::string jpart(part const &p,bool small)
{
	return "{\"n\":"+jbytes(p.name)+",\"f\":"+jbytes(p.filename)+",\"m\":"+jbytes(p.mime)+","+jdata(p.data,small)+"}";
}
static std::string jparts(std::vector<part> const &ps,bool small)
{
	std::string r="[";
	for(size_t i=0;i<ps.size();i++) { if(i) r+=","; r+=jpart(ps[i],small); }
	return r+"]";
}
static int count_files(std::string const &dir)
{
	DIR *d=opendir(dir.c_str()); if(!d) return -1;
	int n=0; while(struct dirent *e=readdir(d)) { if(e->d_name[0]!='.') n++; }
	closedir(d); return n;
}

// ------------------------------------------------------------------ header-line table + block buffering
struct hline { std::string bytes,kind,n,f,m; };
struct block {
	vt::out *o;
	std::vector<std::string> events;
	std::map<std::string,hline> lines,sticky;
	block(vt::out *out) : o(out) {}
	void add_line(hline const &h) { lines[h.bytes]=h; }
	void add_sticky(hline const &h) { sticky[h.bytes]=h; }
	void ev(std::string const &s) { events.push_back(s); if(events.size()>=400) flush(); }
	void flush()
	{
		if(events.empty()) return;
		std::string r="{\"e\":\"Reset\",\"hl\":[";
		bool first=true;
		for(std::map<std::string,hline>::iterator p=sticky.begin();p!=sticky.end();++p) lines[p->first]=p->second;
		for(std::map<std::string,hline>::iterator p=lines.begin();p!=lines.end();++p) {
			if(!first) r+=","; first=false;
			r+="{\"b\":"+jbytes(p->second.bytes)+",\"k\":\""+p->second.kind+"\",\"n\":"+jbytes(p->second.n)
			  +",\"f\":"+jbytes(p->second.f)+",\"m\":"+jbytes(p->second.m)+"}";
		}
		r+="]}";
		o->line(r);
		for(size_t i=0;i<events.size();i++) o->line(events[i]);
		events.clear(); lines.clear();
	}
};
static block *B_main,*B_hl,*B_mal;

// ------------------------------------------------------------------ encoder
static std::string quote_param(std::string const &v)
{
	std::string r="\"";
	for(size_t i=0;i<v.size();i++) { if(v[i]=='"'||v[i]=='\\') r+='\\'; r+=v[i]; }
	return r+"\"";
}
static bool is_token(std::string const &v)
{
	if(v.empty()) return false;
	for(size_t i=0;i<v.size();i++) {
		unsigned char c=v[i];
		if(c<0x21||c>0x7e||strchr("()<>@,;:\\\"/[]?={}",c)) return false;
	}
	return true;
}
// header lines for one part; style bits vary quoting, case, order, spacing, extra lines
static std::vector<hline> part_lines(part const &p,unsigned style)
{
	std::vector<hline> r;
	hline cd; cd.kind="cd"; cd.n=p.name; cd.f=p.filename;
	std::string hn=(style&1)?"content-disposition":"Content-Disposition";
	std::string sp=(style&2)?"":" ";
	std::string nm=((style&4) && is_token(p.name)) ? p.name : quote_param(p.name);
	std::string s=hn+":"+sp+"form-data";
	bool has_fn=!p.filename.empty() || (!p.mime.empty() && (style&64));
	std::string fn=((style&8) && is_token(p.filename)) ? p.filename : quote_param(p.filename);
	if(has_fn && (style&16)) s+=";"+sp+"filename="+fn;
	s+=";"+sp+((style&32)?"NAME=":"name=")+nm;
	if(has_fn && !(style&16)) s+=";"+sp+"filename="+fn;
	if(has_fn && p.filename.empty()) cd.f="";
	cd.bytes=s;
	hline ct; ct.kind="ct"; ct.m=p.mime;
	if(!p.mime.empty()) {
		std::string m=p.mime;
		if(style&128) for(size_t i=0;i<m.size();i++) if(m[i]>='a'&&m[i]<='z'&&(i%2)) m[i]-=32;
		ct.bytes=std::string((style&1)?"content-type":"Content-Type")+":"+sp+m+((style&256)?"; charset=\"utf-8\"":"");
	}
	hline x; x.kind="x"; x.bytes="Content-Transfer-Encoding: binary";
	if((style&512) && !p.mime.empty()) r.push_back(ct);
	r.push_back(cd);
	if(style&1024) r.push_back(x);
	if(!(style&512) && !p.mime.empty()) r.push_back(ct);
	return r;
}
static std::string encode(std::vector<part> const &ps,std::string const &bnd,vt::rng &rnd,block *b,unsigned fixed_style=~0u)
{
	std::string body;
	for(size_t i=0;i<ps.size();i++) {
		unsigned st = fixed_style==~0u ? rnd(2048) : fixed_style;
		std::vector<hline> ls=part_lines(ps[i],st);
		body+="--"+bnd+"\r\n";
		for(size_t k=0;k<ls.size();k++) { body+=ls[k].bytes+"\r\n"; if(b) b->add_line(ls[k]); }
		body+="\r\n"+ps[i].data+"\r\n";
	}
	body+="--"+bnd+"--\r\n";
	return body;
}

// ------------------------------------------------------------------ parser alone
struct presult { bool ok; std::vector<part> parts; std::string res; };
static std::string getall(cppcms::http::file &f)
{
	std::string r; f.data().clear(); f.data().seekg(0);
	std::streambuf *sb=f.data().rdbuf(); int c;
	while((c=sb->sbumpc())!=EOF) r+=char(c);
	return r;
}
static presult run_parser(std::string const &body,std::string const &bnd,std::vector<size_t> const &cuts)
{
	using cppcms::impl::multipart_parser;
	presult R; R.ok=false;
	multipart_parser p(updir,1<<20);
	if(!p.set_content_type("multipart/form-data; boundary=\""+bnd+"\"")) { R.res="ct"; return R; }
	size_t off=0,ci=0; bool eof=false,err=false;
	static const char code[]="EmprcFN";
	while(off<body.size() && !eof && !err) {
		size_t n = ci<cuts.size() ? cuts[ci++] : body.size()-off;
		if(n>body.size()-off) n=body.size()-off;
		if(n==0) continue;
		char const *b=body.data()+off,*e=b+n;
		while(b!=e) {
			multipart_parser::parsing_result_type r=p.consume(b,e);
			R.res+=code[r];
			if(r==multipart_parser::eof) { eof=true; break; }
			if(!multipart_parser::is_ok(r)) { err=true; break; }
		}
		if(eof && b!=e) err=true;
		off+=n;
	}
	if(eof && !err && off==body.size()) {
		R.ok=true;
		multipart_parser::files_type fs=p.get_files();
		for(size_t i=0;i<fs.size();i++) {
			part q; q.name=fs[i]->name(); q.filename=fs[i]->filename(); q.mime=fs[i]->mime(); q.data=getall(*fs[i]);
			R.parts.push_back(q);
		}
	}
	return R;
}

// ------------------------------------------------------------------ request through a memory connection
static booster::aio::io_service *g_ios;

class mem_conn : public cppcms::impl::cgi::connection {
public:
	mem_conn(cppcms::service &srv,std::map<std::string,std::string> const &env,std::string const &body,std::vector<size_t> const &cuts) :
		cppcms::impl::cgi::connection(srv), sock_(*g_ios), body_(body), cuts_(cuts), off_(0), ci_(0), left_(0),
		pending_(false), status_(0), eofs_(0)
	{
		for(std::map<std::string,std::string>::const_iterator p=env.begin();p!=env.end();++p)
			env_.add(pool_.add(p->first),pool_.add(p->second));
		int fds[2];
		if(socketpair(AF_UNIX,SOCK_STREAM,0,fds)!=0) { perror("socketpair"); exit(3); }
		sock_.assign(fds[0]); other_=fds[1];
	}
	~mem_conn() { ::close(other_); }
	virtual void set_response_headers(cppcms::impl::response_headers &h)
	{
		cppcms::impl::response_headers::string_buffer_wrapper wr;
		h.format_cgi_headers(wr,true);
		headers_=wr.data();
		size_t p=headers_.find("Status:");
		status_ = p==std::string::npos ? 200 : atoi(headers_.c_str()+p+7);
	}
	virtual booster::aio::const_buffer format_output(booster::aio::const_buffer const &in,bool,booster::system::error_code &) { return in; }
	virtual bool write(booster::aio::const_buffer const &in,bool,booster::system::error_code &)
	{
		std::pair<booster::aio::const_buffer::entry const *,size_t> all=in.get();
		for(size_t i=0;i<all.second;i++) out_.append(reinterpret_cast<char const *>(all.first[i].ptr),all.first[i].size);
		return true;
	}
	virtual bool nonblocking_write(booster::aio::const_buffer const &in,bool eof,booster::system::error_code &e) { return write(in,eof,e); }
	virtual void async_write(booster::aio::const_buffer const &in,bool eof,handler const &h)
	{
		booster::system::error_code e; write(in,eof,e); h(e);
	}
	virtual void on_async_write_start() {}
	virtual void on_async_write_progress(bool) {}
	virtual void do_eof() { eofs_++; }
	virtual booster::aio::io_service &get_io_service() { return *g_ios; }
	virtual booster::aio::stream_socket &socket() { return sock_; }
	virtual void async_read_headers(handler const &h) { h(booster::system::error_code()); }
	virtual bool keep_alive() { return false; }
	virtual void async_read_eof(callback const &) {}
	virtual void async_read_some(void *p,size_t n,io_handler const &h) { pp_=p; pn_=n; ph_=h; pending_=true; }
	// deliver one read; false when nothing is waiting
	bool pump()
	{
		if(!pending_) return false;
		pending_=false;
		io_handler h=ph_; ph_=io_handler();
		size_t rem=body_.size()-off_;
		if(rem==0) {
			h(booster::system::error_code(booster::aio::aio_error::eof,booster::aio::aio_error_cat),0);
			return true;
		}
		if(left_==0) left_ = ci_<cuts_.size() ? cuts_[ci_++] : rem;
		if(left_==0) left_=1;
		size_t k=pn_; if(k>left_) k=left_; if(k>rem) k=rem;
		memcpy(pp_,body_.data()+off_,k); off_+=k; left_-=k;
		asked.push_back(pn_); got.push_back(k);
		h(booster::system::error_code(),k);
		return true;
	}
	int status() const { return status_; }
	std::vector<size_t> asked,got;
private:
	booster::aio::stream_socket sock_;
	int other_;
	std::string body_;
	std::vector<size_t> cuts_;
	size_t off_,ci_,left_;
	bool pending_; void *pp_; size_t pn_; io_handler ph_;
	int status_,eofs_;
	std::string headers_,out_;
};

struct upcfg {
	std::string ct;          // "mp" | "url" | "raw"
	std::string ctype;       // CONTENT_TYPE text
	std::string bnd;
	std::string body;
	long long decl;
	long long cl,mp; size_t mem;
	std::string flt;         // none | raw | mp
	int buf;
	std::vector<size_t> cuts;
	// what the installed filter does in its call-backs (all of it is allowed by the API):
	// rd[cb] for cb = 1 on_new_file, 2 on_upload_progress, 3 on_data_ready, 4 on_end_of_content (saved file references):
	//   0 nothing, 1 read k bytes from the current position, 2 seek somewhere and read k, 3 rewind and read everything,
	//   4 as 3, then leave the position in the middle
	int rd[5]; long rk; int rstyle;      // rstyle 0: rdbuf()->sgetn, 1: istream::read + clear()
	// abort_upload thrown at the ab_at-th call of call-back ab_cb (1..4 as above, 5 raw on_data_chunk, 6 raw on_end_of_content)
	int ab_cb,ab_at,ab_code;
	upcfg() : decl(0), cl(0), mp(0), mem(0), buf(4096), rk(0), rstyle(0), ab_cb(0), ab_at(0), ab_code(0) { rd[0]=rd[1]=rd[2]=rd[3]=rd[4]=0; }
};
struct obs { int cb,idx; long long size,pos,k; std::string data; };
struct upres {
	int st; bool ran;
	std::vector<part> post,files;
	std::string rp;
	int raw_calls,raw_eoc,raw_err; std::string raw_data;
	std::vector<std::pair<int,long long> > cbs; int mp_eoc,mp_err;
	std::vector<obs> reads; bool fired;
	int tmpd,tmpa;
	std::vector<size_t> got;
};
static upcfg const *g_cfg;
static upres *g_res;

static void maybe_abort(int cb,int count)
{
	if(g_cfg->ab_cb==cb && g_cfg->ab_at==count) { g_res->fired=true; throw cppcms::http::abort_upload(g_cfg->ab_code); }
}
struct raw_flt : public cppcms::http::raw_content_filter {
	raw_flt() {}
	virtual void on_data_chunk(void const *p,size_t n) { g_res->raw_calls++; maybe_abort(5,g_res->raw_calls); g_res->raw_data.append((char const *)p,n); }
	virtual void on_end_of_content() { g_res->raw_eoc++; maybe_abort(6,1); }
	virtual void on_error() { g_res->raw_err++; }
};
struct mp_flt : public cppcms::http::multipart_filter {
	int count[5]; int nparts; std::vector<cppcms::http::file *> saved;
	mp_flt() : nparts(0) { count[0]=count[1]=count[2]=count[3]=count[4]=0; }
	// the filter looks at the part through file::data(); what it sees is logged as an observation
	void look(cppcms::http::file &f,int cb,int idx)
	{
		int mode=g_cfg->rd[cb];
		if(!mode) return;
		std::istream &in=f.data();
		long long size=f.size();
		obs o; o.cb=cb; o.idx=idx; o.size=size; o.k=g_cfg->rk;
		in.clear();
		if(mode==1) { o.pos=in.tellg(); if(o.pos<0) { in.clear(); in.seekg(0); o.pos=0; } }
		else if(mode==2) { o.pos=(count[cb]*7+idx*3)%(size+1); in.seekg(o.pos); }
		else { o.pos=0; in.seekg(0); o.k=size+5; }
		std::string buf((size_t)o.k,'\0');
		std::streamsize n=0;
		if(o.k>0) {
			if(g_cfg->rstyle==0) n=in.rdbuf()->sgetn(&buf[0],o.k);
			else { in.read(&buf[0],o.k); n=in.gcount(); in.clear(); }
		}
		if(n<0) n=0;
		o.data.assign(buf.data(),(size_t)n);
		if(mode==4) in.seekg(size/2);
		g_res->reads.push_back(o);
	}
	virtual void on_new_file(cppcms::http::file &f)
	{
		nparts++; saved.push_back(&f);
		g_res->cbs.push_back(std::make_pair(1,f.size())); count[1]++; maybe_abort(1,count[1]); look(f,1,nparts);
	}
	virtual void on_upload_progress(cppcms::http::file &f) { g_res->cbs.push_back(std::make_pair(2,f.size())); count[2]++; maybe_abort(2,count[2]); look(f,2,nparts); }
	virtual void on_data_ready(cppcms::http::file &f) { g_res->cbs.push_back(std::make_pair(3,f.size())); count[3]++; maybe_abort(3,count[3]); look(f,3,nparts); }
	virtual void on_end_of_content()
	{
		g_res->mp_eoc++; count[4]++;
		for(size_t i=0;i<saved.size();i++) look(*saved[i],4,i+1);
		maybe_abort(4,1);
	}
	virtual void on_error() { g_res->mp_err++; }
};

class up_app : public cppcms::application {
public:
	up_app(cppcms::service &s) : cppcms::application(s) {}
	virtual void main(std::string)
	{
		if(!request().is_ready()) {
			request().limits().content_length_limit(g_cfg->cl);
			request().limits().multipart_form_data_limit(g_cfg->mp);
			request().limits().file_in_memory_limit(g_cfg->mem);
			request().limits().uploads_path(updir);
			request().setbuf(g_cfg->buf);
			if(g_cfg->flt=="raw") request().reset_content_filter(new raw_flt());
			else if(g_cfg->flt=="mp") request().reset_content_filter(new mp_flt());
			return;
		}
		g_res->ran=true;
		cppcms::http::request::form_type const &po=request().post();
		for(cppcms::http::request::form_type::const_iterator p=po.begin();p!=po.end();++p) {
			part q; q.name=p->first; q.data=p->second; g_res->post.push_back(q);
		}
		cppcms::http::request::files_type fs=request().files();
		for(size_t i=0;i<fs.size();i++) {
			part q; q.name=fs[i]->name(); q.filename=fs[i]->filename(); q.mime=fs[i]->mime(); q.data=getall(*fs[i]);
			if((long long)q.data.size()!=fs[i]->size()) q.data+="<size mismatch>";
			g_res->files.push_back(q);
		}
		std::pair<void *,size_t> r=request().raw_post_data();
		g_res->rp.assign((char const *)r.first,r.second);
		g_res->tmpd=count_files(updir);
	}
};

static cppcms::service *g_srv;
static void stop_ios() { g_ios->stop(); }

static upres run_request(upcfg const &c)
{
	upres R; R.st=0; R.ran=false; R.raw_calls=R.raw_eoc=R.raw_err=0; R.mp_eoc=R.mp_err=0; R.tmpd=0; R.tmpa=0; R.fired=false;
	g_cfg=&c; g_res=&R;
	{
		std::map<std::string,std::string> env;
		env["REQUEST_METHOD"]="POST"; env["SCRIPT_NAME"]="/up"; env["PATH_INFO"]="/x"; env["HTTP_HOST"]="h";
		env["QUERY_STRING"]=""; env["CONTENT_TYPE"]=c.ctype;
		char b[32]; snprintf(b,sizeof(b),"%lld",c.decl); env["CONTENT_LENGTH"]=b;
		booster::shared_ptr<mem_conn> conn(new mem_conn(*g_srv,env,c.body,c.cuts));
		booster::shared_ptr<cppcms::http::context> ctx(new cppcms::http::context(conn));
		ctx->run();
		while(conn->pump()) ;
		R.got=conn->got;
		ctx.reset();
		g_ios->post(stop_ios); g_ios->run(); g_ios->reset();
		R.st = R.ran ? (conn->status()?conn->status():200) : conn->status();
	}
	g_ios->post(stop_ios); g_ios->run(); g_ios->reset();
	R.tmpa=count_files(updir);
	g_cfg=0; g_res=0;
	return R;
}

// canonical text of an outcome (everything the property speaks about)
static std::string outcome_json(upcfg const &c,upres const &R,bool small)
{
	std::string s; char b[160];
	snprintf(b,sizeof(b),"\"st\":%d,\"ran\":%s,",R.st,R.ran?"true":"false"); s+=b;
	std::string po="[";
	for(size_t i=0;i<R.post.size();i++) { if(i) po+=","; po+="{\"n\":"+jbytes(R.post[i].name)+","+jdata(R.post[i].data,small)+"}"; }
	s+="\"post\":"+po+"],\"files\":"+jparts(R.files,small)+",";
	s+="\"rp\":{"+jdata(R.rp,small)+"},";
	snprintf(b,sizeof(b),"\"calls\":%d,\"eoc\":%d,\"err\":%d",R.raw_calls,R.raw_eoc,R.raw_err);
	s+="\"raw\":{"+jdata(R.raw_data,small)+","+b+"},";
	std::string cb="[";
	// long runs of on_upload_progress are thinned (first, last, a few in between) when the list is long
	std::vector<std::pair<int,long long> > cbs;
	if(R.cbs.size()<=120) cbs=R.cbs;
	else for(size_t i=0;i<R.cbs.size();) {
		if(R.cbs[i].first!=2) { cbs.push_back(R.cbs[i++]); continue; }
		size_t j=i; while(j<R.cbs.size() && R.cbs[j].first==2) j++;
		size_t n=j-i, step = n>8 ? n/8 : 1;
		for(size_t k=i;k<j;k+=step) cbs.push_back(R.cbs[k]);
		if((j-1-i)%step) cbs.push_back(R.cbs[j-1]);
		i=j;
	}
	for(size_t i=0;i<cbs.size();i++) { snprintf(b,sizeof(b),i?",[%d,%lld]":"[%d,%lld]",cbs[i].first,cbs[i].second); cb+=b; }
	// observations of the filter: first and last 40 kept when there are many
	std::string ob="[";
	for(size_t i=0,n=0;i<R.reads.size();i++) {
		if(R.reads.size()>80 && i>=40 && i+40<R.reads.size()) continue;
		obs const &o=R.reads[i];
		snprintf(b,sizeof(b),"%s{\"c\":%d,\"i\":%d,\"s\":%lld,\"p\":%lld,\"k\":%lld,",n++?",":"",o.cb,o.idx,o.size,o.pos,o.k);
		ob+=b; ob+=jdata(o.data,small)+"}";
	}
	snprintf(b,sizeof(b),"],\"eoc\":%d,\"err\":%d},",R.mp_eoc,R.mp_err);
	s+="\"mpf\":{\"cbs\":"+cb+"],\"obs\":"+ob+b;
	snprintf(b,sizeof(b),"\"fired\":%s,",R.fired?"true":"false"); s+=b;
	snprintf(b,sizeof(b),"\"tmpd\":%d,\"tmpa\":%d",R.tmpd,R.tmpa); s+=b;
	(void)c;
	return s;
}
static std::string input_json(upcfg const &c,bool small,std::vector<part> const *enc)
{
	std::string s="{\"e\":\"Up\",\"ct\":\""+c.ct+"\",\"bnd\":"+jbytes(c.bnd)+",";
	if(small) s+="\"b\":"+jbytes(c.body)+",";
	char b[200];
	snprintf(b,sizeof(b),"\"blen\":%zu,\"bdig\":%s,\"decl\":%lld,\"cl\":%lld,\"mp\":%lld,\"mem\":%zu,\"flt\":\"%s\",\"buf\":%d,",
		c.body.size(),jdig(c.body).c_str(),c.decl,c.cl,c.mp,c.mem,c.flt.c_str(),c.buf);
	s+=b;
	if(enc) s+="\"enc\":"+jparts(*enc,small)+",";
	snprintf(b,sizeof(b),"\"pol\":{\"rd\":[%d,%d,%d,%d],\"k\":%ld,\"style\":%d},\"ab\":{\"cb\":%d,\"at\":%d,\"code\":%d},",
		c.rd[1],c.rd[2],c.rd[3],c.rd[4],c.rk,c.rstyle,c.ab_cb,c.ab_at,c.ab_code);
	s+=b;
	return s;
}

// ------------------------------------------------------------------ class-exhaustive bodies
static bool headerless(std::string const &body,std::string const &bnd)
{
	return ("\r\n"+body).find("\r\n--"+bnd+"\r\n\r\n")!=std::string::npos;
}
// the header line(s) the class H stands for; rotates with v
static std::string hvariant(unsigned v,block *b1,block *b2)
{
	part p; unsigned st=0;
	switch(v%4) {
	case 0: p.name="a"; st=0; break;
	case 1: p.name="b"; p.filename="f.txt"; p.mime="text/plain"; st=1|4|16; break;
	case 2: p.name="c d"; st=2|1024; break;
	default: p.name="n"; p.filename="q\"x"; p.mime="application/octet-stream"; st=512|32|4; break;
	}
	std::vector<hline> ls=part_lines(p,st);
	std::string r;
	for(size_t i=0;i<ls.size();i++) { if(i) r+="\r\n"; r+=ls[i].bytes; b1->add_sticky(ls[i]); b2->add_sticky(ls[i]); }
	return r;
}
static const char ALPHA[5]={'\r','\n','-','B','x'};
template<typename F> static void for_tails(int maxtail,F &f)
{
	for(int len=0;len<=maxtail;len++) {
		std::vector<int> ix(len,0);
		for(;;) {
			std::string t(len,' ');
			for(int i=0;i<len;i++) t[i]=ALPHA[ix[i]];
			f(t);
			int k=len-1;
			while(k>=0 && ++ix[k]==5) { ix[k]=0; k--; }
			if(k<0) break;
		}
	}
}
// starting points: (prefix, suffix); the freely chosen tail goes in between
static std::vector<std::pair<std::string,std::string> > prefixes(std::string const &bnd,std::string const &H)
{
	std::vector<std::pair<std::string,std::string> > r;
	std::string open="--"+bnd+"\r\n"+H+"\r\n\r\n";
	r.push_back(std::make_pair(std::string(),std::string()));
	r.push_back(std::make_pair("--"+bnd,std::string()));
	r.push_back(std::make_pair(open,std::string()));
	r.push_back(std::make_pair(open+"\r\n--"+bnd,std::string()));
	r.push_back(std::make_pair(open+"x\r\n--"+bnd+"\r\n"+H+"\r\n\r\n",std::string()));
	r.push_back(std::make_pair(open,"\r\n--"+bnd+"--\r\n"));       // tail = the whole content of a well-delimited part
	return r;
}
static void all_cuts(size_t n,int ncuts,std::vector<std::vector<size_t> > &out)
{
	out.clear();
	out.push_back(std::vector<size_t>());
	for(size_t i=1;i<n;i++) {
		std::vector<size_t> c; c.push_back(i); out.push_back(c);
		if(ncuts>=2) for(size_t j=i+1;j<n;j++) { std::vector<size_t> d; d.push_back(i); d.push_back(j-i); out.push_back(d); }
	}
}
static unsigned long n_bodies=0,n_runs=0;

struct parser_exh {
	int ncuts; std::string bnd; std::string prefix,suffix; unsigned hv; size_t minfree;
	void operator()(std::string const &tail)
	{
		std::string body=prefix+tail+suffix;
		block *b = headerless(body,bnd) ? B_hl : B_main;
		std::vector<std::vector<size_t> > cuts;
		// cuts only inside the freely chosen tail and the last bytes of the prefix
		all_cuts(body.size(),ncuts,cuts);
		std::map<std::string,std::pair<int,std::vector<size_t> > > groups;
		for(size_t i=0;i<cuts.size();i++) {
			if(!cuts[i].empty() && cuts[i][0]+4<minfree) continue;
			presult r=run_parser(body,bnd,cuts[i]); n_runs++;
			std::string o=std::string("\"ok\":")+(r.ok?"true":"false")+",\"parts\":"+jparts(r.parts,true);
			std::pair<int,std::vector<size_t> > &g=groups[o];
			if(g.first++==0) g.second=cuts[i];
		}
		n_bodies++;
		for(std::map<std::string,std::pair<int,std::vector<size_t> > >::iterator p=groups.begin();p!=groups.end();++p) {
			char nb[32]; snprintf(nb,sizeof(nb),"%d",p->second.first);
			b->ev("{\"e\":\"Parse\",\"bnd\":"+jbytes(bnd)+",\"b\":"+jbytes(body)+",\"cnt\":"+nb+",\"cut\":"+jints(p->second.second)+","+p->first+"}");
		}
	}
};
struct req_exh {
	std::string bnd; std::string prefix,suffix; size_t minfree;
	void operator()(std::string const &tail)
	{
		upcfg c; c.ct="mp"; c.bnd=bnd; c.ctype="multipart/form-data; boundary="+bnd; c.body=prefix+tail+suffix; c.decl=c.body.size();
		c.cl=1<<20; c.mp=1<<20; c.mem=1<<16; c.flt = (n_bodies%7==0)?"mp":"none"; c.buf=4096;
		block *b = headerless(c.body,bnd) ? B_hl : B_main;
		std::vector<std::vector<size_t> > cuts; all_cuts(c.body.size(),1,cuts);
		std::map<std::string,std::pair<int,std::vector<size_t> > > groups;
		for(size_t i=0;i<cuts.size();i++) {
			if(!cuts[i].empty() && cuts[i][0]+4<minfree) continue;
			c.cuts=cuts[i];
			upres r=run_request(c); n_runs++;
			std::pair<int,std::vector<size_t> > &g=groups[outcome_json(c,r,true)];
			if(g.first++==0) g.second=cuts[i];
		}
		n_bodies++;
		for(std::map<std::string,std::pair<int,std::vector<size_t> > >::iterator p=groups.begin();p!=groups.end();++p) {
			char nb[32]; snprintf(nb,sizeof(nb),"%d",p->second.first);
			b->ev(input_json(c,true,0)+"\"cnt\":"+nb+",\"cut\":"+jints(p->second.second)+","+p->first+"}");
		}
	}
};

// ------------------------------------------------------------------ urlencoded
static bool url_piece_ok(std::string const &p) { size_t e=p.find('='); return e!=std::string::npos && e!=0; }
static bool url_wellformed(std::string const &b)
{
	size_t p=0;
	while(p<b.size()) {
		size_t e=b.find('&',p); if(e==std::string::npos) e=b.size();
		if(!url_piece_ok(b.substr(p,e-p))) return false;
		p=e+1;
	}
	return true;
}
static void run_url(std::string const &body,std::vector<part> const *enc,vt::rng &rnd,int cutmode)
{
	upcfg c; c.ct="url"; c.ctype=(rnd(2)?"application/x-www-form-urlencoded":"application/x-www-form-urlencoded; charset=UTF-8");
	c.body=body; c.decl=body.size(); c.cl=1<<20; c.mp=1<<20; c.mem=1<<16; c.flt="none"; c.buf=1+rnd(300);
	bool small = body.size()<=300;
	block *b = url_wellformed(body) ? B_main : B_mal;
	std::vector<std::vector<size_t> > cuts;
	if(cutmode==1) all_cuts(body.size(),1,cuts);
	else { cuts.push_back(std::vector<size_t>()); std::vector<size_t> r; for(int i=0;i<8;i++) r.push_back(1+rnd(body.size()/3+2)); cuts.push_back(r); }
	std::map<std::string,std::pair<int,std::vector<size_t> > > groups;
	for(size_t i=0;i<cuts.size();i++) {
		c.cuts=cuts[i];
		upres r=run_request(c); n_runs++;
		std::pair<int,std::vector<size_t> > &g=groups[outcome_json(c,r,small)];
		if(g.first++==0) g.second=cuts[i];
	}
	n_bodies++;
	for(std::map<std::string,std::pair<int,std::vector<size_t> > >::iterator p=groups.begin();p!=groups.end();++p) {
		char nb[32]; snprintf(nb,sizeof(nb),"%d",p->second.first);
		b->ev(input_json(c,small,small?0:enc)+"\"cnt\":"+nb+",\"cut\":"+jints(p->second.second)+","+p->first+"}");
	}
}
static std::string urlenc(std::string const &s,vt::rng &rnd)
{
	std::string r; char b[8];
	for(size_t i=0;i<s.size();i++) {
		unsigned char c=s[i];
		bool safe=(c>='a'&&c<='z')||(c>='A'&&c<='Z')||(c>='0'&&c<='9')||c=='-'||c=='_'||c=='.'||c=='~';
		if(c==' ' && rnd(2)) r+='+';
		else if(safe && rnd(8)) r+=char(c);
		else { snprintf(b,sizeof(b),rnd(2)?"%%%02X":"%%%02x",c); r+=b; }
	}
	return r;
}

// ------------------------------------------------------------------ random part lists
static std::string rnd_content(vt::rng &rnd,size_t len,std::string const &bnd)
{
	std::string r; r.reserve(len);
	int kind=rnd(5);
	std::string delim="\r\n--"+bnd;
	while(r.size()<len) {
		switch(kind==4 ? (int)rnd(4) : kind) {
		case 0: r+=char(rnd(256)); break;                                   // random bytes
		case 1: { static const char a[]="\r\n-\r\r\n--"; r+=a[rnd(9)]; } break; // CR/LF/dash runs
		case 2: { size_t k=rnd(delim.size()); r+=delim.substr(0,k); if(rnd(3)==0) r+=char(rnd(256)); } break; // boundary prefixes
		default: { size_t k=delim.size()-1; r+=delim.substr(0,k); r+=char(delim[k]+1+rnd(3)); } break;       // near-miss
		}
	}
	r.resize(len);
	// the content must not contain the delimiter itself
	size_t p;
	while((p=r.find(delim))!=std::string::npos) r[p+delim.size()-1]^=1;
	return r;
}
static std::string rnd_name(vt::rng &rnd,bool allow_any)
{
	static const char tok[]="abcXYZ019_-.";
	static const char any[]="ab \";\\=,:()<>@[]?{}/'%\t\xc3\xa9";
	size_t n=1+rnd(8); std::string r;
	for(size_t i=0;i<n;i++) r+= (allow_any && rnd(3)==0) ? any[rnd(sizeof(any)-1)] : tok[rnd(sizeof(tok)-1)];
	return r;
}
static std::string rnd_boundary(vt::rng &rnd)
{
	static const char bch[]="0123456789abcdefghijklmnopqrstuvwxyzABCDEFGHIJKLMNOPQRSTUVWXYZ'()+_,-./:=?";
	static const char tokch[]="0123456789abcxyzABCXYZ'+_-.";
	size_t n; unsigned k=rnd(10);
	if(k==0) n=1; else if(k==1) n=70; else if(k<5) n=1+rnd(6); else n=8+rnd(62);
	bool tok=rnd(2);
	std::string r;
	for(size_t i=0;i<n;i++) r+= tok ? tokch[rnd(sizeof(tokch)-1)] : bch[rnd(sizeof(bch)-1)];
	if(rnd(4)==0) r[0]='-';
	return r;
}
static long long around(vt::rng &rnd,long long v,long long far)
{
	switch(rnd(6)) { case 0: return v>0?v-1:0; case 1: return v; case 2: return v+1; default: return far; }
}
static void run_rand(vt::rng &rnd,size_t maxpart,unsigned smallpct)
{
	upcfg c; c.ct="mp";
	std::string bnd=rnd_boundary(rnd); c.bnd=bnd;
	bool quoted = !is_token(bnd) || rnd(2);
	c.ctype=std::string(rnd(2)?"multipart/form-data":"Multipart/Form-Data")+(rnd(2)?"; ":";")+"boundary="+(quoted?quote_param(bnd):bnd);
	if(rnd(4)==0) c.ctype+="; charset=utf-8";
	bool small=rnd(100)<smallpct;
	size_t np=rnd(11);
	if(small && np>3) np=rnd(4);
	std::vector<part> ps;
	size_t maxfield=0,maxfile=0;
	for(size_t i=0;i<np;i++) {
		part p; p.name=rnd_name(rnd,true);
		if(rnd(2)) { p.filename=rnd_name(rnd,true)+".bin"; static const char *mt[]={"text/plain","application/octet-stream","image/png","application/x-foo+bar"}; p.mime=mt[rnd(4)]; }
		size_t len;
		if(small) len=rnd(12);
		else switch(rnd(8)) { case 0: len=0; break; case 1: len=rnd(4); break; case 2: case 3: len=rnd(200); break; case 4: case 5: len=rnd(5000); break; case 6: len=rnd(maxpart/8+1); break; default: len=rnd(maxpart+1); }
		p.data=rnd_content(rnd,len,bnd);
		if(p.mime.empty()) { if(len>maxfield) maxfield=len; } else if(len>maxfile) maxfile=len;
		ps.push_back(p);
	}
	block *b=B_main;
	c.body=encode(ps,bnd,rnd,b);
	bool have_enc=true;
	// structural corruption (small bodies only: the meaning is then computed by TLC from the bytes)
	if(small && rnd(4)==0) {
		have_enc=false;
		switch(rnd(7)) {
		case 0: c.body="preamble\r\n"+c.body; break;
		case 1: c.body+="epilogue"; break;
		case 2: if(c.body.size()>2) c.body.erase(c.body.size()-2); break;
		case 3: { size_t p=rnd(c.body.size()); c.body.erase(p,1); } break;
		case 4: { size_t p=rnd(c.body.size()); c.body[p]^=(1<<rnd(8)); } break;
		case 5: { size_t p=rnd(c.body.size()); c.body.insert(p,1,"\r\n-x"[rnd(4)]); } break;
		default:{ size_t p=c.body.find("\r\n"); if(p!=std::string::npos) c.body.insert(p," "); } break;
		}
		// corrupted header lines must stay interpretable: unknown lines with ':' make the spec silent
	}
	if(c.body.size()>380) small=false;
	if(!small && !have_enc) return;
	if(headerless(c.body,bnd)) b=B_hl;
	c.decl=c.body.size();
	switch(rnd(12)) { case 0: c.decl=c.body.size()+1; break; case 1: if(c.decl>0) c.decl--; break; case 2: if(small) c.decl=rnd(c.body.size()+1); break; }
	c.cl=around(rnd,maxfield,1<<20);
	c.mp=around(rnd,c.decl,8<<20);
	c.mem=(size_t)around(rnd,maxfile,rnd(2)?0:(1<<20));
	if(rnd(3)==0) c.mem=rnd(maxfile+2);
	switch(rnd(5)) { case 0: c.flt="raw"; break; case 1: case 2: c.flt="mp"; break; default: c.flt="none"; }
	if(c.flt=="mp" && rnd(4)) {      // a filter that looks at the parts: read / seek in any call-back
		for(int cb=1;cb<=4;cb++) c.rd[cb] = rnd(2) ? rnd(5) : 0;
		c.rk = rnd(3)==0 ? rnd(3) : 1+rnd(small?12:3000);
		c.rstyle=rnd(2);
	}
	if(c.flt!="none" && rnd(6)==0) {   // a filter that gives up
		static const int codes[]={403,409,500,404,503};
		c.ab_cb = c.flt=="mp" ? 1+rnd(4) : 5+rnd(2);
		c.ab_at = 1+rnd(3); c.ab_code=codes[rnd(5)];
	}
	if(small && rnd(5)<2) c.mem=rnd(4);            // small parts spilled to disk, too
	if(c.flt=="raw") c.cl=around(rnd,c.decl,1<<20);   // no effect on multipart, but exercised
	static const int bufs[]={1,2,3,7,64,1000,1024,4096,8192,65536};
	c.buf=bufs[rnd(10)]; if(rnd(3)==0) c.buf=1+rnd(65536);
	if(c.body.size()>20000 && c.buf<16) c.buf=16+rnd(4096);
	size_t nc=rnd(3)==0?0:1+rnd(12);
	for(size_t i=0;i<nc;i++) c.cuts.push_back(1+rnd(rnd(2)?16:(c.body.size()/4+2)));
	upres r=run_request(c); n_runs++; n_bodies++;
	b->ev(input_json(c,small,have_enc?&ps:0)+"\"cnt\":1,\"cut\":"+jints(r.got,40)+","+outcome_json(c,r,small)+"}");
}
static void run_rand_other(vt::rng &rnd,size_t maxlen)
{
	// urlencoded from pairs, and opaque content types (raw_post_data / raw filter)
	if(rnd(2)) {
		std::vector<part> ps; std::string body;
		size_t np=rnd(8);
		bool small=rnd(3)!=0;
		for(size_t i=0;i<np;i++) {
			part p; p.name=rnd_name(rnd,true); if(rnd(4)==0 && !ps.empty()) p.name=ps[rnd(ps.size())].name;
			size_t len = small ? rnd(10) : rnd(800);
			for(size_t k=0;k<len;k++) p.data+=char(rnd(4)?("ab &=+%;\r\n"[rnd(10)]):rnd(256));
			ps.push_back(p);
			if(i) body+="&";
			body+=urlenc(p.name,rnd)+"="+urlenc(p.data,rnd);
		}
		if(np && rnd(5)==0) body+="&";
		run_url(body,&ps,rnd,0);
		return;
	}
	upcfg c; c.ct="raw"; static const char *cts[]={"application/json","text/plain; charset=utf-8","application/octet-stream"};
	c.ctype=cts[rnd(3)];
	size_t len = rnd(3)? rnd(300) : rnd(maxlen+1);
	for(size_t k=0;k<len;k++) c.body+=char(rnd(256));
	bool small=c.body.size()<=300;
	c.decl=c.body.size();
	switch(rnd(10)) { case 0: c.decl++; break; case 1: if(c.decl>0) c.decl--; break; }
	c.cl=around(rnd,c.decl,1<<20); c.mp=1<<20; c.mem=0; c.flt=rnd(2)?"raw":"none";
	c.buf=1+rnd(rnd(2)?64:65536);
	size_t nc=rnd(6); for(size_t i=0;i<nc;i++) c.cuts.push_back(1+rnd(c.body.size()/2+2));
	upres r=run_request(c); n_runs++; n_bodies++;
	B_main->ev(input_json(c,small,0)+"\"cnt\":1,\"cut\":"+jints(r.got,40)+","+outcome_json(c,r,small)+"}");
}

// ------------------------------------------------------------------ filters that look at the parts
// one well-formed body (fields incl. an empty one and a token, one file) x read policies of the filter x
// in-memory / spilled x buffer sizes x abort_upload at every call-back
static void mode_filt(vt::rng &rnd,bool big)
{
	std::vector<part> ps;
	part a; a.name="csrf"; a.data="tok-0123456789abcdef"; ps.push_back(a);
	part e; e.name="empty"; ps.push_back(e);
	part f; f.name="upload"; f.filename="x.bin"; f.mime="application/octet-stream"; f.data=std::string("\0\1\r\n--B\r\n-\xff binary \r\n",21); ps.push_back(f);
	part d; d.name="descr"; d.data= big ? rnd_content(rnd,20000,"Bnd7") : std::string("some text\r\nwith a line end, 40 bytes.."); ps.push_back(d);
	part g; g.name="csrf"; g.data="second"; ps.push_back(g);
	block *b=B_main;
	static const int bufs[4]={1,7,64,4096};
	static const size_t mems[3]={0,8,1<<20};
	int npol=0;
	for(int cb=0;cb<=4;cb++) for(int mode=(cb?1:0);mode<=(cb?4:0);mode++) for(int cb2=0;cb2<=4;cb2++) {
		if(cb2 && (cb2==cb || (npol++%3))) continue;        // single call-backs, and a third of the pairs
		for(int mi=0;mi<3;mi++) for(int bi=0;bi<4;bi++) {
			if(big && (bi==0 || mi==1)) continue;
			upcfg c; c.ct="mp"; c.bnd="Bnd7"; c.ctype="multipart/form-data; boundary=Bnd7";
			c.body=encode(ps,c.bnd,rnd,b,(unsigned)(cb*5+mode));
			c.decl=c.body.size(); c.cl=1<<20; c.mp=1<<20; c.mem=mems[mi]; c.flt= cb ? "mp" : ((mi+bi)%2?"mp":"none"); c.buf=bufs[bi];
			if(cb) c.rd[cb]=mode;
			if(cb2) c.rd[cb2]=1+(mode+cb2)%4;
			c.rk = (bi%2) ? 4 : 1000; c.rstyle=(mi+bi+mode)%2;
			bool small=!big;
			upres r=run_request(c); n_runs++; n_bodies++;
			b->ev(input_json(c,small,&ps)+"\"cnt\":1,\"cut\":"+jints(r.got,12)+","+outcome_json(c,r,small)+"}");
		}
	}
	// abort_upload from every call-back, at the 1st / 2nd / 3rd call
	for(int ab=1;ab<=6;ab++) for(int at=1;at<=3;at++) for(int bi=0;bi<4;bi+=(big?3:1)) {
		upcfg c; c.ct="mp"; c.bnd="Bnd7"; c.ctype="multipart/form-data; boundary=Bnd7";
		c.body=encode(ps,c.bnd,rnd,b,7u);
		c.decl=c.body.size(); c.cl=1<<20; c.mp=1<<20; c.mem=mems[at%3]; c.flt= ab<=4 ? "mp" : "raw"; c.buf=bufs[bi];
		if(ab<=4) { c.rd[3]=3; c.rd[2]=1; c.rk=5; }
		c.ab_cb=ab; c.ab_at=at; c.ab_code= 403+at;
		upres r=run_request(c); n_runs++; n_bodies++;
		b->ev(input_json(c,!big,&ps)+"\"cnt\":1,\"cut\":"+jints(r.got,12)+","+outcome_json(c,r,!big)+"}");
	}
}

// ------------------------------------------------------------------ seeds
static void seed_mp(std::string const &bnd,std::string const &body,vt::rng &rnd)
{
	upcfg c; c.ct="mp"; c.bnd=bnd; c.ctype="multipart/form-data; boundary="+bnd; c.body=body; c.decl=body.size();
	c.cl=1<<20; c.mp=1<<20; c.mem=1<<16; c.flt="none"; c.buf=4096;
	block *b = headerless(body,bnd) ? B_hl : B_main;
	std::vector<std::vector<size_t> > cuts; all_cuts(body.size(),1,cuts);
	std::map<std::string,std::pair<int,std::vector<size_t> > > groups;
	for(size_t i=0;i<cuts.size();i++) {
		c.cuts=cuts[i]; upres r=run_request(c); n_runs++;
		std::pair<int,std::vector<size_t> > &g=groups[outcome_json(c,r,true)];
		if(g.first++==0) g.second=cuts[i];
	}
	n_bodies++; (void)rnd;
	for(std::map<std::string,std::pair<int,std::vector<size_t> > >::iterator p=groups.begin();p!=groups.end();++p) {
		char nb[32]; snprintf(nb,sizeof(nb),"%d",p->second.first);
		b->ev(input_json(c,true,0)+"\"cnt\":"+nb+",\"cut\":"+jints(p->second.second)+","+p->first+"}");
	}
}

int main(int argc,char **argv)
{
	if(argc<2) { fprintf(stderr,"usage\n"); return 2; }
	std::string mode=argv[1];
	char const *outp=getenv("VERIF_OUT");
	if(!outp) { fprintf(stderr,"VERIF_OUT not set\n"); return 2; }
	std::string out=outp;
	tr_main.open(out.c_str()); tr_hl.open((out+".hl").c_str()); tr_mal.open((out+".mal").c_str());
	block bm(&tr_main),bh(&tr_hl),bx(&tr_mal); B_main=&bm; B_hl=&bh; B_mal=&bx;
	char const *w=getenv("VERIF_WORK");
	char tmp[512]; snprintf(tmp,sizeof(tmp),"%s/c12-up-%d",w?w:".",(int)getpid());
	mkdir(tmp,0700); updir=tmp;
	vt::rng rnd(vt::envl("VERIF_SEED",1)*1000003ull+mode.size()*7+(argc>2?atol(argv[2]):0));
	int rc=0;
	try {
		cppcms::json::value cfg;
		cfg["service"]["api"]="http"; cfg["service"]["port"]=0; cfg["service"]["worker_threads"]=1;
		cfg["logging"]["level"]="emergency";
		cfg["session"]["disable_automatic_load"]=true;
		cppcms::service srv(cfg);
		g_srv=&srv;
		booster::aio::io_service ios; g_ios=&ios;
		srv.applications_pool().mount(cppcms::create_pool<up_app>(),cppcms::mount_point(),
			cppcms::app::asynchronous | cppcms::app::content_filter);
		static const char *bnds[3]={"B","BB","-B"};
		if(mode=="parser" || mode=="reqexh") {
			int maxtail=atoi(argv[2]); int ncuts= argc>3 ? atoi(argv[3]) : 1;
			int only= argc>4 ? atoi(argv[4]) : -1;      // boundary index (to run the three in parallel)
			unsigned hv=0;
			for(int bi=0;bi<3;bi++) {
				if(only>=0 && bi!=only) { hv+=4; continue; }
				for(unsigned v=0;v<4;v++,hv++) {
					std::string H=hvariant(hv,B_main,B_hl);
					std::vector<std::pair<std::string,std::string> > pf=prefixes(bnds[bi],H);
					for(size_t pi=0;pi<pf.size();pi++) {
						if(v>0 && pi<2) continue;       // prefixes without H: once
						if(v>0 && mode=="reqexh" && (v+pi)%2) continue;
						int mt=maxtail;
						if(v>0) mt=maxtail-1;
						if(mode=="parser") { parser_exh f; f.ncuts=ncuts; f.bnd=bnds[bi]; f.prefix=pf[pi].first; f.suffix=pf[pi].second; f.hv=hv; f.minfree=pf[pi].first.size(); for_tails(mt,f); }
						else { req_exh f; f.bnd=bnds[bi]; f.prefix=pf[pi].first; f.suffix=pf[pi].second; f.minfree=pf[pi].first.size(); for_tails(mt,f); }
					}
				}
			}
		}
		else if(mode=="urlexh") {
			int maxlen=atoi(argv[2]);
			static const char ua[6]={'a','=','&','+','%','4'};
			// regression inputs first
			static const char *seeds[]={"a=1&b","a=1&b=2","a","=1","a=1&&b=2","a=1&","&","a=%41+b","a==1","a=1&b=&c=3"};
			for(size_t i=0;i<sizeof(seeds)/sizeof(seeds[0]);i++) run_url(seeds[i],0,rnd,1);
			for(int len=0;len<=maxlen;len++) {
				std::vector<int> ix(len,0);
				for(;;) {
					std::string t(len,' '); for(int i=0;i<len;i++) t[i]=ua[ix[i]];
					run_url(t,0,rnd,len<=4?1:0);
					int k=len-1; while(k>=0 && ++ix[k]==6) { ix[k]=0; k--; }
					if(k<0) break;
				}
			}
		}
		else if(mode=="rand") {
			long count=atol(argv[2]); size_t maxpart=atol(argv[3]); unsigned smallpct=atoi(argv[4]);
			for(long i=0;i<count;i++) { if(i%5==4) run_rand_other(rnd,maxpart); else run_rand(rnd,maxpart,smallpct); }
		}
		else if(mode=="filt") { mode_filt(rnd,false); mode_filt(rnd,true); }
		else if(mode=="seeds") {
			std::string H=hvariant(0,B_main,B_hl);
			std::string cd="--B\r\n"+H+"\r\n\r\n";
			seed_mp("B","--B--\r\n",rnd);
			seed_mp("B",cd+"hello\r\n--B--\r\n",rnd);
			seed_mp("B",cd+"x\r\r\n--B--\r\n",rnd);                 // CR right before the delimiter (restart rule)
			seed_mp("B",cd+"x\r\n-\r\n--B--\r\n",rnd);
			seed_mp("B",cd+"x\r\n--\r\n--B--\r\n",rnd);
			seed_mp("B",cd+"\r\n--\r\r\n--B--\r\n",rnd);
			seed_mp("B",cd+"x\r\n--B-\r\n",rnd);
			seed_mp("B",cd+"x\r\n--B--\r\nepilogue",rnd);
			seed_mp("B","pre\r\n"+cd+"x\r\n--B--\r\n",rnd);
			seed_mp("B",cd+"x\r\n--B \r\n",rnd);
			// parts without any header line
			seed_mp("B","--B\r\n\r\n\r\n\r\n--B--\r\n",rnd);
			seed_mp("B","--B\r\n\r\nX\r\n\r\nREAL\r\n--B--\r\n",rnd);
			seed_mp("B","--B\r\n\r\nabc\r\n--B--\r\n",rnd);
			seed_mp("B",cd+"1\r\n--B\r\n\r\n\r\n2\r\n--B--\r\n",rnd);
		}
		else { fprintf(stderr,"unknown mode\n"); rc=2; }
		bm.flush(); bh.flush(); bx.flush();
		g_srv=0;
	}
	catch(std::exception const &e) {
		fprintf(stderr,"form_drv: exception %s\n",e.what()); rc=3;
	}
	tr_main.close(); tr_hl.close(); tr_mal.close();
	rmdir(updir.c_str());
	printf("bodies=%lu runs=%lu\n",n_bodies,n_runs);
	return rc;
}
