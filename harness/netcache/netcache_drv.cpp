// C10 driver: in-process tcp_cache_service instances on loopback, clients from
// tcp_cache_factory with / without a thread_cache_factory L1, fake clock.
//
// Every server gets its own backing cache object and every client its own L1 object;
// the harness keeps pointers to both and inspects them directly after every operation
// ("so" = live entries on the servers, "lo" = live entries in the acting client's L1),
// so that key placement, generations and L1 contents are in the trace.
//
// usage: netcache_drv exh    <ns> <nc> <l1mask> <nkeys> <ntrigs> <depth> <dlmode>
//        netcache_drv rand   <ns> <nc> <l1mask> <l1lim> <nkeys> <ntrigs> <nops> <execs>
//        netcache_drv script <ns> <nc> <l1mask> <l1lim> <nkeys> <ntrigs>      (ops on stdin)
//        netcache_drv coin   <ns> <nc> <l1mask> <nkeys> <execs>      (generation coincidences, fresh worlds)
//        netcache_drv wire   <ns> <cases> <maxval>
//        netcache_drv thr    <ns> <nc> <l1mask> <nkeys> <ntrigs> <ops> <execs> <srvthreads>
//
// Names: 1..nkeys are keys, 17..16+ntrigs are pure trigger names (one name space, as in Cache.tla).
#include "common/vtrace.h"
#include "common/fakeclock.h"
#include "base_cache.h"
#include "cache_storage.h"
#include "tcp_cache_server.h"
#include "tcp_cache_client.h"
#include "cache_over_ip.h"
#include <cppcms/session_storage.h>
#include <booster/intrusive_ptr.h>
#include <booster/shared_ptr.h>
#include <booster/thread.h>
#include <booster/verif_trace.h>
#include <sys/socket.h>
#include <netinet/in.h>
#include <arpa/inet.h>
#include <unistd.h>
#include <iostream>
#include <map>
#include <memory>

using namespace cppcms::impl;
typedef booster::intrusive_ptr<base_cache> cache_ptr;

static vt::out tr;
static int NS=1,NC=2,NK=1,NT=1;
static unsigned l1mask=3,l1lim=0;
static bool printable=false;

struct server {
	cache_ptr backing;
	std::unique_ptr<tcp_cache_service> svc;
	int port;
	long long genbase;
};
static std::vector<server> servers;
struct client {
	cache_ptr l1;      // null when the client has no L1
	cache_ptr cache;
};
static std::vector<client> clients;
static std::vector<int> place;   // name (1..NK) -> server index, learnt by the probe phase

static int free_port()
{
	int fd=socket(AF_INET,SOCK_STREAM,0);
	sockaddr_in a; memset(&a,0,sizeof(a));
	a.sin_family=AF_INET; a.sin_addr.s_addr=htonl(INADDR_LOOPBACK); a.sin_port=0;
	if(bind(fd,(sockaddr*)&a,sizeof(a))<0) { perror("bind"); exit(3); }
	socklen_t l=sizeof(a);
	getsockname(fd,(sockaddr*)&a,&l);
	int p=ntohs(a.sin_port);
	close(fd);
	return p;
}

// ---- names and values ----------------------------------------------------------------
static int salt[17];   // chosen by the probe phase so that key k lands on server (k-1) % NS
static std::string nm(int i)
{
	char b[64];
	if(printable) { if(i<=16) snprintf(b,sizeof(b),"k%d.%d",i,salt[i]); else snprintf(b,sizeof(b),"t%d",i); return b; }
	if(i<=16) {
		// binary key: high bytes, control bytes, quote - no NUL (a key is its own trigger and
		// triggers travel NUL-terminated; NUL keys are exercised by the wire driver)
		std::string r="K"; r+=char(i); r+=char(0xff); r+=char(0x80+i); r+="\"\\\n";
		if(i%3==0) r.append(40+i,char(0xC0+i));
		r+=char(1+salt[i]);
		return r;
	}
	snprintf(b,sizeof(b),"T%d\x01\xfe",i);
	std::string r=b;
	if(i%2==0) r.append(200,char('a'+i%26));   // a long trigger name
	return r;
}
static std::map<std::string,int> unnm_map;
static void init_names()
{
	unnm_map.clear();
	for(int i=1;i<=NK;i++) unnm_map[nm(i)]=i;
	for(int i=17;i<17+NT;i++) unnm_map[nm(i)]=i;
}
static int unnm(std::string const &s)
{
	std::map<std::string,int>::iterator p=unnm_map.find(s);
	return p==unnm_map.end() ? -1 : p->second;
}
static int maxval=600;
static std::string mkval(long id)
{
	char b[32]; snprintf(b,sizeof(b),"V%ld;",id);
	std::string r=b;
	size_t n=(size_t)((id*37)%maxval);
	if(id%9==4) n=0;
	for(size_t i=0;i<n;i++) r+=char((id*131+i*7)&0xff);   // all byte values incl. NUL
	return r;
}
// Value codes (field "v" of the trace): 0 = the EMPTY string, 2*id = mkval(id),
// 2*id+1 = a proper prefix of mkval(id).  All three kinds are stored by every driver, so that
// "hit with an empty value" differs from "miss" and from "the previous, longer value".
static std::string mkprefix(long id)
{
	std::string f=mkval(id);
	char b[32]; size_t h=snprintf(b,sizeof(b),"V%ld;",id);
	size_t n=f.size()-h;
	if(n<2) return f.substr(0,h-1);          // "V<id>" without the ';'
	return f.substr(0,h+n/2);
}
static std::string valbytes(long vc)
{
	if(vc==0) return std::string();
	return (vc&1) ? mkprefix(vc/2) : mkval(vc/2);
}
static long unval(std::string const &s)
{
	if(s.empty()) return 0;
	if(s[0]!='V') return -1;
	long id=atol(s.c_str()+1);
	if(id<=0) return -1;
	if(mkval(id)==s) return 2*id;
	if(mkprefix(id)==s) return 2*id+1;
	return -1;
}
// every client passes the SAME std::string object to all its fetches (never cleared in between), as
// an application that reuses a buffer would: a fetch that does not overwrite it shows the old bytes
static std::string outbuf[8];
static long lastfull[17];   // per key: id of the most recent full value stored (0 = none)

// ---- world ------------------------------------------------------------------------------
static bool have_salt=false;    // the probe phase ran once for this (NS, NK): placement is a pure function of the key
static long nstores[8];          // stores issued through clients since the last quiesce(), per owning server
static void build_world(int srvthreads,bool fresh_again=false)
{
	if(fresh_again) { clients.clear(); servers.clear(); }
	init_names();
	servers.resize(NS);
	std::vector<std::string> ips; std::vector<int> ports;
	for(int s=0;s<NS;s++) {
		servers[s].backing=thread_cache_factory(0);
		for(int attempt=0;;attempt++) {
			int p=free_port();
			try {
				servers[s].svc.reset(new tcp_cache_service(servers[s].backing,
					booster::shared_ptr<cppcms::sessions::session_storage_factory>(),srvthreads,"127.0.0.1",p));
				servers[s].port=p;
				break;
			}
			catch(std::exception const &e) {
				if(attempt>20) { fprintf(stderr,"cannot start server: %s\n",e.what()); exit(3); }
			}
		}
		ips.push_back("127.0.0.1"); ports.push_back(servers[s].port);
	}
	clients.resize(NC);
	for(int c=0;c<NC;c++) {
		if(l1mask&(1u<<c)) clients[c].l1=thread_cache_factory(l1lim);
		clients[c].cache=tcp_cache_factory(ips,ports,clients[c].l1);
	}
	if(fresh_again && have_salt) return;   // brand-new servers and L1s, all counters at 0, nothing probed
	// probe phase: where does each key live?  (stored through client 0, looked up directly)
	place.assign(NK+1,-1);
	std::set<std::string> none;
	for(int k=1;k<=NK;k++) {
		for(salt[k]=0;;salt[k]++) {
			place[k]=-1;
			clients[0].cache->store(nm(k),"probe",none,vt::clock_base+100);
			for(int s=0;s<NS;s++) {
				std::string v;
				if(servers[s].backing->fetch(nm(k),&v,0,0,0)) {
					if(place[k]>=0) { fprintf(stderr,"probe: key %d on two servers\n",k); exit(3); }
					place[k]=s;
				}
			}
			if(place[k]<0) { fprintf(stderr,"probe: key %d stored nowhere\n",k); exit(3); }
			for(int s=0;s<NS;s++) servers[s].backing->clear();
			if(place[k]==(k-1)%NS || salt[k]>=200) break;   // spread the keys over all servers
		}
	}
	init_names();
	have_salt=true;
}

static void quiesce()
{
	for(int s=0;s<NS;s++) servers[s].backing->clear();
	for(int c=0;c<NC;c++) if(clients[c].l1) clients[c].l1->clear();
	vt::fake_now=vt::clock_base;
	memset(lastfull,0,sizeof(lastfull));
	memset(nstores,0,sizeof(nstores));
	std::set<std::string> none;
	for(int s=0;s<NS;s++) {
		uint64_t g=0;
		servers[s].backing->store("\x01probe","x",none,vt::clock_base+5);
		servers[s].backing->fetch("\x01probe",0,0,0,&g);
		servers[s].genbase=(long long)g+1;
		servers[s].backing->clear();
	}
}

static std::string reset_line(char const *mode)
{
	vt::J j; j.s("e","Reset").s("mode",mode).i("ns",NS).i("nc",NC).i("l1lim",l1lim);
	std::vector<int> l1; for(int c=0;c<NC;c++) if(clients[c].l1) l1.push_back(c);
	j.a("l1",l1);
	std::vector<int> pl(place.begin()+1,place.end());
	j.a("place",pl);
	j.i("nk",NK).i("nt",NT);
	return j.str();
}

static std::string entry_json(int s,int k,cache_ptr const &c,long long genbase)
{
	std::string v; std::set<std::string> trig; time_t dl=0; uint64_t gen=0;
	if(!c->fetch(nm(k),&v,&trig,&dl,&gen)) return "";
	std::set<int> ts; bool bad=false;
	for(std::set<std::string>::iterator p=trig.begin();p!=trig.end();++p) { int t=unnm(*p); if(t<0) bad=true; ts.insert(t); }
	vt::J j; if(s>=0) j.i("s",s);
	j.i("k",k).i("v",unval(v)).i("g",(long long)gen-genbase).a("ts",ts).i("dl",(long long)(dl-vt::clock_base)).b("bad",bad);
	return j.str();
}
static long long genbase_of_key(int k) { return servers[place[k]].genbase; }

static void observe(vt::J &j,int c)
{
	std::string so="[";
	for(int s=0;s<NS;s++) for(int k=1;k<=NK;k++) {
		std::string e=entry_json(s,k,servers[s].backing,servers[s].genbase);
		if(!e.empty()) { if(so.size()>1) so+=','; so+=e; }
	}
	so+="]";
	j.raw("so",so);
	std::string lo="[";
	if(c>=0 && clients[c].l1) for(int k=1;k<=NK;k++) {
		std::string e=entry_json(-1,k,clients[c].l1,genbase_of_key(k));
		if(!e.empty()) { if(lo.size()>1) lo+=','; lo+=e; }
	}
	lo+="]";
	j.raw("lo",lo);
}

// ---- operations (sequential drivers) ---------------------------------------------------------
static long vcounter=0;
static std::set<std::string> trigset(std::vector<int> const &ts)
{
	std::set<std::string> r; for(size_t i=0;i<ts.size();i++) r.insert(nm(ts[i])); return r;
}
// vkind: 0 fresh full value, 1 empty value, 2 prefix of the value stored before under this key
static long pick_value(int k,int vkind)
{
	if(vkind==1) return 0;
	if(vkind==2 && lastfull[k]>0) { long vc=2*lastfull[k]+1; lastfull[k]=0; return vc; }
	long id=++vcounter;
	lastfull[k]=id;
	return 2*id;
}
static void op_store(int c,int k,std::vector<int> const &ts,int dl,int vkind=0)
{
	long vc=pick_value(k,vkind);
	clients[c].cache->store(nm(k),valbytes(vc),trigset(ts),vt::clock_base+dl);
	nstores[place[k]]++;
	std::set<int> tset(ts.begin(),ts.end());
	vt::J j; j.s("e","Op").i("c",c).s("op","store").i("k",k).i("v",vc).a("ts",tset).i("dl",dl);
	observe(j,c); tr.line(j.str());
}
struct fres { bool hit; long v; std::set<int> ts; bool bad; long long dl; long long gen; };
static fres do_fetch(int c,int k)
{
	fres r; r.hit=false; r.v=-1; r.bad=false; r.dl=0; r.gen=0;
	std::string &v=outbuf[c];     // reused, still holding what the previous fetch of this client left in it
	std::set<std::string> trig; time_t dl=0; uint64_t gen=0;
	r.hit=clients[c].cache->fetch(nm(k),&v,&trig,&dl,&gen);   // a fresh, empty set - as cache_interface passes
	if(r.hit) {
		for(std::set<std::string>::iterator p=trig.begin();p!=trig.end();++p) { int t=unnm(*p); if(t<0) r.bad=true; r.ts.insert(t); }
		r.v=unval(v); r.dl=(long long)(dl-vt::clock_base); r.gen=(long long)gen-genbase_of_key(k);
	}
	return r;
}
static void fres_json(vt::J &j,fres const &r)
{
	j.b("hit",r.hit);
	if(r.hit) j.i("rv",r.v).a("rts",r.ts).i("rdl",r.dl).i("rg",r.gen).b("bad",r.bad);
}
static void op_fetch(int c,int k)
{
	fres r=do_fetch(c,k);
	vt::J j; j.s("e","Op").i("c",c).s("op","fetch").i("k",k);
	fres_json(j,r);
	observe(j,c); tr.line(j.str());
}
static void op_rise(int c,int t)
{
	clients[c].cache->rise(nm(t));
	vt::J j; j.s("e","Op").i("c",c).s("op","rise").i("k",t); observe(j,c); tr.line(j.str());
}
static void op_clear(int c)
{
	clients[c].cache->clear();
	vt::J j; j.s("e","Op").i("c",c).s("op","clear").i("k",0); observe(j,c); tr.line(j.str());
}
static void op_tick(int d)
{
	vt::fake_now+=d;
	vt::J j; j.s("e","Tick").i("d",d); observe(j,-1); tr.line(j.str());
}

struct op { int kind,c,a,b,d,e; }; // kind 0 store(c,k=a,tsmask=b,dl=d,vkind=e) 1 fetch(c,a) 2 rise(c,a) 3 clear(c) 4 tick(a)
static void apply(op const &o)
{
	switch(o.kind) {
	case 0: { std::vector<int> ts; for(int i=0;i<NT;i++) if(o.b&(1<<i)) ts.push_back(17+i);
		  for(int i=0;i<NK;i++) if(o.b&(1<<(8+i))) ts.push_back(1+i);
		  op_store(o.c,o.a,ts,o.d,o.e); } break;
	case 1: op_fetch(o.c,o.a); break;
	case 2: op_rise(o.c,o.a); break;
	case 3: op_clear(o.c); break;
	case 4: op_tick(o.a); break;
	}
}

// ---- wire driver ---------------------------------------------------------------------------------
static unsigned long long fp(std::string const &s)
{
	unsigned long long h=1469598103934665603ull;
	for(size_t i=0;i<s.size();i++) { h^=(unsigned char)s[i]; h*=1099511628211ull; }
	return h & 0x3fffffff;   // TLC ints are 32 bit
}
static std::string bytes_json(std::string const &v)
{
	// short strings literally, long ones as [len, fingerprint, first 8, last 8]
	std::ostringstream o; o<<'[';
	if(v.size()<=48) { for(size_t n=0;n<v.size();n++){ if(n)o<<','; o<<(unsigned)(unsigned char)v[n]; } }
	else {
		o<<-1<<','<<v.size()<<','<<fp(v);
		for(size_t n=0;n<8;n++) o<<','<<(unsigned)(unsigned char)v[n];
		for(size_t n=v.size()-8;n<v.size();n++) o<<','<<(unsigned)(unsigned char)v[n];
	}
	o<<']';
	return o.str();
}
static std::string set_json(std::set<std::string> const &s)
{
	std::string r="[";
	for(std::set<std::string>::const_iterator p=s.begin();p!=s.end();++p) { if(r.size()>1) r+=','; r+=bytes_json(*p); }
	return r+"]";
}
static std::string rndbytes(vt::rng &R,size_t n,bool nul)
{
	std::string r; r.reserve(n);
	for(size_t i=0;i<n;i++) { unsigned c=R(256); if(!nul && c==0) c=1+R(255); r+=char(c); }
	return r;
}
static int where(std::string const &key)
{
	int w=-1;
	for(int s=0;s<NS;s++) { if(servers[s].backing->fetch(key,0,0,0,0)) w = (w==-1) ? s : -2; }
	return w;
}
static void wire_case(vt::rng &R,int n,int maxv,std::map<std::string,int> &seen_place)
{
	// key class
	std::string key; char const *kc="plain";
	switch(n%6) {
	case 0: key=rndbytes(R,1+R(12),false); kc="bin"; break;
	case 1: key="key-"+rndbytes(R,1+R(4),false); kc="bin"; break;
	case 2: key=rndbytes(R,1+R(300),false); kc="long"; break;
	case 3: { char b[32]; snprintf(b,sizeof(b),"page:%u",R(50)); key=b; } break;   // repeats: placement stability
	case 4: key=rndbytes(R,1+R(6),false)+std::string(1,'\0')+rndbytes(R,R(6),true); kc="nul"; break;
	case 5: key=rndbytes(R,1+R(20),false); key[R(key.size())]=char(0x80+R(128)); kc="high"; break;
	}
	// value class
	std::string val; size_t vl=0;
	switch(R(8)) {
	case 0: vl=0; break;
	case 1: vl=1; break;
	case 2: vl=R(40); break;
	case 3: vl=R(4096); break;
	case 4: vl=R(maxv+1); break;
	case 5: vl=maxv; break;
	default: vl=R(200);
	}
	val=rndbytes(R,vl,true);
	if(vl>2 && R(2)) { val[0]=0; val[vl-1]=0; }
	// triggers: 0..40, no NUL, non-empty (the wire format is NUL-terminated)
	std::set<std::string> trig;
	int nt = R(4)==0 ? 40 : (int)R(6);
	if(R(10)==0) nt=R(41);
	for(int i=0;i<nt;i++) {
		size_t l = R(8)==0 ? 100+R(400) : 1+R(10);
		trig.insert(rndbytes(R,l,false));
	}
	int dl = (int)R(7)-2;           // -2 .. +4 around now
	if(R(6)==0) dl=1000000+R(1000);
	int a=R(NC), b=R(NC);
	for(int s=0;s<NS;s++) servers[s].backing->clear();
	for(int c=0;c<NC;c++) if(clients[c].l1) clients[c].l1->clear();   // cases are independent
	clients[a].cache->store(key,val,trig,vt::clock_base+dl);
	int w=where(key);
	// what the server really holds
	std::string sv; std::set<std::string> st; time_t sdl=0; uint64_t sg=0; bool shit=false;
	if(w>=0) shit=servers[w].backing->fetch(key,&sv,&st,&sdl,&sg);
	vt::J j; j.s("e","Wire").i("n",n).s("kc",kc).i("a",a).i("b",b).b("bl1",(bool)clients[b].l1)
		.raw("k",bytes_json(key)).raw("v",bytes_json(val)).raw("ts",set_json(trig)).i("dl",dl).b("live",dl>=0).i("ns",NS)
		.i("w",w).b("shit",shit);
	if(shit) j.raw("sv",bytes_json(sv)).raw("sts",set_json(st)).i("sdl",(long long)(sdl-vt::clock_base));
	int prev=-1;
	if(seen_place.count(key)) prev=seen_place[key];
	if(w>=0) seen_place[key]=w;
	j.i("wprev",prev);
	// fetch twice through client b: the second one takes the L1 revalidation path when b has an L1
	std::string f="[";
	for(int round=0;round<2;round++) {
		std::string v; std::set<std::string> t; time_t d=0; uint64_t g=0;
		bool hit=clients[b].cache->fetch(key,&v,&t,&d,&g);
		vt::J r; r.b("hit",hit);
		if(hit) r.raw("v",bytes_json(v)).raw("ts",set_json(t)).i("dl",(long long)(d-vt::clock_base)).b("geq",g==sg);
		if(round) f+=',';
		f+=r.str();
	}
	f+="]";
	j.raw("f",f);
	tr.line(j.str());
}

// ---- threaded driver ----------------------------------------------------------------------------
// One thread per client.  Operation-level events (Inv / Ret) are emitted through the same
// booster::verif::emit() as the hooks inside libcppcms, hence share the global sequence number.
struct thr_arg { int c; int nops; uint64_t seed; };
static booster::mutex vc_mutex;
static void client_thread(thr_arg a)
{
	vt::rng R(a.seed);
	int c=a.c;
	BOOSTER_VERIF_EMIT("\"e\":\"Thread\",\"c\":%d",c);
	for(int n=0;n<a.nops;n++) {
		unsigned x=R(100);
		if(x<40) {
			int k=1+R(NK);
			std::vector<int> ts; if(NT>0 && R(2)) ts.push_back(17+R(NT));
			if(NK>1 && R(4)==0) ts.push_back(1+R(NK));
			unsigned vk=R(100);
			long id; { booster::unique_lock<booster::mutex> g(vc_mutex); id=pick_value(k, vk<20 ? 1 : vk<38 ? 2 : 0); }
			int dl = R(5)==0 ? 0 : 50;
			std::set<int> tset(ts.begin(),ts.end());
			vt::J j; j.a("ts",tset);
			std::string tsj=j.str(); // {"ts":[..]}
			BOOSTER_VERIF_EMIT("\"e\":\"Inv\",\"c\":%d,\"op\":\"store\",\"k\":%d,\"v\":%ld,%s,\"dl\":%d",c,k,id,tsj.substr(1,tsj.size()-2).c_str(),dl);
			clients[c].cache->store(nm(k),valbytes(id),trigset(ts),vt::clock_base+dl);
			BOOSTER_VERIF_EMIT("\"e\":\"Ret\",\"c\":%d,\"op\":\"store\"",c);
		}
		else if(x<80) {
			int k=1+R(NK);
			BOOSTER_VERIF_EMIT("\"e\":\"Inv\",\"c\":%d,\"op\":\"fetch\",\"k\":%d",c,k);
			fres r=do_fetch(c,k);
			if(r.hit) {
				vt::J j; j.a("rts",r.ts); std::string tsj=j.str();
				BOOSTER_VERIF_EMIT("\"e\":\"Ret\",\"c\":%d,\"op\":\"fetch\",\"hit\":true,\"rv\":%ld,%s,\"rdl\":%lld,\"rg\":%lld,\"bad\":%s",
					c,r.v,tsj.substr(1,tsj.size()-2).c_str(),r.dl,r.gen,r.bad?"true":"false");
			}
			else
				BOOSTER_VERIF_EMIT("\"e\":\"Ret\",\"c\":%d,\"op\":\"fetch\",\"hit\":false",c);
		}
		else if(x<92) {
			int t = (NT>0 && R(3)) ? 17+R(NT) : 1+R(NK);
			BOOSTER_VERIF_EMIT("\"e\":\"Inv\",\"c\":%d,\"op\":\"rise\",\"k\":%d",c,t);
			clients[c].cache->rise(nm(t));
			BOOSTER_VERIF_EMIT("\"e\":\"Ret\",\"c\":%d,\"op\":\"rise\"",c);
		}
		else {
			BOOSTER_VERIF_EMIT("\"e\":\"Inv\",\"c\":%d,\"op\":\"clear\",\"k\":0",c);
			clients[c].cache->clear();
			BOOSTER_VERIF_EMIT("\"e\":\"Ret\",\"c\":%d,\"op\":\"clear\"",c);
		}
	}
}
struct thr_fn { thr_arg a; void operator()() const { client_thread(a); } };

int main(int argc,char **argv)
{
	if(argc<3) { fprintf(stderr,"usage\n"); return 2; }
	std::string mode=argv[1];
	NS=atoi(argv[2]);
	uint64_t seed=vt::envl("VERIF_SEED",1);
	if(mode=="wire") {
		int cases=atoi(argv[3]);
		maxval=atoi(argv[4]);
		NC=3; l1mask=5; l1lim=0; NK=0; NT=0;
		tr.open();
		build_world(1);
		quiesce();
		vt::rng R(seed*7919+NS);
		std::map<std::string,int> seen_place;
		for(int n=0;n<cases;n++) {
			if(n%200==0) { for(int c=0;c<NC;c++) if(clients[c].l1) clients[c].l1->clear(); tr.line(reset_line("wire")); }
			wire_case(R,n,maxval,seen_place);
		}
		tr.close();
		clients.clear();
		servers.clear();
		return 0;
	}
	if(argc<5) { fprintf(stderr,"usage\n"); return 2; }
	NC=atoi(argv[3]);
	l1mask=strtoul(argv[4],0,0);
	if(mode=="exh") {
		NK=atoi(argv[5]); NT=atoi(argv[6]); int depth=atoi(argv[7]); int dlmode=atoi(argv[8]);
		tr.open();
		build_world(1);
		std::vector<op> alphabet;
		for(int c=0;c<NC;c++) {
			for(int k=1;k<=NK;k++) for(int m=0;m<(1<<NT);m++) {
				for(int vk=0;vk<((dlmode&4)?3:1);vk++) {
					if(!(dlmode&1)) { op o={0,c,k,m,50,vk}; alphabet.push_back(o); }
					else for(int dl=0;dl<=1;dl++) { op o={0,c,k,m,dl,vk}; alphabet.push_back(o); }
				}
			}
			for(int k=1;k<=NK;k++) { op o={1,c,k,0,0,0}; alphabet.push_back(o); }
			for(int t=0;t<NT;t++) { op o={2,c,17+t,0,0,0}; alphabet.push_back(o); }
			if(!(dlmode&2)) for(int k=1;k<=NK;k++) { op o={2,c,k,0,0,0}; alphabet.push_back(o); }
			{ op o={3,c,0,0,0,0}; alphabet.push_back(o); }
		}
		if(dlmode&1) { op o={4,0,1,0,0,0}; alphabet.push_back(o); }
		size_t A=alphabet.size();
		std::vector<size_t> idx(depth,0);
		long sh_i=0,sh_n=1; if(getenv("VERIF_SHARD")) sscanf(getenv("VERIF_SHARD"),"%ld/%ld",&sh_i,&sh_n);
		long count=0;
		for(;;) {
			// the last operation of an execution is only informative when it is a fetch
			if(alphabet[idx[depth-1]].kind==1 && (count++ % sh_n)==sh_i) {
				quiesce(); vcounter=0;
				tr.line(reset_line("exh"));
				for(int d=0;d<depth;d++) apply(alphabet[idx[d]]);
			}
			int d=depth-1;
			while(d>=0 && ++idx[d]==A) { idx[d]=0; d--; }
			if(d<0) break;
		}
		fprintf(stdout,"alphabet=%zu\n",A);
	}
	else if(mode=="rand") {
		l1lim=atoi(argv[5]); NK=atoi(argv[6]); NT=atoi(argv[7]); int nops=atoi(argv[8]); int execs=atoi(argv[9]);
		tr.open();
		build_world(1);
		vt::rng R(seed*1000003u + NS*101 + NC*7 + l1mask*13 + l1lim);
		for(int e=0;e<execs;e++) {
			quiesce(); vcounter=0;
			tr.line(reset_line("rand"));
			for(int n=0;n<nops;n++) {
				unsigned x=R(100); int c=R(NC);
				int now=(int)(vt::fake_now-vt::clock_base);
				if(x<36) {
					std::vector<int> ts; int cnt=R(3);
					for(int i=0;i<cnt && NT>0;i++) ts.push_back(17+R(NT));
					if(R(5)==0) ts.push_back(1+R(NK));
					int dl = now + (int)R(6) - 1;
					if(R(3)==0) dl = now + 1000;
					unsigned vk=R(100);
					op_store(c,1+R(NK),ts,dl, vk<20 ? 1 : vk<38 ? 2 : 0);
				}
				else if(x<76) op_fetch(c,1+R(NK));
				else if(x<88) op_rise(c,(NT>0 && R(3)) ? 17+R(NT) : 1+R(NK));
				else if(x<92) op_clear(c);
				else op_tick(1+R(2));
			}
		}
	}
	else if(mode=="coin") {
		// Generation coincidences.  Every execution gets brand-new servers and L1 objects (all counters at 0),
		// some servers pre-aged by direct stores (long-lived next to fresh ones), a small L1 limit (0..3) with key
		// cycling so that L1 entries are evicted and refilled, clears in between.  Then, for every client with an
		// L1 and every key, ANOTHER client re-stores the key - after as many filler stores on the owning server
		// as are needed to make the generation the server is going to hand out EQUAL to the stamp the L1 holds
		// (possible only if an L1 ever holds a stamp its server has not issued yet) - and every client fetches it.
		NK=atoi(argv[5]); NT=0; int execs=atoi(argv[6]);
		// every client object owns a pthread key (booster::thread_specific_ptr) and a process has only 1024 of them
		if(execs*NC>840) execs=840/NC;
		tr.open();
		vt::rng R(seed*7340033u + NS*101 + NC*7 + l1mask*13);
		std::vector<int> none_ts;
		for(int e=0;e<execs;e++) {
			l1lim = NS==1 ? 1+e%3 : e%4;       // 0 = unlimited, 1..3 (one server: only refills let an L1 count ahead)
			build_world(1,true);
			for(int s=0;s<NS;s++) {            // long-lived servers next to fresh ones
				int age = R(4)==0 ? 10+R(30) : R(3);
				std::set<std::string> none;
				for(int i=0;i<age;i++) servers[s].backing->store("\x01age","x",none,vt::clock_base+5);
			}
			quiesce(); vcounter=0;
			tr.line(reset_line("coin"));
			std::vector<int> l1c; for(int c=0;c<NC;c++) if(clients[c].l1) l1c.push_back(c);
			int rounds=1+R(3);
			for(int r=0;r<rounds;r++) {
				int nst=1+R(NK+2);
				for(int i=0;i<nst;i++) op_store(R(NC),1+R(NK),none_ts,1000,R(6)==0 ? 1 : 0);
				if(!l1c.empty()) {
					int a=l1c[R(l1c.size())];
					int nf=R(l1lim>0 ? 10+6*NK : 14), k0=R(NK);   // with a small L1, cycling refills: the L1's fill count runs ahead of the servers' store counts
					bool cyc=R(3)!=0;
					for(int i=0;i<nf;i++) op_fetch(a, cyc ? 1+(k0+i)%NK : 1+R(NK));
				}
				unsigned x=R(10);
				if(x==0) op_clear(R(NC));
				else if(x==1) op_rise(R(NC),1+R(NK));
			}
			for(size_t ci=0;ci<l1c.size();ci++) {
				int c=l1c[ci];
				int k0=R(NK);
				for(int kk=0;kk<NK && kk<3;kk++) {
					int k=1+(k0+kk)%NK, s=place[k];
					int d=(c+1+R(NC-1))%NC;            // another client
					uint64_t sigma=0;
					bool held=clients[c].l1->fetch(nm(k),0,0,0,&sigma);
					long long next=servers[s].genbase+nstores[s];
					int f=-1; for(int j=1;j<=NK;j++) if(j!=k && place[j]==s) { f=j; break; }
					if(held && (long long)sigma>=next && f>0) {
						long long fill=(long long)sigma-next + (R(4)==0 ? (long long)R(3)-1 : 0);   // equal; sometimes one behind / ahead
						if(fill>80) fill=80;
						for(long long i=0;i<fill;i++) op_store(d,f,none_ts,1000,0);
					}
					op_store(d,k,none_ts,1000,0);
					for(int x=0;x<NC;x++) op_fetch((c+x)%NC,k);
				}
			}
			for(int x=0;x<NC;x++) for(int k=1;k<=NK;k++) op_fetch(x,k);
		}
	}
	else if(mode=="script") {
		l1lim=atoi(argv[5]); NK=atoi(argv[6]); NT=atoi(argv[7]);
		tr.open();
		build_world(1);
		quiesce(); tr.line(reset_line("script"));
		std::string w;
		while(std::cin>>w) {
			if(w=="store") { int c,k,n,dl; std::cin>>c>>k>>dl>>n; std::vector<int> ts(n); for(int i=0;i<n;i++) std::cin>>ts[i]; op_store(c,k,ts,dl); }
			else if(w=="storev") { int c,k,n,dl,vk; std::cin>>c>>k>>dl>>vk>>n; std::vector<int> ts(n); for(int i=0;i<n;i++) std::cin>>ts[i]; op_store(c,k,ts,dl,vk); }
			else if(w=="fetch") { int c,k; std::cin>>c>>k; op_fetch(c,k); }
			else if(w=="rise") { int c,k; std::cin>>c>>k; op_rise(c,k); }
			else if(w=="clear") { int c; std::cin>>c; op_clear(c); }
			else if(w=="tick") { int d; std::cin>>d; op_tick(d); }
			else if(w=="reset") { quiesce(); vcounter=0; tr.line(reset_line("script")); }
		}
	}
	else if(mode=="thr") {
		NK=atoi(argv[5]); NT=atoi(argv[6]); int nops=atoi(argv[7]); int execs=atoi(argv[8]); int st=atoi(argv[9]);
		printable=true; maxval=300;
		char const *path=getenv("VERIF_OUT");
		if(!path) { fprintf(stderr,"thr needs VERIF_OUT\n"); return 2; }
		unlink(path);
		build_world(st);
		vt::rng R(seed*2654435761u + NS*11 + NC*5 + l1mask);
		for(int e=0;e<execs;e++) {
			quiesce(); vcounter=0;
			booster::verif::open(path);
			std::string rl=reset_line("thr");
			BOOSTER_VERIF_EMIT("%s",rl.substr(1,rl.size()-2).c_str());
			for(int s=0;s<NS;s++)
				BOOSTER_VERIF_EMIT("\"e\":\"Obj\",\"role\":\"srv\",\"i\":%d,\"o\":%lu,\"gb\":%lld",s,(unsigned long)((size_t)servers[s].backing.get() & 0xFFFFFF),servers[s].genbase);
			for(int c=0;c<NC;c++) if(clients[c].l1)
				BOOSTER_VERIF_EMIT("\"e\":\"Obj\",\"role\":\"l1\",\"i\":%d,\"o\":%lu,\"gb\":0",c,(unsigned long)((size_t)clients[c].l1.get() & 0xFFFFFF));
			std::vector<booster::shared_ptr<booster::thread> > th;
			for(int c=0;c<NC;c++) {
				thr_fn f; f.a.c=c; f.a.nops=nops; f.a.seed=R.next();
				th.push_back(booster::shared_ptr<booster::thread>(new booster::thread(f)));
			}
			for(int c=0;c<NC;c++) th[c]->join();
			BOOSTER_VERIF_EMIT("\"e\":\"End\"");
			booster::verif::close();
		}
		clients.clear();
		servers.clear();
		return 0;
	}
	tr.close();
	clients.clear();
	servers.clear();
	return 0;
}
