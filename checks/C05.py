"""C05 - client-side sessions are accepted only if issued by this server and unexpired.

Leg D: spec/Session/Cookie.tla (ideal-MAC symbolic model: saves, attacker derivations, clock, loads under any
       configuration; invariants Auth, Fresh, Cleared, LoadRule, RoundTrip, IvFresh) explored by TLC; the two
       self-test mutants (MAC not covering the IV block, constant IV) must violate Auth resp. IvFresh;
       CookieCodec.tla: the TLA+ transcription of the lenient base64url decoder and the "decode to the same
       bytes" test used on traces are proved equivalent on all short texts.
Leg B: harness/cookie/cookie_drv.cpp drives the real session_cookies::load/save (through a session_interface with
       our cookie adapter) and encryptor::encrypt/decrypt for every algorithm/key configuration x payload length
       under a fake clock with every derived cookie; CookieTrace.tla applies the Load rule, decoding the logged
       characters in TLA+.  Strict first, rejected executions re-validated at the property layer.
"""
import os, json, re, threading

JENV = {"JAVA_TOOL_OPTIONS": "-XX:ParallelGCThreads=2"}


def run(ctx):
    q = ctx.quick
    ctx.assumptions += [
        "ideal MAC: an attacker-made cipher text that differs from every issued one never verifies; authenticity is judged as membership in the set of issued cipher texts of the same configuration (no independent crypto)",
        "a configuration is one (algorithm, key material) pair; two encryptor objects made from the same factory count as the same configuration",
        "virtual clock: the harness defines time(); deadlines/clock logged relative to 1000000",
        "confidentiality is only approximated: two encrypting saves of the same payload and deadline give different cipher texts (IvFresh) and the payload bytes do not occur in an AES cookie; indistinguishability itself is not decided",
        "payloads of 4 KiB (quick) and 64 KiB: bit flips / truncations are sampled (always including both ends and the region boundaries); exhaustive up to 17 bytes (quick) / 4 KiB (thorough)",
    ]

    def leg_d():
        ctx.design("Session/Cookie.tla", "Cookie_quick.cfg" if q else "Cookie.cfg", workers=8, timeout=1500, heap="8g")
        ctx.design("Session/CookieCodec.tla", "CookieCodec_quick.cfg" if q else "CookieCodec.cfg", workers=2, timeout=600, heap="4g",
                   note="ASSUMEs: DecEq == equality of Decode, Decode o Encode = id, on all short texts")
        ctx.design("Session/Cookie.tla", "Cookie_mutMac.cfg", workers=4, timeout=300, expect_violation="Auth", count=False, extra=["-noGenerateSpecTE"],
                   note="self-test: MAC not covering the IV block must violate Auth")
        ctx.design("Session/Cookie.tla", "Cookie_mutIv.cfg", workers=4, timeout=300, expect_violation="IvFresh", count=False, extra=["-noGenerateSpecTE"],
                   note="self-test: constant IV must violate IvFresh")
    td = threading.Thread(target=leg_d)
    td.start()

    exe = ctx.harness("cookie_drv", ["cookie/cookie_drv.cpp"], extra=["-lcrypto"])
    import sessx
    par = sessx.Par(ctx)
    nsh = 6 if q else 16
    stats = {}

    def work(c, i):
        t = os.path.join(c.work, "c05-%d.ndjson" % i)
        rc, out, err = c.run_harness(exe, [i, nsh], trace=t, timeout=1500)
        if rc != 0:
            c.undecided.append("cookie_drv %d/%d failed rc=%s %s %s" % (i, nsh, rc, out[-300:], err[-500:]))
            return
        died = None
        with open(t) as f:
            head = []
            for k, ln in enumerate(f):
                if k < 300:
                    head.append(ln.strip())
                if '"e":"Died"' in ln:
                    died = ln.strip()
        with par.lock:
            for m in re.finditer(r"(\w+)=(\d+)", out):
                if m.group(1) == "cfgs":
                    stats["cfgs"] = int(m.group(2))
                else:
                    stats[m.group(1)] = stats.get(m.group(1), 0) + int(m.group(2))
            for ln in head:
                mm = re.search(r'"e":"(\w+)".*?"mut":"([\w-]+)"', ln)
                if mm:
                    ctx.seen(mm.group(1) + ":" + mm.group(2) + (":ok" if '"ok":true' in ln else ""))
            if i == 0:
                ctx.sample({"driver": ["cookie_drv", i, nsh], "events": [x[:300] for x in head[:2] + head[7:10] + head[40:42]]})
            if died:
                ctx.violation("died:" + json.loads(died).get("mut", "?"), "load/decrypt threw: %s" % died[:200], t)
        rej = c.validate("Session/CookieTrace.tla", "CookieTrace.cfg", t, timeout=1500, heap="6g", env=JENV)
        for x in rej:
            ok0 = c.traces_ok
            c.t0 += 50
            rej2 = c.validate("Session/CookieTrace.tla", "CookieTraceProp.cfg", x["path"], timeout=600, heap="4g", env=JENV)
            c.traces_ok = ok0
            with par.lock:
                if rej2:
                    y = rej2[0]
                    ctx.violation(sig(y), "cookie trace violates the Load rule of Cookie (C05) at %s" % short(y["event"]), y["path"])
                else:
                    ctx.drift.append("execution accepted at the property layer but the lenient decoder / clearing differs from the model at %s (%s)" % (short(x["event"]), x["path"]))
        if not died:
            try:
                os.remove(t)
            except OSError:
                pass

    par.run([(i,) for i in range(nsh)], work, width=8)
    td.join()
    ctx.extra["driver_counts"] = stats
    ctx.extra["rule"] = ("executions = one (configuration, payload length) each: 6 real saves and every derived cookie presented to the real load/decrypt; "
                         "events = trace lines TLC matched; distinct = (event, mutation class, accepted) combinations seen")


def short(ev):
    return re.sub(r'"(tx|mid|cipher)":\[[^\]]*\]', r'"\1":[..]', ev)[:260]


def sig(x):
    try:
        ev = json.loads(x["event"])
    except Exception:
        return "end"
    cfgname, ln = "?", "?"
    for l in x["exec"][:1]:
        try:
            r = json.loads(l)
            cfgname, ln = r.get("cfg"), r.get("len")
        except Exception:
            pass
    if ev.get("e") in ("Load", "Dec"):
        return "%s:%s:len=%s:mut=%s:ok=%s:cleared=%s" % (ev["e"], cfgname, ln, ev.get("mut"), ev.get("ok"), ev.get("cleared"))
    if ev.get("e") == "Save":
        return "Save:%s:len=%s:leak=%s" % (cfgname, ln, ev.get("leak"))
    if ev.get("e") == "Refuse":
        return "Refuse:%s" % ev.get("what", "")[:60]
    return "%s@%d" % (ev.get("e"), x["offset_in_exec"])
