"""C03 - the client receives exactly the bytes the application wrote, once and in order.

Leg D: spec/Output/Out.tla (property layer: PrefixInv, OneHeader, NoEarlyEnd, Complete, CacheCopy) and
       spec/Output/OutImpl.tla (mechanism: stream-buffer chain, setbuf/overflow/xsputn, connection::write,
       nonblocking_write + pending_output_, async_write re-arming, format_output of HTTP / SCGI / FastCGI,
       adversarial socket) - TLC explores every application program of bounded length x every accept-prefix /
       would-block schedule and checks the Out invariants on the mapped variables (decoded by a protocol decoder
       written in TLA+); *_asis / *_mut configurations must produce counterexamples (self-test).
Leg B: harness/output/out_drv.cpp drives the real front-ends of a real cppcms::service through
       acceptor::accept(fd); writev() defined in the harness imposes the schedule; an independent decoder
       de-frames / inflates what the peer received; every execution must be a behaviour of Out (OutTrace.tla).
"""
import os, re, json, threading, concurrent.futures

import outplan

MOD, CFG = "Output/OutTrace.tla", "OutTrace.cfg"


def run(ctx):
    q = ctx.quick
    ctx.assumptions += [
        "the short-write / would-block schedule is imposed by a writev() defined in the harness executable; libbooster's stream_socket reaches it through the PLT (checked: every execution records Sock events)",
        "would-block is injected only while the descriptor is in non-blocking mode (on a blocking socket EAGAIN means SO_SNDTIMEO expiry, which legitimately aborts the response)",
        "payload byte i is F(i) (6-byte windows identify i); the verdict 'runs = [[0,n]]' is exact, the run decomposition of a wrong body is diagnostic only",
        "gzip: only 'inflates (zlib) to what was written, stream ended exactly once' is checked; Leg D treats the gzip layer as a buffering identity",
        "the application never writes after finalize() and never touches the stream while an asynchronous flush is in flight (API contract)",
        "Leg D: MaxRec=3 stands for 65535, alignment 2 for 8, gather limit 3 for 16, header block = 2 tokens; programs of at most 3 (quick) / 5 (thorough) operations from {Write(0|1|2|5), Put, Flush, SetBuf(0|2|4), FullBuf(on|off), Finalize, AsyncFlush}",
    ]
    # ------------------------------------------------------------------ Leg D
    import outimpl
    legd = threading.Thread(target=(lambda: None) if os.environ.get("C03_LEGB_ONLY") else (lambda: outimpl.run(ctx)))   # knob used by the sensitivity runs only
    legd.start()

    # ------------------------------------------------------------------ Leg B
    exe = ctx.harness("out_drv", ["output/out_drv.cpp"], extra=["-lz"])
    shards = outplan.plans(ctx.rng, q)
    ctx.extra["families"] = sum(len(s) for s in shards)
    results = []
    aborted = []
    lock = threading.Lock()

    def one(i):
        plan = os.path.join(ctx.work, "plan-%d.txt" % i)
        trace = os.path.join(ctx.work, "out-%d.ndjson" % i)
        with open(plan, "w") as f:
            f.write("\n".join(shards[i]) + "\n")
        skip = 0
        part = 0
        while True:
            tp = trace + ".%d" % part
            rc, out, err = ctx.run_harness(exe, [plan], trace=tp, timeout=300 if q else 1500,
                                           env={"VERIF_SKIP": str(skip)}, ok_codes=(0, 7))
            if os.path.exists(tp):
                with open(tp) as f, open(trace, "a") as g:
                    g.write(f.read())
                os.remove(tp)
            m = re.search(r"died=(\d+)", out or "")
            if rc == 7 and m and part < 20:
                skip = int(m.group(1))      # the library crashed while serving that plan line: go on behind it
                part += 1
                continue
            break
        m = re.search(r"aborted=(\d+)", out or "")
        if m:
            with lock:
                aborted.append("shard %d stopped at plan line %s of %d: too many responses that never completed" % (i, m.group(1), len(shards[i])))
        if rc != 0:
            with lock:
                ctx.undecided.append("out_drv shard %d failed rc=%s %s %s" % (i, rc, out[-300:], err[-500:]))
            return None
        return validate(ctx, trace, i, lock)

    with concurrent.futures.ThreadPoolExecutor(max_workers=6) as ex:
        results = list(ex.map(one, range(len(shards))))

    legd.join()
    seen_sig = {}
    nexec = nrej = 0
    stats = {"sock_calls": 0, "short": 0, "eagain": 0, "maxrec": 0, "by_proto": {}, "by_mode": {}, "by_kind": {}, "gzip": 0, "cache": 0,
             "max_body": 0}
    for r in results:
        if not r:
            continue
        nexec += r["nexec"]
        ctx.events += r["events"]
        for k in ("sock_calls", "short", "eagain", "gzip", "cache", "pend_le_n_lt_total", "rid_other"):
            stats[k] = stats.get(k, 0) + r["stats"][k]
        for k in ("maxrec", "max_body"):
            stats[k] = max(stats[k], r["stats"][k])
        for k in ("by_proto", "by_mode", "by_kind"):
            for a, b in r["stats"][k].items():
                stats[k][a] = stats[k].get(a, 0) + b
        for s in r["samples"]:
            ctx.sample(s)
        for key in r["distinct"]:
            ctx.seen(key)
        for h in r["hangs"]:
            if h["done"] and h["idle"]:
                sig = "hang:" + classify(h["reset"], "Hang")
                if sig not in seen_sig:
                    seen_sig[sig] = 1
                    if len(seen_sig) <= 12:
                        ctx.violation(sig, "response never completed: the server has released the request (its context is gone), no write is in "
                                      "flight and nothing more arrives on a drained socket (Complete): %s" % brief(h["reset"]), save_replay(ctx, h, len(seen_sig)))
            elif len(ctx.undecided) < 20:
                ctx.undecided.append("harness timeout (not judged): %s" % brief(h["reset"]))
        for x in r["rejects"]:
            nrej += 1
            sig = classify(x["reset"], x["event"])
            seen_sig[sig] = seen_sig.get(sig, 0) + 1
            if seen_sig[sig] == 1 and len(seen_sig) <= 12:
                ctx.violation(sig, "not a behaviour of Out at %s  | input: %s" % (x["event"][:200], brief(x["reset"])), save_replay(ctx, x, len(seen_sig)))
    ctx.traces_ok += nexec - nrej
    if aborted:
        ctx.extra["aborted_shards"] = aborted
        if not ctx.violations:
            ctx.undecided += aborted
    ctx.extra["leg_b"] = stats
    ctx.extra["rejected_executions"] = dict(seen_sig)
    if stats["sock_calls"] == 0 and nexec:
        ctx.undecided.append("no Sock events recorded: the writev() interposition does not reach the library")
    ctx.extra["rule"] = ("executions = one request/response each (Reset-delimited) driven through a real front-end; events = trace lines "
                         "validated by TLC against OutTrace; distinct = distinct (proto, keep-alive, app, mode, gzip, cache, program, schedule kind) tuples")


# ---------------------------------------------------------------------------------------------- validation
def tlc_once(ctx, path):
    r = ctx.tlc(MOD, CFG, workers=1, timeout=1500, env={"TRACE": path}, deadlock_off=True, heap="3g", count=False,
                extra=["-noGenerateSpecTE"])
    m = re.findall(r"TRACE-MATCHED (\d+)", r.out)
    flags = [(a, int(b)) for a, b in re.findall(r'<<"FLAG", "(\w+)", (\d+)>>', r.out)]
    return r, (int(m[-1]) if m and not r.failed and r.rc != 124 else None), flags


def validate(ctx, trace, shard, lock):
    """thread-safe counterpart of ctx.validate for the flagging trace spec: one TLC run judges every execution of
    the file (an event that is not a step of Out is flagged and the rest of that execution skipped); a second run
    on the identical file must reproduce the flags; a run TLC cannot complete is UNDECIDED, never a violation"""
    with open(trace) as f:
        lines = [x for x in f.read().splitlines() if x.strip()]
    res = {"nexec": 0, "events": 0, "rejects": [], "hangs": [], "samples": [], "distinct": set(),
           "stats": {"sock_calls": 0, "short": 0, "eagain": 0, "maxrec": 0, "by_proto": {}, "by_mode": {}, "by_kind": {}, "gzip": 0, "cache": 0,
                     "max_body": 0}}
    st = res["stats"]
    st["pend_le_n_lt_total"] = 0
    st["rid_other"] = 0
    pend = 0
    cur = None
    start_of = []
    for i, ln in enumerate(lines):
        if ln.startswith('{"e":"Reset"'):
            cur = json.loads(ln)
            pend = 0
            if cur.get("rid", 1) != 1:
                st["rid_other"] += 1
            start_of.append(i)
            res["nexec"] += 1
            st["by_proto"][cur["proto"]] = st["by_proto"].get(cur["proto"], 0) + 1
            km = cur["app"] + "/" + cur["mode"]
            st["by_mode"][km] = st["by_mode"].get(km, 0) + 1
            st["max_body"] = max(st["max_body"], cur["total"])
            res["distinct"].add((cur["proto"], cur["ka"], cur["app"], cur["mode"], cur["gz"], cur["cache"], cur["prog"], cur["sched"].split(":")[0]))
            if len(res["samples"]) < 1 and shard < 6:
                res["samples"].append({"shard": shard, "execution": lines[i:i + 14]})
        elif ln.startswith('{"e":"Frame"'):
            ev = json.loads(ln)
            st["sock_calls"] += ev["calls"]; st["short"] += ev["short"]; st["eagain"] += ev["eagain"]
            st["maxrec"] = max(st["maxrec"], ev["maxrec"])
            st["by_kind"][ev["kind"]] = st["by_kind"].get(ev["kind"], 0) + 1
            if ev["gzip"]:
                st["gzip"] += 1
            if not ev["align"]:
                with lock:
                    d = "FastCGI record not 8-aligned (mechanism only): " + brief(cur)
                    if len(ctx.drift) < 5:
                        ctx.drift.append(d)
        elif ln.startswith('{"e":"Sock"'):
            ev = json.loads(ln)
            # nonblocking_write with an old queue: did the socket take the whole old queue plus a strict prefix of the new data?
            if cur and cur["mode"] in ("async", "async_raw"):
                if pend and ev["offered"] > pend and "accepted" in ev and pend <= ev["accepted"] < ev["offered"]:
                    st["pend_le_n_lt_total"] += 1
                pend = ev["offered"] - ev.get("accepted", 0) if ev["iov"] <= 16 else 0
        elif ln.startswith('{"e":"App"') and '"AFlushDone"' in ln:
            pend = 0
        elif ln.startswith('{"e":"Cache"'):
            st["cache"] += 1
        elif ln.startswith('{"e":"Hang"'):
            ev = json.loads(ln)
            s = start_of[-1]
            res["hangs"].append({"reset": cur, "done": ev.get("done", False), "idle": ev.get("idle", False), "lines": lines[s:i + 1]})
    # one TLC run judges the whole file: an event that is not a step of Out is flagged and the execution skipped
    r, k, flags = tlc_once(ctx, trace)
    if k is None or k < len(lines):
        r, k, flags = tlc_once(ctx, trace)
        if k is None or k < len(lines):
            with lock:
                ctx.undecided.append("trace validation failed to run (shard %d, matched %s of %d lines): rc=%s\n%s" % (
                    shard, k, len(lines), r.rc, r.out[-2000:]))
            return res
    with lock:
        ctx.extra["trace_states"] = ctx.extra.get("trace_states", 0) + r.distinct
    if flags:
        r2, k2, flags2 = tlc_once(ctx, trace)          # confirm on the identical file
        if flags2 != flags:
            with lock:
                ctx.undecided.append("flaky trace validation (shard %d)" % shard)
            return res
    res["events"] = len(lines)
    for kind, ln in flags:
        bad = ln - 1
        s = bad
        while s > 0 and not lines[s].startswith('{"e":"Reset"'):
            s -= 1
        t = bad + 1
        while t < len(lines) and not lines[t].startswith('{"e":"Reset"'):
            t += 1
        rs = json.loads(lines[s])
        rej = {"reset": rs, "event": lines[bad], "lines": lines[s:t], "offset": bad - s, "path": None}
        res["rejects"].append(rej)
        res["events"] -= (t - bad)
    return res


def save_replay(ctx, x, n):
    rp = os.path.join(ctx.replays, "reject-OutTrace-%d-%d.ndjson" % (int(ctx.t0), n))
    with open(rp, "w") as f:
        f.write("\n".join(x["lines"]) + "\n")
    return rp


# ---------------------------------------------------------------------------------------------- signatures
def brief(rs):
    return ("proto=%s ka=%s app=%s mode=%s gz=%s cache=%s cl=%s fb=%s nh=%s nc=%s prog=%s sched=%s" % (
        rs["proto"], int(rs["ka"]), rs["app"], rs["mode"], int(rs["gz"]), int(rs["cache"]), int(rs["cl"]), int(rs["fb"]),
        rs["nh"], rs["nc"], rs["prog"], rs["sched"]))


def classify(rs, event):
    """stable signature = failing input class.  Two classes have a name because their trigger is a feature of the
    application program alone (independent of protocol and schedule); everything else is keyed by the rejected
    event kind, protocol and kind of io; the exact input (program, schedule, configuration) is in the description
    and in the replay file."""
    try:
        ev = json.loads(event)["e"] if event.startswith("{") else event
    except Exception:
        ev = "?"
    c = outplan.defect_class(rs["prog"], rs["app"], rs["mode"], rs["fb"], rs["gz"], rs["cache"])
    if c:
        return c
    return "out:%s:%s:%s" % (ev, rs["proto"], "async-io" if rs["mode"] in ("async", "async_raw") else "sync-io")
