"""C11 - JSON parsing accepts exactly well-formed documents; serialization round-trips.
Leg D: spec/Json/JsonTokCheck.tla (string / number readers: implementation-shaped vs RFC 8259, all item sequences),
       spec/Json/JsonParse.tla (explicit-stack machine with MaxDepth over all token sequences; all trees: Complete, RoundTrip
       through the modelled writer, compact and readable), JsonRef.tla = RFC 8259 grammar as recursive predicate.
Leg B: harness/json/json_drv.cpp calls value::load (stream / range, full on/off), operator>>, save, operator<<, get_value<T>;
       JsonTrace.tla tokenises and reference-parses the logged bytes in TLA+ and judges every call.
"""
import os, json
import fnval


def _nums(t, out):
    if isinstance(t, dict):
        if t.get("k") == "num":
            out.append(bytes(t.get("p", [])).decode("latin1"))
        for x in t.get("a", []):
            _nums(x, out)
        for m in t.get("m", []):
            _nums(m.get("v"), out)


def sig_of(c, d, line):
    if c == "roundtrip" and d == "reparse-failed":
        # refine: is it the 16-digit rendering of a finite double that overflows when read back?
        try:
            ev = json.loads(line)
            ns = []
            _nums(ev.get("t"), ns)
            if any(float(x) in (float("inf"), float("-inf")) for x in ns):
                return "json-roundtrip-16digit-overflow"
        except Exception:
            pass
    return "json-%s-%s" % (c, d) if d else "json-" + c


def describe(c, d, line):
    what = {
        "unsound": "an accepted document yielded a tree that breaks the guarantee",
        "incomplete": "an RFC 8259 document (unique keys, depth within bound, finite numbers) was not accepted with the tree it denotes",
        "touched": "a failed parse modified the target value",
        "roundtrip": "print -> parse does not give the value back",
        "get-inexact": "typed extraction returned a value that is not the stored number",
        "build": "an object built through operator[] does not hold exactly the distinct member names with their last values / a member is not retrievable",
        "died": "process died",
        "driver": "driver produced an event outside the property's domain (harness defect)",
    }.get(c, c)
    return "%s (%s) event=%s" % (what, d, line[:400])


def run(ctx):
    q = ctx.quick
    ctx.assumptions += [
        "numbers are tokens in the specification: a literal with <= 15 significant digits and decimal exponent within +-290 must be reproduced digit for digit (%.15g), "
        "longer / extreme literals only have to be accepted as numbers when they are plainly finite; accuracy of istream>>double beyond that is sampled, not specified",
        "printing: the printed literal must equal the value to 16 significant digits (%.16g computed by the driver with the C library), the re-parsed value must agree to 16 digits and be a fixed point from then on",
        "values holding non-finite numbers or strings that are not valid UTF-8 cannot be represented in JSON and are outside the domain of the round-trip clause",
        "documented nesting bound = json_max_depth = 512 open containers",
        "documents longer than 120 bytes (grammar-generated up to 30 KiB, deep chains) are judged for Sound / Untouched / RoundTrip only, not re-parsed in TLA+",
        "member names are drawn from the same adversarial family as string values (embedded NUL at every position, names equal up to a NUL / multi-byte character / byte >= 0x80, "
        "prefixes of each other, empty, > 16 and > 256 bytes); the order of members in the serialised form (byte-wise increasing in the design) is not part of the property: a different order is MODEL-DRIFT",
        "named leniencies of the code (trailing comma, // comments, leading zeros, '1.', '-.5') are legal under the property and not reported",
    ]
    W = int(os.environ.get("VERIF_WORKERS", "16"))      # TLC workers for Leg D
    # ---------------------------------------------------------------- Leg D
    if q:
        ctx.design("Json/JsonTokCheck.tla", "JsonTokCheck_quick.cfg", workers=W, timeout=300, note="string bodies <=3 items x 32 classes; number spellings <=5")
        ctx.design("Json/JsonParse.tla", "JsonWalk_quick.cfg", workers=W, timeout=300, note="token walk <=8 tokens, MaxDepth=2")
        ctx.design("Json/JsonParse.tla", "JsonTree_quick.cfg", workers=W, timeout=300, note="all trees depth<=2 width<=2 (all member orders), MaxDepth=1")
        ctx.design("Json/JsonParse.tla", "JsonTreeRich_quick.cfg", workers=W, timeout=300, note="depth<=1 width<=2, all scalar kinds / awkward strings")
    else:
        ctx.design("Json/JsonTokCheck.tla", "JsonTokCheck.cfg", workers=W, timeout=1500, heap="6g", note="string bodies <=4 items x 32 classes; number spellings <=6")
        ctx.design("Json/JsonParse.tla", "JsonWalk.cfg", workers=W, timeout=1500, heap="6g", note="token walk <=11 tokens, MaxDepth=3")
        ctx.design("Json/JsonParse.tla", "JsonTree.cfg", workers=W, timeout=1500, heap="6g", note="all trees depth<=2 width<=2, MaxDepth=2")
        ctx.design("Json/JsonParse.tla", "JsonTree_quick.cfg", workers=W, timeout=1500, heap="6g", note="same trees, MaxDepth=1 (bound crossed)")
        ctx.design("Json/JsonParse.tla", "JsonTreeDeep.cfg", workers=W, timeout=1500, heap="6g", note="depth<=3 width<=1 rich scalars, MaxDepth=2")
        ctx.design("Json/JsonParse.tla", "JsonTreeRich.cfg", workers=W, timeout=1500, heap="6g", note="depth<=1 width<=3 rich scalars")
    ctx.extra["exhaustive"] = True
    # ---------------------------------------------------------------- Leg B
    exe = ctx.harness("json_drv", ["json/json_drv.cpp"])
    runs = []
    nsh = 6 if q else 12
    for s in range(nsh):
        runs.append(("toks", 5 if q else 6, s, nsh))
    if q:
        runs += [("strings", 2, 2500), ("numbers", 4), ("muts", 30, 0), ("muts", 30, 1), ("nest", 64), ("trees", 120, 0),
                 ("get",), ("long", 4, 0), ("keys", 90, 0), ("keys", 90, 1)]
    else:
        runs += [("strings", 3, 20000), ("numbers", 6)]
        runs += [("muts", 100, s) for s in range(6)]
        runs += [("nest", 1)]
        runs += [("trees", 1500, s) for s in range(4)]
        runs += [("get",)]
        runs += [("long", 25, s) for s in range(4)]
        runs += [("keys", 500, s) for s in range(6)]
    traces = []
    for i, spec in enumerate(runs):
        t = os.path.join(ctx.work, "c11-%d.ndjson" % i)
        rc, out, err = ctx.run_harness(exe, spec, trace=t, timeout=900)
        if rc != 0:
            ctx.undecided.append("json_drv %s failed rc=%s %s" % (spec, rc, err[-500:]))
            continue
        traces.append(t)
        with open(t) as f:
            for n, ln in enumerate(f):
                if n < 2000:
                    ctx.seen(ln[:120])
                if spec[0] in ("strings", "trees", "get", "keys") and n == 5:
                    ctx.sample({"driver": list(spec), "event": ln.strip()[:400]})
    results = fnval.judge_many(ctx, "Json/JsonTrace.tla", "JsonTrace.cfg", traces, threads=6,
                               env={"JAVA_TOOL_OPTIONS": "-Xss512m"}, heap="3g")
    drift = {}
    for res in results:
        for x in res["rejects"]:
            ctx.violation("json-trace:%s" % x["event"][:40], "json trace not explained by JsonTrace.tla at %s" % x["event"][:200], x["path"])
        keep = []
        for c, d, ln in res["flags"]:
            if c.startswith("drift-"):
                k = "%s/%s" % (c, d)
                drift.setdefault(k, res["lines"][ln - 1][:300])
            else:
                keep.append((c, d, ln))
        res["flags"] = keep
        fnval.account(ctx, res, sig_of, describe, tag="c11")
    for k, ex in sorted(drift.items()):
        if k.startswith("drift-member-order"):
            ctx.drift.append("%s: members are not iterated / printed in strictly increasing byte-wise order of their names (design: std::map<string_key>), e.g. %s" % (k, ex))
        else:
            ctx.drift.append("%s: code and the implementation-shaped model (ImplTokens + machine) disagree on acceptance, e.g. %s" % (k, ex))
    ctx.extra["rule"] = ("events = load / operator>> / save / operator<< / get_value calls judged by TLC (documents <= 120 bytes tokenised and reference-parsed in TLA+); "
                         "executions = blocks of 400 calls without a flagged event; distinct = distinct event prefixes among the first 2000 events of each driver run")
