"""C19 - serialized objects round-trip exactly; malformed archives are rejected safely.
Leg D: spec/Archive/Archive.tla - TLC saves/loads every value of a bounded type universe (and every strict
       prefix of its archive) and reads every boundary-mutated archive of <=3 chunks with every sequence of
       chunk operations, under the guard the property demands (ptr + 4 + size <= Len(buffer)).
Leg B: harness/archive/archive_drv.cpp drives cppcms::archive / archive_traits<T> / serialization_traits<T> for
       46 C++ types (multimap / multiset with runs of equivalent keys included) (and cache_interface / session_interface store_data, fetch_data for the user classes); TLC (ArchiveTrace.tla) recomputes Save(type, value) and Load(type, bytes) for every recorded
       call and judges every chunk-level read of every truncation / length-field mutation.  ArchiveObj.tla / ArchiveObjTrace.tla:
       the archive OBJECT as a state machine (buffer, mode, read position); random operation sequences on three real objects
       (several blobs through one object, mode()/reset() re-reads, interleaved save/load phases, reuse after archive_error,
       copy / assignment / move) are replayed against the model.
"""
import os, json
import fnval


def sig_of(c, d, line):
    if c == "overread":
        return "archive-overread-" + d          # le3 | gt3 | huge
    if c == "died":
        return "archive-died-" + d
    return "archive-%s-%s" % (c, d) if d else "archive-" + c


def describe(c, d, line):
    try:
        ev = json.loads(line)
    except Exception:
        ev = {}
    what = {
        "overread": "a read succeeded although the chunk reaches beyond the end of the archive",
        "save-format": "bytes written for a value differ from the wire format",
        "roundtrip-refused": "the archive of a saved value was refused",
        "roundtrip-differs": "loaded value differs from the saved one",
        "roundtrip-spec": "round trip equal but the specification's Load disagrees (wire format)",
        "roundtrip-resave": "saving the loaded value again gives different bytes",
        "load-wrong-value": "well-formed archive loaded to a value other than the one it encodes",
        "load-refused-valid": "a well-formed archive was refused",
        "read-wrong-size": "chunk size differs from the length field",
        "read-wrong-data": "returned bytes are not the buffer slice",
        "read-refused-valid": "a chunk that lies inside the archive was refused",
        "eof-wrong": "eof() disagrees with the cursor (cursor moved by a failed read?)",
        "obj-load-refused": "archive object: a load failed although the buffer holds a well-formed value of that type at the model's read position",
        "obj-load-wrong-value": "archive object: a load returned a value other than the one the buffer holds at the model's read position",
        "obj-load-beyond-end": "archive object: a load succeeded although the model's position is at the end of the buffer / at a truncated chunk",
        "obj-eof": "archive object: eof() disagrees with the model's read position",
        "obj-str": "archive object: str() is not the buffer the operations built",
        "obj-mode": "archive object: IO mode differs from the model",
        "died": "process died",
    }.get(c, c)
    b = ev.get("bytes")
    return "%s (%s) event=%s" % (what, d, line[:300])


def run(ctx):
    q = ctx.quick
    ctx.assumptions += [
        "i64 values are logged as 8 little-endian two's-complement bytes computed arithmetically by the driver; double and json::value are opaque tokens (8 bytes / compact text)",
        "lengths >= 2^31 are abstracted to one value BIG in the specification (buffers are far smaller)",
        "bool has no archive_traits in cppcms (not in the universe); intrusive_ptr, hold_ptr not driven",
        "multimap / multiset are sequences in key order with insertion order among equivalent keys (C++11 23.2.4); Load(Save(v)) is compared element by element and the re-saved bytes must be identical; "
        "for mutated archives whose elements are not in canonical order the order among equivalent keys is not demanded",
        "the driver keeps a shadow cursor (archive::ptr_ is private); eof() is the only direct observation of the cursor",
        "archive object sequences: saves only in save mode and loads only in load mode (the API does not enforce it; operator& dispatches on mode()); a moved-from object is re-initialised before reuse",
        "hooks flavour (no ASan): out-of-archive reads are judged from (ptr,size,buflen) and the returned bytes, not from a sanitizer",
    ]
    W = int(os.environ.get("VERIF_WORKERS", "16"))      # TLC workers for Leg D
    # ---------------------------------------------------------------- Leg D
    if q:
        ctx.design("Archive/Archive.tla", "ArchiveV_quick.cfg", workers=W, timeout=300, note="all values depth<=2 width<=1: Load(Save(v))=v")
        ctx.design("Archive/Archive.tla", "ArchiveV1_quick.cfg", workers=W, timeout=300, note="depth<=1 width<=2 + every truncation")
        ctx.design("Archive/Archive.tla", "ArchiveC_quick.cfg", workers=W, timeout=300, note="<=2 chunks, every boundary length, every truncation, every read sequence")
    else:
        ctx.design("Archive/Archive.tla", "ArchiveV.cfg", workers=W, timeout=1500, heap="6g", note="all values depth<=2 width<=2 + every truncation")
        ctx.design("Archive/Archive.tla", "ArchiveVrich.cfg", workers=W, timeout=1500, heap="6g", note="depth<=2 width<=1, pairs/structs/maps over all depth-1 types (350k values), whole archives")
        ctx.design("Archive/Archive.tla", "ArchiveC.cfg", workers=W, timeout=1500, heap="6g", note="<=3 chunks, every boundary length, every truncation, every read sequence")
    # the archive object as a state machine: every operation sequence on two objects (ghost item lists: Rep, ReadBack, Rewinds)
    ctx.design("Archive/ArchiveObj.tla", "ArchiveObj_quick.cfg" if q else "ArchiveObj.cfg", workers=W, timeout=600, heap="6g",
               note="archive object state machine: save/load/mode/str/reset/copy on 2 objects, 5 blobs")
    # the model must see the comparison of the pinned commit (ptr+size >= size()) as unsafe
    ctx.design("Archive/Archive.tla", "ArchiveC_c717.cfg", workers=4, timeout=300, expect_violation="InBounds",
               extra=["-noGenerateSpecTE"], count=False, note="self-test: GuardMode=c717 violates InBounds")
    ctx.extra["exhaustive"] = True
    # ---------------------------------------------------------------- Leg B
    exe = ctx.harness("archive_drv", ["archive/archive_drv.cpp"])
    shards = 3 if q else 12
    runs = []
    for s in range(shards):
        runs.append(("chunk", 25 if q else 120, 10 if q else 30, s))   # starts with the fixed inputs (04 00 00 00 'x', ...)
        runs.append(("rt", 40 if q else 150, 0, s))
        runs.append(("mut", 3 if q else 8, 15 if q else 40, s))
    runs.append(("wrap", 20 if q else 200))
    objruns = [("obj", 150 if q else 1500, 60 if q else 80, s) for s in range(3 if q else 12)]
    traces = []
    for i, spec in enumerate(runs):
        t = os.path.join(ctx.work, "c19-%d.ndjson" % i)
        rc, out, err = ctx.run_harness(exe, spec, trace=t, timeout=900)
        if rc != 0:
            ctx.undecided.append("archive_drv %s failed rc=%s %s" % (spec, rc, err[-500:]))
            continue
        traces.append(t)
        with open(t) as f:
            for n, ln in enumerate(f):
                if n < 3000:
                    ctx.seen(ln[:90])
                if i < 3 and n in (1, 2):
                    ctx.sample({"driver": list(spec), "event": ln.strip()[:400]})
    otraces = []
    for i, spec in enumerate(objruns):
        t = os.path.join(ctx.work, "c19-obj-%d.ndjson" % i)
        rc, out, err = ctx.run_harness(exe, spec, trace=t, timeout=900)
        if rc != 0:
            ctx.undecided.append("archive_drv %s failed rc=%s %s" % (spec, rc, err[-500:]))
            continue
        otraces.append(t)
        with open(t) as f:
            for n, ln in enumerate(f):
                if n < 3000:
                    ctx.seen(ln[:90])
                if i == 0 and n in (5, 6):
                    ctx.sample({"driver": list(spec), "event": ln.strip()[:300]})
    results = fnval.judge_many(ctx, "Archive/ArchiveTrace.tla", "ArchiveTrace.cfg", traces, threads=6)
    results += fnval.judge_many(ctx, "Archive/ArchiveObjTrace.tla", "ArchiveObjTrace.cfg", otraces, threads=6)
    drift = {}
    for res in results:
        for x in res["rejects"]:
            ctx.violation("archive-trace:%s" % x["event"][:40], "archive trace not explained by Archive.tla at %s" % x["event"][:200], x["path"])
        keep = []
        for c, d, ln in res["flags"]:
            if c.startswith("drift-"):
                drift.setdefault("%s/%s" % (c, d), res["lines"][ln - 1][:300])
            else:
                keep.append((c, d, ln))
        res["flags"] = keep
        fnval.account(ctx, res, sig_of, describe, starts=('"e":"Reset"', '"e":"Arch"'), tag="c19")
    for k, ex in sorted(drift.items()):
        ctx.drift.append("%s: a chunk read was accepted although the chunk does not have the requested length (inside the archive), e.g. %s" % (k, ex))
    ctx.extra["rule"] = ("events = Save/Load/Read/Eof calls on the real archive judged by TLC (Save and Load recomputed from the logged type, value and bytes); "
                         "executions = Reset-delimited families (one type, or one base archive with all its mutants) without a flagged event; "
                         "distinct = distinct event prefixes among the first 3000 events of each driver run")
