"""C07 - the cache never returns invalidated, expired or superseded data.
Leg D: Cache.tla (history-variable property layer) explored exhaustively by TLC.
Leg B: real thread_shared / process_shared caches driven under a fake clock; every recorded
       execution must be a behaviour of CacheTrace07.tla (history-only acceptance: no demand on
       eviction choice), and, for unlimited caches, of the strict CacheTrace.tla.
"""
import os


def run(ctx):
    q = ctx.quick
    ctx.assumptions += [
        "virtual clock: the harness defines time(); libcppcms reads the clock through the PLT",
        "values are self-describing strings (id + filler incl. NUL bytes) so a torn / foreign value decodes to -1",
        "TLC explores the property layer for 3 names only; larger alphabets are covered by validated traces",
    ]
    # ---- Leg D
    r = ctx.design("Cache/Cache.tla", "Cache07_quick.cfg" if q else "Cache07.cfg", workers=16, timeout=1500, heap="16g")
    # ---- Leg B
    exe = ctx.harness("cache_drv", ["cache/cache_drv.cpp"])
    runs = []
    if q:
        for be in ("thread", "process"):
            for lim in (0, 1, 2, 5, 64):
                runs.append(("rand", be, lim, 6 if lim < 5 else 16, 400, 12))
        runs.append(("exh", "thread", 0, 3, 2))
        runs.append(("exh", "thread", 2, 3, 2))
    else:
        for be in ("thread", "process"):
            for lim in (0, 1, 2, 3, 5, 8, 64):
                runs.append(("rand", be, lim, 4, 300, 60))
                runs.append(("rand", be, lim, 16, 5000, 8))
        for lim in (0, 1, 2):
            runs.append(("exh", "thread", lim, 3, 3))
        runs.append(("exh", "process", 1, 3, 3))
    # large key alphabet (hash-table growth / collisions): 300 names, judged with the *_big cfgs
    runs.append(("rand", "thread", 0, 300, 2500 if q else 8000, 1))
    for be in ("thread", "process"):
        runs.append(("collide", be, 0, 8, 400 if q else 3000, 6 if q else 20))
        runs.append(("collide", be, 4, 12, 400 if q else 3000, 4 if q else 20))
    runs.append(("rand", "process", 0, 300, 2500 if q else 8000, 1))
    n = 0
    for spec in runs:
        n += 1
        t = os.path.join(ctx.work, "c07-%d.ndjson" % n)
        env = {}
        if spec[0] == "collide":
            # every key / trigger name in ONE bucket chain of the hash indexes (erase in the middle of a chain, long chains)
            env = {"VERIF_COLLIDE": "1"}
            spec = ("rand",) + tuple(spec[1:])
        rc, out, err = ctx.run_harness(exe, spec, trace=t, timeout=900, env=env)
        if rc != 0:
            if rc in (-11, -6, -7, -8, 134, 139):
                # the real cache crashed (SIGSEGV/SIGABRT/...) in a single-threaded, valid operation sequence
                rp = os.path.join(ctx.replays, "cache-crash-%d.txt" % n)
                body = open(t).read()[-6000:] if os.path.exists(t) else ""
                open(rp, "w").write("cache_drv %s rc=%s\n%s\n--- last events ---\n%s" % (" ".join(map(str, spec)), rc, err[-2000:], body))
                ctx.violation("cache:crash", "the cache crashed (signal %d) in a sequential operation sequence: cache_drv %s" % (abs(rc) if rc < 0 else rc - 128, " ".join(map(str, spec))), rp)
                continue
            ctx.undecided.append("cache_drv %s failed rc=%s %s" % (spec, rc, err[-500:]))
            continue
        with open(t) as f:
            lines = f.readlines()
        for ln in lines[:4000]:
            ctx.seen(ln.split('"sk"')[0][:60])
        if n <= 3:
            ctx.sample({"driver": list(spec), "first_events": [x.strip() for x in lines[:6]]})
        big = spec[3] > 16
        rej = ctx.validate("Cache/CacheTrace07.tla", "CacheTrace07_big.cfg" if big else "CacheTrace07.cfg", t)
        if n == 1 and not rej:
            ctx.binding_selftest("Cache/CacheTrace07.tla", "CacheTrace07.cfg", t, [("wrong-value", mut_value), ("drop-rise", mut_drop("Rise")), ("drop-store", mut_drop_store)])
        for x in rej:
            ctx.violation("trace07:%s" % sig(x), "cache trace not a behaviour of Cache (C07) at %s" % x["event"][:160], x["path"])
        if spec[2] == 0 and not rej:
            # unlimited cache: the strict layer must agree too (LiveIsFound: hit whenever live)
            rej = ctx.validate("Cache/CacheTrace.tla", "CacheTrace_big.cfg" if big else "CacheTrace.cfg", t)
            for x in rej:
                if '"Fetch"' in x["event"]:
                    ctx.violation("trace07s:%s" % sig(x), "unlimited cache: fetch differs from specification at %s" % x["event"][:160], x["path"])
        os.remove(t)
    oversize(ctx, exe)
    ctx.extra["rule"] = ("executions = Reset-delimited operation sequences run against the real cache; "
                         "distinct = distinct event texts (operation, arguments, result) among the first 4000 events of each driver run")
    import front
    front.run(ctx)


def mut_value(lines):
    import re as _re
    for i, ln in enumerate(lines):
        if '"e":"Fetch"' in ln and '"hit":true' in ln:
            lines[i] = _re.sub(r'"v":(\d+)', lambda m: '"v":%d' % (int(m.group(1)) + 1000), ln, 1)
            return lines
    return None


def mut_drop(kind):
    def f(lines):
        import json as _j
        ev = [_j.loads(x) for x in lines]
        # an invalidating event between a hit and a miss of the same key, nothing else in between that could explain the miss
        for i, e in enumerate(ev):
            if e["e"] != kind:
                continue
            t = e.get("t")
            if i < 1 or i + 1 >= len(ev):
                continue
            before, after = ev[i - 1], ev[i + 1]
            if before["e"] == "Fetch" and before.get("hit") and before.get("k") == t and after["e"] == "Fetch" and not after.get("hit") and after.get("k") == t:
                return lines[:i] + lines[i + 1:]
        return None
    return f


def mut_drop_store(lines):
    import json as _j
    for i, ln in enumerate(lines):
        if '"e":"Store"' in ln:
            k = _j.loads(ln)["k"]
            for later in lines[i + 1:i + 30]:
                if '"e":"Reset"' in later or ('"e":"Store"' in later and _j.loads(later)["k"] == k):
                    break
                if '"e":"Fetch"' in later and '"hit":true' in later and _j.loads(later)["k"] == k:
                    return lines[:i] + lines[i + 1:]
    return None


def oversize(ctx, exe):
    """process-shared cache: stores whose value does not fit into the segment (dropped) must not leave
    the superseded value retrievable (defect fixed by 68598e0; kept as a permanent scenario)."""
    scripts = [
        "store 1 5 0\nfetch 1\nbigstore 1 5 3000000\nfetch 1\nbigstore 2 5 600000\nfetch 2\nfetch 1\nbigstore 3 5 100000\nfetch 3\nfetch 1\n",
        "bigstore 1 5 50000\nfetch 1\nbigstore 1 5 2000000\nfetch 1\nstore 1 5 1 2\nfetch 1\nrise 2\nfetch 1\nbigstore 2 5 1200000\nfetch 2\n",
    ]
    if not ctx.quick:
        for size in (100, 60000, 300000, 520000, 1048576, 5000000):
            scripts.append("store 1 9 0\nbigstore 1 9 %d\nfetch 1\nbigstore 2 9 %d\nfetch 2\nfetch 1\nclear\nbigstore 1 9 %d\nfetch 1\n" % (size, size, size))
    for i, sc in enumerate(scripts):
        t = os.path.join(ctx.work, "oversize-%d.ndjson" % i)
        rc, out, err = ctx.run_harness(exe, ("script", "process", 0, 3), trace=t, stdin=sc, timeout=300)
        if rc != 0:
            ctx.undecided.append("oversize script failed rc=%s %s" % (rc, err[-300:]))
            continue
        if i == 0:
            ctx.sample({"oversize-script": open(t).read().splitlines()[:6]})
        for x in ctx.validate("Cache/CacheTrace07.tla", "CacheTrace07.cfg", t):
            ctx.violation("oversize-store-keeps-old-value", "process-shared cache serves superseded data after a store that did not fit: %s" % x["event"][:160], x["path"])
        os.remove(t)


def sig(x):
    import re, json
    try:
        ev = json.loads(x["event"])
        return "%s@%d" % (ev.get("e"), x["offset_in_exec"])
    except Exception:
        return "end"
