"""G07 (growth, not a listed property): private/hash_map.h - the hash table under the cache's primary index, the
in-memory session store and string_map is a finite map: one list + per-bucket segments (DESIGN.md 9.6)."""
import os
from vlib import ROOT


def run(ctx):
    big = ctx.tier == "thorough"
    ctx.design("Cache/HashMap.tla", "HashMap.cfg", workers=8, timeout=900, note="5 keys, 2 values, explicit rehash to 1..3 buckets: every call sequence")
    if big:
        ctx.design("Cache/HashMap.tla", "HashMap_big.cfg", workers=12, timeout=3000, heap="16g", note="7 keys, rehash to 1..4")
    for cfg, inv, what in [("HashMap_f_insert.cfg", "FindCorrect", "insert appends instead of threading behind the bucket's last node"),
                           ("HashMap_f_erase.cfg", "ResultOK", "erase of a bucket's last node leaves the bucket end stale"),
                           ("HashMap_f_rehash.cfg", "FindCorrect", "rehash appends instead of threading"),
                           ("HashMap_f_clear.cfg", "FindCorrect", "clear() leaves one bucket pointing at a destroyed node")]:
        ctx.design("Cache/HashMap.tla", cfg, workers=4, timeout=600, expect_violation=inv, count=False, note="seeded design fault: " + what)
    exe = ctx.harness("hashmap_drv", ["cache/hashmap_drv.cpp"], flavour="asan")
    runs = [(6, 400, 6, "mix"), (12, 400, 4, "grow"), (8, 400, 4, "churn"), (10, 300, 4, "rehash"), (40, 500, 2, "grow"), (3, 200, 6, "rehash")]
    if big:
        runs += [(k, 1500, 6, p) for k in (4, 9, 16, 25, 40) for p in ("mix", "grow", "churn", "rehash")]
    for i, spec in enumerate(runs):
        t = os.path.join(ctx.work, "hm-%d.ndjson" % i)
        rc, out, err = ctx.run_harness(exe, spec, trace=t, timeout=600)
        if rc != 0:
            rp = os.path.join(ctx.replays, "hashmap-crash-%d.txt" % i)
            open(rp, "w").write("hashmap_drv %s (VERIF_SEED=%s)\nrc=%s\n%s\n" % (" ".join(map(str, spec)), ctx.seed, rc, err[-4000:]))
            ctx.violation("hashmap:crash", "hash_map driver died (sanitizer / signal): %s" % err[-200:].replace("\n", " "), rp)
            continue
        if i == 0:
            ctx.sample({"driver(keys,ops,rounds,profile)": list(spec), "first_events": open(t).read().splitlines()[:6]})
        for ln in open(t).read().splitlines()[:2000]:
            ctx.seen(ln.split('"e":"')[1].split('"')[0])
        # property layer first (a finite map; iteration yields each key once): only this one is a violation
        bad = ctx.validate("Cache/HashMapTrace.tla", "HashMapTraceLoose.cfg", t, env={"STRICT": "0"})
        for x in bad:
            ctx.violation("hashmap:%s" % x["event"].split('"e":"')[1].split('"')[0], "hash_map trace is not a behaviour of a finite map at %s" % x["event"][:160], x["path"])
        if not bad:
            # mechanism layer: the very list order the code threads (drift only)
            for x in ctx.validate("Cache/HashMapTrace.tla", "HashMapTrace.cfg", t, env={"STRICT": "1"}):
                ctx.drift.append("hash_map list order differs from the as-coded threading at %s" % x["event"][:120])
    if big:
        strmap(ctx, big)   # string_map leg: thorough tier only until its trace validation is made cheaper (per-state invariants walk the table)


def strmap(ctx, big):
    """second table: private/string_map.h (open addressing, linear probing with wrap-around, doubling)"""
    ctx.design("Cache/StringMap.tla", "StringMap.cfg", workers=8, timeout=900, note="8 keys (hash = key), tables 2 -> 4 -> 8 -> 16, up to 6 entries: every add / get / clear sequence")
    for cfg, what in [("StringMap_f_get.cfg", "get() does not wrap around while insert() does (= seed C01-6)"),
                      ("StringMap_f_insert.cfg", "insert() does not wrap around")]:
        ctx.design("Cache/StringMap.tla", cfg, workers=4, timeout=600, expect_violation="GetCorrect", count=False, note="seeded design fault: " + what)
    exe = ctx.harness("strmap_drv", ["cache/strmap_drv.cpp"], flavour="asan")
    runs = [(40, 3, "wrap"), (31, 4, "wrap")]   # larger populations only in the thorough tier (the per-state invariants walk the whole table)
    if big:
        runs += [(n, 3, p) for n in (20, 33, 64, 65, 129, 300) for p in ("wrap", "mixed", "random")]
    for i, spec in enumerate(runs):
        t = os.path.join(ctx.work, "sm-%d.ndjson" % i)
        rc, out, err = ctx.run_harness(exe, spec, trace=t, timeout=600)
        if rc != 0:
            rp = os.path.join(ctx.replays, "strmap-crash-%d.txt" % i)
            open(rp, "w").write("strmap_drv %s (VERIF_SEED=%s)\nrc=%s\n%s\n" % (" ".join(map(str, spec)), ctx.seed, rc, err[-4000:]))
            ctx.violation("strmap:crash", "string_map driver died (sanitizer / signal): %s" % err[-200:].replace("\n", " "), rp)
            continue
        for ln in open(t).read().splitlines()[:500]:
            ctx.seen("sm:" + ln.split('"e":"')[1].split('"')[0])
        bad = ctx.validate("Cache/StringMapTrace.tla", "StringMapTrace.cfg", t, env={"STRICT": "0", "JAVA_TOOL_OPTIONS": "-Xss256m"})
        for x in bad:
            ctx.violation("strmap:%s" % x["event"].split('"e":"')[1].split('"')[0], "string_map trace is not a behaviour of a table of distinct names at %s" % x["event"][:160], x["path"])
        if not bad:
            for x in ctx.validate("Cache/StringMapTrace.tla", "StringMapTrace.cfg", t, env={"STRICT": "1", "JAVA_TOOL_OPTIONS": "-Xss256m"}):
                ctx.drift.append("string_map enumeration order differs from the as-coded chain at %s" % x["event"][:120])
