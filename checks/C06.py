"""C06 - session state carries over between requests exactly, never after it ended.

Leg D: spec/Session/Sess.tla (property layer: jars, server store, issued client cookies, history
       variables left/dead/seen) explored by TLC per (location x expire x jar policy): invariants
       Carry NoForeign Dead SidForm Exposed JarLeft, action properties FreshSid Unusable
       DeadlineFixed DeadlineRenew.
       spec/Session/SessImpl.tla (mechanism layer: save()'s early returns, session_sid, session_dual switch,
       update_exposed) checked against Sess; Faithful=TRUE reproduces the two deviations of the unchanged tree
       as counter-examples, Faithful=FALSE (repaired design) satisfies every invariant.  Drift only, never a violation.
Leg B: harness/session/sess_drv.cpp drives the real session_interface / session_sid / session_dual /
       session_cookies / memory+file storage through the public external-session API (cookie adapter =
       the browser's jar, adversarial or polite) under a fake clock; every recorded history must be a
       behaviour of Sess (spec/Session/SessTrace.tla).
"""
import os, re, json, threading
import sesslib


def run(ctx):
    q = ctx.quick
    ctx.assumptions += [
        "virtual clock: the harness defines time(); libcppcms reads the clock through the PLT",
        "requests of one history are sequential (no two requests in flight at once)",
        "the cookie adapter answers get_session_cookie() with the request's cookie (as HTTP does), set_cookie() edits the jar",
        "'cleared' is read as: the session data is empty when the request ends (clear() followed by set() in the same request continues the session)",
        "server-side storage is observed through a decorator installed with session_pool::storage() (public seam); "
        "client cookies are hmac-sha1 signed, their deadline is read back by the harness with an encryptor of its own",
        "on_server(true) is not driven with location=client (save() throws by contract)",
        "session.timeout=100, client_size_limit=96, <=4 keys, <=4 browsers; values are byte strings from an adversarial family (NUL first/middle/last, equal as C strings, differing in the last byte / in bytes >= 0x80 only, store_data() blobs of equal serialized size; small or +120 bytes), compared by identity of the bytes (interned ids)",
        "tcp (network) session storage is not driven",
    ]
    # ------------------------------------------------------------------ Leg D
    legs = os.environ.get("VERIF_C06_LEGS", "DB")          # development aid: "B" skips Leg D
    for name, consts in (sesslib.design_runs(q) if "D" in legs else []):
        cfg = sesslib.write_cfg(ctx, name, consts)
        ctx.design("Session/Sess.tla", cfg, workers=16 if not q else 8, timeout=240 if q else 1500, heap="12g",
                   deadlock_off=True, note=name)
    if "D" in legs:
        sesslib.run_impl(ctx)
    # ------------------------------------------------------------------ Leg B
    exe = ctx.harness("sess_drv", ["session/sess_drv.cpp"])
    jobs = sesslib.binding_runs(q)
    if os.environ.get("VERIF_C06_JOBS"):                   # development aid: regex over "label arg arg ..."
        jobs = [j for j in jobs if re.search(os.environ["VERIF_C06_JOBS"], j[0] + " " + " ".join(map(str, j[1])))]
    sesslib.selftest(ctx, exe)
    sesslib.run_binding(ctx, exe, jobs)
    ctx.extra["rule"] = ("executions = Reset-delimited request histories run against the real session code; events = trace lines "
                         "accepted by TLC; distinct = distinct (event, operation, outcome-class) signatures seen in the traces")
    ctx.extra["exhaustive"] = True
