"""C16 - digests, HMAC and CBC ciphers compute the standard functions for all inputs.

Leg D: Crypto/DigestImpl.tla (buffering / padding / re-initialisation of the two bundled digest shapes
       against the property layer Digest.tla, free compression function), Crypto/Hmac.tla (the two primed
       digest objects of cppcms::crypto::hmac against HMAC as DEFINED from RFC 2104 over a free H),
       Crypto/Cbc.tla (CBC algebra for every block permutation + the cbc object's two chains).
Leg B: harness/crypto/crypto_drv.cpp drives message_digest / hmac / cbc / key of the library built from
       the current tree; spec/Crypto/CryptoTrace.tla accepts a trace iff
         - every digest read out of a cppcms object equals the table entry for the bytes TLC itself
           concatenated from that object's append calls (table = libcrypto/libgcrypt on the same bytes,
           single-valued, agreeing with the embedded RFC 1321 / FIPS 180-4 / RFC 2202 / RFC 4231 vectors);
         - every hmac read-out equals HMAC(key, text) re-derived in TLA+ from RFC 2104 with the H values of
           the table for the inner and outer messages TLC computed from the key/text bytes of that object;
         - cbc data satisfies the CBC relation w.r.t. the observed single-block table and the object's
           chain value; round trips are the identity; cppcms and libcrypto produce the same cipher text;
         - a hexadecimal key is accepted only with exactly the bytes it denotes.
"""
import os, json, copy, threading
from concurrent.futures import ThreadPoolExecutor

ALGOS = ["md5", "sha1", "sha224", "sha256", "sha384", "sha512"]
BLK = {"md5": 64, "sha1": 64, "sha224": 64, "sha256": 64, "sha384": 128, "sha512": 128}


def run(ctx):
    q = ctx.quick
    ctx.assumptions += [
        "H is uninterpreted: conformance of MD5/SHA-1/SHA-2/AES to their standards is decided only as agreement with "
        "libcrypto (OpenSSL EVP) and libgcrypt on every driven input plus the embedded known-answer vectors "
        "(RFC 1321 A.5, FIPS 180-4 examples incl. one million 'a', RFC 2202, RFC 4231)",
        "the harness logs the bytes it passes to append()/encrypt(); TLC concatenates them itself, so which message a "
        "digest belongs to is derived by the specification, not claimed by the harness",
        "messages longer than 520 bytes carry no bytes in the trace: they are named by a generator descriptor "
        "(prng:<seed>:<len>, rep:<byte>:<len>) and only agreement of cppcms (chunked, reused object / fresh object) with "
        "libcrypto/libgcrypt is decided for them; HMAC over long texts likewise (HSum: equality with libcrypto's HMAC)",
        "this build of cppcms uses OpenSSL for SHA-2 and AES, so for those libgcrypt is the independent reference",
        "the iv of set_nonce_iv is not observable: the first block after it is unconstrained in the specification",
    ]
    W = 16 if not q else 16
    # ---- Leg D
    ctx.design("Crypto/DigestImpl.tla", "DigestImpl_quick.cfg" if q else "DigestImpl.cfg", workers=4, deadlock_off=True, timeout=300, heap="2g")
    ctx.design("Crypto/Hmac.tla", "Hmac_quick.cfg" if q else "Hmac.cfg", workers=4, deadlock_off=True, timeout=300, heap="2g")
    ctx.design("Crypto/Cbc.tla", "CbcLaws_quick.cfg" if q else "CbcLaws.cfg", workers=6, deadlock_off=True, timeout=600, heap="2g",
               note="CBC algebra per block permutation (initial states only)")
    ctx.design("Crypto/Cbc.tla", "Cbc_quick.cfg" if q else "Cbc.cfg", workers=6 if q else W, deadlock_off=True, timeout=900, heap="4g")

    # ---- Leg B
    exe = ctx.harness("crypto_drv", ["crypto/crypto_drv.cpp"], extra=["-lcrypto", "-lgcrypt"])
    kat = os.path.join(os.path.dirname(os.path.dirname(os.path.abspath(__file__))), "spec", "Crypto", "kat_inputs.txt")
    jobs = [("huge", ["huge"]), ("kat", ["kat", kat])]
    for a in reversed(ALGOS):           # biggest traces first
        jobs.append(("short-" + a, ["short", a]))
    for a in reversed(ALGOS):
        jobs.append(("hmac-" + a, ["hmac", a]))
    jobs.append(("cbc", ["cbc"]))
    for a in ALGOS:
        jobs.append(("long-" + a, ["long", a]))
    jobs.append(("key", ["key"]))

    only = os.environ.get("C16_JOBS")          # development aid: regular expression over the job names
    if only:
        import re
        jobs = [j for j in jobs if re.search(only, j[0])]
        ctx.assumptions.append("C16_JOBS=%s: only a subset of the trace families was run" % only)

    lock = threading.Lock()
    results = []

    def one(idx, name, args):
        sub = copy.copy(ctx)                      # own scratch dir + own counters; lists/dicts stay shared
        sub.work = os.path.join(ctx.work, "j%d" % idx)
        os.makedirs(sub.work, exist_ok=True)
        sub.events = 0
        sub.traces_ok = 0
        sub.replays = os.path.join(ctx.replays, name)        # parallel validations must not share replay file names
        os.makedirs(sub.replays, exist_ok=True)
        t = os.path.join(sub.work, name + ".ndjson")
        rc, out, err = sub.run_harness(exe, args, trace=t, timeout=1500)
        if rc != 0:
            with lock:
                ctx.undecided.append("crypto_drv %s failed rc=%s %s" % (args, rc, err[-500:]))
            return
        n = 0
        seen = set()
        first = []
        with open(t) as f:
            for ln in f:
                n += 1
                if n <= 40000:
                    seen.add(klass(ln))
                if len(first) < 5 and '"Reset"' not in ln and '"Algo"' not in ln:
                    first.append(ln.strip()[:300])
        rej = sub.validate("Crypto/CryptoTrace.tla", "CryptoTrace.cfg", t, timeout=1500, heap="6g")
        with lock:
            ctx.events += sub.events
            ctx.traces_ok += sub.traces_ok
            for k in seen:
                ctx.seen((name.split("-")[0],) + k)
            if name in ("kat", "hmac-sha256", "cbc"):
                ctx.sample({"driver": args[:1] + [os.path.basename(x) for x in args[1:]], "first_events": first[:3]})
            results.append((name, n, rej))
        try:
            os.remove(t)
        except OSError:
            pass

    with ThreadPoolExecutor(max_workers=6 if q else 8) as ex:
        futs = [ex.submit(one, i, name, args) for i, (name, args) in enumerate(jobs)]
        for f in futs:
            f.result()

    for name, _ in jobs:
        try:
            os.rmdir(os.path.join(ctx.replays, name))       # keep only the directories that hold a replay
        except OSError:
            pass
    for name, n, rej in sorted(results):
        for x in rej:
            sig, desc, genuine = describe(x)
            if genuine:
                ctx.violation(sig, "%s: %s" % (name, desc), x["path"])
            else:
                ctx.undecided.append("%s: reference/model inconsistency, not attributable to the code: %s (%s)" % (name, desc, x["path"]))
    ctx.extra["trace_lines"] = {name: n for name, n, _ in results}
    ctx.extra["rule"] = ("executions = Reset-delimited groups (one message / key / cipher key with all its chunkings, implementations and "
                         "object reuse); evaluations = trace lines (API calls and reference values) accepted by TLC; distinct = distinct "
                         "(family, event, algorithm, length-mod-block / key-length class) signatures among the first 40000 lines of each driver run")


def klass(ln):
    """cheap (event, algorithm, size class) signature of a trace line for the distinct-inputs count"""
    try:
        o = json.loads(ln)
    except Exception:
        return ("?",)
    e = o.get("e")
    a = o.get("a", "")
    for f in ("b", "m", "msg", "in", "plain", "text"):
        if f in o and isinstance(o[f], list):
            n = len(o[f])
            return (e, a, n if n < 300 else 300 + n % 128)
    if "len" in o:
        return (e, a, o.get("impl", ""), o["len"] % 128)
    if "key" in o:
        return (e, a, len(o["key"]))
    return (e, a)


def describe(x):
    """signature + description of a rejected execution; genuine=False when the rejected line is a reference value
    (libcrypto / libgcrypt disagreeing with each other, with a known answer, or with the TLA+ definition)"""
    try:
        ev = json.loads(x["event"])
    except Exception:
        return "end-of-trace", "trace ends inside an execution", False
    e = ev.get("e")
    pre = []
    for ln in x["exec"][:x["offset_in_exec"]]:
        try:
            pre.append(json.loads(ln))
        except Exception:
            pass
    if e == "Readout":
        a, n, chunks = "?", 0, []
        for p in pre:
            if p.get("o") == ev.get("o"):
                if p["e"] == "New":
                    a, n, chunks = p["a"], 0, []
                elif p["e"] == "Append":
                    n += len(p["b"]); chunks.append(len(p["b"]))
                elif p["e"] == "Readout":
                    n, chunks = 0, []
        B = BLK.get(a, 64)
        return ("digest:%s:lenmod%d=%d" % (a, B, n % B),
                "%s digest of a %d-byte message fed as %s differs from libcrypto / known answer" % (a, n, chunks[:8]), True)
    if e == "Digest":
        if ev.get("impl") in ("ref", "gcry"):
            return "ref:digest:%s" % ev.get("a"), "reference digests disagree for %s" % ev.get("d"), False
        d = ev.get("d", "")
        if d.startswith("rep:"):
            return ("digest:%s:%s" % (ev.get("a"), d),
                    "%s of %s (%s, chunks %s%s) differs from libcrypto" % (ev.get("a"), d, ev.get("impl"), ev.get("chunks", [])[:4], ev.get("unit", "")), True)
        B = BLK.get(ev.get("a"), 64)
        return ("digest:%s:long:lenmod%d=%d" % (ev.get("a"), B, ev.get("len", 0) % B),
                "%s of %s (%s, chunks %s) differs from libcrypto" % (ev.get("a"), d, ev.get("impl"), ev.get("chunks", [])[:8]), True)
    if e in ("Ref", "HRef", "Blk") and ev.get("impl") != "cbc1":
        return "ref:%s:%s" % (e, ev.get("a")), "reference value refused: %s" % x["event"][:160], False
    if e == "Blk":
        return "cbc:block:%s" % ev.get("a"), "single-block encryption of a zero-iv cbc object differs from AES (libcrypto)", True
    if e == "HReadout":
        a, klen, n, nth = "?", 0, 0, 0
        for p in pre:
            if p["e"] == "HNew" and p.get("o") == ev.get("o"):
                a, klen, n, nth = p["a"], len(p["key"]), 0, 0
            elif p["e"] == "HAppend" and p.get("o") == ev.get("o"):
                n += len(p["b"])
            elif p["e"] == "HReadout" and p.get("o") == ev.get("o"):
                n = 0; nth += 1
        B = BLK.get(a, 64)
        kc = "0" if klen == 0 else "<B" if klen < B else "=B" if klen == B else ">B"
        return ("hmac:%s:key%s:%s" % (a, kc, "first" if nth == 0 else "reuse"),
                "hmac-%s (key %d bytes, text %d bytes, message #%d of the object) is not the RFC 2104 value" % (a, klen, n, nth + 1), True)
    if e == "HSum":
        return "hmac:%s:long" % ev.get("a"), "hmac-%s over a %d-byte text with a %d-byte key differs from libcrypto" % (ev.get("a"), ev.get("len", -1), ev.get("klen", -1)), True
    if e == "HNew":
        return "hmac:%s:new" % ev.get("a"), "hmac object reports a wrong digest size", True
    if e in ("CEnc", "CDec"):
        a, known = "?", "iv"
        for p in pre:
            if p.get("o") == ev.get("o"):
                if p["e"] == "CNew":
                    a = p["a"]
                elif p["e"] == "CNonce":
                    known = "nonce"
                elif p["e"] == "CIv":
                    known = "iv"
        return ("cbc:%s:%s:%s" % (a, "enc" if e == "CEnc" else "dec", known),
                "%s %s of %d bytes is not the CBC function of its input, key and chain value" % (a, e, len(ev.get("in", []))), True)
    if e == "Cbc":
        what = "back" if ev.get("back") != ev.get("plain") or ev.get("back2") != ev.get("plain") else "cipher"
        return "cbc:%s:roundtrip:%s" % (ev.get("a"), what), "%s: decrypt(encrypt(p)) != p or cipher text differs from libcrypto (%d bytes)" % (ev.get("a"), len(ev.get("plain", []))), True
    if e in ("CNew", "CKey", "CIv"):
        return "cbc:%s" % e, "cbc object reports wrong sizes: %s" % x["event"][:120], True
    if e == "Key":
        return "key:%s" % ev.get("how"), "hexadecimal key %r accepted with bytes %s" % (bytes(ev.get("text", [])[:40]), ev.get("bytes", [])[:20]), True
    if e == "Algo":
        return "algo:%s" % ev.get("a"), "digest object reports wrong name/block/digest size: %s" % x["event"][:160], True
    if e == "End":
        return "kat-coverage", "not every embedded known-answer vector was exercised", False
    return "event:%s" % e, x["event"][:160], True
