"""C04 - XSS filter output contains only white-listed markup and is stable.
Leg D: spec/Xss/XssNest.tla (token level: nesting stack, tag kinds, pair invalidation, remove/escape)
       and spec/Xss/XssTokD.tla (character level: the mechanism model of XssTok.tla on every bounded
       fragment string) - FilterValid, ValidUnchanged, FilterSafe, Idempotent, Balanced/HtmlClosed.
Leg B: harness/xss/xss_drv.cpp calls cppcms::xss::validate / filter / validate_and_filter_if_invalid on
       exhaustive fragment / token strings and grammar-guided random strings under generated rule sets;
       every call bundle is one trace line that spec/Xss/XssTokTrace.tla accepts iff
       validate(out) /\ ~Dangerous(out, rules) /\ (validate(in) => out = in) /\ (validate(in) => well-formed)
       /\ filter(out) = out, with Dangerous the independent browser-lenient scanner of XssTok.tla.
       The mechanism model's own prediction of the output is compared as MODEL-DRIFT only.
"""
import os, json

REASON = {1: "stray-gt", 2: "bad-entity", 3: "comment", 4: "tag-not-allowed", 5: "tag-kind", 6: "attr-not-allowed",
          7: "value-unquoted", 8: "value-markup", 9: "value-predicate", 10: "uri-scheme", 11: "abs-uri-relative"}


REPORTED = set()


def erid(ka, kb, xh, cm=1, nu=1, enc=0, js=0):
    return 100 + ka + 4 * kb + 16 * xh + 32 * cm + 64 * nu + 128 * enc + 512 * js


def run(ctx):
    import shard
    q = ctx.quick
    ctx.assumptions += [
        "browser behaviour is represented by the lenient scanner Dangerous of XssTok.tla (tag / attribute names end where a browser ends them, "
        "white space around '=', schemes read after dropping bytes <= 0x20 and case-folded), not by a browser",
        "expression attributes of the drivers are character-set / alternative expressions evaluated by TLC itself; one free-form expression is "
        "opaque (verdict of booster::regex logged); URI syntax beyond the scheme is not part of the judgement",
        "encodings driven: none, UTF-8, ISO-8859-1, windows-1252 (the non-ASCII-compatible path through iconv is not driven)",
        "expression attributes are also driven into the regex engine's error results: expressions with nested quantifiers "
        "(([a-zA-Z0-9_-]+ ?)*, ([a-z]+)*, (a|aa)+, (x+x+)+y, (\\w+\\d*)+, scheme (h+)+ttps?) with values of 48 / 200 / 2000 allowed characters plus one "
        "forbidden character, and expressions compiled with regex::utf8 with values carrying invalid UTF-8, under encodings none / UTF-8 / "
        "ISO-8859-1 / windows-1252; TLC evaluates the declared character set / alternatives / scheme list (a superset of each language)",
        "UTF-8 rule sets are driven with an ill-formed family (overlong forms at their boundaries, surrogates, > U+10FFFF, truncated "
        "sequences, lone continuations, every second byte after E0 / ED / F0 / F4) and the well-formed neighbours, judged by the RFC 3629 "
        "predicate Utf8From of XssTok.tla",
        "entity sweep: every '&' w ';' with w = '#' v, |v| <= 4 (quick) / 5 (thorough), and w without '#', over & # x X 0 1 9 a f A F g ; + - "
        "SP TAB . _ and 0xE9, in text position and inside an attribute value, numeric entities on / off, XHTML / HTML; the entity grammar "
        "is EntityEnd / NumericRefOK of XssTok.tla (white-listed name | '&#' DIGIT+ ';' | '&#x' HEXDIGIT+ ';', code point not a control)",
        "charset sweep: every name of the validator table of src/encoding.cpp in several spellings plus charsets validated by conversion "
        "(windows-1254, -874, cp866/437/850, KOI8-T, macintosh, TIS-620, Shift_JIS, cp932, EUC-JP, GBK, GB2312, EUC-KR, Big5) x every byte "
        "(multi-byte: lead >= 0x80 x second byte, sampled in quick); the expected well-formedness bit comes from iconv(3) of the C library, "
        "which is trusted as the definition of each charset",
        "expression attributes are driven with words of their language followed by / containing LF, CR LF, LF LF (API-built and JSON-loaded "
        "rules); pure 7-bit inputs with C0 / DEL bytes are driven under every declared encoding",
    ]
    W = 16
    legs = os.environ.get("VERIF_LEGS", "DB")      # development aid (sensitivity runs): "B" skips the design leg
    # ------------------------------------------------------------------ Leg D
    if "D" not in legs:
        ctx.undecided.append("Leg D skipped (VERIF_LEGS=%s): development run only" % legs)
    elif q:
        ctx.design("Xss/XssNest.tla", "XssNest_quick.cfg", workers=W, timeout=600)
        ctx.design("Xss/XssTokD.tla", "XssTokD_quick.cfg", workers=W, timeout=600)
        ctx.design("Xss/XssTokD.tla", "XssTokD_pair_quick.cfg", workers=W, timeout=600)
    else:
        ctx.design("Xss/XssNest.tla", "XssNest.cfg", workers=W, timeout=1500, heap="12g")
        ctx.design("Xss/XssNest.tla", "XssNest_kinds.cfg", workers=W, timeout=1500, heap="12g")
        ctx.design("Xss/XssTokD.tla", "XssTokD.cfg", workers=W, timeout=1700, heap="12g")
        ctx.design("Xss/XssTokD.tla", "XssTokD_len5.cfg", workers=W, timeout=1500, heap="12g")
        ctx.design("Xss/XssTokD.tla", "XssTokD_wide.cfg", workers=W, timeout=1500, heap="12g")
        ctx.design("Xss/XssTokD.tla", "XssTokD_pair.cfg", workers=W, timeout=1500, heap="12g")
    # non-vacuity of the design invariants: without pair invalidation FilterValid must break
    if "D" in legs:
      ctx.design("Xss/XssNest.tla", "XssNest_selftest.cfg", workers=4, timeout=300, expect_violation="FilterValid",
               note="self-test: PairInvalidation = FALSE")
      ctx.states -= ctx.tlc_runs[-1]["distinct"]
      ctx.transitions -= ctx.tlc_runs[-1]["generated"]

    # ------------------------------------------------------------------ Leg B
    exe = ctx.harness("xss_drv", ["xss/xss_drv.cpp"])
    jobs = []

    def job(name, args, nsh):
        for k in range(nsh):
            a = list(args)
            a[3], a[4] = k, nsh
            jobs.append((os.path.join(ctx.work, "%s-%d.ndjson" % (name, k)), a))
    X, H = erid(3, 1, 1), erid(3, 1, 0)
    X2, H2 = erid(1, 2, 1), erid(1, 3, 0)
    if q:
        fam = [0, 3, 5, 6, 9, 10, 12, 15, 17, 20, 27, 30]
        job("chars", ["frag", "chars", 3, 0, 1, X, H], 1)
        job("frag", ["frag", "frag", 4, 0, 1, H], 1)
        job("attr", ["frag", "attr", 4, 0, 1, X], 1)
        job("tok", ["frag", "tok", 4, 0, 1, X, H, X2, H2], 2)
        job("tok2", ["frag", "tok2", 3, 0, 1, X, H, X2, H2], 1)
        job("chars2", ["frag", "chars2", 3, 0, 1, erid(3, 1, 1, 1, 1, 1), erid(3, 1, 0, 1, 1, 3)], 1)
        job("lf", ["frag", "lf", 4, 0, 1, erid(3, 3, 1), erid(3, 3, 0, js=1)], 1)
        job("ctl", ["frag", "ctl", 3, 0, 1, erid(3, 1, 1, enc=1), erid(3, 1, 0, enc=2), erid(3, 1, 0, enc=3, js=1)], 1)
        # "&" w ";" sweep: text position, numeric entities on (XHTML, HTML) and off; inside an attribute value
        job("entx", ["ent", 4, 0, 0, 1, erid(3, 3, 1)], 2)
        job("enth", ["ent", 4, 0, 0, 1, erid(3, 3, 0, js=1)], 2)
        job("ento", ["ent", 3, 0, 0, 1, erid(3, 3, 1, nu=0), erid(3, 3, 0, nu=0)], 1)
        job("enta", ["ent", 3, 1, 0, 1, erid(3, 3, 1), erid(3, 3, 0)], 1)
        # expression engine error outcomes (match limit / bad UTF-8): values one forbidden character away from the language
        job("eng", ["eng", 0, 0, 0, 1, 2000, 2003, 2005, 2006], 2)
        # ill-formed UTF-8 family under UTF-8 rule sets (and one rule set without encoding as control)
        job("u8", ["u8", 0, 0, 0, 1, erid(3, 3, 1, enc=1), erid(3, 3, 0, enc=1, js=1), erid(3, 3, 1)], 1)
        job("enc", ["enc", 13, 0, 0, 1], 2)
        job("rnd", ["rnd", 900, 200, 0, 1] + fam, 3)
    else:
        fam = list(range(32)) + [33, 38, 44, 51]
        job("chars", ["frag", "chars", 4, 0, 1, X, H], 2)
        job("frag", ["frag", "frag", 5, 0, 1, H], 8)
        job("attr", ["frag", "attr", 5, 0, 1, X], 8)
        job("attrh", ["frag", "attr", 4, 0, 1, H, X2], 1)
        job("tok", ["frag", "tok", 5, 0, 1, X, H, X2, H2, erid(2, 3, 1), erid(1, 1, 0, 0, 0)], 12)
        job("tok2", ["frag", "tok2", 4, 0, 1, X, H, X2, H2, erid(2, 3, 1), erid(3, 3, 0)], 2)
        job("chars2", ["frag", "chars2", 4, 0, 1, erid(3, 1, 1, 1, 1, 1), erid(3, 1, 0, 1, 1, 3), erid(3, 1, 0, 1, 1, 2)], 2)
        job("lf", ["frag", "lf", 5, 0, 1, erid(3, 3, 1), erid(3, 3, 0, js=1), erid(3, 3, 0)], 3)
        job("ctl", ["frag", "ctl", 4, 0, 1, erid(3, 1, 1, enc=1), erid(3, 1, 0, enc=2), erid(3, 1, 0, enc=3, js=1), erid(3, 1, 1, enc=3)], 2)
        job("entx", ["ent", 5, 0, 0, 1, erid(3, 3, 1)], 16)
        job("enth", ["ent", 4, 0, 0, 1, erid(3, 3, 0, js=1), erid(3, 3, 0)], 2)
        job("ento", ["ent", 4, 0, 0, 1, erid(3, 3, 1, nu=0), erid(3, 3, 0, nu=0)], 2)
        job("enta", ["ent", 4, 1, 0, 1, erid(3, 3, 1), erid(3, 3, 0)], 2)
        job("eng", ["eng", 1, 0, 0, 1, 2000, 2001, 2002, 2003, 2004, 2005, 2006, 2007], 4)
        job("u8", ["u8", 0, 0, 0, 1, erid(3, 3, 1, enc=1), erid(3, 3, 0, enc=1, js=1), erid(3, 3, 1), erid(1, 1, 0, enc=1)], 1)
        job("enc", ["enc", 1, 1, 0, 1], 6)
        job("rnd", ["rnd", 3000, 400, 0, 1] + fam, 12)
        job("rndL", ["rnd", 60, 1500, 0, 1] + fam[:12], 2)
    NT = 6 if q else 12
    traces = shard.run_harness_jobs(ctx, exe, jobs, threads=NT)
    nev = 0
    for t in traces:
        with open(t) as f:
            for i, ln in enumerate(f):
                nev += 1
                if i < 3000:
                    ctx.seen(ln[:120])
        if len(ctx.samples) < 4:
            with open(t) as f:
                ctx.sample({"trace": os.path.basename(t), "events": [f.readline().strip()[:300] for _ in range(3)]})
    res = shard.parallel_validate(ctx, "Xss/XssTokTrace.tla", "XssTokTrace.cfg", traces, threads=NT, max_rejects=4)
    for t, rej in res.items():
        for x in rej:
            report(ctx, shard, x)
    # drift: the mechanism model's own prediction (never a violation)
    dtr = [t for t in traces if any(k in os.path.basename(t) for k in (("tok", "rnd", "lf", "ctl", "enc", "ento", "enta", "entx-0", "eng", "u8") if q else ("tok", "rnd", "attr", "lf", "ctl", "enc", "enth", "ento", "enta", "eng", "u8")))]
    dres = shard.parallel_print_pass(ctx, "Xss/XssTokTrace.tla", "XssTokDrift.cfg", dtr, "DRIFT", threads=NT)
    nd = 0
    for t, rows in dres.items():
        for r in rows:
            nd += 1
            if nd <= 5:
                ev = shard.event_at(t, int(r[0]))
                try:
                    e = json.loads(ev)
                    ctx.drift.append("XssTok mechanism model predicts another %s result for input %r (%s line %s)" % (
                        r[1].strip('"'), bytes(e.get("in", [])), os.path.basename(t), r[0]))
                except Exception:
                    ctx.drift.append("XssTok mechanism model differs at %s line %s" % (os.path.basename(t), r[0]))
    if nd > 5:
        ctx.drift.append("... %d drift lines in total" % nd)
    ctx.extra["drift_events_compared"] = sum(1 for t in dtr for _ in open(t))
    for t in traces:
        os.remove(t)
    ctx.extra["rule"] = ("events = call bundles (validate, filter x2 methods, validate_and_filter_if_invalid x2, re-validation and "
                         "re-filtering of both outputs) judged by TLC; executions = Reset-delimited blocks (<= 400 bundles under one rule set); "
                         "distinct = distinct event prefixes among the first 3000 events of each shard")
    ctx.extra["exhaustive"] = True


def report(ctx, shard, x):
    """classify a rejected block with the diagnosis spec and report each failing input"""
    sweep = '"e":"E"' in open(x["path"]).read()          # charset sweep block (E lines) or call bundles (F lines)
    rows = shard.parallel_print_pass(ctx, "Xss/XssTokTrace.tla", "XssTokWhy.cfg", [x["path"]], "WHYE" if sweep else "WHY",
                                     threads=1).get(x["path"], [])
    if not rows:
        ctx.violation("F:unclassified", "trace line rejected: %s" % x["event"][:200], x["path"])
        return
    lines = open(x["path"]).read().splitlines()
    rid = "?"
    try:
        r0 = json.loads(lines[0])
        rid = r0.get("rid")
        if sweep:
            rid = "%s, encoding %r (oracle: iconv %s)" % (rid, r0.get("encname"), r0.get("iconv"))
    except Exception:
        pass
    seen = set()
    for r in rows:
        ln = int(r[0])
        f = [int(v) for v in r[1:]]
        why = []
        for name, code in (("remove", f[0]), ("escape", f[1])):
            if code:
                why.append("dangerous-%s:%s" % (name, REASON.get(code // 100000, "?")))
        for name, v in zip(("out-invalid-remove", "out-invalid-escape", "out-unstable-remove", "out-unstable-escape",
                            "validate-vs-filter-mismatch", "valid-input-changed", "valid-input-ill-formed", "out-ill-formed",
                            "value-outside-expression-accepted"), f[2:]):
            if not v:
                why.append(name)
        sig = ("E:" if sweep else "F:") + "+".join(sorted(set(w.replace("-remove", "").replace("-escape", "") for w in why)))
        try:
            e = json.loads(lines[ln - 1])
            desc = "rule set %s, input %r -> remove %r / escape %r : %s" % (
                rid, bytes(e["in"]), bytes(e.get("or", e["in"])), bytes(e.get("oe", e["in"])), ", ".join(why))
        except Exception:
            desc = "line %d: %s" % (ln, ", ".join(why))
        if sig in seen or sig in REPORTED:
            continue
        seen.add(sig)
        REPORTED.add(sig)
        ctx.violation(sig, desc[:600], x["path"])
