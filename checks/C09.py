"""C09 - concurrent cache use is race-free and linearizable.
Leg D: Conc.tla - all interleavings of 2 threads x 2 operations (and 3 x 1) at lock-step granularity:
       Excl, LruWellFormed, MutExcl, Lin, NoTorn, the sequential invariants at every linearization point,
       deadlock freedom and termination under weak fairness; three seeded design bugs must be found (non-vacuity).
Leg B: 2..8 real threads on one thread_shared cache; hook events (Lock/Unlock/Lin, emitted inside the critical
       sections with a global sequence number) merged with the harness' Inv/Ret events must be a behaviour of
       ConcTrace.tla: lock exclusion, Lin events form a behaviour of the sequential cache, Inv < Lin < Ret per
       thread, every Ret carries its own Lin's result, every operation completes.
"""
import os, subprocess
from vlib import ROOT


def run(ctx):
    q = ctx.quick
    ctx.assumptions += [
        "hooks (guard CPPCMS_VERIF) emit inside the critical section; the sequence number is the only ordering used",
        "races on accesses that carry no hook are visible only through their effects (torn value, rejected linearization) or the thorough-tier TSan aid",
        "the clock is constant during a concurrent round (deadlines are -1 = already expired or +5)",
    ]
    ctx.design("Cache/Conc.tla", "Conc_quick.cfg", workers=12, timeout=900, note="2 threads x 2 ops, limits {0,1}, safety + termination")
    if not q:
        ctx.design("Cache/Conc.tla", "Conc_3x1.cfg", workers=16, timeout=1500, heap="16g", note="3 threads x 1 op")
        ctx.design("Cache/Conc.tla", "Conc_2x3.cfg", workers=16, timeout=1500, heap="16g", note="2 threads x 3 ops, safety only")
    for bug, inv in (("BugCopyAfterUnlock", "Lin"), ("BugNoLruMutex", "LruWellFormed"), ("BugReadLockRemove", "Lin")):
        r = ctx.design("Cache/Conc.tla", "Conc_%s.cfg" % bug, workers=8, timeout=600, expect_violation=inv, count=False,
                       note="seeded design bug must violate " + inv)
    exe = ctx.harness("conc_drv", ["cache/conc_drv.cpp"])
    if q:
        runs = [(2, 1200, 0, 3, 2), (4, 600, 2, 4, 2), (8, 300, 1, 3, 2), (4, 600, 0, 2, 2), (3, 600, 3, 8, 1),
                # growth beyond the listed quantifier: forked PROCESSES on the process-shared cache (shared sequence counter)
                (4, 400, 2, 4, 2, "proc"), (3, 400, 0, 2, 2, "proc"),
                # all keys in ONE hash bucket (equal hash values): readers walk / touch the same chain
                (6, 1500, 0, 5, 2, "collide"), (4, 800, 3, 5, 2, "collide"),
                # writers that stop early: readers parked behind the last writer must all get through
                (8, 1500, 0, 3, 6, "onewriter"), (4, 1500, 2, 3, 4, "onewriter"), (3, 2000, 0, 2, 4, "onewriter")]
    else:
        runs = [(t, n, lim, names, 3) for t in (2, 3, 4, 8) for (n, lim, names) in ((4000, 0, 3), (3000, 2, 4), (3000, 1, 2), (3000, 4, 8))]
        runs += [(t, 1500, lim, names, 3, "proc") for t in (2, 4, 8) for (lim, names) in ((0, 3), (2, 4), (1, 2))]
        runs += [(t, 4000, lim, 5, 3, "collide") for t in (2, 4, 8) for lim in (0, 3, 64)]
        runs += [(t, 1500, lim, 3, 5, "onewriter") for t in (3, 4, 8) for lim in (0, 2)]
    n = 0
    for spec in runs:
        n += 1
        raw = os.path.join(ctx.work, "c09-%d.raw" % n)
        srt = os.path.join(ctx.work, "c09-%d.ndjson" % n)
        henv = {"VERIF_COLLIDE": "1"} if spec[-1] == "collide" else ({"VERIF_ONEWRITER": "1"} if spec[-1] == "onewriter" else None)
        if henv:
            spec = spec[:-1]
        rc, out, err = ctx.run_harness(exe, spec, trace=raw, timeout=600, env=henv)
        if rc != 0:
            # a crash of the cache under concurrent use is a violation candidate only if it repeats
            rc2, out2, err2 = ctx.run_harness(exe, spec, trace=raw, timeout=600, env=henv)
            if rc2 != 0:
                rp = os.path.join(ctx.replays, "crash-%d.txt" % n)
                open(rp, "w").write("conc_drv %s\nrc=%s\n%s" % (spec, rc2, err2[-3000:]))
                ctx.violation("conc-crash", "concurrent cache driver crashed twice (rc=%s) with %s" % (rc2, (spec,)), rp)
                continue
        p = subprocess.run([os.path.join(ROOT, "bin", "tracesort"), raw, srt], stderr=subprocess.PIPE, text=True)
        if p.returncode != 0:
            ctx.undecided.append("tracesort failed: " + p.stderr[-300:])
            continue
        with open(srt) as f:
            lines = f.readlines()
        if n == 1:
            ctx.sample({"driver(threads,ops,limit,names,rounds[,proc])": list(spec), "first_events": [x.strip() for x in lines[:14]]})
        for ln in lines[:20000]:
            ctx.seen(ln.split('"e":', 1)[1][:50])
        rej = ctx.validate("Cache/ConcTrace.tla", "ConcTrace.cfg", srt, dfs=True, timeout=900)
        if n == 1 and not rej:
            ctx.binding_selftest("Cache/ConcTrace.tla", "ConcTrace.cfg", srt, [("drop-unlock", drop_first('"e":"Unlock","m":"wr"')), ("wrong-ret-value", wrong_ret), ("drop-lin", drop_first('"e":"Lin","op":"store"'))], dfs=True)
        for x in rej:
            ev = x["event"]
            kind = "lock-discipline" if '"Lock"' in ev or '"Unlock"' in ev else ("stuck" if '"Stuck"' in ev else ("lin" if '"Lin"' in ev else "ret"))
            ctx.violation("conc:%s" % kind, "concurrent trace is not a behaviour of ConcTrace at %s" % ev[:160], x["path"])
        os.remove(raw); os.remove(srt)
    if not q:
        tsan(ctx)
    ctx.extra["rule"] = ("executions = rounds of N threads x M random operations on one shared cache; events = Inv/Lock/Lin/Unlock/Ret lines validated; "
                         "distinct = distinct event texts (without seq/tid) among the first 20000 of each run")


def drop_first(pat):
    def f(lines):
        for i, ln in enumerate(lines):
            if pat in ln and i > 20:
                return lines[:i] + lines[i + 1:]
        return None
    return f


def wrong_ret(lines):
    import re as _re
    for i, ln in enumerate(lines):
        if '"e":"Ret","hit":true' in ln:
            lines[i] = _re.sub(r'"v":(-?\d+)', lambda m: '"v":%d' % (int(m.group(1)) + 7), ln, 1)
            return lines
    return None


def tsan(ctx):
    """observability aid (DESIGN.md 5): same driver with the library built with -fsanitize=thread."""
    try:
        exe = ctx.harness("conc_drv", ["cache/conc_drv.cpp"], flavour="tsan")
    except SystemExit:
        raise
    raw = os.path.join(ctx.work, "c09-tsan.raw")
    rc, out, err = ctx.run_harness(exe, (4, 2000, 2, 3, 2), trace=raw, timeout=900,
                                   env={"TSAN_OPTIONS": "exitcode=66 halt_on_error=1 second_deadlock_stack=1"})
    ctx.extra["tsan"] = {"rc": rc, "report": err[-1500:] if rc == 66 else ""}
    if rc == 66 and "cache_storage" in err:
        rp = os.path.join(ctx.replays, "tsan.txt")
        open(rp, "w").write(err)
        ctx.violation("conc:tsan-race", "ThreadSanitizer reports a data race in the cache", rp)
