"""G05 (growth, not a listed property): JSON-RPC server dispatch - src/rpc_json.cpp, cppcms/rpc_json.h.
One call = Received -> Parsed -> Dispatched -> InHandler -> Returned -> {Done | Pending -> Done}.
 (a) a request is answered at most once; nothing for a notification ("id":null - an absent id is a protocol error in this code)
 (b) the response id echoes the request id; exactly one of error / result is non-null
 (c) the registered function runs iff POST + application/json|jsonrequest|json-rpc + JSON object with string method, array params,
     present id, registered name, role fits, params size = arity, every parameter convertible; otherwise it is not invoked and the
     rejection is reported (text/plain for protocol errors, a JSON-RPC error for calls, silence for notifications)
 (d) invoked exactly once with exactly the converted parameters in order
 (e) a second answer throws and leaves the response alone; a released call destroyed without answer sends nothing at all
     (named deviation "abandoned", Rpc_named_abandon.cfg shows it reachable in the design).
Leg D: spec/Rpc/Rpc.tla, all requests of three bounded families (front end, shapes x registered methods, handler programs);
       five seeded design bugs must be found.
Leg B: harness/rpc/rpc_drv.cpp drives four real json_rpc_server applications (sync / async mount, with / without SMD) through
       http::context::run() over a network-free connection; RpcTrace.tla judges every recorded call against Rpc!RunF.
"""
import os, json, re
import fnval
import harnesses

WHAT = {
    "died": "the process died inside the call",
    "hang": "the call never finished",
    "spurious-dispatch": "(c) a registered function ran for a request that must not be dispatched",
    "not-dispatched": "(c) dispatchable request, but the registered function was not invoked",
    "multi-dispatch": "(d) the registered function ran more than once",
    "wrong-function": "(d) another registered function ran",
    "wrong-args": "(d) the function did not receive exactly the converted parameters in order",
    "garbage": "(a) the response body contains bytes that are no complete JSON document",
    "multi-answer": "(a) more than one response document for one request",
    "notif-answered": "(a) a notification got a response body",
    "bad-doc": "(b) the response is not an object with exactly id, error, result",
    "id-mismatch": "(b) the response id differs from the request id",
    "not-one-of": "(b) error and result are both null or both non-null",
    "missing-answer": "(a)(c) no response document although the call must be answered",
    "wrong-answer": "(a) the response is not the first effective answer",
    "unexpected-answer": "(a)(c) a response document although nothing must be sent",
    "no-throw": "(e) an answer on an answered / released / notification call did not throw",
    "spurious-throw": "an answer that must succeed threw",
    "unreported": "(c) a rejected request got no error indication",
    "completion": "the response was completed twice / never / although the call was abandoned",
    "smd": "GET with SMD configured did not return the SMD text",
    "extra-ops": "the handler program ran further than the design allows",
    "missing-ops": "the handler program stopped earlier than in the design",
    "other-op": "driver and design disagree on the handler program",
    "driver": "driver error",
}


def sig_of(c, d, line):
    return "rpc:%s:%s" % (c, d) if d else "rpc:" + c


def describe(c, d, line):
    try:
        ev = json.loads(line)
        brief = {k: ev.get(k) for k in ("n", "app", "smd", "http", "ct", "bk", "raw", "mname", "script", "inv", "ops", "st", "ctype", "body", "weof", "deof", "died", "sig")}
        brief["reg"] = ev.get("reg")
    except Exception:
        brief = line[:300]
    return "%s (%s) event=%s" % (WHAT.get(c, c), d, json.dumps(brief)[:900])


def corrupt(field_from, field_to, k=3):
    """replace the k-th occurrence of a text in a line that has a response document"""
    def f(lines):
        n = 0
        for i, ln in enumerate(lines):
            if '"e":"Call"' in ln and field_from in ln and '"docs":[{' in ln:
                n += 1
                if n == k:
                    lines[i] = ln.replace(field_from, field_to, 1)
                    return lines
        return None
    return f


def drop_inv(lines):
    n = 0
    for i, ln in enumerate(lines):
        if '"inv":[{' in ln:
            n += 1
            if n == 5:
                lines[i] = re.sub(r'"inv":\[\{.*?\}\],"ops"', '"inv":[],"ops"', ln, count=1)
                return lines
    return None


def dup_doc(lines):
    n = 0
    for i, ln in enumerate(lines):
        m = re.search(r'"docs":\[(\{.*?\})\],"junk"', ln)
        if m:
            n += 1
            if n == 7:
                lines[i] = ln.replace(m.group(0), '"docs":[%s,%s],"junk"' % (m.group(1), m.group(1)), 1)
                return lines
    return None


def run(ctx):
    q = ctx.quick
    W = int(os.environ.get("VERIF_WORKERS", "4"))
    ctx.assumptions += [
        "JSON values are logged in an abstract form (kind + small payload) produced by the driver from the real json::value; well-formedness of JSON texts is C11's subject - "
        "the malformed bodies used here are truncated / trailing-garbage / single-quoted texts",
        "the handler program (answer, answer twice, throw, release_call, later answer / destruction) is part of the input; answers use json_rpc_server::return_* inside the handler and "
        "json_call::return_* on the released call",
        "exact rejection texts, HTTP status (200) and content type of rejections are compared at drift level only",
        "a released call that is destroyed without an answer sends nothing and never completes the response (named deviation 'abandoned')",
    ]
    # ---------------------------------------------------------------- Leg D
    if q:
        ctx.design("Rpc/Rpc.tla", "Rpc_quick.cfg", workers=W, timeout=240, note="front x shapes (params <= 2 of 6 values, 4 signatures x 3 roles + raw) x 26 handler programs")
    else:
        ctx.design("Rpc/Rpc.tla", "Rpc.cfg", workers=W, timeout=1500, note="front x shapes (params <= 3 of 10 values, 6 signatures x 3 roles + raw) x 26 handler programs")
    for cfg, inv in (("Rpc_bug_noguard.cfg", "AtMostOnce"), ("Rpc_bug_noguard_crash.cfg", "NoCrash"), ("Rpc_bug_notifwrite.cfg", "NotifSilent"),
                     ("Rpc_bug_arity.cfg", "DispatchIff"), ("Rpc_bug_idlost.cfg", "IdEcho"), ("Rpc_bug_role.cfg", "DispatchIff")):
        ctx.design("Rpc/Rpc.tla", cfg, workers=2, timeout=300, expect_violation=inv, count=False, note="seeded design bug must violate " + inv)
    ctx.design("Rpc/Rpc.tla", "Rpc_named_abandon.cfg", workers=2, timeout=300, expect_violation="NeverAbandoned", count=False,
               note="named deviation: a released call destroyed without answer leaves the client without any response (reachable in the design)")
    ctx.extra["named_deviation"] = "abandoned: release_call() + destruction of the json_call without return_result/return_error -> no byte is sent, the response is never completed"
    ctx.extra["exhaustive"] = True
    # ---------------------------------------------------------------- Leg B
    srcs, extra = harnesses.ALL["rpc_drv"]
    exe = ctx.harness("rpc_drv", srcs, extra=extra)
    runs = [("front",), ("shape",), ("script",)]
    if q:
        runs += [("rand", 3000, 0), ("rand", 3000, 1)]
    else:
        runs += [("rand", 20000, s) for s in range(10)]
    traces = []
    for i, spec in enumerate(runs):
        t = os.path.join(ctx.work, "g05-%d.ndjson" % i)
        rc, out, err = ctx.run_harness(exe, spec, trace=t, timeout=1200)
        if rc != 0:
            ctx.undecided.append("rpc_drv %s failed rc=%s %s" % (spec, rc, (err or "")[-500:]))
            continue
        traces.append((spec, t))
        with open(t) as f:
            for n, ln in enumerate(f):
                if '"e":"Call"' not in ln:
                    continue
                if n < 20000:
                    try:
                        ev = json.loads(ln)
                        ctx.seen("%s|%s|%s|%s|%s|%s|%s|%d" % (ev["app"], ev["http"], ev["ct"], ev["bk"], ev["mname"], ev["id"]["v"]["k"] if ev["id"]["has"] else "-",
                                                          ",".join(ev["script"]), len(ev["params"]["v"].get("a", [])) if ev["params"]["has"] else -1))
                    except Exception:
                        pass
                if i < 3 and n in (1, 2):
                    ctx.sample({"driver": list(spec), "event": ln.strip()[:700]})
    results = fnval.judge_many(ctx, "Rpc/RpcTrace.tla", "RpcTrace.cfg", [t for _, t in traces], threads=4)
    drift = {}
    clean = None
    for (spec, t), res in zip(traces, results):
        for x in res["rejects"]:
            ctx.violation("rpc-trace:%s" % x["event"][:40], "rpc trace not explained by Rpc.tla at %s" % x["event"][:200], x["path"])
        keep = []
        unconfirmed = [f for f in res["flags"] if f[0] in ("died", "hang")]
        confirmed = confirm_deaths(ctx, exe, spec, res, unconfirmed) if unconfirmed else set()
        for c, d, ln in res["flags"]:
            if c.startswith("drift-"):
                drift.setdefault("%s/%s" % (c, d), res["lines"][ln - 1][:400])
            elif c in ("died", "hang") and ln not in confirmed:
                ctx.undecided.append("worker death in %s not reproduced on a second run: %s" % (spec, res["lines"][ln - 1][:300]))
            else:
                keep.append((c, d, ln))
        res["flags"] = keep
        if not keep and not res["rejects"] and clean is None and spec[0] in ("front", "shape"):
            clean = t
        fnval.account(ctx, res, sig_of, describe, tag="g05")
    for k, ex in sorted(drift.items()):
        ctx.drift.append("%s: rejection text / status / content type differs from the code the model was written against, e.g. %s" % (k, ex))
    # binding self-test: in strict mode a flagged event is not accepted at all
    if clean:
        ctx.binding_selftest("Rpc/RpcTrace.tla", "RpcTraceStrict.cfg", clean,
                             [("wrong-id", corrupt('"docs":[{"ok":true,"nk":3,"id":{"k":"int","i":1}', '"docs":[{"ok":true,"nk":3,"id":{"k":"int","i":2}')),
                              ("drop-invocation", drop_inv), ("second-document", dup_doc),
                              ("result-and-error", corrupt('"error":{"k":"null"},"result":{"k":"int"', '"error":{"k":"str","s":"x"},"result":{"k":"int"', 4))])
    else:
        ctx.extra["binding_selftest"] = "skipped: no family without a flagged event (reported by the main leg)"
    ctx.extra["rule"] = ("events = recorded requests judged by TLC against Rpc!RunF (one Call event each: request, registered method, handler program, observed invocations, "
                         "answer operations, response); executions = Reset-delimited blocks of 200 requests without a flagged event; "
                         "distinct = distinct (mount, http method, content type, body class, method name, id kind, handler program, params size) tuples driven")


def confirm_deaths(ctx, exe, spec, res, flags):
    """a worker death / hang is a finding only if the same request dies again in a second run of the same family"""
    t2 = os.path.join(ctx.work, "g05-confirm-%s.ndjson" % "-".join(str(x) for x in spec))
    rc, out, err = ctx.run_harness(exe, spec, trace=t2, timeout=1200)
    again = set()
    if rc == 0:
        for ln in open(t2):
            if '"died":true' in ln or '"hang":true' in ln:
                try:
                    again.add(json.loads(ln)["n"])
                except Exception:
                    pass
    ok = set()
    for c, d, ln in flags:
        try:
            if json.loads(res["lines"][ln - 1])["n"] in again:
                ok.add(ln)
        except Exception:
            pass
    return ok
