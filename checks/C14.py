"""C14 - text validators accept exactly the well-formed strings of their encoding.

Leg D: spec/Text/Utf8.tla - RFC 3629 ABNF, HTML-safe restriction, code-point count, the decoder
       DFA of utf8::next / utf_traits<char>::decode, the byte-class partition, Filter and the
       code-page tables.  TLC: DFA == ABNF (verdict, length, value) on all sequences of <= 4
       class representatives, the ABNF is the RFC's encoding table restricted to scalar values,
       the verdict depends on byte classes only and the value is affine in the bytes (which is
       what makes the exported table exact), Filter laws, code-page tables conform.
Leg B: harness/text/utf8_drv.cpp.  TLC exports the verdict table (Utf8Export.tla); the harness runs
       every byte sequence (quick: all of length <= 3 and all class-boundary 4-tuples; thorough: all
       2^32 + shorter) through both decoders / both modes and compares with the table; mismatches,
       sweep summaries, samples, all bytes / byte pairs per code-page name and random strings through
       the whole-string validators, counters and validate_or_filter are trace events judged by
       Utf8Trace.tla with the predicates of Utf8.tla.
"""
import os, json, threading
import textlib
from textlib import ev, hexs


def run(ctx):
    q = ctx.quick
    ctx.assumptions += [
        "HT, LF and CR are exempt from 'never a C0 control' for the single-byte validators as they are in the HTML-safe UTF-8 mode "
        "(the code accepts them; the property layer neither demands nor forbids them, the mechanism layer expects them accepted)",
        "exact per-code-page tables (undefined positions), exact filter output and the incomplete/illegal distinction of booster's "
        "decoder are mechanism-layer facts: a deviation is reported as MODEL-DRIFT, not as a violation",
        "the replacement character given to validate_or_filter is 0 or an HTML-safe ASCII character when the output is required to be valid",
        "windows-1254 / cp1254 are not registered in validators_set and are validated through iconv/ICU conversion; only the property layer applies to them",
        "the exported table is exact for all concrete inputs because (TLC-checked) every range used by grammar, restriction and decoder is a union "
        "of byte classes and the scalar value is affine in the bytes with the exported weights",
    ]
    exe = ctx.harness("utf8_drv", ["text/utf8_drv.cpp"], extra=["-O2"])
    pool = textlib.Pool(ctx, jobs=6 if q else 10)
    nthreads = 6 if q else 12

    # ------------------------------------------------------------------ Leg B jobs
    def sweep_job():
        table = os.path.join(ctx.work, "utf8-table.json")
        r = ctx.tlc("Text/Utf8Export.tla", "Utf8Export.cfg", workers=1, env={"TABLE_OUT": table}, count=False, deadlock_off=True,
                    note="exports the verdict table of the ABNF per byte-class sequence")
        if r.failed or not os.path.exists(table):
            ctx.undecided.append("table export failed rc=%s\n%s" % (r.rc, r.out[-2000:]))
            return
        nsh = 2 if q else 8
        prefix = os.path.join(ctx.work, "utf8-samples")
        sweepf = os.path.join(ctx.work, "utf8-sweep.ndjson")
        rc, out, err = ctx.run_harness(exe, ["sweep", table, prefix, nsh, sweepf, nthreads], timeout=1500)
        if rc != 0:
            ctx.undecided.append("utf8_drv sweep failed rc=%s %s" % (rc, err[-800:]))
            return
        sweeps = []
        for d in range(3):
            sweeps += [json.loads(x) for x in open("%s.%d" % (sweepf, d)) if '"e":"Sweep"' in x]
        if len(sweeps) != 12:
            ctx.undecided.append("expected 12 sweep summaries, found %d" % len(sweeps))
        ctx.extra["sweeps"] = ["%s%s len=%d %s: %d sequences, %d mismatches" % (
            s["dec"], "/html" if s["html"] else "", s["len"], s["kind"], s["n_hi"] * 65536 + s["n_lo"], s["mism"]) for s in sweeps]
        ctx.extra["sequences_compared_with_table"] = sum(s["n_hi"] * 65536 + s["n_lo"] for s in sweeps)
        ctx.sample({"sweep": sweeps[-1]})
        for d in range(3):
            for x in pool.validate("Text/Utf8Trace.tla", "Utf8Trace.cfg", "%s.%d" % (sweepf, d), max_rejects=3):
                report(ctx, x)
        fs = []
        for i in range(nsh):
            f = "%s.%d.ndjson" % (prefix, i)
            note(ctx, f)
            fs.append(pool.ex.submit(validate_shard, f))
        for f in fs:
            f.result()

    def validate_shard(f, strict=False):
        if strict:
            # the mechanism layer implies the property layer: one run suffices when it accepts
            drift = pool.validate("Text/Utf8Trace.tla", "Utf8TraceStrict.cfg", f, max_rejects=1)
            if not drift:
                os.remove(f)
                return
        rej = pool.validate("Text/Utf8Trace.tla", "Utf8Trace.cfg", f, max_rejects=3)
        for x in rej:
            report(ctx, x)
        if strict and not rej:
            ctx.drift.append("mechanism layer (exact tables / filter output) differs at %s" % json.dumps(ev(drift[0]))[:300])
        os.remove(f)

    def strings_job(i, n, pieces):
        f = os.path.join(ctx.work, "utf8-strings-%d.ndjson" % i)
        rc, out, err = ctx.run_harness(exe, ["strings", n + i, pieces], trace=f, timeout=600)
        if rc in (-11, -6, -7, -8, -4):
            # the validators / filters under test died on a signal (out-of-bounds walk, abort): deterministic single-threaded driver
            rp = os.path.join(ctx.replays, "utf8-died-strings-%d.txt" % (i))
            open(rp, "w").write("utf8_drv %s (VERIF_SEED=%s) died on signal %d\n%s\n" % (" ".join(map(str, ["strings", n + i, pieces])), ctx.seed, -rc, err[-3000:]))
            ctx.violation("utf8-died-strings", "the validator / filter code died on signal %d while the driver fed it strings inputs" % -rc, rp)
            return
        if rc != 0:
            ctx.undecided.append("utf8_drv strings failed rc=%s %s" % (rc, err[-800:]))
            return
        note(ctx, f)
        if i == 0:
            with open(f) as fh:
                ctx.sample({"strings": [fh.readline().strip()[:300] for _ in range(3)][1:]})
        validate_shard(f, strict=True)

    def codepages_job(a, b):
        f = os.path.join(ctx.work, "utf8-cp-%d.ndjson" % a)
        rc, out, err = ctx.run_harness(exe, ["codepages", a, b], trace=f, timeout=600)
        if rc in (-11, -6, -7, -8, -4):
            # the validators / filters under test died on a signal (out-of-bounds walk, abort): deterministic single-threaded driver
            rp = os.path.join(ctx.replays, "utf8-died-codepages-%d.txt" % (a))
            open(rp, "w").write("utf8_drv %s (VERIF_SEED=%s) died on signal %d\n%s\n" % (" ".join(map(str, ["codepages", a, b])), ctx.seed, -rc, err[-3000:]))
            ctx.violation("utf8-died-codepages", "the validator / filter code died on signal %d while the driver fed it codepages inputs" % -rc, rp)
            return
        if rc != 0:
            ctx.undecided.append("utf8_drv codepages failed rc=%s %s" % (rc, err[-800:]))
            return
        note(ctx, f)
        validate_shard(f, strict=True)

    jobs = [threading.Thread(target=pool._guard, args=(sweep_job,))]
    nstr = 4 if q else 16
    per = 1500 if q else 6500
    for i in range(nstr):
        jobs.append(threading.Thread(target=pool._guard, args=(strings_job, i, per, 24)))
    ncp = 38
    step = 13 if q else 5
    for a in range(0, ncp, step):
        jobs.append(threading.Thread(target=pool._guard, args=(codepages_job, a, a + step)))
    for j in jobs:
        j.start()

    # ------------------------------------------------------------------ Leg D (main thread)
    r = ctx.design("Text/Utf8.tla", "Utf8_quick.cfg" if q else "Utf8.cfg", workers=10 if q else 16, timeout=1500,
                   note="all sequences of <=4 byte-class representatives (%s per class); Filter laws on strings <=%d over 15 bytes"
                        % (("lo/hi", 4) if q else ("lo, lo+1, mid, hi-1, hi", 5)))
    if r.violated:
        # name the law that failed
        r2 = ctx.tlc("Text/Utf8.tla", "Utf8_named.cfg", workers=8, timeout=600, count=False)
        ctx.extra["failed_law"] = r2.violated

    for j in jobs:
        j.join()
    pool.ex.shutdown()
    ctx.extra["exhaustive"] = True
    ctx.extra["rule"] = ("evaluations = trace events judged by TLC (decoder calls, sweep summaries, whole-string validator / counter / filter calls, "
                         "code-page tables and pair rows); sequences_compared_with_table = concrete byte sequences x decoders compared with the "
                         "TLC-exported verdict table; distinct = distinct (event, function, verdict) classes")


def note(ctx, f):
    """distinct (event, function/decoder, verdict) classes of a trace file"""
    with open(f) as fh:
        for n, ln in enumerate(fh):
            if n > 30000:
                break
            if ln.startswith('{"e":"Reset"'):
                continue
            try:
                e = json.loads(ln)
            except Exception:
                continue
            k = e["e"]
            if k == "Next":
                ctx.seen(("Next", e["dec"], e["html"], len(e["in"]), e["ok"], e["n"]))
            elif k == "Str":
                ctx.seen(("Str", e["fn"], e["ok"], min(len(e["in"]) // 16, 8)))
            elif k == "Filter":
                ctx.seen(("Filter", e["repl"], e["ret"], min(len(e["in"]) - len(e["out"]), 6) if not e["ret"] else 0))
            elif k in ("StrCp", "FilterCp", "CpTable"):
                ctx.seen((k, e["cp"], e["name"], e.get("ok", e.get("ret"))))
            elif k == "CpRow":
                ctx.seen((k, e["cp"], e["a"] // 32))


def report(ctx, x):
    e = ev(x)
    k = e.get("e", "end")
    mode = (e.get("dec", "") + ("-html" if e.get("html") else ""))
    if k == "Next":
        sig = "next:%s:%s" % (mode, hexs(e["in"]))
        desc = ("decoder %s on bytes %s: implementation says ok=%s n=%s cp=%s, specification table says n=%s [%s..%s]"
                % (mode, hexs(e["in"]), e["ok"], e["n"], e["cp"], e["tn"], e["tlo"], e["thi"]))
    elif k == "Sweep":
        sig = "sweep:%s:len%d" % (mode, e["len"])
        desc = "sweep of %s sequences of length %d through %s: %d disagree with the specification table" % (e["kind"], e["len"], mode, e["mism"])
    elif k == "Str":
        sig = "str:%s:%s" % (e["fn"], "accepts-invalid-or-miscounts" if e["ok"] else "rejects-valid")
        desc = "%s on %s returned ok=%s count=%s" % (e["fn"], hexs(e["in"])[:120], e["ok"], e["count"])
    elif k == "Filter":
        sig = "filter:utf8:repl%d:%s" % (e["repl"], "ret" if e["ret"] else "out")
        desc = "validate_or_filter(utf-8) on %s repl=%d returned %s out=%s" % (hexs(e["in"])[:120], e["repl"], e["ret"], hexs(e["out"])[:120])
    elif k in ("CpTable", "CpRow", "StrCp", "FilterCp"):
        sig = "%s:%s" % (k.lower(), e.get("cp"))
        if k == "CpRow":
            sig += ":%02x" % e["a"]
        desc = "single-byte validator %s (%s): %s" % (e.get("cp"), e.get("name", ""), json.dumps(e)[:200])
    else:
        sig = "trace:" + k
        desc = "trace not explained at %s" % x["event"][:160]
    ctx.violation(sig, desc, x["path"])
