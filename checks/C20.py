"""C20 - URL routing is deterministic, whole-string, and consistent with URL generation.

Leg D: spec/Route/Route.tla - the dispatch scan with a backtracking matcher over every option list of
       the bounded family x every request x methods (FirstMatch, NoPrefix, MatcherAgrees) and every
       mapper chain of depth <= 3 x key forms x parameters (MapThenRoute); seeded faults of the model
       (regex_search, reverse scan, case-insensitive method, wrong parent parameter, "$" as end anchor) must be caught;
       mount points (capture-less / capturing regex_match overloads) are modelled too (PoolWhole).
Leg B: harness/route/route_drv.cpp builds real application trees / mount points over a cppcms::service
       (real booster::regex), dispatches and maps; every observation must equal what
       spec/Route/RouteRef.tla computes from the logged configuration (RouteTrace.tla).
"""
import os, json, threading
import pvalidate as pv


def _b(v):
    try:
        return bytes(v).decode("latin1")
    except Exception:
        return str(v)


def describe(evline, ex):
    try:
        e = json.loads(evline)
    except Exception:
        return evline[:200]
    cfg = ""
    mounts = []
    for ln in ex:
        if '"e":"PMount"' in ln or '"e":"PGone"' in ln:
            try:
                c = json.loads(ln)
                if c["e"] == "PMount":
                    m = c["mp"]
                    mounts.append("#%d %s(%s) %s host=%s script=%s path=%s grp=%s" % (c["id"], c["kind"], c["api"], m["sel"], m["host"].get("re"),
                                                                                      m["script"].get("re"), m["path"].get("re"), m["grp"]))
                else:
                    mounts.append("#%d %s" % (c["id"], c["how"]))
            except Exception:
                pass
        if '"e":"Cfg"' in ln:
            try:
                c = json.loads(ln)
                cfg = " | tree: " + "; ".join(
                    "node%d(parent %d%s): " % (i + 1, n["parent"], (" as " + n["mname"]) if n["mname"] else "") +
                    ", ".join(("%s%s %r%s sel=%s" % ("mount->" if o["t"] == "m" else "h", o.get("child", o.get("id")), o["re"],
                                                      (" [" + o["meth"]["text"] + "]") if o.get("meth", {}).get("k", "none") != "none" else "", o["sel"]))
                              for o in n["opts"])
                    for i, n in enumerate(c["nodes"]))
            except Exception:
                pass
    if mounts:
        cfg = " | mounts in registration order: " + "; ".join(mounts)
    hits = [(h["app"], h["id"], [_b(a) for a in h["args"]]) for h in e.get("hits", [])]
    if e.get("e") == "Req":
        return "dispatch %r %r -> hits=%s status=%s%s" % (e["m"], _b(e["p"]), hits, e["st"], cfg[:1500])
    if e.get("e") == "Map":
        return "map from node %s key %r params=%s -> ok=%s url=%r; routed (%s): hits=%s status=%s (key belongs to node %s handler %s)%s" % (
            e["app"], e["key"], [_b(p) for p in e["params"]], e["ok"], _b(e["url"]), e.get("m"), hits, e["st"], e["tapp"], e["tid"], cfg[:1500])
    if e.get("e") == "PReq":
        return "pool lookup host=%r script=%r path=%r -> mount point #%s matched=%r%s" % (_b(e["h"]), _b(e["s"]), _b(e["p"]), e["idx"], _b(e["matched"]), cfg[:1500])
    return evline[:300]


def signature(evline):
    try:
        e = json.loads(evline)
    except Exception:
        return "end-of-trace"
    k = e.get("e")
    if k == "Req":
        return "route:%s:hits=%d:st%s" % (json.dumps(e["m"])[1:-1], len(e["hits"]), e["st"])
    if k == "Map":
        return "map:ok=%s:hits=%d" % (str(e["ok"]).lower(), len(e["hits"]))
    if k == "PReq":
        return "pool:%s" % ("none" if e["idx"] == 0 else "found")
    return "route:" + str(k)


def run(ctx):
    q = ctx.quick
    W = 8
    ctx.assumptions += [
        "pattern family with decidable, unambiguous languages: literal text, (\\d+), (\\w+), (.*), alternation, optional trailing slash, "
        "'rest' = ((?:/.*)?) / (/.*)?; every group is delimited by '/' literals; an ambiguous split makes the spec silent (none occurs)",
        "the regex text given to booster::regex is generated from the logged abstract pattern by the harness (regex_text)",
        "method filters come from a family given in abstract syntax (plain verbs, (A|B), (?:A|B), unparenthesised A|B ending in a letter, "
        "P(UT|ATCH)|MOVE, [A-Z]+, GET|POST?, the empty filter, mixed forms); TLC computes the language from the abstract expression, the code "
        "gets the text; request methods are drawn inside / outside the languages, as the filter text itself, in lower case, empty, with line ends",
        "handlers take std::string parameters (typed url parameters that fail to parse fall through to the next handler by design - not driven)",
        "request strings contain no NUL (DESIGN.md section 6 F10: option::matches passes path.c_str(); API-level only); CR and LF ARE driven: "
        "a word of a language followed by a line end (+ more text) in path-info, script-name, host and method must not match "
        "('.' does not match LF, as in PCRE's default)",
        "MapThenRoute presupposes that dispatcher regex and mapper template come from the same abstract pattern, parameters lie in the group "
        "languages and URLs of mounted children are empty or start with '/'; an earlier registration that also matches the URL legitimately shadows the target",
        "a mount never falls back to later options of the parent when the child answers 404 (as in the code; the property's 'first mount point, then first handler')",
        "applications pool: both lists are driven - pool / factory mounts (asynchronous, synchronous, thread-specific, legacy factory) and legacy "
        "asynchronous application objects, mixed, overlapping (nested path prefixes, catch-alls, host patterns, different group selections), mounted "
        "late, unmounted, destroyed in between; each look-up is identified by asking the returned pool for its application (a tag carried by the "
        "application; application_specific_pool::get is private, the harness is built with -fno-access-control); a legacy application is only "
        "destroyed after it has served a look-up (before that the pool would keep a dangling pointer - API hazard, not driven); one service per pool configuration",
        "mapper keys (absolute, '..', children) and keyword defaults are resolved in the MAPPER hierarchy (url_mapper::mount), which the drivers "
        "build independently of the dispatcher tree and of the add()/attach() application hierarchy (6 wiring styles per level, incl. an unnamed "
        "front application above a named hierarchy and levels mounted without add()); the top of a mapper hierarchy that is not the root "
        "application gets the path it is reached by as its root string; applications mounted without add() get the context assigned by the driver",
    ]
    X = ["-noGenerateSpecTE"]

    def leg_d():
        ctx.design("Route/Route.tla", "Route_quick.cfg" if q else "Route.cfg", workers=W, timeout=1700, heap="6g", deadlock_off=True, extra=X,
                   note="every level option list (<=2 handlers, <=1 mount, 9 handler kinds, 2 mount patterns) x requests (incl. word+LF) x methods (incl. GET+LF); mapper chains depth<=3; mount points x host/script/path incl. line ends")
        for cfg, inv in (("Route_mut_search.cfg", "MatcherAgrees"), ("Route_mut_reverse.cfg", "FirstMatch"),
                         ("Route_mut_icase.cfg", "FirstMatch"), ("Route_mut_wrongparam.cfg", "MapThenRoute"),
                         ("Route_mut_dollar.cfg", "NoPrefix"), ("Route_mut_approot.cfg", "MapThenRoute"),
                         ("Route_mut_lastwins.cfg", "PoolFirst"), ("Route_mut_lastchar.cfg", "FirstMatch")):
            ctx.design("Route/Route.tla", cfg, workers=W, timeout=900, deadlock_off=True, extra=X, expect_violation=inv, count=False,
                       note="self-test: seeded fault in the model must violate " + inv)

    td = threading.Thread(target=leg_d)
    td.start()
    try:
        leg_b(ctx, q)
    finally:
        td.join()


def leg_b(ctx, q):
    exe = ctx.harness("route_drv", ["route/route_drv.cpp"], extra=["-fno-access-control"])   # application_specific_pool::get is private
    jobs = []
    if q:
        jobs += [("fam%d" % i, ["fam", 2, i, 6]) for i in range(6)]
        jobs += [("rand%d" % i, ["rand", 40, 40], {"VERIF_SEED": str(ctx.seed * 10 + i)}) for i in range(3)]
        jobs += [("pool", ["pool", 150, 40])]
    else:
        jobs += [("fam%d" % i, ["fam", 4, i, 24]) for i in range(24)]
        jobs += [("rand%d" % i, ["rand", 250, 60], {"VERIF_SEED": str(ctx.seed * 10 + i)}) for i in range(8)]
        jobs += [("pool%d" % i, ["pool", 400, 60], {"VERIF_SEED": str(ctx.seed * 10 + i)}) for i in range(2)]
    stats = {"configs": 0, "requests": 0, "maps": 0}
    seen_sig = set()

    def job(j):
        name, args = j[0], j[1]
        env = j[2] if len(j) > 2 else {}
        c = pv.sub(ctx, name)
        t = os.path.join(c.work, name + ".ndjson")
        rc, out, err = c.run_harness(exe, args, trace=t, env=env, timeout=1500)
        if rc != 0:
            ctx.undecided.append("route_drv %s failed rc=%s %s" % (args, rc, (err or out)[-800:]))
            return
        try:
            kv = dict(x.split("=") for x in out.split())
            with pv._lock:
                for k in stats:
                    stats[k] += int(kv.get(k, 0))
        except Exception:
            pass
        with open(t) as f:
            lines = f.readlines()
        with pv._lock:
            for ln in lines[:4000]:
                try:
                    e = json.loads(ln)
                    if e["e"] in ("Req", "Map"):
                        ctx.seen((e["e"], e.get("m"), len(e["hits"]), e["st"], e.get("ok"), len(e["hits"][0]["args"]) if e["hits"] else -1, e.get("abs"),
                                  len(e.get("comps", []))))
                    elif e["e"] == "PReq":
                        ctx.seen(("PReq", e["idx"] > 0, len(e["matched"]) > 0))
                except Exception:
                    pass
            if len(ctx.samples) < 8:
                for ln in lines:
                    if '"hits":[{' in ln:
                        ctx.sample({"driver": [str(a) for a in args], "event": ln.strip()[:600]})
                        break
        for sh in split(t, 40000):
            rej = c.validate("Route/RouteTrace.tla", "RouteTrace.cfg", sh, max_rejects=4, env=pv.JENV, timeout=1700, heap="3g")
            for x in rej:
                sg = signature(x["event"])
                with pv._lock:
                    dup = sg in seen_sig
                    seen_sig.add(sg)
                if not dup:
                    ctx.violation(sg, describe(x["event"], x["exec"]), x["path"])
        pv.merge(ctx, c)

    pv.run_parallel([(lambda j=j: job(j)) for j in jobs], workers=6)
    ctx.extra.update(stats)
    ctx.extra["exhaustive"] = True
    ctx.extra["rule"] = ("events = Cfg/Req/Map/Pool/PReq lines validated by TLC; executions = configurations (Reset-delimited); configs/requests/maps = "
                         "trees or pools built, dispatches, mapper calls on the real code; distinct = distinct (event, method, #hits, status, ok, #args, key form) classes")


def split(path, n):
    """split at Reset lines into files of about n lines (a configuration is never cut)"""
    with open(path) as f:
        lines = f.readlines()
    if len(lines) <= n * 1.3:
        return [path]
    out, cur = [], []
    for ln in lines:
        if '"e":"Reset"' in ln and len(cur) >= n:
            out.append(cur)
            cur = []
        cur.append(ln)
    if cur:
        out.append(cur)
    paths = []
    for i, chunk in enumerate(out):
        p = "%s.s%d" % (path, i)
        with open(p, "w") as f:
            f.writelines(chunk)
        paths.append(p)
    return paths
